package main

// The traced child: serves modules from an in-memory OCI registry (ocimem, no
// sockets) wrapped by a counting / delaying / fault-injecting layer, and calls
// modcache.Fetch / FetchFromCache / ModFile on the given cache directory.

import (
	"context"
	"crypto/sha256"
	"encoding/hex"
	"encoding/json"
	"errors"
	"fmt"
	"io"
	"io/fs"
	"os"
	"path/filepath"
	"runtime"
	"sort"
	"strconv"
	"strings"
	"sync"
	"sync/atomic"
	"syscall"
	"testing/fstest"
	"time"

	"cuelabs.dev/go/oci/ociregistry"
	"cuelabs.dev/go/oci/ociregistry/ocimem"

	"cuelang.org/go/internal/verifharness/common"
	"cuelang.org/go/mod/modcache"
	"cuelang.org/go/mod/modregistry"
	"cuelang.org/go/mod/modregistrytest"
	"cuelang.org/go/mod/module"
)

// ModSpec describes one module version served by the registry.
type ModSpec struct {
	Path    string            `json:"path"`    // e.g. example.com/foo
	Version string            `json:"version"` // e.g. v0.0.1
	Files   map[string]string `json:"files"`   // besides cue.mod/module.cue
}

func (m ModSpec) Major() string { return strings.SplitN(m.Version, ".", 2)[0] }

func (m ModSpec) ModuleCue() string {
	return fmt.Sprintf("module: %q\nlanguage: version: \"v0.8.0\"\n", m.Path+"@"+m.Major())
}

// AllFiles is the complete expected content of the extracted directory.
func (m ModSpec) AllFiles() map[string]string {
	r := map[string]string{"cue.mod/module.cue": m.ModuleCue()}
	for k, v := range m.Files {
		r[k] = v
	}
	return r
}

// EscVersion is the spelling of the version in file names of the cache
// (module.EscapeVersion: an upper-case letter X becomes !x).
func (m ModSpec) EscVersion() string {
	e, err := module.EscapeVersion(m.Version)
	if err != nil {
		panic(err)
	}
	return e
}

func (m ModSpec) MV() module.Version { return module.MustNewVersion(m.Path+"@"+m.Major(), m.Version) }

// Fault describes what the registry does on the n-th GetBlob of a zip (1-based, per process).
type Fault struct {
	Kind  string `json:"kind"`  // "err-open" | "err-mid" | "short"
	After int    `json:"after"` // bytes delivered before the fault
}

// ChildSpec is the JSON document handed to the child on its command line.
type ChildSpec struct {
	Cache   string    `json:"cache"`
	Mods    []ModSpec `json:"mods"`
	Threads [][]Op    `json:"threads"` // one op list per goroutine
	Faults  []Fault   `json:"faults"`  // consumed in order by GetBlob(zip) calls
	Seed    uint64    `json:"seed"`
	Delay   bool      `json:"delay"`
	Chunk   int       `json:"chunk"` // registry delivers the zip in chunks of this many bytes (0: all)
}

type Op struct {
	Kind string `json:"kind"` // fetch | fromcache | modfile
	Mod  int    `json:"mod"`
}

type OpResult struct {
	Thread int    `json:"thread"`
	Tid    int    `json:"tid"`
	Op     Op     `json:"op"`
	Ok     bool   `json:"ok"`
	Err    string `json:"err,omitempty"`
	Class  string `json:"class,omitempty"` // notfound | other
	Tree   string `json:"tree,omitempty"`  // canonical digest of the returned directory
	Equal  bool   `json:"equal"`           // content equals the module's files byte for byte
	Diff   string `json:"diff,omitempty"`
}

type ChildResult struct {
	Results []OpResult     `json:"results"`
	GetZip  map[string]int `json:"getzip"` // module version -> GetBlob(zip) calls in this process
	GetMod  map[string]int `json:"getmod"` // module version -> GetBlob(module file) calls
	GetTag  map[string]int `json:"gettag"`
}

// TreeOf reads an fs.FS into path -> content (regular files only).
func TreeOf(fsys fs.FS, dir string) (map[string]string, error) {
	out := map[string]string{}
	err := fs.WalkDir(fsys, dir, func(p string, d fs.DirEntry, err error) error {
		if err != nil {
			return err
		}
		if d.IsDir() {
			return nil
		}
		data, err := fs.ReadFile(fsys, p)
		if err != nil {
			return err
		}
		rel := p
		if dir != "." {
			rel = strings.TrimPrefix(p, dir+"/")
		}
		out[rel] = string(data)
		return nil
	})
	return out, err
}

func TreeDigest(t map[string]string) string {
	keys := make([]string, 0, len(t))
	for k := range t {
		keys = append(keys, k)
	}
	sort.Strings(keys)
	h := sha256.New()
	for _, k := range keys {
		fmt.Fprintf(h, "%d:%s:%d:", len(k), k, len(t[k]))
		io.WriteString(h, t[k])
	}
	return hex.EncodeToString(h.Sum(nil))[:16]
}

func TreeDiff(got, want map[string]string) string {
	var d []string
	for k, v := range want {
		g, ok := got[k]
		if !ok {
			d = append(d, "missing:"+k)
		} else if g != v {
			d = append(d, fmt.Sprintf("content:%s(%d/%d bytes)", k, len(g), len(v)))
		}
	}
	for k := range got {
		if _, ok := want[k]; !ok {
			d = append(d, "extra:"+k)
		}
	}
	sort.Strings(d)
	return strings.Join(d, ",")
}

type faultyRegistry struct {
	ociregistry.Interface
	mu     sync.Mutex
	zipOf  map[ociregistry.Digest]string // zip blob digest -> module version
	modOf  map[ociregistry.Digest]string
	getzip map[string]int
	getmod map[string]int
	gettag map[string]int
	faults []Fault
	rng    *common.Rng
	delay  bool
	chunk  int
}

func (r *faultyRegistry) pause() {
	if !r.delay {
		return
	}
	r.mu.Lock()
	d := r.rng.Intn(5)
	r.mu.Unlock()
	switch d {
	case 1:
		runtime.Gosched()
	case 2:
		time.Sleep(200 * time.Microsecond)
	case 3:
		time.Sleep(2 * time.Millisecond)
	}
}

func (r *faultyRegistry) GetTag(ctx context.Context, repo, tag string) (ociregistry.BlobReader, error) {
	r.mu.Lock()
	r.gettag[repo+":"+tag]++
	r.mu.Unlock()
	r.pause()
	return r.Interface.GetTag(ctx, repo, tag)
}

func (r *faultyRegistry) GetBlob(ctx context.Context, repo string, dg ociregistry.Digest) (ociregistry.BlobReader, error) {
	r.mu.Lock()
	var f *Fault
	if mv, ok := r.zipOf[dg]; ok {
		r.getzip[mv]++
		if len(r.faults) > 0 {
			f = &r.faults[0]
			r.faults = r.faults[1:]
			if f.Kind == "" || f.Kind == "none" {
				f = nil
			}
		}
	} else if mv, ok := r.modOf[dg]; ok {
		r.getmod[mv]++
	}
	r.mu.Unlock()
	r.pause()
	if f != nil && f.Kind == "err-open" {
		return nil, errors.New("injected: registry unavailable")
	}
	br, err := r.Interface.GetBlob(ctx, repo, dg)
	if err != nil {
		return nil, err
	}
	if _, ok := r.zipOf[dg]; !ok {
		return br, nil
	}
	return &faultyReader{BlobReader: br, reg: r, fault: f}, nil
}

// faultyReader delivers the body in chunks, pauses between them and applies the fault.
// A short body is reported the way ociclient's verifying blob reader reports it
// (size mismatch error at EOF): modcache sits above that reader in production.
type faultyReader struct {
	ociregistry.BlobReader
	reg   *faultyRegistry
	fault *Fault
	n     int
}

func (r *faultyReader) Read(p []byte) (int, error) {
	r.reg.pause()
	if r.reg.chunk > 0 && len(p) > r.reg.chunk {
		p = p[:r.reg.chunk]
	}
	if r.fault != nil {
		left := r.fault.After - r.n
		if left <= 0 {
			if r.fault.Kind == "short" {
				return 0, fmt.Errorf("blob size mismatch (%d/%d): %w", r.n, r.Descriptor().Size, ociregistry.ErrSizeInvalid)
			}
			return 0, errors.New("injected: connection reset mid-body")
		}
		if len(p) > left {
			p = p[:left]
		}
	}
	n, err := r.BlobReader.Read(p)
	r.n += n
	return n, err
}

func buildRegistry(spec *ChildSpec) (*faultyRegistry, error) {
	mfs := fstest.MapFS{}
	for _, m := range spec.Mods {
		dir := strings.ReplaceAll(m.Path, "/", "_") + "_" + m.Version
		for name, data := range m.AllFiles() {
			mfs[dir+"/"+name] = &fstest.MapFile{Data: []byte(data), Mode: 0o644}
		}
	}
	mem := ocimem.NewWithConfig(&ocimem.Config{ImmutableTags: true})
	ctx := context.Background()
	if err := modregistrytest.Upload(ctx, mem, mfs); err != nil {
		return nil, err
	}
	fr := &faultyRegistry{
		Interface: mem,
		zipOf:     map[ociregistry.Digest]string{},
		modOf:     map[ociregistry.Digest]string{},
		getzip:    map[string]int{},
		getmod:    map[string]int{},
		gettag:    map[string]int{},
		faults:    append([]Fault(nil), spec.Faults...),
		rng:       common.NewRng(spec.Seed),
		delay:     spec.Delay,
		chunk:     spec.Chunk,
	}
	// Find the blob digests of each module through the client itself.
	for _, m := range spec.Mods {
		rd, err := mem.GetTag(ctx, m.Path, m.Version)
		if err != nil {
			return nil, err
		}
		data, err := io.ReadAll(rd)
		rd.Close()
		if err != nil {
			return nil, err
		}
		layers := modLayers(data)
		fr.zipOf[layers[0]] = m.MV().String()
		fr.modOf[layers[1]] = m.MV().String()
	}
	return fr, nil
}

// modLayers re-reads the manifest to obtain the two layer digests.
func modLayers(data []byte) [2]ociregistry.Digest {
	var man struct {
		Layers []struct {
			Digest ociregistry.Digest `json:"digest"`
		} `json:"layers"`
	}
	if err := json.Unmarshal(data, &man); err != nil || len(man.Layers) != 2 {
		panic(fmt.Sprintf("unexpected manifest: %v %s", err, data))
	}
	return [2]ociregistry.Digest{man.Layers[0].Digest, man.Layers[1].Digest}
}

var tidOf = syscall.Gettid

func runChild(specJSON string) int {
	if os.Getenv("C16_SECCOMP") == "1" {
		if err := installSeccomp(); err != nil {
			fmt.Fprintln(os.Stderr, "seccomp filter:", err)
			return 2
		}
	}
	var spec ChildSpec
	if err := json.Unmarshal([]byte(specJSON), &spec); err != nil {
		fmt.Fprintln(os.Stderr, "bad spec:", err)
		return 2
	}
	reg, err := buildRegistry(&spec)
	if err != nil {
		fmt.Fprintln(os.Stderr, "registry:", err)
		return 2
	}
	cache, err := modcache.New(modregistry.NewClient(reg), spec.Cache)
	if err != nil {
		fmt.Fprintln(os.Stderr, "modcache.New:", err)
		return 2
	}
	ctx := context.Background()
	var mu sync.Mutex
	var results []OpResult
	var wg sync.WaitGroup
	var ready atomic.Int32
	start := make(chan struct{})
	for ti, ops := range spec.Threads {
		wg.Add(1)
		go func() {
			defer wg.Done()
			// One OS thread per goroutine: the tracer identifies the thread of
			// control of every file-system effect by its tid.
			runtime.LockOSThread()
			if int(ready.Add(1)) == len(spec.Threads) {
				close(start)
			}
			<-start
			for _, op := range ops {
				m := spec.Mods[op.Mod]
				res := OpResult{Thread: ti, Tid: tidOf(), Op: op}
				// op marker for the tracer: a stat of a harness-only path below the cache
				os.Stat(filepath.Join(spec.Cache, ".op", op.Kind, strconv.Itoa(op.Mod)))
				var loc module.SourceLoc
				var err error
				switch op.Kind {
				case "fetch":
					loc, err = cache.Fetch(ctx, m.MV())
				case "fromcache":
					loc, err = cache.FetchFromCache(m.MV())
				case "modfile":
					mf, err1 := cache.ModFile(ctx, m.MV())
					err = err1
					if err == nil {
						res.Ok = true
						res.Equal = mf.QualifiedModule() == m.Path+"@"+m.Major()
						// the cached file on disk must be the registry's module file
						data, rerr := os.ReadFile(filepath.Join(spec.Cache, "mod", "download", m.Path, "@v", m.EscVersion()+".mod"))
						if rerr != nil || string(data) != m.ModuleCue() {
							res.Equal = false
							res.Diff = "cached .mod file differs"
						}
					}
				}
				if err != nil {
					res.Err = err.Error()
					res.Class = "other"
					if errors.Is(err, modregistry.ErrNotFound) {
						res.Class = "notfound"
					}
				} else if op.Kind != "modfile" {
					res.Ok = true
					got, terr := TreeOf(loc.FS, loc.Dir)
					if terr != nil {
						res.Diff = "walk: " + terr.Error()
					} else {
						res.Tree = TreeDigest(got)
						res.Diff = TreeDiff(got, m.AllFiles())
						res.Equal = res.Diff == ""
					}
				}
				mu.Lock()
				results = append(results, res)
				mu.Unlock()
			}
		}()
	}
	wg.Wait()
	out := ChildResult{Results: results, GetZip: reg.getzip, GetMod: reg.getmod, GetTag: reg.gettag}
	sort.SliceStable(out.Results, func(i, j int) bool { return out.Results[i].Thread < out.Results[j].Thread })
	data, _ := json.Marshal(out)
	fmt.Println(string(data))
	return 0
}
