package main

// Orchestrator: generates fault histories, runs them under the tracer, checks the
// property on the real file system after every stage, and projects the observed
// system calls to the label alphabet of the Coq model (Cache/Model.v).

import (
	"archive/zip"
	"bytes"
	"context"
	"encoding/json"
	"fmt"
	"io"
	"os"
	"os/exec"
	"path/filepath"
	"regexp"
	"sort"
	"strconv"
	"strings"
	"sync"
	"syscall"

	"cuelang.org/go/internal/verifharness/common"
)

type Stage struct {
	Procs   []ProcJob `json:"procs"`
	Random  bool      `json:"random"`
	Barrier bool      `json:"barrier"`
	Seed    uint64    `json:"seed"`
}

type History struct {
	ID     string    `json:"id"`
	Kind   string    `json:"kind"`
	Mods   []ModSpec `json:"mods"`
	Stages []Stage   `json:"stages"`
}

type HistResult struct {
	ID         string   `json:"id"`
	Kind       string   `json:"kind"`
	History    History  `json:"history"`
	Cases      []string `json:"cases"`
	Impl       []string `json:"impl"`
	Violations []string `json:"violations"`
	Events     int      `json:"events"`
	Effects    []int    `json:"effects"` // crash points executed per stage (process 0)
	Crashes    int      `json:"crashes"`
	Threads    int      `json:"threads"`
	Ignored    int      `json:"ignored"`    // events on cache paths with no model label (chmod, readdir, ancestors...)
	Unmapped   []string `json:"unmapped"`   // state-changing events on protocol paths that could not be projected
	AvailSeen  int      `json:"avail_seen"` // stages after which the directory was reported available
	Err        string   `json:"err,omitempty"`
}

// modInfo: what the registry serves for a module version.
type modInfo struct {
	spec    ModSpec
	zip     []byte
	order   []string       // file names in zip order
	index   map[string]int // name -> position
	sizes   []int
	modfile string
}

func loadModInfo(mods []ModSpec) ([]*modInfo, error) {
	spec := &ChildSpec{Mods: mods}
	reg, err := buildRegistry(spec)
	if err != nil {
		return nil, err
	}
	var out []*modInfo
	for _, m := range mods {
		mi := &modInfo{spec: m, index: map[string]int{}, modfile: m.ModuleCue()}
		for dg, mv := range reg.zipOf {
			if mv != m.MV().String() {
				continue
			}
			rd, err := reg.Interface.GetBlob(context.Background(), m.Path, dg)
			if err != nil {
				return nil, err
			}
			mi.zip, err = io.ReadAll(rd)
			rd.Close()
			if err != nil {
				return nil, err
			}
		}
		zr, err := zip.NewReader(bytes.NewReader(mi.zip), int64(len(mi.zip)))
		if err != nil {
			return nil, err
		}
		all := m.AllFiles()
		for _, f := range zr.File {
			if f.Name == "" || strings.HasSuffix(f.Name, "/") {
				continue
			}
			mi.index[f.Name] = len(mi.order)
			mi.order = append(mi.order, f.Name)
			mi.sizes = append(mi.sizes, len(all[f.Name]))
		}
		out = append(out, mi)
	}
	return out, nil
}

// Paths below the cache use the escaped spelling of the version (v0.0.1-RC.1 -> v0.0.1-!r!c.1);
// module paths cannot contain upper-case letters (module.CheckPath), so only versions need it.
func (mi *modInfo) dirRel() string { return "mod/extract/" + mi.spec.Path + "@" + mi.spec.EscVersion() }
func (mi *modInfo) dlRel(suffix string) string {
	return "mod/download/" + mi.spec.Path + "/@v/" + mi.spec.EscVersion() + "." + suffix
}

// ---------------------------------------------------------------- snapshot --

type snapshot struct {
	zip, modf   int // -1 absent
	zipOK       bool
	modOK       bool
	ztmp, mtmp  [][2]int
	marker      bool
	dirPresent  bool
	dir         [][2]int // (file index, size)
	dirComplete bool     // byte for byte equal to the module's files
	extra       []string
}

var tmpRe = regexp.MustCompile(`^(.*)\.(zip|mod)([0-9]+)\.tmp$`)

func takeSnapshot(cache string, mi *modInfo) snapshot {
	sn := snapshot{zip: -1, modf: -1}
	if data, err := os.ReadFile(filepath.Join(cache, mi.dlRel("zip"))); err == nil {
		sn.zip = len(data)
		sn.zipOK = bytes.Equal(data, mi.zip)
	}
	if data, err := os.ReadFile(filepath.Join(cache, mi.dlRel("mod"))); err == nil {
		sn.modf = len(data)
		sn.modOK = string(data) == mi.modfile
	}
	if _, err := os.Stat(filepath.Join(cache, mi.dlRel("partial"))); err == nil {
		sn.marker = true
	}
	ents, _ := os.ReadDir(filepath.Dir(filepath.Join(cache, mi.dlRel("zip"))))
	for _, e := range ents {
		m := tmpRe.FindStringSubmatch(e.Name())
		if m == nil || m[1] != mi.spec.EscVersion() {
			continue
		}
		n, _ := strconv.Atoi(m[3])
		fi, err := e.Info()
		if err != nil {
			continue
		}
		if m[2] == "zip" {
			sn.ztmp = append(sn.ztmp, [2]int{n, int(fi.Size())})
		} else {
			sn.mtmp = append(sn.mtmp, [2]int{n, int(fi.Size())})
		}
	}
	dir := filepath.Join(cache, mi.dirRel())
	if fi, err := os.Stat(dir); err == nil && fi.IsDir() {
		sn.dirPresent = true
		tree, err := TreeOf(os.DirFS(dir), ".")
		if err != nil {
			sn.extra = append(sn.extra, "walk:"+err.Error())
		}
		for name, data := range tree {
			i, ok := mi.index[name]
			if !ok {
				sn.extra = append(sn.extra, name)
				i = 9999
			}
			sn.dir = append(sn.dir, [2]int{i, len(data)})
		}
		sn.dirComplete = err == nil && TreeDiff(tree, mi.spec.AllFiles()) == ""
	}
	sort.Slice(sn.ztmp, func(i, j int) bool { return sn.ztmp[i][0] < sn.ztmp[j][0] })
	sort.Slice(sn.mtmp, func(i, j int) bool { return sn.mtmp[i][0] < sn.mtmp[j][0] })
	sort.Slice(sn.dir, func(i, j int) bool { return sn.dir[i][0] < sn.dir[j][0] })
	return sn
}

func pairsStr(p [][2]int) string {
	var s []string
	for _, x := range p {
		s = append(s, fmt.Sprintf("%d:%d", x[0], x[1]))
	}
	return strings.Join(s, ",")
}

func optStr(n int) string {
	if n < 0 {
		return "-"
	}
	return strconv.Itoa(n)
}

func (sn snapshot) String() string {
	d := "-"
	if sn.dirPresent {
		d = "[" + pairsStr(sn.dir) + "]"
	}
	mk := 0
	if sn.marker {
		mk = 1
	}
	return fmt.Sprintf("zip=%s ztmp=[%s] modf=%s mtmp=[%s] marker=%d dir=%s", optStr(sn.zip), pairsStr(sn.ztmp), optStr(sn.modf), pairsStr(sn.mtmp), mk, d)
}

// ----------------------------------------------------------------- tracing --

var inProcessTrace = true

func traceJob(self string, job Job) (TraceOut, error) {
	if inProcessTrace {
		ch := make(chan TraceOut, 1)
		go func() { ch <- runTrace(job) }()
		out := <-ch
		if out.Err != "" {
			return out, fmt.Errorf("tracer: %s", out.Err)
		}
		return out, nil
	}
	data, _ := json.Marshal(job)
	cmd := exec.Command(self, "trace", string(data))
	cmd.Stderr = os.Stderr
	outb, err := cmd.Output()
	var out TraceOut
	if jerr := json.Unmarshal(outb, &out); jerr != nil {
		return out, fmt.Errorf("tracer output: %v (%v)", jerr, err)
	}
	if out.Err != "" {
		return out, fmt.Errorf("tracer: %s", out.Err)
	}
	return out, nil
}

// -------------------------------------------------------------- projection --

type threadKey struct{ stage, proc, t int }

type projector struct {
	mi       *modInfo
	labels   []string
	cur      map[threadKey]int // model thread of (stage, proc, thread) for this version
	nthr     int
	results  []string // per model thread
	thrPid   []int
	ignored  int
	unmapped []string
	names    map[int]int // temp-file numbers -> small ids, by first appearance
}

func (pj *projector) nameID(n int) int {
	if pj.names == nil {
		pj.names = map[int]int{}
	}
	id, ok := pj.names[n]
	if !ok {
		id = len(pj.names) + 1
		pj.names[n] = id
	}
	return id
}

func (pj *projector) emit(l string) { pj.labels = append(pj.labels, l) }

var tmpNameRe = regexp.MustCompile(`\.(zip|mod)([0-9]+)\.tmp$`)

// project one event of a thread already attributed to model thread i.
func (pj *projector) event(i int, ev Event) {
	mi := pj.mi
	e := func(format string, a ...any) { pj.emit(fmt.Sprintf("E:%d:", i) + fmt.Sprintf(format, a...)) }
	b := func(ok bool) int {
		if ok {
			return 1
		}
		return 0
	}
	dir := mi.dirRel()
	writer := ev.Fl&(syscall.O_WRONLY|syscall.O_RDWR) != 0
	switch {
	case ev.A == dir:
		switch ev.Sys {
		case "stat":
			if ev.Fl&0x100 == 0 {
				e("StatDir:%d", b(ev.R == 0))
				return
			}
		case "mkdir":
			if ev.R == 0 {
				e("MkdirDir")
				return
			}
		case "rmdir":
			if ev.R == 0 {
				e("RmdirDir")
				return
			}
		}
		pj.ignored++
	case strings.HasPrefix(ev.A, dir+"/"):
		name := ev.A[len(dir)+1:]
		idx, isFile := mi.index[name]
		switch {
		case ev.Sys == "creat" && ev.R >= 0 && isFile:
			e("CreateFile:%d", idx)
		case ev.Sys == "write" && isFile:
			if ev.R > 0 {
				e("WriteFile:%d:%d", idx, ev.R)
			} else if ev.R < 0 {
				pj.unmapped = append(pj.unmapped, fmt.Sprintf("%s %s r=%d", ev.Sys, ev.A, ev.R))
			}
		case ev.Sys == "close" && isFile && writer:
			e("CloseFile:%d", idx)
		case ev.Sys == "unlink" && ev.R == 0 && isFile:
			e("UnlinkFile:%d", idx)
		case (ev.Sys == "creat" || ev.Sys == "unlink" || ev.Sys == "rename" || ev.Sys == "write") && ev.R >= 0 && !isFile && ev.Sys != "unlink":
			pj.unmapped = append(pj.unmapped, fmt.Sprintf("%s %s r=%d", ev.Sys, ev.A, ev.R))
		default:
			pj.ignored++ // sub-directory mkdir/rmdir, failed unlink (EISDIR), lstat, chmod, readers
		}
	case ev.A == mi.dlRel("partial"):
		switch {
		case ev.Sys == "stat" && ev.Fl&0x100 == 0:
			e("StatMarker:%d", b(ev.R == 0))
		case ev.Sys == "creat" && ev.R >= 0:
			e("CreateMarker")
		case ev.Sys == "unlink" && ev.R == 0:
			e("UnlinkMarker")
		case ev.Sys == "rename":
			pj.unmapped = append(pj.unmapped, fmt.Sprintf("%s %s r=%d", ev.Sys, ev.A, ev.R))
		default:
			pj.ignored++
		}
	case ev.A == mi.dlRel("lock"):
		switch {
		case ev.Sys == "flock" && ev.R == 0:
			e("LockAcq")
		case ev.Sys == "funlock":
			e("LockRel")
		default:
			pj.ignored++
		}
	case ev.A == mi.dlRel("zip") && ev.Sys != "rename":
		switch {
		case ev.Sys == "stat" && ev.Fl&0x100 == 0:
			e("StatZip:%d", b(ev.R == 0))
		case (ev.Sys == "creat" || ev.Sys == "write" || ev.Sys == "unlink" || ev.Sys == "truncate") && ev.R >= 0:
			pj.unmapped = append(pj.unmapped, fmt.Sprintf("%s %s r=%d", ev.Sys, ev.A, ev.R))
		default:
			pj.ignored++
		}
	case ev.A == mi.dlRel("mod") && ev.Sys != "rename":
		switch {
		case ev.Sys == "open":
			e("OpenMod:%d", b(ev.R >= 0))
		case (ev.Sys == "creat" || ev.Sys == "write" || ev.Sys == "unlink" || ev.Sys == "truncate") && ev.R >= 0:
			pj.unmapped = append(pj.unmapped, fmt.Sprintf("%s %s r=%d", ev.Sys, ev.A, ev.R))
		default:
			pj.ignored++
		}
	default:
		// temp files and renames
		m := tmpNameRe.FindStringSubmatch(ev.A)
		if m == nil || !strings.HasPrefix(ev.A, "mod/download/"+mi.spec.Path+"/@v/"+mi.spec.EscVersion()+".") {
			pj.ignored++
			return
		}
		n, _ := strconv.Atoi(m[2])
		n = pj.nameID(n)
		z := m[1] == "zip"
		lab := func(zl, ml string) string {
			if z {
				return zl
			}
			return ml
		}
		switch {
		case ev.Sys == "creat" && ev.R >= 0:
			e("%s:%d", lab("CreateZTmp", "CreateMTmp"), n)
		case ev.Sys == "write" && ev.R > 0:
			e("%s:%d:%d", lab("WriteZTmp", "WriteMTmp"), n, ev.R)
		case ev.Sys == "close" && writer:
			e("%s:%d", lab("CloseZTmp", "CloseMTmp"), n)
		case ev.Sys == "unlink" && ev.R == 0:
			e("%s:%d", lab("UnlinkZTmp", "UnlinkMTmp"), n)
		case ev.Sys == "rename" && ev.R == 0:
			if ev.B != mi.dlRel(m[1]) {
				pj.unmapped = append(pj.unmapped, fmt.Sprintf("rename %s -> %s", ev.A, ev.B))
				return
			}
			e("%s:%d", lab("RenameZip", "RenameMod"), n)
		default:
			pj.ignored++
		}
	}
}

// ------------------------------------------------------------ one history --

func runHistory(self, work string, h History) (res HistResult) {
	res = HistResult{ID: h.ID, Kind: h.Kind, History: h}
	root := filepath.Join(work, "h"+h.ID)
	cache := filepath.Join(root, "cache")
	os.MkdirAll(root, 0o777)
	defer func() {
		modcacheRemoveAll(root)
	}()
	infos, err := loadModInfo(h.Mods)
	if err != nil {
		res.Err = "registry: " + err.Error()
		return
	}
	projs := make([]*projector, len(infos))
	for i, mi := range infos {
		projs[i] = &projector{mi: mi, cur: map[threadKey]int{}}
	}
	viol := func(format string, a ...any) {
		res.Violations = append(res.Violations, fmt.Sprintf(format, a...))
	}
	nextPid := 0
	var gzLines [][]string // per version, per pid
	for range infos {
		gzLines = append(gzLines, nil)
	}
	for si, stg := range h.Stages {
		job := Job{Root: cache, Seed: stg.Seed, Random: stg.Random, Barrier: stg.Barrier, MaxMs: 300000}
		faulty := make([]bool, len(stg.Procs))
		for pi, p := range stg.Procs {
			p.Spec.Cache = cache
			p.Spec.Mods = h.Mods
			if p.Spec.Chunk < 0 { // a few chunks whatever the size of the zip: bounded number of crash points
				mx := 0
				for _, mi := range infos {
					mx = max(mx, len(mi.zip))
				}
				p.Spec.Chunk = mx/(-p.Spec.Chunk) + 1
			}
			job.Procs = append(job.Procs, p)
			for _, f := range p.Spec.Faults {
				if f.Kind != "" && f.Kind != "none" {
					faulty[pi] = true
				}
			}
		}
		out, err := traceJob(self, job)
		if err != nil {
			res.Err = fmt.Sprintf("stage %d: %v", si, err)
			return
		}
		if out.TimedOut {
			viol("stage %d: timeout (deadlock or livelock): a fetch did not terminate", si)
		}
		res.Events += len(out.Events)
		if len(out.Procs) > 0 {
			res.Effects = append(res.Effects, out.Procs[0].EffCount)
		}
		pidOf := make([]int, len(stg.Procs))
		for pi := range stg.Procs {
			pidOf[pi] = nextPid
			nextPid++
		}
		// project events
		type opRef struct{ mod, thr int }
		opOrder := map[[2]int][]opRef{} // (proc, goroutine tid) -> ops in order, with model thread
		for _, ev := range out.Events {
			if ev.Sys == "crash" {
				res.Crashes++
				for _, pj := range projs {
					pj.emit(fmt.Sprintf("X:%d", pidOf[ev.P]))
				}
				continue
			}
			if strings.HasPrefix(ev.A, ".op/") {
				// op marker: .op/<kind>/<mod>
				parts := strings.Split(ev.A, "/")
				mod, _ := strconv.Atoi(parts[2])
				pj := projs[mod]
				k := map[string]string{"fetch": "F", "fromcache": "C", "modfile": "M"}[parts[1]]
				i := pj.nthr
				pj.nthr++
				pj.results = append(pj.results, "?")
				pj.thrPid = append(pj.thrPid, pidOf[ev.P])
				pj.emit(fmt.Sprintf("S:%d:%s", pidOf[ev.P], k))
				for _, q := range projs {
					delete(q.cur, threadKey{si, ev.P, ev.T})
				}
				pj.cur[threadKey{si, ev.P, ev.T}] = i
				key := [2]int{ev.P, ev.Tid}
				opOrder[key] = append(opOrder[key], opRef{mod, i})
				res.Threads++
				continue
			}
			handled := false
			for _, pj := range projs {
				if i, ok := pj.cur[threadKey{si, ev.P, ev.T}]; ok {
					pj.event(i, ev)
					handled = true
				}
			}
			if !handled {
				res.Ignored++
				if ev.Eff && ev.R >= 0 && ev.Sys != "mkdir" && ev.Sys != "chmod" {
					res.Unmapped = append(res.Unmapped, fmt.Sprintf("unattributed %s %s", ev.Sys, ev.A))
				}
			}
		}
		// results of the processes
		for pi, po := range out.Procs {
			for vi := range infos {
				gzLines[vi] = append(gzLines[vi], "?")
			}
			if po.Killed {
				continue
			}
			var cr ChildResult
			if err := json.Unmarshal([]byte(po.Stdout), &cr); err != nil {
				viol("stage %d proc %d: exit %d without a result (panic or unexpected death): %.300s", si, pi, po.Exit, po.Stdout)
				continue
			}
			for vi, mi := range infos {
				n := cr.GetZip[mi.spec.MV().String()]
				gzLines[vi][len(gzLines[vi])-1] = strconv.Itoa(n)
				if n > 1 {
					viol("stage %d proc %d: %d GetZip calls for %s in one process (single flight broken)", si, pi, n, mi.spec.MV())
				}
			}
			seen := map[[2]int]int{}
			for _, r := range cr.Results {
				key := [2]int{pi, r.Tid}
				k := seen[key]
				seen[key]++
				if k >= len(opOrder[key]) {
					viol("stage %d proc %d: result without a traced op marker", si, pi)
					continue
				}
				ref := opOrder[key][k]
				cls := "ok"
				if !r.Ok {
					cls = "err"
					if r.Class == "notfound" {
						cls = "notfound"
					}
				}
				projs[ref.mod].results[ref.thr] = cls
				switch {
				case r.Ok && !r.Equal:
					viol("stage %d proc %d: %s of %s returned success but the content differs from the module's files: %s", si, pi, r.Op.Kind, infos[ref.mod].spec.MV(), r.Diff)
				case !r.Ok && r.Op.Kind != "fromcache" && !faulty[pi]:
					viol("stage %d proc %d: %s of %s failed without any registry fault: %s", si, pi, r.Op.Kind, infos[ref.mod].spec.MV(), r.Err)
				}
			}
		}
		// the property on the real file system, right after the stage (crash or not)
		for _, mi := range infos {
			sn := takeSnapshot(cache, mi)
			if sn.dirPresent && !sn.marker {
				res.AvailSeen++
				if !sn.dirComplete {
					viol("after stage %d: %s is reported available (directory present, no .partial) but is incomplete: %s", si, mi.spec.MV(), sn.String())
				}
			}
			if sn.zip >= 0 && !sn.zipOK {
				viol("after stage %d: cached zip of %s is present but is not the registry's zip (%d/%d bytes)", si, mi.spec.MV(), sn.zip, len(mi.zip))
			}
			if sn.modf >= 0 && !sn.modOK {
				viol("after stage %d: cached module file of %s is present but not complete (%d/%d bytes)", si, mi.spec.MV(), sn.modf, len(mi.modfile))
			}
		}
	}
	for vi, mi := range infos {
		pj := projs[vi]
		sn := takeSnapshot(cache, mi)
		for i := range sn.ztmp {
			sn.ztmp[i][0] = pj.nameID(sn.ztmp[i][0])
		}
		for i := range sn.mtmp {
			sn.mtmp[i][0] = pj.nameID(sn.mtmp[i][0])
		}
		sort.Slice(sn.ztmp, func(i, j int) bool { return sn.ztmp[i][0] < sn.ztmp[j][0] })
		sort.Slice(sn.mtmp, func(i, j int) bool { return sn.mtmp[i][0] < sn.mtmp[j][0] })
		var fs []string
		for _, s := range mi.sizes {
			fs = append(fs, strconv.Itoa(s))
		}
		res.Cases = append(res.Cases, fmt.Sprintf("H %s.%d %d %d %s %d | %s", h.ID, vi, len(mi.zip), len(mi.modfile), strings.Join(fs, ","), nextPid, strings.Join(pj.labels, " ")))
		res.Impl = append(res.Impl, fmt.Sprintf("%s | %s | %s", sn.String(), strings.Join(pj.results, " "), strings.Join(gzLines[vi], " ")))
		res.Ignored += pj.ignored
		res.Unmapped = append(res.Unmapped, pj.unmapped...)
	}
	return res
}

func modcacheRemoveAll(dir string) {
	filepath.WalkDir(dir, func(path string, d os.DirEntry, err error) error {
		if err == nil && d.IsDir() {
			os.Chmod(path, 0o777)
		}
		return nil
	})
	os.RemoveAll(dir)
}

// ------------------------------------------------------------- generators --

func bigContent(n int, rng *common.Rng) string {
	var sb strings.Builder
	sb.WriteString("package big\n")
	for sb.Len() < n {
		fmt.Fprintf(&sb, "x%d: %d\n", rng.Intn(1000000), rng.Intn(1000000))
	}
	return sb.String()[:n]
}

func shape(k int, version string) ModSpec {
	rng := common.NewRng(uint64(1000 + k))
	switch k % 3 {
	case 0:
		return ModSpec{Path: "example.com/foo", Version: version, Files: map[string]string{
			"a.cue": "package a\n", "big.cue": bigContent(70000, rng), "x/x.cue": "package x\n", "x/y/z.cue": "package z\nz: 1\n", "x/empty.txt": ""}}
	case 1:
		return ModSpec{Path: "example.com/bar/baz", Version: version, Files: map[string]string{
			"top.cue": "package baz\nv: \"" + version + "\"\n", "data/d.json": "{\"a\": [1,2,3]}\n", "data/e.yaml": "a: 1\n"}}
	default:
		return ModSpec{Path: "other.org/m", Version: version, Files: map[string]string{
			"m.cue": "package m\n", "deep/a/b/c/d.cue": "package d\n", "deep/a/b/e.cue": bigContent(40000, rng), "l.txt": "line\n", "z/z.cue": "package z\n", "z/w.cue": "package z\nw: 2\n"}}
	}
}

func fetchOps(mod int) []Op {
	return []Op{{Kind: "fetch", Mod: mod}, {Kind: "fromcache", Mod: mod}}
}

func cleanStage(seed uint64, mod int) Stage {
	return Stage{Seed: seed, Procs: []ProcJob{{Spec: ChildSpec{Seed: seed, Chunk: -3, Threads: [][]Op{{{Kind: "fetch", Mod: mod}, {Kind: "fromcache", Mod: mod}, {Kind: "modfile", Mod: mod}}}}}}}
}

func crashStage(seed uint64, mod, k int) Stage {
	s := cleanStage(seed, mod)
	s.Procs[0].KillAt = k
	return s
}

func genConcurrent(id string, rng *common.Rng, withCrash bool) History {
	nm := 1 + rng.Intn(2)
	var mods []ModSpec
	base := rng.Intn(3)
	for i := 0; i < nm; i++ {
		mods = append(mods, shape(base+i, []string{"v0.0.1", "v0.2.0-RC.1", "v1.3.0", "v0.4.0-Beta.2"}[rng.Intn(4)]))
	}
	h := History{ID: id, Kind: "concurrent", Mods: mods}
	if withCrash {
		h.Kind = "concurrent-crash"
	}
	kinds := []string{"fetch", "fetch", "fetch", "fromcache", "modfile"}
	nst := 1 + rng.Intn(2)
	for s := 0; s < nst; s++ {
		st := Stage{Random: true, Barrier: true, Seed: rng.Next()}
		np := 1 + rng.Intn(3)
		for p := 0; p < np; p++ {
			cs := ChildSpec{Seed: rng.Next(), Delay: rng.Bool(), Chunk: []int{0, -2, -3, -5, 1000}[rng.Intn(5)]}
			ng := 1 + rng.Intn(3)
			for g := 0; g < ng; g++ {
				var ops []Op
				for o := 0; o < 1+rng.Intn(3); o++ {
					ops = append(ops, Op{Kind: common.Pick(rng, kinds), Mod: rng.Intn(nm)})
				}
				cs.Threads = append(cs.Threads, ops)
			}
			if rng.Chance(1, 4) {
				cs.Faults = append(cs.Faults, Fault{Kind: common.Pick(rng, []string{"err-open", "err-mid", "short"}), After: rng.Intn(400)})
			}
			pj := ProcJob{Spec: cs}
			if withCrash && rng.Chance(1, 2) {
				pj.KillAt = 1 + rng.Intn(45)
			}
			st.Procs = append(st.Procs, pj)
		}
		h.Stages = append(h.Stages, st)
	}
	// always end with a clean fetch of every version
	for i := range mods {
		h.Stages = append(h.Stages, cleanStage(rng.Next(), i))
	}
	return h
}

// ------------------------------------------------------------------- main --

func runPool(self, work string, hs []History, jobs int) []HistResult {
	res := make([]HistResult, len(hs))
	var wg sync.WaitGroup
	ch := make(chan int)
	for w := 0; w < jobs; w++ {
		wg.Add(1)
		go func() {
			defer wg.Done()
			for i := range ch {
				res[i] = runHistory(self, work, hs[i])
			}
		}()
	}
	for i := range hs {
		ch <- i
	}
	close(ch)
	wg.Wait()
	return res
}

func orchMain(args []string) int {
	a := common.Args(args)
	seed := uint64(common.Atoi(a["--seed"], 1))
	out := a["--out"]
	jobs := common.Atoi(a["--jobs"], 12)
	tier := a["--tier"]
	if tier == "" {
		tier = "quick"
	}
	nconc := common.Atoi(a["--nconc"], 24)
	npairs := common.Atoi(a["--npairs"], 0)
	if a["--subprocess"] == "1" {
		inProcessTrace = false
	}
	self, _ := os.Executable()
	work := filepath.Join(out, "hist")
	os.MkdirAll(work, 0o777)
	rng := common.NewRng(seed)
	var hs []History
	if rf := a["--replay-cases"]; rf != "" {
		data, err := os.ReadFile(rf)
		if err != nil {
			fmt.Fprintln(os.Stderr, err)
			return 2
		}
		for _, ln := range strings.Split(strings.TrimSpace(string(data)), "\n") {
			var h History
			if err := json.Unmarshal([]byte(ln), &h); err != nil {
				fmt.Fprintln(os.Stderr, "bad replay history:", err)
				return 2
			}
			hs = append(hs, h)
		}
	} else {
		shapes := []int{int(seed % 3)}
		if tier == "thorough" {
			shapes = []int{int(seed % 3), int((seed + 1) % 3), int((seed + 2) % 3)}
		}
		for si, sh := range shapes {
			mods := []ModSpec{shape(sh, []string{"v0.0.1-RC.1", "v0.0.1", "v0.3.0-Alpha"}[si%3])}
			// probe: number of crash points of a clean fetch
			probe := runHistory(self, work, History{ID: fmt.Sprintf("probe%d", sh), Kind: "clean", Mods: mods, Stages: []Stage{cleanStage(seed, 0), cleanStage(seed+1, 0)}})
			if probe.Err != "" || len(probe.Effects) == 0 {
				fmt.Fprintln(os.Stderr, "probe failed:", probe.Err)
				return 2
			}
			hs = append(hs, History{ID: fmt.Sprintf("clean%d", sh), Kind: "clean", Mods: mods, Stages: []Stage{cleanStage(seed, 0), cleanStage(seed+1, 0)}})
			n := probe.Effects[0]
			for k := 1; k <= n; k++ {
				hs = append(hs, History{ID: fmt.Sprintf("c%d.%d", sh, k), Kind: "crash1", Mods: mods,
					Stages: []Stage{crashStage(rng.Next(), 0, k), cleanStage(rng.Next(), 0)}})
			}
			// registry faults at several byte offsets, then a clean run in a new process
			for fi, f := range []Fault{{Kind: "err-open"}, {Kind: "err-mid", After: 0}, {Kind: "err-mid", After: 150}, {Kind: "short", After: 10}, {Kind: "short", After: 450}, {Kind: "err-mid", After: 100000}} {
				st := cleanStage(rng.Next(), 0)
				st.Procs[0].Spec.Faults = []Fault{f}
				st.Procs[0].Spec.Threads = [][]Op{{{Kind: "fetch", Mod: 0}, {Kind: "fetch", Mod: 0}, {Kind: "fromcache", Mod: 0}}}
				hs = append(hs, History{ID: fmt.Sprintf("f%d.%d", sh, fi), Kind: "fault", Mods: mods, Stages: []Stage{st, cleanStage(rng.Next(), 0)}})
			}
			// pairs of crash points: second crash during the recovery run
			np := npairs
			if np < 0 && si > 0 {
				np = 300 // all pairs for the primary shape only, a sample for the others
			}
			if np != 0 {
				cnt := 0
				for k1 := 1; k1 <= n; k1++ {
					for k2 := 1; k2 <= n; k2++ {
						if np > 0 && !rng.Chance(np, n*n) {
							continue
						}
						cnt++
						hs = append(hs, History{ID: fmt.Sprintf("p%d.%d.%d", sh, k1, k2), Kind: "crash2", Mods: mods,
							Stages: []Stage{crashStage(rng.Next(), 0, k1), crashStage(rng.Next(), 0, k2), cleanStage(rng.Next(), 0)}})
					}
				}
			}
		}
		for i := 0; i < nconc; i++ {
			hs = append(hs, genConcurrent(fmt.Sprintf("k%d", i), rng.Fork(), i%2 == 1))
		}
	}
	results := runPool(self, work, hs, jobs)
	o := common.NewOut(out)
	rf, _ := os.Create(filepath.Join(out, "results.jsonl"))
	for _, r := range results {
		for i := range r.Cases {
			o.Emit(r.Cases[i], r.Impl[i])
		}
		r.Cases, r.Impl = nil, nil
		data, _ := json.Marshal(r)
		rf.Write(append(data, '\n'))
	}
	rf.Close()
	o.Close()
	os.RemoveAll(work)
	return 0
}
