package main

// A small ptrace(2) based tracer, crash injector and scheduler (linux/amd64).
//
// It starts N child processes (this same binary in its "child" role), follows
// every thread they create, and intercepts the system calls that touch the
// cache directory.  Those calls are *serialised*: at most one of them is between
// its entry and exit stop at any time (the "token"), so the order in which they
// are logged is the order in which they took effect.  The only exception is the
// blocking flock(LOCK_EX): it runs without the token and is logged when it
// returns; flock(LOCK_UN) and close() are logged when they are entered, so
// "released" always precedes "acquired" in the log, as in the kernel.
//
// Crash injection: process p is killed with SIGKILL at the moment its k-th
// state-changing cache system call would have been given the token - i.e.
// between two file-system effects, with no cache system call of any process in
// flight.  Scheduling: among the threads waiting for the token the next one is
// chosen by a seeded RNG, optionally after lingering to let others arrive.
//
// No source hooks: the traced code is the unmodified modcache / modzip /
// lockedfile / os code of the working tree.

import (
	"encoding/json"
	"fmt"
	"io"
	"os"
	"path/filepath"
	"runtime"
	"strings"
	"syscall"
	"time"
	"unsafe"

	"cuelang.org/go/internal/verifharness/common"
)

type ProcJob struct {
	Spec   ChildSpec `json:"spec"`
	KillAt int       `json:"kill_at"` // kill before the k-th (1-based) state-changing cache syscall; 0: never
}

type Job struct {
	Root      string    `json:"root"` // cache directory (absolute); only paths below it are traced
	Procs     []ProcJob `json:"procs"`
	Seed      uint64    `json:"seed"`
	Random    bool      `json:"random"`  // randomised token scheduling
	Barrier   bool      `json:"barrier"` // hold everybody until each process has reached its first cache syscall
	MaxMs     int       `json:"max_ms"`
	NoSeccomp bool      `json:"no_seccomp"` // stop at every system call instead of using the child's seccomp filter
}

// Event is one intercepted system call, in effect order.
type Event struct {
	P    int    `json:"p"`           // process index in the job
	T    int    `json:"t"`           // thread index within the process (order of first appearance)
	Tid  int    `json:"tid"`         // kernel thread id
	Sys  string `json:"s"`           // open, creat, mkdir, unlink, rmdir, rename, stat, flock, funlock, close, write, readdir, chmod, crash
	A    string `json:"a,omitempty"` // path relative to the root
	B    string `json:"b,omitempty"` // second path (rename)
	Fl   int    `json:"f,omitempty"` // open flags
	R    int64  `json:"r"`           // result (>=0) or -errno
	Eff  bool   `json:"e,omitempty"` // counted as a crash point (state changing)
	EffN int    `json:"k,omitempty"` // its 1-based index among the crash points of its process
}

type ProcOut struct {
	Stdout   string `json:"stdout"`
	Exit     int    `json:"exit"` // exit code, or -signal
	Killed   bool   `json:"killed"`
	EffCount int    `json:"eff_count"` // number of crash points executed
	Tids     []int  `json:"tids"`
}

type TraceOut struct {
	Events   []Event   `json:"events"`
	Procs    []ProcOut `json:"procs"`
	Syscalls int       `json:"syscalls"` // all syscall stops seen (entry)
	TimedOut bool      `json:"timed_out,omitempty"`
	Err      string    `json:"err,omitempty"`
}

const (
	sysRead       = 0
	sysWrite      = 1
	sysOpen       = 2
	sysClose      = 3
	sysStat       = 4
	sysLstat      = 6
	sysPwrite64   = 18
	sysFlock      = 73
	sysFtruncate  = 77
	sysRename     = 82
	sysMkdir      = 83
	sysRmdir      = 84
	sysUnlink     = 87
	sysChmod      = 90
	sysFchmod     = 91
	sysGetdents64 = 217
	sysOpenat     = 257
	sysMkdirat    = 258
	sysNewfstatat = 262
	sysUnlinkat   = 263
	sysRenameat   = 264
	sysFchmodat   = 268
	sysRenameat2  = 316
	sysStatx      = 332
	sysFchmodat2  = 452

	atFdcwd              = -100
	atRemovedir          = 0x200
	ptraceGetSyscallInfo = 0x420e
	wNoThread            = 0x20000000
)

type fdInfo struct {
	path  string
	flags int
}

type pendingCall struct {
	nr     uint64
	args   [6]uint64
	ev     Event
	traced bool
	isEff  bool
	unlock bool // logged at entry
}

type thread struct {
	tid     int
	proc    int
	idx     int // thread index within proc (-1 until first cache event)
	inCall  bool
	call    pendingCall
	started bool // initial SIGSTOP consumed
}

type tproc struct {
	pid     int
	fds     map[int]fdInfo
	nthr    int
	effSeen int
	killed  bool
	exited  bool
	exit    int
	arrived bool
	live    map[int]bool
	stdout  chan string
	tids    []int
}

type tracer struct {
	job      Job
	root     string
	procs    []*tproc
	threads  map[int]*thread
	events   []Event
	waiting  []*thread // at entry of a token syscall, not yet resumed
	holder   *thread   // thread whose token syscall is in flight
	rng      *common.Rng
	nsys     int
	released bool
}

func ptraceSyscallInfo(tid int, buf *[88]byte) error {
	_, _, e := syscall.Syscall6(syscall.SYS_PTRACE, ptraceGetSyscallInfo, uintptr(tid), uintptr(len(buf)), uintptr(unsafe.Pointer(buf)), 0, 0)
	if e != 0 {
		return e
	}
	return nil
}

func le64(b []byte) uint64 {
	var v uint64
	for i := 7; i >= 0; i-- {
		v = v<<8 | uint64(b[i])
	}
	return v
}

func readCString(tid int, addr uint64) (string, bool) {
	if addr == 0 {
		return "", false
	}
	var out []byte
	for len(out) < 4096 {
		n := 256 - int(addr%256)
		buf := make([]byte, n)
		c, err := syscall.PtracePeekData(tid, uintptr(addr), buf)
		if err != nil || c == 0 {
			return "", false
		}
		for i := 0; i < c; i++ {
			if buf[i] == 0 {
				return string(append(out, buf[:i]...)), true
			}
		}
		out = append(out, buf[:c]...)
		addr += uint64(c)
	}
	return "", false
}

func (t *tracer) rel(p string) (string, bool) {
	if p == t.root {
		return ".", true
	}
	if strings.HasPrefix(p, t.root+"/") {
		return p[len(t.root)+1:], true
	}
	return "", false
}

// resolve a (dirfd, path) pair to a path relative to the root.
func (t *tracer) resolve(pr *tproc, dirfd int64, path string) (string, bool) {
	if strings.HasPrefix(path, "/") {
		return t.rel(filepath.Clean(path))
	}
	if int32(dirfd) == atFdcwd {
		return "", false
	}
	fi, ok := pr.fds[int(int32(dirfd))]
	if !ok {
		return "", false
	}
	return t.rel(filepath.Clean(filepath.Join(t.root, fi.path, path)))
}

// classify decodes a syscall at its entry stop.
func (t *tracer) classify(th *thread, nr uint64, a [6]uint64) pendingCall {
	pr := t.procs[th.proc]
	pc := pendingCall{nr: nr, args: a}
	path := func(dirfd int64, addr uint64) (string, bool) {
		s, ok := readCString(th.tid, addr)
		if !ok {
			return "", false
		}
		return t.resolve(pr, dirfd, s)
	}
	fdpath := func(fd uint64) (fdInfo, bool) {
		fi, ok := pr.fds[int(int32(fd))]
		return fi, ok
	}
	switch nr {
	case sysOpenat, sysOpen:
		dirfd, pa, fl := int64(a[0]), a[1], int(a[2])
		if nr == sysOpen {
			dirfd, pa, fl = atFdcwd, a[0], int(a[1])
		}
		if p, ok := path(dirfd, pa); ok {
			pc.traced = true
			pc.ev = Event{Sys: "open", A: p, Fl: fl}
			if fl&(syscall.O_CREAT|syscall.O_TRUNC) != 0 {
				pc.ev.Sys = "creat"
				pc.isEff = true
			}
		}
	case sysMkdirat, sysMkdir:
		dirfd, pa := int64(a[0]), a[1]
		if nr == sysMkdir {
			dirfd, pa = atFdcwd, a[0]
		}
		if p, ok := path(dirfd, pa); ok {
			pc.traced, pc.isEff = true, true
			pc.ev = Event{Sys: "mkdir", A: p}
		}
	case sysUnlinkat, sysUnlink, sysRmdir:
		dirfd, pa, fl := int64(a[0]), a[1], a[2]
		if nr != sysUnlinkat {
			dirfd, pa, fl = atFdcwd, a[0], 0
			if nr == sysRmdir {
				fl = atRemovedir
			}
		}
		if p, ok := path(dirfd, pa); ok {
			pc.traced, pc.isEff = true, true
			pc.ev = Event{Sys: "unlink", A: p}
			if fl&atRemovedir != 0 {
				pc.ev.Sys = "rmdir"
			}
		}
	case sysRenameat, sysRenameat2, sysRename:
		d1, p1, d2, p2 := int64(a[0]), a[1], int64(a[2]), a[3]
		if nr == sysRename {
			d1, p1, d2, p2 = atFdcwd, a[0], atFdcwd, a[1]
		}
		x, ok1 := path(d1, p1)
		y, ok2 := path(d2, p2)
		if ok1 || ok2 {
			pc.traced, pc.isEff = true, true
			pc.ev = Event{Sys: "rename", A: x, B: y}
		}
	case sysNewfstatat, sysStat, sysLstat, sysStatx:
		dirfd, pa, fl := int64(a[0]), a[1], int(a[3])
		if nr == sysStat || nr == sysLstat {
			dirfd, pa, fl = atFdcwd, a[0], 0
			if nr == sysLstat {
				fl = 0x100
			}
		} else if nr == sysStatx {
			fl = int(a[2])
		}
		if s, ok := readCString(th.tid, pa); ok && s != "" { // empty path: fstat of an fd
			if p, ok := t.resolve(pr, dirfd, s); ok {
				pc.traced = true
				pc.ev = Event{Sys: "stat", A: p, Fl: fl & 0x100} // 0x100 = AT_SYMLINK_NOFOLLOW (lstat)
			}
		}
	case sysFchmodat, sysChmod, sysFchmodat2:
		dirfd, pa := int64(a[0]), a[1]
		if nr == sysChmod {
			dirfd, pa = atFdcwd, a[0]
		}
		if p, ok := path(dirfd, pa); ok {
			pc.traced, pc.isEff = true, true
			pc.ev = Event{Sys: "chmod", A: p, Fl: int(a[2])}
			if nr == sysChmod {
				pc.ev.Fl = int(a[1])
			}
		}
	case sysFchmod:
		if fi, ok := fdpath(a[0]); ok {
			pc.traced, pc.isEff = true, true
			pc.ev = Event{Sys: "chmod", A: fi.path, Fl: int(a[1])}
		}
	case sysFlock:
		if fi, ok := fdpath(a[0]); ok {
			pc.traced, pc.isEff = true, true
			if a[1]&syscall.LOCK_UN != 0 {
				pc.ev = Event{Sys: "funlock", A: fi.path}
				pc.unlock = true
			} else {
				pc.ev = Event{Sys: "flock", A: fi.path, Fl: int(a[1])}
			}
		}
	case sysClose:
		if fi, ok := fdpath(a[0]); ok {
			pc.traced = true
			pc.ev = Event{Sys: "close", A: fi.path, Fl: fi.flags}
			pc.unlock = true // closing a lock file releases a lock still held: log at entry
		}
	case sysWrite, sysPwrite64:
		if fi, ok := fdpath(a[0]); ok {
			pc.traced, pc.isEff = true, true
			pc.ev = Event{Sys: "write", A: fi.path}
		}
	case sysFtruncate:
		if fi, ok := fdpath(a[0]); ok {
			pc.traced, pc.isEff = true, true
			pc.ev = Event{Sys: "truncate", A: fi.path}
		}
	case sysGetdents64:
		if fi, ok := fdpath(a[0]); ok {
			pc.traced = true
			pc.ev = Event{Sys: "readdir", A: fi.path}
		}
	}
	return pc
}

func (t *tracer) threadIdx(th *thread) int {
	if th.idx < 0 {
		pr := t.procs[th.proc]
		th.idx = pr.nthr
		pr.nthr++
		pr.tids = append(pr.tids, th.tid)
	}
	return th.idx
}

func (t *tracer) logEvent(th *thread, ev Event, ret int64) {
	ev.P = th.proc
	ev.T = t.threadIdx(th)
	ev.Tid = th.tid
	ev.R = ret
	t.events = append(t.events, ev)
}

// cont resumes a tracee that is not inside a traced call.  ESRCH: the thread died
// meanwhile (SIGKILL); its exit is reported by wait4.
func (t *tracer) cont(tid int, sig int) {
	if t.job.NoSeccomp {
		_ = syscall.PtraceSyscall(tid, sig)
	} else {
		_ = syscall.PtraceCont(tid, sig)
	}
}

// contToExit resumes a tracee at the entry of a traced call and asks for its exit stop.
func (t *tracer) contToExit(tid int) {
	_ = syscall.PtraceSyscall(tid, 0)
}

func (t *tracer) killProc(pr *tproc, pi int, th *thread) {
	pr.killed = true
	t.events = append(t.events, Event{P: pi, T: t.threadIdx(th), Tid: th.tid, Sys: "crash", R: 0})
	syscall.Kill(pr.pid, syscall.SIGKILL)
	// forget threads of this process that wait for the token
	w := t.waiting[:0]
	for _, x := range t.waiting {
		if x.proc != pi {
			w = append(w, x)
		}
	}
	t.waiting = w
}

// grant gives the token to one waiting thread if it is free.
func (t *tracer) grant() {
	for t.holder == nil && len(t.waiting) > 0 {
		i := 0
		if t.job.Random {
			i = t.rng.Intn(len(t.waiting))
		}
		th := t.waiting[i]
		t.waiting = append(t.waiting[:i], t.waiting[i+1:]...)
		pr := t.procs[th.proc]
		if pr.killed {
			continue
		}
		if th.call.isEff {
			pr.effSeen++
			th.call.ev.Eff = true
			th.call.ev.EffN = pr.effSeen
			if kp := t.job.Procs[th.proc].KillAt; kp > 0 && pr.effSeen == kp {
				pr.effSeen--
				t.killProc(pr, th.proc, th)
				continue
			}
		}
		if th.call.unlock {
			t.logEvent(th, th.call.ev, 0)
		}
		blockingLock := th.call.ev.Sys == "flock" && th.call.ev.Fl&syscall.LOCK_NB == 0
		if !blockingLock {
			t.holder = th
		}
		t.contToExit(th.tid)
	}
}

func (t *tracer) onEntry(th *thread, nr uint64, args [6]uint64) {
	t.nsys++
	pc := t.classify(th, nr, args)
	th.call = pc
	if !pc.traced {
		t.cont(th.tid, 0)
		return
	}
	t.procs[th.proc].arrived = true
	t.waiting = append(t.waiting, th)
}

func (t *tracer) onExit(th *thread, rval int64) {
	pc := th.call
	if pc.traced {
		pr := t.procs[th.proc]
		if !pc.unlock {
			ev := pc.ev
			if ev.Sys == "write" && rval >= 0 {
				ev.Fl = int(rval)
			}
			t.logEvent(th, ev, rval)
		}
		switch pc.ev.Sys {
		case "open", "creat":
			if rval >= 0 {
				pr.fds[int(rval)] = fdInfo{path: pc.ev.A, flags: pc.ev.Fl}
			}
		case "close":
			delete(pr.fds, int(int32(pc.args[0])))
		}
		if t.holder == th {
			t.holder = nil
		}
	}
	th.call = pendingCall{}
	t.cont(th.tid, 0)
}

func tgidOf(tid int) int {
	data, err := os.ReadFile(fmt.Sprintf("/proc/%d/status", tid))
	if err != nil {
		return -1
	}
	for _, ln := range strings.Split(string(data), "\n") {
		if strings.HasPrefix(ln, "Tgid:") {
			var v int
			fmt.Sscanf(strings.TrimSpace(ln[5:]), "%d", &v)
			return v
		}
	}
	return -1
}

func runTrace(job Job) (out TraceOut) {
	runtime.LockOSThread()
	defer runtime.UnlockOSThread()
	t := &tracer{job: job, root: filepath.Clean(job.Root), threads: map[int]*thread{}, rng: common.NewRng(job.Seed ^ 0xc16)}
	self, err := os.Executable()
	if err != nil {
		out.Err = err.Error()
		return
	}
	pidToProc := map[int]int{}
	opts := syscall.PTRACE_O_TRACESYSGOOD | syscall.PTRACE_O_TRACECLONE | syscall.PTRACE_O_TRACEFORK | syscall.PTRACE_O_TRACEVFORK | 0x100000 /* EXITKILL */ | 0x80 /* TRACESECCOMP */
	for i, pj := range job.Procs {
		specJSON, _ := json.Marshal(pj.Spec)
		r, w, err := os.Pipe()
		if err != nil {
			out.Err = err.Error()
			return
		}
		pid, err := syscall.ForkExec(self, []string{self, "child", string(specJSON)}, &syscall.ProcAttr{
			Env:   append(os.Environ(), "GOMAXPROCS=2", map[bool]string{false: "C16_SECCOMP=1", true: "C16_SECCOMP=0"}[job.NoSeccomp]),
			Files: []uintptr{0, w.Fd(), 2},
			Sys:   &syscall.SysProcAttr{Ptrace: true},
		})
		w.Close()
		if err != nil {
			out.Err = "forkexec: " + err.Error()
			return
		}
		ch := make(chan string, 1)
		go func() {
			data, _ := io.ReadAll(r)
			r.Close()
			ch <- string(data)
		}()
		pr := &tproc{pid: pid, fds: map[int]fdInfo{}, live: map[int]bool{pid: true}, stdout: ch}
		t.procs = append(t.procs, pr)
		pidToProc[pid] = i
		var ws syscall.WaitStatus
		if _, err := syscall.Wait4(pid, &ws, syscall.WALL, nil); err != nil || !ws.Stopped() {
			out.Err = fmt.Sprintf("initial wait: %v %v", err, ws)
			return
		}
		if err := syscall.PtraceSetOptions(pid, opts); err != nil {
			out.Err = "setoptions: " + err.Error()
			return
		}
		t.threads[pid] = &thread{tid: pid, proc: i, idx: -1, started: true}
		t.cont(pid, 0)
	}
	t0 := time.Now()
	timedOut := make(chan struct{})
	watchdog := time.AfterFunc(time.Duration(max(job.MaxMs, 1000))*time.Millisecond, func() {
		close(timedOut)
		for _, pr := range t.procs {
			syscall.Kill(pr.pid, syscall.SIGKILL)
		}
	})
	defer watchdog.Stop()
	liveProcs := len(t.procs)
	var info [88]byte
	var lingerUntil time.Time
	lingered := false
	for liveProcs > 0 {
		poll := false
		if t.holder == nil && len(t.waiting) > 0 {
			now := time.Now()
			switch {
			case t.job.Barrier && !t.released:
				all := true
				for _, pr := range t.procs {
					if !pr.arrived && !pr.exited {
						all = false
					}
				}
				if all || now.Sub(t0) > 3*time.Second {
					t.released = true
				}
				poll = true
			case now.Before(lingerUntil):
				poll = true
			case t.job.Random && !lingered && t.rng.Chance(1, 3):
				lingerUntil = now.Add(time.Duration(t.rng.Intn(400)) * time.Microsecond)
				lingered = true
				poll = true
			default:
				t.grant()
				lingered = false
			}
		}
		flags := syscall.WALL | wNoThread
		if poll {
			flags |= syscall.WNOHANG
		}
		var ws syscall.WaitStatus
		wpid, err := syscall.Wait4(-1, &ws, flags, nil)
		if err == syscall.EINTR {
			continue
		}
		if err != nil {
			out.Err = "wait4: " + err.Error()
			break
		}
		if wpid == 0 {
			if t.job.Barrier && !t.released {
				time.Sleep(300 * time.Microsecond)
			} else {
				time.Sleep(20 * time.Microsecond)
			}
			continue
		}
		th := t.threads[wpid]
		if th == nil {
			tg := tgidOf(wpid)
			pi, ok := pidToProc[tg]
			if !ok {
				// a forked grandchild (none expected): let it run untraced-ish
				if ws.Stopped() {
					t.cont(wpid, 0)
				}
				continue
			}
			th = &thread{tid: wpid, proc: pi, idx: -1}
			t.threads[wpid] = th
			t.procs[pi].live[wpid] = true
		}
		pr := t.procs[th.proc]
		switch {
		case ws.Exited() || ws.Signaled():
			delete(t.threads, wpid)
			delete(pr.live, wpid)
			if t.holder == th {
				t.holder = nil
			}
			if wpid == pr.pid {
				pr.exited = true
				if ws.Exited() {
					pr.exit = ws.ExitStatus()
				} else {
					pr.exit = -int(ws.Signal())
				}
				liveProcs--
			}
		case ws.Stopped():
			sig := ws.StopSignal()
			switch {
			case sig == syscall.SIGTRAP|0x80:
				if err := ptraceSyscallInfo(wpid, &info); err != nil {
					t.cont(wpid, 0)
					break
				}
				switch info[0] {
				case 1, 3: // entry (3: reported as a seccomp stop)
					var args [6]uint64
					for i := range args {
						args[i] = le64(info[32+8*i:])
					}
					th.inCall = true
					t.onEntry(th, le64(info[24:]), args)
				case 2: // exit
					th.inCall = false
					t.onExit(th, int64(le64(info[24:])))
				default:
					t.cont(wpid, 0)
				}
			case sig == syscall.SIGTRAP && ws.TrapCause() == 7: // PTRACE_EVENT_SECCOMP: entry of a filtered call
				if err := ptraceSyscallInfo(wpid, &info); err != nil || (info[0] != 3 && info[0] != 1) {
					t.cont(wpid, 0)
					break
				}
				var args [6]uint64
				for i := range args {
					args[i] = le64(info[32+8*i:])
				}
				th.inCall = true
				t.onEntry(th, le64(info[24:]), args)
			case sig == syscall.SIGTRAP:
				// ptrace event (clone/fork/exec): the new task is attached automatically
				t.cont(wpid, 0)
			case sig == syscall.SIGSTOP && !th.started:
				th.started = true
				t.cont(wpid, 0)
			default:
				t.cont(wpid, int(sig))
			}
		}
	}
	out.Events = t.events
	out.Syscalls = t.nsys
	select {
	case <-timedOut:
		out.TimedOut = true
	default:
	}
	for _, pr := range t.procs {
		po := ProcOut{Exit: pr.exit, Killed: pr.killed, EffCount: pr.effSeen, Tids: pr.tids}
		// the process is gone, so the write end of the pipe is closed: the reader terminates
		select {
		case po.Stdout = <-pr.stdout:
		case <-time.After(120 * time.Second):
		}
		out.Procs = append(out.Procs, po)
	}
	return out
}

func traceMain(jobJSON string) int {
	var job Job
	if err := json.Unmarshal([]byte(jobJSON), &job); err != nil {
		fmt.Fprintln(os.Stderr, "bad job:", err)
		return 2
	}
	out := runTrace(job)
	data, _ := json.Marshal(out)
	os.Stdout.Write(append(data, '\n'))
	if out.Err != "" {
		return 1
	}
	return 0
}
