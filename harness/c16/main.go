// C16 harness: one binary with three roles.
//
//	child <spec-json>      the traced process: in-memory registry + modcache.Fetch
//	trace <job-json>       ptrace tracer / crash injector / scheduler (tracer.go)
//	run   ...              orchestrator producing histories (orch.go)
package main

import (
	"fmt"
	"os"
)

func main() {
	if len(os.Args) < 2 {
		fmt.Fprintln(os.Stderr, "usage: harness-c16 child|trace|run ...")
		os.Exit(2)
	}
	switch os.Args[1] {
	case "child":
		os.Exit(runChild(os.Args[2]))
	case "trace":
		os.Exit(traceMain(os.Args[2]))
	case "run":
		os.Exit(orchMain(os.Args[2:]))
	default:
		fmt.Fprintln(os.Stderr, "unknown role", os.Args[1])
		os.Exit(2)
	}
}
