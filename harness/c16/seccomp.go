package main

// The traced child installs a seccomp-bpf filter that returns SECCOMP_RET_TRACE for
// the file-system system calls the tracer is interested in and allows everything
// else, so the tracer is stopped only where it has something to decide (about
// 5x fewer ptrace stops than PTRACE_SYSCALL on every call of the Go runtime).

import (
	"fmt"
	"syscall"
	"unsafe"
)

type sockFilter struct {
	code uint16
	jt   uint8
	jf   uint8
	k    uint32
}

type sockFprog struct {
	n      uint16
	_      [6]byte
	filter *sockFilter
}

var tracedSyscalls = []uint32{
	sysWrite, sysOpen, sysClose, sysStat, sysLstat, sysPwrite64, sysFlock, sysFtruncate, sysRename, sysMkdir,
	sysRmdir, sysUnlink, sysChmod, sysFchmod, sysGetdents64, sysOpenat, sysMkdirat, sysNewfstatat, sysUnlinkat,
	sysRenameat, sysFchmodat, sysRenameat2, sysStatx, sysFchmodat2,
}

func installSeccomp() error {
	const (
		retAllow = 0x7fff0000
		retTrace = 0x7ff00000
	)
	n := len(tracedSyscalls)
	prog := []sockFilter{{code: 0x20, k: 0}} // ld [nr]
	for j, nr := range tracedSyscalls {
		prog = append(prog, sockFilter{code: 0x15, jt: uint8(n - j), jf: 0, k: nr})
	}
	prog = append(prog, sockFilter{code: 0x06, k: retAllow}, sockFilter{code: 0x06, k: retTrace})
	fp := sockFprog{n: uint16(len(prog)), filter: &prog[0]}
	if _, _, e := syscall.Syscall6(syscall.SYS_PRCTL, 38 /* PR_SET_NO_NEW_PRIVS */, 1, 0, 0, 0, 0); e != 0 {
		return fmt.Errorf("prctl: %v", e)
	}
	if _, _, e := syscall.Syscall(317 /* seccomp */, 1 /* SET_MODE_FILTER */, 1 /* TSYNC */, uintptr(unsafe.Pointer(&fp))); e != 0 {
		return fmt.Errorf("seccomp: %v", e)
	}
	return nil
}
