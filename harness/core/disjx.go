package main

// EXPLORATION stream c04x (property C04): impl vs impl, NOT a proof and not tied to the Coq model.
//
// Disjunction expressions of a richer shape than the proved stream `c04` (nested parenthesised
// disjunctions, struct/list disjuncts whose fields/elements are disjunctions themselves, a nested
// disjunction reached through a reference, an optional plain operand of &) are compared with
// rearrangements that the theorems of Properties/C04.v say cannot change the outcome:
// C04_disjunct_order_independent (permutation of the disjuncts of one disjunction),
// C04_duplicate_disjunct / C04_weaker_copy_irrelevant (a copy with the same mark, or an unmarked
// copy of a marked disjunct), C04_failed_disjunct_irrelevant (a failed disjunct).  Operands of &
// are never permuted (known finding F2) and marked nested groups are never re-associated or
// flattened (design/Core.md, observation O-nested).

import (
	"encoding/json"
	"fmt"
	"os"
	"runtime/debug"
	"sort"
	"strings"
	"sync"

	"cuelang.org/go/cue"
	"cuelang.org/go/cue/cuecontext"
	"cuelang.org/go/internal/core/adt"
	"cuelang.org/go/internal/value"
	"cuelang.org/go/internal/verifharness/common"
)

// ---- expression tree ------------------------------------------------------------------

type xN interface{ S() string }

type xLeaf struct{ T string } // atom, basic type, bound, `_|_`
type xRef struct{ Name string }
type xFld struct {
	L string
	V xN
}
type xStruct struct{ Fs []xFld }
type xList struct{ Els []xN }
type xAlt struct {
	M bool
	E xN
}
type xDisj struct{ As []xAlt }

func (l xLeaf) S() string { return l.T }
func (r xRef) S() string  { return r.Name }
func (s *xStruct) S() string {
	var fs []string
	for _, f := range s.Fs {
		fs = append(fs, f.L+": "+f.V.S())
	}
	return "{" + strings.Join(fs, ", ") + "}"
}
func (l *xList) S() string {
	var es []string
	for _, e := range l.Els {
		es = append(es, e.S())
	}
	return "[" + strings.Join(es, ", ") + "]"
}
func (d *xDisj) S() string {
	var as []string
	for _, a := range d.As {
		s := a.E.S()
		if _, nested := a.E.(*xDisj); nested {
			s = "(" + s + ")"
		}
		if a.M {
			s = "*" + s
		}
		as = append(as, s)
	}
	return strings.Join(as, " | ")
}

// xProg: helper fields (targets of references) and the expression under test, optionally unified
// with ONE plain operand whose side is fixed per program (operands of & are never permuted).
type xProg struct {
	Decls      []xFld
	E          *xDisj
	Plain      string
	PlainFirst bool
}

func (p *xProg) declText() string {
	var b strings.Builder
	for _, d := range p.Decls {
		b.WriteString(d.L + ": " + d.V.S() + "\n")
	}
	return b.String()
}

// X is the whole expression under test (as it is written after `x:` and inside every probe).
func (p *xProg) X() string {
	e := p.E.S()
	if p.Plain == "" {
		return e
	}
	if p.PlainFirst {
		return p.Plain + " & (" + e + ")"
	}
	return "(" + e + ") & " + p.Plain
}

func (p *xProg) text() string { return p.declText() + "x: " + p.X() + "\n" }

func xClone(e xN) xN {
	switch x := e.(type) {
	case *xStruct:
		c := &xStruct{}
		for _, f := range x.Fs {
			c.Fs = append(c.Fs, xFld{f.L, xClone(f.V)})
		}
		return c
	case *xList:
		c := &xList{}
		for _, el := range x.Els {
			c.Els = append(c.Els, xClone(el))
		}
		return c
	case *xDisj:
		c := &xDisj{}
		for _, a := range x.As {
			c.As = append(c.As, xAlt{a.M, xClone(a.E)})
		}
		return c
	}
	return e
}

func (p *xProg) clone() *xProg {
	c := &xProg{Plain: p.Plain, PlainFirst: p.PlainFirst, E: xClone(p.E).(*xDisj)}
	for _, d := range p.Decls {
		c.Decls = append(c.Decls, xFld{d.L, xClone(d.V)})
	}
	return c
}

// xSite: one disjunction of the program with what the rearrangements need to know about it.
type xSite struct {
	D     *xDisj
	Level int  // 0: the disjunction under test or a nested group of it / a referenced one; >0: inside a field or element
	Group bool // reached only through parentheses/references from the top (shares the plain operand)
}

func (p *xProg) sites() []xSite {
	var out []xSite
	var walk func(e xN, level int, group bool)
	walk = func(e xN, level int, group bool) {
		switch x := e.(type) {
		case *xDisj:
			out = append(out, xSite{x, level, group})
			for _, a := range x.As {
				walk(a.E, level, group)
			}
		case *xStruct:
			for _, f := range x.Fs {
				walk(f.V, level+1, false)
			}
		case *xList:
			for _, el := range x.Els {
				walk(el, level+1, false)
			}
		}
	}
	walk(p.E, 0, true)
	for _, d := range p.Decls {
		walk(d.V, 0, true)
	}
	return out
}

// ---- generator ---------------------------------------------------------------------------

type xGen struct {
	r     *common.Rng
	n     int
	decls []xFld
	feats map[string]bool
}

var xThemeAtoms = [][]string{
	{"0", "1", "2", "3", "5"},
	{`"x"`, `"y"`, `"z"`, `"tcp"`},
}

func (g *xGen) atom(theme int) string {
	if theme > 1 {
		theme = g.r.Intn(2)
	}
	return common.Pick(g.r, xThemeAtoms[theme])
}

func (g *xGen) scalar(theme int) xN {
	if theme > 1 {
		theme = g.r.Intn(2)
	}
	switch g.r.Intn(8) {
	case 0:
		if theme == 0 {
			return xLeaf{common.Pick(g.r, []string{"int", "number", "int", "float"})}
		}
		return xLeaf{common.Pick(g.r, []string{"string", "bool", "string"})}
	case 1:
		if theme == 0 {
			return xLeaf{common.Pick(g.r, []string{">0", "<5", ">=2", "<=2", ">2", "!=1"})}
		}
		return xLeaf{common.Pick(g.r, []string{`!="x"`, `>"x"`, `true`, `null`})}
	}
	return xLeaf{g.atom(theme)}
}

// fieldVal: the value of a struct field / list element: an atom, a type, or an (unmarked unless
// allowed) disjunction of 2-3 scalars.
func (g *xGen) fieldVal(theme int, marksOK bool) xN {
	if g.r.Chance(1, 2) {
		return g.scalar(theme)
	}
	return g.smallDisj(theme, marksOK)
}

func (g *xGen) smallDisj(theme int, marksOK bool) *xDisj {
	d := &xDisj{}
	k := 2 + g.r.Intn(2)
	for i := 0; i < k; i++ {
		d.As = append(d.As, xAlt{false, g.scalar(theme)})
	}
	if marksOK && g.r.Chance(1, 4) {
		d.As[g.r.Intn(k)].M = true
		g.feats["mark-inside-field"] = true
	}
	return d
}

var xFieldSets = [][]string{{"a"}, {"a", "b"}, {"k", "n"}, {"a"}, {"b"}}

func (g *xGen) strct(marksOK bool) *xStruct {
	s := &xStruct{}
	hasDisj := false
	for _, l := range common.Pick(g.r, xFieldSets) {
		th := 0
		if l == "k" {
			th = 1
		}
		v := g.fieldVal(th, marksOK)
		if _, ok := v.(*xDisj); ok {
			hasDisj = true
		}
		s.Fs = append(s.Fs, xFld{l, v})
	}
	if hasDisj {
		g.feats["struct-with-disjunction-field"] = true
	}
	return s
}

func (g *xGen) list(marksOK bool) *xList {
	l := &xList{}
	n := 1 + g.r.Intn(2)
	for i := 0; i < n; i++ {
		v := g.fieldVal(0, marksOK)
		if _, ok := v.(*xDisj); ok {
			g.feats["list-with-disjunction"] = true
		}
		l.Els = append(l.Els, v)
	}
	return l
}

// variantOf: a struct/list equal to e except for ONE alternative of one disjunction-valued
// field/element (same width): the class in which a too coarse equality merges distinct disjuncts.
func (g *xGen) variantOf(e xN) xN {
	c := xClone(e)
	var ds []*xDisj
	var th []int
	switch x := c.(type) {
	case *xStruct:
		for _, f := range x.Fs {
			if d, ok := f.V.(*xDisj); ok {
				ds = append(ds, d)
				t := 0
				if f.L == "k" {
					t = 1
				}
				th = append(th, t)
			}
		}
	case *xList:
		for _, el := range x.Els {
			if d, ok := el.(*xDisj); ok {
				ds = append(ds, d)
				th = append(th, 0)
			}
		}
	}
	if len(ds) == 0 {
		return nil
	}
	i := g.r.Intn(len(ds))
	d := ds[i]
	j := g.r.Intn(len(d.As))
	old := d.As[j].E.S()
	for try := 0; try < 8; try++ {
		a := g.atom(th[i])
		if a != old {
			d.As[j].E = xLeaf{a}
			return c
		}
	}
	return nil
}

// disj generates a disjunction.  inMarked: this disjunction lies inside a marked disjunct, so
// nothing below may carry a mark.
func (g *xGen) disj(depth int, inMarked bool, theme int, top bool) *xDisj {
	d := &xDisj{}
	k := 2 + g.r.Intn(2)
	if top {
		k = 2 + g.r.Intn(4)
	}
	style := g.r.Intn(5) // 0,1: no marks; 2,3: one mark; 4: several
	if inMarked {
		style = 0
	}
	marked := make([]bool, k)
	switch style {
	case 2, 3:
		marked[g.r.Intn(k)] = true
	case 4:
		for i := range marked {
			marked[i] = g.r.Chance(1, 2)
		}
	}
	// bias 1: an unmarked outer disjunction with a plain X and a nested group holding *X
	if !inMarked && depth == 0 && g.r.Chance(1, 4) {
		for i := range marked {
			marked[i] = false
		}
		x := g.atom(theme)
		inner := &xDisj{}
		ik := 2 + g.r.Intn(2)
		for i := 0; i < ik; i++ {
			inner.As = append(inner.As, xAlt{false, g.scalar(theme)})
		}
		inner.As[g.r.Intn(ik)] = xAlt{true, xLeaf{x}}
		var grp xN = inner
		if top && g.r.Chance(1, 3) {
			grp = g.ref(inner)
		}
		d.As = append(d.As, xAlt{false, xLeaf{x}}, xAlt{false, grp})
		for len(d.As) < k {
			d.As = append(d.As, xAlt{false, g.scalar(theme)})
		}
		common.Shuffle(g.r, d.As)
		g.feats["dup-outer-inner"] = true
		g.feats["nested-marked"] = true
		return d
	}
	// bias 2: struct/list disjuncts that differ only in a disjunction-valued field of equal width
	if depth <= 1 && theme >= 2 && g.r.Chance(1, 3) {
		for try := 0; try < 6 && len(d.As) == 0; try++ {
			var base xN
			if theme == 3 || g.r.Chance(1, 4) {
				base = g.list(!inMarked && !marked[0] && !marked[1])
			} else {
				base = g.strct(!inMarked && !marked[0] && !marked[1])
			}
			if v := g.variantOf(base); v != nil {
				d.As = append(d.As, xAlt{marked[0], base}, xAlt{marked[1], v})
				if k > 2 && g.r.Chance(1, 2) {
					if v2 := g.variantOf(base); v2 != nil {
						d.As = append(d.As, xAlt{marked[2], v2})
					}
				}
			}
		}
		if len(d.As) > 0 {
			g.feats["differ-only-in-disjunction-field"] = true
			for i := len(d.As); i < k; i++ {
				d.As = append(d.As, xAlt{marked[i], g.alt(depth, inMarked || marked[i], theme, top)})
			}
			common.Shuffle(g.r, d.As)
			return d
		}
	}
	for i := 0; i < k; i++ {
		d.As = append(d.As, xAlt{marked[i], g.alt(depth, inMarked || marked[i], theme, top)})
	}
	// duplicates are frequent
	if g.r.Chance(1, 5) {
		i, j := g.r.Intn(k), g.r.Intn(k)
		if i != j && !xHasMark(d.As[i].E) && !(d.As[j].M && xHasMark(d.As[i].E)) {
			d.As[j].E = xClone(d.As[i].E)
		}
	}
	return d
}

func xHasMark(e xN) bool {
	switch x := e.(type) {
	case *xDisj:
		for _, a := range x.As {
			if a.M || xHasMark(a.E) {
				return true
			}
		}
	case *xStruct:
		for _, f := range x.Fs {
			if xHasMark(f.V) {
				return true
			}
		}
	case *xList:
		for _, el := range x.Els {
			if xHasMark(el) {
				return true
			}
		}
	case xRef:
		return true // conservatively: the target may be marked
	}
	return false
}

func (g *xGen) ref(target *xDisj) xN {
	g.n++
	name := fmt.Sprintf("p%d", g.n)
	g.decls = append(g.decls, xFld{name, target})
	g.feats["via-reference"] = true
	return xRef{name}
}

func (g *xGen) alt(depth int, inMarked bool, theme int, top bool) xN {
	switch theme {
	case 0, 1:
		if depth < 2 && g.r.Chance(1, 4) {
			return g.group(depth, inMarked, theme, top)
		}
		if g.r.Chance(1, 12) {
			return g.strct(!inMarked)
		}
		return g.scalar(theme)
	case 2:
		switch g.r.Intn(8) {
		case 0:
			return g.scalar(theme)
		case 1:
			if depth < 2 {
				return g.group(depth, inMarked, theme, top)
			}
		case 2:
			return g.list(!inMarked)
		}
		return g.strct(!inMarked)
	case 3:
		switch g.r.Intn(8) {
		case 0:
			return g.scalar(theme)
		case 1:
			if depth < 2 {
				return g.group(depth, inMarked, theme, top)
			}
		case 2:
			return g.strct(!inMarked)
		}
		return g.list(!inMarked)
	}
	// mixed
	switch g.r.Intn(6) {
	case 0:
		return g.strct(!inMarked)
	case 1:
		return g.list(!inMarked)
	case 2:
		if depth < 2 {
			return g.group(depth, inMarked, theme, top)
		}
	}
	return g.scalar(theme)
}

func (g *xGen) group(depth int, inMarked bool, theme int, top bool) xN {
	inner := g.disj(depth+1, inMarked, theme, false)
	if xHasMark(inner) {
		g.feats["nested-marked"] = true
	} else {
		g.feats["nested-unmarked"] = true
	}
	if top && depth == 0 && g.r.Chance(1, 4) {
		return g.ref(inner)
	}
	return inner
}

var xPlains = [][]string{
	{"int", "number", ">0", "<5", ">=1", "!=1", "<=2"},
	{"string", `!="x"`, `=~"^[xyt]"`},
	{"{a: int}", "{}", "{b: 1}", "{a: >0}", "{a: 1 | 2 | 3}", "{c: 1}", "{a: number, ...}"},
	{"[int]", "[...]", "[>0]", "[_]", "[...int]"},
	{"_", "int", "{...}", "string"},
}

func (g *xGen) program() (*xProg, []string) {
	g.decls = nil
	g.n = 0
	g.feats = map[string]bool{}
	theme := g.r.Intn(5)
	p := &xProg{}
	p.E = g.disj(0, false, theme, true)
	p.Decls = g.decls
	if g.r.Chance(1, 3) {
		p.Plain = common.Pick(g.r, xPlains[theme])
		p.PlainFirst = g.r.Chance(1, 3)
		g.feats["with-plain-operand"] = true
	}
	if xUnmarkTwins(p) {
		delete(g.feats, "mark-inside-field")
		for _, st := range p.sites() {
			if st.Level > 0 && xHasMarkedAlt(st.D) {
				g.feats["mark-inside-field"] = true
			}
		}
	}
	if xHasMark(p.E) {
		g.feats["marked"] = true
	}
	var fs []string
	for f := range g.feats {
		fs = append(fs, f)
	}
	sort.Strings(fs)
	return p, fs
}

// xUnmarkTwins keeps the generator out of class F18(b) (design/Core.md): when cue merges two equal
// struct/list disjuncts it keeps the nested defaults of the one that arrived first and ignores those
// of the other (`{a: *1 | 3} | {a: 1 | 3}` is `{a: 1}`, `{a: 1 | 3} | {a: *1 | 3}` is incomplete).  Marks
// inside fields/elements are therefore erased in every struct/list disjunct that has a twin of the
// same shape (same labels once the plain operand is unified in / same length) anywhere in the program.
func xUnmarkTwins(p *xProg) bool {
	var plainLabs []string
	if strings.HasPrefix(p.Plain, "{") {
		for _, f := range strings.FieldsFunc(p.Plain, func(r rune) bool { return r == '{' || r == '}' || r == ',' || r == ' ' }) {
			if strings.HasSuffix(f, ":") {
				plainLabs = append(plainLabs, strings.TrimSuffix(f, ":"))
			}
		}
	}
	groups := map[string][]xN{}
	var walk func(e xN)
	walk = func(e xN) {
		switch x := e.(type) {
		case *xDisj:
			for _, a := range x.As {
				walk(a.E)
			}
		case *xStruct:
			set := map[string]bool{}
			for _, l := range plainLabs {
				set[l] = true
			}
			for _, f := range x.Fs {
				set[f.L] = true
			}
			var ls []string
			for l := range set {
				ls = append(ls, l)
			}
			sort.Strings(ls)
			k := "{" + strings.Join(ls, ",")
			groups[k] = append(groups[k], x)
		case *xList:
			k := fmt.Sprintf("[%d", len(x.Els))
			groups[k] = append(groups[k], x)
		}
	}
	walk(p.E)
	for _, d := range p.Decls {
		walk(d.V)
	}
	changed := false
	unmark := func(v xN) {
		if d, ok := v.(*xDisj); ok {
			for i := range d.As {
				if d.As[i].M {
					d.As[i].M = false
					changed = true
				}
			}
		}
	}
	for _, g := range groups {
		if len(g) < 2 {
			continue
		}
		for _, e := range g {
			switch x := e.(type) {
			case *xStruct:
				for _, f := range x.Fs {
					unmark(f.V)
				}
			case *xList:
				for _, el := range x.Els {
					unmark(el)
				}
			}
		}
	}
	return changed
}

// ---- rearrangements ------------------------------------------------------------------------

// xConflict: a disjunct that fails against the plain operand.
func xConflict(plain string) string {
	switch {
	case plain == "_":
		return "_|_"
	case strings.HasPrefix(plain, "{"):
		return common_pickStr(plain, []string{`"zz"`, `7`, `[1]`})
	case strings.HasPrefix(plain, "["):
		return common_pickStr(plain, []string{`"zz"`, `{a: 1}`, `7`})
	case plain == "string" || strings.HasPrefix(plain, `!="`) || strings.HasPrefix(plain, `=~`):
		return common_pickStr(plain, []string{`7`, `{a: 1}`, `true`})
	}
	return common_pickStr(plain, []string{`"zz"`, `{a: 1}`, `true`})
}

func common_pickStr(key string, xs []string) string { return xs[len(key)%len(xs)] }

func xInsert(d *xDisj, pos int, a xAlt) {
	d.As = append(d.As, xAlt{})
	copy(d.As[pos+1:], d.As[pos:])
	d.As[pos] = a
}

func xHasMarkedAlt(d *xDisj) bool {
	for _, a := range d.As {
		if a.M {
			return true
		}
	}
	return false
}

type xVariant struct {
	P     *xProg
	Kinds []string
}

// xRearrange applies 1-2 outcome-preserving steps, fully determined by seed.
func xRearrange(p *xProg, seed uint64) xVariant {
	r := common.NewRng(seed)
	q := p.clone()
	var kinds []string
	steps := 1 + r.Intn(2)
	for s := 0; s < steps; s++ {
		sites := q.sites()
		site := common.Pick(r, sites)
		d := site.D
		switch r.Intn(7) {
		case 0, 1: // permute the disjuncts of one disjunction (marks stay attached)
			before := d.S()
			for try := 0; try < 4; try++ {
				common.Shuffle(r, d.As)
				if d.S() != before {
					break
				}
			}
			kinds = append(kinds, "permute")
		case 2: // swap two nested groups of one disjunction
			var idx []int
			var gd *xDisj
			for _, st := range sites {
				idx = idx[:0]
				for i, a := range st.D.As {
					switch a.E.(type) {
					case *xDisj, xRef:
						idx = append(idx, i)
					}
				}
				if len(idx) >= 2 {
					gd = st.D
					break
				}
			}
			if gd != nil {
				common.Shuffle(r, idx)
				gd.As[idx[0]], gd.As[idx[1]] = gd.As[idx[1]], gd.As[idx[0]]
				kinds = append(kinds, "swap-groups")
			} else { // no two groups: move one disjunct to the other end
				if r.Bool() {
					d.As = append(d.As[1:], d.As[0])
				} else {
					n := len(d.As)
					d.As = append([]xAlt{d.As[n-1]}, d.As[:n-1]...)
				}
				kinds = append(kinds, "rotate")
			}
		case 3: // duplicate with the same mark
			a := d.As[r.Intn(len(d.As))]
			xInsert(d, r.Intn(len(d.As)+1), xAlt{a.M, xClone(a.E)})
			kinds = append(kinds, "duplicate")
		case 4: // unmarked copy of a marked disjunct (else a plain duplicate)
			var ms []int
			for i, a := range d.As {
				if a.M {
					ms = append(ms, i)
				}
			}
			if len(ms) > 0 {
				a := d.As[common.Pick(r, ms)]
				xInsert(d, r.Intn(len(d.As)+1), xAlt{false, xClone(a.E)})
				kinds = append(kinds, "unmarked-copy-of-marked")
			} else {
				a := d.As[r.Intn(len(d.As))]
				xInsert(d, r.Intn(len(d.As)+1), xAlt{false, xClone(a.E)})
				kinds = append(kinds, "duplicate")
			}
		case 5: // a failed disjunct: bottom
			m := xHasMarkedAlt(d) && r.Chance(1, 4)
			xInsert(d, r.Intn(len(d.As)+1), xAlt{m, xLeaf{"_|_"}})
			if m {
				kinds = append(kinds, "failed-bottom-marked")
			} else {
				kinds = append(kinds, "failed-bottom")
			}
		case 6: // a failed disjunct: conflicts with the plain operand
			if q.Plain != "" {
				var gs []xSite
				for _, st := range sites {
					if st.Group {
						gs = append(gs, st)
					}
				}
				gd := common.Pick(r, gs).D
				m := xHasMarkedAlt(gd) && r.Chance(1, 4)
				xInsert(gd, r.Intn(len(gd.As)+1), xAlt{m, xLeaf{xConflict(q.Plain)}})
				if m {
					kinds = append(kinds, "failed-vs-plain-marked")
				} else {
					kinds = append(kinds, "failed-vs-plain")
				}
			} else {
				xInsert(d, r.Intn(len(d.As)+1), xAlt{false, xLeaf{"_|_"}})
				kinds = append(kinds, "failed-bottom")
			}
		}
	}
	return xVariant{q, kinds}
}

// ---- observation ------------------------------------------------------------------------

type xObs struct {
	Res   string `json:"resolution"` // CHOSEN <canon> / AMBIG / NOVALUE
	Conc  string `json:"concrete"`   // Validate(Concrete(true))
	Set   string `json:"disjuncts"`  // the set of disjuncts of the evaluated value, defaults flagged
	Acc   string `json:"accepts"`    // one bit per probe, computed in the language
	Fatal string `json:"fatal,omitempty"`
	// Dup: the evaluated value holds two disjuncts with the same canonical form (not compared)
	Dup bool `json:"unmerged_equal_disjuncts,omitempty"`
}

// xDiffer: do two observations of equivalent expressions differ?  When either evaluated value holds
// two disjuncts with the same canonical form (class of the positional equality of unresolved
// disjunctions, design/Core.md) the resolution, concreteness (a function of the resolution) and the
// set of disjuncts are NOT compared; acceptance still is.
func xDiffer(a, b xObs) (differ, inClass bool) {
	if a.Dup || b.Dup {
		return a.Acc != b.Acc || a.Fatal != b.Fatal, true
	}
	return a.key() != b.key(), false
}

func (o xObs) key() string {
	return o.Res + "\n" + o.Conc + "\n" + o.Set + "\n" + o.Acc + "\n" + o.Fatal
}

var xProbeAtoms = []string{"0", "1", "2", "3", "5", "7", "1.5", `"x"`, `"y"`, `"z"`, `"tcp"`, "true", "null"}

type xSession struct {
	ctx   *cue.Context
	atoms []cue.Value
	dup   bool // set by canon: some evaluated disjunction holds two disjuncts with the same canonical form
}

func newXSession() *xSession {
	s := &xSession{ctx: cuecontext.New()}
	for _, a := range xProbeAtoms {
		s.atoms = append(s.atoms, s.ctx.CompileString(a))
	}
	return s
}

func xStatus(vx *adt.Vertex) byte {
	if b, ok := vx.BaseValue.(*adt.Bottom); ok && b != nil {
		if b.IsIncomplete() {
			return 'I'
		}
		return 'E'
	}
	return 0
}

// canon: canonical printer of an evaluated value; a value that still is a disjunction prints as
// the SORTED set of its disjuncts with the defaults flagged.
func (s *xSession) canon(v cue.Value, depth int) string {
	c, _ := s.canon2(v, depth)
	return c
}

// canon2 returns the canonical form and the POSITIONAL form (disjuncts in the order cue holds them).
// Two disjuncts of one evaluated disjunction with the same canonical but different positional forms
// are equal up to the order of a nested disjunction: cue does not merge them (Equal compares
// unresolved disjunctions position by position, design/Core.md F18); s.dup records that.
func (s *xSession) canon2(v cue.Value, depth int) (string, string) {
	if depth > 8 {
		return "DEEP", "DEEP"
	}
	vx := value.Vertex(v)
	if vx == nil {
		return "NIL", "NIL"
	}
	vx = vx.DerefValue()
	if st := xStatus(vx); st != 0 {
		return string(st), string(st)
	}
	if dj, ok := vx.BaseValue.(*adt.Disjunction); ok {
		octx := value.OpContext(s.ctx)
		type part struct{ c, p string } // without the default flag
		var parts []part
		var pos []string
		for i, dv := range dj.Values {
			c, p := s.canon2(value.Make(octx, dv), depth+1)
			for _, q := range parts {
				if q.c == c && q.p != p {
					s.dup = true
				}
			}
			parts = append(parts, part{c, p})
			if i < dj.NumDefaults {
				p = "*" + p
			}
			pos = append(pos, p)
		}
		var cs []string
		for i, q := range parts {
			t := q.c
			if i < dj.NumDefaults {
				t = "*" + t
			}
			cs = append(cs, t)
		}
		sort.Strings(cs)
		return "(" + strings.Join(cs, " | ") + ")", "(" + strings.Join(pos, " | ") + ")"
	}
	k := v.IncompleteKind()
	switch k {
	case cue.StructKind:
		it, err := v.Fields(cue.All())
		if err != nil {
			return "E", "E"
		}
		type fld struct{ c, p string }
		var fs []fld
		for it.Next() {
			c, p := s.canon2(it.Value(), depth+1)
			l := it.Selector().String() + ": "
			fs = append(fs, fld{l + c, l + p})
		}
		sort.Slice(fs, func(i, j int) bool { return fs[i].c < fs[j].c })
		open := ""
		if v.Allows(cue.AnyString) {
			open = ", ..."
		}
		var cs, ps []string
		for _, f := range fs {
			cs = append(cs, f.c)
			ps = append(ps, f.p)
		}
		return "{" + strings.Join(cs, ", ") + open + "}", "{" + strings.Join(ps, ", ") + open + "}"
	case cue.ListKind:
		it, err := v.List()
		if err != nil {
			return "E", "E"
		}
		var cs, ps []string
		for it.Next() {
			c, p := s.canon2(it.Value(), depth+1)
			cs = append(cs, c)
			ps = append(ps, p)
		}
		open := ""
		if v.Allows(cue.AnyIndex) {
			open = ", ..."
		}
		return "[" + strings.Join(cs, ", ") + open + "]", "[" + strings.Join(ps, ", ") + open + "]"
	case cue.BottomKind:
		return "E", "E"
	}
	if v.IsConcrete() {
		t := fmt.Sprint(v)
		return t, t
	}
	// a non-concrete scalar: kinds, the acceptance of every probe atom, and its printed form
	var b strings.Builder
	b.WriteString(k.String())
	b.WriteByte(':')
	for _, a := range s.atoms {
		b.WriteByte(bit(!xBad(v.Unify(a))))
	}
	b.WriteByte(':')
	b.WriteString(fmt.Sprint(v))
	return b.String(), b.String()
}

// xBad: the value is an error other than an incomplete one, here or below a regular field or a
// list element.  A value that still is a disjunction (it has surviving disjuncts) is not.
func xBad(v cue.Value) bool {
	if !v.Exists() {
		return true
	}
	vx := value.Vertex(v)
	if vx == nil {
		return selfErr(v)
	}
	vx = vx.DerefValue()
	switch xStatus(vx) {
	case 'E':
		return true
	case 'I':
		return false
	}
	if _, ok := vx.BaseValue.(*adt.Disjunction); ok {
		return false
	}
	switch v.IncompleteKind() {
	case cue.BottomKind:
		return true
	case cue.StructKind:
		it, err := v.Fields(cue.All())
		if err != nil {
			return true
		}
		for it.Next() {
			if it.Selector().ConstraintType() == cue.OptionalConstraint {
				continue
			}
			if xBad(it.Value()) {
				return true
			}
		}
	case cue.ListKind:
		it, err := v.List()
		if err != nil {
			return true
		}
		for it.Next() {
			if xBad(it.Value()) {
				return true
			}
		}
	}
	return false
}

// observe evaluates `decls; x: X` together with one probe field `y<i>: (X) & probe` per probe.
func (s *xSession) observe(decls, x string, probes []string) (o xObs) {
	defer func() {
		if e := recover(); e != nil {
			o = xObs{Fatal: fmt.Sprintf("PANIC %v", e)}
		}
	}()
	var b strings.Builder
	b.WriteString(decls)
	b.WriteString("x: " + x + "\n")
	for i, pr := range probes {
		fmt.Fprintf(&b, "y%d: (%s) & %s\n", i, x, pr)
	}
	root := s.ctx.CompileString(b.String())
	xv := root.LookupPath(cue.ParsePath("x"))
	if !xv.Exists() {
		return xObs{Fatal: "COMPILE-ERROR"}
	}
	// (4) acceptance, in the language
	var acc strings.Builder
	for i := range probes {
		acc.WriteByte(bit(!xBad(root.LookupPath(cue.ParsePath(fmt.Sprintf("y%d", i))))))
	}
	o.Acc = acc.String()
	// (2)
	if xv.Validate(cue.Concrete(true)) == nil {
		o.Conc = "concrete"
	} else {
		o.Conc = "not-concrete"
	}
	// (3)
	s.dup = false
	o.Set = s.canon(xv, 0)
	o.Dup = s.dup
	// (1) Default() peels one nesting level: iterate to a fixpoint
	if xBad(xv) {
		o.Res = "NOVALUE"
		return o
	}
	d := xv
	for i := 0; i < 8; i++ {
		vx := value.Vertex(d)
		if vx == nil {
			break
		}
		dj, ok := vx.DerefValue().BaseValue.(*adt.Disjunction)
		if !ok || dj.NumDefaults == 0 {
			break
		}
		d, _ = d.Default()
	}
	if vx := value.Vertex(d); vx != nil {
		if dj, ok := vx.DerefValue().BaseValue.(*adt.Disjunction); ok && len(dj.Values) > 1 {
			o.Res = "AMBIG"
			return o
		}
	}
	o.Res = "CHOSEN " + s.canon(d, 0)
	return o
}

func (s *xSession) observeProg(p *xProg, probes []string) xObs {
	return s.observe(p.declText(), p.X(), probes)
}

// xProbes: the fixed atoms plus concrete structs/lists built from the struct/list disjuncts of
// the expression (every alternative of the first disjunction-valued field, the others at their
// first alternative).
func xProbes(p *xProg) []string {
	out := append([]string{}, xProbeAtoms...)
	seen := map[string]bool{}
	add := func(s string) {
		if !seen[s] && len(seen) < 14 {
			seen[s] = true
			out = append(out, s)
		}
	}
	first := func(e xN) string {
		if d, ok := e.(*xDisj); ok {
			return d.As[0].E.S()
		}
		return e.S()
	}
	conc := func(t string) bool { // only concrete probes
		return t != "" && (t[0] == '"' || (t[0] >= '0' && t[0] <= '9') || t == "true" || t == "null")
	}
	var walk func(e xN)
	walk = func(e xN) {
		switch x := e.(type) {
		case *xDisj:
			for _, a := range x.As {
				walk(a.E)
			}
		case *xStruct:
			vals := make([][]string, len(x.Fs))
			for i, f := range x.Fs {
				if d, ok := f.V.(*xDisj); ok {
					for _, a := range d.As {
						vals[i] = append(vals[i], a.E.S())
					}
				} else {
					vals[i] = []string{f.V.S()}
				}
			}
			for i := range x.Fs {
				for _, alt := range vals[i] {
					var fs []string
					ok := true
					for j, f := range x.Fs {
						t := first(f.V)
						if j == i {
							t = alt
						}
						ok = ok && conc(t)
						fs = append(fs, f.L+": "+t)
					}
					if ok {
						add("{" + strings.Join(fs, ", ") + "}")
					}
				}
			}
		case *xList:
			for i, el := range x.Els {
				var alts []string
				if d, ok := el.(*xDisj); ok {
					for _, a := range d.As {
						alts = append(alts, a.E.S())
					}
				} else {
					alts = []string{el.S()}
				}
				for _, alt := range alts {
					var es []string
					ok := true
					for j, e2 := range x.Els {
						t := first(e2)
						if j == i {
							t = alt
						}
						ok = ok && conc(t)
						es = append(es, t)
					}
					if ok {
						add("[" + strings.Join(es, ", ") + "]")
					}
				}
			}
		}
	}
	walk(p.E)
	for _, d := range p.Decls {
		walk(d.V)
	}
	add("{}")
	add("{a: 1}")
	add("[1]")
	sort.Strings(out[len(xProbeAtoms):])
	return out
}

// ---- driver ------------------------------------------------------------------------------

type xDisagreement struct {
	Expr     string   `json:"expr"`
	Variant  string   `json:"variant"`
	Kinds    []string `json:"rearrangement"`
	Probes   []string `json:"probes"`
	ObsA     xObs     `json:"obs_a"`
	ObsB     xObs     `json:"obs_b"`
	Features []string `json:"features,omitempty"`
	Shrunk   bool     `json:"shrunk"`
	Original string   `json:"expr_before_shrinking,omitempty"`
	Name     string   `json:"name,omitempty"`
	// replay only: comparison of everything (the class of unmerged equal disjuncts included)
	DiffersRaw bool `json:"differs_raw,omitempty"`
	InClass    bool `json:"in_class,omitempty"`
}

// xSplit: a recorded program text `decls... ; x: X` back into (decls, X).
func xSplit(text string) (string, string) {
	lines := strings.Split(strings.TrimRight(text, "\n"), "\n")
	var decls []string
	x := ""
	for _, l := range lines {
		if strings.HasPrefix(l, "x: ") {
			x = strings.TrimPrefix(l, "x: ")
		} else if strings.TrimSpace(l) != "" {
			decls = append(decls, l)
		}
	}
	d := strings.Join(decls, "\n")
	if d != "" {
		d += "\n"
	}
	return d, x
}

func xDisagrees(p *xProg, seeds []uint64) (bool, xObs, xVariant, xObs) {
	ses := newXSession()
	probes := xProbes(p)
	base := ses.observeProg(p, probes)
	if base.Fatal != "" {
		return false, base, xVariant{}, xObs{}
	}
	for _, sd := range seeds {
		v := xRearrange(p, sd)
		o := ses.observeProg(v.P, probes)
		if df, _ := xDiffer(base, o); df {
			return true, base, v, o
		}
	}
	return false, base, xVariant{}, xObs{}
}

// xRemovals: every program obtained by removing one disjunct (of a disjunction with more than
// two, or any when that leaves a single term), one struct field, one list element, or the plain
// operand.  A referenced declaration stays.
func xRemovals(p *xProg) []*xProg {
	var out []*xProg
	n := len(p.sites())
	for si := 0; si < n; si++ {
		for ai := 0; ai < len(p.sites()[si].D.As); ai++ {
			if len(p.sites()[si].D.As) <= 2 {
				continue
			}
			q := p.clone()
			d := q.sites()[si].D
			d.As = append(d.As[:ai], d.As[ai+1:]...)
			out = append(out, q.prune())
		}
		// replace a nested group by one of its members
		for ai, a := range p.sites()[si].D.As {
			if in, ok := a.E.(*xDisj); ok {
				for bi := range in.As {
					q := p.clone()
					d := q.sites()[si].D
					d.As[ai].E = xClone(in.As[bi].E)
					out = append(out, q.prune())
				}
			}
		}
	}
	if p.Plain != "" {
		q := p.clone()
		q.Plain = ""
		out = append(out, q)
	}
	return out
}

// prune drops helper declarations that are no longer referred to.
func (p *xProg) prune() *xProg {
	txt := p.E.S()
	var keep []xFld
	for _, d := range p.Decls {
		if strings.Contains(txt, d.L) {
			keep = append(keep, d)
		}
	}
	p.Decls = keep
	return p
}

func xShrink(p *xProg, seed uint64) (*xProg, xObs, xVariant, xObs, bool) {
	seeds := []uint64{seed}
	for i := uint64(1); i <= 24; i++ {
		seeds = append(seeds, seed*1000003+i)
	}
	ok, base, v, o := xDisagrees(p, seeds)
	if !ok {
		return p, base, v, o, false
	}
	for changed := true; changed; {
		changed = false
		for _, cand := range xRemovals(p) {
			if ok2, b2, v2, o2 := xDisagrees(cand, seeds); ok2 {
				p, base, v, o = cand, b2, v2, o2
				changed = true
				break
			}
		}
	}
	return p, base, v, o, true
}

func runC04x(r *common.Rng, a map[string]string) {
	n := common.Atoi(a["--n"], 200)
	k := common.Atoi(a["--k"], 6)
	maxReplays := common.Atoi(a["--max-replays"], 5)
	report := map[string]any{}
	debug.SetGCPercent(400)
	write := func() {
		data, _ := json.MarshalIndent(report, "", " ")
		if err := os.WriteFile(a["--out"]+"/report.json", data, 0o644); err != nil {
			panic(err)
		}
	}
	if rf := a["--replay-cases"]; rf != "" {
		// re-evaluate recorded pairs: [{"expr": "decls; x: X", "variant": ..., "probes": [...]}]
		var cases []xDisagreement
		data, _ := os.ReadFile(rf)
		if err := json.Unmarshal(data, &cases); err != nil {
			panic(err)
		}
		out := []xDisagreement{}
		all := []xDisagreement{}
		ncls := 0
		for _, c := range cases {
			if len(c.Probes) == 0 {
				c.Probes = append(append([]string{}, xProbeAtoms...), "{}", "{a: 1}", "{a: 2}", "{a: 3}", "[1]", "[2]", "[3]")
			}
			ses := newXSession()
			da, xa := xSplit(c.Expr)
			db, xb := xSplit(c.Variant)
			c.ObsA = ses.observe(da, xa, c.Probes)
			c.ObsB = ses.observe(db, xb, c.Probes)
			df, cls := xDiffer(c.ObsA, c.ObsB)
			c.DiffersRaw, c.InClass = c.ObsA.key() != c.ObsB.key(), cls
			all = append(all, c)
			if df {
				out = append(out, c)
			}
			if cls {
				ncls++
			}
		}
		report["disagreements"] = out
		report["disagreement_count"] = len(out)
		report["evaluated"] = all
		report["unmerged_equal_disjuncts"] = ncls
		report["expressions"] = len(cases)
		report["variants"] = len(cases)
		write()
		return
	}
	g := &xGen{r: r.Fork()}
	rr := r.Fork()
	type job struct {
		p      *xProg
		fs     []string
		seeds  []uint64
		probes []string
		base   xObs
		vars   []xVariant
		obs    []xObs
	}
	jobs := make([]*job, n)
	for i := range jobs {
		p, fs := g.program()
		jb := &job{p: p, fs: fs, probes: xProbes(p)}
		for j := 0; j < k; j++ {
			jb.seeds = append(jb.seeds, rr.Next())
		}
		jobs[i] = jb
	}
	workers := common.Atoi(a["--workers"], 6)
	var wg sync.WaitGroup
	next := make(chan *job, 64)
	for w := 0; w < workers; w++ {
		wg.Add(1)
		go func() {
			defer wg.Done()
			for jb := range next {
				ses := newXSession()
				jb.base = ses.observeProg(jb.p, jb.probes)
				if jb.base.Fatal != "" {
					continue
				}
				for _, seed := range jb.seeds {
					v := xRearrange(jb.p, seed)
					jb.vars = append(jb.vars, v)
					jb.obs = append(jb.obs, ses.observeProg(v.P, jb.probes))
				}
			}
		}()
	}
	for _, jb := range jobs {
		next <- jb
	}
	close(next)
	wg.Wait()
	feats := map[string]int{}
	kinds := map[string]int{}
	outcomes := map[string]int{}
	distinct := map[string]bool{}
	dis := []xDisagreement{}
	var samples []map[string]any
	ndis, nvar, nfatal, nprobes, ncls, nclsDiff := 0, 0, 0, 0, 0, 0
	for i, jb := range jobs {
		text := jb.p.text()
		if jb.base.Fatal != "" {
			nfatal++
			if nfatal <= 3 {
				samples = append(samples, map[string]any{"expr": text, "obs": jb.base, "note": "not evaluated"})
			}
			continue
		}
		distinct[text] = true
		nprobes += len(jb.probes)
		for _, f := range jb.fs {
			feats[f]++
		}
		outcomes[strings.SplitN(jb.base.Res, " ", 2)[0]]++
		if strings.HasPrefix(jb.base.Set, "(") {
			outcomes["value-is-disjunction"]++
		}
		if strings.Contains(jb.base.Set, "*") {
			outcomes["value-has-default"]++
		}
		if i < 3 {
			samples = append(samples, map[string]any{"expr": text, "obs": jb.base, "variant": jb.vars[0].P.text(), "rearrangement": jb.vars[0].Kinds})
		}
		found := false
		for j, v := range jb.vars {
			nvar++
			for _, kd := range v.Kinds {
				kinds[kd]++
			}
			df, cls := xDiffer(jb.base, jb.obs[j])
			if cls {
				ncls++
				if jb.base.key() != jb.obs[j].key() {
					nclsDiff++
				}
			}
			if found || !df {
				continue
			}
			found = true
			ndis++
			if len(dis) >= maxReplays {
				continue
			}
			dd := xDisagreement{Expr: text, Variant: v.P.text(), Kinds: v.Kinds, Probes: jb.probes, ObsA: jb.base, ObsB: jb.obs[j], Features: jb.fs}
			if sp, sb, sv, so, ok := xShrink(jb.p, jb.seeds[j]); ok {
				dd.Original = text
				dd.Expr, dd.Variant, dd.Kinds, dd.Shrunk = sp.text(), sv.P.text(), sv.Kinds, true
				dd.Probes, dd.ObsA, dd.ObsB = xProbes(sp), sb, so
			}
			dis = append(dis, dd)
		}
	}
	report["expressions"] = n - nfatal
	report["distinct_expressions"] = len(distinct)
	report["variants"] = nvar
	report["not_evaluated"] = nfatal
	report["probes_avg"] = float64(nprobes) / float64(max(1, n-nfatal))
	report["features"] = feats
	report["rearrangement_kinds"] = kinds
	report["outcomes"] = outcomes
	report["disagreements"] = dis
	report["disagreement_count"] = ndis
	report["unmerged_equal_disjuncts"] = map[string]int{"variants_in_class": ncls, "of_which_resolution_or_set_differs": nclsDiff}
	report["samples"] = samples
	write()
	fmt.Fprintf(os.Stderr, "core harness c04x: %d expressions, %d variants, %d disagreements, %d not evaluated\n", n-nfatal, nvar, ndis, nfatal)
}
