package main

import (
	"fmt"
	"os"
	"strings"

	"cuelang.org/go/cue"
	"cuelang.org/go/cue/build"
	"cuelang.org/go/cue/cuecontext"
	"cuelang.org/go/cue/parser"
	"cuelang.org/go/internal/verifharness/common"
)

// ---- C01: semantics-preserving rearrangements -------------------------------

func cloneExpr(e Expr) Expr {
	switch x := e.(type) {
	case And:
		return And{cloneExpr(x.A), cloneExpr(x.B)}
	case Close:
		return Close{cloneExpr(x.E)}
	case Ref:
		return Ref{x.Name, cloneExpr(x.Body)}
	case Struct:
		ds := make([]Decl, len(x.Ds))
		for i, d := range x.Ds {
			ds[i] = d
			if d.E != nil {
				ds[i].E = cloneExpr(d.E)
			}
		}
		return Struct{ds}
	}
	return e
}

// rearrange applies random rewrites that the property says must not matter.
// kinds: which rewrites are allowed.
func rearrangeExpr(r *common.Rng, e Expr, depth int) Expr {
	switch x := e.(type) {
	case And:
		a, b := rearrangeExpr(r, x.A, depth), rearrangeExpr(r, x.B, depth)
		switch r.Intn(4) {
		case 0:
			return And{b, a} // commutation
		case 1:
			if ab, ok := a.(And); ok { // re-association
				return And{ab.A, And{ab.B, b}}
			}
		}
		return And{a, b}
	case Close:
		return Close{rearrangeExpr(r, x.E, depth)}
	case Ref:
		return x // definitions are rearranged through the Defs list
	case Struct:
		ds := make([]Decl, len(x.Ds))
		for i, d := range x.Ds {
			ds[i] = d
			if d.E != nil && d.H != 'e' {
				ds[i].E = rearrangeExpr(r, d.E, depth+1)
			}
		}
		common.Shuffle(r, ds) // declaration order
		return Struct{ds}
	case ScalAtom, ScalKind, ScalBound:
		switch r.Intn(12) {
		case 0:
			return And{e, e} // v & v
		case 1:
			return And{e, Top{}} // v & _
		case 2:
			return And{Top{}, e}
		}
	}
	return e
}

func isStructural(e Expr) bool {
	switch e.(type) {
	case Ref, Close:
		return true
	}
	return false
}

func rearrange(r *common.Rng, p *Program) (*Program, string) {
	q := &Program{}
	var kinds []string
	for _, d := range p.Defs {
		q.Defs = append(q.Defs, Ref{d.Name, rearrangeExpr(r, d.Body, 0)})
	}
	// definitions may be declared in any order
	common.Shuffle(r, q.Defs)
	// refs inside conjuncts must point to the rearranged bodies for the S-expression
	defBody := map[string]Expr{}
	for _, d := range q.Defs {
		defBody[d.Name] = d.Body
	}
	var relink func(e Expr) Expr
	relink = func(e Expr) Expr {
		switch x := e.(type) {
		case And:
			return And{relink(x.A), relink(x.B)}
		case Close:
			return Close{relink(x.E)}
		case Ref:
			return Ref{x.Name, relink(defBody[x.Name])}
		case Struct:
			ds := make([]Decl, len(x.Ds))
			for i, d := range x.Ds {
				ds[i] = d
				if d.E != nil {
					ds[i].E = relink(d.E)
				}
			}
			return Struct{ds}
		}
		return e
	}
	for k, b := range defBody {
		defBody[k] = b // bodies may reference other definitions: relinked lazily below
	}
	for _, c := range p.Conjs {
		c2 := rearrangeExpr(r, cloneExpr(c), 0)
		switch r.Intn(8) {
		case 0: // split x: a & b into two declarations
			if ab, ok := c2.(And); ok {
				q.Conjs = append(q.Conjs, ab.A, ab.B)
				kinds = append(kinds, "split")
				continue
			}
		case 1: // duplicate the declaration
			q.Conjs = append(q.Conjs, c2, cloneExpr(c2))
			kinds = append(kinds, "dup")
			continue
		case 2: // x: c & _
			q.Conjs = append(q.Conjs, And{c2, Top{}})
			kinds = append(kinds, "top")
			continue
		case 3: // wrap a definition reference / close() in { } as a sole embedding
			if isStructural(c2) {
				q.Conjs = append(q.Conjs, Struct{[]Decl{{H: 'e', E: c2}}})
				kinds = append(kinds, "embed")
				continue
			}
		}
		q.Conjs = append(q.Conjs, c2)
	}
	if len(q.Conjs) >= 2 && r.Chance(1, 4) { // merge two declarations into one &
		a, b := q.Conjs[0], q.Conjs[1]
		q.Conjs = append([]Expr{And{a, b}}, q.Conjs[2:]...)
		kinds = append(kinds, "merge")
	}
	common.Shuffle(r, q.Conjs) // order of the declarations of x
	for i := range q.Conjs {
		q.Conjs[i] = relink(q.Conjs[i])
	}
	for i := range q.Defs {
		q.Defs[i] = Ref{q.Defs[i].Name, relink(q.Defs[i].Body)}
	}
	return q, strings.Join(kinds, "+")
}

// evalFiles evaluates the program split over several files of one package, given in the
// stated order, through build.Instance (the multi-file partition of the property).
func evalFiles(p *Program, r *common.Rng) string {
	var decls []string
	for _, d := range p.Defs {
		decls = append(decls, fmt.Sprintf("%s: %s", d.Name, d.Body.CUE()))
	}
	for _, c := range p.Conjs {
		decls = append(decls, "x: "+c.CUE())
	}
	common.Shuffle(r, decls)
	nfiles := 2 + r.Intn(2)
	files := make([][]string, nfiles)
	for _, d := range decls {
		i := r.Intn(nfiles)
		files[i] = append(files[i], d)
	}
	inst := &build.Instance{PkgName: "p"}
	var all strings.Builder
	for i, ds := range files {
		src := "package p\n" + strings.Join(ds, "\n") + "\n"
		f, err := parser.ParseFile(fmt.Sprintf("f%d.cue", i), src)
		if err != nil {
			return "PARSE-ERROR"
		}
		if err := inst.AddSyntax(f); err != nil {
			return "ADD-ERROR"
		}
		all.WriteString(strings.Join(ds, "\n") + "\n")
	}
	ctx := cuecontext.New()
	v := ctx.BuildInstance(inst)
	x := v.LookupPath(cue.ParsePath("x"))
	if !x.Exists() {
		if v.Err() != nil {
			return "E"
		}
		return "NOX"
	}
	c := newCanon(ctx, all.String(), p.Inline())
	return c.fillOpenBits(c.canon(x, []string{"x"}))
}

func runC01(r *common.Rng, a map[string]string, out *common.Out) {
	n := common.Atoi(a["--n"], 200)
	k := common.Atoi(a["--k"], 3)
	g := NewGen(r.Fork(), GenCfg{MaxDepth: common.Atoi(a["--depth"], 3), Closedness: true, Bounds: true})
	rr := r.Fork()
	meta, _ := os.Create(a["--out"] + "/meta.txt")
	defer meta.Close()
	src, _ := os.Create(a["--out"] + "/src.txt")
	defer src.Close()
	for i := 0; i < n; i++ {
		p := g.Program()
		emit := func(q *Program, kind, impl string) {
			fmt.Fprintf(meta, "%d %s\n", i, kind)
			fmt.Fprintf(src, "### %d %s\n%s\n", i, kind, q.CUE())
			out.Emit(q.Case(), impl)
		}
		emit(p, "orig", evalProgram(p.CUE(), p.Inline()))
		for j := 0; j < k; j++ {
			q, kinds := rearrange(rr, p)
			if kinds == "" {
				kinds = "perm"
			}
			emit(q, kinds, evalProgram(q.CUE(), q.Inline()))
		}
		emit(p, "files", evalFiles(p, rr))
	}
}

// ---- C05: schema & data -------------------------------------------------------

func runC05(r *common.Rng, a map[string]string, out *common.Out) {
	n := common.Atoi(a["--n"], 200)
	g := NewGen(r.Fork(), GenCfg{MaxDepth: common.Atoi(a["--depth"], 3), Closedness: true, Bounds: true})
	src, _ := os.Create(a["--out"] + "/src.txt")
	defer src.Close()
	for i := 0; i < n; i++ {
		g.defs, g.ndefs = nil, 0
		g.pref, g.shape = map[string]Atom{}, map[string]int{}
		ns := 1 + g.r.Intn(3)
		var cs []Expr
		if g.r.Chance(1, 8) {
			cs = append(cs, g.patternStress()...)
			ns = g.r.Intn(2)
		}
		for j := 0; j < ns; j++ {
			g.path = ""
			k := g.r.Intn(10)
			switch {
			case k < 3:
				cs = append(cs, g.newDef(g.cfg.MaxDepth))
			case k < 4:
				cs = append(cs, Close{g.schema(g.cfg.MaxDepth)})
			case k < 6:
				cs = append(cs, g.embedLit(g.cfg.MaxDepth))
			default:
				cs = append(cs, g.schema(g.cfg.MaxDepth))
			}
		}
		g.path = ""
		cs = append(cs, g.data(g.cfg.MaxDepth))
		p := &Program{Defs: g.defs, Conjs: cs}
		text := p.CUE()
		fmt.Fprintf(src, "### %d\n%s\n", i, text)
		out.Emit("ADMIT"+strings.TrimPrefix(p.Case(), "EVAL"), admitVerdict(text)+" "+evalProgram(text, p.Inline()))
	}
}

// admitVerdict: does schema & data unify to an error-free value in which every
// non-optional field - hidden and definition fields included - is concrete and no
// required field is left unfilled?  (Value.Validate(Concrete) does not look at hidden
// and definition fields, the model does, so the walk is done here.)
func admitVerdict(src string) string {
	ctx := cuecontext.New()
	v := ctx.CompileString(src)
	x := v.LookupPath(cue.ParsePath("x"))
	if !x.Exists() || isErr(x) || !allConcrete(x) {
		return "NO"
	}
	return "OK"
}

func allConcrete(v cue.Value) bool {
	if v.IncompleteKind() == cue.StructKind {
		it, err := v.Fields(cue.All())
		if err != nil {
			return false
		}
		for it.Next() {
			switch it.Selector().ConstraintType() {
			case cue.OptionalConstraint:
				continue
			case cue.RequiredConstraint:
				return false
			}
			if !allConcrete(it.Value()) {
				return false
			}
		}
		return true
	}
	return v.IsConcrete()
}
