package main

import (
	"fmt"
	"os"
	"strings"

	"cuelang.org/go/cue"
	"cuelang.org/go/cue/cuecontext"
	"cuelang.org/go/internal/core/adt"
	"cuelang.org/go/internal/value"
	"cuelang.org/go/internal/verifharness/common"
)

type DisjCase struct {
	Plain []Expr
	Disjs [][]dj
	Nest  []int // per disjunction: position from which the disjuncts are written as a nested disjunction (-1: flat)
}

// themed disjunct: most disjuncts of a case share a kind so that tuples survive
func (g *Gen) themed(theme int) Expr {
	if g.r.Chance(1, 6) {
		return g.disjunct()
	}
	switch theme {
	case 0: // ints
		switch g.r.Intn(6) {
		case 0, 1, 2:
			return ScalAtom{common.Pick(g.r, []Atom{{'i', 0}, {'i', 1}, {'i', 5}, {'i', 10}})}
		case 3:
			return ScalKind{"int"}
		case 4:
			return common.Pick(g.r, boundFamily)
		}
		return And{ScalKind{"int"}, common.Pick(g.r, boundFamily)}
	case 1: // strings / bools
		switch g.r.Intn(5) {
		case 0, 1:
			return ScalAtom{common.Pick(g.r, []Atom{{'s', 0}, {'s', 1}})}
		case 2:
			return ScalKind{"string"}
		case 3:
			return ScalAtom{Atom{'b', g.r.Intn(2)}}
		}
		return ScalKind{"bool"}
	}
	var ds []Decl
	for _, l := range []Label{{LReg, 0}, {LReg, 1}} {
		if g.r.Chance(1, 2) {
			ds = append(ds, Decl{H: 'f', L: l, FK: '=', E: ScalAtom{common.Pick(g.r, []Atom{{'i', 0}, {'i', 1}})}})
		}
	}
	return Struct{ds}
}

func (g *Gen) disjunct() Expr {
	switch g.r.Intn(10) {
	case 0, 1, 2, 3:
		return ScalAtom{common.Pick(g.r, []Atom{{'i', 0}, {'i', 1}, {'i', 5}, {'s', 0}, {'s', 1}, {'b', 1}})}
	case 4:
		return ScalKind{common.Pick(g.r, []string{"int", "string", "bool"})}
	case 5:
		return common.Pick(g.r, boundFamily)
	case 6:
		return And{ScalKind{"int"}, common.Pick(g.r, boundFamily)}
	default:
		// a small open struct over two labels
		var ds []Decl
		for _, l := range []Label{{LReg, 0}, {LReg, 1}} {
			if g.r.Chance(1, 2) {
				ds = append(ds, Decl{H: 'f', L: l, FK: '=', E: ScalAtom{common.Pick(g.r, []Atom{{'i', 0}, {'i', 1}, {'s', 0}})}})
			}
		}
		return Struct{ds}
	}
}

func (g *Gen) disjCase() DisjCase {
	var c DisjCase
	theme := g.r.Intn(3)
	np := g.r.Intn(3)
	for i := 0; i < np; i++ {
		if g.r.Chance(1, 3) {
			c.Plain = append(c.Plain, Top{})
		} else {
			c.Plain = append(c.Plain, g.themed(theme))
		}
	}
	nd := 1 + g.r.Intn(3)
	// bias all disjunctions of a case to one shape so that tuples survive
	pool := []Expr{}
	for i := 0; i < 4; i++ {
		pool = append(pool, g.themed(theme))
	}
	for i := 0; i < nd; i++ {
		k := 1 + g.r.Intn(3)
		var d []dj
		style := g.r.Intn(5) // 0,1: no marks; 2,3: one mark; 4: several
		for j := 0; j < k; j++ {
			var e Expr
			if g.r.Chance(3, 4) {
				e = common.Pick(g.r, pool)
			} else {
				e = g.themed(theme)
			}
			m := false
			if k == 1 {
				style = 0 // a mark needs a disjunction
			}
			switch style {
			case 2, 3:
				m = j == 0
			case 4:
				m = g.r.Chance(1, 2)
			}
			d = append(d, dj{m, e})
		}
		if style == 2 {
			common.Shuffle(g.r, d)
		}
		c.Disjs = append(c.Disjs, d)
		// nested spellings are not generated: on the unchanged tree `{} | (*{b: 1} | *"y")` and the flat
		// `{} | *{b: 1} | *"y"` already resolve differently (design/Core.md, observation O-nested)
		c.Nest = append(c.Nest, -1)
	}
	return c
}

// CUE renders the case.  With nest >= 0 the disjuncts of every disjunction from position
// nest[i] on are written as a NESTED disjunction `a | (b | *c)` when no disjunct before that
// position is marked: by rule D1 (an unmarked disjunction keeps the defaults of its terms) this
// denotes the same value/default pair as the flat spelling the model reads.
func (c DisjCase) CUE() string {
	var parts []string
	for _, p := range c.Plain {
		parts = append(parts, "("+p.CUE()+")")
	}
	for i, d := range c.Disjs {
		var ds []string
		for _, x := range d {
			s := x.E.CUE()
			if x.Marked {
				s = "*" + s
			}
			ds = append(ds, s)
		}
		split := -1
		if i < len(c.Nest) {
			split = c.Nest[i]
		}
		ok := split >= 1 && split <= len(d)-2
		for j := 0; ok && j < split; j++ {
			if d[j].Marked {
				ok = false
			}
		}
		if ok {
			parts = append(parts, "("+strings.Join(ds[:split], " | ")+" | ("+strings.Join(ds[split:], " | ")+"))")
		} else {
			parts = append(parts, "("+strings.Join(ds, " | ")+")")
		}
	}
	return strings.Join(parts, " & ")
}

func (c DisjCase) Case() string {
	var ps, dss []string
	for _, p := range c.Plain {
		ps = append(ps, p.Sexp())
	}
	for _, d := range c.Disjs {
		var ds []string
		for _, x := range d {
			s := x.E.Sexp()
			if x.Marked {
				s = "*" + s
			}
			ds = append(ds, s)
		}
		dss = append(dss, strings.Join(ds, " , "))
	}
	return "DISJ " + labsSexp() + " " + atomsSexp() + " | " + strings.Join(ps, " ; ") + " | " + strings.Join(dss, " ; ")
}

// canonNoProbe: the Core canonical form without closedness probes
func canonNoProbe(ctx *cue.Context, v cue.Value) string {
	c := newCanon(ctx, "", "")
	c.simple = false // the resolved value's own acceptance is compared too (a default must be committed)
	s := c.canon(v, []string{"x"})
	for id := range c.nodes {
		s = strings.Replace(s, fmt.Sprintf("|@%d@", id), "", 1)
	}
	return s
}

func evalDisj(expr string) string {
	ctx := cuecontext.New()
	v := ctx.CompileString("x: " + expr)
	x := v.LookupPath(cue.ParsePath("x"))
	var acc strings.Builder
	for _, a := range probeAtoms {
		acc.WriteByte(bit(x.Exists() && !isErr(x.Unify(ctx.CompileString(a.CUE())))))
	}
	if !x.Exists() || isErr(x) {
		return "NOVALUE - " + acc.String()
	}
	d, _ := x.Default()
	if _, vx := value.ToInternal(d); vx != nil {
		if dj, ok := vx.DerefValue().BaseValue.(*adt.Disjunction); ok && len(dj.Values) > 1 {
			return "AMBIG - " + acc.String()
		}
	}
	return "CHOSEN " + canonNoProbe(ctx, d) + " " + acc.String()
}

type dj = struct {
	Marked bool
	E      Expr
}

func ia(i int) Expr  { return ScalAtom{Atom{'i', i}} }
func sa(i int) Expr  { return ScalAtom{Atom{'s', i}} }
func d(xs ...dj) []dj { return xs }
func u(e Expr) dj    { return dj{false, e} }
func m(e Expr) dj    { return dj{true, e} }
func fld(id int, fk byte, e Expr) Decl {
	return Decl{H: 'f', L: Label{LReg, id}, FK: fk, E: e}
}

// corpusC04: named cases that run first on every run (spec table rows, known findings)
func corpusC04() []struct {
	Name string
	C    DisjCase
} {
	mk := func(plain []Expr, ds ...[]dj) DisjCase {
		c := DisjCase{Plain: plain}
		for _, x := range ds {
			c.Disjs = append(c.Disjs, x)
		}
		return c
	}
	return []struct {
		Name string
		C    DisjCase
	}{
		{"spec-tcp", mk(nil, d(m(sa(0)), u(sa(1))))},
		{"spec-marked-both", mk(nil, d(m(ia(1)), u(ia(5))), d(u(ia(1)), m(ia(5))))},
		{"spec-marked-same", mk(nil, d(m(sa(0)), u(sa(1))), d(u(sa(1)), m(sa(0))))},
		{"spec-marked-vs-unmarked", mk(nil, d(m(sa(0)), u(sa(1))), d(u(sa(1)), u(sa(0))))},
		{"spec-type-default", mk(nil, d(u(ScalKind{"int"}), m(ia(1))))},
		// F2: the same three operands in two orders (order-free answer: 10 is eliminated, default 1)
		{"F2-order-a", mk(nil, d(m(ia(0)), u(ia(1)), u(ia(5))), d(m(ia(5)), u(ia(1)), u(ia(0))), d(u(ia(1)), u(ia(5))))},
		{"F2-order-b", mk(nil, d(m(ia(0)), u(ia(1)), u(ia(5))), d(u(ia(1)), u(ia(5))), d(m(ia(5)), u(ia(1)), u(ia(0))))},
		{"F2-conflict-a", mk(nil, d(m(ia(10)), u(ia(1))), d(u(ia(1)), u(ia(10)), m(ia(1))), d(u(ScalKind{"int"}), m(ia(1))))},
		{"F2-conflict-b", mk(nil, d(u(ScalKind{"int"}), m(ia(1))), d(m(ia(10)), u(ia(1))), d(u(ia(1)), u(ia(10)), m(ia(1))))},
		// F9: a failed disjunct ("x") changes the outcome when struct disjuncts have optional fields
		{"F9-with-failed-disjunct", mk(nil,
			d(u(Struct{[]Decl{fld(0, '?', ia(0)), fld(1, '?', ia(0))}}), u(Struct{[]Decl{fld(0, '?', ia(1)), fld(1, '=', sa(0))}})),
			d(u(Struct{nil}), u(sa(0))))},
		{"F9-without", mk([]Expr{Struct{nil}},
			d(u(Struct{[]Decl{fld(0, '?', ia(0)), fld(1, '?', ia(0))}}), u(Struct{[]Decl{fld(0, '?', ia(1)), fld(1, '=', sa(0))}})))},
	}
}

func runC04(r *common.Rng, a map[string]string, out *common.Out) {
	n := common.Atoi(a["--n"], 500)
	g := NewGen(r.Fork(), GenCfg{MaxDepth: 1, Bounds: true})
	src, _ := os.Create(a["--out"] + "/src.txt")
	defer src.Close()
	meta, _ := os.Create(a["--out"] + "/meta.txt")
	defer meta.Close()
	for _, cc := range corpusC04() {
		e := cc.C.CUE()
		fmt.Fprintf(src, "### %s\nx: %s\n", cc.Name, e)
		fmt.Fprintf(meta, "%s\n", cc.Name)
		out.Emit(cc.C.Case(), evalDisj(e))
	}
	for i := 0; i < n; i++ {
		fmt.Fprintf(meta, "gen\n")
		c := g.disjCase()
		e := c.CUE()
		fmt.Fprintf(src, "### %d\nx: %s\n", i, e)
		out.Emit(c.Case(), evalDisj(e))
	}
}
