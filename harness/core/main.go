package main

import (
	"fmt"
	"os"
	"strings"

	"cuelang.org/go/internal/verifharness/common"
)

func main() {
	a := common.Args(os.Args[1:])
	seed := uint64(common.Atoi(a["--seed"], 1))
	n := common.Atoi(a["--n"], 200)
	mode := a["--mode"]
	out := common.NewOut(a["--out"])
	defer out.Close()
	r := common.NewRng(seed)
	switch mode {
	case "src":
		data, _ := os.ReadFile(a["--file"])
		fmt.Println(evalProgram(string(data), "x"))
		return
	case "pairs":
		// corpus of named equivalent pairs: prints name, canonical A, canonical B
		data, _ := os.ReadFile(a["--file"])
		for _, line := range strings.Split(string(data), "\n") {
			line = strings.TrimSpace(line)
			if line == "" || strings.HasPrefix(line, "# ") {
				continue
			}
			f := strings.Split(line, "|")
			if len(f) != 4 {
				continue
			}
			defs := strings.ReplaceAll(strings.TrimSpace(f[1]), ";", "\n")
			ea, eb := strings.TrimSpace(f[2]), strings.TrimSpace(f[3])
			ca := evalProgram(defs+"\nx: "+ea+"\n", "("+ea+")")
			cb := evalProgram(defs+"\nx: "+eb+"\n", "("+eb+")")
			fmt.Printf("%s\t%s\t%s\n", strings.TrimSpace(f[0]), ca, cb)
		}
		return
	case "c01":
		runC01(r, a, out)
	case "c01x": // exploration stream (rich fragment, impl vs impl), see rich.go
		runC01x(r, a)
	case "c04":
		runC04(r, a, out)
	case "c04x": // exploration stream (nested / struct-valued disjuncts, impl vs impl), see disjx.go
		runC04x(r, a)
		return
	case "c05":
		runC05(r, a, out)
	case "nest": // disjunctions as field values and disjunctions of such structs vs Core/Nest.v, see nest.go
		runNest(r, a, out)
	case "", "eval":
		g := NewGen(r, GenCfg{MaxDepth: common.Atoi(a["--depth"], 3), Closedness: a["--closed"] != "0", Bounds: true})
		src, _ := os.Create(a["--out"] + "/src.txt")
		defer src.Close()
		for i := 0; i < n; i++ {
			p := g.Program()
			text := p.CUE()
			fmt.Fprintf(src, "### %d\n%s\n", i, text)
			out.Emit(p.Case(), evalProgram(text, p.Inline()))
		}
	}
	fmt.Fprintf(os.Stderr, "core harness: %d cases\n", out.N)
}
