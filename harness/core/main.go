package main

import (
	"fmt"
	"os"

	"cuelang.org/go/internal/verifharness/common"
)

func main() {
	a := common.Args(os.Args[1:])
	seed := uint64(common.Atoi(a["--seed"], 1))
	n := common.Atoi(a["--n"], 200)
	mode := a["--mode"]
	out := common.NewOut(a["--out"])
	defer out.Close()
	r := common.NewRng(seed)
	switch mode {
	case "src":
		data, _ := os.ReadFile(a["--file"])
		fmt.Println(evalProgram(string(data), "x"))
		return
	case "", "eval":
		g := NewGen(r, GenCfg{MaxDepth: common.Atoi(a["--depth"], 3), Closedness: a["--closed"] != "0", Bounds: true})
		src, _ := os.Create(a["--out"] + "/src.txt")
		defer src.Close()
		for i := 0; i < n; i++ {
			p := g.Program()
			text := p.CUE()
			fmt.Fprintf(src, "### %d\n%s\n", i, text)
			out.Emit(p.Case(), evalProgram(text, p.Inline()))
		}
	}
	fmt.Fprintf(os.Stderr, "core harness: %d cases\n", out.N)
}
