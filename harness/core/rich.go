package main

// EXPLORATION stream c01x (impl vs impl; NOT part of the Coq-proved fragment).
//
// A seeded generator of small well-formed CUE programs of a much richer fragment than
// CoreCUE (references to regular/hidden/definition fields, let, lists and list
// comprehensions, field comprehensions, templates instantiated several times, pattern
// constraints referring to a sibling parameter, numeric bounds with the type arriving
// directly or through a reference, definitions embedded in literals, interpolation,
// arithmetic, close()), a rearrangement engine (declaration order at every struct level,
// commutation / re-association / duplication of & operands, split and merge of
// declarations, v & v, v & _, _ & v, multi-file partition) and an order-insensitive
// canonical form of the evaluated configuration.  A program and its rearrangements must
// have the same canonical form.
//
// Deliberately NOT generated (order dependent on the unchanged tree, see design/Core.md):
// disjunctions and default marks (F2), embedded plain struct literals (F8).

import (
	"encoding/json"
	"errors"
	"fmt"
	"os"
	"runtime/debug"
	"runtime/pprof"
	"sort"
	"strings"
	"sync"

	"cuelang.org/go/cue"
	"cuelang.org/go/cue/build"
	"cuelang.org/go/cue/cuecontext"
	"cuelang.org/go/cue/parser"
	"cuelang.org/go/internal/core/adt"
	"cuelang.org/go/internal/value"
	"cuelang.org/go/internal/verifharness/common"
)

// ---- syntax -------------------------------------------------------------------

type rx interface{ S() string }

// rLeaf is a piece of expression text that is never rewritten inside.
// wrap: may be written {leaf} as a sole embedding (references and scalars).
type rLeaf struct {
	T    string
	Wrap bool
}
type rAnd struct{ A, B rx }
type rStruct struct{ Ds []*rDecl }
type rList struct {
	Els  []rx // expressions or *rComp
	Open bool
	Tail string // element type after "..." ("" = none)
}
type rComp struct { // for/if clause with a struct body (list element or declaration)
	C    string
	Body *rStruct
}
type rSel struct {
	X   rx
	Sel string
}
type rCall struct {
	Fn   string
	Args []rx
}

// rDecl kinds: 'f' field, 'l' let, 'c' comprehension, 'e' embedding, 'p' pattern, '.' ellipsis
type rDecl struct {
	K byte
	L string // label as written (a, "ax", _h, #D, "\(k)x", [string]) or let name
	M string // "", "?", "!"
	V rx
}

func (l rLeaf) S() string { return l.T }
func (a rAnd) S() string {
	op := func(e rx) string {
		if _, ok := e.(rAnd); ok {
			return "(" + e.S() + ")"
		}
		return e.S()
	}
	return op(a.A) + " & " + op(a.B)
}
func (s *rStruct) S() string {
	parts := make([]string, len(s.Ds))
	for i, dd := range s.Ds {
		parts[i] = dd.S()
	}
	return "{" + strings.Join(parts, ", ") + "}"
}
func (l rList) S() string {
	var parts []string
	for _, e := range l.Els {
		parts = append(parts, e.S())
	}
	if l.Open {
		parts = append(parts, "..."+l.Tail)
	}
	return "[" + strings.Join(parts, ", ") + "]"
}
func (c *rComp) S() string { return c.C + " " + c.Body.S() }
func (s rSel) S() string {
	if _, ok := s.X.(rLeaf); ok {
		return s.X.S() + "." + s.Sel
	}
	return "(" + s.X.S() + ")." + s.Sel
}
func (c rCall) S() string {
	var parts []string
	for _, a := range c.Args {
		parts = append(parts, a.S())
	}
	return c.Fn + "(" + strings.Join(parts, ", ") + ")"
}
func (dd *rDecl) S() string {
	switch dd.K {
	case 'f', 'p':
		return dd.L + dd.M + ": " + dd.V.S()
	case 'l':
		return "let " + dd.L + " = " + dd.V.S()
	case '.':
		return "..."
	}
	return dd.V.S() // 'c', 'e'
}

// rText renders the declarations of the top-level struct one per line.
func rText(ds []*rDecl) string {
	var b strings.Builder
	for _, dd := range ds {
		b.WriteString(dd.S())
		b.WriteByte('\n')
	}
	return b.String()
}

func rClone(e rx) rx {
	switch x := e.(type) {
	case rAnd:
		return rAnd{rClone(x.A), rClone(x.B)}
	case *rStruct:
		return rCloneStruct(x)
	case rList:
		els := make([]rx, len(x.Els))
		for i, el := range x.Els {
			els[i] = rClone(el)
		}
		return rList{els, x.Open, x.Tail}
	case *rComp:
		return &rComp{x.C, rCloneStruct(x.Body)}
	case rSel:
		return rSel{rClone(x.X), x.Sel}
	case rCall:
		args := make([]rx, len(x.Args))
		for i, a := range x.Args {
			args[i] = rClone(a)
		}
		return rCall{x.Fn, args}
	}
	return e
}

func rCloneStruct(s *rStruct) *rStruct {
	ds := make([]*rDecl, len(s.Ds))
	for i, dd := range s.Ds {
		c := *dd
		if c.V != nil {
			c.V = rClone(c.V)
		}
		ds[i] = &c
	}
	return &rStruct{ds}
}

func rL(t string) rx   { return rLeaf{T: t} }
func rRef(t string) rx { return rLeaf{T: t, Wrap: true} }
func rF(l string, v rx) *rDecl {
	return &rDecl{K: 'f', L: l, V: v}
}
func rAndOf(ops ...rx) rx {
	e := ops[0]
	for _, o := range ops[1:] {
		e = rAnd{e, o}
	}
	return e
}
func rS(ds ...*rDecl) *rStruct { return &rStruct{ds} }

// ---- generator ----------------------------------------------------------------

type rGen struct {
	r      *common.Rng
	n      int
	feats  map[string]bool
	guards []rGuard
}

// rGuard: declaration d computes with (arithmetic, interpolation, selection, comprehension
// source) the field at path; if that field turns out to be an ERROR the declaration is left
// out: whether a computation over a reference into an erroneous value is itself an error
// depends on declaration order on the unchanged tree (finding F17, design/Core.md).
type rGuard struct {
	d    *rDecl
	path string
}

func (g *rGen) guard(dd *rDecl, path string) *rDecl {
	g.guards = append(g.guards, rGuard{dd, path})
	return dd
}

func (g *rGen) name(p string) string { g.n++; return fmt.Sprintf("%s%d", p, g.n) }
func (g *rGen) feat(fs ...string) {
	for _, f := range fs {
		g.feats[f] = true
	}
}
func (g *rGen) pick(xs ...string) string { return xs[g.r.Intn(len(xs))] }

// a named holder of a value: regular, hidden, definition, let, or a field inside a struct /
// definition; returns the declaration and the text of a reference to it.
func (g *rGen) holder(base string, v rx, allowLet bool) (*rDecl, string) {
	k := g.r.Intn(12)
	switch {
	case k < 3:
		g.feat("ref-regular")
		n := g.name(base)
		return rF(n, v), n
	case k < 5:
		g.feat("ref-hidden")
		n := "_" + g.name(base)
		return rF(n, v), n
	case k < 7:
		g.feat("ref-definition")
		n := "#" + strings.ToUpper(base[:1]) + g.name(base[1:])
		return rF(n, v), n
	case k < 8 && allowLet:
		g.feat("let")
		n := strings.ToUpper(base[:1]) + g.name(base[1:])
		return &rDecl{K: 'l', L: n, V: v}, n
	case k < 10:
		g.feat("ref-regular", "ref-selector")
		n := g.name(base)
		return rF(n, rS(rF("f", v))), n + ".f"
	default:
		g.feat("ref-definition", "ref-selector")
		n := "#" + strings.ToUpper(base[:1]) + g.name(base[1:])
		return rF(n, rS(rF("f", v))), n + ".f"
	}
}

type rPair struct {
	lo, hi string
	class  string // int-empty (empty for integers only), empty (for numbers too), ok
}

var rPairs = []rPair{
	{">0", "<1", "int-empty"}, {">=1.5", "<=1.9", "int-empty"}, {">0.5", "<0.7", "int-empty"},
	{">2", "<3", "int-empty"}, {">-1", "<0", "int-empty"}, {">=0.1", "<1", "int-empty"},
	{">0", "<3", "ok"}, {">=1", "<=1", "ok"}, {">=0", "<10", "ok"}, {">1.5", "<2.5", "ok"}, {">=-2", "<=2", "ok"},
	{">3", "<1", "empty"}, {">=2", "<2", "empty"},
}

// numeric bounds; the type arrives directly or through a reference
func (g *rGen) gBounds() []*rDecl {
	var ds []*rDecl
	ty := g.pick("int", "int", "int", "int", "number", "uint", "float", "int", "uint")
	var ops []rx
	k := g.r.Intn(10)
	viaRef := false
	switch {
	case k < 6:
		dd, ref := g.holder("t", rL(ty), true)
		ds = append(ds, dd)
		ops = append(ops, rRef(ref))
		g.feat("type-via-ref")
		viaRef = true
	case k < 9:
		ops = append(ops, rRef(ty))
		g.feat("type-direct")
	}
	p := rPairs[g.r.Intn(len(rPairs))]
	if g.r.Chance(3, 5) { // bias towards intervals that are empty only for integers
		p = rPairs[g.r.Intn(6)]
	}
	both := g.r.Chance(9, 10)
	viaRefBound := g.r.Chance(1, 6)
	if both || g.r.Bool() {
		if viaRefBound {
			dd, ref := g.holder("lo", rL(p.lo), true)
			ds = append(ds, dd)
			ops = append(ops, rRef(ref))
			g.feat("bound-via-ref")
		} else {
			ops = append(ops, rRef(p.lo))
		}
	}
	if both || len(ops) < 2 {
		ops = append(ops, rRef(p.hi))
	}
	g.feat("bounds", "bounds-"+p.class)
	conc := false
	if g.r.Chance(1, 5) {
		ops = append(ops, rRef(g.pick("1", "2", "1.7", "0.6", "5", "0", "2.5")))
		g.feat("bounds+concrete")
		conc = true
	}
	if both && p.class == "int-empty" && viaRef && (ty == "int" || ty == "uint") && !conc {
		g.feat("SHAPE1:int-empty-bounds+int-via-ref")
	}
	common.Shuffle(g.r, ops)
	x := g.name("x")
	if len(ops) >= 2 && g.r.Chance(1, 3) {
		c := 1 + g.r.Intn(len(ops)-1)
		ds = append(ds, rF(x, rAndOf(ops[:c]...)), rF(x, rAndOf(ops[c:]...)))
	} else {
		ds = append(ds, rF(x, rAndOf(ops...)))
	}
	switch g.r.Intn(6) {
	case 0:
		ds = append(ds, rF(g.name("y"), rAndOf(rRef(x), rRef(g.pick(">=0", "<100", "number", "int")))))
	case 1:
		ds = append(ds, g.guard(rF(g.name("y"), rL(x+" + 1")), x))
		g.feat("arith")
	}
	return ds
}

func rNums(n int, typed bool, g *rGen) []rx {
	var els []rx
	for i := 0; i < n; i++ {
		if typed && g.r.Chance(1, 3) {
			els = append(els, rRef(g.pick("int", "number", "_", ">0")))
		} else {
			els = append(els, rRef(fmt.Sprint(i+1)))
		}
	}
	return els
}

// lists: closed, open, typed, comprehensions (over literals, references, empty lists, with if)
func (g *rGen) gLists() []*rDecl {
	var ds []*rDecl
	n := g.r.Intn(3) // base length
	srcRef := ""
	src := func(k int) string { // a list expression with k elements 1..k
		lit := rList{Els: rNums(k, false, g)}.S()
		if srcRef == "" || g.r.Chance(1, 3) {
			if g.r.Chance(1, 2) {
				dd, ref := g.holder("l", rL(lit), true)
				ds = append(ds, dd)
				srcRef = ref
				g.feat("listcomp-over-ref")
				return ref
			}
			return lit
		}
		return srcRef
	}
	comp := func(k int) rx {
		g.feat("listcomp")
		if k == 0 {
			g.feat("listcomp-empty")
		}
		switch g.r.Intn(6) {
		case 0: // with a filter that removes nothing / everything beyond k
			g.feat("listcomp-if")
			s := rList{Els: rNums(k+1, false, g)}.S()
			return rList{Els: []rx{&rComp{fmt.Sprintf("for v in %s if v <= %d", s, k), rS(&rDecl{K: 'e', V: rL("v")})}}}
		case 1: // a literal prefix followed by a comprehension
			if k >= 1 {
				g.feat("listcomp-mixed")
				return rList{Els: []rx{rRef("1"), &rComp{fmt.Sprintf("for v in %s", rList{Els: rNums(k-1, false, g)}.S()), rS(&rDecl{K: 'e', V: rL("v + 1")})}}}
			}
		}
		s := src(k)
		return rList{Els: []rx{&rComp{"for v in " + s, rS(&rDecl{K: 'e', V: rL("v")})}}}
	}
	closed := func(k int) rx { g.feat("list-closed"); return rList{Els: rNums(k, true, g)} }
	open := func(k int) rx { g.feat("list-open"); return rList{Els: rNums(k, true, g), Open: true} }
	typed := func(k int) rx {
		g.feat("list-typed")
		return rList{Els: rNums(k, true, g), Open: true, Tail: g.pick("int", "int", "number", ">0", "_")}
	}
	var ops []rx
	if g.r.Chance(2, 5) {
		// a comprehension of length n, an open list of the same length, a longer (or equal) closed one
		g.feat("SHAPE2:open+comprehension-same-length")
		ops = append(ops, comp(n))
		if n > 0 || g.r.Bool() {
			if g.r.Chance(3, 4) {
				ops = append(ops, open(n))
			} else {
				ops = append(ops, typed(n))
			}
		}
		switch g.r.Intn(4) {
		case 0:
			ops = append(ops, closed(n))
		case 1:
		default:
			ops = append(ops, closed(n+1))
			g.feat("SHAPE2+longer")
		}
	} else {
		pool := []func() rx{
			func() rx { return closed(n) }, func() rx { return open(n) }, func() rx { return typed(n) },
			func() rx { return comp(n) }, func() rx { return closed(n + 1) }, func() rx { return typed(0) },
			func() rx { return comp(n + 1) }, func() rx { return open(n + 1) },
		}
		if n > 0 {
			pool = append(pool, func() rx { return open(n - 1) }, func() rx { return typed(n - 1) })
		}
		for i, m := 0, 1+g.r.Intn(3); i < m; i++ {
			ops = append(ops, pool[g.r.Intn(len(pool))]())
		}
	}
	common.Shuffle(g.r, ops)
	x := g.name("x")
	if len(ops) >= 2 && g.r.Chance(1, 3) {
		c := 1 + g.r.Intn(len(ops)-1)
		ds = append(ds, rF(x, rAndOf(ops[:c]...)), rF(x, rAndOf(ops[c:]...)))
	} else {
		ds = append(ds, rF(x, rAndOf(ops...)))
	}
	switch g.r.Intn(6) {
	case 0:
		ds = append(ds, rF(g.name("y"), rAndOf(rRef(x), closed(n+1))))
	case 1:
		ds = append(ds, g.guard(rF(g.name("y"), rL("[for v in "+x+" {v * 2}]")), x))
		g.feat("listcomp", "listcomp-over-ref", "arith")
	case 2:
		ds = append(ds, rF(g.name("y"), rList{Els: []rx{rS(rF("a", rRef("1")), rF("b", rRef(x)))}}))
	}
	return ds
}

var rBindings = []string{"int", ">5", "<10", "number", "string", ">=0", "3", "7", "int", ">5", "<5", "uint"}

// a template (struct with a parameter field) instantiated several times with different
// bindings; its out field holds pattern constraints / fields referring to the parameter
func (g *rGen) gTemplate() []*rDecl {
	var ds []*rDecl
	g.feat("template", "pattern-refers-to-parameter")
	var tn string
	switch g.r.Intn(4) {
	case 0:
		tn = g.name("t")
		g.feat("ref-regular")
	case 1:
		tn = "_" + g.name("t")
		g.feat("ref-hidden")
	default:
		tn = "#T" + g.name("")
		g.feat("ref-definition")
	}
	pat := g.pick("[string]", "[string]", "[string]", `[=~"^k"]`, `[=~"."]`)
	outDs := []*rDecl{{K: 'p', L: pat, V: rRef("p")}}
	switch g.r.Intn(6) {
	case 0:
		outDs = append(outDs, &rDecl{K: 'f', L: "z", M: "?", V: rRef("p")})
	case 1:
		outDs = append(outDs, rF("k", rRef("p")))
	case 2:
		outDs = append(outDs, &rDecl{K: '.'})
	}
	ptype := g.pick("_", "_", "_", "number", "_")
	body := rS(rF("p", rRef(ptype)), rF("out", &rStruct{outDs}))
	if g.r.Chance(1, 6) {
		body.Ds = append(body.Ds, rF("twice", rS(&rDecl{K: 'p', L: "[string]", V: rRef("p")})))
	}
	ds = append(ds, rF(tn, body))
	ni := 2
	if g.r.Chance(1, 4) {
		ni = 3
	}
	var insts []rx
	used := map[string]bool{}
	for i := 0; i < ni; i++ {
		b := rBindings[g.r.Intn(len(rBindings))]
		// an instance must not be erroneous itself: .out would select from an erroneous struct (F17)
		for used[b] || (ptype == "number" && b == "string") {
			b = rBindings[g.r.Intn(len(rBindings))]
		}
		used[b] = true
		inst := rAndOf(rRef(tn), rS(rF("p", rRef(b))))
		switch g.r.Intn(5) {
		case 0: // inline in the target
			insts = append(insts, rSel{inst, "out"})
		case 1: // through an intermediate instance field
			in := g.name("i")
			ds = append(ds, rF(in, inst))
			an := g.name("a")
			ds = append(ds, rF(an, rSel{rRef(in), "out"}))
			insts = append(insts, rRef(an))
		default:
			an := g.name("a")
			if g.r.Chance(1, 5) {
				an = "_" + an
			}
			ds = append(ds, rF(an, rSel{inst, "out"}))
			insts = append(insts, rRef(an))
		}
	}
	ops := insts
	if g.r.Chance(5, 6) {
		val := g.pick("3", "7", `"s"`, "12", "3", "7", "6")
		data := rS(rF("k", rRef(val)))
		if g.r.Chance(1, 4) {
			data.Ds = append(data.Ds, rF("j", rRef(g.pick("3", "7", "0"))))
		}
		ops = append(ops, data)
		g.feat("SHAPE3:two-instantiations-of-one-pattern+data")
	}
	common.Shuffle(g.r, ops)
	y := g.name("y")
	if g.r.Chance(1, 3) {
		c := 1 + g.r.Intn(len(ops)-1)
		ds = append(ds, rF(y, rAndOf(ops[:c]...)), rF(y, rAndOf(ops[c:]...)))
	} else {
		ds = append(ds, rF(y, rAndOf(ops...)))
	}
	if g.r.Chance(1, 6) {
		ds = append(ds, rF(g.name("w"), rAndOf(rRef(y), rS(rF("m", rRef(g.pick("1", "8", `"t"`)))))))
	}
	return ds
}

// field comprehensions: for over a struct with interpolated / dynamic labels, if guards
func (g *rGen) gFieldComp() []*rDecl {
	var ds []*rDecl
	sd := rS(rF("a", rRef("1")), rF("b", rRef("2")))
	if g.r.Chance(1, 3) {
		sd.Ds = append(sd.Ds, rF("c", rRef(g.pick("3", `"s"`, "int"))))
	}
	if g.r.Chance(1, 4) {
		sd.Ds = append(sd.Ds, rF("_h", rRef("9")))
	}
	if g.r.Chance(1, 4) {
		sd.Ds = append(sd.Ds, &rDecl{K: 'f', L: "o", M: "?", V: rRef("int")})
	}
	hasFor := g.r.Chance(4, 5)
	sdecl, s := g.holder("s", sd, hasFor) // an unreferenced let clause is a compile error
	ds = append(ds, sdecl)
	var body []*rDecl
	if hasFor {
		g.feat("fieldcomp-for")
		lab := g.pick(`"\(k)x"`, `"\(k)x"`, "(k)", `"p\(k)"`)
		if lab != "(k)" {
			g.feat("interpolation", "dynamic-label")
		} else {
			g.feat("dynamic-label")
		}
		val := g.pick("v", "v", "v + 1", "{w: v}", "v * 2")
		if strings.ContainsAny(val, "+*") {
			g.feat("arith")
		}
		cl := "for k, v in " + s
		if g.r.Chance(1, 4) {
			cl += " if k != \"a\""
			g.feat("fieldcomp-for-if")
		}
		body = append(body, &rDecl{K: 'c', V: &rComp{cl, rS(&rDecl{K: 'f', L: lab, V: rL(val)})}})
	}
	if g.r.Chance(1, 2) {
		g.feat("fieldcomp-if")
		var cond string
		if g.r.Bool() {
			fd, fr := g.holder("c", rL(g.pick("true", "false", "true")), true)
			ds = append(ds, fd)
			cond = fr
		} else {
			nd, nr := g.holder("n", rL(g.pick("3", "1")), true)
			ds = append(ds, nd)
			cond = nr + " > 2"
		}
		inner := rS(rF(g.pick("f", "ax", "g"), rRef(g.pick("1", "int", `"s"`))))
		if g.r.Chance(1, 3) {
			inner.Ds = append(inner.Ds, rF("g", rRef("2")))
		}
		body = append(body, &rDecl{K: 'c', V: &rComp{"if " + cond, inner}})
	}
	if len(body) == 0 || g.r.Chance(1, 2) {
		body = append(body, rF(g.pick("g", "ax", "f"), rRef(g.pick("2", "int", "1"))))
	}
	c := g.name("c")
	ds = append(ds, rF(c, &rStruct{body}))
	switch g.r.Intn(5) {
	case 0:
		ds = append(ds, rF(g.name("e"), rAndOf(rRef(c), rS(rF("ax", rRef(g.pick("int", "1", ">0")))))))
	case 1:
		ds = append(ds, rF(c, rS(rF("bx", rRef(g.pick("int", "2", "number"))))))
	case 2:
		ds = append(ds, rF(c, rS(rF("r", rRef("2")))))
		ds = append(ds, g.guard(rF(g.name("e"), rL(`"\(`+c+`.r)-x"`)), c))
		g.feat("interpolation")
	}
	return ds
}

// references, arithmetic, interpolation, let, hidden fields, definitions embedded in literals, close()
func (g *rGen) gRefs() []*rDecl {
	var ds []*rDecl
	ad, a := g.holder("a", rL(g.pick("2", "3", "2", "int")), true)
	ds = append(ds, ad)
	b := g.name("b")
	ds = append(ds, rF(b, rL(a+" + 1")))
	g.feat("arith")
	for i, m := 0, 1+g.r.Intn(3); i < m; i++ {
		switch g.r.Intn(8) {
		case 0:
			ds = append(ds, rF(g.name("c"), rL(a+" * "+b)))
		case 1:
			ds = append(ds, rF(g.name("s"), rL(`"v\(`+a+`)"`)))
			g.feat("interpolation")
		case 2: // let inside a struct, used twice
			g.feat("let")
			ds = append(ds, rF(g.name("st"), rS(&rDecl{K: 'l', L: "L", V: rL(a + " + 1")}, rF("p", rRef("L")), rF("q", rL("L * 2")))))
		case 3: // reference to an outer field from depth 2
			g.feat("ref-outer")
			ds = append(ds, rF(g.name("o"), rS(rF("i", rRef(a)), rF("n", rS(rF("j", rRef("i")), rF("k", rRef(b)))))))
		case 4, 5: // definition embedded in a struct literal
			g.feat("definition-embedded", "ref-definition")
			dn := "#D" + g.name("")
			body := rS(rF("f", rRef(g.pick("int", "number", ">0"))), &rDecl{K: 'f', L: "g", M: "?", V: rRef("string")})
			if g.r.Chance(1, 4) {
				body.Ds = append(body.Ds, &rDecl{K: '.'})
				g.feat("ellipsis")
			}
			ds = append(ds, rF(dn, body))
			lit := rS(&rDecl{K: 'e', V: rL(dn)}, rF("f", rRef(g.pick("2", a, b))))
			if g.r.Chance(1, 3) {
				lit.Ds = append(lit.Ds, rF("h", rRef(g.pick("1", a))))
			}
			e := g.name("e")
			ds = append(ds, rF(e, lit))
			if g.r.Chance(1, 3) {
				ds = append(ds, rF(g.name("u"), rAndOf(rRef(e), rS(rF(g.pick("f", "g", "q"), rRef(g.pick("2", `"s"`, "int")))))))
			}
		case 6: // definition used by reference
			g.feat("ref-definition", "definition-unified")
			dn := "#A" + g.name("")
			ds = append(ds, rF(dn, rS(rF("f", rRef("int")), &rDecl{K: 'f', L: "g", M: "?", V: rRef("string")})))
			ds = append(ds, rF(g.name("u"), rAndOf(rRef(dn), rS(rF(g.pick("f", "f", "q"), rRef(g.pick("2", a)))))))
		case 7:
			g.feat("close")
			cl := g.name("cl")
			ds = append(ds, rF(cl, rCall{"close", []rx{rS(rF("f", rRef(a)), &rDecl{K: 'f', L: "g", M: "?", V: rRef("int")})}}))
			if g.r.Bool() {
				ds = append(ds, rF(g.name("u"), rAndOf(rRef(cl), rS(rF(g.pick("f", "g", "q"), rRef(g.pick("2", "3")))))))
			}
		}
	}
	return ds
}

var rGadgets = []string{"bounds", "lists", "template", "fieldcomp", "refs"}

func (g *rGen) gadget(k string) []*rDecl {
	switch k {
	case "bounds":
		return g.gBounds()
	case "lists":
		return g.gLists()
	case "template":
		return g.gTemplate()
	case "fieldcomp":
		return g.gFieldComp()
	}
	return g.gRefs()
}

// program: 1-3 gadgets, each at the top level or inside a struct field of its own
func (g *rGen) program() ([]*rDecl, []string) {
	g.n = 0
	g.feats = map[string]bool{}
	g.guards = nil
	var top []*rDecl
	ng := 1 + g.r.Intn(3)
	for i := 0; i < ng && len(top) < 9; i++ {
		k := rGadgets[g.r.Intn(len(rGadgets))]
		g.feat("gadget-" + k)
		g0 := len(g.guards)
		ds := g.gadget(k)
		if g.r.Chance(1, 4) {
			g.feat("nested-in-struct")
			ns := g.name("ns")
			for j := g0; j < len(g.guards); j++ {
				g.guards[j].path = ns + "." + g.guards[j].path
			}
			top = append(top, rF(ns, &rStruct{ds}))
		} else {
			top = append(top, ds...)
		}
	}
	common.Shuffle(g.r, top)
	if len(g.guards) > 0 {
		top = g.applyGuards(top)
	}
	var fs []string
	for f := range g.feats {
		fs = append(fs, f)
	}
	sort.Strings(fs)
	return top, fs
}

// applyGuards evaluates the program once and leaves out the guarded declarations whose
// target is an error.
func (g *rGen) applyGuards(top []*rDecl) []*rDecl {
	ctx := cuecontext.New()
	root := ctx.CompileString(rText(top))
	drop := map[*rDecl]bool{}
	for _, gd := range g.guards {
		t := root.LookupPath(cue.ParsePath(gd.path))
		if !t.Exists() || rStatus(t) == 'E' || isErr(t) {
			drop[gd.d] = true
			g.feat("guarded-declaration-left-out(F17)")
		}
	}
	if len(drop) == 0 {
		return top
	}
	var filter func(ds []*rDecl) []*rDecl
	filter = func(ds []*rDecl) []*rDecl {
		var out []*rDecl
		for _, dd := range ds {
			if drop[dd] {
				continue
			}
			if st, ok := dd.V.(*rStruct); ok && dd.K == 'f' {
				st.Ds = filter(st.Ds)
			}
			out = append(out, dd)
		}
		return out
	}
	return filter(top)
}

// ---- rearrangements -----------------------------------------------------------

type rArr struct {
	r     *common.Rng
	on    map[string]bool
	kinds map[string]bool
}

var rKinds = []string{"perm", "comm", "assoc", "dup", "split", "merge", "self", "top", "embed"}

func rFlatten(e rx, out []rx) []rx {
	if a, ok := e.(rAnd); ok {
		return rFlatten(a.B, rFlatten(a.A, out))
	}
	return append(out, e)
}

func (a *rArr) tree(ops []rx) rx {
	if len(ops) == 1 {
		return ops[0]
	}
	if a.on["assoc"] && len(ops) >= 3 {
		a.kinds["assoc"] = true
		c := 1 + a.r.Intn(len(ops)-1)
		return rAnd{a.tree(ops[:c]), a.tree(ops[c:])}
	}
	return rAndOf(ops...)
}

// value position (field value, & operand, list element)
func (a *rArr) val(e rx) rx {
	e = a.expr(e)
	if _, isAnd := e.(rAnd); isAnd {
		return e
	}
	if _, isComp := e.(*rComp); isComp {
		return e
	}
	switch a.r.Intn(14) {
	case 0:
		if a.on["self"] {
			a.kinds["self"] = true
			return rAnd{e, rClone(e)}
		}
	case 1:
		if a.on["top"] {
			a.kinds["top"] = true
			return rAnd{e, rL("_")}
		}
	case 2:
		if a.on["top"] {
			a.kinds["top"] = true
			return rAnd{rL("_"), e}
		}
	case 3:
		if l, ok := e.(rLeaf); ok && l.Wrap && a.on["embed"] {
			a.kinds["embed"] = true
			return rS(&rDecl{K: 'e', V: e})
		}
	}
	return e
}

func (a *rArr) expr(e rx) rx {
	switch x := e.(type) {
	case rAnd:
		ops := rFlatten(x, nil)
		for i := range ops {
			ops[i] = a.val(ops[i])
		}
		// operands that became an & themselves (v & v, v & _) stay grouped
		if a.on["dup"] && a.r.Chance(1, 3) {
			a.kinds["dup"] = true
			ops = append(ops, rClone(ops[a.r.Intn(len(ops))]))
		}
		if a.on["comm"] {
			a.kinds["comm"] = true
			common.Shuffle(a.r, ops)
		}
		return a.tree(ops)
	case *rStruct:
		return a.strct(x)
	case rList:
		els := make([]rx, len(x.Els))
		for i, el := range x.Els {
			els[i] = a.val(el)
		}
		return rList{els, x.Open, x.Tail}
	case *rComp:
		return &rComp{x.C, a.strct(x.Body)}
	case rSel:
		return rSel{a.expr(x.X), x.Sel}
	case rCall:
		args := make([]rx, len(x.Args))
		for i, arg := range x.Args {
			args[i] = a.expr(arg)
		}
		return rCall{x.Fn, args}
	}
	return e
}

func (a *rArr) strct(s *rStruct) *rStruct { return &rStruct{a.decls(s.Ds)} }

func (a *rArr) decls(in []*rDecl) []*rDecl {
	var ds []*rDecl
	for _, dd := range in {
		c := *dd
		switch c.K {
		case 'f', 'p':
			c.V = a.val(c.V)
		case 'l', 'c':
			c.V = a.expr(c.V)
		case 'e':
			c.V = a.expr(c.V)
		}
		ds = append(ds, &c)
	}
	// merge two declarations of one label into one &
	if a.on["merge"] {
		for i := 0; i < len(ds); i++ {
			if ds[i].K != 'f' || !a.r.Chance(1, 2) {
				continue
			}
			for j := i + 1; j < len(ds); j++ {
				if ds[j].K == 'f' && ds[j].L == ds[i].L && ds[j].M == ds[i].M {
					a.kinds["merge"] = true
					ops := rFlatten(ds[j].V, rFlatten(ds[i].V, nil))
					ds[i] = &rDecl{K: 'f', L: ds[i].L, M: ds[i].M, V: rAndOf(ops...)}
					ds = append(ds[:j], ds[j+1:]...)
					break
				}
			}
		}
	}
	// split x: a & b into x: a and x: b
	if a.on["split"] {
		var out []*rDecl
		for _, dd := range ds {
			if an, ok := dd.V.(rAnd); ok && (dd.K == 'f' || dd.K == 'p') && a.r.Chance(1, 2) {
				a.kinds["split"] = true
				ops := rFlatten(an, nil)
				c := 1 + a.r.Intn(len(ops)-1)
				if a.r.Chance(1, 3) { // one declaration per operand
					for _, o := range ops {
						out = append(out, &rDecl{K: dd.K, L: dd.L, M: dd.M, V: o})
					}
					continue
				}
				out = append(out, &rDecl{K: dd.K, L: dd.L, M: dd.M, V: rAndOf(ops[:c]...)},
					&rDecl{K: dd.K, L: dd.L, M: dd.M, V: rAndOf(ops[c:]...)})
				continue
			}
			out = append(out, dd)
		}
		ds = out
	}
	if a.on["perm"] && len(ds) > 1 {
		a.kinds["perm"] = true
		common.Shuffle(a.r, ds)
	}
	return ds
}

// rMentions: the identifier occurs in the text (as a whole word)
func rMentions(txt, id string) bool {
	isW := func(c byte) bool {
		return c == '_' || c == '#' || c >= '0' && c <= '9' || c >= 'a' && c <= 'z' || c >= 'A' && c <= 'Z'
	}
	for i := 0; ; {
		j := strings.Index(txt[i:], id)
		if j < 0 {
			return false
		}
		j += i
		e := j + len(id)
		if (j == 0 || !isW(txt[j-1])) && (e == len(txt) || !isW(txt[e])) {
			return true
		}
		i = j + 1
	}
}

type rVariant struct {
	files []string
	kinds []string
}

func (v rVariant) text() string { return strings.Join(v.files, "-- next file --\n") }

// rRearrange: a rearrangement of the program fully determined by the seed.
func rRearrange(top []*rDecl, seed uint64) rVariant {
	r := common.NewRng(seed)
	a := &rArr{r: r, on: map[string]bool{}, kinds: map[string]bool{}}
	mode := r.Intn(4)
	for _, k := range rKinds {
		switch mode {
		case 0: // everything
			a.on[k] = true
		default:
			a.on[k] = r.Chance(2, 5)
		}
	}
	if mode == 1 { // only orders
		a.on = map[string]bool{"perm": true, "comm": true, "assoc": r.Bool()}
	}
	ds := a.decls(top)
	var v rVariant
	if r.Chance(1, 3) {
		a.kinds["files"] = true
		nf := 2 + r.Intn(2)
		files := make([][]*rDecl, nf)
		var lets []*rDecl
		for _, dd := range ds {
			if dd.K == 'l' {
				lets = append(lets, dd)
				continue
			}
			i := r.Intn(nf)
			files[i] = append(files[i], dd)
		}
		// a let clause is file scoped: every file that refers to it gets a copy (an
		// unreferenced let clause is a compile error)
		for i := range files {
			txt := rText(files[i])
			for _, l := range lets {
				if rMentions(txt, l.L) {
					files[i] = append(files[i], l)
				}
			}
			if len(files[i]) > 1 {
				common.Shuffle(r, files[i])
			}
		}
		common.Shuffle(r, files)
		for _, f := range files {
			v.files = append(v.files, rText(f))
		}
	} else {
		v.files = []string{rText(ds)}
	}
	for k := range a.kinds {
		v.kinds = append(v.kinds, k)
	}
	sort.Strings(v.kinds)
	if len(v.kinds) == 0 {
		v.kinds = []string{"identity"}
	}
	return v
}

// ---- observation ----------------------------------------------------------------

// probe atoms for non-concrete scalars (inside / outside every interval and binding the generator uses)
var rProbeAtoms = []string{"-1", "0", "1", "3", "7", "12", "-0.5", "0.6", "1.7", "2.5", `"s"`, "true"}

// probe structs (unified with struct nodes down to depth 1): a fresh label and the label k the
// pattern constraints of the templates apply to
var rStructProbes = []string{"{zzq: 1}", `{zzq: "s"}`, "{k: 3}", "{k: 7}"}

type rCanon struct {
	ctx     *cue.Context
	atoms   []cue.Value
	sprobes []cue.Value
	top     cue.Value
}

func newRCanon(ctx *cue.Context) *rCanon {
	c := &rCanon{ctx: ctx, top: ctx.CompileString("_")}
	for _, a := range rProbeAtoms {
		c.atoms = append(c.atoms, ctx.CompileString(a))
	}
	for _, a := range rStructProbes {
		c.sprobes = append(c.sprobes, ctx.CompileString(a))
	}
	return c
}

// rStatus: 'E' error, 'I' incomplete (incomplete / cycle codes), '.' fine; only Bottom codes
// are looked at, never the text.
func rStatus(v cue.Value) byte {
	// Value.Err() is nil for a field that shares the vertex of an erroneous / incomplete field
	// (x: y): look at the dereferenced vertex first.
	if vx := value.Vertex(v); vx != nil {
		if b := vx.Bottom(); b != nil {
			if b.IsIncomplete() {
				return 'I'
			}
			return 'E'
		}
	}
	err := v.Err()
	if err == nil {
		return '.'
	}
	var be interface{ Bottom() *adt.Bottom }
	if errors.As(err, &be) {
		if b := be.Bottom(); b != nil && b.IsIncomplete() {
			return 'I'
		}
	}
	return 'E'
}

func (c *rCanon) val(v cue.Value, depth int) string {
	if depth > 8 {
		return "DEEP"
	}
	st := rStatus(v)
	k := v.IncompleteKind()
	var b strings.Builder
	// children (also below an error: Fields(All) does not refuse erroneous structs)
	type child struct{ key, val string }
	var kids []child
	childErr := false
	isList := k == cue.ListKind
	if it, err := v.Fields(cue.All()); err == nil {
		for it.Next() {
			s := it.Selector()
			key := s.String() + "/" + s.LabelType().String()
			cv := c.val(it.Value(), depth+1)
			if s.ConstraintType() != cue.OptionalConstraint && strings.HasPrefix(cv, "E") {
				childErr = true
			}
			kids = append(kids, child{key, cv})
		}
	}
	if st == '.' && childErr { // Value.Err() may be nil for a shared struct with an erroneous field
		st = 'E'
	}
	b.WriteByte(st)
	if st == '.' {
		b.WriteString(k.String())
	}
	if k == cue.StructKind || (len(kids) > 0 && !isList && st != '.') {
		sort.Slice(kids, func(i, j int) bool { return kids[i].key < kids[j].key })
		b.WriteByte('{')
		for i, kd := range kids {
			if i > 0 {
				b.WriteByte(',')
			}
			b.WriteString(kd.key + ":" + kd.val)
		}
		b.WriteByte('}')
		if st == '.' {
			b.WriteString("allows=")
			b.WriteByte(bit(v.Allows(cue.AnyString)))
			// an open struct without pattern constraints accepts any new field: nothing to probe
			plain := false
			if vx := value.Vertex(v); vx != nil && v.Allows(cue.AnyString) {
				pc := vx.DerefValue().PatternConstraints
				plain = pc == nil || len(pc.Pairs) == 0
			}
			if depth <= 1 && !plain {
				b.WriteString(" probes=")
				for _, p := range c.sprobes {
					b.WriteByte(bit(!isErr(v.Unify(p))))
				}
			}
		}
		return b.String()
	}
	if isList || (len(kids) > 0 && st != '.') {
		b.WriteByte('[')
		for i, kd := range kids { // list elements keep their order
			if i > 0 {
				b.WriteByte(',')
			}
			b.WriteString(kd.val)
		}
		b.WriteByte(']')
		if st == '.' {
			tail := v.LookupPath(cue.MakePath(cue.AnyIndex))
			if tail.Exists() {
				b.WriteString("..." + c.val(tail, depth+1))
			}
			b.WriteString(" allows=")
			b.WriteByte(bit(v.Allows(cue.AnyIndex)))
			longer := make([]cue.Value, len(kids)+1)
			for i := range longer {
				longer[i] = c.top
			}
			b.WriteString(" longer=")
			b.WriteByte(bit(!isErr(v.Unify(c.ctx.NewList(longer...)))))
		}
		return b.String()
	}
	if st != '.' {
		return b.String()
	}
	if v.IsConcrete() {
		fmt.Fprintf(&b, "=%v", v)
		return b.String()
	}
	// a bare basic type (int, number, string, _) is described by its kind; anything else (bounds,
	// conjunctions of constraints) is probed with the atoms
	if vx := value.Vertex(v); vx != nil {
		if _, basic := vx.DerefValue().BaseValue.(*adt.BasicType); basic {
			return b.String()
		}
	}
	b.WriteString(" accepts=")
	for _, a := range c.atoms {
		b.WriteByte(bit(!isErr(v.Unify(a))))
	}
	return b.String()
}

// rootCanon: every top-level field (the root value itself is an error as soon as one field is)
func (c *rCanon) root(v cue.Value) string {
	it, err := v.Fields(cue.All())
	if err != nil {
		return "COMPILE-ERROR"
	}
	var parts []string
	for it.Next() {
		s := it.Selector()
		parts = append(parts, s.String()+"/"+s.LabelType().String()+": "+c.val(it.Value(), 0))
	}
	if len(parts) == 0 && v.Err() != nil {
		return "COMPILE-ERROR"
	}
	sort.Strings(parts)
	return strings.Join(parts, "\n")
}

// rSession: one cue context (with the compiled probe values) shared by a program and its
// rearrangements.
type rSession struct {
	ctx   *cue.Context
	canon *rCanon
}

func newRSession() *rSession {
	ctx := cuecontext.New()
	return &rSession{ctx, newRCanon(ctx)}
}

func rEval(files []string) string { return newRSession().eval(files) }

func (s *rSession) eval(files []string) (res string) {
	defer func() {
		if e := recover(); e != nil {
			res = fmt.Sprintf("PANIC %v", e)
		}
	}()
	ctx := s.ctx
	var v cue.Value
	if len(files) == 1 {
		v = ctx.CompileString(files[0])
	} else {
		inst := &build.Instance{PkgName: "p"}
		for i, src := range files {
			f, err := parser.ParseFile(fmt.Sprintf("f%d.cue", i), "package p\n"+src)
			if err != nil {
				return "PARSE-ERROR"
			}
			if err := inst.AddSyntax(f); err != nil {
				return "ADD-ERROR"
			}
		}
		v = ctx.BuildInstance(inst)
	}
	return s.canon.root(v)
}

// ---- driver -------------------------------------------------------------------------

type rDisagreement struct {
	Program    string   `json:"program"`
	Rearranged string   `json:"rearranged"`
	Kinds      []string `json:"rearrangement"`
	CanonA     string   `json:"canon_a"`
	CanonB     string   `json:"canon_b"`
	Features   []string `json:"features"`
	Shrunk     bool     `json:"shrunk"`
	Original   string   `json:"program_before_shrinking,omitempty"`
}

// rRemoveNth removes the n-th declaration (pre-order over all struct levels); nil if there is none.
func rRemoveNth(top []*rDecl, n int) []*rDecl {
	root := rCloneStruct(&rStruct{top})
	cnt := 0
	done := false
	var removed *rDecl
	var walkS func(s *rStruct)
	var walkE func(e rx)
	walkS = func(s *rStruct) {
		for i := 0; i < len(s.Ds); i++ {
			if done {
				return
			}
			if cnt == n {
				removed = s.Ds[i]
				s.Ds = append(s.Ds[:i], s.Ds[i+1:]...)
				done = true
				return
			}
			cnt++
			if s.Ds[i].V != nil {
				walkE(s.Ds[i].V)
			}
		}
	}
	walkE = func(e rx) {
		switch x := e.(type) {
		case rAnd:
			walkE(x.A)
			walkE(x.B)
		case *rStruct:
			walkS(x)
		case rList:
			for _, el := range x.Els {
				walkE(el)
			}
		case *rComp:
			walkS(x.Body)
		case rSel:
			walkE(x.X)
		case rCall:
			for _, a := range x.Args {
				walkE(a)
			}
		}
	}
	walkS(root)
	if !done {
		return nil
	}
	// a declaration that is still referred to stays (a reference to a missing field is a
	// different program class): the caller skips the candidate
	if removed.K == 'f' || removed.K == 'l' {
		lab := strings.Trim(removed.L, `"`)
		if rMentions(rText(root.Ds), lab) {
			return []*rDecl{}
		}
	}
	return root.Ds
}

func rDisagrees(top []*rDecl, seeds []uint64) (bool, string, rVariant, string) {
	ses := newRSession()
	base := ses.eval([]string{rText(top)})
	if base == "COMPILE-ERROR" || strings.HasPrefix(base, "PANIC") {
		return false, base, rVariant{}, ""
	}
	for _, s := range seeds {
		v := rRearrange(top, s)
		cv := ses.eval(v.files)
		if cv != base {
			return true, base, v, cv
		}
	}
	return false, base, rVariant{}, ""
}

func rShrink(top []*rDecl, seed uint64) ([]*rDecl, string, rVariant, string, bool) {
	seeds := []uint64{seed}
	for i := uint64(1); i <= 24; i++ {
		seeds = append(seeds, seed*1000003+i)
	}
	ok, base, v, cv := rDisagrees(top, seeds)
	if !ok {
		return top, base, v, cv, false
	}
	for changed := true; changed; {
		changed = false
		for n := 0; ; {
			cand := rRemoveNth(top, n)
			if cand == nil {
				break
			}
			if len(cand) == 0 {
				n++
				continue
			}
			if ok2, b2, v2, cv2 := rDisagrees(cand, seeds); ok2 {
				top, base, v, cv = cand, b2, v2, cv2
				changed = true
				continue
			}
			n++
		}
	}
	return top, base, v, cv, true
}

func rDiffLines(a, b string) (string, string) {
	la, lb := strings.Split(a, "\n"), strings.Split(b, "\n")
	ma, mb := map[string]bool{}, map[string]bool{}
	for _, l := range la {
		ma[l] = true
	}
	for _, l := range lb {
		mb[l] = true
	}
	var da, db []string
	for _, l := range la {
		if !mb[l] {
			da = append(da, l)
		}
	}
	for _, l := range lb {
		if !ma[l] {
			db = append(db, l)
		}
	}
	return strings.Join(da, "\n"), strings.Join(db, "\n")
}

func runC01x(r *common.Rng, a map[string]string) {
	n := common.Atoi(a["--n"], 200)
	k := common.Atoi(a["--k"], 6)
	maxReplays := common.Atoi(a["--max-replays"], 5)
	report := map[string]any{}
	debug.SetGCPercent(400)
	if pf := a["--cpuprofile"]; pf != "" {
		f, _ := os.Create(pf)
		pprof.StartCPUProfile(f)
		defer pprof.StopCPUProfile()
	}
	if rf := a["--replay-cases"]; rf != "" {
		// re-evaluate recorded pairs: [{"program": ..., "rearranged": ...}]
		var cases []rDisagreement
		data, _ := os.ReadFile(rf)
		if err := json.Unmarshal(data, &cases); err != nil {
			panic(err)
		}
		var out []rDisagreement
		for _, c := range cases {
			c.CanonA = rEval([]string{c.Program})
			c.CanonB = rEval(strings.Split(c.Rearranged, "-- next file --\n"))
			if c.CanonA != c.CanonB {
				c.CanonA, c.CanonB = rDiffLines(c.CanonA, c.CanonB)
				out = append(out, c)
			}
		}
		report["disagreements"] = out
		report["disagreement_count"] = len(out)
		report["programs"] = len(cases)
		report["rearrangements"] = len(cases)
		data, _ = json.MarshalIndent(report, "", " ")
		os.WriteFile(a["--out"]+"/report.json", data, 0o644)
		return
	}
	g := &rGen{r: r.Fork()}
	rr := r.Fork()
	feats := map[string]int{}
	kinds := map[string]int{}
	status := map[string]int{}
	dis := []rDisagreement{}
	var samples []map[string]string
	ndis, nre, ncomp, ndecl := 0, 0, 0, 0
	distinct := map[string]bool{}
	// generation is sequential (one random stream); the evaluations are independent
	type job struct {
		top   []*rDecl
		fs    []string
		seeds []uint64
		text  string
		base  string
		vars  []rVariant
		cvs   []string
	}
	jobs := make([]*job, n)
	for i := range jobs {
		top, fs := g.program()
		jb := &job{top: top, fs: fs, text: rText(top)}
		for j := 0; j < k; j++ {
			jb.seeds = append(jb.seeds, rr.Next())
		}
		jobs[i] = jb
	}
	workers := common.Atoi(a["--workers"], 6)
	var wg sync.WaitGroup
	next := make(chan *job, 64)
	for w := 0; w < workers; w++ {
		wg.Add(1)
		go func() {
			defer wg.Done()
			for jb := range next {
				ses := newRSession()
				jb.base = ses.eval([]string{jb.text})
				if jb.base == "COMPILE-ERROR" || strings.HasPrefix(jb.base, "PANIC") {
					continue
				}
				for _, seed := range jb.seeds {
					v := rRearrange(jb.top, seed)
					jb.vars = append(jb.vars, v)
					jb.cvs = append(jb.cvs, ses.eval(v.files))
				}
			}
		}()
	}
	for _, jb := range jobs {
		next <- jb
	}
	close(next)
	wg.Wait()
	for i, jb := range jobs {
		top, fs, text, base := jb.top, jb.fs, jb.text, jb.base
		if base == "COMPILE-ERROR" || strings.HasPrefix(base, "PANIC") {
			ncomp++
			if ncomp <= 3 {
				samples = append(samples, map[string]string{"program": text, "canon": base, "note": "does not compile"})
			}
			continue
		}
		distinct[text] = true
		ndecl += len(top)
		for _, f := range fs {
			feats[f]++
		}
		switch {
		case strings.Contains(base, ": E") || strings.Contains(base, ":E"):
			status["with-error"]++
		case strings.Contains(base, ":I") || strings.Contains(base, ": I"):
			status["with-incomplete"]++
		default:
			status["all-fine"]++
		}
		if i < 3 {
			samples = append(samples, map[string]string{"program": text, "canon": base})
		}
		found := false
		for j, v := range jb.vars {
			nre++
			for _, kd := range v.kinds {
				kinds[kd]++
			}
			cv := jb.cvs[j]
			if cv == base || found {
				continue
			}
			found = true
			ndis++
			if len(dis) >= maxReplays {
				continue
			}
			dd := rDisagreement{Program: text, Rearranged: v.text(), Kinds: v.kinds, Features: fs}
			dd.CanonA, dd.CanonB = rDiffLines(base, cv)
			if st, sb, sv, scv, ok := rShrink(top, jb.seeds[j]); ok {
				dd.Original = text
				dd.Program, dd.Rearranged, dd.Kinds, dd.Shrunk = rText(st), sv.text(), sv.kinds, true
				dd.CanonA, dd.CanonB = rDiffLines(sb, scv)
			}
			dis = append(dis, dd)
		}
	}
	report["programs"] = n - ncomp
	report["distinct_programs"] = len(distinct)
	report["rearrangements"] = nre
	report["not_compiling"] = ncomp
	report["features"] = feats
	report["rearrangement_kinds"] = kinds
	report["status"] = status
	report["declarations_avg"] = float64(ndecl) / float64(max(1, n-ncomp))
	report["disagreements"] = dis
	report["disagreement_count"] = ndis
	report["samples"] = samples
	data, _ := json.MarshalIndent(report, "", " ")
	if err := os.WriteFile(a["--out"]+"/report.json", data, 0o644); err != nil {
		panic(err)
	}
	fmt.Fprintf(os.Stderr, "core harness c01x: %d programs, %d rearrangements, %d disagreements, %d not compiling\n", n-ncomp, nre, ndis, ncomp)
}
