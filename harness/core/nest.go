// Mode nest: disjunctions BELOW the top level - as values of struct fields - and disjunctions of such
// structs, compared with the extracted model of coq/theories/Core/Nest.v (C04, C01).
//
//	field value  fv ::= item & item ...      item = disjunction-free scalar expression | flat disjunction of such
//	term         t  ::= {a: fv, b: fv}       | scalar | _|_
//	node         x  ::= t & .. & S & ..      S = *c | c | ..   with c a conjunction of terms
//
// Known deviation classes of cue the generator stays out of by construction (design/Core.md):
// F18 (struct disjuncts equal up to order/marks of a nested disjunction: at most ONE disjunct of a struct-level
// disjunction holds field disjunctions), F19 (field disjunctions inside struct disjuncts only when the case has
// ONE struct-level disjunction), F9 (no optional fields), O-nested (no nested groups).  F2 (operand-order
// dependent defaults) is recognised by the model (flag SENS) at the node and at every field.
package main

import (
	"encoding/json"
	"fmt"
	"os"
	"strings"

	"cuelang.org/go/cue"
	"cuelang.org/go/cue/cuecontext"
	"cuelang.org/go/internal/core/adt"
	"cuelang.org/go/internal/value"
	"cuelang.org/go/internal/verifharness/common"
)

type nItem struct {
	Plain Expr // nil: a disjunction
	Or    []dj
}
type nField struct {
	L     Label
	Items []nItem
}
type nTerm struct {
	Kind byte // 'l' literal, 's' scalar, 'b' bottom
	Fs   []nField
	Sc   Expr
}
type nSAlt struct {
	M  bool
	Ts []nTerm
}
type NestCase struct {
	Plain []nTerm
	Disjs [][]nSAlt
}

func (it nItem) CUE() string {
	if it.Plain != nil {
		return it.Plain.CUE()
	}
	var ds []string
	for _, x := range it.Or {
		s := x.E.CUE()
		if x.Marked {
			s = "*" + s
		}
		ds = append(ds, s)
	}
	return "(" + strings.Join(ds, " | ") + ")"
}

func (it nItem) Sexp() string {
	if it.Plain != nil {
		return it.Plain.Sexp()
	}
	var ds []string
	for _, x := range it.Or {
		if x.Marked {
			ds = append(ds, "(m "+x.E.Sexp()+")")
		} else {
			ds = append(ds, "(u "+x.E.Sexp()+")")
		}
	}
	return "(or " + strings.Join(ds, " ") + ")"
}

func (t nTerm) CUE() string {
	switch t.Kind {
	case 's':
		return t.Sc.CUE()
	case 'b':
		return "_|_"
	}
	var fs []string
	for _, f := range t.Fs {
		var is []string
		for _, it := range f.Items {
			is = append(is, it.CUE())
		}
		fs = append(fs, f.L.CUE()+": "+strings.Join(is, " & "))
	}
	return "{" + strings.Join(fs, ", ") + "}"
}

func (t nTerm) Sexp() string {
	switch t.Kind {
	case 's':
		return "(sc " + t.Sc.Sexp() + ")"
	case 'b':
		return "(bot)"
	}
	var fs []string
	for _, f := range t.Fs {
		var is []string
		for _, it := range f.Items {
			is = append(is, it.Sexp())
		}
		fs = append(fs, "(f "+f.L.Sexp()+" "+strings.Join(is, " ")+")")
	}
	return "(lit " + strings.Join(fs, " ") + ")"
}

func (c NestCase) CUE() string {
	var parts []string
	for _, t := range c.Plain {
		parts = append(parts, t.CUE())
	}
	for _, d := range c.Disjs {
		var as []string
		for _, a := range d {
			var ts []string
			for _, t := range a.Ts {
				ts = append(ts, t.CUE())
			}
			s := strings.Join(ts, " & ")
			if len(ts) > 1 {
				s = "(" + s + ")"
			}
			if a.M {
				s = "*" + s
			}
			as = append(as, s)
		}
		parts = append(parts, "("+strings.Join(as, " | ")+")")
	}
	if len(parts) == 0 {
		return "_"
	}
	return strings.Join(parts, " & ")
}

func (c NestCase) Case() string {
	var ps, dss []string
	for _, t := range c.Plain {
		ps = append(ps, t.Sexp())
	}
	for _, d := range c.Disjs {
		var as []string
		for _, a := range d {
			var ts []string
			for _, t := range a.Ts {
				ts = append(ts, t.Sexp())
			}
			h := "u"
			if a.M {
				h = "m"
			}
			as = append(as, "("+h+" "+strings.Join(ts, " ")+")")
		}
		dss = append(dss, "(or "+strings.Join(as, " ")+")")
	}
	return "NEST " + labsSexp() + " " + atomsSexp() + " | " + strings.Join(ps, " ; ") + " | " + strings.Join(dss, " ; ")
}

// ---- implementation side -------------------------------------------------------------------------

func accBits(ctx *cue.Context, v cue.Value) string {
	var acc strings.Builder
	for _, a := range probeAtoms {
		acc.WriteByte(bit(v.Exists() && !isErr(v.Unify(ctx.CompileString(a.CUE())))))
	}
	return acc.String()
}

// disjunctsOf: number of disjuncts of an unresolved disjunction (0: not a disjunction)
func disjunctsOf(v cue.Value) int {
	if _, vx := value.ToInternal(v); vx != nil {
		if dj, ok := vx.DerefValue().BaseValue.(*adt.Disjunction); ok {
			return len(dj.Values)
		}
	}
	return 0
}

// fieldOutcome: C<value> | A, then the acceptance bits of the field
func fieldOutcome(ctx *cue.Context, v cue.Value) string {
	acc := accBits(ctx, v)
	if isErr(v) {
		return "N/" + acc
	}
	d, _ := v.Default()
	if disjunctsOf(d) > 1 {
		return "A/" + acc
	}
	return "C" + canonNoProbe(ctx, d) + "/" + acc
}

func evalNest(expr string) string {
	ctx := cuecontext.New()
	v := ctx.CompileString("x: " + expr)
	x := v.LookupPath(cue.ParsePath("x"))
	acc := accBits(ctx, x)
	if !x.Exists() || isErr(x) {
		return "NOVALUE - " + acc
	}
	d, _ := x.Default()
	if n := disjunctsOf(d); n > 1 {
		return fmt.Sprintf("AMBIG %d %s", n, acc)
	}
	if d.IncompleteKind() == cue.StructKind {
		var rows []string
		for _, l := range allLabels() {
			f := d.LookupPath(cue.MakePath(sel(l)))
			if !f.Exists() {
				rows = append(rows, "-")
			} else {
				rows = append(rows, "="+fieldOutcome(ctx, f))
			}
		}
		return "CHOSEN {" + strings.Join(rows, ",") + "} " + acc
	}
	return "CHOSEN " + canonNoProbe(ctx, d) + " " + acc
}

// ---- generation ----------------------------------------------------------------------------------

type nestGen struct {
	r     *common.Rng
	pool  []Atom
	ty    string
	stats map[string]int
}

func (g *nestGen) scalar() Expr {
	switch g.r.Intn(12) {
	case 0:
		return ScalKind{g.ty}
	case 1:
		// bounds always come with `int &`: a bare `!=5` also admits floats, which the probe atoms (and so the
		// model's identity of field values) cannot tell from `int & !=5` (design/Core.md, NestCUE, Limits)
		if g.ty == "int" {
			return And{ScalKind{"int"}, common.Pick(g.r, boundFamily)}
		}
		return ScalKind{g.ty}
	case 2:
		if g.ty == "int" {
			return And{ScalKind{"int"}, common.Pick(g.r, boundFamily)}
		}
	}
	return ScalAtom{common.Pick(g.r, g.pool)}
}

// scalar1: ONE scalar constraint (a scalar term of the model)
func (g *nestGen) scalar1() Expr {
	for {
		if e := g.scalar(); !isAnd(e) {
			return e
		}
	}
}

func isAnd(e Expr) bool { _, ok := e.(And); return ok }

func (g *nestGen) or() nItem {
	k := 2 + g.r.Intn(2)
	style := g.r.Intn(5) // 0,1: no marks; 2,3: one mark; 4: several
	var d []dj
	for j := 0; j < k; j++ {
		m := false
		switch style {
		case 2, 3:
			m = j == 0
		case 4:
			m = g.r.Chance(1, 2)
		}
		d = append(d, dj{m, g.scalar()})
	}
	common.Shuffle(g.r, d)
	return nItem{Or: d}
}

func (g *nestGen) fieldValue(allowDisj bool) []nItem {
	if !allowDisj {
		return []nItem{{Plain: g.scalar()}}
	}
	switch g.r.Intn(20) {
	case 0, 1, 2, 3, 4, 5:
		return []nItem{{Plain: g.scalar()}}
	case 6, 7, 8:
		g.stats["field-type-and-disjunction"]++
		its := []nItem{{Plain: ScalKind{g.ty}}, g.or()}
		if g.r.Bool() {
			its[0], its[1] = its[1], its[0]
		}
		return its
	case 9, 10:
		g.stats["field-two-disjunctions"]++
		return []nItem{g.or(), g.or()}
	}
	return []nItem{g.or()}
}

func hasOr(t nTerm) bool {
	for _, f := range t.Fs {
		for _, it := range f.Items {
			if it.Plain == nil {
				return true
			}
		}
	}
	return false
}

func (g *nestGen) lit(allowDisj bool) nTerm {
	var fs []nField
	for _, id := range []int{0, 1, 3} {
		p := 7
		if id == 3 {
			p = 1
		}
		if g.r.Chance(p, 10) {
			fs = append(fs, nField{Label{LReg, id}, g.fieldValue(allowDisj)})
		}
	}
	if len(fs) == 0 {
		fs = append(fs, nField{Label{LReg, 0}, g.fieldValue(allowDisj)})
	}
	if g.r.Chance(1, 8) { // the same label twice in one literal
		fs = append(fs, nField{fs[0].L, g.fieldValue(allowDisj)})
	}
	common.Shuffle(g.r, fs)
	return nTerm{Kind: 'l', Fs: fs}
}

func (g *nestGen) sdisj(allowDisj bool) []nSAlt {
	k := 2 + g.r.Intn(2)
	style := g.r.Intn(5)
	holder := -1 // F18: at most one disjunct holds field disjunctions
	if allowDisj && g.r.Chance(2, 3) {
		holder = g.r.Intn(k)
	}
	var d []nSAlt
	for j := 0; j < k; j++ {
		m := false
		switch style {
		case 2, 3:
			m = j == 0
		case 4:
			m = g.r.Chance(1, 2)
		}
		var ts []nTerm
		switch g.r.Intn(14) {
		case 0:
			ts = []nTerm{{Kind: 's', Sc: g.scalar1()}}
			g.stats["scalar-disjunct"]++
		case 1:
			ts = []nTerm{{Kind: 'b'}}
			g.stats["bottom-disjunct"]++
		case 2:
			ts = []nTerm{g.lit(j == holder), g.lit(false)}
		default:
			ts = []nTerm{g.lit(j == holder)}
		}
		d = append(d, nSAlt{m, ts})
	}
	common.Shuffle(g.r, d)
	return d
}

func (g *nestGen) nestCase() NestCase {
	g.ty = "int"
	switch g.r.Intn(4) {
	case 0:
		g.pool = []Atom{{'s', 0}, {'s', 1}}
		g.ty = "string"
	case 1:
		g.pool = []Atom{{'i', 0}, {'i', 1}, {'i', 5}}
	case 2:
		g.pool = []Atom{{'i', 1}, {'i', 5}, {'i', 10}}
	default:
		g.pool = []Atom{{'i', 0}, {'i', 1}, {'i', 5}, {'i', 10}}
	}
	var c NestCase
	nd := g.r.Intn(3)
	np := g.r.Intn(3)
	if nd == 0 && np == 0 {
		np = 1
	}
	for i := 0; i < nd; i++ {
		c.Disjs = append(c.Disjs, g.sdisj(nd == 1)) // F19
	}
	for i := 0; i < np; i++ {
		if g.r.Chance(1, 25) {
			c.Plain = append(c.Plain, nTerm{Kind: 's', Sc: g.scalar1()})
		} else {
			c.Plain = append(c.Plain, g.lit(true))
		}
	}
	any := false
	for _, t := range c.Plain {
		any = any || hasOr(t)
	}
	if nd == 0 && !any {
		c.Plain[0] = nTerm{Kind: 'l', Fs: []nField{{Label{LReg, 0}, []nItem{g.or()}}}}
	}
	return c
}

func (g *nestGen) probe() nTerm {
	var fs []nField
	for _, id := range []int{0, 1} {
		if g.r.Chance(2, 3) {
			fs = append(fs, nField{Label{LReg, id}, []nItem{{Plain: ScalAtom{common.Pick(g.r, g.pool)}}}})
		}
	}
	if len(fs) == 0 {
		fs = append(fs, nField{Label{LReg, 0}, []nItem{{Plain: ScalAtom{common.Pick(g.r, g.pool)}}}})
	}
	return nTerm{Kind: 'l', Fs: fs}
}

func (c NestCase) features(st map[string]int) {
	fd, sd, sfd := false, len(c.Disjs) > 0, false
	for _, t := range c.Plain {
		fd = fd || hasOr(t)
	}
	for _, d := range c.Disjs {
		for _, a := range d {
			for _, t := range a.Ts {
				sfd = sfd || hasOr(t)
			}
		}
	}
	if fd {
		st["plain-literal-with-field-disjunction"]++
	}
	if sd {
		st["struct-level-disjunction"]++
	}
	if sfd {
		st["struct-disjunct-with-field-disjunction"]++
	}
	if sd && (fd || sfd) {
		st["both-levels"]++
	}
	if len(c.Disjs) > 1 {
		st["two-struct-level-disjunctions"]++
	}
}

func sAtom(k byte, i int) Expr { return ScalAtom{Atom{k, i}} }
func orI(xs ...dj) nItem       { return nItem{Or: xs} }
func pl(e Expr) nItem          { return nItem{Plain: e} }
func nlit(fs ...nField) nTerm  { return nTerm{Kind: 'l', Fs: fs} }
func nf(id int, its ...nItem) nField {
	return nField{Label{LReg, id}, its}
}

func corpusNest() []struct {
	Name string
	C    NestCase
} {
	one := func(ts ...nTerm) nSAlt { return nSAlt{false, ts} }
	star := func(ts ...nTerm) nSAlt { return nSAlt{true, ts} }
	return []struct {
		Name string
		C    NestCase
	}{
		{"field-default", NestCase{Plain: []nTerm{nlit(nf(0, orI(m(ia(1)), u(ia(5)))))}}},
		{"field-ambiguous", NestCase{Plain: []nTerm{nlit(nf(0, orI(u(ia(1)), u(ia(5)))))}}},
		{"field-unify-two-disjunctions", NestCase{Plain: []nTerm{nlit(nf(0, orI(u(ia(1)), u(ia(5))))), nlit(nf(0, orI(u(ia(5)), u(ia(10)))))}}},
		{"field-default-narrowed-away", NestCase{Plain: []nTerm{nlit(nf(0, orI(m(ia(1)), u(ia(5))))), nlit(nf(0, orI(u(ia(5)), u(ia(10)))))}}},
		{"field-all-fail", NestCase{Plain: []nTerm{nlit(nf(0, orI(u(ia(1)), u(ia(5))))), nlit(nf(0, pl(ia(10))))}}},
		{"two-fields-defaults", NestCase{Plain: []nTerm{nlit(nf(0, orI(m(ia(1)), u(ia(5)))), nf(1, orI(m(sa(0)), u(sa(1)))))}}},
		{"struct-disjunction-narrowed", NestCase{Plain: []nTerm{nlit(nf(0, pl(ia(1))))}, Disjs: [][]nSAlt{{one(nlit(nf(0, pl(ia(1))))), one(nlit(nf(0, pl(ia(5)))))}}}},
		{"struct-disjunction-default", NestCase{Disjs: [][]nSAlt{{star(nlit(nf(0, pl(ia(1))))), one(nlit(nf(0, pl(ia(5)))))}}}},
		{"struct-disjunction-ambiguous", NestCase{Disjs: [][]nSAlt{{one(nlit(nf(0, pl(ia(1))))), one(nlit(nf(0, pl(ia(5)))))}}}},
		{"struct-disjunct-field-fails", NestCase{Plain: []nTerm{nlit(nf(0, pl(ia(10))))}, Disjs: [][]nSAlt{{one(nlit(nf(0, orI(u(ia(1)), u(ia(5)))))), one(nlit(nf(0, pl(ia(10)))))}}}},
		{"mixed", NestCase{Plain: []nTerm{nlit(nf(0, orI(m(ia(1)), u(ia(5)))), nf(1, pl(ia(1))))},
			Disjs: [][]nSAlt{{one(nlit(nf(0, orI(u(ia(5)), u(ia(10)))))), star(nlit(nf(1, orI(u(ia(1)), u(ia(5)))))), one(nTerm{Kind: 's', Sc: ia(10)})}}}},
		{"default-struct-eliminated", NestCase{Plain: []nTerm{nlit(nf(0, pl(ia(5))))}, Disjs: [][]nSAlt{{star(nlit(nf(0, pl(ia(1))))), one(nlit(nf(0, pl(ia(5))))), one(nlit(nf(1, pl(ia(5)))))}}}},
	}
}

func runNest(r *common.Rng, a map[string]string, out *common.Out) {
	if rc := a["--replay-cases"]; rc != "" {
		data, _ := os.ReadFile(rc)
		var cs []struct{ Expr string }
		json.Unmarshal(data, &cs)
		for _, c := range cs {
			fmt.Println(evalNest(c.Expr))
		}
		return
	}
	n := common.Atoi(a["--n"], 500)
	g := &nestGen{r: r.Fork(), stats: map[string]int{}}
	src, _ := os.Create(a["--out"] + "/src.txt")
	defer src.Close()
	meta, _ := os.Create(a["--out"] + "/meta.txt")
	defer meta.Close()
	k := 0
	emit := func(name string, c NestCase) {
		e := c.CUE()
		fmt.Fprintf(src, "### %d %s\nx: %s\n", k, name, e)
		fmt.Fprintf(meta, "%s\n", name)
		out.Emit(c.Case(), evalNest(e))
		k++
	}
	for _, cc := range corpusNest() {
		emit("corpus:"+cc.Name, cc.C)
	}
	for k < n {
		c := g.nestCase()
		c.features(g.stats)
		emit("gen", c)
		for j := g.r.Intn(3); j > 0; j-- {
			p := c
			p.Plain = append(append([]nTerm{}, c.Plain...), g.probe())
			if g.r.Bool() { // the probe in front
				p.Plain[0], p.Plain[len(p.Plain)-1] = p.Plain[len(p.Plain)-1], p.Plain[0]
			}
			emit("probe", p)
		}
	}
	st, _ := json.Marshal(g.stats)
	os.WriteFile(a["--out"]+"/features.json", st, 0o644)
}
