// C08 harness, expression level: random expression trees -> format.Node (both
// formatters) -> real scanner tokens / real parser trees; random token soups ->
// real parser; random character sequences -> real scanner.  Everything is
// printed in the notation of ocaml/c08_driver.ml.
package main

import (
	"fmt"
	"os"
	"strconv"
	"strings"

	"cuelang.org/go/cue/ast"
	"cuelang.org/go/cue/format"
	"cuelang.org/go/cue/parser"
	"cuelang.org/go/cue/scanner"
	"cuelang.org/go/cue/token"
	"cuelang.org/go/internal/cueexperiment"
	"cuelang.org/go/internal/verifharness/common"
)

// ---- trees -----------------------------------------------------------------

type tree struct {
	k    byte // A B U S I C P
	tok  string
	kids []*tree
}

var binops = []string{"OR", "AND", "LOR", "LAND", "EQL", "NEQ", "LSS", "LEQ", "GTR", "GEQ", "MAT", "NMAT", "ADD", "SUB", "MUL", "QUO"}
var unops = []string{"EQL", "ADD", "SUB", "NOT", "MUL", "LSS", "LEQ", "GEQ", "GTR", "NEQ", "MAT", "NMAT"}

var opTok = map[string]token.Token{
	"ADD": token.ADD, "SUB": token.SUB, "MUL": token.MUL, "QUO": token.QUO, "AND": token.AND, "OR": token.OR,
	"LAND": token.LAND, "LOR": token.LOR, "EQL": token.EQL, "NEQ": token.NEQ, "LSS": token.LSS, "LEQ": token.LEQ,
	"GTR": token.GTR, "GEQ": token.GEQ, "MAT": token.MAT, "NMAT": token.NMAT, "NOT": token.NOT,
	"ARROW": token.ARROW, "BIND": token.BIND, "TILDE": token.TILDE,
	"LPAREN": token.LPAREN, "RPAREN": token.RPAREN, "LBRACK": token.LBRACK, "RBRACK": token.RBRACK,
	"COMMA": token.COMMA, "PERIOD": token.PERIOD, "COLON": token.COLON, "OPTION": token.OPTION, "ELLIPSIS": token.ELLIPSIS,
}
var tokWord = map[token.Token]string{}

func init() {
	for w, t := range opTok {
		tokWord[t] = w
	}
}

func (t *tree) words(out *[]string) {
	switch t.k {
	case 'A':
		*out = append(*out, "A", t.tok)
	case 'B', 'U':
		*out = append(*out, string(t.k), t.tok)
		for _, c := range t.kids {
			c.words(out)
		}
	case 'S':
		*out = append(*out, "S")
		t.kids[0].words(out)
		*out = append(*out, t.tok)
	case 'I', 'P':
		*out = append(*out, string(t.k))
		for _, c := range t.kids {
			c.words(out)
		}
	case 'C':
		*out = append(*out, "C", strconv.Itoa(len(t.kids)-1))
		for _, c := range t.kids {
			c.words(out)
		}
	case 'X':
		*out = append(*out, "X:"+t.tok)
	}
}

func (t *tree) String() string {
	var w []string
	t.words(&w)
	return strings.Join(w, " ")
}

func parseTree(ws []string) (*tree, []string) {
	switch ws[0] {
	case "A":
		return &tree{k: 'A', tok: ws[1]}, ws[2:]
	case "B":
		x, r := parseTree(ws[2:])
		y, r := parseTree(r)
		return &tree{k: 'B', tok: ws[1], kids: []*tree{x, y}}, r
	case "U":
		x, r := parseTree(ws[2:])
		return &tree{k: 'U', tok: ws[1], kids: []*tree{x}}, r
	case "S":
		x, r := parseTree(ws[1:])
		return &tree{k: 'S', tok: r[0], kids: []*tree{x}}, r[1:]
	case "I":
		x, r := parseTree(ws[1:])
		y, r := parseTree(r)
		return &tree{k: 'I', kids: []*tree{x, y}}, r
	case "P":
		x, r := parseTree(ws[1:])
		return &tree{k: 'P', kids: []*tree{x}}, r
	case "C":
		n, _ := strconv.Atoi(ws[1])
		f, r := parseTree(ws[2:])
		kids := []*tree{f}
		for i := 0; i < n; i++ {
			var a *tree
			a, r = parseTree(r)
			kids = append(kids, a)
		}
		return &tree{k: 'C', kids: kids}, r
	}
	panic("bad tree " + strings.Join(ws, " "))
}

// text of an atom / selector token word
func atomText(w string) string {
	switch {
	case strings.HasPrefix(w, "i:"), strings.HasPrefix(w, "n:"), strings.HasPrefix(w, "f:"):
		return w[2:]
	case strings.HasPrefix(w, "s:"):
		return `"s` + w[2:] + `"`
	case w == "BOT":
		return "_|_"
	}
	if t, ok := opTok[w]; ok {
		return t.String()
	}
	panic("bad token word " + w)
}

func atomExpr(w string) ast.Expr {
	switch {
	case strings.HasPrefix(w, "i:"):
		return ast.NewIdent(w[2:])
	case strings.HasPrefix(w, "n:"):
		return &ast.BasicLit{Kind: token.INT, Value: w[2:]}
	case strings.HasPrefix(w, "f:"):
		return &ast.BasicLit{Kind: token.FLOAT, Value: w[2:]}
	case strings.HasPrefix(w, "s:"):
		return &ast.BasicLit{Kind: token.STRING, Value: atomText(w)}
	case w == "BOT":
		return &ast.BottomLit{}
	}
	panic("bad atom " + w)
}

// position-free AST
func (t *tree) ast() ast.Expr {
	switch t.k {
	case 'A':
		return atomExpr(t.tok)
	case 'B':
		return &ast.BinaryExpr{Op: opTok[t.tok], X: t.kids[0].ast(), Y: t.kids[1].ast()}
	case 'U':
		return &ast.UnaryExpr{Op: opTok[t.tok], X: t.kids[0].ast()}
	case 'S':
		return &ast.SelectorExpr{X: t.kids[0].ast(), Sel: atomExpr(t.tok).(ast.Label)}
	case 'I':
		return &ast.IndexExpr{X: t.kids[0].ast(), Index: t.kids[1].ast()}
	case 'P':
		return &ast.ParenExpr{X: t.kids[0].ast()}
	case 'C':
		c := &ast.CallExpr{Fun: t.kids[0].ast()}
		for _, a := range t.kids[1:] {
			c.Args = append(c.Args, a.ast())
		}
		return c
	}
	panic("bad tree kind")
}

// position-free dump of a parsed expression
func litWord(x *ast.BasicLit) string {
	switch x.Kind {
	case token.INT:
		return "n:" + x.Value
	case token.FLOAT:
		return "f:" + x.Value
	case token.STRING:
		v := x.Value
		if strings.HasPrefix(v, `"s`) && strings.HasSuffix(v, `"`) {
			if _, err := strconv.Atoi(v[2 : len(v)-1]); err == nil {
				return "s:" + v[2:len(v)-1]
			}
		}
		return "X:str"
	case token.NULL, token.TRUE, token.FALSE:
		return "i:" + x.Value
	}
	return "X:lit"
}

func dump(e ast.Expr) *tree {
	switch x := e.(type) {
	case *ast.Ident:
		return &tree{k: 'A', tok: "i:" + x.Name}
	case *ast.BasicLit:
		return &tree{k: 'A', tok: litWord(x)}
	case *ast.BottomLit:
		return &tree{k: 'A', tok: "BOT"}
	case *ast.BinaryExpr:
		return &tree{k: 'B', tok: tokWord[x.Op], kids: []*tree{dump(x.X), dump(x.Y)}}
	case *ast.UnaryExpr:
		return &tree{k: 'U', tok: tokWord[x.Op], kids: []*tree{dump(x.X)}}
	case *ast.SelectorExpr:
		var w string
		switch s := x.Sel.(type) {
		case *ast.Ident:
			w = "i:" + s.Name
		case *ast.BasicLit:
			w = litWord(s)
		default:
			w = "X:sel"
		}
		return &tree{k: 'S', tok: w, kids: []*tree{dump(x.X)}}
	case *ast.IndexExpr:
		return &tree{k: 'I', kids: []*tree{dump(x.X), dump(x.Index)}}
	case *ast.ParenExpr:
		return &tree{k: 'P', kids: []*tree{dump(x.X)}}
	case *ast.CallExpr:
		kids := []*tree{dump(x.Fun)}
		for _, a := range x.Args {
			kids = append(kids, dump(a))
		}
		return &tree{k: 'C', kids: kids}
	}
	return &tree{k: 'X', tok: fmt.Sprintf("%T", e)}
}

// ---- scanning of real text ---------------------------------------------------

type rtok struct {
	word string
	glue bool
}

// scanText returns the tokens of src in model notation with their gluing, or an
// error when the scanner reports one.
func scanText(src []byte) (toks []rtok, multiline bool, err error) {
	var s scanner.Scanner
	f := token.NewFile("x", -1, len(src))
	var serr error
	s.Init(f, src, func(pos token.Pos, msg string, args []interface{}) {
		if serr == nil {
			serr = fmt.Errorf(msg, args...)
		}
	}, 0)
	prevEnd := -1
	for {
		pos, tok, lit := s.Scan()
		if tok == token.EOF {
			break
		}
		if tok == token.COMMA && lit == "\n" {
			if pos.Offset() < len(src) {
				multiline = true
			}
			continue
		}
		var w string
		text := lit
		switch tok {
		case token.IDENT:
			w = "i:" + lit
		case token.INT:
			w = "n:" + lit
		case token.FLOAT:
			w = "f:" + lit
		case token.STRING:
			w = litWord(&ast.BasicLit{Kind: token.STRING, Value: lit})
		case token.BOTTOM:
			w = "BOT"
			text = "_|_"
		default:
			if tok.IsKeyword() {
				w = "i:" + tok.String()
				text = tok.String()
			} else if ww, ok := tokWord[tok]; ok {
				w = ww
				text = tok.String()
			} else {
				w = "X:" + tok.String()
				if text == "" {
					text = tok.String()
				}
			}
		}
		toks = append(toks, rtok{w, pos.Offset() == prevEnd})
		prevEnd = pos.Offset() + len(text)
	}
	for _, c := range src {
		if c == '\n' {
			multiline = true
		}
	}
	return toks, multiline, serr
}

func marks(ts []rtok) string {
	var b strings.Builder
	for i, t := range ts {
		if i > 0 {
			b.WriteByte(' ')
		}
		if t.glue && i > 0 {
			b.WriteByte('~')
		} else {
			b.WriteByte('_')
		}
		b.WriteString(t.word)
	}
	if len(ts) == 0 {
		return "-"
	}
	return b.String()
}

func setV2(v2 bool) { cueexperiment.Flags.FormatV2 = v2 }

// formatExpr prints e with one formatter and reads the text back.
// result: marks ; reread tree ; flags (m = output spans several lines)
func formatExpr(e ast.Expr, v2 bool) (mk, reread string, multi bool, text string) {
	defer func() {
		if r := recover(); r != nil {
			mk, reread = "PANIC", "PANIC"
		}
	}()
	setV2(v2)
	b, err := format.Node(e)
	if err != nil {
		return "FMTERR", "FMTERR", false, ""
	}
	toks, multi, serr := scanText(b)
	if serr != nil {
		mk = "SCANERR"
	} else {
		mk = marks(toks)
	}
	x, perr := parser.ParseExpr("x", b)
	if perr != nil {
		reread = "ERR"
	} else {
		reread = dump(x).String()
	}
	return mk, reread, multi, string(b)
}

// ---- generators --------------------------------------------------------------

var idents = []string{"a", "b", "c", "x", "y", "foo", "_", "_x", "#D", "_#h", "$v", "int", "ab1", "__", "A_b", "x$"}

func genAtom(r *common.Rng) *tree {
	switch r.Intn(10) {
	case 0, 1, 2, 3:
		return &tree{k: 'A', tok: "i:" + common.Pick(r, idents)}
	case 4, 5, 6:
		n := r.Intn(3)
		s := strconv.Itoa([]int{0, 1, 7, 42, 100, 65535}[r.Intn(6)])
		if n == 0 {
			s = strconv.Itoa(r.Intn(1000))
		}
		return &tree{k: 'A', tok: "n:" + s}
	case 7:
		return &tree{k: 'A', tok: "f:" + strconv.Itoa(r.Intn(30)) + "." + strconv.Itoa(r.Intn(100))}
	case 8:
		return &tree{k: 'A', tok: "s:" + strconv.Itoa(r.Intn(5))}
	default:
		if r.Chance(1, 3) {
			return &tree{k: 'A', tok: "BOT"}
		}
		return &tree{k: 'A', tok: "i:" + common.Pick(r, idents)}
	}
}

func genSel(r *common.Rng) string {
	if r.Chance(1, 6) {
		return "s:" + strconv.Itoa(r.Intn(5))
	}
	return "i:" + common.Pick(r, []string{"a", "b", "foo", "_x", "#D", "x1"})
}

// genTree: random tree; parens = probability (in 16ths) of wrapping a node in
// ParenExpr nodes (0 for paren-free trees).
func genTree(r *common.Rng, depth int, parens int) *tree {
	var t *tree
	if depth <= 0 || r.Chance(1, 5) {
		t = genAtom(r)
	} else {
		switch r.Intn(12) {
		case 0, 1, 2, 3, 4:
			op := common.Pick(r, binops)
			if r.Chance(1, 3) { // favour chains of the same operator and the additive / multiplicative levels
				op = common.Pick(r, []string{"OR", "AND", "ADD", "SUB", "MUL", "QUO"})
			} else if r.Chance(1, 4) { // and neighbouring precedence levels
				op = common.Pick(r, []string{"LOR", "LAND", "OR", "AND", "EQL", "LSS"})
			}
			t = &tree{k: 'B', tok: op, kids: []*tree{genTree(r, depth-1, parens), genTree(r, depth-1, parens)}}
		case 5, 6, 7:
			t = &tree{k: 'U', tok: common.Pick(r, unops), kids: []*tree{genTree(r, depth-1, parens)}}
			if r.Chance(1, 8) { // unary operator applied to a unary operand: pairs that may lex as one token
				in := &tree{k: 'U', tok: common.Pick(r, []string{"SUB", "MAT", "EQL", "ADD", "NEQ", "LEQ"}), kids: t.kids}
				t = &tree{k: 'U', tok: common.Pick(r, []string{"LSS", "GTR", "NOT", "SUB", "ADD", "LEQ"}), kids: []*tree{in}}
			}
		case 8:
			t = &tree{k: 'S', tok: genSel(r), kids: []*tree{genTree(r, depth-1, parens)}}
		case 9:
			t = &tree{k: 'I', kids: []*tree{genTree(r, depth-1, parens), genTree(r, depth-2, parens)}}
		case 10:
			n := r.Intn(4)
			kids := []*tree{genTree(r, depth-1, parens)}
			for i := 0; i < n; i++ {
				kids = append(kids, genTree(r, depth-2, parens))
			}
			t = &tree{k: 'C', kids: kids}
		default:
			t = genAtom(r)
		}
	}
	for parens > 0 && r.Chance(parens, 16) {
		t = &tree{k: 'P', kids: []*tree{t}}
	}
	return t
}

func binprec(op string) int {
	switch op {
	case "OR":
		return 1
	case "AND":
		return 2
	case "LOR":
		return 3
	case "LAND":
		return 4
	case "ADD", "SUB":
		return 6
	case "MUL", "QUO":
		return 7
	}
	return 5
}

// soup prints a tree as token words with the parentheses that are necessary
// plus random redundant ones (the harness's own printer, not the formatter).
func soup(r *common.Rng, t *tree, q int, extra int, out *[]string) {
	wrap := 0
	lvl := 9
	switch t.k {
	case 'B':
		lvl = binprec(t.tok)
	case 'U':
		lvl = 8
	}
	if lvl < q {
		wrap = 1
	}
	for extra > 0 && r.Chance(extra, 16) {
		wrap++
	}
	for i := 0; i < wrap; i++ {
		*out = append(*out, "LPAREN")
	}
	if wrap > 0 {
		q = 0
	}
	switch t.k {
	case 'A':
		*out = append(*out, t.tok)
	case 'B':
		p := binprec(t.tok)
		soup(r, t.kids[0], p, extra, out)
		*out = append(*out, t.tok)
		soup(r, t.kids[1], p+1, extra, out)
	case 'U':
		*out = append(*out, t.tok)
		soup(r, t.kids[0], 8, extra, out)
	case 'S':
		soup(r, t.kids[0], 9, extra, out)
		*out = append(*out, "PERIOD", t.tok)
	case 'I':
		soup(r, t.kids[0], 9, extra, out)
		*out = append(*out, "LBRACK")
		soup(r, t.kids[1], 0, extra, out)
		if r.Chance(1, 12) {
			*out = append(*out, "COMMA")
		}
		*out = append(*out, "RBRACK")
	case 'C':
		soup(r, t.kids[0], 9, extra, out)
		*out = append(*out, "LPAREN")
		for i, a := range t.kids[1:] {
			if i > 0 {
				*out = append(*out, "COMMA")
			}
			soup(r, a, 0, extra, out)
		}
		if len(t.kids) > 1 && r.Chance(1, 10) {
			*out = append(*out, "COMMA")
		}
		*out = append(*out, "RPAREN")
	case 'P':
		*out = append(*out, "LPAREN")
		soup(r, t.kids[0], 0, extra, out)
		*out = append(*out, "RPAREN")
	}
	for i := 0; i < wrap; i++ {
		*out = append(*out, "RPAREN")
	}
}

var allTokWords = []string{"ADD", "SUB", "MUL", "QUO", "AND", "OR", "LAND", "LOR", "EQL", "NEQ", "LSS", "LEQ", "GTR", "GEQ",
	"MAT", "NMAT", "NOT", "LPAREN", "RPAREN", "LBRACK", "RBRACK", "COMMA", "PERIOD", "i:a", "n:1", "f:1.5", "s:0", "BOT"}

// corrupt applies one random token-level edit (the malformed stream)
func corrupt(r *common.Rng, ws []string) []string {
	out := append([]string{}, ws...)
	if len(out) == 0 {
		return []string{common.Pick(r, allTokWords)}
	}
	i := r.Intn(len(out))
	switch r.Intn(4) {
	case 0:
		out = append(out[:i], out[i+1:]...)
	case 1:
		out = append(out[:i], append([]string{common.Pick(r, allTokWords)}, out[i:]...)...)
	case 2:
		out[i] = common.Pick(r, allTokWords)
	default:
		j := r.Intn(len(out))
		out[i], out[j] = out[j], out[i]
	}
	return out
}

func soupText(ws []string) string {
	parts := make([]string, len(ws))
	for i, w := range ws {
		parts[i] = atomText(w)
	}
	return strings.Join(parts, " ")
}

// ---- cases ---------------------------------------------------------------------

func runPR(t *tree) string {
	e1 := t.ast()
	m1, r1, mu1, _ := formatExpr(e1, false)
	e2 := t.ast()
	m2, r2, mu2, _ := formatExpr(e2, true)
	return fmt.Sprintf("%s ; %s ; %s ; %s ; %s ; %s", m1, r1, flag(mu1), m2, r2, flag(mu2))
}

func flag(b bool) string {
	if b {
		return "1"
	}
	return "0"
}

// runPA: the real parser on a token soup, then both formatters on the parsed
// (positioned) tree, their idempotence and what the output parses to.
func runPA(ws []string) string {
	src := []byte(soupText(ws))
	x, err := parser.ParseExpr("x", src)
	if err != nil {
		return "ERR ; - ; - ; - ; - ; - ; -"
	}
	res := dump(x).String()
	for _, v2 := range []bool{false, true} {
		// parse afresh: the formatter may mutate the AST
		y, _ := parser.ParseExpr("x", src)
		mk, rr, _, text := formatExpr(y, v2)
		idem := "0"
		if z, err := parser.ParseExpr("x", []byte(text)); err == nil {
			setV2(v2)
			if b2, err := format.Node(z); err == nil && string(b2) == text {
				idem = "1"
			}
		} else {
			idem = "E"
		}
		res += " ; " + mk + " ; " + rr + " ; " + idem
	}
	return res
}

// character codes of the model alphabet -> bytes
func codesText(cs []int) []byte {
	var b []byte
	for _, c := range cs {
		if c >= 256 {
			b = append(b, []byte(`"s`+strconv.Itoa(c-256)+`"`)...)
		} else {
			b = append(b, byte(c))
		}
	}
	return b
}

func runSC(cs []int) string {
	toks, multi, err := scanText(codesText(cs))
	if err != nil || multi {
		return "ERR"
	}
	ws := make([]string, len(toks))
	for i, t := range toks {
		if strings.HasPrefix(t.word, "X:") {
			return "ERR"
		}
		ws[i] = t.word
	}
	return strings.Join(ws, " ")
}

var scPieces = []string{"a", "b1", "_", "__", "_x", "#D", "#", "$v", "x$", "_#h", "0", "1", "42", "007", "1.5", "0.5", ".5", "1.", "10.25",
	"+", "-", "*", "/", "&", "|", "&&", "||", "==", "!=", "<", "<=", ">", ">=", "=~", "!~", "!", "<-", "=", "~",
	"(", ")", "[", "]", ",", ".", ":", "?", "...", "..", "_|_", "1e3", "1K", "0x1F", "1_000", "a.b", "1.a", "e", "K"}

func genSC(r *common.Rng) []int {
	n := 1 + r.Intn(7)
	var cs []int
	for i := 0; i < n; i++ {
		if i > 0 && r.Chance(2, 5) {
			cs = append(cs, 32)
			if r.Chance(1, 6) {
				cs = append(cs, 32)
			}
		}
		if r.Chance(1, 12) {
			cs = append(cs, 256+r.Intn(5))
			continue
		}
		if r.Chance(1, 40) {
			cs = append(cs, []int{34, 39, 123, 125, 64, 59, 37, 94, 10, 9, 200}[r.Intn(11)])
			continue
		}
		for _, c := range []byte(common.Pick(r, scPieces)) {
			cs = append(cs, int(c))
		}
	}
	return cs
}

func main() {
	args := common.Args(os.Args[1:])
	seed := uint64(common.Atoi(args["--seed"], 1))
	outDir := args["--out"]
	if outDir == "" {
		outDir = "."
	}
	cueexperiment.Init()
	out := common.NewOut(outDir)
	defer out.Close()

	handle := func(line string) {
		ws := strings.Fields(line)
		if len(ws) == 0 {
			return
		}
		switch ws[0] {
		case "PR":
			t, _ := parseTree(ws[1:])
			out.Emit(line, runPR(t))
		case "PA":
			out.Emit(line, runPA(ws[1:]))
		case "SC":
			cs := make([]int, len(ws)-1)
			for i, w := range ws[1:] {
				cs[i], _ = strconv.Atoi(w)
			}
			out.Emit(line, runSC(cs))
		}
	}

	if f := args["--replay-cases"]; f != "" {
		data, err := os.ReadFile(f)
		if err != nil {
			panic(err)
		}
		for _, line := range strings.Split(string(data), "\n") {
			handle(line)
		}
		return
	}

	// fixed corpus first
	if f := args["--corpus"]; f != "" {
		if data, err := os.ReadFile(f); err == nil {
			for _, line := range strings.Split(string(data), "\n") {
				if !strings.HasPrefix(line, "#") {
					handle(line)
				}
			}
		}
	}

	npr := common.Atoi(args["--npr"], 1000)
	npa := common.Atoi(args["--npa"], 1000)
	nsc := common.Atoi(args["--nsc"], 1000)
	r := common.NewRng(seed)
	for i := 0; i < npr; i++ {
		parens := 0
		if i%4 == 3 {
			parens = 3
		}
		t := genTree(r, 1+r.Intn(4), parens)
		handle("PR " + t.String())
	}
	for i := 0; i < npa; i++ {
		t := genTree(r, 1+r.Intn(4), 0)
		var ws []string
		soup(r, t, 0, r.Intn(6), &ws)
		if i%5 == 4 {
			ws = corrupt(r, ws)
			if r.Chance(1, 3) {
				ws = corrupt(r, ws)
			}
		}
		handle("PA " + strings.Join(ws, " "))
	}
	for i := 0; i < nsc; i++ {
		cs := genSC(r)
		ws := make([]string, len(cs))
		for j, c := range cs {
			ws[j] = strconv.Itoa(c)
		}
		handle("SC " + strings.Join(ws, " "))
	}
}
