// Known findings of the pinned tree: each class is recognised by its mechanism
// (how it died + message + the cue frames on the stack + the shape of the
// input), never wider.  See design/C02-explore-notes.md.
//
// F-C02-1 (nondeterministic order of "unreferenced alias or let clause" errors) is fixed in /repo
// (ff805e5) and no longer recognised: it would be reported as a violation.
// F-C02-4 (panic 'not a string label' in compile.resolve on a malformed import path) likewise: fixed,
// the witness corpus/C02/F-C02-4-*.cue is an ordinary regression input.
package main

import (
	"bytes"
	"regexp"
	"strings"
)

var anyFrameRe = regexp.MustCompile(`(?m)^  \S+@`)

type knownClass struct {
	ID       string `json:"id"`
	What     string `json:"what"`
	How      []string `json:"how"`       // crash `how` (any of)
	DetailRe []string `json:"detail_re"` // ALL must match the crash detail
	Input    string   `json:"input"`     // description of the input predicate
	detail   []*regexp.Regexp
	input    func(src []byte) bool
}

var knownClasses = []*knownClass{
	{
		ID: "F-C02-2",
		What: "nesting that does not pass parser.parseUnaryExpr (field chains `a: a: a: ... 1`, comprehension bodies `if c {if c {...`) " +
			"is not bounded by maxNestLevel; astutil.Resolve, called from parser.ParseFile, recurses once per level: " +
			"about 300000 levels (a 0.9 MB file) end in `fatal error: stack overflow` (goroutine stack exceeds the 1 GB limit)",
		How:      []string{"fatal"},
		DetailRe: []string{`goroutine stack exceeds 1000000000-byte limit`, `fatal error: stack overflow`, `(?m)^  cue/ast/astutil\.\(\*scope\)\.Before@astutil/resolve\.go`},
		Input:    ">= 100000 directly nested field labels (`l: l: l: ...`) or >= 100000 occurrences of `if true {`",
		input:    func(src []byte) bool { return labelChain(src) >= 100000 || bytes.Count(src, []byte("if true {")) >= 100000 },
	},
	{
		ID: "F-C02-3",
		What: "a bound (<=3, >0, ...) unified with a struct whose only content is a comprehension that yields nothing " +
			"(`b: <=3, b: {if false {x: 1}}`): nodeContext.validateValue checks the bound against the vertex itself, BinOp -> " +
			"validateValue -> Vertex.Finalize re-enters unify of the vertex under evaluation -> unbounded recursion, fatal stack overflow",
		How: []string{"fatal", "timeout"},
		DetailRe: []string{`(?m)^  internal/core/adt\.\(\*BoundValue\)\.validate@adt/expr\.go`, `(?m)^  internal/core/adt\.BinOp@adt/binop\.go`,
			`(?m)^  internal/core/adt\.validateValue@adt/validate\.go`, `(?m)^  internal/core/adt\.\(\*Vertex\)\.Finalize@adt/composite\.go`,
			`(?m)^  internal/core/adt\.\(\*nodeContext\)\.validateValue@adt/eval\.go`, `stack overflow|SIGQUIT`},
		Input: "any (recognised by the recursion cycle on the stack)",
	},
	{
		ID: "F-C02-5",
		What: "a self reference inside list.Sort/SortStable nested in another builtin call " +
			"(`h: list.FlattenN([list.Sort(h, list.Ascending), 1], 0)`): the builtin evaluates its argument eagerly, the " +
			"comparator unification finalizes it, which evaluates the call again -> unbounded recursion, fatal stack overflow",
		How: []string{"fatal", "timeout"},
		DetailRe: []string{`(?m)^  pkg/list\.\(\*valueSorter\)\.lessNew@list/sort\.go`, `(?m)^  internal/core/adt\.\(\*CallExpr\)\.evaluate@adt/expr\.go`,
			`(?m)^  internal/core/adt\.\(\*Builtin\)\.call@adt/expr\.go`, `stack overflow|SIGQUIT`},
		Input: "mentions list.Sort, list.SortStable or list.SortStrings",
		input: func(src []byte) bool { return bytes.Contains(src, []byte("list.Sort")) },
	},
	{
		ID: "F-C02-6",
		What: "list.Range has no bound on the number of elements it produces (strings.Repeat and list.Repeat do fail fast): " +
			"`list.Range(0, 10000000000, 1)` or a tiny step runs until the CPU limit / memory cap. Reached by the `bignum` mutation of " +
			"corpus files that call list.Range; the hand-written big inputs of this class are excluded (B-2)",
		How:      []string{"timeout", "memcap"},
		DetailRe: []string{`(?m)^  pkg/list\.Range@list/`},
		Input:    "mentions list.Range",
		input:    func(src []byte) bool { return bytes.Contains(src, []byte("list.Range")) },
	},
	{
		ID: "F-C02-7",
		What: "rendering the text of an evaluation error whose message arguments contain the erroneous value itself " +
			"(`f: {e: strings.ToUpper(and([_, f]))}`): debug.(*printer).shortError (debug.go:266) -> errors.StringWithConfig -> " +
			"writeErr -> fmt -> debug formatter.String (debug.go:153) -> printer.node -> compactNode (compact.go:110/176) -> shortError ...: " +
			"unbounded recursion in err.Error(), fatal stack overflow",
		How: []string{"fatal", "timeout"},
		DetailRe: []string{`(?m)^  internal/core/debug\.\(\*printer\)\.shortError@debug/debug\.go`, `(?m)^  internal/core/debug\.\(\*printer\)\.compactNode@debug/compact\.go`,
			`(?m)^  cue/errors\.writeErr@errors/errors\.go`, `(?m)^  internal/core/debug\.\(?\*?formatter\)?\.String@debug/debug\.go`, `stack overflow|SIGQUIT`},
		Input: "any (recognised by the recursion cycle on the stack)",
	},
	{
		ID: "F-C02-8",
		What: "a declaration-level comprehension whose source is the enclosing closed struct, itself guarded by a self-referential " +
			"`if c != _|_` (`c: close({if c != _|_ {w: {for v in c {x: 1}}}})` + `for v in c {}`): while Value.Fields(cue.All()) " +
			"finalizes the arcs, processComprehension -> scheduleConjunct -> scheduleStruct calls Vertex.AddStruct (composite.go) on a nil " +
			"vertex: nil pointer dereference, re-panicked by runTask, escapes the API",
		How: []string{"panic"},
		DetailRe: []string{`^PANIC \S+ (\[[^\]]*\] )?runtime error: invalid memory address or nil pointer dereference \|\| `,
			`panic@runtime/panic\.go:\d+ < cuelang\.org/go/internal/core/adt\.\(\*Vertex\)\.AddStruct@adt/composite\.go:\d+ < cuelang\.org/go/internal/core/adt\.\(\*nodeContext\)\.scheduleStruct@adt/conjunct\.go`,
			`adt\.\(\*nodeContext\)\.processComprehension@adt/comprehension\.go`},
		Input: "any (recognised by the panic site and its callers)",
	},
	{
		ID: "F-C02-9",
		What: "an embedded list produced by a comprehension next to a comprehension guarded by an erroneous self-referential field " +
			"(`g: {if a != _|_ {c: _, if c {}}, for v in {r: []} {v}}` + `a: (\"\" & \"\\(a)\") + \"\"`): " +
			"processListLit (tasks.go) dereferences a nil pointer when the scheduler signals the task; the panic is re-panicked by runTask " +
			"and escapes BuildFile/Validate (cue eval itself crashes with SIGSEGV)",
		How: []string{"panic"},
		DetailRe: []string{`^PANIC \S+ (\[[^\]]*\] )?runtime error: invalid memory address or nil pointer dereference \|\| `,
			`panic@runtime/panic\.go:\d+ < cuelang\.org/go/internal/core/adt\.processListLit@adt/tasks\.go:\d+ < cuelang\.org/go/internal/core/adt\.runTask@adt/sched\.go`},
		Input: "any (recognised by the panic site and its caller)",
	},
}

func init() {
	for _, k := range knownClasses {
		for _, re := range k.DetailRe {
			k.detail = append(k.detail, regexp.MustCompile(re))
		}
	}
}

// labelChain: the longest run of `ident:` tokens directly following each other.
func labelChain(src []byte) int {
	best, cur := 0, 0
	i := 0
	isIdent := func(c byte) bool {
		return c == '_' || c == '#' || c == '$' || (c >= 'a' && c <= 'z') || (c >= 'A' && c <= 'Z') || (c >= '0' && c <= '9')
	}
	for i < len(src) {
		for i < len(src) && (src[i] == ' ' || src[i] == '\t') {
			i++
		}
		j := i
		for j < len(src) && isIdent(src[j]) {
			j++
		}
		if j > i && j < len(src) && src[j] == ':' {
			cur++
			if cur > best {
				best = cur
			}
			i = j + 1
			continue
		}
		cur = 0
		if j == i {
			i++
		} else {
			i = j
		}
	}
	return best
}

func matchKnown(how, detail string, src []byte) string {
	for _, k := range knownClasses {
		ok := false
		for _, h := range k.How {
			ok = ok || h == how
		}
		// A SIGQUIT dump taken while the main goroutine runs on another thread or on the system stack has
		// no cue frames (the parent retries, see runBatch; this is what remains): for a TIMEOUT of a class that
		// also has an input predicate, the predicate alone then decides (otherwise the same known
		// input is classified or not depending on where the signal happens to land).
		noStack := how == "timeout" && k.input != nil && strings.Contains(detail, "top frames:") && !hasCueFrames(detail)
		for _, re := range k.detail {
			ok = ok && (noStack || re.MatchString(detail))
		}
		if !ok {
			continue
		}
		if k.input != nil && !k.input(src) {
			continue
		}
		return k.ID
	}
	return ""
}

func classifyCrash(c *Crash, src []byte) string { return matchKnown(c.How, c.Detail, src) }

func classifyNondet(n *Nondet, src []byte) string { return "" }
