// Known findings of the pinned tree: each class is recognised by its mechanism
// (how + message + top cue frame), never wider.  See design/C02-explore-notes.md.
package main

import "regexp"

type knownClass struct {
	ID        string `json:"id"`
	What      string `json:"what"`
	How       string `json:"how"`       // crash `how`, or "nondet"
	DetailRe  string `json:"detail_re"` // must match the crash detail / diff summary
	InputRe   string `json:"input_re"`  // must match the input text ("" = any)
	detail    *regexp.Regexp
	input     *regexp.Regexp
}

var knownClasses = []*knownClass{}

func init() {
	for _, k := range knownClasses {
		k.detail = regexp.MustCompile(k.DetailRe)
		if k.InputRe != "" {
			k.input = regexp.MustCompile(k.InputRe)
		}
	}
}

func matchKnown(how, detail string, src []byte) string {
	for _, k := range knownClasses {
		if k.How != how {
			continue
		}
		if !k.detail.MatchString(detail) {
			continue
		}
		if k.input != nil && !k.input.Match(src) {
			continue
		}
		return k.ID
	}
	return ""
}

func classifyCrash(c *Crash, src []byte) string { return matchKnown(c.How, c.Detail, src) }

func classifyNondet(n *Nondet, src []byte) string { return matchKnown("nondet", n.Diff, src) }
