// Known findings of the pinned tree: each class is recognised by its mechanism
// (how it died + message + the cue frames on the stack + the shape of the
// input), never wider.  See design/C02-explore-notes.md.
//
// F-C02-1 (nondeterministic order of "unreferenced alias or let clause" errors)
// is recognised on the transcripts themselves: worker.go normalize().
package main

import (
	"bytes"
	"regexp"
)

type knownClass struct {
	ID       string `json:"id"`
	What     string `json:"what"`
	How      string `json:"how"`       // crash `how`
	DetailRe string `json:"detail_re"` // must match the crash detail
	Input    string `json:"input"`     // description of the input predicate
	detail   *regexp.Regexp
	input    func(src []byte) bool
}

var knownClasses = []*knownClass{
	{
		ID: "F-C02-1",
		What: "internal/core/compile popScope ranges over the alias map: the order of 'unreferenced alias or let clause' errors " +
			"(err.Error(), errors.Errors(err), the error quoted by exporters) differs between runs of the same input",
		How:      "nondet",
		DetailRe: `^transcripts differ only in the order of 'unreferenced alias or let clause' errors`,
		Input:    "any (recognised on the transcripts: equal after worker.go normalize())",
	},
	{
		ID: "F-C02-2",
		What: "nesting that does not pass parser.parseUnaryExpr (field chains `a: a: a: ... 1`, comprehension bodies `if c {if c {...`) " +
			"is not bounded by maxNestLevel; astutil.Resolve, called from parser.ParseFile, recurses once per level: " +
			"about 300000 levels (a 0.9 MB file) end in `fatal error: stack overflow` (goroutine stack exceeds the 1 GB limit)",
		How:      "fatal",
		DetailRe: `(?s)goroutine stack exceeds 1000000000-byte limit.*fatal error: stack overflow.*cue/ast/astutil\.\(\*scope\)\.Before`,
		Input:    ">= 100000 directly nested field labels (`l: l: l: ...`) or >= 100000 occurrences of `if true {`",
		input:    func(src []byte) bool { return labelChain(src) >= 100000 || bytes.Count(src, []byte("if true {")) >= 100000 },
	},
}

func init() {
	for _, k := range knownClasses {
		k.detail = regexp.MustCompile(k.DetailRe)
	}
}

// labelChain: the longest run of `ident:` tokens directly following each other.
func labelChain(src []byte) int {
	best, cur := 0, 0
	i := 0
	isIdent := func(c byte) bool {
		return c == '_' || c == '#' || c == '$' || (c >= 'a' && c <= 'z') || (c >= 'A' && c <= 'Z') || (c >= '0' && c <= '9')
	}
	for i < len(src) {
		for i < len(src) && (src[i] == ' ' || src[i] == '\t') {
			i++
		}
		j := i
		for j < len(src) && isIdent(src[j]) {
			j++
		}
		if j > i && j < len(src) && src[j] == ':' {
			cur++
			if cur > best {
				best = cur
			}
			i = j + 1
			continue
		}
		cur = 0
		if j == i {
			i++
		} else {
			i = j
		}
	}
	return best
}

func matchKnown(how, detail string, src []byte) string {
	for _, k := range knownClasses {
		if k.How != how {
			continue
		}
		if !k.detail.MatchString(detail) {
			continue
		}
		if k.input != nil && !k.input(src) {
			continue
		}
		return k.ID
	}
	return ""
}

func classifyCrash(c *Crash, src []byte) string { return matchKnown(c.How, c.Detail, src) }

func classifyNondet(n *Nondet, src []byte) string { return "" }
