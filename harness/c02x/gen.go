// Generated programs beyond CoreCUE: references, lists, comprehensions, let,
// disjunctions with defaults, reference and structural cycles, builtin calls,
// deep nesting and very long tokens.  Everything is text; validity is "mostly":
// the status distribution is printed into the report.
package main

import (
	"fmt"
	"strings"

	"cuelang.org/go/internal/verifharness/common"
)

// ---- a scope-aware random program generator -------------------------------

type rich struct {
	r      *common.Rng
	scopes [][]string // visible field names, innermost last
	lets   int
	pkgs   map[string]bool
	budget int // remaining nodes; keeps programs small
	feat   richFeat
}

type richFeat struct {
	refs, lists, compr, lets, disj, builtins, dyn bool
}

var richNames = []string{"a", "b", "c", "d", "e", "f", "g", "#A", "#B", "_h"}

func (g *rich) push() { g.scopes = append(g.scopes, nil) }
func (g *rich) pop()  { g.scopes = g.scopes[:len(g.scopes)-1] }
func (g *rich) declare(n string) {
	g.scopes[len(g.scopes)-1] = append(g.scopes[len(g.scopes)-1], n)
}
func (g *rich) visible() []string {
	var vs []string
	for _, s := range g.scopes {
		vs = append(vs, s...)
	}
	return vs
}

func (g *rich) ref() string {
	vs := g.visible()
	if len(vs) == 0 || !g.feat.refs {
		return g.lit()
	}
	n := common.Pick(g.r, vs)
	switch g.r.Intn(10) {
	case 0:
		return n + "." + common.Pick(g.r, richNames[:5])
	case 1:
		return n + "[0]"
	case 2:
		return n + `["a"]`
	}
	return n
}

func (g *rich) lit() string {
	switch g.r.Intn(16) {
	case 0, 1, 2, 3, 4:
		return fmt.Sprint(g.r.Intn(12) - 2)
	case 5:
		return common.Pick(g.r, []string{"1.5", "0.1", "1e3", "2.0", "1_000", "0x1F", "0b101", "0o17", "1K", "2Mi", "1e-3", "123456789012345678901234567890"})
	case 6, 7:
		return common.Pick(g.r, []string{`"x"`, `"y"`, `"ab"`, `""`, `"a b"`, `"\u00e9"`, `"\n"`, `#"a\b"#`, `'bytes'`, `'\x00\xff'`, "\"\"\"\n\tmulti\n\tline\n\t\"\"\""})
	case 8:
		return common.Pick(g.r, []string{"true", "false"})
	case 9:
		return "null"
	case 10:
		return common.Pick(g.r, []string{"int", "string", "number", "float", "bool", "bytes", "_", "uint8", "int32", "{...}", "[...]"})
	case 11:
		return common.Pick(g.r, []string{">=0", "<10", ">1 & <5", "!=3", `=~"^a"`, `!~"b$"`, `!="x"`, ">=0.5", `<"m"`, "<=100"})
	case 12:
		return "_|_"
	case 13:
		if g.feat.refs && len(g.visible()) > 0 {
			return `"p\(` + common.Pick(g.r, g.visible()) + `)s"`
		}
		return `"lit"`
	}
	return fmt.Sprint(g.r.Intn(4))
}

var binOps = []string{"+", "-", "*", "/", "&", "&", "|", "==", "!=", "<", "<=", ">", ">=", "&&", "||", "=~", "!~", "div", "mod", "quo", "rem"}

func (g *rich) expr(d int) string {
	g.budget--
	if d <= 0 || g.budget <= 0 {
		if g.r.Chance(1, 2) {
			return g.ref()
		}
		return g.lit()
	}
	switch k := g.r.Intn(24); {
	case k < 5:
		return g.lit()
	case k < 9:
		return g.ref()
	case k < 12:
		op := common.Pick(g.r, binOps)
		a, b := g.expr(d-1), g.expr(d-1)
		switch op {
		case "div", "mod", "quo", "rem":
			return fmt.Sprintf("%s(%s, %s)", op, a, b)
		}
		return fmt.Sprintf("(%s %s %s)", a, op, b)
	case k < 13:
		return common.Pick(g.r, []string{"-", "+", "!", "-"}) + "(" + g.expr(d-1) + ")"
	case k < 16:
		return g.structLit(d - 1)
	case k < 18 && g.feat.lists:
		return g.listLit(d - 1)
	case k < 20 && g.feat.disj:
		n := 2 + g.r.Intn(2)
		var alts []string
		for i := 0; i < n; i++ {
			a := g.expr(d - 1)
			if strings.ContainsAny(a, "|") {
				a = "(" + a + ")"
			}
			if g.r.Chance(1, 3) {
				a = "*" + a
			}
			alts = append(alts, a)
		}
		return "(" + strings.Join(alts, " | ") + ")"
	case k < 22 && g.feat.builtins:
		return g.call(d - 1)
	case k < 23:
		switch g.r.Intn(4) {
		case 0:
			return "len(" + g.expr(d-1) + ")"
		case 1:
			return "close(" + g.structLit(d-1) + ")"
		case 2:
			return "and([" + g.expr(d-1) + ", " + g.expr(d-1) + "])"
		default:
			return "or([" + g.expr(d-1) + ", " + g.expr(d-1) + "])"
		}
	}
	return g.ref()
}

func (g *rich) listLit(d int) string {
	switch g.r.Intn(6) {
	case 0:
		return "[..." + g.expr(d) + "]"
	case 1:
		if g.feat.compr {
			src := g.ref()
			if g.r.Chance(1, 2) {
				src = "[1, 2, 3]"
			}
			cond := ""
			if g.r.Chance(1, 2) {
				cond = " if x > " + fmt.Sprint(g.r.Intn(3))
			}
			g.push()
			g.declare("x")
			body := g.expr(d)
			g.pop()
			return "[for x in " + src + cond + " {" + body + "}]"
		}
	case 2:
		return "[" + g.expr(d) + ", ..." + g.lit() + "]"
	}
	n := g.r.Intn(4)
	var es []string
	for i := 0; i < n; i++ {
		es = append(es, g.expr(d))
	}
	return "[" + strings.Join(es, ", ") + "]"
}

func (g *rich) structLit(d int) string {
	g.push()
	defer g.pop()
	return "{" + strings.Join(g.decls(d, 1+g.r.Intn(4)), ", ") + "}"
}

func (g *rich) decls(d, n int) []string {
	var ds []string
	// names first, so that forward references are possible
	names := make([]string, n)
	for i := range names {
		names[i] = common.Pick(g.r, richNames)
		g.declare(names[i])
	}
	for i := 0; i < n; i++ {
		g.budget--
		switch k := g.r.Intn(30); {
		case k < 17:
			suf := ""
			if g.r.Chance(1, 8) {
				suf = common.Pick(g.r, []string{"?", "!"})
			}
			ds = append(ds, names[i]+suf+": "+g.expr(d))
		case k < 18:
			ds = append(ds, fmt.Sprintf("%q: %s", strings.TrimLeft(names[i], "#_"), g.expr(d)))
		case k < 19 && g.feat.dyn:
			ds = append(ds, "("+g.ref()+"): "+g.expr(d))
		case k < 20 && g.feat.dyn:
			ds = append(ds, `"k\(`+g.ref()+`)": `+g.expr(d))
		case k < 21:
			ds = append(ds, "["+common.Pick(g.r, []string{"string", `=~"^a"`, `!="c"`, "_"})+"]: "+g.expr(d))
		case k < 22:
			ds = append(ds, "...")
		case k < 23:
			ds = append(ds, g.expr(d)) // embedding
		case k < 25 && g.feat.lets:
			g.lets++
			nm := fmt.Sprintf("L%d", g.lets)
			e := g.expr(d)
			g.declare(nm)
			ds = append(ds, "let "+nm+" = "+e)
		case k < 27 && g.feat.compr:
			src := g.ref()
			g.push()
			g.declare("k")
			g.declare("v")
			body := strings.Join(g.decls(d-1, 1+g.r.Intn(2)), ", ")
			if g.r.Chance(1, 2) {
				body = `"\(k)": v` + ", " + body
			}
			g.pop()
			ds = append(ds, "for k, v in "+src+" {"+body+"}")
		case k < 29 && g.feat.compr:
			cond := g.expr(1)
			if g.r.Chance(1, 2) {
				cond = g.ref() + " != _|_"
			}
			g.push()
			body := strings.Join(g.decls(d-1, 1+g.r.Intn(2)), ", ")
			g.pop()
			ds = append(ds, "if "+cond+" {"+body+"}")
		default:
			ds = append(ds, names[i]+": "+g.expr(d)+" @attr(x,y=1)")
		}
	}
	return ds
}

func (g *rich) file(depth, ndecl int) string {
	g.scopes = nil
	g.pkgs = map[string]bool{}
	g.lets = 0
	g.push()
	ds := g.decls(depth, ndecl)
	g.pop()
	var b strings.Builder
	if g.r.Chance(1, 6) {
		b.WriteString("// a doc comment\npackage p\n\n")
	}
	for _, p := range []string{"strings", "list", "math", "regexp", "struct", "encoding/json", "encoding/yaml", "strconv", "math/bits"} {
		if g.pkgs[p] {
			fmt.Fprintf(&b, "import %q\n", p)
		}
	}
	for _, d := range ds {
		if g.r.Chance(1, 10) {
			b.WriteString("// doc\n")
		}
		b.WriteString(d + "\n")
	}
	return b.String()
}

// ---- builtin calls ---------------------------------------------------------

func (g *rich) str(d int) string {
	if g.r.Chance(1, 3) {
		return g.expr(d)
	}
	return common.Pick(g.r, []string{`"abc"`, `"a,b,c"`, `""`, `"Hello World"`, `"aaaaaaaaaaaaaaaaaaaaaaaa"`, `" x "`, `"\u00e9\u4e16"`, `"a\nb"`})
}
func (g *rich) num(d int) string {
	if g.r.Chance(1, 3) {
		return g.expr(d)
	}
	return common.Pick(g.r, []string{"0", "1", "2", "3", "-1", "10", "100", "2.5", "0.5", "-3", "7"})
}
func (g *rich) lst(d int) string {
	if g.r.Chance(1, 3) {
		return g.expr(d)
	}
	return common.Pick(g.r, []string{"[1, 2, 3]", "[]", `["b", "a", "c"]`, "[3, 1, 2, 1]", "[[1], [2, [3]]]", "[1.5, 2]", `[{a: 1}, {a: 2}]`})
}

var patPool = []string{`"^a"`, `"(a*)*b"`, `"(a|aa)+$"`, `"[a-z]+"`, `"(?i)HELLO"`, `"a{2,3}"`, `"("`, `"\\d+"`, `"(?P<n>a)(b)?"`, `"(x+x+)+y"`, `"a{1000}"`, `"(a{100}){100}"`, `"[[:alpha:]]*"`, `"\\pL+"`, `".*.*.*.*.*=.*"`}

var jsonPool = []string{`{}`, `[]`, `{"a": 1, "b": [1, 2, {"c": null}]}`, `[1, "x", true, null, 1.5e3]`, `{"a": {"a": {"a": 1}}}`, `"str"`, `1`, `{"a": 1, "a": 2}`, `{"a":}`, `[1,`, `{"\u00e9": "\ud83d\ude00"}`, `{"a": 1e999}`, `-0`, `{"": 0}`}

var yamlPool = []string{"a: 1\nb: [1, 2]\n", "- 1\n- x\n- {a: b}\n", "a: &x 1\nb: *x\n", "a:\n  b:\n    c: d\n", "a: |\n  text\n  more\n", "? k\n: v\n", "a: !!str 1\n", "---\na: 1\n---\nb: 2\n", "a: [", "a: *nope\n", "&a [*a]\n", "a: 0o17\nb: 0x1f\nc: .inf\nd: ~\ne: 2001-01-01\n", "{a: 1, a: 2}\n", "\"k\": 'v'\n"}

func (g *rich) call(d int) string {
	use := func(p string) { g.pkgs[p] = true }
	q := func(s string) string { return fmt.Sprintf("%q", s) }
	switch g.r.Intn(9) {
	case 0, 1:
		use("strings")
		switch g.r.Intn(12) {
		case 0:
			return "strings.Repeat(" + g.str(d) + ", " + fmt.Sprint(g.r.Intn(6)) + ")"
		case 1:
			return "strings.Join(" + g.lst(d) + `, ",")`
		case 2:
			return "strings.Split(" + g.str(d) + `, ",")`
		case 3:
			return "strings.ToUpper(" + g.str(d) + ")"
		case 4:
			return "strings.Contains(" + g.str(d) + ", " + g.str(d) + ")"
		case 5:
			return "strings.Replace(" + g.str(d) + `, "a", "bb", ` + g.num(d) + ")"
		case 6:
			return "strings.Fields(" + g.str(d) + ")"
		case 7:
			return "strings.SliceRunes(" + g.str(d) + ", " + g.num(d) + ", " + g.num(d) + ")"
		case 8:
			return "strings.MinRunes(" + g.num(d) + ")"
		case 9:
			return "strings.ByteAt(" + g.str(d) + ", " + g.num(d) + ")"
		case 10:
			return "strings.ByteSlice(" + g.str(d) + ", " + g.num(d) + ", " + g.num(d) + ")"
		default:
			return "strings.Index(" + g.str(d) + ", " + g.str(d) + ")"
		}
	case 2, 3:
		use("list")
		switch g.r.Intn(14) {
		case 0:
			return "list.Repeat(" + g.lst(d) + ", " + fmt.Sprint(g.r.Intn(5)) + ")"
		case 1:
			return fmt.Sprintf("list.Range(%d, %d, %d)", g.r.Intn(4), g.r.Intn(12), g.r.Intn(4)-1)
		case 2:
			return "list.Sort(" + g.lst(d) + ", list.Ascending)"
		case 3:
			return "list.SortStrings(" + g.lst(d) + ")"
		case 4:
			return "list.Concat([" + g.lst(d) + ", " + g.lst(d) + "])"
		case 5:
			return "list.FlattenN(" + g.lst(d) + ", " + g.num(d) + ")"
		case 6:
			return "list.Sum(" + g.lst(d) + ")"
		case 7:
			return "list.Max(" + g.lst(d) + ")"
		case 8:
			return "list.Slice(" + g.lst(d) + ", " + g.num(d) + ", " + g.num(d) + ")"
		case 9:
			return "list.Take(" + g.lst(d) + ", " + g.num(d) + ")"
		case 10:
			return "list.Contains(" + g.lst(d) + ", " + g.expr(d) + ")"
		case 11:
			return "list.UniqueItems()"
		case 12:
			return "list.Sort(" + g.lst(d) + ", {x: _, y: _, less: x.a < y.a})"
		default:
			return "list.MinItems(" + g.num(d) + ")"
		}
	case 4:
		use("math")
		switch g.r.Intn(10) {
		case 0:
			return "math.Pow(" + g.num(d) + ", " + g.num(d) + ")"
		case 1:
			return "math.Sqrt(" + g.num(d) + ")"
		case 2:
			return "math.Floor(" + g.num(d) + ")"
		case 3:
			return "math.Log(" + g.num(d) + ")"
		case 4:
			return "math.Exp(" + g.num(d) + ")"
		case 5:
			return "math.MultipleOf(" + g.num(d) + ", " + g.num(d) + ")"
		case 6:
			return "math.Abs(" + g.num(d) + ")"
		case 7:
			return "math.Jacobi(" + g.num(d) + ", " + g.num(d) + ")"
		case 8:
			return "math.Round(" + g.num(d) + ")"
		default:
			return "math.Cbrt(" + g.num(d) + ")"
		}
	case 5:
		use("regexp")
		pat := common.Pick(g.r, patPool)
		switch g.r.Intn(6) {
		case 0:
			return "regexp.Match(" + pat + ", " + g.str(d) + ")"
		case 1:
			return "regexp.Find(" + pat + ", " + g.str(d) + ")"
		case 2:
			return "regexp.FindAll(" + pat + ", " + g.str(d) + ", " + g.num(d) + ")"
		case 3:
			return "regexp.FindSubmatch(" + pat + ", " + g.str(d) + ")"
		case 4:
			return "regexp.ReplaceAll(" + pat + ", " + g.str(d) + `, "$1-")`
		default:
			return "regexp.FindNamedSubmatch(" + pat + ", " + g.str(d) + ")"
		}
	case 6:
		use("struct")
		if g.r.Chance(1, 2) {
			return "(struct.MinFields(" + g.num(d) + ") & " + g.structLit(d) + ")"
		}
		return "(struct.MaxFields(" + g.num(d) + ") & " + g.structLit(d) + ")"
	case 7:
		use("encoding/json")
		txt := common.Pick(g.r, jsonPool)
		if g.r.Chance(1, 4) {
			txt = genJSONText(g.r, 3)
		}
		switch g.r.Intn(5) {
		case 0, 1:
			return "json.Unmarshal(" + q(txt) + ")"
		case 2:
			return "json.Marshal(" + g.expr(d) + ")"
		case 3:
			return "json.Validate(" + q(txt) + ", " + g.expr(d) + ")"
		default:
			return "json.Indent(" + q(txt) + `, "", " ")`
		}
	default:
		use("encoding/yaml")
		txt := common.Pick(g.r, yamlPool)
		switch g.r.Intn(5) {
		case 0, 1:
			return "yaml.Unmarshal(" + q(txt) + ")"
		case 2:
			return "yaml.Marshal(" + g.expr(d) + ")"
		case 3:
			return "yaml.Validate(" + q(txt) + ", " + g.expr(d) + ")"
		default:
			return "yaml.MarshalStream(" + g.lst(d) + ")"
		}
	}
}

func genJSONText(r *common.Rng, d int) string {
	if d <= 0 {
		return common.Pick(r, []string{"1", `"s"`, "null", "true", "-2.5e2", `""`, "0"})
	}
	switch r.Intn(4) {
	case 0:
		n := r.Intn(4)
		var es []string
		for i := 0; i < n; i++ {
			es = append(es, genJSONText(r, d-1))
		}
		return "[" + strings.Join(es, ",") + "]"
	case 1, 2:
		n := r.Intn(4)
		var es []string
		for i := 0; i < n; i++ {
			es = append(es, fmt.Sprintf("%q:%s", common.Pick(r, []string{"a", "b", "c", "a b", "#d", "_e", ""}), genJSONText(r, d-1)))
		}
		return "{" + strings.Join(es, ",") + "}"
	}
	return genJSONText(r, 0)
}

// ---- templates: cycles -------------------------------------------------------

var refCycles = []string{
	"a: b\nb: a\n",
	"a: b + 1\nb: a - 1\n",
	"a: b + 1\nb: a - 1\nb: 2\n",
	"a: b\nb: c\nc: a\n",
	"a: b & {c: 1}\nb: a\n",
	"a: {x: b.y, y: 1}\nb: {x: 2, y: a.x}\n",
	"x: y\ny: x & int\nx: 5\n",
	"a: b\nb: a\na: 1 | 2\n",
	"a: *b | 1\nb: *a | 2\n",
	"a: \"\\(b)\"\nb: \"\\(a)\"\n",
	"a: [b]\nb: a[0]\n",
	"a: len(b)\nb: [a]\n",
	"a: b.c\nb: {c: a}\n",
	"a: a\n",
	"a: a + 1\n",
	"a: a & 1\n",
	"a: !a\n",
	"a: >b\nb: <a\n",
	"a: >=b\nb: <=a\na: 3\n",
	"let X = Y\nlet Y = X\na: X\n",
	"a: {for k, v in b {\"\\(k)\": v}}\nb: {for k, v in a {\"\\(k)\": v}}\n",
	"a: [for x in b {x}]\nb: [for x in a {x}]\n",
	"if a != _|_ {b: 1}\nif b != _|_ {a: 1}\n",
	"a: {if b.x != _|_ {y: 1}}\nb: {if a.y != _|_ {x: 1}}\n",
	"#A: {b: #B}\n#B: {a?: #A}\nx: #A\n",
	"a: b | 1\nb: a | 2\n",
	"a: (b & int) + 1\nb: a\n",
}

var structCycles = []string{
	"a: {b: a}\n",
	"#L: {next?: #L}\nx: #L & {next: next: {}}\n",
	"x: [x]\n",
	"#List: {v: int, next: #List | null}\nl: #List & {v: 1, next: {v: 2, next: null}}\n",
	"#List: {v: int, next: #List | *null}\nl: #List\n",
	"a: {b: c: a}\n",
	"a: b: a.b\n",
	"a: {b: a.b.c}\n",
	"#T: {l?: #T, r?: #T, v: int}\nt: #T & {v: 1, l: {v: 2}, r: {v: 3, l: v: 4}}\n",
	"a: [a, a]\n",
	"a: [...a]\n",
	"a: {[string]: a}\n",
	"a: {[string]: a}\na: x: y: z: {}\n",
	"a: {b: a} & {b: b: b: _}\n",
	"x: {y: x} | 1\n",
	"#A: {a: #A}\n",
	"#A: {a: #A} | {b: 1}\nv: #A\n",
	"a: b\nb: {c: a}\n",
	"a: {b: c}\nc: {d: a}\n",
	"p: {x: p.y, y: {z: p.x}}\n",
	"a: {for k, v in a {\"x\\(k)\": v}}\na: s: 1\n",
	"a: [for x in a {x}]\n",
	"f: {in: _, out: f & {in: 1}}\n",
	"#F: {n: int, r: {if n > 0 {(#F & {n: n - 1}).r}, if n <= 0 {0}}}\nv: (#F & {n: 3}).r\n",
	"a: close({b: a})\n",
	"a: {b?: a}\n",
	"a: {b!: a}\n",
	"a: {#b: a}\n",
	"a: {_b: a}\n",
	"x: and([x, {a: 1}])\n",
	"x: or([x, 1])\n",
	"a: {b: a.b.b}\n",
	"y: [{a: y}]\n",
	"y: {a: [y]}\n",
	"a: b: c: a\na: b: c: b: c: _\n",
}

func genCycle(r *common.Rng, pool []string) string {
	s := common.Pick(r, pool)
	// decorate: wrap in a struct, duplicate with renamed labels, add a sibling
	switch r.Intn(6) {
	case 0:
		return "w: {\n" + s + "}\n"
	case 1:
		return s + "z: " + common.Pick(r, []string{"a", "x", "1", "{q: a}", "[a]", "a & {}", "a | 1"}) + "\n"
	case 2:
		return s + common.Pick(r, pool)
	case 3:
		return "#D: {\n" + s + "}\nv: #D\n"
	}
	return s
}

// ---- deep nesting and long tokens ---------------------------------------------

func rep(s string, n int) string { return strings.Repeat(s, n) }

var deepShapes = []string{"paren", "struct", "structnl", "list", "unary", "not", "binchain", "andchain", "orchain", "selchain", "idxchain", "interp", "field-chain", "call", "listcompr", "structcompr", "cmt", "openparen", "openstruct", "openlist", "ellipsis", "disjnest", "let", "embed"}

func deepInput(shape string, n int) string {
	switch shape {
	case "paren":
		return "x: " + rep("(", n) + "1" + rep(")", n) + "\n"
	case "struct":
		return "x: " + rep("{a:", n) + "1" + rep("}", n) + "\n"
	case "structnl":
		return "x: " + rep("{\na: ", n) + "1" + rep("\n}", n) + "\n"
	case "list":
		return "x: " + rep("[", n) + "1" + rep("]", n) + "\n"
	case "unary":
		return "x: " + rep("-", n) + "1\n"
	case "not":
		return "x: " + rep("!", n) + "true\n"
	case "binchain":
		return "x: 1" + rep("+1", n) + "\n"
	case "andchain":
		return "x: int" + rep(" & int", n) + "\n"
	case "orchain":
		return "x: 0" + rep(" | 1", n) + "\n"
	case "selchain":
		return "x: a" + rep(".a", n) + "\na: " + rep("{a:", 3) + "1" + rep("}", 3) + "\n"
	case "idxchain":
		return "x: a" + rep("[0]", n) + "\na: [[[1]]]\n"
	case "interp":
		return "x: " + rep(`"\(`, n) + "1" + rep(`)"`, n) + "\n"
	case "field-chain":
		return "x: " + rep("a: ", n) + "1\n"
	case "call":
		return "x: " + rep("len(", n) + "[]" + rep(")", n) + "\n"
	case "listcompr":
		return "x: " + rep("[for v in [1] {", n) + "v" + rep("}]", n) + "\n"
	case "structcompr":
		return "x: {" + rep("if true {", n) + "a: 1" + rep("}", n) + "}\n"
	case "cmt":
		return rep("// c\n", n) + "x: 1\n"
	case "openparen":
		return "x: " + rep("(", n) + "\n"
	case "openstruct":
		return "x: " + rep("{a:", n) + "\n"
	case "openlist":
		return "x: " + rep("[", n) + "\n"
	case "ellipsis":
		return "x: " + rep("[...", n) + "int" + rep("]", n) + "\n"
	case "disjnest":
		return "x: " + rep("(1|", n) + "2" + rep(")", n) + "\n"
	case "let":
		var b strings.Builder
		b.WriteString("let L0 = 1\n")
		for i := 1; i <= n; i++ {
			fmt.Fprintf(&b, "let L%d = L%d\n", i, i-1)
		}
		fmt.Fprintf(&b, "x: L%d\n", n)
		return b.String()
	case "embed":
		return "x: " + rep("{", n) + "1" + rep("}", n) + "\n"
	}
	return ""
}

// bigInputs: small programs whose evaluation may need huge time or memory.
// name -> source.  The classes that exceeded the cap or the timeout on the
// pinned tree are listed in bigExcluded (see design/C02-explore-notes.md) and
// kept out of the default stream; `--big all` runs them anyway.
func bigInputs() [][2]string {
	mul := func(n int) string { return "x: 10" + rep("*10", n) + "\n" }
	return [][2]string{
		{"digits-100k", "x: " + rep("7", 100000) + "\n"},
		{"digits-float-100k", "x: 1." + rep("3", 100000) + "\n"},
		{"ident-100k", rep("a", 100000) + ": 1\ny: " + rep("a", 100000) + "\n"},
		{"string-1m", "x: \"" + rep("s", 1000000) + "\"\n"},
		{"exp-pos", "x: 1e999999999\n"},
		{"exp-neg", "x: 1e-999999999\n"},
		{"exp-int", "x: int & 1e999999999\n"},
		{"exp-mul", "x: 1e999999999 * 1e999999999\n"},
		{"exp-add", "x: 1e999999999 + 1\n"},
		{"exp-small-int", "x: int & 1e100000\n"},
		{"exp-cmp", "x: 1e999999999 > 1\n"},
		{"exp-div", "x: 1 / 1e-999999999\n"},
		{"exp-suffix", "x: 999999999999999999Ti\n"},
		{"mul-100", mul(100)},
		{"mul-1000", mul(1000)},
		{"mul-5000", mul(5000)},
		{"strmul-1m", "x: \"x\" * 1000000\n"},
		{"strmul-1g", "x: \"x\" * 1000000000\n"},
		{"listmul-1m", "x: [1] * 1000000\n"},
		{"repeat-1m", "import \"strings\"\nx: strings.Repeat(\"x\", 1000000)\n"},
		{"repeat-1g", "import \"strings\"\nx: strings.Repeat(\"x\", 1000000000)\n"},
		{"repeat-4g", "import \"strings\"\nx: strings.Repeat(\"xxxx\", 4000000000)\n"},
		{"repeat-neg", "import \"strings\"\nx: strings.Repeat(\"x\", -1)\n"},
		{"repeat-nest", "import \"strings\"\nx: strings.Repeat(strings.Repeat(strings.Repeat(\"x\", 1000), 1000), 1000)\n"},
		{"lrepeat-100k", "import \"list\"\nx: list.Repeat([1], 100000)\n"},
		{"lrepeat-10m", "import \"list\"\nx: list.Repeat([1], 10000000)\n"},
		{"lrepeat-1g", "import \"list\"\nx: list.Repeat([1], 1000000000)\n"},
		{"lrange-100k", "import \"list\"\nx: list.Range(0, 100000, 1)\n"},
		{"lrange-10m", "import \"list\"\nx: list.Range(0, 10000000, 1)\n"},
		{"lrange-1g", "import \"list\"\nx: list.Range(0, 1000000000, 1)\n"},
		{"lrange-tiny-step", "import \"list\"\nx: list.Range(0, 1, 0.000000001)\n"},
		{"lrange-zero-step", "import \"list\"\nx: list.Range(0, 10, 0)\n"},
		{"pow-big", "import \"math\"\nx: math.Pow(10, 1000000000)\n"},
		{"pow-tower", "import \"math\"\nx: math.Pow(math.Pow(10, 100), 1000000)\n"},
		{"exp-big", "import \"math\"\nx: math.Exp(1000000000)\n"},
		{"log-big", "import \"math\"\nx: math.Log(1e999999999)\n"},
		{"sqrt-big", "import \"math\"\nx: math.Sqrt(1e999999999)\n"},
		{"lsh-1m", "import \"math/bits\"\nx: bits.Lsh(1, 1000000)\n"},
		{"lsh-1g", "import \"math/bits\"\nx: bits.Lsh(1, 1000000000)\n"},
		{"lsh-100g", "import \"math/bits\"\nx: bits.Lsh(1, 100000000000)\n"},
		{"maxrunes", "import \"strings\"\nx: strings.MaxRunes(1000000000000) & \"a\"\n"},
		{"regex-nest", "import \"regexp\"\nx: regexp.Match(\"((a{100}){100}){100}\", \"a\")\n"},
		{"regex-long", "import \"regexp\"\nx: regexp.Match(\"" + rep("(a|b)", 5000) + "\", \"a\")\n"},
		{"regex-deep", "import \"regexp\"\nx: regexp.Match(\"" + rep("(", 5000) + "a" + rep(")", 5000) + "\", \"a\")\n"},
		{"regex-op", "x: \"" + rep("a", 10000) + "\" =~ \"^(a*)*$\"\n"},
		{"json-deep-1k", "import \"encoding/json\"\nx: json.Unmarshal(\"" + rep("[", 1000) + rep("]", 1000) + "\")\n"},
		{"json-deep-9k", "import \"encoding/json\"\nx: json.Unmarshal(\"" + rep("[", 9000) + rep("]", 9000) + "\")\n"},
		{"json-deep-20k", "import \"encoding/json\"\nx: json.Unmarshal(\"" + rep("[", 20000) + rep("]", 20000) + "\")\n"},
		{"json-deep-100k", "import \"encoding/json\"\nx: json.Unmarshal(\"" + rep("[", 100000) + rep("]", 100000) + "\")\n"},
		{"json-deepobj-9k", "import \"encoding/json\"\nx: json.Unmarshal(#\"" + rep(`{"a":`, 9000) + "1" + rep("}", 9000) + "\"#)\n"},
		{"json-deepobj-20k", "import \"encoding/json\"\nx: json.Unmarshal(#\"" + rep(`{"a":`, 20000) + "1" + rep("}", 20000) + "\"#)\n"},
		{"json-valid-deep", "import \"encoding/json\"\nx: json.Valid(\"" + rep("[", 100000) + rep("]", 100000) + "\")\n"},
		{"yaml-deep-1k", "import \"encoding/yaml\"\nx: yaml.Unmarshal(\"" + rep("[", 1000) + rep("]", 1000) + "\")\n"},
		{"yaml-deep-9k", "import \"encoding/yaml\"\nx: yaml.Unmarshal(\"" + rep("[", 9000) + rep("]", 9000) + "\")\n"},
		{"yaml-deep-20k", "import \"encoding/yaml\"\nx: yaml.Unmarshal(\"" + rep("[", 20000) + rep("]", 20000) + "\")\n"},
		{"yaml-deepmap-9k", "import \"encoding/yaml\"\nx: yaml.Unmarshal(\"" + rep("{a: ", 9000) + "1" + rep("}", 9000) + "\")\n"},
		{"yaml-laughs", "import \"encoding/yaml\"\nx: yaml.Unmarshal(\"a: &a [x,x,x,x,x,x,x,x,x]\\nb: &b [*a,*a,*a,*a,*a,*a,*a,*a,*a]\\nc: &c [*b,*b,*b,*b,*b,*b,*b,*b,*b]\\nd: &d [*c,*c,*c,*c,*c,*c,*c,*c,*c]\\ne: &e [*d,*d,*d,*d,*d,*d,*d,*d,*d]\\nf: &f [*e,*e,*e,*e,*e,*e,*e,*e,*e]\\ng: &g [*f,*f,*f,*f,*f,*f,*f,*f,*f]\\nh: &h [*g,*g,*g,*g,*g,*g,*g,*g,*g]\\ni: &i [*h,*h,*h,*h,*h,*h,*h,*h,*h]\\n\")\n"},
		{"yaml-laughs-small", "import \"encoding/yaml\"\nx: yaml.Unmarshal(\"a: &a [x,x,x]\\nb: &b [*a,*a,*a]\\nc: &c [*b,*b,*b]\\nd: [*c,*c,*c]\\n\")\n"},
		{"yaml-selfalias", "import \"encoding/yaml\"\nx: yaml.Unmarshal(\"a: &a [*a]\\n\")\n"},
		{"disj-exp-12", disjExp(12)},
		{"disj-exp-20", disjExp(20)},
		{"disj-exp-40", disjExp(40)},
		{"dup-exp-20", dupExp(20)},
		{"dup-exp-30", dupExp(30)},
		{"dup-exp-60", dupExp(60)},
		{"fields-20k", manyFields(20000)},
		{"fields-100k", manyFields(100000)},
		{"listlit-100k", "x: [" + rep("1,", 100000) + "]\n"},
		{"compr-1m", "import \"list\"\nx: [for i in list.Range(0, 1000, 1) for j in list.Range(0, 1000, 1) {i + j}]\n"},
		{"compr-sq", "import \"list\"\nx: [for i in list.Range(0, 300, 1) for j in list.Range(0, 300, 1) {i + j}]\n"},
		{"recurse-fn", "#F: {n: int, r: {if n > 0 {(#F & {n: n - 1}).r}, if n <= 0 {0}}}\nv: (#F & {n: 2000}).r\n"},
	}
}

func disjExp(n int) string {
	var b strings.Builder
	for i := 0; i < n; i++ {
		fmt.Fprintf(&b, "x: {f%d: 1 | 2}\n", i)
	}
	for i := 0; i < n; i++ {
		fmt.Fprintf(&b, "x: {f%d: int} | {f%d: string}\n", i, i)
	}
	return b.String()
}

func dupExp(n int) string {
	var b strings.Builder
	b.WriteString("f0: {a: 1}\n")
	for i := 1; i <= n; i++ {
		fmt.Fprintf(&b, "f%d: {l: f%d, r: f%d}\n", i, i-1, i-1)
	}
	return b.String()
}

func manyFields(n int) string {
	var b strings.Builder
	for i := 0; i < n; i++ {
		fmt.Fprintf(&b, "f%d: %d\n", i, i)
	}
	return b.String()
}

// bigExcluded: members of bigInputs() that do NOT stay within the worker's
// memory cap / timeout on the pinned tree (observations B-* in the notes);
// they are excluded from the default stream.  Filled in after triage.
var bigExcluded = map[string]string{}
