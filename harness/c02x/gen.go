// Generated programs beyond CoreCUE: references, lists, comprehensions, let,
// disjunctions with defaults, reference and structural cycles, builtin calls,
// deep nesting and very long tokens.  Everything is text; validity is "mostly":
// the status distribution is printed into the report.
package main

import (
	"fmt"
	"strings"

	"cuelang.org/go/internal/verifharness/common"
)

// ---- a scope- and type-aware random program generator ------------------------
//
// Expressions are generated for a wanted type (int, string, bool, list of int,
// struct, any) and references pick visible fields of that type, so that most
// programs evaluate without error; with a small probability an expression of an
// arbitrary type is used instead (the malformed part of the stream).

type ty byte

const (
	tI ty = 'I'
	tS ty = 'S'
	tB ty = 'B'
	tL ty = 'L'
	tT ty = 'T'
	tA ty = 'A'
)

type binding struct {
	name string
	t    ty
}

type rich struct {
	r      *common.Rng
	scopes [][]binding // visible names, innermost last
	lets   int
	pkgs   map[string]bool
	budget int // remaining nodes; keeps programs small
	feat   richFeat
	chaos  int // 1/chaos of the typed choices are replaced by an arbitrary-type expression (0 = never)
}

type richFeat struct {
	refs, lists, compr, lets, disj, builtins, dyn, defs bool
	// declCompr: field comprehensions (`for k, v in x {...}`, `if c {...}`) as declarations of generated structs.
	// Only in `--gen wild`: on the pinned tree random programs with such comprehensions over enclosing or
	// self-referential structs run into several evaluator defects (hangs, nil dereferences: open items in
	// design/C02-explore-notes.md); the default stream keeps them to the fixed, triaged cycle templates and the corpus.
	declCompr bool
}

var richNames = []string{"a", "b", "c", "d", "e", "f", "g", "h", "foo", "bar", "_h", "_k"}

func (g *rich) push() { g.scopes = append(g.scopes, nil) }
func (g *rich) pop()  { g.scopes = g.scopes[:len(g.scopes)-1] }
func (g *rich) declare(n string, t ty) {
	g.scopes[len(g.scopes)-1] = append(g.scopes[len(g.scopes)-1], binding{n, t})
}
func (g *rich) fresh() string {
	cur := g.scopes[len(g.scopes)-1]
	for try := 0; ; try++ {
		n := common.Pick(g.r, richNames)
		if try > 3 {
			n = fmt.Sprintf("%s%d", n, g.r.Intn(100))
		}
		ok := true
		for _, b := range cur {
			if b.name == n {
				ok = false
			}
		}
		if ok {
			return n
		}
	}
}
func (g *rich) visible(t ty) []string {
	var vs []string
	for _, s := range g.scopes {
		for _, b := range s {
			if b.t == t || t == tA {
				vs = append(vs, b.name)
			}
		}
	}
	return vs
}
func (g *rich) use(p string) { g.pkgs[p] = true }

func (g *rich) pickType() ty {
	ts := []ty{tI, tI, tI, tS, tS, tB, tT, tT}
	if g.feat.lists {
		ts = append(ts, tL, tL)
	}
	return common.Pick(g.r, ts)
}

func (g *rich) lit(t ty) string {
	switch t {
	case tI:
		if g.r.Chance(1, 12) {
			return common.Pick(g.r, []string{"0x1F", "0b101", "0o17", "1_000", "1K", "2Mi", "123456789012345678901234567890", "-0"})
		}
		return fmt.Sprint(g.r.Intn(12) - 2)
	case tS:
		return common.Pick(g.r, []string{`"x"`, `"y"`, `"ab"`, `""`, `"a b"`, `"\u00e9"`, `"a\nb"`, `#"a\b"#`, "\"\"\"\n\tmulti\n\tline\n\t\"\"\"", `"abc"`, `"a,b,c"`, `"Hello World"`, `"aaaaaaaaaaaaaaaaaaaaaaaa"`})
	case tB:
		return common.Pick(g.r, []string{"true", "false"})
	case tL:
		return common.Pick(g.r, []string{"[1, 2, 3]", "[]", "[3, 1, 2, 1]", "[0]", "[5, 4]"})
	case tT:
		return common.Pick(g.r, []string{"{}", "{p: 1}", "{p: 1, q: \"s\"}", "{p: {q: 2}}"})
	}
	return common.Pick(g.r, []string{"null", "1.5", "0.1", "1e3", "'bytes'", `'\x00\xff'`, "_", "2.0"})
}

// schema-ish (incomplete) values of a type
func (g *rich) typeLit(t ty) string {
	switch t {
	case tI:
		return common.Pick(g.r, []string{"int", ">=0", "<100", ">-5 & <50", "!=77", "uint8", "int32", "number", "<=100"})
	case tS:
		return common.Pick(g.r, []string{"string", `=~"^"`, `!~"^zzz"`, `!="q"`, `<"zzzz"`})
	case tB:
		return "bool"
	case tL:
		return common.Pick(g.r, []string{"[...int]", "[...]", "[...>=-5]"})
	case tT:
		return common.Pick(g.r, []string{"{...}", "{[string]: _}", "_"})
	}
	return "_"
}

func (g *rich) ref(t ty) string {
	vs := g.visible(t)
	if len(vs) == 0 || !g.feat.refs {
		return g.lit(t)
	}
	return common.Pick(g.r, vs)
}

func (g *rich) expr(t ty, d int) string {
	g.budget--
	if g.chaos > 0 && g.r.Chance(1, g.chaos) {
		return g.wild(d)
	}
	if d <= 0 || g.budget <= 0 {
		if g.r.Chance(1, 2) {
			return g.ref(t)
		}
		return g.lit(t)
	}
	if t == tA {
		t = g.pickType()
	}
	if g.feat.disj && g.r.Chance(1, 7) {
		return g.disj(t, d-1)
	}
	if g.feat.builtins && g.r.Chance(1, 3) {
		return g.call(t, d-1)
	}
	switch t {
	case tI:
		switch g.r.Intn(12) {
		case 0, 1, 2:
			return g.lit(t)
		case 3, 4, 5:
			return g.ref(t)
		case 6:
			return "(" + g.expr(tI, d-1) + " " + common.Pick(g.r, []string{"+", "-", "*"}) + " " + g.expr(tI, d-1) + ")"
		case 7:
			return common.Pick(g.r, []string{"div", "mod", "quo", "rem"}) + "(" + g.expr(tI, d-1) + ", " + fmt.Sprint(1+g.r.Intn(5)) + ")"
		case 8:
			if g.feat.lists {
				return "len(" + g.expr(tL, d-1) + ")"
			}
			return "len(" + g.expr(tS, d-1) + ")"
		case 9:
			return "-(" + g.expr(tI, d-1) + ")"
		case 10:
			return "(" + g.typeLit(tI) + " & " + g.expr(tI, d-1) + ")"
		default:
			return g.typeLit(tI)
		}
	case tS:
		switch g.r.Intn(10) {
		case 0, 1, 2:
			return g.lit(t)
		case 3, 4:
			return g.ref(t)
		case 5:
			return "(" + g.expr(tS, d-1) + " + " + g.expr(tS, d-1) + ")"
		case 6, 7:
			return `"p\(` + g.expr(tI, d-1) + `)-\(` + g.expr(tS, d-1) + `)"`
		case 8:
			return "(" + g.typeLit(tS) + " & " + g.expr(tS, d-1) + ")"
		default:
			return g.typeLit(tS)
		}
	case tB:
		switch g.r.Intn(9) {
		case 0, 1:
			return g.lit(t)
		case 2:
			return g.ref(t)
		case 3, 4:
			return "(" + g.expr(tI, d-1) + " " + common.Pick(g.r, []string{"<", "<=", ">", ">=", "==", "!="}) + " " + g.expr(tI, d-1) + ")"
		case 5:
			return "(" + g.expr(tS, d-1) + " " + common.Pick(g.r, []string{"==", "!=", "<"}) + " " + g.expr(tS, d-1) + ")"
		case 6:
			return "!(" + g.expr(tB, d-1) + ")"
		case 7:
			return "(" + g.expr(tB, d-1) + " " + common.Pick(g.r, []string{"&&", "||"}) + " " + g.expr(tB, d-1) + ")"
		default:
			return "(" + g.expr(tS, d-1) + " " + common.Pick(g.r, []string{"=~", "!~"}) + ` "^[a-x]")`
		}
	case tL:
		switch g.r.Intn(9) {
		case 0, 1:
			return g.lit(t)
		case 2, 3:
			return g.ref(t)
		case 4, 5:
			n := g.r.Intn(4)
			var es []string
			for i := 0; i < n; i++ {
				es = append(es, g.expr(tI, d-1))
			}
			return "[" + strings.Join(es, ", ") + "]"
		case 6, 7:
			if g.feat.compr {
				src := g.expr(tL, d-1)
				cond := ""
				if g.r.Chance(1, 2) {
					cond = " if x > " + fmt.Sprint(g.r.Intn(3))
				}
				g.push()
				g.declare("x", tI)
				body := g.expr(tI, d-1)
				g.pop()
				return "[for x in " + src + cond + " {" + body + "}]"
			}
			return "[" + g.expr(tI, d-1) + ", ...int]"
		default:
			return "(" + g.typeLit(tL) + " & " + g.expr(tL, d-1) + ")"
		}
	case tT:
		switch g.r.Intn(8) {
		case 0:
			return g.ref(t)
		case 1:
			return "(" + g.ref(t) + " & " + g.typeLit(tT) + ")"
		case 2:
			if g.feat.defs {
				return "close(" + g.structLit(d-1) + ")"
			}
		}
		return g.structLit(d - 1)
	}
	return g.lit(tA)
}

// wild: an expression of arbitrary type and shape (the malformed stream)
func (g *rich) wild(d int) string {
	save := g.chaos
	g.chaos = 0
	defer func() { g.chaos = save }()
	switch g.r.Intn(12) {
	case 0:
		return "_|_"
	case 1:
		return g.ref(tA) + "." + common.Pick(g.r, richNames[:5])
	case 2:
		return g.ref(tA) + "[" + fmt.Sprint(g.r.Intn(4)) + "]"
	case 3:
		return g.ref(tA) + `["a"]`
	case 4:
		return "(" + g.expr(tA, d-1) + " " + common.Pick(g.r, binOps) + " " + g.expr(tA, d-1) + ")"
	case 5:
		return common.Pick(g.r, []string{"-", "+", "!"}) + "(" + g.expr(tA, d-1) + ")"
	case 6:
		return "len(" + g.expr(tA, d-1) + ")"
	case 7:
		return "and([" + g.expr(tA, d-1) + ", " + g.expr(tA, d-1) + "])"
	case 8:
		return "or([" + g.expr(tA, d-1) + ", " + g.expr(tA, d-1) + "])"
	case 9:
		return "[..." + g.expr(tA, d-1) + "]"
	case 10:
		return "div(" + g.expr(tA, d-1) + ", " + g.expr(tA, d-1) + ")"
	}
	return g.expr(g.pickType(), d-1)
}

var binOps = []string{"+", "-", "*", "/", "&", "&", "|", "==", "!=", "<", "<=", ">", ">=", "&&", "||", "=~", "!~"}

func (g *rich) disj(t ty, d int) string {
	switch g.r.Intn(6) {
	case 0:
		return "(*" + g.expr(t, d) + " | " + g.typeLit(t) + ")"
	case 1:
		return "(" + g.expr(t, d) + " | *" + g.expr(t, d) + ")"
	case 2:
		return "(" + g.typeLit(t) + " | *" + g.expr(t, d) + ")"
	case 3:
		// a disjunction across types, resolved by a conjunct
		return "((" + g.expr(tI, d) + " | " + g.expr(tS, d) + " | " + g.expr(tB, d) + ") & " + g.typeLit(t) + ")"
	case 4:
		return "(" + g.expr(t, d) + " | " + g.expr(t, d) + " | " + g.expr(t, d) + ")"
	}
	e := g.expr(t, d)
	return "(*" + e + " | " + g.lit(t) + ")"
}

func (g *rich) structLit(d int) string {
	g.push()
	defer g.pop()
	return "{" + strings.Join(g.decls(d, 1+g.r.Intn(4)), ", ") + "}"
}

func (g *rich) decls(d, n int) []string {
	var ds []string
	// names and types first, so that forward references are possible
	names := make([]string, n)
	types := make([]ty, n)
	for i := range names {
		names[i] = g.fresh()
		types[i] = g.pickType()
		if g.feat.defs && g.r.Chance(1, 8) {
			names[i] = "#" + strings.ToUpper(strings.TrimLeft(names[i], "_"))
			types[i] = tT
		}
		g.declare(names[i], types[i])
	}
	for i := 0; i < n; i++ {
		g.budget--
		nm, t := names[i], types[i]
		switch k := g.r.Intn(34); {
		case k < 18:
			suf := ""
			if g.r.Chance(1, 10) && !strings.HasPrefix(nm, "#") {
				suf = common.Pick(g.r, []string{"?", "!"})
			}
			ds = append(ds, nm+suf+": "+g.expr(t, d))
		case k < 20: // the same field twice: schema and value
			ds = append(ds, nm+": "+g.typeLit(t))
			ds = append(ds, nm+": "+g.expr(t, d))
		case k < 21 && !strings.HasPrefix(nm, "#") && !strings.HasPrefix(nm, "_"):
			ds = append(ds, fmt.Sprintf("%q: %s", nm, g.expr(t, d)))
		case k < 22 && g.feat.dyn:
			ds = append(ds, "("+g.expr(tS, 1)+"): "+g.expr(t, d))
			ds = append(ds, nm+": "+g.expr(t, d))
		case k < 23 && g.feat.dyn:
			ds = append(ds, `"k\(`+g.expr(tI, 1)+`)": `+g.expr(t, d))
			ds = append(ds, nm+": "+g.expr(t, d))
		case k < 24:
			ds = append(ds, "["+common.Pick(g.r, []string{`=~"^zz"`, `=~"^Q"`})+"]: "+g.expr(tA, d))
			ds = append(ds, nm+": "+g.expr(t, d))
		case k < 25:
			ds = append(ds, nm+": "+g.expr(t, d), "...")
		case k < 26:
			ds = append(ds, nm+": "+g.expr(t, d))
			ds = append(ds, g.expr(tT, d)) // embedding
		case k < 29 && g.feat.lets:
			g.lets++
			ln := fmt.Sprintf("L%d", g.lets)
			lt := g.pickType()
			e := g.expr(lt, d)
			g.declare(ln, lt)
			ds = append(ds, "let "+ln+" = "+e)
			if t == lt && g.r.Chance(5, 6) {
				ds = append(ds, nm+": "+ln)
			} else {
				ds = append(ds, nm+": "+g.expr(t, d))
				if g.r.Chance(5, 6) {
					ds = append(ds, fmt.Sprintf("u%d: %s", g.lets, ln))
				}
			}
		case k < 31 && g.feat.declCompr:
			ds = append(ds, nm+": "+g.expr(t, d))
			src := g.expr(tT, d-1)
			g.push()
			g.declare("k", tS)
			g.declare("v", tA)
			body := `"c\(k)": v`
			if g.r.Chance(1, 3) {
				body += ", " + strings.Join(g.decls(d-1, 1), ", ")
			}
			g.pop()
			ds = append(ds, "for k, v in "+src+" {"+body+"}")
		case k < 33 && g.feat.declCompr:
			ds = append(ds, nm+": "+g.expr(t, d))
			cond := g.expr(tB, 2)
			if g.r.Chance(1, 3) {
				cond = g.ref(tA) + " != _|_"
			}
			g.push()
			body := strings.Join(g.decls(d-1, 1+g.r.Intn(2)), ", ")
			g.pop()
			// the guarded fields get labels of their own: no clash with the enclosing scope
			body = strings.NewReplacer().Replace(body)
			ds = append(ds, "if "+cond+" {w"+fmt.Sprint(g.r.Intn(1000))+": {"+body+"}}")
		default:
			ds = append(ds, nm+": "+g.expr(t, d)+" @attr(x,y=1)")
		}
	}
	return ds
}

func (g *rich) file(depth, ndecl int) string {
	g.scopes = nil
	g.pkgs = map[string]bool{}
	g.lets = 0
	g.push()
	ds := g.decls(depth, ndecl)
	g.pop()
	var b strings.Builder
	if g.r.Chance(1, 6) {
		b.WriteString("// a doc comment\npackage p\n\n")
	}
	for _, p := range []string{"strings", "list", "math", "regexp", "struct", "encoding/json", "encoding/yaml", "strconv", "math/bits"} {
		if g.pkgs[p] {
			fmt.Fprintf(&b, "import %q\n", p)
		}
	}
	for _, d := range ds {
		if g.r.Chance(1, 10) {
			b.WriteString("// doc\n")
		}
		b.WriteString(d + "\n")
	}
	return b.String()
}

// ---- builtin calls ---------------------------------------------------------

var patPool = []string{`"^a"`, `"(a*)*b"`, `"(a|aa)+$"`, `"[a-z]+"`, `"(?i)HELLO"`, `"a{2,3}"`, `"\\d+"`, `"(?P<n>a)(b)?"`, `"(x+x+)+y"`, `"[[:alpha:]]*"`, `"\\pL+"`, `".*.*.*.*.*=.*"`, `"(a{10}){10}"`}
var badPatPool = []string{`"("`, `"a{1000}"`, `"(a{100}){100}"`, `"\\"`, `"[z-a]"`, `"(?<n>a)"`, `"a**"`, `"\\xZZ"`}

var jsonObjPool = []string{`{}`, `{"a": 1, "b": [1, 2, {"c": null}]}`, `{"a": {"a": {"a": 1}}}`, `{"\u00e9": "\ud83d\ude00"}`, `{"": 0}`, `{"a b": true, "#d": 1.5e3, "_e": "s"}`}
var jsonBadPool = []string{`{"a":}`, `[1,`, `{"a": 1e999}`, `{"a": 1, "a": 2}`, ``, `nul`, `"\ud800"`, `{"a": 01}`, `[1 2]`}
var yamlObjPool = []string{"a: 1\nb: [1, 2]\n", "a: &x 1\nb: *x\n", "a:\n  b:\n    c: d\n", "a: |\n  text\n  more\n", "? k\n: v\n", "a: !!str 1\n", "a: 0o17\nb: 0x1f\nd: ~\n", "\"k\": 'v'\n", "a: {b: [1, {c: d}]}\n"}
var yamlBadPool = []string{"a: [", "a: *nope\n", "&a [*a]\n", "{a: 1, a: 2}\n", "---\na: 1\n---\nb: 2\n", "a: .inf\n", "a: 2001-01-01\n", "\t- x", "a: !!binary x\n", "- 1\n- x\n"}

func (g *rich) call(t ty, d int) string {
	q := func(s string) string { return fmt.Sprintf("%q", s) }
	pat := common.Pick(g.r, patPool)
	if g.r.Chance(1, 12) {
		pat = common.Pick(g.r, badPatPool)
	}
	small := func() string { return fmt.Sprint(g.r.Intn(5)) }
	switch t {
	case tI:
		switch g.r.Intn(9) {
		case 0:
			g.use("strings")
			return "strings.Index(" + g.expr(tS, d) + ", " + g.expr(tS, d) + ")"
		case 1:
			g.use("strings")
			return "strings.Count(" + g.expr(tS, d) + `, "a")`
		case 2:
			g.use("list")
			return "list.Sum(" + g.expr(tL, d) + ")"
		case 3:
			g.use("list")
			return "list.Max(" + "[1, " + g.expr(tI, d) + "])"
		case 4:
			g.use("math")
			return "math.Abs(" + g.expr(tI, d) + ")"
		case 5:
			g.use("math")
			return common.Pick(g.r, []string{"math.Floor", "math.Ceil", "math.Round", "math.Trunc"}) + "(" + g.expr(tI, d) + " / 2)"
		case 6:
			g.use("strconv")
			return "strconv.Atoi(\"" + fmt.Sprint(g.r.Intn(100)) + "\")"
		case 7:
			g.use("math/bits")
			return common.Pick(g.r, []string{"bits.And", "bits.Or", "bits.Xor", "bits.Lsh"}) + "(" + g.expr(tI, d) + ", " + small() + ")"
		default:
			g.use("math")
			return "math.Jacobi(" + g.expr(tI, d) + ", " + fmt.Sprint(2*g.r.Intn(4)+1) + ")"
		}
	case tS:
		switch g.r.Intn(12) {
		case 0:
			g.use("strings")
			return "strings.Repeat(" + g.expr(tS, d) + ", " + small() + ")"
		case 1:
			g.use("strings")
			return "strings.Join(strings.Split(" + g.expr(tS, d) + `, ","), "-")`
		case 2:
			g.use("strings")
			return common.Pick(g.r, []string{"strings.ToUpper", "strings.ToLower", "strings.TrimSpace", "strings.ToTitle"}) + "(" + g.expr(tS, d) + ")"
		case 3:
			g.use("strings")
			return "strings.Replace(" + g.expr(tS, d) + `, "a", "bb", ` + fmt.Sprint(g.r.Intn(4)-1) + ")"
		case 4:
			g.use("strings")
			return "strings.SliceRunes(" + g.expr(tS, d) + ", 0, " + small() + ")"
		case 5:
			g.use("regexp")
			return "regexp.ReplaceAll(" + pat + ", " + g.expr(tS, d) + `, "$0-")`
		case 6:
			g.use("regexp")
			return "regexp.Find(" + pat + ", " + g.expr(tS, d) + ")"
		case 7:
			g.use("encoding/json")
			return "json.Marshal(" + g.expr(tA, d) + ")"
		case 8:
			g.use("encoding/yaml")
			return "yaml.Marshal(" + g.expr(tA, d) + ")"
		case 9:
			g.use("encoding/json")
			return "json.Indent(json.Marshal(" + g.expr(tT, d) + `), "", " ")`
		case 10:
			g.use("strconv")
			return "strconv.FormatInt(" + g.expr(tI, d) + ", " + common.Pick(g.r, []string{"2", "10", "16", "36", "1", "37"}) + ")"
		default:
			g.use("encoding/yaml")
			return "yaml.MarshalStream([" + g.expr(tT, d) + ", " + g.expr(tT, d) + "])"
		}
	case tB:
		switch g.r.Intn(8) {
		case 0:
			g.use("strings")
			return common.Pick(g.r, []string{"strings.Contains", "strings.HasPrefix", "strings.HasSuffix"}) + "(" + g.expr(tS, d) + ", " + g.expr(tS, d) + ")"
		case 1:
			g.use("list")
			return "list.Contains(" + g.expr(tL, d) + ", " + g.expr(tI, d) + ")"
		case 2:
			g.use("regexp")
			return "regexp.Match(" + pat + ", " + g.expr(tS, d) + ")"
		case 3:
			g.use("encoding/json")
			txt := common.Pick(g.r, jsonObjPool)
			if g.r.Chance(1, 3) {
				txt = common.Pick(g.r, jsonBadPool)
			}
			return "json.Valid(" + q(txt) + ")"
		case 4:
			g.use("encoding/json")
			return "json.Validate(" + q(common.Pick(g.r, jsonObjPool)) + ", " + g.typeLit(tT) + ")"
		case 5:
			g.use("encoding/yaml")
			return "yaml.Validate(" + q(common.Pick(g.r, yamlObjPool)) + ", " + g.typeLit(tT) + ")"
		case 6:
			g.use("list")
			return common.Pick(g.r, []string{"list.IsSorted(", "list.IsSortedStrings(strings.Split(\"b,a\", \",\")) && list.IsSorted("}) + g.expr(tL, d) + ", list.Ascending)"
		default:
			g.use("math")
			return "math.MultipleOf(" + g.expr(tI, d) + ", " + fmt.Sprint(1+g.r.Intn(4)) + ")"
		}
	case tL:
		g.use("list")
		switch g.r.Intn(10) {
		case 0:
			return "list.Repeat(" + g.expr(tL, d) + ", " + small() + ")"
		case 1:
			return fmt.Sprintf("list.Range(%d, %d, %d)", g.r.Intn(4), g.r.Intn(12), 1+g.r.Intn(3))
		case 2:
			return "list.Sort(" + g.expr(tL, d) + ", " + common.Pick(g.r, []string{"list.Ascending", "list.Descending", "{x: _, y: _, less: x < y}"}) + ")"
		case 3:
			return "list.Concat([" + g.expr(tL, d) + ", " + g.expr(tL, d) + "])"
		case 4:
			return "list.FlattenN([" + g.expr(tL, d) + ", [" + g.expr(tL, d) + "]], " + fmt.Sprint(g.r.Intn(4)-1) + ")"
		case 5:
			return "list.Slice(" + g.expr(tL, d) + ", 0, " + small() + ")"
		case 6:
			return common.Pick(g.r, []string{"list.Take", "list.Drop"}) + "(" + g.expr(tL, d) + ", " + small() + ")"
		case 7:
			return "(list.UniqueItems() & list.MinItems(" + small() + ") & " + g.expr(tL, d) + ")"
		case 8:
			return "list.Reverse(" + g.expr(tL, d) + ")"
		default:
			return "list.SortStable(" + g.expr(tL, d) + ", list.Ascending)"
		}
	case tT:
		switch g.r.Intn(6) {
		case 0, 1:
			g.use("encoding/json")
			txt := common.Pick(g.r, jsonObjPool)
			switch g.r.Intn(8) {
			case 0:
				txt = common.Pick(g.r, jsonBadPool)
			case 1, 2:
				txt = genJSONText(g.r, 3)
			}
			return "json.Unmarshal(" + q(txt) + ")"
		case 2, 3:
			g.use("encoding/yaml")
			txt := common.Pick(g.r, yamlObjPool)
			if g.r.Chance(1, 8) {
				txt = common.Pick(g.r, yamlBadPool)
			}
			return "yaml.Unmarshal(" + q(txt) + ")"
		case 4:
			g.use("struct")
			return "(struct.MinFields(" + small() + ") & " + g.structLit(d) + ")"
		default:
			g.use("struct")
			return "(struct.MaxFields(" + fmt.Sprint(2+g.r.Intn(8)) + ") & " + g.structLit(d) + ")"
		}
	}
	return g.lit(t)
}

func genJSONText(r *common.Rng, d int) string {
	if d <= 0 {
		return common.Pick(r, []string{"1", `"s"`, "null", "true", "-2.5e2", `""`, "0"})
	}
	switch r.Intn(4) {
	case 0:
		n := r.Intn(4)
		var es []string
		for i := 0; i < n; i++ {
			es = append(es, genJSONText(r, d-1))
		}
		return "[" + strings.Join(es, ",") + "]"
	case 1, 2:
		n := r.Intn(4)
		var es []string
		for i := 0; i < n; i++ {
			es = append(es, fmt.Sprintf("%q:%s", common.Pick(r, []string{"a", "b", "c", "a b", "#d", "_e", ""}), genJSONText(r, d-1)))
		}
		return "{" + strings.Join(es, ",") + "}"
	}
	return genJSONText(r, 0)
}

// ---- templates: cycles -------------------------------------------------------

var refCycles = []string{
	"a: b\nb: a\n",
	"a: b + 1\nb: a - 1\n",
	"a: b + 1\nb: a - 1\nb: 2\n",
	"a: b\nb: c\nc: a\n",
	"a: b & {c: 1}\nb: a\n",
	"a: {x: b.y, y: 1}\nb: {x: 2, y: a.x}\n",
	"x: y\ny: x & int\nx: 5\n",
	"a: b\nb: a\na: 1 | 2\n",
	"a: *b | 1\nb: *a | 2\n",
	"a: \"\\(b)\"\nb: \"\\(a)\"\n",
	"a: [b]\nb: a[0]\n",
	"a: len(b)\nb: [a]\n",
	"a: b.c\nb: {c: a}\n",
	"a: a\n",
	"a: a + 1\n",
	"a: a & 1\n",
	"a: !a\n",
	"a: >b\nb: <a\n",
	"a: >=b\nb: <=a\na: 3\n",
	"let X = Y\nlet Y = X\na: X\n",
	"a: {for k, v in b {\"\\(k)\": v}}\nb: {for k, v in a {\"\\(k)\": v}}\n",
	"a: [for x in b {x}]\nb: [for x in a {x}]\n",
	"if a != _|_ {b: 1}\nif b != _|_ {a: 1}\n",
	"a: {if b.x != _|_ {y: 1}}\nb: {if a.y != _|_ {x: 1}}\n",
	"#A: {b: #B}\n#B: {a?: #A}\nx: #A\n",
	"a: b | 1\nb: a | 2\n",
	"a: (b & int) + 1\nb: a\n",
}

var structCycles = []string{
	"a: {b: a}\n",
	"#L: {next?: #L}\nx: #L & {next: next: {}}\n",
	"x: [x]\n",
	"#List: {v: int, next: #List | null}\nl: #List & {v: 1, next: {v: 2, next: null}}\n",
	"#List: {v: int, next: #List | *null}\nl: #List\n",
	"a: {b: c: a}\n",
	"a: b: a.b\n",
	"a: {b: a.b.c}\n",
	"#T: {l?: #T, r?: #T, v: int}\nt: #T & {v: 1, l: {v: 2}, r: {v: 3, l: v: 4}}\n",
	"a: [a, a]\n",
	"a: [...a]\n",
	"a: {[string]: a}\n",
	"a: {[string]: a}\na: x: y: z: {}\n",
	"a: {b: a} & {b: b: b: _}\n",
	"x: {y: x} | 1\n",
	"#A: {a: #A}\n",
	"#A: {a: #A} | {b: 1}\nv: #A\n",
	"a: b\nb: {c: a}\n",
	"a: {b: c}\nc: {d: a}\n",
	"p: {x: p.y, y: {z: p.x}}\n",
	"a: {for k, v in a {\"x\\(k)\": v}}\na: s: 1\n",
	"a: [for x in a {x}]\n",
	"f: {in: _, out: f & {in: 1}}\n",
	"#F: {n: int, r: {if n > 0 {(#F & {n: n - 1}).r}, if n <= 0 {0}}}\nv: (#F & {n: 3}).r\n",
	"a: close({b: a})\n",
	"a: {b?: a}\n",
	"a: {b!: a}\n",
	"a: {#b: a}\n",
	"a: {_b: a}\n",
	"x: and([x, {a: 1}])\n",
	"x: or([x, 1])\n",
	"a: {b: a.b.b}\n",
	"y: [{a: y}]\n",
	"y: {a: [y]}\n",
	"a: b: c: a\na: b: c: b: c: _\n",
}

func genCycle(r *common.Rng, pool []string) string {
	s := common.Pick(r, pool)
	// decorate: wrap in a struct, duplicate with renamed labels, add a sibling
	switch r.Intn(6) {
	case 0:
		return "w: {\n" + s + "}\n"
	case 1:
		return s + "z: " + common.Pick(r, []string{"a", "x", "1", "{q: a}", "[a]", "a & {}", "a | 1"}) + "\n"
	case 2:
		return s + common.Pick(r, pool)
	case 3:
		return "#D: {\n" + s + "}\nv: #D\n"
	}
	return s
}

// ---- deep nesting and long tokens ---------------------------------------------

func rep(s string, n int) string { return strings.Repeat(s, n) }

var deepShapes = []string{"paren", "struct", "structnl", "list", "unary", "not", "binchain", "andchain", "orchain", "selchain", "idxchain", "interp", "field-chain", "call", "listcompr", "structcompr", "cmt", "openparen", "openstruct", "openlist", "ellipsis", "disjnest", "let", "embed"}

func deepInput(shape string, n int) string {
	switch shape {
	case "paren":
		return "x: " + rep("(", n) + "1" + rep(")", n) + "\n"
	case "struct":
		return "x: " + rep("{a:", n) + "1" + rep("}", n) + "\n"
	case "structnl":
		return "x: " + rep("{\na: ", n) + "1" + rep("\n}", n) + "\n"
	case "list":
		return "x: " + rep("[", n) + "1" + rep("]", n) + "\n"
	case "unary":
		return "x: " + rep("-", n) + "1\n"
	case "not":
		return "x: " + rep("!", n) + "true\n"
	case "binchain":
		return "x: 1" + rep("+1", n) + "\n"
	case "andchain":
		return "x: int" + rep(" & int", n) + "\n"
	case "orchain":
		return "x: 0" + rep(" | 1", n) + "\n"
	case "selchain":
		return "x: a" + rep(".a", n) + "\na: " + rep("{a:", 3) + "1" + rep("}", 3) + "\n"
	case "idxchain":
		return "x: a" + rep("[0]", n) + "\na: [[[1]]]\n"
	case "interp":
		return "x: " + rep(`"\(`, n) + "1" + rep(`)"`, n) + "\n"
	case "field-chain":
		return "x: " + rep("a: ", n) + "1\n"
	case "call":
		return "x: " + rep("len(", n) + "[]" + rep(")", n) + "\n"
	case "listcompr":
		return "x: " + rep("[for v in [1] {", n) + "v" + rep("}]", n) + "\n"
	case "structcompr":
		return "x: {" + rep("if true {", n) + "a: 1" + rep("}", n) + "}\n"
	case "cmt":
		return rep("// c\n", n) + "x: 1\n"
	case "openparen":
		return "x: " + rep("(", n) + "\n"
	case "openstruct":
		return "x: " + rep("{a:", n) + "\n"
	case "openlist":
		return "x: " + rep("[", n) + "\n"
	case "ellipsis":
		return "x: " + rep("[...", n) + "int" + rep("]", n) + "\n"
	case "disjnest":
		return "x: " + rep("(1|", n) + "2" + rep(")", n) + "\n"
	case "let":
		var b strings.Builder
		b.WriteString("let L0 = 1\n")
		for i := 1; i <= n; i++ {
			fmt.Fprintf(&b, "let L%d = L%d\n", i, i-1)
		}
		fmt.Fprintf(&b, "x: L%d\n", n)
		return b.String()
	case "embed":
		return "x: " + rep("{", n) + "1" + rep("}", n) + "\n"
	}
	return ""
}

// bigInputs: small programs whose evaluation may need huge time or memory.
// name -> source.  The classes that exceeded the cap or the timeout on the
// pinned tree are listed in bigExcluded (see design/C02-explore-notes.md) and
// kept out of the default stream; `--big all` runs them anyway.
func bigInputs() [][2]string {
	mul := func(n int) string { return "x: 10" + rep("*10", n) + "\n" }
	return [][2]string{
		{"digits-100k", "x: " + rep("7", 100000) + "\n"},
		{"digits-float-100k", "x: 1." + rep("3", 100000) + "\n"},
		{"ident-100k", rep("a", 100000) + ": 1\ny: " + rep("a", 100000) + "\n"},
		{"string-1m", "x: \"" + rep("s", 1000000) + "\"\n"},
		{"exp-pos", "x: 1e999999999\n"},
		{"exp-neg", "x: 1e-999999999\n"},
		{"exp-int", "x: int & 1e999999999\n"},
		{"exp-mul", "x: 1e999999999 * 1e999999999\n"},
		{"exp-add", "x: 1e999999999 + 1\n"},
		{"exp-small-int", "x: int & 1e100000\n"},
		{"exp-cmp", "x: 1e999999999 > 1\n"},
		{"exp-div", "x: 1 / 1e-999999999\n"},
		{"exp-suffix", "x: 999999999999999999Ti\n"},
		{"mul-100", mul(100)},
		{"mul-1000", mul(1000)},
		{"mul-5000", mul(5000)},
		{"strmul-1m", "x: \"x\" * 1000000\n"},
		{"strmul-1g", "x: \"x\" * 1000000000\n"},
		{"listmul-1m", "x: [1] * 1000000\n"},
		{"repeat-1m", "import \"strings\"\nx: strings.Repeat(\"x\", 1000000)\n"},
		{"repeat-1g", "import \"strings\"\nx: strings.Repeat(\"x\", 1000000000)\n"},
		{"repeat-4g", "import \"strings\"\nx: strings.Repeat(\"xxxx\", 4000000000)\n"},
		{"repeat-neg", "import \"strings\"\nx: strings.Repeat(\"x\", -1)\n"},
		{"repeat-nest", "import \"strings\"\nx: strings.Repeat(strings.Repeat(strings.Repeat(\"x\", 1000), 1000), 1000)\n"},
		{"lrepeat-100k", "import \"list\"\nx: list.Repeat([1], 100000)\n"},
		{"lrepeat-10m", "import \"list\"\nx: list.Repeat([1], 10000000)\n"},
		{"lrepeat-1g", "import \"list\"\nx: list.Repeat([1], 1000000000)\n"},
		{"lrange-100k", "import \"list\"\nx: list.Range(0, 100000, 1)\n"},
		{"lrange-10m", "import \"list\"\nx: list.Range(0, 10000000, 1)\n"},
		{"lrange-1g", "import \"list\"\nx: list.Range(0, 1000000000, 1)\n"},
		{"lrange-tiny-step", "import \"list\"\nx: list.Range(0, 1, 0.000000001)\n"},
		{"lrange-zero-step", "import \"list\"\nx: list.Range(0, 10, 0)\n"},
		{"pow-big", "import \"math\"\nx: math.Pow(10, 1000000000)\n"},
		{"pow-tower", "import \"math\"\nx: math.Pow(math.Pow(10, 100), 1000000)\n"},
		{"exp-big", "import \"math\"\nx: math.Exp(1000000000)\n"},
		{"log-big", "import \"math\"\nx: math.Log(1e999999999)\n"},
		{"sqrt-big", "import \"math\"\nx: math.Sqrt(1e999999999)\n"},
		{"lsh-1m", "import \"math/bits\"\nx: bits.Lsh(1, 1000000)\n"},
		{"lsh-1g", "import \"math/bits\"\nx: bits.Lsh(1, 1000000000)\n"},
		{"lsh-100g", "import \"math/bits\"\nx: bits.Lsh(1, 100000000000)\n"},
		{"maxrunes", "import \"strings\"\nx: strings.MaxRunes(1000000000000) & \"a\"\n"},
		{"regex-nest", "import \"regexp\"\nx: regexp.Match(\"((a{100}){100}){100}\", \"a\")\n"},
		{"regex-long", "import \"regexp\"\nx: regexp.Match(\"" + rep("(a|b)", 5000) + "\", \"a\")\n"},
		{"regex-deep", "import \"regexp\"\nx: regexp.Match(\"" + rep("(", 5000) + "a" + rep(")", 5000) + "\", \"a\")\n"},
		{"regex-op", "x: \"" + rep("a", 10000) + "\" =~ \"^(a*)*$\"\n"},
		{"json-deep-1k", "import \"encoding/json\"\nx: json.Unmarshal(\"" + rep("[", 1000) + rep("]", 1000) + "\")\n"},
		{"json-deep-9k", "import \"encoding/json\"\nx: json.Unmarshal(\"" + rep("[", 9000) + rep("]", 9000) + "\")\n"},
		{"json-deep-20k", "import \"encoding/json\"\nx: json.Unmarshal(\"" + rep("[", 20000) + rep("]", 20000) + "\")\n"},
		{"json-deep-100k", "import \"encoding/json\"\nx: json.Unmarshal(\"" + rep("[", 100000) + rep("]", 100000) + "\")\n"},
		{"json-deepobj-9k", "import \"encoding/json\"\nx: json.Unmarshal(#\"" + rep(`{"a":`, 9000) + "1" + rep("}", 9000) + "\"#)\n"},
		{"json-deepobj-20k", "import \"encoding/json\"\nx: json.Unmarshal(#\"" + rep(`{"a":`, 20000) + "1" + rep("}", 20000) + "\"#)\n"},
		{"json-valid-deep", "import \"encoding/json\"\nx: json.Valid(\"" + rep("[", 100000) + rep("]", 100000) + "\")\n"},
		{"yaml-deep-1k", "import \"encoding/yaml\"\nx: yaml.Unmarshal(\"" + rep("[", 1000) + rep("]", 1000) + "\")\n"},
		{"yaml-deep-9k", "import \"encoding/yaml\"\nx: yaml.Unmarshal(\"" + rep("[", 9000) + rep("]", 9000) + "\")\n"},
		{"yaml-deep-20k", "import \"encoding/yaml\"\nx: yaml.Unmarshal(\"" + rep("[", 20000) + rep("]", 20000) + "\")\n"},
		{"yaml-deepmap-9k", "import \"encoding/yaml\"\nx: yaml.Unmarshal(\"" + rep("{a: ", 9000) + "1" + rep("}", 9000) + "\")\n"},
		{"yaml-laughs", "import \"encoding/yaml\"\nx: yaml.Unmarshal(\"a: &a [x,x,x,x,x,x,x,x,x]\\nb: &b [*a,*a,*a,*a,*a,*a,*a,*a,*a]\\nc: &c [*b,*b,*b,*b,*b,*b,*b,*b,*b]\\nd: &d [*c,*c,*c,*c,*c,*c,*c,*c,*c]\\ne: &e [*d,*d,*d,*d,*d,*d,*d,*d,*d]\\nf: &f [*e,*e,*e,*e,*e,*e,*e,*e,*e]\\ng: &g [*f,*f,*f,*f,*f,*f,*f,*f,*f]\\nh: &h [*g,*g,*g,*g,*g,*g,*g,*g,*g]\\ni: &i [*h,*h,*h,*h,*h,*h,*h,*h,*h]\\n\")\n"},
		{"yaml-laughs-small", "import \"encoding/yaml\"\nx: yaml.Unmarshal(\"a: &a [x,x,x]\\nb: &b [*a,*a,*a]\\nc: &c [*b,*b,*b]\\nd: [*c,*c,*c]\\n\")\n"},
		{"yaml-selfalias", "import \"encoding/yaml\"\nx: yaml.Unmarshal(\"a: &a [*a]\\n\")\n"},
		{"disj-exp-12", disjExp(12)},
		{"disj-exp-20", disjExp(20)},
		{"disj-exp-40", disjExp(40)},
		{"dup-exp-20", dupExp(20)},
		{"dup-exp-30", dupExp(30)},
		{"dup-exp-60", dupExp(60)},
		{"fields-20k", manyFields(20000)},
		{"fields-100k", manyFields(100000)},
		{"listlit-100k", "x: [" + rep("1,", 100000) + "]\n"},
		{"compr-1m", "import \"list\"\nx: [for i in list.Range(0, 1000, 1) for j in list.Range(0, 1000, 1) {i + j}]\n"},
		{"compr-sq", "import \"list\"\nx: [for i in list.Range(0, 300, 1) for j in list.Range(0, 300, 1) {i + j}]\n"},
		{"recurse-fn", "#F: {n: int, r: {if n > 0 {(#F & {n: n - 1}).r}, if n <= 0 {0}}}\nv: (#F & {n: 2000}).r\n"},
	}
}

func disjExp(n int) string {
	var b strings.Builder
	for i := 0; i < n; i++ {
		fmt.Fprintf(&b, "x: {f%d: 1 | 2}\n", i)
	}
	for i := 0; i < n; i++ {
		fmt.Fprintf(&b, "x: {f%d: int} | {f%d: string}\n", i, i)
	}
	return b.String()
}

func dupExp(n int) string {
	var b strings.Builder
	b.WriteString("f0: {a: 1}\n")
	for i := 1; i <= n; i++ {
		fmt.Fprintf(&b, "f%d: {l: f%d, r: f%d}\n", i, i-1, i-1)
	}
	return b.String()
}

func manyFields(n int) string {
	var b strings.Builder
	for i := 0; i < n; i++ {
		fmt.Fprintf(&b, "f%d: %d\n", i, i)
	}
	return b.String()
}

// bigExcluded: members of bigInputs() that do NOT stay within the worker's memory
// cap / CPU budget on the pinned tree (observations B-1..B-7 in
// design/C02-explore-notes.md; measured single-run CPU in parentheses, "-" = killed
// at 100 s); they are excluded from the default stream, `--big all` runs them.
var bigExcluded = map[string]string{
	"lsh-100g":         "B-1 math/bits.Lsh(1, 1e11): one 12.5 GB allocation -> fatal error: out of memory under the cap",
	"lsh-1g":           "B-1 math/bits.Lsh(1, 1e9): 125 MB integer, decimal rendering does not finish (-)",
	"lrange-10m":       "B-2 list.Range has no size limit (-)",
	"lrange-1g":        "B-2 list.Range has no size limit (-)",
	"lrange-tiny-step": "B-2 list.Range(0, 1, 1e-9): 1e9 elements (-)",
	"repeat-nest":      "B-3 strings.Repeat nested 1000x1000x1000 = 1 GB string (-)",
	"lrange-100k":      "B-4 evaluation quadratic in list length: 100k elements (53 s)",
	"lrepeat-100k":     "B-4 same (71 s)",
	"listlit-100k":     "B-4 same (38 s)",
	"compr-sq":         "B-4 same, 90k elements (75 s)",
	"compr-1m":         "B-4 same, 1M elements (-)",
	"fields-100k":      "B-5 100k fields: Syntax+format super-linear (-)",
	"disj-exp-20":      "B-6 exponential disjunction cross product (-)",
	"disj-exp-40":      "B-6 same (-)",
	"dup-exp-20":       "B-6 exponential duplication f(n) = {l: f(n-1), r: f(n-1)} (-)",
	"dup-exp-30":       "B-6 same (-)",
	"dup-exp-60":       "B-6 same (-)",
	"json-deep-9k":     "B-7 json.Unmarshal of 9000 nested lists: Syntax/yaml quadratic (27 s)",
	"json-deepobj-9k":  "B-7 9000 nested objects: yaml.Encode cubic (-)",
	"yaml-deepmap-9k":  "B-7 same (-)",
	"yaml-deep-20k":    "B-7 yaml.Unmarshal of 20000 nested lists: no nesting limit in the YAML decoder, super-linear (-)",
}
