// Worker mode: the pipeline parse -> compile -> validate -> export of one input,
// the transcript of everything observable, and the stdin/stdout line protocol.
package main

import (
	"bufio"
	"crypto/sha256"
	"encoding/hex"
	"fmt"
	"os"
	"regexp"
	"runtime"
	"runtime/debug"
	"strconv"
	"strings"
	"syscall"
	"time"

	"cuelang.org/go/cue"
	"cuelang.org/go/cue/ast"
	"cuelang.org/go/cue/cuecontext"
	"cuelang.org/go/cue/errors"
	"cuelang.org/go/cue/format"
	"cuelang.org/go/cue/parser"
	"cuelang.org/go/encoding/yaml"
)

// Memory cap of a worker (address space, like `ulimit -v`) and the soft limit
// handed to the Go collector so that the cap is hit by live data, not by
// garbage the collector had not yet looked at.
const (
	memCapBytes  = 4 << 30
	softMemLimit = 3 << 30
)

const inputName = "in.cue"

// C02X_TIMING=1: per-step wall time on stderr (triage aid; never part of a transcript).
var stepTiming = os.Getenv("C02X_TIMING") != ""

// transcript accumulates everything the pipeline lets a caller observe.
type transcript struct {
	b      strings.Builder
	status string // ok | parse-error | eval-error | export-error
	panics []string
}

func (t *transcript) sec(name string) { fmt.Fprintf(&t.b, "== %s\n", name) }
func (t *transcript) out(b []byte) {
	t.b.Write(b)
	if len(b) == 0 || b[len(b)-1] != '\n' {
		t.b.WriteByte('\n')
	}
}
func (t *transcript) errText(err error) string {
	if err == nil {
		return ""
	}
	// Details is what cmd/cue prints (sorted, de-duplicated, with positions);
	// the raw list (order of errors.Errors, message, path, positions) is what an
	// API user sees through err.Error()/Errors().
	var b strings.Builder
	b.WriteString(errors.Details(err, nil))
	b.WriteString("-- raw\n")
	for _, e := range errors.Errors(err) {
		fmt.Fprintf(&b, "%s | path=%s | pos=%v", e.Error(), strings.Join(e.Path(), "."), e.Position())
		for _, p := range e.InputPositions() {
			fmt.Fprintf(&b, " %v", p)
		}
		b.WriteByte('\n')
	}
	return b.String()
}
func (t *transcript) err(err error) {
	if err == nil {
		t.b.WriteString("err: <nil>\n")
		return
	}
	t.b.WriteString("err:\n")
	t.b.WriteString(t.errText(err))
}

var frameRe = regexp.MustCompile(`^(\S.*)\(.*\)$`)

// topFrames renders the stack of a recovered panic without addresses,
// goroutine ids or argument values: function names and file:line only.
func topFrames(stack []byte, n int) string {
	lines := strings.Split(string(stack), "\n")
	var fs []string
	seenPanic := false
	for i := 0; i+1 < len(lines); i++ {
		m := frameRe.FindStringSubmatch(lines[i])
		if m == nil || !strings.HasPrefix(lines[i+1], "\t") {
			continue
		}
		fn := m[1]
		loc := strings.TrimSpace(lines[i+1])
		if j := strings.Index(loc, " +0x"); j >= 0 {
			loc = loc[:j]
		}
		if j := strings.LastIndex(loc, "/"); j >= 0 {
			if k := strings.LastIndex(loc[:j], "/"); k >= 0 {
				loc = loc[k+1:]
			}
		}
		i++
		if !seenPanic {
			// skip debug.Stack, the deferred func and runtime.gopanic
			if fn == "panic" || strings.HasPrefix(fn, "runtime.gopanic") {
				seenPanic = true
			}
			continue
		}
		if strings.HasPrefix(fn, "runtime.") {
			continue
		}
		fs = append(fs, fn+"@"+loc)
		if len(fs) >= n {
			break
		}
	}
	return strings.Join(fs, " < ")
}

// step runs one pipeline step; a Go panic escaping the cue API is recorded
// in-band so that the rest of the batch is not lost.
func (t *transcript) step(name string, f func()) {
	t.sec(name)
	if stepTiming {
		t0 := time.Now()
		defer func() { fmt.Fprintf(os.Stderr, "timing %-20s %8d ms  transcript=%d bytes\n", name, time.Since(t0).Milliseconds(), t.b.Len()) }()
	}
	defer func() {
		if e := recover(); e != nil {
			msg := fmt.Sprint(e)
			if len(msg) > 400 {
				msg = msg[:400] + "..."
			}
			msg = strings.ReplaceAll(msg, "\n", "\\n")
			after := ""
			if t.status == "parse-error" {
				after = " [after parse-error: partial AST]"
			}
			line := fmt.Sprintf("PANIC %s%s %s || %s", name, after, msg, topFrames(debug.Stack(), 8))
			t.panics = append(t.panics, line)
			t.b.WriteString(line + "\n")
		}
	}()
	f()
}

func walkFields(t *transcript, v cue.Value, prefix string, depth int, budget *int) {
	it, err := v.Fields(cue.All())
	if err != nil {
		fmt.Fprintf(&t.b, "%sfields-err: %s", prefix, t.errText(err))
		return
	}
	for it.Next() {
		if *budget <= 0 {
			t.b.WriteString(prefix + "...\n")
			return
		}
		*budget--
		sel := it.Selector()
		fv := it.Value()
		fmt.Fprintf(&t.b, "%s%s %v opt=%v kind=%v\n", prefix, sel.String(), sel.ConstraintType(), it.IsOptional(), fv.IncompleteKind())
		if depth > 0 && fv.IncompleteKind()&cue.StructKind != 0 && fv.Err() == nil {
			walkFields(t, fv, prefix+"  ", depth-1, budget)
		}
	}
}

// pipeline is one complete run on one input with a fresh parse and a fresh context.
func pipeline(src []byte) *transcript {
	t := &transcript{status: "ok"}
	worse := func(s string) {
		rank := map[string]int{"ok": 0, "export-error": 1, "eval-error": 2, "parse-error": 3}
		if rank[s] > rank[t.status] {
			t.status = s
		}
	}
	var f *ast.File
	t.step("parse", func() {
		var err error
		f, err = parser.ParseFile(inputName, src, parser.ParseComments)
		t.err(err)
		if err != nil {
			worse("parse-error")
		}
		if f == nil {
			t.b.WriteString("file: <nil>\n")
		}
	})
	t.step("format.Source", func() {
		b, err := format.Source(src)
		t.err(err)
		t.out(b)
	})
	if f == nil {
		return t
	}
	if t.status == "ok" {
		t.step("format.Node(parsed)", func() {
			b, err := format.Node(f)
			t.err(err)
			t.out(b)
		})
	}
	var v cue.Value
	built := false
	t.step("build", func() {
		ctx := cuecontext.New()
		v = ctx.BuildFile(f, cue.Filename(inputName))
		built = true
		err := v.Err()
		t.err(err)
		if err != nil {
			worse("eval-error")
		}
	})
	if !built {
		return t
	}
	t.step("validate", func() {
		err := v.Validate()
		t.err(err)
		if err != nil {
			worse("eval-error")
		}
	})
	t.step("validate-concrete", func() {
		err := v.Validate(cue.Concrete(true))
		t.err(err)
		if err != nil {
			worse("export-error")
		}
	})
	t.step("syntax-final", func() {
		n := v.Syntax(cue.Final())
		b, err := format.Node(n)
		t.err(err)
		t.out(b)
	})
	t.step("syntax-all-docs", func() {
		n := v.Syntax(cue.All(), cue.Docs(true))
		b, err := format.Node(n)
		t.err(err)
		t.out(b)
	})
	t.step("json", func() {
		b, err := v.MarshalJSON()
		t.err(err)
		if err != nil {
			worse("export-error")
		}
		t.out(b)
	})
	t.step("yaml", func() {
		b, err := yaml.Encode(v)
		t.err(err)
		if err != nil {
			worse("export-error")
		}
		t.out(b)
	})
	t.step("fields", func() {
		budget := 4000
		walkFields(t, v, "", 3, &budget)
	})
	return t
}

// cpuMillis: user+system CPU time of this process so far.
func cpuMillis() int64 {
	var ru syscall.Rusage
	if err := syscall.Getrusage(syscall.RUSAGE_SELF, &ru); err != nil {
		return 0
	}
	return (ru.Utime.Sec+ru.Stime.Sec)*1000 + int64(ru.Utime.Usec+ru.Stime.Usec)/1000
}

// normalize used to remove the run-to-run variation of finding F-C02-1 (compile.popScope reported
// unreferenced let clauses / aliases in map order).  F-C02-1 is FIXED in /repo (fix: commit ff805e5,
// popScope iterates over the sorted names), so nothing is normalised any more: any difference between
// two transcripts of one input, including the order of these errors, is a violation.
func normalize(s string) string {
	return s
}

const unrefLetMsg = "unreferenced alias or let clause "

var (
	unrefNameRe = regexp.MustCompile(`unreferenced alias or let clause [^\s:)\]]+`)
	posRe       = regexp.MustCompile(`in\.cue:\d+:\d+`)
	posOnlyRe   = regexp.MustCompile(`^\s+in\.cue:\d+:\d+$`)
)

func shaOf(s string) string {
	h := sha256.Sum256([]byte(s))
	return hex.EncodeToString(h[:])
}

func hexOrDash(s string) string {
	if s == "" {
		return "-"
	}
	return hex.EncodeToString([]byte(s))
}

func unhexOrDash(s string) string {
	if s == "-" {
		return ""
	}
	b, err := hex.DecodeString(s)
	if err != nil {
		return "<bad hex>"
	}
	return string(b)
}

// workerMain: one input per stdin line `<id> <kind> <hex>`; one result line per
// input on stdout, flushed, so that the parent knows which input was in flight
// when the process died.
//
//	(each sha is "<sha256 of the transcript>:<sha256 of normalize(transcript)>")
//	R <id> <sha run1> <sha run2|-> <wall ms> <cpu ms> <status> <hex summary|->
//	D <id> <run> <hex transcript>        (only with --dump, before the R line)
func workerMain(args []string) {
	twice, dump := false, false
	for _, a := range args {
		switch a {
		case "--twice":
			twice = true
		case "--dump":
			dump = true
		}
	}
	lim := syscall.Rlimit{Cur: memCapBytes, Max: memCapBytes}
	if err := syscall.Setrlimit(syscall.RLIMIT_AS, &lim); err != nil {
		fmt.Fprintf(os.Stderr, "c02x worker: setrlimit(RLIMIT_AS): %v\n", err)
		os.Exit(3)
	}
	debug.SetMemoryLimit(softMemLimit)
	// no core files, whatever happens
	_ = syscall.Setrlimit(syscall.RLIMIT_CORE, &syscall.Rlimit{})
	runtime.GOMAXPROCS(2)
	if mb := os.Getenv("C02X_MAXSTACK_MB"); mb != "" {
		// triage aid (minimising a stack overflow quickly); the default 1 GB limit is never changed otherwise
		if n, err := strconv.Atoi(mb); err == nil && n > 0 {
			debug.SetMaxStack(n << 20)
		}
	}

	in := bufio.NewReaderSize(os.Stdin, 1<<20)
	out := bufio.NewWriterSize(os.Stdout, 1<<16)
	fmt.Fprintln(out, "READY")
	out.Flush()
	for {
		line, err := in.ReadString('\n')
		line = strings.TrimRight(line, "\r\n")
		if line != "" {
			f := strings.Fields(line)
			if len(f) != 3 {
				fmt.Fprintf(os.Stderr, "c02x worker: bad input line (%d fields)\n", len(f))
				os.Exit(3)
			}
			src := []byte(unhexOrDash(f[2]))
			t0 := time.Now()
			c0 := cpuMillis()
			t1 := pipeline(src)
			s1 := t1.b.String()
			sha1, sha2 := shaOf(s1)+":"+shaOf(normalize(s1)), "-"
			if dump {
				fmt.Fprintf(out, "D %s 1 %s\n", f[0], hexOrDash(s1))
			}
			status := t1.status
			panics := t1.panics
			if twice {
				s1 = "" // let the first transcript be collected
				t2 := pipeline(src)
				s2 := t2.b.String()
				sha2 = shaOf(s2) + ":" + shaOf(normalize(s2))
				if dump {
					fmt.Fprintf(out, "D %s 2 %s\n", f[0], hexOrDash(s2))
				}
				if len(panics) == 0 {
					panics = t2.panics
				}
			}
			summary := ""
			if len(panics) > 0 {
				status = "panic"
				summary = strings.Join(panics, "\n")
			}
			fmt.Fprintf(out, "R %s %s %s %d %d %s %s\n", f[0], sha1, sha2, time.Since(t0).Milliseconds(), cpuMillis()-c0, status, hexOrDash(summary))
			out.Flush()
		}
		if err != nil {
			break
		}
	}
	out.Flush()
}
