// harness-c02x: direct exploration for property C02 ("parsing, compiling,
// evaluating and exporting never crash and are repeatable").
//
//	harness-c02x run --seed S --tier quick|thorough --out DIR [--replay FILE] [--workers K]
//	                 [--repo /repo] [--big default|all|none] [--gen safe|wild] [--timeout SECONDS] [--only KINDPREFIX]
//	harness-c02x worker [--twice] [--dump]          (child; see worker.go)
//	harness-c02x gen --seed S --tier T              (print the input list only)
//
// The parent builds a deterministic input list, runs every batch in two child
// processes (A: each input twice with fresh contexts, B: once) under a memory
// cap and a per-input watchdog, requires the three transcripts to be
// byte-identical, and turns every child death or in-band panic into a crash
// observation with the concrete input.  This is exploration, not proof.
package main

import (
	"regexp"
	"bufio"
	"bytes"
	"encoding/hex"
	"encoding/json"
	"fmt"
	"io"
	"os"
	"os/exec"
	"path/filepath"
	"sort"
	"strings"
	"sync"
	"sync/atomic"
	"syscall"
	"time"

	"cuelang.org/go/internal/verifharness/common"
)

type Res struct {
	Sha1, Sha2 string
	Ms, CPUMs  int
	Status     string
	Summary    string
}

type Death struct {
	Idx    int    // index (in the child's input list) of the input in flight; -1 if none
	How    string // panic | signal | fatal | timeout | memcap | exit | startup
	Detail string
}

type Crash struct {
	ID         int    `json:"id"`
	Kind       string `json:"kind"`
	Note       string `json:"note,omitempty"`
	InputHex   string `json:"input_hex"`
	How        string `json:"how"`
	Detail     string `json:"detail"`
	Mode       string `json:"mode"`
	Reproduced bool   `json:"reproduced_alone"`
	Known      string `json:"known,omitempty"`
}

type Nondet struct {
	ID       int    `json:"id"`
	Kind     string `json:"kind"`
	Note     string `json:"note,omitempty"`
	InputHex string `json:"input_hex"`
	Which    string `json:"which"` // same-process | cross-process
	Diff     string `json:"diff"`
	Known    string `json:"known,omitempty"`
}

type parent struct {
	exe      string
	out      string
	timeout  time.Duration
	mu       sync.Mutex
	resA     map[int]*Res
	resB     map[int]*Res
	crashes  map[int]*Crash
	herrs    []string
	children int64
	runs     int64
	deaths   int  // unclassified confirmed child deaths
	aborted  bool // circuit breaker tripped: remaining batches skipped
}

// capBuf keeps the head and the tail of a stream.
type capBuf struct {
	mu   sync.Mutex
	head []byte
	tail []byte
	n    int
}

const capHead, capTail = 48 << 10, 16 << 10

func (c *capBuf) Write(p []byte) (int, error) {
	c.mu.Lock()
	defer c.mu.Unlock()
	c.n += len(p)
	q := p
	if len(c.head) < capHead {
		k := capHead - len(c.head)
		if k > len(q) {
			k = len(q)
		}
		c.head = append(c.head, q[:k]...)
		q = q[k:]
	}
	if len(q) > 0 {
		c.tail = append(c.tail, q...)
		if len(c.tail) > capTail {
			c.tail = c.tail[len(c.tail)-capTail:]
		}
	}
	return len(p), nil
}
func (c *capBuf) String() string {
	c.mu.Lock()
	defer c.mu.Unlock()
	if len(c.tail) == 0 {
		return string(c.head)
	}
	return string(c.head) + "\n...[elided]...\n" + string(c.tail)
}

type childOut struct {
	res   map[int]*Res
	dumps map[int]map[int]string
	death *Death
}

func inputLine(in Input) string {
	return fmt.Sprintf("%d %s %s\n", in.ID, in.Kind, hexOrDash(string(in.Src)))
}

// stderrDetail: the message and the first stack lines of a Go crash trace.
func stderrDetail(s string) string {
	lines := strings.Split(s, "\n")
	start := 0
	for i, l := range lines {
		if strings.HasPrefix(l, "panic:") || strings.HasPrefix(l, "fatal error:") || strings.HasPrefix(l, "runtime:") || strings.HasPrefix(l, "SIG") {
			start = i
			break
		}
	}
	// the message: everything up to the first blank line or stack header
	var keep []string
	for _, l := range lines[start:] {
		if l == "" || strings.HasPrefix(l, "goroutine ") || strings.HasPrefix(l, "runtime stack:") || len(keep) >= 8 {
			break
		}
		if len(l) > 300 {
			l = l[:300] + "..."
		}
		keep = append(keep, l)
	}
	// the stack of the main goroutine (the pipeline runs there): top frames as
	// func@dir/file:line, without argument values and addresses
	g1 := -1
	for i, l := range lines {
		if strings.HasPrefix(l, "goroutine 1 ") {
			g1 = i
			break
		}
	}
	if g1 >= 0 {
		keep = append(keep, strings.SplitN(lines[g1], " gp=", 2)[0]+" (main goroutine), top frames:")
		n := 0
		for i := g1 + 1; i+1 < len(lines) && n < 120; i++ {
			l := lines[i]
			if l == "" {
				break
			}
			if strings.HasPrefix(l, "\t") || !strings.HasPrefix(lines[i+1], "\t") {
				continue
			}
			fn := l
			if k := strings.LastIndexByte(fn, '('); k > 0 {
				fn = fn[:k]
			}
			fn = strings.TrimPrefix(fn, "cuelang.org/go/")
			loc := strings.TrimSpace(lines[i+1])
			if k := strings.Index(loc, " +0x"); k >= 0 {
				loc = loc[:k]
			}
			if k := strings.LastIndex(loc, "/"); k >= 0 {
				if m := strings.LastIndex(loc[:k], "/"); m >= 0 {
					loc = loc[m+1:]
				}
			}
			keep = append(keep, "  "+fn+"@"+loc)
			n++
		}
	}
	return strings.Join(keep, "\n")
}

func classifyDeath(timedOut bool, ws syscall.WaitStatus, exitErr error, stderr string) string {
	switch {
	case timedOut:
		return "timeout"
	case strings.Contains(stderr, "out of memory") || strings.Contains(stderr, "cannot allocate memory") || strings.Contains(stderr, "errno=12"):
		return "memcap"
	case strings.Contains(stderr, "fatal error:") || strings.Contains(stderr, "goroutine stack exceeds"):
		return "fatal"
	case strings.Contains(stderr, "panic:"):
		return "panic"
	case ws.Signaled():
		return "signal"
	}
	return "exit"
}

func (p *parent) runChild(mode string, inputs []Input, dump bool) childOut {
	atomic.AddInt64(&p.children, 1)
	isHeavy := false
	for _, in := range inputs {
		if heavy(in.Kind) {
			isHeavy = true
		}
	}
	co := childOut{res: map[int]*Res{}, dumps: map[int]map[int]string{}}
	args := []string{"worker"}
	mult := time.Duration(1)
	if mode == "A" {
		args = append(args, "--twice")
		mult = 2
	}
	if dump {
		args = append(args, "--dump")
	}
	cmd := exec.Command(p.exe, args...)
	cmd.Env = append(os.Environ(), "GOTRACEBACK=all")
	stdin, err := cmd.StdinPipe()
	if err != nil {
		co.death = &Death{Idx: -1, How: "startup", Detail: err.Error()}
		return co
	}
	stdout, err := cmd.StdoutPipe()
	if err != nil {
		co.death = &Death{Idx: -1, How: "startup", Detail: err.Error()}
		return co
	}
	var stderr capBuf
	cmd.Stderr = &stderr
	if err := cmd.Start(); err != nil {
		co.death = &Death{Idx: -1, How: "startup", Detail: err.Error()}
		return co
	}
	go func() {
		w := bufio.NewWriterSize(stdin, 1<<20)
		for _, in := range inputs {
			if _, err := w.WriteString(inputLine(in)); err != nil {
				break
			}
		}
		w.Flush()
		stdin.Close()
	}()
	lines := make(chan string, 16)
	go func() {
		rd := bufio.NewReaderSize(stdout, 1<<20)
		for {
			l, err := rd.ReadString('\n')
			if l != "" {
				lines <- strings.TrimRight(l, "\n")
			}
			if err != nil {
				break
			}
		}
		close(lines)
	}()
	// Watchdog.  The machine is shared, so the budget of an input is CPU time of
	// the child (user+system, read from /proc) since its last result line; wall
	// time is only a fallback (x8) for a child that hangs without burning CPU.
	timedOut := false
	timeoutWhat := ""
	ready := false
	done := 0
	cpuLimit := p.timeout * mult
	if isHeavy {
		cpuLimit *= heavyFactor // deep/big inputs: polynomial but slow steps are expected
	}
	wallLimit := 8 * cpuLimit
	lastWall := time.Now()
	lastCPU := time.Duration(0)
	tick := time.NewTicker(500 * time.Millisecond)
	defer tick.Stop()
loop:
	for {
		select {
		case l, ok := <-lines:
			if !ok {
				break loop
			}
			switch {
			case l == "READY":
				ready = true
			case strings.HasPrefix(l, "D "):
				f := strings.Fields(l)
				if len(f) == 4 {
					id, run := common.Atoi(f[1], -1), common.Atoi(f[2], 0)
					if co.dumps[id] == nil {
						co.dumps[id] = map[int]string{}
					}
					co.dumps[id][run] = unhexOrDash(f[3])
				}
			case strings.HasPrefix(l, "R "):
				f := strings.Fields(l)
				if len(f) == 8 {
					id := common.Atoi(f[1], -1)
					co.res[id] = &Res{Sha1: f[2], Sha2: f[3], Ms: common.Atoi(f[4], 0), CPUMs: common.Atoi(f[5], 0), Status: f[6], Summary: unhexOrDash(f[7])}
					done++
					if mode == "A" {
						atomic.AddInt64(&p.runs, 2)
					} else {
						atomic.AddInt64(&p.runs, 1)
					}
				}
				lastWall = time.Now()
				lastCPU = procCPU(cmd.Process.Pid)
			}
		case <-tick.C:
			if timedOut {
				continue
			}
			cpu := procCPU(cmd.Process.Pid)
			switch {
			case cpu-lastCPU > cpuLimit:
				timeoutWhat = fmt.Sprintf("no result after %v of CPU time (limit %v)", (cpu - lastCPU).Round(time.Second), cpuLimit)
			case time.Since(lastWall) > wallLimit:
				timeoutWhat = fmt.Sprintf("no result after %v of wall time, only %v of CPU (limit %v wall)", time.Since(lastWall).Round(time.Second), (cpu - lastCPU).Round(time.Second), wallLimit)
			default:
				continue
			}
			timedOut = true
			// SIGQUIT makes the Go runtime dump the goroutine stacks (where was it
			// spinning?) and exit; SIGKILL follows if it does not.  Keep draining
			// until the pipe closes.
			_ = cmd.Process.Signal(syscall.SIGQUIT)
			go func(pr *os.Process) {
				// generous: on a loaded machine the dump itself needs CPU; an idle one answers in milliseconds
				time.Sleep(45 * time.Second)
				_ = pr.Kill()
			}(cmd.Process)
		}
	}
	werr := cmd.Wait()
	if werr == nil && done == len(inputs) && !timedOut {
		return co
	}
	var ws syscall.WaitStatus
	if cmd.ProcessState != nil {
		ws, _ = cmd.ProcessState.Sys().(syscall.WaitStatus)
	}
	se := stderr.String()
	how := classifyDeath(timedOut, ws, werr, se)
	d := &Death{Idx: done, How: how}
	if done >= len(inputs) {
		d.Idx = -1
	}
	if !ready && !timedOut {
		d.How = "startup"
		d.Idx = -1
	}
	state := ""
	if cmd.ProcessState != nil {
		state = cmd.ProcessState.String()
	}
	d.Detail = fmt.Sprintf("[%s; %s]\n%s", how, state, stderrDetail(se))
	if timedOut {
		d.Detail = fmt.Sprintf("[timeout: %s; killed]\n%s", timeoutWhat, stderrDetail(se))
	}
	co.death = d
	return co
}

// procCPU: user+system CPU time of a live process (0 when it is gone).
func procCPU(pid int) time.Duration {
	b, err := os.ReadFile(fmt.Sprintf("/proc/%d/stat", pid))
	if err != nil {
		return 0
	}
	s := string(b)
	i := strings.LastIndexByte(s, ')') // the command name may contain blanks
	if i < 0 {
		return 0
	}
	f := strings.Fields(s[i+1:])
	if len(f) < 13 {
		return 0
	}
	ticks := common.Atoi(f[11], 0) + common.Atoi(f[12], 0) // utime, stime (fields 14, 15)
	return time.Duration(ticks) * time.Second / 100        // USER_HZ is 100 on Linux
}

func (p *parent) merge(mode string, res map[int]*Res) {
	p.mu.Lock()
	defer p.mu.Unlock()
	for id, r := range res {
		if mode == "A" {
			p.resA[id] = r
		} else {
			p.resB[id] = r
		}
	}
}

func (p *parent) addCrash(in Input, how, detail, mode string, reproduced bool) {
	p.mu.Lock()
	defer p.mu.Unlock()
	if old, ok := p.crashes[in.ID]; ok {
		// keep the reproduced / out-of-band observation
		if old.Reproduced || !reproduced {
			return
		}
	}
	c := &Crash{ID: in.ID, Kind: in.Kind, Note: in.Note, InputHex: hexOrDash(string(in.Src)), How: how, Detail: detail, Mode: mode, Reproduced: reproduced}
	if _, seen := p.crashes[in.ID]; !seen && reproduced && how != "panic" && classifyCrash(c, in.Src) == "" {
		// circuit breaker: every child death costs up to the CPU limit several times over; once a
		// handful of unclassified ones is confirmed the run is red anyway, so stop scheduling batches
		p.deaths++
		if p.deaths >= maxDeaths {
			p.aborted = true
		}
	}
	p.crashes[in.ID] = c
}

// maxDeaths: unclassified child deaths (timeout, fatal, signal, memcap) after which the remaining
// batches are skipped (massive breakage: the run stays bounded; the report says so).
const maxDeaths = 6

func (p *parent) isAborted() bool {
	p.mu.Lock()
	defer p.mu.Unlock()
	return p.aborted
}

func (p *parent) harnessErr(s string) {
	p.mu.Lock()
	p.herrs = append(p.herrs, s)
	p.mu.Unlock()
}

// runBatch runs the inputs in one child; when the child dies the input in
// flight is re-run alone (its own child, its own timeout) and the rest of the
// batch continues in a fresh child.
func (p *parent) runBatch(mode string, inputs []Input) {
	pending := inputs
	for len(pending) > 0 {
		if p.isAborted() {
			return
		}
		co := p.runChild(mode, pending, false)
		p.merge(mode, co.res)
		if co.death == nil {
			return
		}
		i := co.death.Idx
		if i < 0 || i >= len(pending) {
			p.harnessErr(fmt.Sprintf("child (mode %s) died with no input in flight: %s", mode, co.death.Detail))
			return
		}
		culprit := pending[i]
		solo := p.runChild(mode, []Input{culprit}, false)
		// A SIGQUIT dump of a timeout has no cue frames when the signal lands while the main goroutine runs
		// on the system stack (GC assist) or on another thread: the known-class recognisers need the frames,
		// so take the dump of the batch child if it has them, else re-run (at most twice more).
		for try := 0; solo.death != nil && solo.death.How == "timeout" && !hasCueFrames(solo.death.Detail) && try < 2; try++ {
			if co.death.How == "timeout" && hasCueFrames(co.death.Detail) {
				solo.death.Detail = co.death.Detail
				break
			}
			if again := p.runChild(mode, []Input{culprit}, false); again.death != nil && again.death.How == "timeout" && hasCueFrames(again.death.Detail) {
				solo = again
			}
		}
		if solo.death != nil {
			if solo.death.How == "startup" {
				p.harnessErr("solo child failed to start: " + solo.death.Detail)
			} else {
				p.addCrash(culprit, solo.death.How, solo.death.Detail, mode, true)
			}
		} else {
			p.merge(mode, solo.res)
			p.addCrash(culprit, "unreproduced-"+co.death.How, "died in a batch child, completed when re-run alone\n"+co.death.Detail, mode, false)
		}
		pending = pending[i+1:]
	}
}

var cueFrameRe = regexp.MustCompile(`(?m)^  (cue|internal|pkg|encoding|mod|tools|cmd|cuego|unstable)/`)

func hasCueFrames(detail string) bool { return cueFrameRe.MatchString(detail) }

func firstDiff(a, b string) string {
	la, lb := strings.Split(a, "\n"), strings.Split(b, "\n")
	sec := ""
	for i := 0; i < len(la) || i < len(lb); i++ {
		var x, y string
		if i < len(la) {
			x = la[i]
		} else {
			x = "<eof>"
		}
		if i < len(lb) {
			y = lb[i]
		} else {
			y = "<eof>"
		}
		if strings.HasPrefix(x, "== ") && x == y {
			sec = x[3:]
		}
		if x != y {
			cut := func(s string) string {
				if len(s) > 300 {
					return s[:300] + "..."
				}
				return s
			}
			return fmt.Sprintf("step %q line %d: %q vs %q", sec, i+1, cut(x), cut(y))
		}
	}
	return "identical"
}

func sizeBucket(n int) string {
	switch {
	case n < 64:
		return "a:<64"
	case n < 256:
		return "b:<256"
	case n < 1024:
		return "c:<1K"
	case n < 4096:
		return "d:<4K"
	case n < 16384:
		return "e:<16K"
	case n < 65536:
		return "f:<64K"
	}
	return "g:>=64K"
}

const heavyFactor = 4

// maxDetailedNondet: how many nondeterministic inputs are re-run with --dump for a line-level diff.
const maxDetailedNondet = 12

func heavy(kind string) bool { return strings.HasPrefix(kind, "deep-") || kind == "big" }

func parentMain(argv []string) int {
	a := common.Args(argv)
	seed := uint64(common.Atoi(a["--seed"], 1))
	tier := a["--tier"]
	if _, ok := tiers[tier]; !ok {
		tier = "quick"
	}
	cfg := tiers[tier]
	outDir := a["--out"]
	if outDir == "" {
		fmt.Fprintln(os.Stderr, "c02x: --out DIR required")
		return 2
	}
	if err := os.MkdirAll(outDir, 0o755); err != nil {
		fmt.Fprintln(os.Stderr, "c02x:", err)
		return 2
	}
	repo := a["--repo"]
	if repo == "" {
		repo = os.Getenv("VERIF_REPO")
	}
	if repo == "" {
		repo = "/repo"
	}
	workers := common.Atoi(a["--workers"], 8)
	bigMode := a["--big"]
	if bigMode == "" {
		bigMode = "default"
	}
	if a["--gen"] == "wild" {
		genMode = "wild"
	}
	exe, err := os.Executable()
	if err != nil {
		fmt.Fprintln(os.Stderr, "c02x:", err)
		return 2
	}
	t0 := time.Now()
	p := &parent{exe: exe, out: outDir, timeout: time.Duration(common.Atoi(a["--timeout"], cfg.perInputTimeout)) * time.Second,
		resA: map[int]*Res{}, resB: map[int]*Res{}, crashes: map[int]*Crash{}}

	var inputs []Input
	dist := map[string]any{}
	replay := a["--replay"]
	if replay != "" {
		data, err := os.ReadFile(replay)
		if err != nil {
			fmt.Fprintln(os.Stderr, "c02x:", err)
			return 2
		}
		for _, l := range strings.Split(string(data), "\n") {
			f := strings.Fields(l)
			if len(f) != 2 {
				continue
			}
			inputs = append(inputs, Input{ID: len(inputs), Kind: f[0], Src: []byte(unhexOrDash(f[1])), Note: "replay"})
		}
	} else {
		inputs, dist = buildInputs(repo, tier, seed, bigMode)
		// regression corpus (corpus/C02 witnesses of listed findings), run first on every run
		if ws := a["--witnesses"]; ws != "" {
			var pre []Input
			for _, fn := range strings.Split(ws, ",") {
				data, err := os.ReadFile(fn)
				if err != nil {
					fmt.Fprintln(os.Stderr, "c02x: witness:", err)
					return 2
				}
				pre = append(pre, Input{Kind: "witness", Src: data, Note: filepath.Base(fn)})
			}
			inputs = append(pre, inputs...)
			for i := range inputs {
				inputs[i].ID = i
			}
		}
	}
	if only := a["--only"]; only != "" { // restrict to kinds with this prefix (triage aid)
		var sel []Input
		for _, in := range inputs {
			if strings.HasPrefix(in.Kind, only) {
				sel = append(sel, in)
			}
		}
		inputs = sel
	}
	byID := map[int]Input{}
	{
		f, err := os.Create(filepath.Join(outDir, "inputs.txt"))
		if err != nil {
			fmt.Fprintln(os.Stderr, "c02x:", err)
			return 2
		}
		w := bufio.NewWriterSize(f, 1<<20)
		for _, in := range inputs {
			byID[in.ID] = in
			w.WriteString(inputLine(in))
		}
		w.Flush()
		f.Close()
	}

	// batches: heavy inputs in small batches, scheduled first
	var batches [][]Input
	var hv, lt []Input
	for _, in := range inputs {
		if heavy(in.Kind) {
			hv = append(hv, in)
		} else {
			lt = append(lt, in)
		}
	}
	split := func(xs []Input, n int) {
		for len(xs) > 0 {
			k := n
			if k > len(xs) {
				k = len(xs)
			}
			batches = append(batches, xs[:k])
			xs = xs[k:]
		}
	}
	if replay != "" {
		split(inputs, 1)
	} else {
		split(hv, 4)
		split(lt, cfg.batch)
	}
	type job struct {
		mode  string
		batch []Input
	}
	jobs := make(chan job)
	var wg sync.WaitGroup
	for i := 0; i < workers; i++ {
		wg.Add(1)
		go func() {
			defer wg.Done()
			for j := range jobs {
				p.runBatch(j.mode, j.batch)
			}
		}()
	}
	for _, b := range batches {
		jobs <- job{"A", b}
		jobs <- job{"B", b}
	}
	close(jobs)
	wg.Wait()

	// in-band panics are crash observations too
	for _, in := range inputs {
		for _, r := range []*Res{p.resA[in.ID], p.resB[in.ID]} {
			if r != nil && r.Status == "panic" {
				p.addCrash(in, "panic", r.Summary, "in-band", true)
				break
			}
		}
	}

	// repeatability
	var nondet, knownNondet []*Nondet
	normOf := func(s string) string {
		if i := strings.IndexByte(s, ':'); i >= 0 {
			return s[i+1:]
		}
		return s
	}
	for _, in := range inputs {
		ra, rb := p.resA[in.ID], p.resB[in.ID]
		if ra == nil || rb == nil {
			continue
		}
		which := ""
		switch {
		case ra.Sha1 != ra.Sha2:
			which = "same-process"
		case ra.Sha1 != rb.Sha1:
			which = "cross-process"
		}
		if which == "" {
			continue
		}
		if normOf(ra.Sha1) == normOf(ra.Sha2) && normOf(ra.Sha1) == normOf(rb.Sha1) {
			// the transcripts differ only by what normalize() removes: known finding F-C02-1
			knownNondet = append(knownNondet, &Nondet{ID: in.ID, Kind: in.Kind, Note: in.Note, InputHex: hexOrDash(string(in.Src)), Which: which,
				Diff: "transcripts differ only in the order of 'unreferenced alias or let clause' errors inside raw error lists (equal after normalize())", Known: "F-C02-1"})
			continue
		}
		nd := &Nondet{ID: in.ID, Kind: in.Kind, Note: in.Note, InputHex: hexOrDash(string(in.Src)), Which: which}
		diff := ""
		if len(nondet) >= maxDetailedNondet {
			// massive breakage: keep the run bounded, the first ones carry full diffs
			diff = fmt.Sprintf("transcript hashes differ (A1=%s A2=%s B=%s); no detailed re-run beyond the first %d", ra.Sha1[:12], ra.Sha2[:12], rb.Sha1[:12], maxDetailedNondet)
		}
		for try := 0; try < 3 && diff == ""; try++ {
			da := p.runChild("A", []Input{in}, true)
			db := p.runChild("B", []Input{in}, true)
			t1, t2, t3 := da.dumps[in.ID][1], da.dumps[in.ID][2], db.dumps[in.ID][1]
			switch {
			case da.death != nil || db.death != nil:
				diff = "re-run with --dump died"
			case normalize(t1) != normalize(t2):
				diff = "run1 vs run2 (same process): " + firstDiff(normalize(t1), normalize(t2))
			case normalize(t1) != normalize(t3):
				diff = "process A vs process B: " + firstDiff(normalize(t1), normalize(t3))
			}
			if diff != "" && t1 != "" {
				os.WriteFile(filepath.Join(outDir, fmt.Sprintf("dump-%d-A1.txt", in.ID)), []byte(t1), 0o644)
				os.WriteFile(filepath.Join(outDir, fmt.Sprintf("dump-%d-A2.txt", in.ID)), []byte(t2), 0o644)
				os.WriteFile(filepath.Join(outDir, fmt.Sprintf("dump-%d-B.txt", in.ID)), []byte(t3), 0o644)
			}
		}
		if diff == "" {
			diff = fmt.Sprintf("hashes differed (A1=%s A2=%s B=%s) but 3 re-runs with --dump were identical", ra.Sha1[:12], ra.Sha2[:12], rb.Sha1[:12])
		}
		nd.Diff = diff
		nondet = append(nondet, nd)
	}
	if replay != "" {
		// always leave the transcripts of replayed inputs behind
		for _, in := range inputs {
			da := p.runChild("A", []Input{in}, true)
			if t, ok := da.dumps[in.ID][1]; ok {
				os.WriteFile(filepath.Join(outDir, fmt.Sprintf("dump-%d-A1.txt", in.ID)), []byte(t), 0o644)
			}
		}
	}

	// classification, counts, report
	kinds, statuses, sizes := map[string]int{}, map[string]int{}, map[string]int{}
	kindStatus := map[string]map[string]int{}
	type slow struct {
		ID   int    `json:"id"`
		Kind string `json:"kind"`
		Note string `json:"note"`
		Ms   int    `json:"wall_ms_two_runs"`
		CPU  int    `json:"cpu_ms_two_runs"`
	}
	var slows []slow
	var cpuTotal int64
	rf, _ := os.Create(filepath.Join(outDir, "results.txt"))
	rw := bufio.NewWriter(rf)
	for _, in := range inputs {
		kinds[in.Kind]++
		sizes[sizeBucket(len(in.Src))]++
		st, sha := "missing", "-"
		if c, ok := p.crashes[in.ID]; ok && c.Mode != "in-band" && c.Reproduced {
			st = "crash:" + c.How
		} else if r := p.resA[in.ID]; r != nil {
			st, sha = r.Status, r.Sha1
			slows = append(slows, slow{in.ID, in.Kind, in.Note, r.Ms, r.CPUMs})
			cpuTotal += int64(r.CPUMs)
		} else if r := p.resB[in.ID]; r != nil {
			st, sha = r.Status, r.Sha1
		}
		statuses[st]++
		if kindStatus[in.Kind] == nil {
			kindStatus[in.Kind] = map[string]int{}
		}
		kindStatus[in.Kind][st]++
		fmt.Fprintf(rw, "%d %s %s\n", in.ID, st, normOf(sha))
	}
	rw.Flush()
	rf.Close()
	if statuses["missing"] > 0 && !p.aborted {
		p.harnessErr(fmt.Sprintf("%d inputs have neither a result nor a crash observation", statuses["missing"]))
	}
	sort.Slice(slows, func(i, j int) bool { return slows[i].CPU > slows[j].CPU })
	if len(slows) > 12 {
		slows = slows[:12]
	}
	var crashes, known []any
	var ids []int
	for id := range p.crashes {
		ids = append(ids, id)
	}
	sort.Ints(ids)
	for _, id := range ids {
		c := p.crashes[id]
		c.Known = classifyCrash(c, byID[id].Src)
		if c.Known != "" {
			known = append(known, c)
		} else {
			crashes = append(crashes, c)
		}
	}
	var nds []any
	for _, nd := range nondet {
		nd.Known = classifyNondet(nd, byID[nd.ID].Src)
		if nd.Known != "" {
			known = append(known, nd)
		} else {
			nds = append(nds, nd)
		}
	}
	for _, nd := range knownNondet {
		known = append(known, nd)
	}
	if crashes == nil {
		crashes = []any{}
	}
	if nds == nil {
		nds = []any{}
	}
	if known == nil {
		known = []any{}
	}
	report := map[string]any{
		"label":                        "exploration (isolated-worker runs); NOT proof",
		"seed":                         seed,
		"tier":                         tier,
		"replay":                       replay != "",
		"distinct_inputs":              len(inputs),
		"evaluations":                  atomic.LoadInt64(&p.runs),
		"kinds":                        kinds,
		"statuses":                     statuses,
		"kind_status":                  kindStatus,
		"size_histogram_bytes":         sizes,
		"batches":                      len(batches),
		"children":                     atomic.LoadInt64(&p.children),
		"workers":                      workers,
		"per_input_cpu_limit_s":        int(p.timeout / time.Second),
		"heavy_input_cpu_limit_factor": heavyFactor,
		"cpu_s_mode_A_total":           float64(cpuTotal) / 1000,
		"mem_cap_bytes":                int64(memCapBytes),
		"crashes":                      crashes,
		"nondet":                       nds,
		"known":                        known,
		"known_classes":                knownClasses,
		"harness_errors":               p.herrs,
		"aborted_after_deaths":         p.aborted,
		"slowest":                      slows,
		"input_distribution":           dist,
		"wall_s":                       time.Since(t0).Seconds(),
	}
	jb, _ := json.MarshalIndent(report, "", " ")
	if err := os.WriteFile(filepath.Join(outDir, "report.json"), append(jb, '\n'), 0o644); err != nil {
		fmt.Fprintln(os.Stderr, "c02x:", err)
		return 2
	}
	fmt.Fprintf(os.Stderr, "c02x: tier=%s seed=%d inputs=%d runs=%d children=%d crashes=%d nondet=%d known=%d harness_errors=%d wall=%.1fs\n",
		tier, seed, len(inputs), p.runs, p.children, len(crashes), len(nds), len(known), len(p.herrs), time.Since(t0).Seconds())
	fmt.Fprintf(os.Stderr, "c02x: kinds=%v\nc02x: statuses=%v\n", kinds, statuses)
	if len(p.herrs) > 0 {
		for _, e := range p.herrs {
			fmt.Fprintln(os.Stderr, "c02x: HARNESS ERROR:", e)
		}
		return 2
	}
	return 0
}

func genMain(argv []string) int {
	a := common.Args(argv)
	tier := a["--tier"]
	if _, ok := tiers[tier]; !ok {
		tier = "quick"
	}
	repo := a["--repo"]
	if repo == "" {
		repo = "/repo"
	}
	ins, dist := buildInputs(repo, tier, uint64(common.Atoi(a["--seed"], 1)), a["--big"])
	w := bufio.NewWriter(os.Stdout)
	for _, in := range ins {
		if a["--text"] != "" {
			fmt.Fprintf(w, "### %d %s %s\n%s\n", in.ID, in.Kind, in.Note, in.Src)
		} else {
			fmt.Fprintf(w, "%d %s %s %s\n", in.ID, in.Kind, hex.EncodeToString(in.Src), strings.ReplaceAll(in.Note, " ", "_"))
		}
	}
	w.Flush()
	fmt.Fprintln(os.Stderr, dist)
	return 0
}

var _ = io.EOF
var _ = bytes.MinRead

func main() {
	if len(os.Args) < 2 {
		fmt.Fprintln(os.Stderr, "usage: harness-c02x run|worker|gen ...")
		os.Exit(2)
	}
	switch os.Args[1] {
	case "worker":
		workerMain(os.Args[2:])
	case "run":
		os.Exit(parentMain(os.Args[2:]))
	case "gen":
		os.Exit(genMain(os.Args[2:]))
	default:
		fmt.Fprintln(os.Stderr, "usage: harness-c02x run|worker|gen ...")
		os.Exit(2)
	}
}
