// The deterministic input list: repository corpus, byte/token mutations of it,
// and generated programs.
package main

import (
	"bytes"
	"crypto/sha256"
	"fmt"
	"io/fs"
	"os"
	"path/filepath"
	"regexp"
	"sort"
	"strings"

	"cuelang.org/go/internal/verifharness/common"
	"golang.org/x/tools/txtar"
)

type Input struct {
	ID   int
	Kind string
	Src  []byte
	Note string // origin (corpus path, generator parameters); not part of the input
}

type corpusItem struct {
	name string
	src  []byte
}

var mdFence = regexp.MustCompile("(?s)```[a-z]*\n(.*?)```")

// loadCorpus: every .cue file, every .cue section of every .txtar, and the
// fenced code blocks of the .md files (doc/ has no .cue files of its own).
func loadCorpus(repo string, maxSize int) ([]corpusItem, int) {
	var items []corpusItem
	skipped := 0
	add := func(name string, b []byte) {
		if len(b) == 0 {
			return
		}
		if len(b) > maxSize {
			skipped++
			return
		}
		items = append(items, corpusItem{name, b})
	}
	for _, root := range []string{"cue/testdata", "doc", "encoding"} {
		_ = filepath.WalkDir(filepath.Join(repo, root), func(p string, d fs.DirEntry, err error) error {
			if err != nil || d.IsDir() {
				return nil
			}
			rel, _ := filepath.Rel(repo, p)
			switch filepath.Ext(p) {
			case ".cue":
				if b, err := os.ReadFile(p); err == nil {
					add(rel, b)
				}
			case ".txtar":
				b, err := os.ReadFile(p)
				if err != nil {
					return nil
				}
				for _, f := range txtar.Parse(b).Files {
					if strings.HasSuffix(f.Name, ".cue") {
						add(rel+":"+f.Name, f.Data)
					}
				}
			case ".md":
				if root != "doc" {
					return nil
				}
				b, err := os.ReadFile(p)
				if err != nil {
					return nil
				}
				for i, m := range mdFence.FindAllSubmatch(b, -1) {
					add(fmt.Sprintf("%s#%d", rel, i), m[1])
				}
			}
			return nil
		})
	}
	sort.Slice(items, func(i, j int) bool { return items[i].name < items[j].name })
	// de-duplicate by content
	seen := map[[32]byte]bool{}
	out := items[:0]
	for _, it := range items {
		h := sha256.Sum256(it.src)
		if seen[h] {
			continue
		}
		seen[h] = true
		out = append(out, it)
	}
	return out, skipped
}

// ---- mutations ---------------------------------------------------------------

var mutOps = []string{"bitflip", "del", "ins", "dup", "splice", "tokdel", "tokins", "bignum", "trunc", "swap", "nest", "line"}

var tokChars = []byte("{}[]()\"':,.#\\|&*=!<>?_$@\n")
var tokInserts = []string{`\(`, `"""`, `#"`, `"#`, `'''`, `\(x)`, "{", "}", "[", "]", "(", ")", ":", ",", "...", "?", "!", "*", "|", "&", "_|_", "//", "\n", "\"", "'", "\\", "#", "@a(", "for x in", "if ", "let ", "import \"", "0x", "1e", "e+", "..", "=~", "\x00", "\xff", "\xef\xbb\xbf", " ", "\r"}
var numRe = regexp.MustCompile(`[0-9]+`)

func mutate(r *common.Rng, op string, src []byte, other []byte) []byte {
	b := bytes.Clone(src)
	if len(b) == 0 {
		return []byte(common.Pick(r, tokInserts))
	}
	at := func() int { return r.Intn(len(b)) }
	switch op {
	case "bitflip":
		n := 1 + r.Intn(3)
		for i := 0; i < n; i++ {
			b[at()] ^= 1 << uint(r.Intn(8))
		}
	case "del":
		i := at()
		n := 1 + r.Intn(4)
		if i+n > len(b) {
			n = len(b) - i
		}
		b = append(b[:i], b[i+n:]...)
	case "ins":
		i := at()
		var ins []byte
		if r.Chance(1, 2) {
			ins = []byte{byte(r.Intn(256))}
		} else {
			ins = []byte{common.Pick(r, tokChars)}
		}
		b = append(b[:i], append(ins, b[i:]...)...)
	case "dup":
		i := at()
		n := 1 + r.Intn(40)
		if i+n > len(b) {
			n = len(b) - i
		}
		seg := bytes.Clone(b[i : i+n])
		k := 1
		if r.Chance(1, 6) {
			k = 2 + r.Intn(30)
		}
		seg = bytes.Repeat(seg, k)
		b = append(b[:i], append(seg, b[i:]...)...)
	case "splice":
		if len(other) > 0 {
			i, j := at(), r.Intn(len(other))
			b = append(bytes.Clone(b[:i]), other[j:]...)
		}
	case "tokdel":
		// delete one structural character
		var idx []int
		for i, c := range b {
			if bytes.IndexByte(tokChars, c) >= 0 {
				idx = append(idx, i)
			}
		}
		if len(idx) > 0 {
			i := common.Pick(r, idx)
			b = append(b[:i], b[i+1:]...)
		}
	case "tokins":
		i := at()
		b = append(b[:i], append([]byte(common.Pick(r, tokInserts)), b[i:]...)...)
	case "bignum":
		locs := numRe.FindAllIndex(b, -1)
		if len(locs) > 0 {
			l := common.Pick(r, locs)
			big := common.Pick(r, []string{"99999999999999999999999999999999999999", "1e400", "1e-400", "18446744073709551616", "-9223372036854775809", "0.000000000000000000000000000000000001", "1e99999", "0x" + strings.Repeat("f", 64), strings.Repeat("9", 400), "4294967296", "2147483648", "1Ei", "100000", "1e6"})
			b = append(bytes.Clone(b[:l[0]]), append([]byte(big), b[l[1]:]...)...)
		}
	case "trunc":
		b = b[:at()]
	case "swap":
		i, j := at(), at()
		b[i], b[j] = b[j], b[i]
	case "nest":
		// wrap a random line range in a struct / list / parens several times
		k := 1 + r.Intn(40)
		o, c := common.Pick(r, [][2]string{{"w: {", "}"}, {"w: [{", "}]"}, {"{", "}"}})[0], ""
		switch o {
		case "w: {", "{":
			c = "}"
		default:
			c = "}]"
		}
		b = []byte(strings.Repeat(o+"\n", k) + string(b) + "\n" + strings.Repeat(c+"\n", k))
	case "line":
		lines := bytes.Split(b, []byte("\n"))
		if len(lines) > 1 {
			i, j := r.Intn(len(lines)), r.Intn(len(lines))
			switch r.Intn(3) {
			case 0:
				lines[i], lines[j] = lines[j], lines[i]
			case 1:
				lines = append(lines[:i], lines[i+1:]...)
			default:
				lines = append(lines[:i], append([][]byte{bytes.Clone(lines[j])}, lines[i:]...)...)
			}
			b = bytes.Join(lines, []byte("\n"))
		}
	}
	return b
}

// ---- the list ----------------------------------------------------------------

type tierCfg struct {
	maxCorpus                              int // size cap of corpus inputs
	corpusEvery                            int // unmutated: every k-th corpus item (1 = all)
	nMut, nCore, nRich, nCyc, nBuiltin     int
	deepSizes                              []int
	batch                                  int
	perInputTimeout                        int // seconds
}

var tiers = map[string]tierCfg{
	"quick": {maxCorpus: 16 << 10, corpusEvery: 6, nMut: 900, nCore: 200, nRich: 700, nCyc: 150, nBuiltin: 200,
		batch: 64, perInputTimeout: 20},
	"thorough": {maxCorpus: 64 << 10, corpusEvery: 1, nMut: 30000, nCore: 4000, nRich: 12000, nCyc: 3000, nBuiltin: 4000,
		deepSizes: []int{1000, 5000, 9999, 10001, 20000}, batch: 64, perInputTimeout: 60},
}

// The quick tier runs the combinations that cost well under 6 s of CPU per run
// on the pinned tree (measured table in design/C02-explore-notes.md).
var quickDeep = []string{"paren-1000", "paren-9999", "paren-10001", "unary-1000", "unary-9999", "unary-10001",
	"list-1000", "list-10001", "struct-1000", "struct-10001", "binchain-1000", "binchain-9999", "selchain-1000",
	"interp-1000", "interp-10001", "openparen-9999", "not-9999", "cmt-9999", "structcompr-1000"}

// genMode: "safe" (default) or "wild" (adds declaration-level comprehensions to the random programs).
var genMode = "safe"

func buildInputs(repo, tier string, seed uint64, bigMode string) ([]Input, map[string]any) {
	cfg := tiers[tier]
	var ins []Input
	add := func(kind string, src []byte, note string) {
		ins = append(ins, Input{Kind: kind, Src: src, Note: note})
	}
	corpus, skipped := loadCorpus(repo, cfg.maxCorpus)
	// (i) unmutated corpus: seed-independent subset
	for i, it := range corpus {
		if i%cfg.corpusEvery == 0 {
			add("corpus", it.src, it.name)
		}
	}
	nCorpus := len(ins)
	root := common.NewRng(seed)
	// (i') mutations: seed-dependent
	rm := root.Fork()
	for i := 0; i < cfg.nMut && len(corpus) > 0; i++ {
		a := common.Pick(rm, corpus)
		o := common.Pick(rm, corpus)
		op := common.Pick(rm, mutOps)
		b := mutate(rm, op, a.src, o.src)
		if rm.Chance(1, 5) { // a second mutation on top
			op2 := common.Pick(rm, mutOps)
			b = mutate(rm, op2, b, o.src)
			op += "+" + op2
		}
		if len(b) > 2*cfg.maxCorpus {
			b = b[:2*cfg.maxCorpus]
		}
		add("mut-"+strings.SplitN(op, "+", 2)[0], b, a.name+" "+op)
	}
	// (ii) generated programs
	rc := root.Fork()
	for i := 0; i < cfg.nCore; i++ {
		g := NewGen(rc.Fork(), GenCfg{MaxDepth: 1 + rc.Intn(3), Closedness: rc.Chance(2, 3), Bounds: rc.Chance(2, 3)})
		add("gen-core", []byte(g.Program().CUE()), "")
	}
	rr := root.Fork()
	featSets := []struct {
		kind string
		f    richFeat
	}{
		{"gen-ref", richFeat{refs: true}},
		{"gen-list", richFeat{refs: true, lists: true, compr: true}},
		{"gen-compr", richFeat{refs: true, lists: true, compr: true, dyn: true}},
		{"gen-let", richFeat{refs: true, lets: true}},
		{"gen-disj", richFeat{refs: true, disj: true, defs: true}},
		{"gen-mix", richFeat{refs: true, lists: true, compr: true, lets: true, disj: true, dyn: true, defs: true}},
	}
	chaosOf := func(r *common.Rng) int {
		// 2/3 of the programs are fully typed, the rest get 1/25 .. 1/6 arbitrary sub-expressions
		switch r.Intn(6) {
		case 0:
			return 25
		case 1:
			return 6
		}
		return 0
	}
	for i := 0; i < cfg.nRich; i++ {
		fs := featSets[i%len(featSets)]
		g := &rich{r: rr.Fork(), feat: fs.f, budget: 30 + rr.Intn(100), chaos: chaosOf(rr)}
		g.feat.declCompr = g.feat.compr && genMode == "wild"
		add(fs.kind, []byte(g.file(2+rr.Intn(3), 2+rr.Intn(5))), "")
	}
	rb := root.Fork()
	for i := 0; i < cfg.nBuiltin; i++ {
		g := &rich{r: rb.Fork(), feat: richFeat{refs: true, lists: true, builtins: true, disj: i%3 == 0, compr: i%4 == 0}, budget: 25 + rb.Intn(60), chaos: chaosOf(rb)}
		g.feat.declCompr = g.feat.compr && genMode == "wild"
		add("gen-builtin", []byte(g.file(2+rb.Intn(2), 2+rb.Intn(4))), "")
	}
	ry := root.Fork()
	for i, s := range refCycles {
		add("cycle-ref", []byte(s), fmt.Sprint("template ", i))
	}
	for i, s := range structCycles {
		add("cycle-struct", []byte(s), fmt.Sprint("template ", i))
	}
	for i := 0; i < cfg.nCyc; i++ {
		if i%2 == 0 {
			add("cycle-ref", []byte(genCycle(ry, refCycles)), "decorated")
		} else {
			add("cycle-struct", []byte(genCycle(ry, structCycles)), "decorated")
		}
	}
	// edge inputs: seed independent, both tiers
	for _, e := range edgeMul() {
		add("edge-mul", []byte(e[1]), e[0])
	}
	for _, e := range edgeIndex() {
		add("edge-index", []byte(e[1]), e[0])
	}
	for _, e := range edgeTrunc() {
		add("edge-trunc", []byte(e[1]), e[0])
	}
	// deep nesting: seed independent
	if tier == "quick" {
		for _, sn := range quickDeep {
			k := strings.LastIndexByte(sn, '-')
			add("deep-"+sn[:k], []byte(deepInput(sn[:k], common.Atoi(sn[k+1:], 0))), sn[k+1:])
		}
	} else {
		for _, sh := range deepShapes {
			for _, n := range cfg.deepSizes {
				if _, ok := deepExcluded[fmt.Sprintf("%s-%d", sh, n)]; ok && bigMode != "all" {
					continue
				}
				add("deep-"+sh, []byte(deepInput(sh, n)), fmt.Sprint(n))
			}
		}
	}
	// far beyond the parser's nesting limit: must be an ordinary, cheap parse error
	add("deep-paren", []byte(deepInput("paren", 3000000)), "3000000")
	add("deep-list", []byte(deepInput("list", 3000000)), "3000000")
	if tier != "quick" {
		// witness of known finding F-C02-2 (about 25 s of CPU until the worker dies)
		add("deep-field-chain", []byte(deepInput("field-chain", 400000)), "400000")
	}
	// a few seed-dependent depths (thorough: around the parser limit)
	rd := root.Fork()
	for i := 0; i < 4; i++ {
		sh := common.Pick(rd, []string{"paren", "list", "unary", "binchain"})
		n := 9990 + rd.Intn(20)
		if tier == "quick" {
			n = 500 + rd.Intn(1500)
		}
		add("deep-"+sh, []byte(deepInput(sh, n)), fmt.Sprint(n))
	}
	for _, bi := range bigInputs() {
		if _, ok := bigExcluded[bi[0]]; ok && bigMode != "all" {
			continue
		}
		if bigMode == "none" || (tier == "quick" && !quickBig[bi[0]] && bigMode != "all") {
			continue
		}
		add("big", []byte(bi[1]), bi[0])
	}
	// de-duplicate, assign ids
	seen := map[[32]byte]bool{}
	out := ins[:0]
	dups := 0
	for _, in := range ins {
		h := sha256.Sum256(in.Src)
		if seen[h] {
			dups++
			continue
		}
		seen[h] = true
		in.ID = len(out)
		out = append(out, in)
	}
	dist := map[string]any{
		"corpus_items_under_cap": len(corpus), "corpus_items_over_cap_skipped": skipped,
		"corpus_size_cap": cfg.maxCorpus, "corpus_unmutated_used": nCorpus,
		"duplicates_dropped": dups,
		"big_excluded":       bigExcluded, "deep_excluded": deepExcluded,
		"gen_mode": genMode,
	}
	return out, dist
}

// deepExcluded: "<shape>-<n>" combinations kept out of the default stream because
// one pipeline run on the pinned tree needs more CPU than the per-input budget
// (measured single-run CPU time in parentheses; "-" = killed at 150 s).  None of
// them crashes: the cost is polynomial blow-up in the named step (observations
// D-1..D-6 in design/C02-explore-notes.md).  `--big all` runs them anyway.
var deepExcluded = map[string]string{
	"struct-5000": "yaml.Encode cubic in nesting depth (-)", "struct-9999": "yaml.Encode cubic (-)",
	"structnl-5000": "yaml.Encode cubic (-)", "structnl-9999": "yaml.Encode cubic (-)",
	"field-chain-5000": "yaml.Encode cubic (-)", "field-chain-9999": "yaml.Encode cubic (-)",
	"field-chain-10001": "yaml.Encode cubic; not limited by the parser (-)", "field-chain-20000": "yaml.Encode cubic (-)",
	"disjnest-5000": "evaluation of nested disjunctions super-quadratic (90 s)", "disjnest-9999": "same (-)",
	"let-5000": "compile of a chain of let clauses super-quadratic (-)", "let-9999": "same (-)", "let-10001": "same (-)", "let-20000": "same (-)",
	"listcompr-5000": "evaluation of nested list comprehensions super-quadratic (-)",
	"structcompr-5000": "evaluation of nested if-comprehensions super-quadratic (111 s)", "structcompr-9999": "same (-)",
	"structcompr-10001": "same; not limited by the parser (-)", "structcompr-20000": "same (-)",
	"ellipsis-9999": "Syntax(All)+format quadratic, 100 MB of output (77 s)",
	"openlist-9999":  "Syntax+format quadratic on the partial AST (73 s)",
	"idxchain-10001": "Syntax(All)+format quadratic (35 s)", "idxchain-20000": "same (-)",
}

// quickBig: the members of bigInputs() cheap enough (< 1.5 s CPU per run) for the quick tier.
var quickBig = map[string]bool{"digits-float-100k": true, "ident-100k": true, "exp-pos": true, "exp-neg": true, "exp-int": true,
	"exp-mul": true, "exp-add": true, "exp-small-int": true, "exp-cmp": true, "exp-div": true, "exp-suffix": true, "mul-100": true,
	"strmul-1m": true, "strmul-1g": true, "listmul-1m": true, "repeat-1m": true, "repeat-1g": true, "repeat-4g": true, "repeat-neg": true,
	"lrepeat-10m": true, "lrepeat-1g": true, "lrange-zero-step": true, "pow-big": true, "pow-tower": true, "exp-big": true,
	"log-big": true, "sqrt-big": true, "maxrunes": true, "regex-nest": true, "regex-long": true, "regex-deep": true, "regex-op": true,
	"json-deep-1k": true, "json-deep-20k": true, "json-deep-100k": true, "json-deepobj-20k": true, "json-valid-deep": true,
	"yaml-deep-1k": true, "yaml-laughs": true, "yaml-laughs-small": true, "yaml-selfalias": true, "recurse-fn": true}
