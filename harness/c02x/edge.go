// Seed-independent edge inputs (kind "edge-*"), in both tiers:
//
//	edge-mul    boundary integer operands of `*` on strings, bytes and lists (2^31, 2^32, 2^63-1, 2^63,
//	            2^64-1, 2^64 and neighbours, negatives), both operand orders, also through references
//	edge-index  index / slice brackets with 0..3 colons and every combination of missing operands
//	edge-trunc  valid seeds covering every nesting of string / interpolation / attribute / comment /
//	            parenthesis contexts, cut at EVERY byte offset, with and without a final newline
//	            (a file that ends in the middle of a construct, in particular without trailing newline)
package main

import (
	"fmt"
	"strings"
)

var mulCounts = []string{
	"0", "1", "2", "-1", "-2", "1000000", "1000001", "2147483647", "2147483648", "2147483649", "4294967295", "4294967296",
	"9223372036854775806", "9223372036854775807", "9223372036854775808", "9223372036854775809",
	"18446744073709551614", "18446744073709551615", "18446744073709551616", "18446744073709551617",
	"340282366920938463463374607431768211456", "-2147483648", "-9223372036854775808", "-9223372036854775809",
	"-18446744073709551616", "1.0", "1e3", "1e19", "1e100", "0x8000000000000000", "0xffffffffffffffff", "1Ei", "16Ei",
}

// counts that also get one file per single operation
var mulSingles = map[string]bool{"-1": true, "1000001": true, "2147483648": true, "4294967296": true, "9223372036854775807": true,
	"9223372036854775808": true, "18446744073709551615": true, "18446744073709551616": true, "-9223372036854775809": true,
	"1e19": true, "0x8000000000000000": true, "16Ei": true}

var mulOperands = []string{`"ab"`, `'ab'`, `""`, `''`, `[1, 2]`, `[]`, `"\(s)"`, `s`, `b`, `l`}

func edgeMul() [][2]string {
	var out [][2]string
	const pre = "s: \"xy\"\nb: 'xy'\nl: [1]\n"
	for _, n := range mulCounts {
		var sb strings.Builder
		sb.WriteString(pre)
		for i, o := range mulOperands {
			fmt.Fprintf(&sb, "a%d: %s * %s\nc%d: %s * %s\n", i, o, n, i, n, o)
		}
		out = append(out, [2]string{"all " + n, sb.String()})
		// one operation per file too: an escaping panic of one must not mask the others
		if mulSingles[n] {
			for i, o := range mulOperands[:6] {
				out = append(out, [2]string{fmt.Sprint(n, " ", i), fmt.Sprintf("x: %s * %s\n", o, n)})
				out = append(out, [2]string{fmt.Sprint(n, " r", i), fmt.Sprintf("x: %s * %s\n", n, o)})
			}
		}
		out = append(out, [2]string{"ref " + n, fmt.Sprintf("%sn: %s\nx: s * n\ny: n * b\nz: l * n\n", pre, n)})
	}
	return out
}

func edgeIndex() [][2]string {
	var out [][2]string
	bases := []string{"a", "[1, 2, 3]", `"abc"`}
	ops := []string{"", "0", "1", "-1", "x", "2+1"}
	var inner []string
	// 0..3 colons, every operand present or missing
	for nc := 0; nc <= 3; nc++ {
		var rec func(k int, cur string)
		rec = func(k int, cur string) {
			if k > nc {
				inner = append(inner, cur)
				return
			}
			opnds := []string{"", "1", "x"}
			if nc == 3 {
				opnds = opnds[:2]
			}
			for _, o := range opnds {
				c := cur
				if k > 0 {
					c += ":"
				}
				rec(k+1, c+o)
			}
		}
		rec(0, "")
	}
	for _, o := range ops {
		inner = append(inner, o+":"+o+":"+o, o+" : "+o, o+",", ","+o, o+" "+o)
	}
	inner = append(inner, "::", ":::", "::::", "1:2:3", "1:2:3:4", "1::", "::1", ":1:", "0:1:2", "...", ":...", "1:...", "_", "_|_", "[", "]", "(", "1:(2:3)", "1:[2:3]")
	for _, b := range bases {
		for _, in := range inner {
			out = append(out, [2]string{b, fmt.Sprintf("a: {b: [1, 2, 3]}\nx: 1\ny: %s[%s]\n", b, in)})
		}
	}
	// the same brackets unterminated / as the last thing of the file
	for _, in := range inner {
		out = append(out, [2]string{"open", "y: a[" + in})
		out = append(out, [2]string{"sel", "y: a[" + in + "].b[" + in + "]\n"})
	}
	return out
}

// truncation seeds: each is valid CUE; together they nest strings, interpolations, attributes,
// comments, parentheses, brackets and braces in each other
var truncSeeds = []string{
	"a: 1 @a(\"x\\(y)z\", b(c)) // c\n",
	"a: 1 @a(\"\\(x)\")\n",
	"a: 1 @a('\\(x)', #\"\\#(y)\"#)\n",
	"@a(b=\"\"\"\n\tx \\(y)\n\t\"\"\")\n",
	"a: {b: 1} @x(y=[(\"{\")], z) @y()\n",
	"s: \"a\\(\"b\\(c)d\")e\" + #\"x\\#(y)\"# // t\n",
	"s: \"\"\"\n\tline \\(x + \"in\\(1)\") end\n\t\"\"\"\n",
	"s: #\"\"\"\n\t\\#(a) \"\"\" \\(b)\n\t\"\"\"#\n",
	"b: '\\x41\\(c)' + '''\n\t\\(d)\n\t'''\n",
	"x: (a + (b * [c, {d: (e)}][0])) // (\n",
	"x: [for k, v in y if v > 0 {\"\\(k)\": (v)}] @z(\"(\")\n",
	"import \"strings\"\n\nx: strings.Join([\"a\", \"\\(y)\"], \",\") @go(X) // \"\\(\n",
	"// c \"\\( @a(\n#D: {a?: int @a(x), ...} // d\n",
	"x: a[1:2] + a[:1] + a[1:] + \"\\(a[0])\"\n",
	"x: \"ab\" * 3 + 'c' * 2\ny: [1] * 2\n",
	"let X = {a: \"\\(Y)\"}\nY=y: 1 @a(\"\\(\")\n",
}

func edgeTrunc() [][2]string {
	var out [][2]string
	seen := map[string]bool{}
	add := func(note, s string) {
		if !seen[s] {
			seen[s] = true
			out = append(out, [2]string{note, s})
		}
	}
	for i, seed := range truncSeeds {
		for cut := 0; cut <= len(seed); cut++ {
			p := seed[:cut]
			add(fmt.Sprintf("seed %d cut %d", i, cut), p)
			add(fmt.Sprintf("seed %d cut %d +nl", i, cut), p+"\n")
		}
		// as the value of a field / after another field, so that the parser is deep in an expression
		for cut := 1; cut < len(seed); cut += 3 {
			add(fmt.Sprintf("seed %d cut %d nested", i, cut), "w: {v: 1\n"+seed[:cut])
		}
	}
	return out
}
