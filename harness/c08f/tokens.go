package main

import (
	"fmt"
	"sort"
	"strconv"
	"strings"

	"cuelang.org/go/cue/ast"
	"cuelang.org/go/cue/token"
)

// Layout-independent placement of comments.
//
// The parser attaches a comment group to a node together with a Position
// that counts tokens of the *concrete* syntax of that node, so adding the
// braces of `a: b: 1`, dropping them under -s or moving a `}` to the next line
// changes (node, Position) although the comment did not move.  The fallback
// comparison therefore places every comment in the token stream: it is
// identified by the token that precedes it and the token that follows it,
// tokens being named "<preorder index of the owning node>.<token>" in the
// normalised tree (the two trees have identical structure when this is used).
// Tokens that the formatter may legitimately add or drop (braces of a
// single-field struct that is a field value) are not used as anchors.

type tokRef struct {
	off  int
	node ast.Node
	tok  string // token spelling
	idx  int    // preorder index of node
	decl int    // preorder index of the innermost enclosing declaration / list element / call argument / import spec
	endl int    // line on which the token ends
}

// name is "<preorder index of the owning node>.<token>".
func (t *tokRef) name() string { return strconv.Itoa(t.idx) + "." + t.tok }

type placer struct {
	toks   []tokRef
	index  map[ast.Node]int
	cur    int                       // preorder index of the node being visited
	decls  []int                     // stack of enclosing declaration-like nodes (preorder indexes)
	elems  map[ast.Node]bool         // list elements and call arguments
	inEll  map[*ast.CommentGroup]int // comments carried by a synthesised `...` -> index of the owning struct/file
	chains map[*ast.StructLit]bool
}

func (p *placer) add(n ast.Node, pos token.Pos, name string) {
	if !pos.HasAbsPos() {
		return
	}
	d := 0
	if len(p.decls) > 0 {
		d = p.decls[len(p.decls)-1]
	}
	endl := pos.Line()
	if b, ok := n.(*ast.BasicLit); ok {
		endl += strings.Count(b.Value, "\n")
	}
	p.toks = append(p.toks, tokRef{pos.Offset(), n, name, p.cur, d, endl})
}

// declLike: the units between which a comment must not move: declarations,
// list elements, call arguments, import specs.
func (p *placer) declLike(n ast.Node) bool {
	switch n.(type) {
	case *ast.Field, *ast.EmbedDecl, *ast.Comprehension, *ast.LetClause, *ast.Attribute,
		*ast.ImportDecl, *ast.ImportSpec, *ast.Package, *ast.BadDecl:
		return true
	case *ast.Ellipsis:
		return true
	}
	return p.elems[n]
}

func newPlacer(f *ast.File, synth map[*ast.Ellipsis]ast.Node) *placer {
	p := &placer{index: map[ast.Node]int{}, inEll: map[*ast.CommentGroup]int{}, chains: map[*ast.StructLit]bool{}, elems: map[ast.Node]bool{}}
	owners := map[ast.Node]bool{}
	for _, o := range synth {
		owners[o] = true
	}
	i := -1
	ast.Walk(f, func(n ast.Node) bool {
		switch n.(type) {
		case *ast.CommentGroup, *ast.Comment:
			return false
		}
		i++
		p.cur = i
		if owners[n] {
			p.index[n] = i
		}
		switch x := n.(type) {
		case *ast.ListLit:
			for _, e := range x.Elts {
				p.elems[e] = true
			}
		case *ast.CallExpr:
			for _, e := range x.Args {
				p.elems[e] = true
			}
		}
		if p.declLike(n) {
			p.decls = append(p.decls, i)
		}
		if fl, ok := n.(*ast.Field); ok {
			if s, ok := fl.Value.(*ast.StructLit); ok && len(s.Elts) == 1 {
				switch e := s.Elts[0].(type) {
				case *ast.Field:
					p.chains[s] = true
				case *ast.Ellipsis:
					if synth[e] != nil {
						p.chains[s] = true
					}
				}
			}
		}
		switch x := n.(type) {
		case *ast.Package:
			p.add(x, x.PackagePos, "package")
		case *ast.ImportDecl:
			p.add(x, x.Import, "import")
			// the parentheses of an import declaration are layout
		case *ast.Attribute:
			p.add(x, x.At, "@")
		case *ast.Field:
			p.add(x, x.TokenPos, ":")
		case *ast.PostfixAlias:
			p.add(x, x.Tilde, "~")
			p.add(x, x.Lparen, "(")
			p.add(x, x.Comma, ",")
			p.add(x, x.Rparen, ")")
		case *ast.Alias:
			p.add(x, x.Equal, "=")
		case *ast.LetClause:
			p.add(x, x.Let, "let")
			p.add(x, x.Equal, "=")
		case *ast.Ellipsis:
			p.add(x, x.Ellipsis, "...")
		case *ast.BadDecl:
			p.add(x, x.From, "bad")
		case *ast.BadExpr:
			p.add(x, x.From, "bad")
		case *ast.ForClause:
			p.add(x, x.For, "for")
			p.add(x, x.Colon, ",")
			p.add(x, x.In, "in")
		case *ast.IfClause:
			p.add(x, x.If, "if")
		case *ast.TryClause:
			p.add(x, x.Try, "try")
			p.add(x, x.Equal, "=")
		case *ast.FallbackClause:
			p.add(x, x.Fallback, "else")
		case *ast.BottomLit:
			p.add(x, x.Bottom, "_|_")
		case *ast.Ident:
			p.add(x, x.NamePos, "id")
		case *ast.BasicLit:
			p.add(x, x.ValuePos, "lit")
		case *ast.Func:
			p.add(x, x.Func, "func")
		case *ast.StructLit:
			if !p.chains[x] {
				p.add(x, x.Lbrace, "{")
				p.add(x, x.Rbrace, "}")
			}
		case *ast.ListLit:
			p.add(x, x.Lbrack, "[")
			p.add(x, x.Rbrack, "]")
		case *ast.ParenExpr:
			p.add(x, x.Lparen, "(")
			p.add(x, x.Rparen, ")")
		case *ast.SelectorExpr:
			p.add(x, x.Period, ".")
		case *ast.IndexExpr:
			p.add(x, x.Lbrack, "[")
			p.add(x, x.Rbrack, "]")
		case *ast.SliceExpr:
			p.add(x, x.Lbrack, "[")
			p.add(x, x.Rbrack, "]")
		case *ast.CallExpr:
			p.add(x, x.Lparen, "(")
			p.add(x, x.Rparen, ")")
		case *ast.UnaryExpr:
			p.add(x, x.OpPos, "op")
		case *ast.BinaryExpr:
			p.add(x, x.OpPos, "op")
		case *ast.PostfixExpr:
			p.add(x, x.OpPos, "op")
		}
		return true
	}, func(n ast.Node) {
		switch n.(type) {
		case *ast.CommentGroup, *ast.Comment:
			return
		}
		if p.declLike(n) && len(p.decls) > 0 {
			p.decls = p.decls[:len(p.decls)-1]
		}
	})
	for e, owner := range synth {
		for _, cg := range ast.Comments(e) {
			p.inEll[cg] = p.index[owner]
		}
	}
	sort.SliceStable(p.toks, func(i, j int) bool { return p.toks[i].off < p.toks[j].off })
	return p
}

func (p *placer) around(off int) (prev, next *tokRef) {
	i := sort.Search(len(p.toks), func(i int) bool { return p.toks[i].off >= off })
	if i > 0 {
		prev = &p.toks[i-1]
	}
	if i < len(p.toks) {
		next = &p.toks[i]
	}
	return
}

type placedComment struct {
	cg   *ast.CommentGroup
	off  int
	text string
	doc  bool
	line bool
	prev *tokRef // nil: start of file
	next *tokRef // nil: end of file
	ell  int     // >= 0: carried by the synthesised `...` of the struct with that index
}

func cgText(cg *ast.CommentGroup) string {
	var sb strings.Builder
	for i, c := range cg.List {
		if i > 0 {
			sb.WriteString(" | ")
		}
		sb.WriteString(strconv.Quote(c.Text))
	}
	return sb.String()
}

// placeComments lists every comment group of the (normalised) tree in source
// order with its layout-independent placement.
func placeComments(f *ast.File, synth map[*ast.Ellipsis]ast.Node) (placed, ell []placedComment) {
	p := newPlacer(f, synth)
	seen := map[*ast.CommentGroup]bool{}
	visit := func(cg *ast.CommentGroup) {
		if seen[cg] || len(cg.List) == 0 {
			return
		}
		seen[cg] = true
		pc := placedComment{cg: cg, text: cgText(cg), doc: cg.Doc, line: cg.Line, ell: -1, off: cg.List[0].Slash.Offset()}
		if k, ok := p.inEll[cg]; ok {
			pc.ell = k
			ell = append(ell, pc)
			return
		}
		pc.prev, pc.next = p.around(pc.off)
		placed = append(placed, pc)
	}
	ast.Walk(f, func(n ast.Node) bool {
		if cg, ok := n.(*ast.CommentGroup); ok {
			visit(cg)
			return false
		}
		for _, cg := range ast.Comments(n) {
			visit(cg)
		}
		return true
	}, nil)
	sort.SliceStable(placed, func(i, j int) bool { return placed[i].off < placed[j].off })
	sort.SliceStable(ell, func(i, j int) bool {
		if ell[i].ell != ell[j].ell {
			return ell[i].ell < ell[j].ell
		}
		return ell[i].off < ell[j].off
	})
	return placed, ell
}

func anchorName(t *tokRef, none string) string {
	if t == nil {
		return none
	}
	return t.name()
}

func isCloser(t *tokRef) bool {
	return t == nil || t.tok == "}" || t.tok == "]" || t.tok == ")"
}

// key is what must be preserved for a comment: text, placement, and the Doc and
// Line flags where they mean something: Doc ("the next token starts on the line
// after the comment") says which declaration a comment documents and is
// meaningless in front of a closing bracket or the end of the file; the parser
// computes Line for the last comment of a file from the number of trailing
// newlines, so it is not compared there.
func (c placedComment) key() string {
	var sb strings.Builder
	sb.WriteString(c.text)
	if !isCloser(c.next) {
		fmt.Fprintf(&sb, " doc=%v", c.doc)
	}
	if c.next != nil {
		fmt.Fprintf(&sb, " line=%v", c.line)
	}
	fmt.Fprintf(&sb, " after=%s before=%s", anchorName(c.prev, "BOF"), anchorName(c.next, "EOF"))
	return sb.String()
}

// cmtStrict: compare comments by their two neighbouring tokens (true, default) or only by
// the declaration / list element / call argument they belong to (false; `--cmt decl`,
// exploratory: the known-class recognisers are tuned for the strict comparison):
// the property demands that a comment stays attached in the same place; moving it
// inside the same declaration (e.g. from behind an operator to the end of the line)
// is tolerated, moving it to another declaration, losing or duplicating it is not.
var cmtStrict = true

// declKey: text, doc flag, and the unit the comment belongs to: the unit of the
// preceding token for an end-of-line comment, the tail of the container in front
// of a closing bracket, otherwise the unit of the following token.
func (c placedComment) declKey() string {
	var sb strings.Builder
	sb.WriteString(c.text)
	eol := c.prev != nil && c.cg != nil && c.cg.Pos().Line() == c.prev.endl
	if !eol && !isCloser(c.next) {
		// own-line comment in front of a declaration: does it document it?
		fmt.Fprintf(&sb, " doc=%v", c.doc)
	}
	switch {
	case eol:
		// end-of-line comment: belongs to the unit of the token it follows
		fmt.Fprintf(&sb, " in=%d", c.prev.decl)
	case c.next == nil:
		sb.WriteString(" in=EOF")
	case isCloser(c.next):
		fmt.Fprintf(&sb, " tail=%d", c.next.idx)
	default:
		fmt.Fprintf(&sb, " in=%d", c.next.decl)
	}
	return sb.String()
}

func (c placedComment) ellKey() string { return fmt.Sprintf("ellipsis@%d %s", c.ell, c.text) }

// atTailOf: the comment is the last thing before the closing brace of the
// struct with the given index (the end of the file for index of the File).
func (c placedComment) atTailOf(owner int) bool {
	if c.next == nil {
		return owner == 0
	}
	return c.next.tok == "}" && c.next.idx == owner
}
