package main

import (
	"cuelang.org/go/cue/scanner"
	"cuelang.org/go/cue/token"
)

// stripSrcComments removes every comment of src (the text of each COMMENT token;
// line breaks stay).  Used by the seed-dependent stream, see mutateCases.
func stripSrcComments(src []byte) []byte {
	var s scanner.Scanner
	f := token.NewFile("x.cue", -1, len(src))
	s.Init(f, src, func(token.Pos, string, []interface{}) {}, scanner.ScanComments)
	type span struct{ a, b int }
	var cut []span
	for {
		pos, tok, lit := s.Scan()
		if tok == token.EOF {
			break
		}
		if tok == token.COMMENT {
			cut = append(cut, span{pos.Offset(), pos.Offset() + len(lit)})
		}
	}
	if len(cut) == 0 {
		return src
	}
	out := make([]byte, 0, len(src))
	at := 0
	for _, c := range cut {
		if c.a < at || c.b > len(src) {
			return src
		}
		out = append(out, src[at:c.a]...)
		at = c.b
	}
	return append(out, src[at:]...)
}
