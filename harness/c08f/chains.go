package main

import (
	"fmt"
	"strings"

	"cuelang.org/go/internal/verifharness/common"
)

// Chains of binary operators with line comments behind operators.
//
// The values are left-nested chains of 2-5 operands; most of them mix the
// operators of ONE precedence level (+ -, * /, the comparisons), some use one
// operator only or mix two levels (controls).  Behind some operators a `// c`
// comment ends the line, so the default formatter routes the chain to its
// comment-aligned table layout.  The chains stand where a value may stand: as a
// field value (top level, nested, in a definition), as a list element, as a
// call argument.  No comment is written behind the last operand of a list
// element or call argument (that position is class K20/W).

var chainLevels = [][]string{
	{"+", "-"},
	{"*", "/"},
	{"==", "!=", "<", "<=", ">", ">="},
	{"+", "-"},
	{"*", "/"},
	{"|"},
	{"&"},
	{"&&"},
	{"||"},
	{"+"},
}

type chainGen struct {
	r   *common.Rng
	ncm int
}

func (g *chainGen) operand(depth int) string {
	switch g.r.Intn(12) {
	case 0, 1, 2, 3:
		return common.Pick(g.r, []string{"a", "b", "gross", "tax", "bonus", "x1", "_h", "#D"})
	case 4, 5:
		return common.Pick(g.r, []string{"1", "2", "10", "0.5", "100"})
	case 6:
		return "x.y"
	case 7:
		return "f(a, 1)"
	case 8:
		return "l[0]"
	case 9:
		return common.Pick(g.r, []string{"-a", "+1", "!b"})
	case 10:
		if depth > 0 {
			return "(" + g.chain(depth-1, false, "") + ")"
		}
		return `"s"`
	default:
		return common.Pick(g.r, []string{`"s"`, "len(l)", "a.b.c"})
	}
}

// chain writes a chain; with comments, line breaks follow the operators that carry one.
func (g *chainGen) chain(depth int, comments bool, indent string) string {
	ops := common.Pick(g.r, chainLevels)
	n := 2 + g.r.Intn(4)
	var sb strings.Builder
	sb.WriteString(g.operand(depth))
	for i := 1; i < n; i++ {
		op := common.Pick(g.r, ops)
		if g.r.Chance(1, 8) {
			// a second precedence level (control: such chains are not flattened)
			op = common.Pick(g.r, []string{"+", "*", "-", "/"})
		}
		sb.WriteString(" " + op)
		switch {
		case comments && g.r.Chance(1, 2):
			g.ncm++
			fmt.Fprintf(&sb, " // c%d\n%s", g.ncm, indent)
		case comments && g.r.Chance(1, 6):
			sb.WriteString("\n" + indent)
		default:
			sb.WriteString(" ")
		}
		sb.WriteString(g.operand(depth))
	}
	return sb.String()
}

func (g *chainGen) file(comments bool) string {
	var sb strings.Builder
	n := 1 + g.r.Intn(3)
	for i := 0; i < n; i++ {
		name := fmt.Sprintf("v%d", i)
		switch g.r.Intn(7) {
		case 0, 1, 2:
			sb.WriteString(name + ": " + g.chain(1, comments, "\t") + "\n")
		case 3:
			sb.WriteString(name + ": {\n\tin: " + g.chain(1, comments, "\t\t") + "\n\tz: 1\n}\n")
		case 4:
			sb.WriteString(name + ": [\n\t" + g.chain(1, comments, "\t\t") + ",\n\t" + g.chain(0, comments, "\t\t") + ",\n]\n")
		case 5:
			sb.WriteString(name + ": f(" + g.chain(1, comments, "\t") + ",\n\t" + g.chain(0, false, "") + ")\n")
		default:
			sb.WriteString("#Def: " + name + ": " + g.chain(1, comments, "\t") + "\n")
		}
	}
	return sb.String()
}

// chainCases: n programs; strip removes the comments again (the comment-free
// variant only exercises the layout of broken chains).
func chainCases(r *common.Rng, n int, st *stats, strip bool) []*caseRec {
	var cs []*caseRec
	made := 0
	for attempts := 0; made < n && attempts < n*20; attempts++ {
		g := &chainGen{r: r.Fork()}
		src := []byte(g.file(true))
		if strip {
			src = stripSrcComments(src)
		}
		if _, err := parse(src); err != nil {
			st.GenStats["chain:rejected-by-parser"]++
			continue
		}
		made++
		st.GenStats["chain:programs"]++
		st.GenStats["chain:comments"] += g.ncm
		cs = append(cs, srcCases(fmt.Sprintf("chain:%d", made), src)...)
	}
	return cs
}
