// Position-free structural dump of a CUE syntax tree (property C08, file level).
//
// The dump has one line per node.  Everything the formatter must preserve is in it:
// node kinds, operators, constraint tokens, identifier names and what they resolve
// to, literals by denotation, attribute texts and every comment group together with
// the node kind + comment Position it is attached to.  Whitespace, optional commas
// and literal spelling are not in it.
package main

import (
	"fmt"
	"strconv"
	"strings"
	"unicode"
	"unicode/utf8"

	"cuelang.org/go/cue/ast"
	"cuelang.org/go/cue/literal"
	"cuelang.org/go/cue/token"
	"github.com/cockroachdb/apd/v3"
)

type dumpOpts struct {
	simplify bool // compare modulo the documented -s simplifications
}

type dumper struct {
	o     dumpOpts
	tree  []string // structure lines
	cmts  []string // comment lines "owner-kind pos doc line | text | text"
	depth int
	names []string            // enclosing field label names
	desc  map[ast.Node]string // descriptor of every node, for reference targets
	seen  map[string]int
	kinds map[string]int // statistics: node kinds
	cpos  map[string]int // statistics: comment positions "Kind/pos/doc/line"
	synth map[*ast.Ellipsis]ast.Node
	// layout-independent comment placement (tokens.go)
	placed []placedComment
	ell    []placedComment
}

func newDumper(o dumpOpts) *dumper {
	return &dumper{o: o, desc: map[ast.Node]string{}, seen: map[string]int{}, kinds: map[string]int{}, cpos: map[string]int{}}
}

// plainIdent: s can be written as a regular-field identifier label (own
// definition, deliberately not ast.StringLabelNeedsQuoting).
func plainIdent(s string) bool {
	if s == "" {
		return false
	}
	r, _ := utf8.DecodeRuneInString(s)
	if !(unicode.IsLetter(r) || r == '$') {
		return false
	}
	for _, r := range s {
		if !(unicode.IsLetter(r) || unicode.IsDigit(r) || r == '_' || r == '$') {
			return false
		}
	}
	return true
}

func kindOf(n ast.Node) string {
	s := fmt.Sprintf("%T", n)
	return strings.TrimPrefix(s, "*ast.")
}

// numDenotation gives a canonical text for a number literal.
func numDenotation(s string) string {
	var info literal.NumInfo
	if err := literal.ParseNum(s, &info); err != nil {
		return "raw:" + s
	}
	var d apd.Decimal
	if err := info.Decimal(&d); err != nil {
		return "raw:" + s
	}
	d.Reduce(&d) // 1. and 1.0 denote the same number
	k := "f"
	if info.IsInt() {
		k = "i"
	}
	return k + ":" + d.Text('e')
}

func strDenotation(s string) string {
	u, err := literal.Unquote(s)
	if err != nil {
		return "raw:" + strconv.Quote(s)
	}
	t := strings.TrimLeft(s, "#")
	k := "s"
	if strings.HasPrefix(t, "'") {
		k = "b"
	}
	return k + ":" + strconv.Quote(u)
}

func litDenotation(b *ast.BasicLit) string {
	switch b.Kind {
	case token.INT, token.FLOAT:
		return b.Kind.String() + " " + numDenotation(b.Value)
	case token.STRING:
		return "STRING " + strDenotation(b.Value)
	default:
		return b.Kind.String() + " " + b.Value
	}
}

// ---- normalisation applied to the tree before dumping ----------------------

func isEllipsisLike(d ast.Decl) bool {
	switch x := d.(type) {
	case *ast.Ellipsis:
		return x.Type == nil
	case *ast.Field:
		if x.Constraint != token.ILLEGAL || x.Alias != nil || len(x.Attrs) > 0 {
			return false
		}
		v, ok := x.Value.(*ast.Ident)
		if !ok || v.Name != "_" {
			return false
		}
		l, ok := x.Label.(*ast.ListLit)
		if !ok || len(l.Elts) != 1 {
			return false
		}
		i, ok := l.Elts[0].(*ast.Ident)
		return ok && (i.Name == "string" || i.Name == "_")
	}
	return false
}

// allComments collects the comment groups of n and of all nodes below it.
func allComments(n ast.Node) []*ast.CommentGroup {
	var out []*ast.CommentGroup
	ast.Walk(n, func(n ast.Node) bool {
		out = append(out, ast.Comments(n)...)
		return true
	}, nil)
	return out
}

// normDecls implements the "ellipsis" simplification on one declaration list:
// `...`, `[string]: _` and `[_]: _` are all removed and one `...` is put at
// the end, carrying their comments in source order.
func normDecls(decls []ast.Decl, owner ast.Node, synth map[*ast.Ellipsis]ast.Node) []ast.Decl {
	var kept []ast.Decl
	var cgs []*ast.CommentGroup
	removed := false
	for _, d := range decls {
		if isEllipsisLike(d) {
			removed = true
			cgs = append(cgs, allComments(d)...)
			continue
		}
		kept = append(kept, d)
	}
	if !removed {
		return decls
	}
	e := &ast.Ellipsis{}
	ast.SetComments(e, cgs)
	synth[e] = owner
	return append(kept, e)
}

// normalise rewrites a freshly parsed tree in place:
//   - always: directly nested parentheses ((x)) become (x) (both formatters
//     collapse them); an empty `import ()` without comments is dropped (it
//     declares nothing and the v2 formatter does not print it);
//   - with simplify: the documented -s rewrites are applied to both sides:
//     string labels that can be written as identifiers become identifiers
//     (whether that was *allowed* is checked through the resolution targets
//     in the dump) and the ellipsis markers of a declaration list are merged.
func normalise(f *ast.File, simplify bool) map[*ast.Ellipsis]ast.Node {
	synth := map[*ast.Ellipsis]ast.Node{}
	var decls []ast.Decl
	for _, d := range f.Decls {
		if id, ok := d.(*ast.ImportDecl); ok && len(id.Specs) == 0 && len(ast.Comments(id)) == 0 {
			continue
		}
		decls = append(decls, d)
	}
	f.Decls = decls
	if simplify {
		f.Decls = normDecls(f.Decls, f, synth)
	}
	ast.Walk(f, func(n ast.Node) bool {
		switch x := n.(type) {
		case *ast.ParenExpr:
			for {
				in, ok := x.X.(*ast.ParenExpr)
				if !ok {
					break
				}
				for _, cg := range ast.Comments(in) {
					ast.AddComment(x, cg)
				}
				x.X = in.X
			}
		case *ast.Ellipsis:
			// `..._` and `...` are the same (the v1 formatter prints the short form)
			if id, ok := x.Type.(*ast.Ident); ok && id.Name == "_" {
				for _, cg := range ast.Comments(id) {
					ast.AddComment(x, cg)
				}
				x.Type = nil
			}
		case *ast.StructLit:
			if simplify {
				x.Elts = normDecls(x.Elts, x, synth)
			}
		case *ast.Field:
			if !simplify {
				break
			}
			if b, ok := x.Label.(*ast.BasicLit); ok && (b.Kind == token.TRUE || b.Kind == token.FALSE || b.Kind == token.NULL) {
				// `true: 1` is the field "true": -s may write `"true": 1` that way
				id := &ast.Ident{Name: b.Value, NamePos: b.ValuePos}
				ast.SetComments(id, ast.Comments(b))
				x.Label = id
			}
			if b, ok := x.Label.(*ast.BasicLit); ok && b.Kind == token.STRING {
				if u, err := literal.Unquote(b.Value); err == nil && plainIdent(u) {
					id := &ast.Ident{Name: u, NamePos: b.ValuePos}
					ast.SetComments(id, ast.Comments(b))
					x.Label = id
				}
			}
		}
		return true
	}, nil)
	return synth
}

// ---- the dump ---------------------------------------------------------------

func (d *dumper) line(format string, args ...any) {
	d.tree = append(d.tree, strings.Repeat(" ", d.depth)+fmt.Sprintf(format, args...))
}

func (d *dumper) comments(n ast.Node, kind string) {
	for _, cg := range ast.Comments(n) {
		var sb strings.Builder
		fmt.Fprintf(&sb, "%s pos=%d doc=%v line=%v", kind, cg.Position, cg.Doc, cg.Line)
		for _, c := range cg.List {
			sb.WriteString(" | ")
			sb.WriteString(strconv.Quote(c.Text))
		}
		d.cpos[fmt.Sprintf("%s/%d/%v/%v", kind, cg.Position, cg.Doc, cg.Line)]++
		d.cmts = append(d.cmts, sb.String())
		d.tree = append(d.tree, strings.Repeat(" ", d.depth+1)+"// "+sb.String())
	}
}

func labelName(l ast.Label) string {
	switch x := l.(type) {
	case *ast.Ident:
		return x.Name
	case *ast.BasicLit:
		if u, err := literal.Unquote(x.Value); err == nil {
			return strconv.Quote(u)
		}
		return x.Value
	case *ast.Alias:
		if lb, ok := x.Expr.(ast.Label); ok {
			return x.Ident.Name + "=" + labelName(lb)
		}
		return x.Ident.Name + "="
	case *ast.ListLit:
		return "[]"
	case *ast.ParenExpr:
		return "()"
	case *ast.Interpolation:
		return "\\()"
	}
	return "?"
}

// assign gives every node that an identifier refers to a descriptor
// "Kind@a.b.c#n" (label path and preorder number in the normalised tree), used
// to print what the identifier resolves to.
func (d *dumper) assign(f *ast.File) {
	targets := map[ast.Node]bool{}
	ast.Walk(f, func(n ast.Node) bool {
		if id, ok := n.(*ast.Ident); ok && id.Node != nil {
			targets[id.Node] = true
		}
		return true
	}, nil)
	if len(targets) == 0 {
		return
	}
	var path []string
	var pops []bool
	idx := 0
	ast.Walk(f, func(n ast.Node) bool {
		push := false
		if fl, ok := n.(*ast.Field); ok {
			path = append(path, labelName(fl.Label))
			push = true
		}
		pops = append(pops, push)
		switch n.(type) {
		case *ast.CommentGroup, *ast.Comment:
		default:
			idx++ // preorder number among all non-comment nodes
		}
		if targets[n] {
			d.desc[n] = fmt.Sprintf("%s@%s#%d", kindOf(n), strings.Join(path, "."), idx)
		}
		return true
	}, func(n ast.Node) {
		if pops[len(pops)-1] {
			path = path[:len(path)-1]
		}
		pops = pops[:len(pops)-1]
	})
}

func (d *dumper) ident(x *ast.Ident, role string) {
	res := ""
	if x.Node != nil {
		if t, ok := d.desc[x.Node]; ok {
			res = " -> " + t
		} else {
			res = " -> " + kindOf(x.Node)
		}
	}
	d.line("Ident%s %s%s", role, x.Name, res)
	d.comments(x, "Ident")
}

func (d *dumper) node(n ast.Node) {
	if n == nil {
		d.line("nil")
		return
	}
	k := kindOf(n)
	d.kinds[k]++
	d.depth++
	defer func() { d.depth-- }()
	switch x := n.(type) {
	case *ast.File:
		d.line("File")
		d.comments(x, k)
		for _, dd := range x.Decls {
			d.node(dd)
		}
	case *ast.Package:
		d.line("Package")
		d.comments(x, k)
		d.node(x.Name)
	case *ast.ImportDecl:
		// `import "x"` and `import ( "x" )` are the same declaration
		d.line("ImportDecl n=%d", len(x.Specs))
		d.comments(x, k)
		for _, s := range x.Specs {
			d.node(s)
		}
	case *ast.ImportSpec:
		d.line("ImportSpec")
		d.comments(x, k)
		if x.Name != nil {
			d.node(x.Name)
		}
		d.node(x.Path)
	case *ast.CommentGroup:
		d.line("CommentGroupDecl")
		var sb strings.Builder
		fmt.Fprintf(&sb, "Decl pos=%d doc=%v line=%v", x.Position, x.Doc, x.Line)
		for _, c := range x.List {
			sb.WriteString(" | " + strconv.Quote(c.Text))
		}
		d.cmts = append(d.cmts, sb.String())
		d.tree = append(d.tree, strings.Repeat(" ", d.depth+1)+"// "+sb.String())
	case *ast.Attribute:
		d.line("Attribute %s", strconv.Quote(x.Text))
		d.comments(x, k)
	case *ast.Field:
		c := ""
		if x.Constraint != token.ILLEGAL {
			c = " " + x.Constraint.String()
		}
		d.line("Field%s", c)
		d.comments(x, k)
		d.node(x.Label)
		if x.Alias != nil {
			d.node(x.Alias)
		}
		if x.Value == nil {
			d.line(" novalue")
		} else {
			if s, ok := x.Value.(*ast.StructLit); ok && len(s.Elts) == 1 {
				_, isField := s.Elts[0].(*ast.Field)
				e, isEll := s.Elts[0].(*ast.Ellipsis)
				if isField || (isEll && d.synth[e] != nil) {
					d.structLit(s, true)
					goto attrs
				}
			}
			d.node(x.Value)
		}
	attrs:
		for _, a := range x.Attrs {
			d.node(a)
		}
	case *ast.PostfixAlias:
		d.line("PostfixAlias dual=%v", x.Label != nil)
		d.comments(x, k)
		if x.Label != nil {
			d.node(x.Label)
		}
		d.node(x.Field)
	case *ast.Alias:
		d.line("Alias")
		d.comments(x, k)
		d.node(x.Ident)
		d.node(x.Expr)
	case *ast.LetClause:
		d.line("LetClause")
		d.comments(x, k)
		d.node(x.Ident)
		d.node(x.Expr)
	case *ast.EmbedDecl:
		d.line("EmbedDecl")
		d.comments(x, k)
		d.node(x.Expr)
	case *ast.Ellipsis:
		d.line("Ellipsis typed=%v", x.Type != nil)
		d.comments(x, k)
		if x.Type != nil {
			d.node(x.Type)
		}
	case *ast.BadDecl:
		d.line("BadDecl")
		d.comments(x, k)
	case *ast.BadExpr:
		d.line("BadExpr")
		d.comments(x, k)
	case *ast.Comprehension:
		d.line("Comprehension clauses=%d fallback=%v", len(x.Clauses), x.Fallback != nil)
		d.comments(x, k)
		for _, c := range x.Clauses {
			d.node(c)
		}
		d.node(x.Value)
		if x.Fallback != nil {
			d.node(x.Fallback)
		}
	case *ast.ForClause:
		d.line("ForClause key=%v", x.Key != nil)
		d.comments(x, k)
		if x.Key != nil {
			d.node(x.Key)
		}
		d.node(x.Value)
		d.node(x.Source)
	case *ast.IfClause:
		d.line("IfClause")
		d.comments(x, k)
		d.node(x.Condition)
	case *ast.TryClause:
		d.line("TryClause assign=%v", x.Ident != nil)
		d.comments(x, k)
		if x.Ident != nil {
			d.node(x.Ident)
			d.node(x.Expr)
		}
	case *ast.FallbackClause:
		d.line("FallbackClause")
		d.comments(x, k)
		d.node(x.Body)
	case *ast.BottomLit:
		d.line("BottomLit")
		d.comments(x, k)
	case *ast.Ident:
		d.ident(x, "")
	case *ast.BasicLit:
		d.line("BasicLit %s", litDenotation(x))
		d.comments(x, k)
	case *ast.Interpolation:
		d.interpolation(x)
	case *ast.Func:
		d.line("Func args=%d", len(x.Args))
		d.comments(x, k)
		for _, a := range x.Args {
			d.node(a)
		}
		d.node(x.Ret)
	case *ast.StructLit:
		d.structLit(x, false)
	case *ast.ListLit:
		d.line("ListLit n=%d", len(x.Elts))
		d.comments(x, k)
		for _, e := range x.Elts {
			d.node(e)
		}
	case *ast.ParenExpr:
		d.line("ParenExpr")
		d.comments(x, k)
		d.node(x.X)
	case *ast.SelectorExpr:
		d.line("SelectorExpr")
		d.comments(x, k)
		d.node(x.X)
		d.depth++
		switch s := x.Sel.(type) {
		case *ast.Ident:
			d.line("Sel %s", s.Name)
			d.comments(s, "Sel")
		case *ast.BasicLit:
			d.line("Sel %s", litDenotation(s))
			d.comments(s, "Sel")
		default:
			d.depth--
			d.node(x.Sel)
			d.depth++
		}
		d.depth--
	case *ast.IndexExpr:
		d.line("IndexExpr")
		d.comments(x, k)
		d.node(x.X)
		d.node(x.Index)
	case *ast.SliceExpr:
		d.line("SliceExpr low=%v high=%v", x.Low != nil, x.High != nil)
		d.comments(x, k)
		d.node(x.X)
		if x.Low != nil {
			d.node(x.Low)
		}
		if x.High != nil {
			d.node(x.High)
		}
	case *ast.CallExpr:
		d.line("CallExpr args=%d", len(x.Args))
		d.comments(x, k)
		d.node(x.Fun)
		for _, a := range x.Args {
			d.node(a)
		}
	case *ast.UnaryExpr:
		d.line("UnaryExpr %s", x.Op)
		d.comments(x, k)
		d.node(x.X)
	case *ast.BinaryExpr:
		d.line("BinaryExpr %s", x.Op)
		d.comments(x, k)
		d.node(x.X)
		d.node(x.Y)
	case *ast.PostfixExpr:
		d.line("PostfixExpr %s", x.Op)
		d.comments(x, k)
		d.node(x.X)
	default:
		d.line("UNKNOWN %T", n)
	}
}

func (d *dumper) structLit(x *ast.StructLit, chainable bool) {
	if chainable && d.o.simplify {
		// -s may drop the braces of a single-field struct that is a field value
		d.line("StructLit n=%d chain", len(x.Elts))
	} else if chainable {
		// `a: b: 1` is shorthand for `a: {b: 1}`; the v1 formatter adds the
		// braces in some layouts (lineEq accepts false => true only)
		d.line("StructLit n=%d chain braces=%v", len(x.Elts), x.Lbrace.IsValid())
	} else {
		d.line("StructLit n=%d braces=%v", len(x.Elts), x.Lbrace.IsValid())
	}
	d.comments(x, "StructLit")
	for _, e := range x.Elts {
		d.node(e)
	}
}

func (d *dumper) interpolation(x *ast.Interpolation) {
	d.line("Interpolation n=%d", len(x.Elts))
	d.comments(x, "Interpolation")
	ok := len(x.Elts) > 0
	var info literal.QuoteInfo
	prefixLen := 0
	if ok {
		first, ok1 := x.Elts[0].(*ast.BasicLit)
		last, ok2 := x.Elts[len(x.Elts)-1].(*ast.BasicLit)
		ok = ok1 && ok2
		if ok {
			var err error
			info, prefixLen, _, err = literal.ParseQuotes(first.Value, last.Value)
			ok = err == nil
		}
	}
	d.depth++
	for i, e := range x.Elts {
		if i%2 == 1 {
			d.depth--
			d.node(e)
			d.depth++
			continue
		}
		b, isLit := e.(*ast.BasicLit)
		if !isLit {
			d.depth--
			d.node(e)
			d.depth++
			continue
		}
		d.kinds["BasicLit"]++
		if ok && len(b.Value) >= prefixLen {
			if u, err := info.Unquote(b.Value[prefixLen:]); err == nil {
				kk := "s"
				if !info.IsDouble() {
					kk = "b"
				}
				d.line("Fragment %s:%s", kk, strconv.Quote(u))
				d.comments(b, "BasicLit")
				prefixLen = 1
				continue
			}
		}
		d.line("Fragment raw:%s", strconv.Quote(b.Value))
		d.comments(b, "BasicLit")
		prefixLen = 1
	}
	d.depth--
}

// dumpFile returns the structure dump (with the comments inline) of a parsed file.
func dumpFile(f *ast.File, o dumpOpts) *dumper {
	d := newDumper(o)
	d.synth = normalise(f, o.simplify)
	d.assign(f)
	d.node(f)
	d.placed, d.ell = placeComments(f, d.synth)
	return d
}

// stripComments removes the inline comment lines of a dump.
func stripComments(lines []string) []string {
	var out []string
	for _, l := range lines {
		if strings.HasPrefix(strings.TrimLeft(l, " "), "// ") {
			continue
		}
		out = append(out, l)
	}
	return out
}
