package main

import (
	"fmt"
	"strings"
)

// minimize is a line-based delta debugger used while triaging: it keeps the
// verdict word (and, if given, a substring of the detail) invariant.
func minimize(src []byte, v2, simp bool, want string) []byte {
	r0 := check(src, v2, simp)
	key := r0.verdict
	holds := func(b []byte) bool {
		if _, err := parse(b); err != nil {
			return false
		}
		r := check(b, v2, simp)
		if r.verdict != key {
			return false
		}
		return want == "" || strings.Contains(r.String(), want)
	}
	lines := strings.SplitAfter(string(src), "\n")
	n := 2
	for len(lines) >= 2 {
		chunk := (len(lines) + n - 1) / n
		reduced := false
		for i := 0; i < len(lines); i += chunk {
			j := min(i+chunk, len(lines))
			cand := append(append([]string{}, lines[:i]...), lines[j:]...)
			if holds([]byte(strings.Join(cand, ""))) {
				lines = cand
				n = max(n-1, 2)
				reduced = true
				break
			}
		}
		if !reduced {
			if chunk == 1 {
				break
			}
			n = min(n*2, len(lines))
		}
	}
	cur := []byte(strings.Join(lines, ""))
	// token-level pass: delete runs of tokens
	for pass := 0; pass < 6; pass++ {
		toks, ok := lexChecked(cur)
		if !ok {
			break
		}
		changed := false
		for size := len(toks) / 2; size >= 1; size /= 2 {
			for i := 0; i+size <= len(toks); {
				from, to := toks[i].off, toks[i+size-1].end
				cand := splice(cur, from, to, "")
				if to > from && holds(cand) {
					cur = cand
					changed = true
					toks, ok = lexChecked(cur)
					if !ok {
						break
					}
					continue
				}
				i++
			}
			if !ok {
				break
			}
		}
		if !changed || !ok {
			break
		}
	}
	fmt.Printf("---- minimized (%s):\n%s\n", r0, cur)
	return cur
}
