package main

import (
	"sort"
	"strings"

	"cuelang.org/go/cue/ast"
	"cuelang.org/go/cue/literal"
	"cuelang.org/go/cue/token"
)

// Known defect classes of the pinned tree.  A failing case is attributed to a
// class only by *masking*: the source is edited so that exactly the construct
// that triggers the documented mechanism disappears (an operand is put in
// parentheses, a comment in a documented bad position is deleted, ...) and the
// whole check is repeated on the edited source.  Only if that passes is the
// verdict `known K<i>`; any other breakage in the same source is still reported.

type edit struct {
	from, to int
	repl     string
}

type srcInfo struct {
	src    []byte
	f      *ast.File
	parent map[ast.Node]ast.Node
	placed []placedComment
	owner  map[*ast.CommentGroup]ast.Node
}

func analyse(src []byte) *srcInfo {
	f, err := parse(src)
	if err != nil {
		return nil
	}
	in := &srcInfo{src: src, f: f, parent: map[ast.Node]ast.Node{}, owner: map[*ast.CommentGroup]ast.Node{}}
	var stack []ast.Node
	ast.Walk(f, func(n ast.Node) bool {
		if len(stack) > 0 {
			in.parent[n] = stack[len(stack)-1]
		}
		for _, cg := range ast.Comments(n) {
			in.owner[cg] = n
		}
		stack = append(stack, n)
		return true
	}, func(n ast.Node) { stack = stack[:len(stack)-1] })
	in.placed, _ = placeComments(f, nil)
	return in
}

func (in *srcInfo) deleteComment(cg *ast.CommentGroup) []edit {
	var es []edit
	for _, c := range cg.List {
		o := c.Slash.Offset()
		es = append(es, edit{o, o + len(c.Text), ""})
	}
	return es
}

func wrap(n ast.Node) []edit {
	a, b := n.Pos().Offset(), n.End().Offset()
	return []edit{{a, a, "("}, {b, b, ")"}}
}

type knownClass struct {
	id    string
	short string
	v1    bool
	v2    bool
	s0    bool // applies without Simplify
	s1    bool
	mask  func(in *srcInfo) []edit
}

func unaryClash(a, b token.Token) bool {
	switch a {
	case token.LSS:
		return b == token.SUB || strings.HasPrefix(b.String(), "=")
	case token.GTR, token.NOT:
		return strings.HasPrefix(b.String(), "=")
	}
	return false
}

// commentMask builds a mask that deletes the comments selected by pred.
func commentMask(pred func(in *srcInfo, c placedComment) bool) func(in *srcInfo) []edit {
	return func(in *srcInfo) []edit {
		var es []edit
		for _, c := range in.placed {
			if pred(in, c) {
				es = append(es, in.deleteComment(c.cg)...)
			}
		}
		return es
	}
}

func isIdentLike(l ast.Label, name string) bool {
	switch x := l.(type) {
	case *ast.Ident:
		return x.Name == name
	case *ast.Alias:
		if id, ok := x.Expr.(*ast.Ident); ok {
			return id.Name == name
		}
	}
	return false
}

func simpleStringLabel(l ast.Label) (string, *ast.BasicLit, bool) {
	b, ok := l.(*ast.BasicLit)
	if !ok || b.Kind != token.STRING || !strings.HasPrefix(b.Value, `"`) || strings.HasPrefix(b.Value, `"""`) {
		return "", nil, false
	}
	u, err := literal.Unquote(b.Value)
	if err != nil {
		return "", nil, false
	}
	return u, b, true
}

func spoilLabel(b *ast.BasicLit) edit {
	o := b.ValuePos.Offset() + len(b.Value) - 1
	return edit{o, o, "-"}
}

func declLists(f *ast.File) [][]ast.Decl {
	out := [][]ast.Decl{f.Decls}
	ast.Walk(f, func(n ast.Node) bool {
		if s, ok := n.(*ast.StructLit); ok {
			out = append(out, s.Elts)
		}
		return true
	}, nil)
	return out
}

var knownClasses = []knownClass{
	{id: "K1", short: "unary-unary-blank", v1: true, s0: true, s1: true, mask: func(in *srcInfo) []edit {
		var es []edit
		ast.Walk(in.f, func(n ast.Node) bool {
			if u, ok := n.(*ast.UnaryExpr); ok {
				if w, ok := u.X.(*ast.UnaryExpr); ok && unaryClash(u.Op, w.Op) {
					es = append(es, wrap(w)...)
				}
			}
			return true
		}, nil)
		return es
	}},
	{id: "K2", short: "int-selector-blank", v2: true, s0: true, s1: true, mask: func(in *srcInfo) []edit {
		var es []edit
		ast.Walk(in.f, func(n ast.Node) bool {
			if s, ok := n.(*ast.SelectorExpr); ok {
				if b, ok := s.X.(*ast.BasicLit); ok && b.Kind == token.INT {
					es = append(es, wrap(b)...)
				}
			}
			return true
		}, nil)
		return es
	}},
	{id: "K12", short: "v1-double-paren-collapse-uses-inner-position", v1: true, s0: true, s1: true, mask: func(in *srcInfo) []edit {
		var es []edit
		ast.Walk(in.f, func(n ast.Node) bool {
			if p, ok := n.(*ast.ParenExpr); ok {
				if q, ok := p.X.(*ast.ParenExpr); ok {
					a, b := p.Lparen.Offset(), q.Lparen.Offset()
					c, d := q.Rparen.Offset(), p.Rparen.Offset()
					if a < b && c < d && onlyWS(in.src[a+1:b]) && onlyWS(in.src[c+1:d]) {
						es = append(es, edit{a + 1, b + 1, ""}, edit{c, d, ""})
					}
				}
			}
			return true
		}, nil)
		return es
	}},
	// K3, K4, K19 and the second-pass form of K12: see converges()
	{id: "K5", short: "comment-after-last-comprehension", v1: true, s0: true, s1: true,
		mask: commentMask(func(in *srcInfo, c placedComment) bool {
			comp, ok := in.owner[c.cg].(*ast.Comprehension)
			return ok && c.off >= comp.End().Offset()
		})},
	// class W, old formatter only: a line comment directly behind a binary operator
	// (`a + // c`) is moved to the end of the expression, into the next operand, or
	// the output does not parse (witness corpus/C08/W-comment-after-operator.cue).
	// NOT for the default formatter: there such a comment is handled (chain tables).
	{id: "W", short: "v1-line-comment-after-binary-operator", v1: true, s0: true, s1: true,
		mask: commentMask(func(in *srcInfo, c placedComment) bool {
			if c.prev == nil || c.prev.tok != "op" || !c.line {
				return false
			}
			_, ok := c.prev.node.(*ast.BinaryExpr)
			return ok
		})},
	{id: "K6", short: "line-comment-after-comprehension-brace", v1: true, v2: true, s0: true, s1: true,
		mask: commentMask(func(in *srcInfo, c placedComment) bool {
			if c.prev == nil || c.prev.tok != "{" || !c.line {
				return false
			}
			switch in.parent[c.prev.node].(type) {
			case *ast.Comprehension, *ast.FallbackClause:
				return true
			}
			return false
		})},
	{id: "K7", short: "simplify-unquotes-#label-next-to-definition", v1: true, v2: true, s1: true, mask: func(in *srcInfo) []edit {
		var es []edit
		for _, list := range declLists(in.f) {
			for _, d := range list {
				f, ok := d.(*ast.Field)
				if !ok {
					continue
				}
				u, b, ok := simpleStringLabel(f.Label)
				if !ok || !(strings.HasPrefix(u, "#") || strings.HasPrefix(u, "_")) {
					continue
				}
				for _, e := range list {
					if g, ok := e.(*ast.Field); ok && isIdentLike(g.Label, u) {
						es = append(es, spoilLabel(b))
						break
					}
				}
			}
		}
		return es
	}},
	{id: "K8", short: "simplify-drops-attribute-or-alias-of-pattern-ellipsis", v1: true, v2: true, s1: true, mask: func(in *srcInfo) []edit {
		var es []edit
		ast.Walk(in.f, func(n ast.Node) bool {
			f, ok := n.(*ast.Field)
			if !ok || (len(f.Attrs) == 0 && f.Alias == nil) {
				return true
			}
			g := *f
			g.Attrs, g.Alias = nil, nil
			if isEllipsisLike(&g) {
				for _, a := range f.Attrs {
					o := a.At.Offset()
					es = append(es, edit{o, o + len(a.Text), ""})
				}
				if f.Alias != nil {
					es = append(es, edit{f.Alias.Pos().Offset(), f.Alias.End().Offset(), ""})
				}
			}
			return true
		}, nil)
		return es
	}},
	{id: "K9", short: "comment-between-colon-and-chained-field-lost", v2: true, s0: true, s1: true,
		mask: commentMask(func(in *srcInfo, c placedComment) bool {
			if c.prev == nil || c.prev.tok != ":" {
				return false
			}
			f, ok := c.prev.node.(*ast.Field)
			if !ok {
				return false
			}
			s, ok := f.Value.(*ast.StructLit)
			return ok && !s.Lbrace.IsValid()
		})},
	{id: "K10", short: "simplify-unquotes-outer-label-capturing-reference", v1: true, v2: true, s1: true, mask: maskK10},
	{id: "K13", short: "import-specs-on-one-line-lose-comma", v1: true, s0: true, s1: true, mask: func(in *srcInfo) []edit {
		var es []edit
		ast.Walk(in.f, func(n ast.Node) bool {
			if d, ok := n.(*ast.ImportDecl); ok {
				for i, sp := range d.Specs {
					if i > 0 && sp.Pos().RelPos() < token.Newline {
						o := sp.Pos().Offset()
						es = append(es, edit{o, o, "\n"})
					}
				}
			}
			return true
		}, nil)
		return es
	}},
	{id: "K14", short: "simplify-unquotes-label-equal-to-alias-name", v1: true, v2: true, s1: true, mask: func(in *srcInfo) []edit {
		names := map[string]bool{}
		ast.Walk(in.f, func(n ast.Node) bool {
			switch x := n.(type) {
			case *ast.Alias:
				names[x.Ident.Name] = true
			case *ast.PostfixAlias:
				if x.Label != nil {
					names[x.Label.Name] = true
				}
				if x.Field != nil {
					names[x.Field.Name] = true
				}
			}
			return true
		}, nil)
		var es []edit
		ast.Walk(in.f, func(n ast.Node) bool {
			if f, ok := n.(*ast.Field); ok {
				if u, b, ok := simpleStringLabel(f.Label); ok && names[u] {
					es = append(es, spoilLabel(b))
				}
			}
			return true
		}, nil)
		return es
	}},
	{id: "K15", short: "simplify-ellipsis-followed-by-decl-on-same-line", v1: true, s1: true, mask: func(in *srcInfo) []edit {
		var es []edit
		for _, list := range declLists(in.f) {
			for i, d := range list {
				if i+1 >= len(list) {
					continue
				}
				_, isEll := d.(*ast.Ellipsis)
				if f, ok := d.(*ast.Field); ok {
					g := *f
					g.Attrs, g.Alias = nil, nil
					isEll = isEllipsisLike(&g)
				}
				if nx := list[i+1]; isEll && nx.Pos().HasAbsPos() && nx.Pos().RelPos() < token.Newline {
					o := nx.Pos().Offset()
					es = append(es, edit{o, o, "\n"})
				}
			}
		}
		return es
	}},
	{id: "K16", short: "crlf-multiline-interpolation", v1: true, s0: true, s1: true, mask: func(in *srcInfo) []edit {
		if !strings.Contains(string(in.src), "\r\n") {
			return nil
		}
		multi := false
		ast.Walk(in.f, func(n ast.Node) bool {
			if ip, ok := n.(*ast.Interpolation); ok && len(ip.Elts) > 0 {
				if b, ok := ip.Elts[0].(*ast.BasicLit); ok && strings.Contains(b.Value, "\n") {
					multi = true
				}
			}
			return true
		}, nil)
		if !multi {
			return nil
		}
		var es []edit
		for i := 0; i+1 < len(in.src); i++ {
			if in.src[i] == '\r' && in.src[i+1] == '\n' {
				es = append(es, edit{i, i + 1, ""})
			}
		}
		return es
	}},
	{id: "K17", short: "line-comment-after-three-attributes", v1: true, s0: true, s1: true,
		mask: commentMask(func(in *srcInfo, c placedComment) bool {
			f, ok := in.owner[c.cg].(*ast.Field)
			return ok && len(f.Attrs) >= 3 && c.off > f.Attrs[len(f.Attrs)-1].At.Offset()
		})},
	{id: "K18", short: "line-comment-between-comprehension-clauses", v1: true, v2: true, s0: true, s1: true,
		mask: commentMask(func(in *srcInfo, c placedComment) bool {
			if c.next == nil || !c.line {
				return false
			}
			cl, ok := c.next.node.(ast.Clause)
			if !ok {
				return false
			}
			comp, ok := in.parent[c.next.node].(*ast.Comprehension)
			return ok && len(comp.Clauses) > 0 && comp.Clauses[0] != cl
		})},
	{id: "K22", short: "comment-inside-single-line-interpolation-swallows-code", v2: true, s0: true, s1: true,
		mask: commentMask(func(in *srcInfo, c placedComment) bool {
			inside := false
			ast.Walk(in.f, func(n ast.Node) bool {
				ip, ok := n.(*ast.Interpolation)
				if !ok || len(ip.Elts) == 0 {
					return true
				}
				if b, ok := ip.Elts[0].(*ast.BasicLit); ok && !strings.Contains(b.Value, "\n") &&
					ip.Pos().Offset() < c.off && c.off < ip.End().Offset() {
					inside = true
				}
				return true
			}, nil)
			return inside
		})},
	{id: "K20", short: "line-comment-after-call-argument", v1: true, v2: true, s0: true, s1: true,
		mask: commentMask(func(in *srcInfo, c placedComment) bool {
			if c.prev == nil || c.next == nil || !c.line {
				return false
			}
			// the token before the comment ends an argument of a call and the
			// token after it starts the next argument or is the call's `)`
			for n := c.prev.node; n != nil; n = in.parent[n] {
				call, ok := in.parent[n].(*ast.CallExpr)
				if !ok {
					continue
				}
				for i, a := range call.Args {
					if a != n {
						continue
					}
					if a.End().Offset() > c.off {
						return false
					}
					if i+1 < len(call.Args) {
						return call.Args[i+1].Pos().Offset() > c.off
					}
					return call.Rparen.Offset() > c.off
				}
			}
			return false
		})},
	{id: "K21", short: "comment-before-or-after-list-ellipsis", v1: true, v2: true, s0: true, s1: true,
		mask: commentMask(func(in *srcInfo, c placedComment) bool {
			if c.next != nil && c.next.tok == "..." {
				if _, inList := in.parent[c.next.node].(*ast.ListLit); inList {
					return true // own-line comment in front of the ellipsis
				}
			}
			if c.prev == nil || !c.line {
				return false
			}
			for n := c.prev.node; n != nil; n = in.parent[n] {
				if e, ok := n.(*ast.Ellipsis); ok {
					_, inList := in.parent[e].(*ast.ListLit)
					return inList && e.End().Offset() <= c.off
				}
				if _, ok := n.(*ast.ListLit); ok {
					return false
				}
			}
			return false
		})},
	{id: "K23", short: "simplify-ignores-references-inside-labels", v1: true, v2: true, s1: true, mask: func(in *srcInfo) []edit {
		// names referenced from inside a label (interpolated, dynamic or
		// pattern label), per enclosing declaration list
		var es []edit
		var lists []ast.Node
		refs := map[ast.Node]map[string]bool{}
		var inLabel int
		var walk func(n ast.Node)
		walk = func(n ast.Node) {
			ast.Walk(n, func(n ast.Node) bool {
				switch x := n.(type) {
				case *ast.File, *ast.StructLit:
					lists = append(lists, n)
				case *ast.Field:
					inLabel++
					switch l := x.Label.(type) {
					case *ast.Ident, *ast.BasicLit:
					case *ast.Alias:
						walk(l.Expr)
					default:
						walk(x.Label)
					}
					inLabel--
					if x.Alias != nil {
						walk(x.Alias)
					}
					if x.Value != nil {
						walk(x.Value)
					}
					for _, a := range x.Attrs {
						walk(a)
					}
					return false
				case *ast.SelectorExpr:
					walk(x.X)
					return false
				case *ast.Ident:
					if inLabel > 0 {
						for _, l := range lists {
							if refs[l] == nil {
								refs[l] = map[string]bool{}
							}
							refs[l][x.Name] = true
						}
					}
				}
				return true
			}, func(n ast.Node) {
				switch n.(type) {
				case *ast.File, *ast.StructLit:
					lists = lists[:len(lists)-1]
				}
			})
		}
		walk(in.f)
		var visit func(owner ast.Node, decls []ast.Decl)
		visit = func(owner ast.Node, decls []ast.Decl) {
			for _, d := range decls {
				if f, ok := d.(*ast.Field); ok {
					if u, b, ok := simpleStringLabel(f.Label); ok && refs[owner][u] {
						es = append(es, spoilLabel(b))
					}
				}
			}
		}
		visit(in.f, in.f.Decls)
		ast.Walk(in.f, func(n ast.Node) bool {
			if s, ok := n.(*ast.StructLit); ok {
				visit(s, s.Elts)
			}
			return true
		}, nil)
		return es
	}},
	{id: "K24", short: "simplify-unquoted-label-joins-preceding-comment", v1: true, v2: true, s1: true, mask: func(in *srcInfo) []edit {
		var es []edit
		for _, c := range in.placed {
			if c.next == nil || c.doc {
				continue
			}
			b, ok := c.next.node.(*ast.BasicLit)
			if !ok {
				continue
			}
			if f, ok := in.parent[b].(*ast.Field); ok && f.Label == ast.Label(b) {
				if u, bl, ok := simpleStringLabel(f.Label); ok && plainIdent(u) {
					es = append(es, spoilLabel(bl))
				}
			}
		}
		return es
	}},
	{id: "K11", short: "comment-at-end-of-struct-list-element", v1: true, s0: true, s1: true,
		mask: commentMask(func(in *srcInfo, c placedComment) bool {
			if c.next == nil || c.next.tok != "}" || c.line {
				return false
			}
			_, ok := in.parent[c.next.node].(*ast.ListLit)
			return ok
		})},
}

// maskK10: for a reference x the label simplifier walks the enclosing scopes
// outwards and invalidates the first one whose name map contains x, then
// stops.  The name map of a scope is filled from quoted labels, identifier
// labels and every identifier or string that occurs inside a parenthesised
// label.  When that first scope does not really bind x (it only has a quoted
// label "x", or x merely occurs inside a dynamic label there), quoted labels
// "x" in scopes further out are still unquoted and capture the reference.
// The mask spoils exactly those outer labels.
func maskK10(in *srcInfo) []edit {
	type scopeInfo struct {
		strs    map[string]*ast.BasicLit // direct simple string labels
		names   map[string]bool          // what the simplifier puts in its map
		binders map[string]bool          // identifiers that really bind here
	}
	info := map[ast.Node]*scopeInfo{}
	build := func(owner ast.Node, decls []ast.Decl) {
		si := &scopeInfo{strs: map[string]*ast.BasicLit{}, names: map[string]bool{}, binders: map[string]bool{}}
		for _, d := range decls {
			switch x := d.(type) {
			case *ast.Field:
				if u, b, ok := simpleStringLabel(x.Label); ok && plainIdent(u) {
					if _, dup := si.strs[u]; !dup {
						si.strs[u] = b
					}
				}
				switch l := x.Label.(type) {
				case *ast.Ident:
					si.binders[l.Name] = true
				case *ast.Alias:
					si.binders[l.Ident.Name] = true
					if id, ok := l.Expr.(*ast.Ident); ok {
						si.binders[id.Name] = true
					}
				}
				if x.Alias != nil && x.Alias.Field != nil {
					si.binders[x.Alias.Field.Name] = true
				}
				ast.Walk(x.Label, func(n ast.Node) bool {
					switch y := n.(type) {
					case *ast.BasicLit:
						if u, err := literal.Unquote(y.Value); err == nil && y.Kind == token.STRING && plainIdent(u) {
							si.names[u] = true
						}
					case *ast.Ident:
						si.names[y.Name] = true
					case *ast.ListLit, *ast.Interpolation:
						return false
					}
					return true
				}, nil)
			case *ast.LetClause:
				si.binders[x.Ident.Name] = true
			case *ast.Alias:
				si.binders[x.Ident.Name] = true
			}
		}
		info[owner] = si
	}
	build(in.f, in.f.Decls)
	ast.Walk(in.f, func(n ast.Node) bool {
		if s, ok := n.(*ast.StructLit); ok {
			build(s, s.Elts)
		}
		return true
	}, nil)

	var es []edit
	seen := map[*ast.BasicLit]bool{}
	var scopes []ast.Node
	var inLabel int
	var walk func(n ast.Node)
	walk = func(n ast.Node) {
		ast.Walk(n, func(n ast.Node) bool {
			switch x := n.(type) {
			case *ast.File, *ast.StructLit:
				scopes = append(scopes, n)
			case *ast.Field:
				inLabel++
				walk(x.Label)
				inLabel--
				if x.Alias != nil {
					walk(x.Alias)
				}
				if x.Value != nil {
					walk(x.Value)
				}
				return false
			case *ast.SelectorExpr:
				walk(x.X)
				return false
			case *ast.Ident:
				if inLabel > 0 {
					break // K23
				}
				blocked := false
				for i := len(scopes) - 1; i >= 0; i-- {
					si := info[scopes[i]]
					if si.binders[x.Name] {
						break
					}
					if blocked {
						if b := si.strs[x.Name]; b != nil && !seen[b] {
							seen[b] = true
							es = append(es, spoilLabel(b))
						}
					}
					if si.names[x.Name] {
						blocked = true
					}
				}
			}
			return true
		}, func(n ast.Node) {
			switch n.(type) {
			case *ast.File, *ast.StructLit:
				scopes = scopes[:len(scopes)-1]
			}
		})
	}
	walk(in.f)
	return es
}

func applyEdits(src []byte, es []edit) []byte {
	sort.SliceStable(es, func(i, j int) bool { return es[i].from < es[j].from })
	var out []byte
	pos := 0
	for _, e := range es {
		if e.from < pos {
			if e.to <= pos {
				continue // duplicate / overlapping deletion
			}
			e.from = pos
		}
		out = append(out, src[pos:e.from]...)
		out = append(out, e.repl...)
		pos = e.to
	}
	return append(out, src[pos:]...)
}

func stripChars(b []byte, set string) string {
	var sb strings.Builder
	for _, c := range b {
		if strings.IndexByte(set, c) < 0 {
			sb.WriteByte(c)
		}
	}
	return sb.String()
}

// converges recognises the two documented idempotence defects: the second
// pass differs from the first only in alignment blanks (K3: v1 -s, after a
// struct was collapsed to a chain) or only in a trailing comma before a `)` on
// its own line (K4: v2), and the second result is a fixed point that still has
// the same tree.
// simplifyRewrites: -s changes the structure of the source (a braced
// single-field struct that can become a chain, a string label that can become
// an identifier, or an ellipsis marker, which is always re-created); the
// rewritten nodes have no source position on the first pass.
func simplifyRewrites(src []byte) bool {
	f, err := parse(src)
	if err != nil {
		return false
	}
	found := false
	for _, d := range f.Decls {
		if isEllipsisLike(d) {
			found = true
		}
	}
	ast.Walk(f, func(n ast.Node) bool {
		switch x := n.(type) {
		case *ast.Field:
			if s, ok := x.Value.(*ast.StructLit); ok && len(s.Elts) == 1 && s.Lbrace.IsValid() {
				if _, ok := s.Elts[0].(*ast.Field); ok {
					found = true
				}
			}
			if u, _, ok := simpleStringLabel(x.Label); ok && plainIdent(u) {
				found = true
			}
		case *ast.StructLit:
			for _, d := range x.Elts {
				if isEllipsisLike(d) {
					found = true
				}
			}
		}
		return !found
	}, nil)
	return found
}

// v1AddsBraces: a chain `a: b: v` whose inner field has attributes or
// comments; the v1 formatter prints it as `a: {b: v}`.
func v1AddsBraces(src []byte) bool {
	f, err := parse(src)
	if err != nil {
		return false
	}
	found := false
	ast.Walk(f, func(n ast.Node) bool {
		if x, ok := n.(*ast.Field); ok {
			if s, ok := x.Value.(*ast.StructLit); ok && len(s.Elts) == 1 && !s.Lbrace.IsValid() {
				if in, ok := s.Elts[0].(*ast.Field); ok && (len(in.Attrs) > 0 || len(ast.Comments(in)) > 0 || len(ast.Comments(in.Label)) > 0) {
					found = true
				}
			}
		}
		return !found
	}, nil)
	return found
}

// chainBrokenAfterColon: a brace-less chain `a: b:` whose next link starts on a
// new line and whose innermost field carries an attribute (K27: v2 -s expands the
// chain to nested braces on the first pass and collapses it again on the second).
func chainBrokenAfterColon(src []byte) bool {
	f, err := parse(src)
	if err != nil {
		return false
	}
	found := false
	ast.Walk(f, func(n ast.Node) bool {
		if x, ok := n.(*ast.Field); ok {
			if s, ok := x.Value.(*ast.StructLit); ok && len(s.Elts) == 1 && !s.Lbrace.IsValid() {
				if in, ok := s.Elts[0].(*ast.Field); ok && in.Pos().RelPos() >= token.Newline {
					// innermost field of the chain
					last := in
					for {
						s2, ok := last.Value.(*ast.StructLit)
						if !ok || len(s2.Elts) != 1 || s2.Lbrace.IsValid() {
							break
						}
						nx, ok := s2.Elts[0].(*ast.Field)
						if !ok {
							break
						}
						last = nx
					}
					if len(last.Attrs) > 0 {
						found = true
					}
				}
			}
		}
		return !found
	}, nil)
	return found
}

// hasDoubleParen: the source has ((x)) (printed as (x) with the position of
// the inner parenthesis) or a list inside a string interpolation.
func hasDoubleParen(src []byte) bool {
	f, err := parse(src)
	if err != nil {
		return false
	}
	found := false
	inInterp := 0
	ast.Walk(f, func(n ast.Node) bool {
		switch p := n.(type) {
		case *ast.ParenExpr:
			if _, ok := p.X.(*ast.ParenExpr); ok {
				found = true
			}
		case *ast.Interpolation:
			inInterp++
		case *ast.ListLit:
			if inInterp > 0 {
				found = true
			}
		}
		return true
	}, func(n ast.Node) {
		if _, ok := n.(*ast.Interpolation); ok {
			inInterp--
		}
	})
	return found
}

func converges(src []byte, r result, v2, simplify bool, generic bool) string {
	if r.verdict != "not-idempotent" || r.out == nil || r.out2 == nil {
		return ""
	}
	kind := ""
	switch {
	case !v2 && simplify && stripChars(r.out, " \t\n,") == stripChars(r.out2, " \t\n,") && simplifyRewrites(src):
		kind = "K3 v1-simplify-rewrite-settles-on-second-pass"
	case !v2 && stripChars(r.out, " \t") == stripChars(r.out2, " \t") && v1AddsBraces(src):
		kind = "K19 v1-braces-added-realign"
	case v2 && stripChars(r.out, " \t\n,") == stripChars(r.out2, " \t\n,"):
		kind = "K4 v2-call-closing-paren-comma"
	case v2 && simplify && stripChars(r.out, " \t\n,{}") == stripChars(r.out2, " \t\n,{}") && chainBrokenAfterColon(src):
		kind = "K27 v2-simplify-chain-broken-after-colon-settles-on-second-pass"
	case !v2 && stripChars(r.out, " \t\n,") == stripChars(r.out2, " \t\n,") && hasDoubleParen(src):
		kind = "K12 v1-double-paren-or-list-in-interpolation-second-pass"
	case generic && stripChars(r.out, " \t\n,{}") == stripChars(r.out2, " \t\n,{}"):
		// no specific trigger recognised: the effect-defined class "the layout needs a
		// second pass" (blanks, line breaks, commas, optional braces only; below it is
		// verified that the second pass is a fixed point with the same tree).  The check
		// bounds how often this may happen.
		kind = "K28 two-pass-layout-convergence"
	default:
		return ""
	}
	if r2 := checkRaw(r.out, v2, simplify); r2.verdict != "ok" {
		return ""
	}
	return kind
}

func classifyKnown(src []byte, v2, simplify bool, r result) string {
	if k := converges(src, r, v2, simplify, false); k != "" {
		return k
	}
	in := analyse(src)
	if in == nil {
		return converges(src, r, v2, simplify, true)
	}
	type cand struct {
		name  string
		edits []edit
	}
	var cands []cand
	var all []edit
	for _, k := range knownClasses {
		if (v2 && !k.v2) || (!v2 && !k.v1) || (simplify && !k.s1) || (!simplify && !k.s0) {
			continue
		}
		if es := k.mask(in); len(es) > 0 {
			cands = append(cands, cand{k.id + " " + k.short, es})
			all = append(all, es...)
		}
	}
	try := func(name string, es []edit) string {
		masked := applyEdits(src, append([]edit{}, es...))
		if _, err := parse(masked); err != nil {
			return ""
		}
		r2 := checkRaw(masked, v2, simplify)
		if r2.verdict == "ok" {
			return name
		}
		if k := converges(masked, r2, v2, simplify, true); k != "" {
			return name + " + " + k
		}
		return ""
	}
	for _, c := range cands {
		if k := try(c.name, c.edits); k != "" {
			return k
		}
	}
	if len(cands) > 1 {
		var names []string
		for _, c := range cands {
			names = append(names, c.name)
		}
		if k := try(strings.Join(names, " + "), all); k != "" {
			return k
		}
	}
	// last resort: the effect-defined two-pass class
	return converges(src, r, v2, simplify, true)
}
