// C08 file-level harness: runs cue/format (both formatters, with and without
// Simplify) over every CUE source found in /repo, over mutants of them and over
// generated programs, and checks directly that formatting succeeds, is idempotent
// and does not change the syntax tree (comments included).
package main

import (
	"crypto/sha256"
	"encoding/json"
	"fmt"
	"io/fs"
	"os"
	"path/filepath"
	"runtime"
	"runtime/debug"
	"runtime/pprof"
	"sort"
	"strings"
	"sync"
	"time"

	"cuelang.org/go/internal/cueexperiment"
	"cuelang.org/go/internal/verifharness/common"
	"golang.org/x/tools/txtar"
)

type source struct {
	name string // path#section relative to the repo root
	data []byte
}

type corpusInfo struct {
	Files       int `json:"files_scanned"`
	Txtar       int `json:"txtar_archives"`
	Candidates  int `json:"cue_sources_found"`
	Duplicates  int `json:"duplicates_dropped"`
	Unparseable int `json:"unparseable"`
	Sources     int `json:"sources"`
}

func loadCorpus(root string) ([]source, corpusInfo) {
	var info corpusInfo
	var all []source
	filepath.WalkDir(root, func(p string, d fs.DirEntry, err error) error {
		if err != nil {
			return nil
		}
		if d.IsDir() {
			if d.Name() == ".git" {
				return filepath.SkipDir
			}
			return nil
		}
		rel, _ := filepath.Rel(root, p)
		switch {
		case strings.HasSuffix(p, ".cue"):
			b, err := os.ReadFile(p)
			if err != nil {
				return nil
			}
			info.Files++
			all = append(all, source{rel, b})
		case strings.HasSuffix(p, ".txtar"):
			b, err := os.ReadFile(p)
			if err != nil {
				return nil
			}
			info.Files++
			info.Txtar++
			ar := txtar.Parse(b)
			seen := map[string]int{}
			for _, f := range ar.Files {
				if !strings.HasSuffix(f.Name, ".cue") {
					continue
				}
				nm := rel + "#" + f.Name
				seen[nm]++
				if seen[nm] > 1 {
					nm = fmt.Sprintf("%s~%d", nm, seen[nm])
				}
				all = append(all, source{nm, f.Data})
			}
		}
		return nil
	})
	info.Candidates = len(all)
	sort.Slice(all, func(i, j int) bool { return all[i].name < all[j].name })
	seen := map[[32]byte]bool{}
	var out []source
	for _, s := range all {
		h := sha256.Sum256(s.data)
		if seen[h] {
			info.Duplicates++
			continue
		}
		seen[h] = true
		if _, err := parse(s.data); err != nil {
			info.Unparseable++
			continue
		}
		out = append(out, s)
	}
	info.Sources = len(out)
	return out, info
}

type caseRec struct {
	line string // cases.txt line
	src  []byte
	v2   bool
	simp bool
	bad  bool // malformed stream: format.Source must reject it
	res  result
	// witness cases: the verdict recorded in corpus/C08/expected.txt
	expect string
}

// runAll runs the cases; the two formatters strictly one after the other (the
// selection flag is process-global), sources in parallel inside one pass.
func runAll(cs []*caseRec, workers int) {
	for _, v2 := range []bool{false, true} {
		var idx []int
		for i, c := range cs {
			if c.v2 == v2 {
				idx = append(idx, i)
			}
		}
		var wg sync.WaitGroup
		ch := make(chan int, 64)
		for w := 0; w < workers; w++ {
			wg.Add(1)
			go func() {
				defer wg.Done()
				for i := range ch {
					c := cs[i]
					if c.bad {
						c.res = checkBad(c.src, c.v2, c.simp)
					} else {
						c.res = check(c.src, c.v2, c.simp)
					}
					if c.expect != "" {
						c.res = witnessVerdict(c.res, c.expect)
					}
					// drop the heavy parts unless needed
					c.res.dx, c.res.dy = slimDumper(c.res.dx), slimDumper(c.res.dy)
					c.res.out, c.res.out2 = nil, nil
				}
			}()
		}
		for _, i := range idx {
			ch <- i
		}
		close(ch)
		wg.Wait()
	}
}

func slimDumper(d *dumper) *dumper {
	if d == nil {
		return nil
	}
	return &dumper{kinds: d.kinds, cpos: d.cpos, placed: d.placed[:0:0], tree: nil}
}

type stats struct {
	Corpus     corpusInfo                `json:"corpus"`
	Mode       string                    `json:"mode"`
	Seed       uint64                    `json:"seed"`
	Stride     int                       `json:"stride"`
	Cases      int                       `json:"cases"`
	Bytes      int                       `json:"bytes_processed"`
	Verdicts   map[string]map[string]int `json:"verdicts"` // "v1/s0" -> verdict -> n
	Known      map[string]int            `json:"known_classes"`
	Reattached int                       `json:"ok_cases_with_comments_reattached_to_other_node_or_position"`
	Sizes      map[string]int            `json:"source_size_distribution"`
	Kinds      map[string]int            `json:"node_kinds_seen"`
	CommentPos map[string]int            `json:"comment_positions_seen"`
	Malformed  map[string]int            `json:"malformed_stream"`
	Mutations  map[string]int            `json:"mutation_classes"`
	GenStats   map[string]int            `json:"generator"`
	NonOK      []string                  `json:"non_ok_samples"`
	WallS      float64                   `json:"wall_s"`
}

func sizeBucket(n int) string {
	switch {
	case n < 64:
		return "<64"
	case n < 256:
		return "<256"
	case n < 1024:
		return "<1Ki"
	case n < 4096:
		return "<4Ki"
	case n < 16384:
		return "<16Ki"
	default:
		return ">=16Ki"
	}
}

func newStats() *stats {
	return &stats{Verdicts: map[string]map[string]int{}, Known: map[string]int{}, Sizes: map[string]int{},
		Kinds: map[string]int{}, CommentPos: map[string]int{}, Malformed: map[string]int{}, Mutations: map[string]int{}, GenStats: map[string]int{}}
}

func (st *stats) account(cs []*caseRec) {
	for _, c := range cs {
		key := vname(c.v2) + "/" + sname(c.simp)
		if st.Verdicts[key] == nil {
			st.Verdicts[key] = map[string]int{}
		}
		if c.bad {
			st.Malformed[vname(c.v2)+"/"+c.res.String()]++
			st.Cases++
			continue
		}
		st.Verdicts[key][c.res.verdict]++
		st.Cases++
		st.Bytes += len(c.src)
		if c.res.reattached {
			st.Reattached++
		}
		if c.res.verdict == "known" {
			st.Known[strings.Fields(c.res.detail)[0]+"/"+vname(c.v2)]++
		}
		if !c.v2 && !c.simp {
			st.Sizes[sizeBucket(len(c.src))]++
			if c.res.dx != nil {
				for k, n := range c.res.dx.kinds {
					st.Kinds[k] += n
				}
				for k, n := range c.res.dx.cpos {
					st.CommentPos[k] += n
				}
			}
		}
		if c.res.verdict != "ok" && len(st.NonOK) < 40 {
			st.NonOK = append(st.NonOK, c.line[:min(len(c.line), 120)]+" => "+c.res.String())
		}
	}
}

func fourCases(tag string, src []byte, mk func(v, s string) string) []*caseRec {
	var out []*caseRec
	for _, v2 := range []bool{false, true} {
		for _, s := range []bool{false, true} {
			out = append(out, &caseRec{line: mk(vname(v2), sname(s)), src: src, v2: v2, simp: s})
		}
	}
	return out
}

func srcCases(tag string, src []byte) []*caseRec {
	return fourCases(tag, src, func(v, s string) string {
		return fmt.Sprintf("SRC %s %s %s %s", tag, v, s, common.Hex(string(src)))
	})
}

func show(c *caseRec) {
	r := checkRaw(c.src, c.v2, c.simp)
	fmt.Printf("==== %s\n---- verdict: %s\n", c.line[:min(len(c.line), 200)], check(c.src, c.v2, c.simp))
	fmt.Printf("---- x (%d bytes)\n%s\n---- out\n%s\n---- out2\n%s\n", len(c.src), c.src, r.out, r.out2)
	if r.dx != nil && r.dy != nil {
		fmt.Printf("---- dump diff (x vs out)\n")
		a, b := r.dx.tree, r.dy.tree
		n := 0
		for i := 0; i < len(a) || i < len(b); i++ {
			var x, y string
			if i < len(a) {
				x = a[i]
			}
			if i < len(b) {
				y = b[i]
			}
			if x != y {
				fmt.Printf("%4d - %s\n%4d + %s\n", i, x, i, y)
				n++
				if n > 12 {
					fmt.Println("     ...")
					break
				}
			}
		}
	}
}

func main() {
	t0 := time.Now()
	a := common.Args(os.Args[1:])
	seed := uint64(common.Atoi(a["--seed"], 1))
	mode := a["--mode"]
	if mode == "" {
		mode = "corpus"
	}
	stride := common.Atoi(a["--stride"], 8)
	n := common.Atoi(a["--n"], 1000)
	root := a["--repo"]
	if root == "" {
		root = "/repo"
	}
	workers := common.Atoi(a["--workers"], runtime.NumCPU())
	doShow := a["--show"] != "" && a["--show"] != "0"
	cmtStrict = a["--cmt"] != "decl"
	cueexperiment.Init()
	debug.SetGCPercent(400)
	if pf := a["--cpuprofile"]; pf != "" {
		f, _ := os.Create(pf)
		pprof.StartCPUProfile(f)
		defer pprof.StopCPUProfile()
	}

	st := newStats()
	st.Mode, st.Seed, st.Stride = mode, seed, stride
	var cs []*caseRec

	var corpus []source
	needCorpus := mode == "corpus" || mode == "mutate" || mode == "all"
	if f := a["--replay-cases"]; f != "" {
		mode = "replay"
		st.Mode = mode
		data, err := os.ReadFile(f)
		if err != nil {
			panic(err)
		}
		lines := strings.Split(strings.TrimSpace(string(data)), "\n")
		needCorpus = false
		for _, l := range lines {
			if strings.HasPrefix(l, "FILE ") {
				needCorpus = true
			}
		}
		byName := map[string][]byte{}
		if needCorpus {
			corpus, st.Corpus = loadCorpus(root)
			for _, s := range corpus {
				byName[s.name] = s.data
			}
		}
		for _, l := range lines {
			f := strings.Fields(l)
			if len(f) < 5 {
				continue
			}
			c := &caseRec{line: l, v2: f[2] == "v2", simp: f[3] == "s1"}
			switch f[0] {
			case "FILE":
				name := strings.Join(f[4:], " ")
				d, ok := byName[name]
				if !ok {
					fmt.Fprintf(os.Stderr, "c08f: unknown source %q\n", name)
					os.Exit(2)
				}
				c.src = d
			case "SRC":
				c.src = []byte(common.Unhex(f[4]))
			case "BAD":
				c.src = []byte(common.Unhex(f[4]))
				c.bad = true
			default:
				continue
			}
			cs = append(cs, c)
		}
	} else {
		if needCorpus {
			corpus, st.Corpus = loadCorpus(root)
		}
		corpusCases := func() {
			for i := 0; i < len(corpus); i += stride {
				s := corpus[i]
				i := i
				cs = append(cs, fourCases("", s.data, func(v, sm string) string {
					return fmt.Sprintf("FILE %d %s %s %s", i, v, sm, s.name)
				})...)
			}
		}
		switch mode {
		case "corpus":
			corpusCases()
		case "all":
			// one process for the three parts (the corpus is loaded once)
			corpusCases()
			// fixed-seed stream (independent of --seed): mutants incl. comment
			// insertion, generated programs with comments
			det := common.NewRng(0xC08F)
			cs = append(cs, mutateCases(det.Fork(), corpus, common.Atoi(a["--nmut-det"], 0), st, a["--classes"], a["--cpos"], common.Atoi(a["--k"], 2), false)...)
			cs = append(cs, genCases(det.Fork(), common.Atoi(a["--ngen-det"], 0), st, a["--gen-comments"] == "all", false)...)
			cs = append(cs, chainCases(det.Fork(), common.Atoi(a["--nchain-det"], 0), st, false)...)
			// seed-dependent stream: comment-free text only
			r := common.NewRng(seed)
			nc := a["--seed-comments"] != "1"
			cs = append(cs, mutateCases(r.Fork(), corpus, common.Atoi(a["--nmut"], 1500), st, a["--classes"], a["--cpos"], common.Atoi(a["--k"], 2), nc)...)
			cs = append(cs, genCases(r.Fork(), common.Atoi(a["--ngen"], 500), st, a["--gen-comments"] == "all", nc)...)
			// operator chains with line comments behind operators: this narrow shape keeps
			// its comments in the seed-dependent stream too (validated with seeds 1..8)
			cs = append(cs, chainCases(r.Fork(), common.Atoi(a["--nchain"], 0), st, false)...)
		case "witness":
			// regression witnesses: corpus/C08/*.cue with expected.txt
			// (`<file> <v1|v2> <s0|s1> <expected verdict>`)
			dir := a["--dir"]
			if dir == "" {
				dir = "/verif/corpus/C08"
			}
			exp, _ := os.ReadFile(filepath.Join(dir, "expected.txt"))
			for _, l := range strings.Split(string(exp), "\n") {
				f := strings.Fields(l)
				if len(f) < 4 || strings.HasPrefix(l, "#") {
					continue
				}
				b, err := os.ReadFile(filepath.Join(dir, f[0]))
				if err != nil {
					fmt.Fprintf(os.Stderr, "c08f: %v\n", err)
					os.Exit(2)
				}
				cs = append(cs, &caseRec{line: fmt.Sprintf("SRC wit:%s %s %s %s", f[0], f[1], f[2], common.Hex(string(b))),
					src: b, v2: f[1] == "v2", simp: f[2] == "s1", expect: strings.Join(f[3:], " ")})
			}
		case "file":
			b, err := os.ReadFile(a["--file"])
			if err != nil {
				panic(err)
			}
			cs = srcCases("file:"+filepath.Base(a["--file"]), b)
		case "mutate":
			cs = mutateCases(common.NewRng(seed), corpus, n, st, a["--classes"], a["--cpos"], common.Atoi(a["--k"], 2), a["--strip"] == "1")
		case "gen":
			cs = genCases(common.NewRng(seed), n, st, a["--gen-comments"] == "all", a["--strip"] == "1")
		case "chain":
			cs = chainCases(common.NewRng(seed), n, st, a["--strip"] == "1")
		default:
			fmt.Fprintln(os.Stderr, "c08f: unknown --mode")
			os.Exit(2)
		}
	}

	if a["--minimize"] != "" {
		for _, c := range cs {
			minimize(c.src, c.v2, c.simp, a["--want"])
		}
		return
	}
	if doShow {
		for _, c := range cs {
			show(c)
		}
		return
	}
	runAll(cs, workers)
	st.account(cs)
	st.WallS = time.Since(t0).Seconds()
	if dir := a["--out"]; dir != "" {
		os.MkdirAll(dir, 0o755)
		out := common.NewOut(dir)
		for _, c := range cs {
			out.Emit(c.line, c.res.String())
		}
		out.Close()
		b, _ := json.MarshalIndent(st, "", " ")
		os.WriteFile(filepath.Join(dir, "stats.json"), append(b, '\n'), 0o644)
	}
	nonok := 0
	for _, c := range cs {
		if c.res.verdict != "ok" {
			nonok++
		}
	}
	fmt.Fprintf(os.Stderr, "c08f: mode=%s cases=%d non-ok=%d corpus=%d unparseable=%d wall=%.1fs\n",
		mode, len(cs), nonok, st.Corpus.Sources, st.Corpus.Unparseable, time.Since(t0).Seconds())
}
