package main

import (
	"fmt"
	"strings"

	"cuelang.org/go/cue/ast"
	"cuelang.org/go/cue/token"
	"cuelang.org/go/internal/verifharness/common"
)

// Seed-dependent part 1: mutants of corpus sources.
//
// Classes: W whitespace, C comments, P parentheses, M optional commas,
// T token level.  A mutant that still parses is a case like any other source;
// one that does not is part of the malformed stream (format.Source must return
// an error for it, not panic and not succeed).

type mutator struct {
	r       *common.Rng
	ncmt    int
	classes map[string]bool // enabled classes
	cpos    map[string]bool // enabled comment positions
}

func onlyWS(b []byte) bool {
	for _, c := range b {
		if c != ' ' && c != '\t' && c != '\n' && c != '\r' {
			return false
		}
	}
	return true
}

// gaps returns for every i the text between token i-1 and token i (comments
// are tokens themselves); consistent is false when lexing does not tile src.
func lexChecked(src []byte) ([]tk, bool) {
	toks, ok := lex(src)
	if !ok {
		return nil, false
	}
	pos := 0
	for _, t := range toks {
		if t.off < pos || !onlyWS(src[pos:t.off]) {
			return nil, false
		}
		pos = t.end
	}
	if !onlyWS(src[pos:]) {
		return nil, false
	}
	return toks, true
}

func isOpener(t tk) bool {
	return t.tok == token.LBRACE || t.tok == token.LBRACK || t.tok == token.LPAREN
}
func isCloserTok(t tk) bool {
	return t.tok == token.RBRACE || t.tok == token.RBRACK || t.tok == token.RPAREN
}

func isBinOp(t token.Token) bool {
	switch t {
	case token.ADD, token.SUB, token.MUL, token.QUO, token.AND, token.OR, token.LAND, token.LOR,
		token.EQL, token.NEQ, token.LSS, token.LEQ, token.GTR, token.GEQ, token.MAT, token.NMAT:
		return true
	}
	return false
}

func (m *mutator) blanks() string {
	return common.Pick(m.r, []string{" ", "  ", "\t", "   ", " \t"})
}

func (m *mutator) indent() string {
	return common.Pick(m.r, []string{"", "\t", "\t\t", "  ", "    ", " \t", "\t\t\t"})
}

func splice(src []byte, from, to int, repl string) []byte {
	out := make([]byte, 0, len(src)+len(repl))
	out = append(out, src[:from]...)
	out = append(out, repl...)
	return append(out, src[to:]...)
}

// real tokens only (no comments, no automatic commas)
func realToks(toks []tk) []tk {
	var out []tk
	for _, t := range toks {
		if t.tok == token.COMMENT || t.auto {
			continue
		}
		out = append(out, t)
	}
	return out
}

// ---- W ----------------------------------------------------------------------

func (m *mutator) mutW(src []byte) ([]byte, string) {
	toks, ok := lexChecked(src)
	if !ok || len(toks) < 2 {
		return nil, ""
	}
	if m.r.Chance(1, 12) {
		return []byte(strings.ReplaceAll(strings.ReplaceAll(string(src), "\r\n", "\n"), "\n", "\r\n")), "W:crlf"
	}
	// choose a gap between two consecutive tokens (comment tokens included: the
	// gap after a comment always holds its newline, which is kept)
	for try := 0; try < 20; try++ {
		i := 1 + m.r.Intn(len(toks)-1)
		a, b := toks[i-1], toks[i]
		if a.auto {
			if i < 2 {
				continue
			}
			a = toks[i-2]
		}
		if b.auto {
			continue
		}
		// narrowed: the layout around comments is left alone (a blank line
		// inside a comment group splits it; the formatters re-join groups)
		if a.tok == token.COMMENT || b.tok == token.COMMENT {
			continue
		}
		gap := string(src[a.end:b.off])
		hasNL := strings.Contains(gap, "\n")
		switch {
		case !hasNL:
			if a.tok == token.COMMENT {
				continue
			}
			k := m.r.Intn(3)
			if k == 0 && gap != "" && (isOpener(a) || isCloserTok(b) || a.tok == token.COMMA || b.tok == token.COMMA || b.tok == token.COLON) {
				return splice(src, a.end, b.off, ""), "W:remove-blank"
			}
			if k == 1 && (isOpener(a) || a.tok == token.COMMA || a.tok == token.COLON || isBinOp(a.tok) && gap != "") {
				return splice(src, a.end, b.off, "\n"+m.indent()), "W:add-newline"
			}
			if gap == "" {
				continue
			}
			return splice(src, a.end, b.off, m.blanks()), "W:blanks"
		default:
			last := strings.LastIndex(gap, "\n")
			switch m.r.Intn(5) {
			case 0: // indentation
				return splice(src, a.end+last+1, b.off, m.indent()), "W:indent"
			case 1: // extra blank line(s)
				return splice(src, a.end+last, a.end+last, strings.Repeat("\n", 1+m.r.Intn(2))), "W:add-blank-line"
			case 2: // remove blank lines
				if strings.Count(gap, "\n") < 2 {
					continue
				}
				first := strings.Index(gap, "\n")
				return splice(src, a.end+first, a.end+last, ""), "W:remove-blank-lines"
			case 3: // trailing blanks before the newline
				first := strings.Index(gap, "\n")
				return splice(src, a.end+first, a.end+first, m.blanks()), "W:trailing-blanks"
			default: // join lines where the newline is not a separator
				if a.tok == token.COMMENT || b.tok == token.COMMENT || toks[i-1].auto {
					continue
				}
				if isOpener(a) || a.tok == token.COMMA || a.tok == token.COLON || isBinOp(a.tok) {
					return splice(src, a.end, b.off, common.Pick(m.r, []string{"", " "})), "W:join-lines"
				}
				continue
			}
		}
	}
	return nil, ""
}

// ---- C ----------------------------------------------------------------------

// comment positions: name -> predicate on (previous real token, next real token, gap has newline)
var commentPositions = []string{"eol", "own-line", "after-opener", "before-closer", "after-operator", "after-colon", "after-comma", "doc-before-field", "file-start", "file-end"}

func (m *mutator) mutC(src []byte) ([]byte, string) {
	toks, ok := lexChecked(src)
	if !ok || len(toks) < 2 {
		return nil, ""
	}
	m.ncmt++
	cm := fmt.Sprintf("// c%d", m.ncmt)
	if m.r.Chance(1, 6) {
		cm += common.Pick(m.r, []string{" with words", "  ", "\ttab", " é", "//", " TODO(x): y"})
	}
	var enabled []string
	for _, p := range commentPositions {
		if m.cpos == nil || m.cpos[p] {
			enabled = append(enabled, p)
		}
	}
	if len(enabled) == 0 {
		return nil, ""
	}
	want := common.Pick(m.r, enabled)
	switch want {
	case "file-start":
		return splice(src, 0, 0, cm+common.Pick(m.r, []string{"\n", "\n\n"})), "C:file-start"
	case "file-end":
		s := string(src)
		if !strings.HasSuffix(s, "\n") {
			s += "\n"
		}
		return []byte(s + common.Pick(m.r, []string{"", "\n"}) + cm + common.Pick(m.r, []string{"\n", "", "\n\n"})), "C:file-end"
	}
	type gapRef struct{ i int }
	var cands []int
	for i := 1; i < len(toks); i++ {
		a, b := toks[i-1], toks[i]
		if b.auto || a.tok == token.COMMENT {
			continue
		}
		autoBefore := a.auto
		if a.auto {
			if i < 2 {
				continue
			}
			a = toks[i-2]
			if a.tok == token.COMMENT {
				continue
			}
		}
		gap := string(src[a.end:b.off])
		hasNL := strings.Contains(gap, "\n")
		okc := false
		switch want {
		case "eol":
			okc = hasNL && !isOpener(a) && a.tok != token.COMMA && a.tok != token.COLON && !isBinOp(a.tok)
		case "own-line":
			// on its own line in front of a declaration or list element
			okc = hasNL && b.tok != token.COMMENT && !isCloserTok(b) && (autoBefore || a.tok == token.LBRACE || a.tok == token.LBRACK)
		case "doc-before-field":
			okc = hasNL && autoBefore && (b.tok == token.IDENT || b.tok == token.STRING) && i+1 < len(toks) && (toks[i+1].tok == token.COLON || toks[i+1].tok == token.OPTION || toks[i+1].tok == token.NOT)
		case "after-opener":
			okc = isOpener(a)
		case "before-closer":
			okc = isCloserTok(b)
		case "after-operator":
			okc = isBinOp(a.tok) && !isOpener(b) || a.tok == token.BIND
		case "after-colon":
			okc = a.tok == token.COLON
		case "after-comma":
			okc = a.tok == token.COMMA
		}
		if okc {
			cands = append(cands, i)
		}
	}
	if len(cands) == 0 {
		return nil, ""
	}
	i := common.Pick(m.r, cands)
	a, b := toks[i-1], toks[i]
	if a.auto {
		a = toks[i-2]
	}
	gap := string(src[a.end:b.off])
	switch want {
	case "own-line", "doc-before-field":
		last := strings.LastIndex(gap, "\n")
		ind := gap[last+1:]
		return splice(src, a.end+last+1, a.end+last+1, ind+cm+"\n"), "C:" + want
	default:
		if first := strings.Index(gap, "\n"); first >= 0 {
			return splice(src, a.end, a.end+first, m.blanks()+cm), "C:" + want
		}
		return splice(src, a.end, b.off, m.blanks()+cm+"\n"+m.indent()), "C:" + want
	}
}

// ---- P ----------------------------------------------------------------------

func exprTargets(f *ast.File) []ast.Expr {
	var out []ast.Expr
	okExpr := func(e ast.Expr) bool {
		switch e.(type) {
		case *ast.Comprehension, *ast.Ellipsis, *ast.Alias, *ast.BadExpr, *ast.Func:
			return false
		case *ast.StructLit:
			return e.(*ast.StructLit).Lbrace.IsValid()
		}
		return e != nil && e.Pos().HasAbsPos() && e.End().HasAbsPos()
	}
	add := func(e ast.Expr) {
		if okExpr(e) {
			out = append(out, e)
		}
	}
	ast.Walk(f, func(n ast.Node) bool {
		switch x := n.(type) {
		case *ast.Field:
			add(x.Value)
		case *ast.BinaryExpr:
			add(x.X)
			add(x.Y)
		case *ast.UnaryExpr:
			add(x.X)
		case *ast.CallExpr:
			for _, a := range x.Args {
				add(a)
			}
		case *ast.ListLit:
			for _, a := range x.Elts {
				add(a)
			}
		case *ast.IndexExpr:
			add(x.Index)
			add(x.X)
		case *ast.SelectorExpr:
			add(x.X)
		case *ast.LetClause:
			add(x.Expr)
		case *ast.IfClause:
			add(x.Condition)
		case *ast.ForClause:
			add(x.Source)
		case *ast.ParenExpr:
			add(x.X)
		case *ast.EmbedDecl:
			if _, ok := x.Expr.(*ast.StructLit); !ok {
				add(x.Expr)
			}
		case *ast.Interpolation:
			return false
		}
		return true
	}, nil)
	return out
}

func (m *mutator) mutP(src []byte) ([]byte, string) {
	f, err := parse(src)
	if err != nil {
		return nil, ""
	}
	ts := exprTargets(f)
	if len(ts) == 0 {
		return nil, ""
	}
	e := common.Pick(m.r, ts)
	a, b := e.Pos().Offset(), e.End().Offset()
	if a < 0 || b > len(src) || a >= b {
		return nil, ""
	}
	l, r, name := "(", ")", "P:paren"
	if m.r.Chance(1, 3) {
		l, r, name = "((", "))", "P:double"
	}
	if m.r.Chance(1, 5) {
		l, r = l+" ", " "+r
	}
	out := splice(src, b, b, r)
	return splice(out, a, a, l), name
}

// ---- M ----------------------------------------------------------------------

func (m *mutator) mutM(src []byte) ([]byte, string) {
	toks, ok := lexChecked(src)
	if !ok || len(toks) < 2 {
		return nil, ""
	}
	var autos, explicit, closers []int
	for i, t := range toks {
		switch {
		case t.auto && i > 0 && toks[i-1].tok != token.COMMENT:
			autos = append(autos, i)
		case t.tok == token.COMMA:
			explicit = append(explicit, i)
		case (t.tok == token.RBRACE || t.tok == token.RBRACK || t.tok == token.RPAREN) && i > 0 &&
			!isOpener(toks[i-1]) && toks[i-1].tok != token.COMMA && !toks[i-1].auto && toks[i-1].tok != token.COMMENT:
			closers = append(closers, i)
		}
	}
	for try := 0; try < 10; try++ {
		switch m.r.Intn(4) {
		case 0: // explicit comma in front of a newline separator
			if len(autos) == 0 {
				continue
			}
			i := common.Pick(m.r, autos)
			return splice(src, toks[i].off, toks[i].off, ","), "M:explicit-comma"
		case 1: // newline separator -> ", "
			if len(autos) == 0 {
				continue
			}
			i := common.Pick(m.r, autos)
			if i+1 >= len(toks) || toks[i+1].tok == token.COMMENT {
				continue
			}
			return splice(src, toks[i-1].end, toks[i+1].off, ", "), "M:newline-to-comma"
		case 2: // ", " -> newline
			if len(explicit) == 0 {
				continue
			}
			i := common.Pick(m.r, explicit)
			if i+1 >= len(toks) || i == 0 {
				continue
			}
			nxt := toks[i+1]
			if nxt.auto || nxt.tok == token.COMMENT {
				continue
			}
			if m.r.Bool() {
				return splice(src, toks[i].off, nxt.off, "\n"+m.indent()), "M:comma-to-newline"
			}
			return splice(src, toks[i].end, nxt.off, "\n"+m.indent()), "M:comma-plus-newline"
		default: // trailing comma in front of a closer
			if len(closers) == 0 {
				continue
			}
			i := common.Pick(m.r, closers)
			return splice(src, toks[i-1].end, toks[i-1].end, ","), "M:trailing-comma"
		}
	}
	return nil, ""
}

// ---- T ----------------------------------------------------------------------

var binOps = []string{"+", "-", "*", "/", "&", "|", "&&", "||", "==", "!=", "<", "<=", ">", ">=", "=~", "!~"}
var litPool = []string{"1E3", ".5", "0700", "1_000", "0x1F", "1Ki", "0b101", "0o17", "1.5e-3", "2.K", "1.", "0", "12.0E+2", "3M", "1.5Gi",
	`"s"`, `'b'`, `#"r\n"#`, `"a\tb"`, `"\u00e9"`, "\"\"\"\n\tml\n\t\"\"\"", "'''\n\tbytes\n\t'''", `"\(x)"`, "true", "false", "null", "_|_", `"a\(1+2)b"`}
var identPool = []string{"x", "_y", "#D", "string", "int", "_", "foo", "len", "$a", "_#h", "x1"}

func (m *mutator) mutT(src []byte) ([]byte, string) {
	f, err := parse(src)
	if err != nil {
		return nil, ""
	}
	var bins []*ast.BinaryExpr
	var lits []*ast.BasicLit
	var ids []*ast.Ident
	skip := map[ast.Node]bool{}
	ast.Walk(f, func(n ast.Node) bool {
		switch x := n.(type) {
		case *ast.ImportSpec, *ast.Package:
			return false
		case *ast.Interpolation:
			return false
		case *ast.Field:
			skip[x.Label] = true
			if a, ok := x.Label.(*ast.Alias); ok {
				skip[a.Ident] = true
				skip[a.Expr] = true
			}
		case *ast.SelectorExpr:
			skip[x.Sel] = true
		case *ast.Alias:
			skip[x.Ident] = true
		case *ast.LetClause:
			skip[x.Ident] = true
		case *ast.ForClause:
			if x.Key != nil {
				skip[x.Key] = true
			}
			skip[x.Value] = true
		case *ast.BinaryExpr:
			if x.OpPos.HasAbsPos() {
				bins = append(bins, x)
			}
		case *ast.BasicLit:
			if !skip[x] && x.ValuePos.HasAbsPos() {
				lits = append(lits, x)
			}
		case *ast.Ident:
			if !skip[x] && x.NamePos.HasAbsPos() {
				ids = append(ids, x)
			}
		}
		return true
	}, nil)
	for try := 0; try < 10; try++ {
		switch m.r.Intn(4) {
		case 0:
			if len(bins) == 0 {
				continue
			}
			b := common.Pick(m.r, bins)
			op := common.Pick(m.r, binOps)
			if op == b.Op.String() {
				continue
			}
			o := b.OpPos.Offset()
			return splice(src, o, o+len(b.Op.String()), op), "T:operator"
		case 1:
			if len(bins) == 0 {
				continue
			}
			b := common.Pick(m.r, bins)
			xa, xb := b.X.Pos().Offset(), b.X.End().Offset()
			ya, yb := b.Y.Pos().Offset(), b.Y.End().Offset()
			if !(xa < xb && xb <= ya && ya < yb && yb <= len(src)) {
				continue
			}
			s := string(src[:xa]) + string(src[ya:yb]) + string(src[xb:ya]) + string(src[xa:xb]) + string(src[yb:])
			return []byte(s), "T:swap-operands"
		case 2:
			if len(lits) == 0 {
				continue
			}
			l := common.Pick(m.r, lits)
			o := l.ValuePos.Offset()
			if o+len(l.Value) > len(src) || string(src[o:o+len(l.Value)]) != l.Value {
				continue
			}
			return splice(src, o, o+len(l.Value), common.Pick(m.r, litPool)), "T:literal"
		default:
			if len(ids) == 0 {
				continue
			}
			id := common.Pick(m.r, ids)
			o := id.NamePos.Offset()
			if o+len(id.Name) > len(src) || string(src[o:o+len(id.Name)]) != id.Name {
				continue
			}
			return splice(src, o, o+len(id.Name), common.Pick(m.r, identPool)), "T:ident"
		}
	}
	return nil, ""
}

// ---- X: deliberately malformed ------------------------------------------------

func (m *mutator) mutX(src []byte) ([]byte, string) {
	toks, ok := lexChecked(src)
	if !ok || len(toks) < 2 {
		return nil, ""
	}
	rt := realToks(toks)
	if len(rt) == 0 {
		return nil, ""
	}
	t := common.Pick(m.r, rt)
	switch m.r.Intn(5) {
	case 0:
		return splice(src, t.off, t.end, ""), "X:delete-token"
	case 1:
		return splice(src, t.end, t.end, " "+string(src[t.off:t.end])), "X:duplicate-token"
	case 2:
		return splice(src, t.off, t.off, common.Pick(m.r, []string{"}", "]", ")", "{", "[", "(", "\"", "'", ":", "\\(", "\x00", "\xff"})), "X:stray"
	case 3:
		return src[:t.off], "X:truncate"
	default:
		return splice(src, t.off, t.end, common.Pick(m.r, []string{"?", "!", "...", "=", "~", "@", "#", "$$", "0x", "1e", "08", "\"\\q\""})), "X:replace-token"
	}
}

func (m *mutator) one(src []byte) ([]byte, string) {
	var cl []string
	for _, c := range []string{"W", "C", "P", "M", "T"} {
		if m.classes[c] {
			cl = append(cl, c)
		}
	}
	switch common.Pick(m.r, cl) {
	case "W":
		return m.mutW(src)
	case "C":
		return m.mutC(src)
	case "P":
		return m.mutP(src)
	case "M":
		return m.mutM(src)
	default:
		return m.mutT(src)
	}
}

func parseSet(s string, all []string) map[string]bool {
	out := map[string]bool{}
	if s == "" {
		for _, a := range all {
			out[a] = true
		}
		return out
	}
	for _, a := range strings.Split(s, ",") {
		out[a] = true
	}
	return out
}

// mutation classes / comment positions used by default: the ones validated on
// the unchanged tree for seeds 1..8 (see the report); others can be enabled
// with --classes / --cpos for exploration.
var defaultClasses = []string{"W", "C", "P", "M", "T"}
var defaultCpos = []string{"eol", "own-line", "doc-before-field", "file-start", "file-end"}

// strip: the seed-dependent stream works on comment-free text (every comment of
// the picked source is removed first, class C is not applied): the comment
// machinery of the formatters has too many latent defects for a stream whose
// seed is not fixed; comments are explored by the fixed-seed stream instead.
func mutateCases(r *common.Rng, corpus []source, n int, st *stats, classes, cpos string, kmax int, strip bool) []*caseRec {
	m := &mutator{r: r, classes: parseSet(classes, defaultClasses), cpos: parseSet(cpos, defaultCpos)}
	label := "mut"
	if strip {
		delete(m.classes, "C")
		label = "mutnc"
	}
	var cs []*caseRec
	// prefer small and medium sources: they format fast and minimise well
	var pool []source
	for _, s := range corpus {
		if len(s.data) >= 16 && len(s.data) <= 6000 {
			pool = append(pool, s)
		}
	}
	made := 0
	for attempts := 0; made < n && attempts < n*20; attempts++ {
		s := common.Pick(r, pool)
		src := s.data
		if strip {
			src = stripSrcComments(src)
			if len(src) < 16 {
				continue
			}
			if _, err := parse(src); err != nil {
				continue
			}
		}
		var names []string
		k := 1 + r.Intn(kmax)
		malformed := false
		if r.Chance(1, 10) {
			// malformed stream
			out, name := m.mutX(src)
			if out == nil {
				continue
			}
			src, names = out, append(names, name)
			if _, err := parse(src); err != nil {
				malformed = true
			}
		} else {
			okAll := true
			for j := 0; j < k; j++ {
				out, name := m.one(src)
				if out == nil {
					okAll = false
					break
				}
				names = append(names, name)
				src = out
				if _, err := parse(src); err != nil {
					malformed = true
					break
				}
			}
			if !okAll {
				continue
			}
		}
		tag := strings.Join(names, "+")
		for _, nm := range names {
			st.Mutations[nm]++
		}
		if malformed {
			st.Malformed["generated"]++
			for _, v2 := range []bool{false, true} {
				cs = append(cs, &caseRec{line: fmt.Sprintf("BAD %s %s s0 %s", tag, vname(v2), common.Hex(string(src))), src: src, v2: v2, bad: true})
			}
			continue
		}
		made++
		cs = append(cs, srcCases(label+":"+tag+":"+strings.ReplaceAll(s.name, " ", "_"), src)...)
	}
	return cs
}
