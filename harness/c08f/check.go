package main

import (
	"bytes"
	"fmt"
	"strings"

	"cuelang.org/go/cue/ast"
	"cuelang.org/go/cue/format"
	"cuelang.org/go/cue/parser"
	"cuelang.org/go/internal/cueexperiment"
	"cuelang.org/go/internal/verifharness/common"
)

// result of one (source, formatter, simplify) case
type result struct {
	verdict string // ok | fmt-error | not-idempotent | tree-changed | reparse-error | panic | known
	detail  string // short class signature, one line
	out     []byte
	out2    []byte
	dx, dy  *dumper
	// the node-attached comment dump differed (other node / Position) while
	// the placement in the token stream is the same
	reattached bool
}

func (r result) String() string {
	if r.detail == "" {
		return r.verdict
	}
	return r.verdict + " " + r.detail
}

func oneLine(s string) string {
	s = strings.ReplaceAll(s, "\\", "\\\\")
	s = strings.ReplaceAll(s, "\n", "\\n")
	s = strings.ReplaceAll(s, "\t", "\\t")
	s = strings.ReplaceAll(s, "\r", "\\r")
	if len(s) > 160 {
		s = s[:160] + "..."
	}
	return s
}

func fmtOpts(simplify bool) []format.Option {
	if simplify {
		return []format.Option{format.Simplify()}
	}
	return nil
}

// formatSource runs format.Source with the given formatter selected.
func formatSource(src []byte, v2, simplify bool) (out []byte, err error, panicked string) {
	defer func() {
		if e := recover(); e != nil {
			panicked = fmt.Sprint(e)
		}
	}()
	cueexperiment.Flags.FormatV2 = v2
	out, err = format.Source(src, fmtOpts(simplify)...)
	return
}

func parse(src []byte) (f *ast.File, err error) {
	defer func() {
		if e := recover(); e != nil {
			err = fmt.Errorf("parser panic: %v", e)
		}
	}()
	return parser.ParseFile("x.cue", src, parser.ParseComments)
}

// firstDiff returns the first differing pair of lines.
func firstDiff(a, b []string) (int, string, string) {
	for i := 0; i < len(a) || i < len(b); i++ {
		var x, y string
		if i < len(a) {
			x = a[i]
		} else {
			x = "<end>"
		}
		if i < len(b) {
			y = b[i]
		} else {
			y = "<end>"
		}
		if x != y {
			return i, x, y
		}
	}
	return -1, "", ""
}

func equalLines(a, b []string) bool {
	if len(a) != len(b) {
		return false
	}
	for i := range a {
		if a[i] != b[i] {
			return false
		}
	}
	return true
}

// checkRaw is P1-P3 without the known-class triage.
func checkRaw(src []byte, v2, simplify bool) (r result) {
	out, err, pan := formatSource(src, v2, simplify)
	if pan != "" {
		return result{verdict: "panic", detail: "format: " + oneLine(pan)}
	}
	if err != nil {
		return result{verdict: "fmt-error", detail: oneLine(err.Error())}
	}
	r.out = out
	// P3 first: a result that does not parse cannot be formatted again
	fy, err := parse(out)
	if err != nil {
		r.verdict, r.detail = "reparse-error", oneLine(err.Error())
		return r
	}
	fx, err := parse(src)
	if err != nil {
		r.verdict, r.detail = "fmt-error", "input does not parse: "+oneLine(err.Error())
		return r
	}
	r.dx = dumpFile(fx, dumpOpts{simplify: simplify})
	r.dy = dumpFile(fy, dumpOpts{simplify: simplify})
	sx, sy := stripComments(r.dx.tree), stripComments(r.dy.tree)
	if i, a, b := firstDiffEq(sx, sy, lineEq); i >= 0 {
		r.verdict = "tree-changed"
		r.detail = "struct [" + oneLine(strings.TrimSpace(a)) + "] => [" + oneLine(strings.TrimSpace(b)) + "]"
		return r
	}
	if !equalLines(r.dx.tree, r.dy.tree) {
		r.reattached = true
	}
	if a, b, ok := cmtsEquivalent(r.dx, r.dy); !ok {
		r.verdict = "tree-changed"
		r.detail = "comment [" + oneLine(a) + "] => [" + oneLine(b) + "]"
		return r
	}
	// P2
	out2, err, pan := formatSource(out, v2, simplify)
	r.out2 = out2
	if pan != "" {
		r.verdict, r.detail = "panic", "format(format(x)): "+oneLine(pan)
		return r
	}
	if err != nil {
		r.verdict, r.detail = "not-idempotent", "second format fails: "+oneLine(err.Error())
		return r
	}
	if !bytes.Equal(out, out2) {
		la, lb := strings.Split(string(out), "\n"), strings.Split(string(out2), "\n")
		_, a, b := firstDiff(la, lb)
		r.verdict = "not-idempotent"
		r.detail = "[" + oneLine(a) + "] => [" + oneLine(b) + "]"
		return r
	}
	r.verdict = "ok"
	return r
}

// lineEq: equality of structure lines; the only asymmetric allowance is that
// the braces of a single-field struct in field-value position may be added.
func lineEq(x, y string) bool {
	if x == y {
		return true
	}
	if strings.HasSuffix(x, " chain braces=false") && strings.HasSuffix(y, " chain braces=true") {
		return strings.TrimSuffix(x, "false") == strings.TrimSuffix(y, "true")
	}
	return false
}

func firstDiffEq(a, b []string, eq func(x, y string) bool) (int, string, string) {
	for i := 0; i < len(a) || i < len(b); i++ {
		x, y := "<end>", "<end>"
		if i < len(a) {
			x = a[i]
		}
		if i < len(b) {
			y = b[i]
		}
		if !eq(x, y) {
			return i, x, y
		}
	}
	return -1, "", ""
}

// cmtsEquivalent compares the comments of the two trees by text, Doc/Line flag
// and placement in the token stream (tokens.go).  Under -s the comments of the
// merged `...` markers are compared per struct; a comment at the very end of a
// struct body may end up on the `...` that -s appends there.
func cmtsEquivalent(dx, dy *dumper) (string, string, bool) {
	a, b := dx.placed, dy.placed
	ea, eb := dx.ell, dy.ell
	if len(ea) > 0 || len(eb) > 0 {
		owners := map[int]bool{}
		for _, c := range ea {
			owners[c.ell] = true
		}
		for _, c := range eb {
			owners[c.ell] = true
		}
		// per struct: the comment lines at the tail of the body followed by
		// the lines carried by the markers must be the same sequence
		lines := func(placed, ell []placedComment, owner int) (seq []string, rest []placedComment) {
			for _, c := range placed {
				if c.atTailOf(owner) {
					for _, l := range c.cg.List {
						seq = append(seq, l.Text)
					}
				} else {
					rest = append(rest, c)
				}
			}
			for _, c := range ell {
				if c.ell == owner {
					for _, l := range c.cg.List {
						seq = append(seq, l.Text)
					}
				}
			}
			return
		}
		for o := range owners {
			var sa, sb []string
			sa, a = lines(a, ea, o)
			sb, b = lines(b, eb, o)
			if i, x, y := firstDiff(sa, sb); i >= 0 {
				return fmt.Sprintf("ellipsis@%d %s", o, x), fmt.Sprintf("ellipsis@%d %s", o, y), false
			}
		}
	}
	var ka, kb []string
	for _, c := range a {
		if cmtStrict {
			ka = append(ka, c.key())
		} else {
			ka = append(ka, c.declKey())
		}
	}
	for _, c := range b {
		if cmtStrict {
			kb = append(kb, c.key())
		} else {
			kb = append(kb, c.declKey())
		}
	}
	if i, x, y := firstDiff(ka, kb); i >= 0 {
		return x, y, false
	}
	return "", "", true
}

// check is checkRaw plus the classification of the documented defect classes.
func check(src []byte, v2, simplify bool) result {
	r := checkRaw(src, v2, simplify)
	if r.verdict == "ok" {
		return r
	}
	if k := classifyKnown(src, v2, simplify, r); k != "" {
		old := r.detail
		if len(old) > 140 {
			old = old[:140]
		}
		r.detail = k + " (was " + r.verdict + ") " + old
		r.verdict = "known"
	}
	return r
}

// checkBad: a source the parser rejects must be rejected by format.Source too.
func checkBad(src []byte, v2, simplify bool) result {
	_, err, pan := formatSource(src, v2, simplify)
	switch {
	case pan != "":
		return result{verdict: "panic", detail: "format of malformed input: " + oneLine(pan)}
	case err == nil:
		return result{verdict: "accepted-malformed"}
	}
	return result{verdict: "ok", detail: "rejected"}
}

// witnessVerdict compares a regression witness with its recorded verdict.  A
// witness of an unclassified defect (dropped mutation classes) that still fails
// in the recorded way is `known W`; one that passes now is `ok`; anything else
// keeps its verdict and is reported.
func witnessVerdict(r result, expect string) result {
	got := r.verdict
	if r.verdict == "known" {
		got = "known " + strings.Fields(r.detail)[0]
	}
	switch {
	case r.verdict == "ok":
		if expect != "ok" {
			r.detail = "witness passes now (recorded: " + expect + ")"
		}
	case got == expect && r.verdict == "known":
	case got == expect:
		r.detail = "W recorded-witness " + r.verdict + ": " + r.detail
		r.verdict = "known"
	default:
		r.detail += " (witness recorded: " + expect + ")"
	}
	return r
}

func vname(v2 bool) string {
	if v2 {
		return "v2"
	}
	return "v1"
}

func sname(s bool) string {
	if s {
		return "s1"
	}
	return "s0"
}

var _ = common.Hex
