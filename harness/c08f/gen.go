package main

import (
	"fmt"
	"strings"

	"cuelang.org/go/internal/verifharness/common"
)

// Seed-dependent part 2: generated CUE programs, printed by an own token printer
// with randomised layout (newlines vs commas, blanks, comments, redundant commas
// and parentheses).  The generator works on the token level: an expression is a
// flat operand/operator sequence with random parenthesised groups, so the parser
// decides the tree and every operator/precedence combination occurs.

type gen struct {
	r      *common.Rng
	sb     strings.Builder
	ind    int
	unit   string // indentation unit of this file
	ncm    int
	feat   map[string]int
	allc   bool // comments also in the positions that are not validated (see report)
	names  []string
	top    bool // printing a top-level declaration
	marker bool // the current struct body already has an open marker
}

func (g *gen) w(s string)           { g.sb.WriteString(s) }
func (g *gen) f(k string)           { g.feat[k]++ }
func (g *gen) chance(a, b int) bool { return g.r.Chance(a, b) }

func (g *gen) sp() {
	if g.chance(1, 8) {
		g.w(common.Pick(g.r, []string{"  ", "\t", "   "}))
		return
	}
	g.w(" ")
}

func (g *gen) osp() {
	if g.chance(1, 3) {
		g.w(" ")
	}
}

func (g *gen) nl() {
	if g.chance(1, 10) {
		g.w(common.Pick(g.r, []string{" ", "\t", "  "})) // trailing blanks
	}
	g.w("\n")
	if g.chance(1, 12) {
		g.w("\n")
		if g.chance(1, 4) {
			g.w("\n")
		}
	}
	g.w(strings.Repeat(g.unit, g.ind))
	if g.chance(1, 15) {
		g.w(common.Pick(g.r, []string{" ", "  ", "\t"}))
	}
}

func (g *gen) comment() string {
	g.ncm++
	s := fmt.Sprintf("// g%d", g.ncm)
	if g.chance(1, 5) {
		s += common.Pick(g.r, []string{" doc", "  x", " TODO: é", "//", " a: {b: 1}"})
	}
	return s
}

// eol writes an end-of-line comment followed by the line break.
func (g *gen) eolComment() {
	g.f("comment:eol")
	g.sp()
	g.w(g.comment())
}

// docComment writes one or two own-line comments (the cursor is at the start
// of an indented line and ends there again).
func (g *gen) docComment() {
	g.f("comment:own-line")
	n := 1
	if g.chance(1, 4) {
		n = 2
	}
	for i := 0; i < n; i++ {
		g.w(g.comment())
		g.w("\n" + strings.Repeat(g.unit, g.ind))
	}
}

// odd writes a comment in one of the positions where the formatters are known to
// move comments (only with --gen-comments all); the line break it needs follows.
func (g *gen) odd(kind string) bool {
	if !g.allc || !g.chance(1, 14) {
		return false
	}
	g.f("comment:" + kind)
	g.sp()
	g.w(g.comment())
	g.nl()
	return true
}

// brk is a position where a line break is legal and changes nothing.
func (g *gen) brk(kind string, p int) {
	if g.odd(kind) {
		return
	}
	if g.chance(p, 100) {
		g.ind++
		g.nl()
		g.ind--
		g.f("break:" + kind)
		return
	}
	g.osp()
}

var genIdents = []string{"a", "b", "c", "foo", "bar", "x", "y", "val", "#Def", "#D", "_h", "_#p", "$d", "é", "x1", "name", "out", "in_"}
var genRefs = []string{"a", "b", "foo", "x", "string", "int", "bool", "number", "_", "#Def", "_h", "len", "float", "bytes", "null"}

func (g *gen) number() string {
	g.f("lit:number")
	return common.Pick(g.r, []string{"0", "1", "42", "1_000", "0x1F", "0X1f", "0b101", "0o17", "0700", "1Ki", "2M", "3Gi", "1.5K",
		"1.0", ".5", "1.", "1e3", "1E3", "1.5e-3", "2.E+2", "1.K", "12.34", "0.0", "1e+10", "100", "7"})
}

func (g *gen) str() string {
	g.f("lit:string")
	return common.Pick(g.r, []string{`"s"`, `""`, `"a b"`, `"a\tb\n"`, `"é\U0001F600"`, `"q\"q"`, `#"raw\n"#`, `#"a\#tb"#`, `##"x"#y"##`,
		`'b'`, `'\x00\xff'`, `#'r'#`, `"a/b"`, `"foo"`, `"x-y"`, `"\\"`, `"'"`})
}

func (g *gen) multiline() {
	g.f("lit:multiline")
	q := common.Pick(g.r, []string{`"""`, `'''`, `#"""`})
	end := q
	if q == `#"""` {
		end = `"""#`
	}
	g.w(q)
	g.ind++
	in := "\n" + strings.Repeat(g.unit, g.ind)
	n := g.r.Intn(3)
	for i := 0; i <= n; i++ {
		g.w(in)
		g.w(common.Pick(g.r, []string{"line", "two words", "  indented", "tab\\t", "", "q\"q", "é"}))
		if q == `"""` && g.chance(1, 3) {
			g.f("lit:multiline-interpolation")
			g.w(`\(`)
			g.w(common.Pick(g.r, genRefs[:4]))
			g.w(`)`)
		}
	}
	g.w(in + end)
	g.ind--
}

func (g *gen) interpolation(depth int) {
	g.f("lit:interpolation")
	g.w(`"`)
	n := 1 + g.r.Intn(2)
	for i := 0; i < n; i++ {
		g.w(common.Pick(g.r, []string{"", "a", "x ", "\\t", "é"}))
		g.w(`\(`)
		if depth > 0 && g.chance(1, 3) {
			g.expr(depth-1, false)
		} else {
			g.w(common.Pick(g.r, genRefs[:4]))
		}
		g.w(`)`)
	}
	g.w(common.Pick(g.r, []string{"", "z", " end"}))
	g.w(`"`)
}

var genBinOps = []string{"+", "-", "*", "/", "&", "|", "&&", "||", "==", "!=", "<", "<=", ">", ">=", "=~", "!~"}
var genUnOps = []string{"-", "+", "!", "*", "<", "<=", ">", ">=", "!=", "=~", "!~"}

func (g *gen) ref() string {
	if len(g.names) > 0 && g.chance(1, 2) {
		return common.Pick(g.r, g.names)
	}
	return common.Pick(g.r, genRefs)
}

func (g *gen) operand(depth int) {
	k := g.r.Intn(22)
	if depth <= 0 && k >= 10 {
		k = g.r.Intn(10)
	}
	switch k {
	case 0, 1:
		g.w(g.number())
	case 2:
		g.w(g.str())
	case 3, 4, 5:
		g.f("expr:ident")
		g.w(g.ref())
	case 6:
		g.w(common.Pick(g.r, []string{"true", "false", "null", "_|_", "_"}))
		g.f("lit:keyword")
	case 7:
		g.f("expr:selector")
		if g.chance(1, 12) {
			g.f("expr:int-selector")
			g.w(common.Pick(g.r, []string{"1 ", "0x1F ", "2 "})) // `1 .a` (K2 in v2)
		} else {
			g.w(g.ref())
		}
		for i := 0; i <= g.r.Intn(2); i++ {
			g.w(".")
			g.w(common.Pick(g.r, []string{"a", "foo", "#Def", "_h", `"x-y"`, `"foo"`}))
		}
	case 8:
		g.f("expr:index")
		g.w(g.ref())
		g.w("[")
		g.w(common.Pick(g.r, []string{"0", "1", `"k"`, "x", "i+1"}))
		g.w("]")
	case 9:
		g.f("expr:slice")
		g.w(g.ref())
		g.w(common.Pick(g.r, []string{"[1:2]", "[:2]", "[1:]", "[:]", "[a:b+1]", "[ 1 : 2 ]"}))
	case 10:
		g.f("expr:unary")
		g.w(common.Pick(g.r, genUnOps))
		if g.chance(1, 6) {
			g.w(" ")
		}
		if g.chance(1, 3) {
			g.paren(depth - 1)
		} else {
			g.w(common.Pick(g.r, []string{"1", "x", `"re"`, "1.5", "a.b", "-1", `=~"a"`, "!x", "+2"}))
		}
	case 11:
		g.paren(depth - 1)
	case 12:
		g.f("expr:double-paren")
		g.w("(")
		g.paren(depth - 1)
		g.w(")")
	case 13, 14:
		g.call(depth - 1)
	case 15, 16:
		g.list(depth - 1)
	case 17, 18:
		g.structLit(depth-1, false)
	case 19:
		g.interpolation(depth - 1)
	case 20:
		g.multiline()
	default:
		g.f("expr:selector-call")
		g.w(common.Pick(g.r, []string{"strings", "list", "math"}))
		g.w(".")
		g.w(common.Pick(g.r, []string{"Join", "Max", "Contains"}))
		g.args(depth - 1)
	}
}

func (g *gen) paren(depth int) {
	g.f("expr:paren")
	g.w("(")
	g.brk("after-opener", 6)
	g.expr(depth, false)
	g.osp()
	g.w(")")
}

func (g *gen) args(depth int) {
	g.w("(")
	n := g.r.Intn(4)
	multi := n > 0 && g.chance(1, 4)
	if multi {
		g.ind++
	}
	for i := 0; i < n; i++ {
		if multi {
			g.nl()
		} else if i > 0 {
			g.sp()
		}
		g.expr(depth, false)
		if i+1 < n || multi || g.chance(1, 8) {
			if i+1 == n {
				g.f("comma:trailing")
			}
			g.w(",")
		}
		if multi && g.allc && g.chance(1, 6) {
			g.eolComment() // K20: misplaced by both formatters
		}
	}
	if multi {
		g.ind--
		g.nl()
	}
	g.w(")")
}

func (g *gen) call(depth int) {
	g.f("expr:call")
	g.w(common.Pick(g.r, []string{"len", "close", "and", "or", "f", "matchN"}))
	g.args(depth)
}

// elems prints the elements of a list/struct body with random separators.
func (g *gen) elems(n int, multi bool, one func(i int) bool, struct_ bool) {
	if multi {
		g.ind++
	}
	for i := 0; i < n; i++ {
		if multi {
			g.nl()
			if g.chance(1, 6) {
				g.docComment()
			}
		} else if i > 0 {
			g.sp()
		}
		noComment := one(i)
		last := i+1 == n
		switch {
		case multi:
			if g.chance(1, 3) {
				g.f("comma:explicit-before-newline")
				g.w(",")
			} else {
				g.f("comma:newline")
			}
			if g.chance(1, 6) && (!noComment || g.allc) {
				g.eolComment()
			}
		case !last:
			g.w(",")
		case g.chance(1, 8):
			g.f("comma:trailing")
			g.w(",")
		}
	}
	if multi {
		g.ind--
		g.nl()
	}
}

func (g *gen) list(depth int) {
	g.f("expr:list")
	g.w("[")
	n := g.r.Intn(4)
	multi := n > 0 && g.chance(1, 3)
	if !multi {
		g.brk("after-opener", 0)
	}
	open := g.chance(1, 6)
	if open {
		n++
	}
	g.elems(n, multi, func(i int) bool {
		switch {
		case open && i == n-1:
			g.f("expr:list-ellipsis")
			g.w("...")
			if g.chance(1, 2) {
				g.w(common.Pick(g.r, []string{"int", "string", "_", "{a: 1}"}))
			}
			return true // K21: a comment after the ellipsis is moved
		case depth > 0 && g.chance(1, 8):
			g.f("expr:list-comprehension")
			g.clauses(depth)
			g.structLit(depth-1, true)
		default:
			g.expr(depth, false)
		}
		return false
	}, false)
	g.w("]")
}

func (g *gen) clauses(depth int) {
	n := 1 + g.r.Intn(2)
	for i := 0; i < n; i++ {
		switch g.r.Intn(4) {
		case 0:
			g.f("clause:if")
			g.w("if ")
			g.expr(depth-1, true)
		case 1:
			g.f("clause:for-kv")
			g.w("for k, v in ")
			g.expr(depth-1, true)
		case 2:
			if i == 0 {
				g.w("for x in ")
				g.expr(depth-1, true)
				g.f("clause:for")
			} else {
				g.f("clause:let")
				g.w("let t = ")
				g.expr(depth-1, true)
			}
		default:
			g.f("clause:for")
			g.w("for x in ")
			g.expr(depth-1, true)
		}
		g.w(" ")
	}
}

// expr prints operand (op operand)*; noStruct avoids a struct literal operand
// where the parser would take `{` for the body of a comprehension.
func (g *gen) expr(depth int, noStruct bool) {
	n := 1
	switch g.r.Intn(6) {
	case 0, 1:
		n = 2
	case 2:
		n = 3
	case 3:
		if g.chance(1, 3) {
			n = 4 + g.r.Intn(3)
		}
	}
	if n > 1 {
		g.f("expr:binary")
	}
	for i := 0; i < n; i++ {
		if i > 0 {
			op := common.Pick(g.r, genBinOps)
			tight := (op == "+" || op == "-" || op == "*" || op == "/") && g.chance(1, 4)
			if !tight {
				g.sp()
			}
			g.w(op)
			if tight {
				g.w("")
				g.tightOperand()
				continue
			}
			g.brk("after-operator", 8)
			if g.sb.Len() > 0 {
				b := g.sb.String()
				if c := b[len(b)-1]; c != ' ' && c != '\t' && c != '\n' {
					g.w(" ")
				}
			}
		}
		if noStruct {
			g.operandNoStruct(depth)
		} else {
			g.operand(depth)
		}
	}
}

func (g *gen) tightOperand() {
	g.w(common.Pick(g.r, []string{"1", "x", "a.b", "2.5", "foo", "(a)", "len(x)"}))
}

func (g *gen) operandNoStruct(depth int) {
	switch g.r.Intn(6) {
	case 0:
		g.w(g.number())
	case 1:
		g.w(g.ref())
	case 2:
		g.paren(depth - 1)
	case 3:
		g.list(min(depth-1, 1))
	case 4:
		g.w(g.ref() + ".foo")
	default:
		g.w(common.Pick(g.r, []string{"true", `"s"`, "x != _|_", "len(x) > 0"}))
	}
}

func (g *gen) label() {
	switch g.r.Intn(16) {
	case 0, 1, 2, 3, 4:
		g.f("label:ident")
		id := common.Pick(g.r, genIdents)
		g.names = append(g.names, id)
		g.w(id)
	case 5, 6:
		g.f("label:string")
		g.w(common.Pick(g.r, []string{`"quoted key"`, `"x-y"`, `"1"`, `"a.b"`, `"#def"`, `"_h"`, `""`, `"é é"`}))
	case 7, 8:
		g.f("label:string-identlike")
		g.w(common.Pick(g.r, []string{`"foo"`, `"a"`, `"b"`, `"x"`, `"if"`, `"for"`, `"let"`, `"true"`, `"null"`, `"in"`, `"string"`, `"name"`, `"é"`, `"$d"`}))
	case 9:
		g.f("label:pattern")
		g.w(common.Pick(g.r, []string{"[string]", `[=~"^a"]`, "[_]", `["a"|"b"]`, "[X=string]", "[ string ]", `[!~"z"]`}))
	case 10:
		g.f("label:dynamic")
		g.w(common.Pick(g.r, []string{"(x)", `("a"+"b")`, "(a.b)", "( x )"}))
	case 11:
		g.f("label:interpolation")
		g.w(common.Pick(g.r, []string{`"\(x)"`, `"k-\(a)"`, `"\(a)-\(b)"`}))
	case 12:
		g.f("label:alias")
		g.w(common.Pick(g.r, []string{"X=foo", `Y="bar"`, "Z=(x)", "W=[string]", `V="k\(x)"`}))
	case 13:
		g.f("label:keyword")
		g.w(common.Pick(g.r, []string{"if", "for", "in", "let", "true", "false", "null", "div", "package", "import", "func", "self"}))
	default:
		g.f("label:definition")
		g.w(common.Pick(g.r, []string{"#A", "#b", "_#c", "_x", "_y2", "#Def"}))
	}
}

func (g *gen) attr() string {
	g.f("attribute")
	return common.Pick(g.r, []string{"@foo(bar)", "@go(Name,type=int)", `@json("x",omitempty)`, "@test(eq, {a: 1})", "@a()", `@p(a="b, c")`, "@x(1,2 , 3)"})
}

func (g *gen) field(depth int) {
	g.label()
	switch g.r.Intn(12) {
	case 0:
		g.f("field:optional")
		g.w("?")
	case 1:
		g.f("field:required")
		g.w("!")
	}
	g.w(":")
	// chain or value
	if depth > 0 && g.chance(1, 5) {
		g.f("field:chain")
		g.w(" ")
		g.field(depth - 1)
		return
	}
	g.brk("after-colon", 3)
	if b := g.sb.String(); b[len(b)-1] == ':' {
		g.w(" ")
	}
	switch {
	case depth > 0 && g.chance(1, 4):
		g.structLit(depth-1, false)
	case depth > 0 && g.chance(1, 10):
		g.f("field:value-alias")
		g.w("V=")
		g.structLit(depth-1, false)
	default:
		g.expr(depth, false)
	}
	for g.chance(1, 7) {
		g.sp()
		g.w(g.attr())
	}
}

func (g *gen) decl(depth int) {
	k := g.r.Intn(20)
	if (k == 17 || k == 18) && !g.allc {
		// narrowed: no open marker at the top level of a file and at most
		// one per struct body (-s merges markers and their comments)
		if g.top || g.marker {
			k = 0
		}
		g.marker = true
	}
	switch {
	case k < 11:
		g.field(depth)
	case k == 11:
		g.f("decl:let")
		g.w("let ")
		g.w(common.Pick(g.r, []string{"t", "u", "L"}))
		g.w(" = ")
		g.expr(depth, false)
	case k == 12 || k == 13:
		g.f("decl:comprehension")
		g.clauses(max(depth, 1))
		g.structLit(depth-1, true)
	case k == 14:
		g.f("decl:embed-expr")
		g.operandNoStruct(depth)
		if g.chance(1, 2) {
			g.w(" & ")
			g.operandNoStruct(depth)
		}
	case k == 15:
		g.f("decl:embed-struct")
		g.structLit(depth-1, false)
	case k == 16:
		g.f("decl:attribute")
		g.w(g.attr())
	case k == 17:
		g.f("decl:ellipsis")
		g.w("...")
	case k == 18:
		g.f("decl:pattern-any")
		g.w(common.Pick(g.r, []string{"[string]: _", "[_]: _", "[string]: int"}))
	default:
		g.field(depth)
	}
}

func (g *gen) structLit(depth int, body bool) {
	g.f("expr:struct")
	g.w("{")
	n := g.r.Intn(4)
	if depth < 0 {
		n = g.r.Intn(2)
	}
	if body && n == 0 && g.chance(2, 3) {
		n = 1
	}
	multi := n > 0 && g.chance(1, 2)
	if !multi && n > 0 {
		g.brk("after-opener", 0)
	}
	saved := len(g.names)
	savedTop, savedMarker := g.top, g.marker
	g.top, g.marker = false, false
	defer func() { g.top, g.marker = savedTop, savedMarker }()
	g.elems(n, multi, func(i int) bool { g.decl(depth); return false }, true)
	g.names = g.names[:min(saved+2, len(g.names))]
	g.w("}")
}

func (g *gen) file() string {
	if g.chance(1, 4) {
		g.f("comment:file-start")
		g.w(g.comment() + "\n")
		if g.chance(1, 2) {
			g.w("\n")
		}
	}
	if g.chance(1, 3) {
		g.f("package")
		g.w("package " + common.Pick(g.r, []string{"foo", "p", "main"}) + "\n")
		if g.chance(1, 2) {
			g.w("\n")
		}
	}
	if g.chance(1, 3) {
		g.f("import")
		switch g.r.Intn(4) {
		case 0:
			g.w("import \"strings\"\n")
		case 1:
			g.w("import (\n\t\"strings\"\n\t\"list\"\n\tm \"math\"\n)\n")
		case 2:
			g.w("import (\n\t\"strings\" " + g.comment() + "\n\n\t" + g.comment() + "\n\t\"list\"\n)\n")
		default:
			g.w("import s \"strings\"\nimport \"math\"\n")
		}
		if g.chance(1, 2) {
			g.w("\n")
		}
	}
	n := 1 + g.r.Intn(7)
	for i := 0; i < n; i++ {
		if g.chance(1, 6) {
			g.docComment()
		}
		g.top = true
		g.decl(2 + g.r.Intn(2))
		if g.chance(1, 6) {
			g.eolComment()
		}
		g.w("\n")
		if g.chance(1, 5) {
			g.w("\n")
		}
	}
	if g.chance(1, 8) {
		g.f("comment:file-end")
		g.w(g.comment())
		if g.chance(2, 3) {
			g.w("\n")
		}
	}
	return g.sb.String()
}

func genCases(r *common.Rng, n int, st *stats, allComments bool, strip bool) []*caseRec {
	var cs []*caseRec
	made := 0
	for attempts := 0; made < n && attempts < n*30; attempts++ {
		g := &gen{r: r.Fork(), feat: map[string]int{}, allc: allComments}
		g.unit = common.Pick(g.r, []string{"\t", "\t", "  ", "    "})
		src := []byte(g.file())
		if strip {
			src = stripSrcComments(src)
		}
		if _, err := parse(src); err != nil {
			st.GenStats["rejected-by-parser"]++
			// the malformed stream: must be rejected by format.Source as well
			if st.GenStats["rejected-by-parser"]%4 == 1 {
				for _, v2 := range []bool{false, true} {
					cs = append(cs, &caseRec{line: fmt.Sprintf("BAD gen %s s0 %s", vname(v2), common.Hex(string(src))), src: src, v2: v2, bad: true})
				}
			}
			continue
		}
		made++
		st.GenStats["programs"]++
		for k, v := range g.feat {
			st.GenStats[k] += v
		}
		cs = append(cs, srcCases(fmt.Sprintf("gen:%d", made), src)...)
	}
	return cs
}
