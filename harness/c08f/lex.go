package main

import (
	"cuelang.org/go/cue/scanner"
	"cuelang.org/go/cue/token"
)

// tk is one token of a source text.  A whole interpolated string (from its
// opening quote to its closing quote, expressions included) is one tk, so the
// mutators never cut into it.
type tk struct {
	off, end int
	tok      token.Token
	lit      string
	auto     bool // comma inserted by the scanner at a newline
}

// lex tokenises src (comments included).  ok is false on scanner errors.
func lex(src []byte) (toks []tk, ok bool) {
	defer func() {
		if e := recover(); e != nil {
			ok = false
		}
	}()
	var s scanner.Scanner
	f := token.NewFile("lex.cue", -1, len(src))
	nerr := 0
	s.Init(f, src, func(pos token.Pos, msg string, args []interface{}) { nerr++ }, scanner.ScanComments)
	for {
		pos, tok, lit := s.Scan()
		if tok == token.EOF {
			break
		}
		t := tk{off: pos.Offset(), tok: tok, lit: lit}
		switch {
		case tok == token.COMMA && lit != ",":
			t.auto = true
			t.end = t.off
		case tok == token.INTERPOLATION:
			depth := 0
			for {
				p2, t2, _ := s.Scan()
				if t2 == token.EOF {
					return nil, false
				}
				if t2 == token.INTERPOLATION {
					// nested interpolated string inside the expression: skip it as well
					d2 := 0
					for {
						_, t3, _ := s.Scan()
						if t3 == token.EOF {
							return nil, false
						}
						if t3 == token.LPAREN {
							d2++
						}
						if t3 == token.RPAREN {
							d2--
							if d2 == 0 {
								l := s.ResumeInterpolation()
								if len(l) == 0 || l[len(l)-1] != '(' {
									break
								}
							}
						}
						if t3 == token.INTERPOLATION {
							return nil, false // too deep for the mutators
						}
					}
					continue
				}
				if t2 == token.LPAREN {
					depth++
				}
				if t2 == token.RPAREN {
					depth--
					if depth == 0 {
						l := s.ResumeInterpolation()
						if len(l) == 0 || l[len(l)-1] != '(' {
							t.end = p2.Offset() + len(l)
							break
						}
					}
				}
			}
			t.tok = token.STRING
			t.lit = string(src[t.off:t.end])
		case tok.IsLiteral() || tok == token.COMMENT || tok == token.ATTRIBUTE || lit != "":
			t.end = t.off + len(lit)
		default:
			t.end = t.off + len(tok.String())
		}
		if t.end > len(src) || t.end < t.off {
			return nil, false
		}
		toks = append(toks, t)
	}
	return toks, nerr == 0
}
