// The repository's trim testdata as seeds: every archive as it is, and with one (or, with
// a seed, two) literal(s) changed.  These inputs use references, comprehensions, lists,
// defaults and disjunctions - outside CoreCUE - so only the direct checks apply:
// (a) the trimmed package parses and evaluates, (b) its final value equals the original's
// at every path, (d) trimming again changes nothing.
package main

import (
	"fmt"
	"os"
	"path/filepath"
	"sort"
	"strconv"
	"strings"
	"sync"

	"cuelang.org/go/cue/ast"
	"cuelang.org/go/cue/parser"
	"cuelang.org/go/cue/token"
	"cuelang.org/go/internal/verifharness/common"
)

type litPos struct {
	file     int
	off, end int
	repl     string
}

// literals that can be mutated: ints (n -> n+1), floats (one more digit), plain strings
// (one more character); field labels included.
func findLits(files []srcFile) []litPos {
	var ls []litPos
	for fi, f := range files {
		af, err := parser.ParseFile(f.Name, f.Text)
		if err != nil {
			continue
		}
		ast.Walk(af, func(n ast.Node) bool {
			if _, ok := n.(*ast.ImportSpec); ok {
				return false
			}
			bl, ok := n.(*ast.BasicLit)
			if !ok {
				return true
			}
			off := bl.Pos().Offset()
			end := off + len(bl.Value)
			if off < 0 || end > len(f.Text) || f.Text[off:end] != bl.Value {
				return true
			}
			switch bl.Kind {
			case token.INT:
				if v, err := strconv.Atoi(bl.Value); err == nil {
					ls = append(ls, litPos{fi, off, end, strconv.Itoa(v + 1)})
				}
			case token.FLOAT:
				if !strings.ContainsAny(bl.Value, "eEKMGTP") {
					ls = append(ls, litPos{fi, off, end, bl.Value + "1"})
				}
			case token.STRING:
				v := bl.Value
				if len(v) >= 2 && v[0] == '"' && v[len(v)-1] == '"' && !strings.HasPrefix(v, `"""`) && !strings.Contains(v, `\`) {
					ls = append(ls, litPos{fi, off, end, v[:len(v)-1] + `m"`})
				}
			}
			return true
		}, nil)
	}
	return ls
}

func applyLits(files []srcFile, ls []litPos) []srcFile {
	out := append([]srcFile{}, files...)
	// apply from the back of each file
	sort.Slice(ls, func(i, j int) bool { return ls[i].off > ls[j].off })
	for _, l := range ls {
		t := out[l.file].Text
		out[l.file].Text = t[:l.off] + l.repl + t[l.end:]
	}
	return out
}

func corpusInputs(dir string) (names []string, pkgs [][]srcFile) {
	ents, err := os.ReadDir(dir)
	if err != nil {
		panic(err)
	}
	for _, e := range ents {
		if !strings.HasSuffix(e.Name(), ".txtar") && !strings.HasSuffix(e.Name(), ".txt") {
			continue
		}
		data, err := os.ReadFile(filepath.Join(dir, e.Name()))
		if err != nil {
			continue
		}
		var fs []srcFile
		for _, f := range splitArchive(string(data)) {
			if strings.Contains(f.Name, "/") || !strings.HasSuffix(f.Name, ".cue") {
				continue
			}
			fs = append(fs, f)
		}
		if len(fs) == 0 {
			continue
		}
		names = append(names, strings.TrimSuffix(strings.TrimSuffix(e.Name(), ".txtar"), ".txt"))
		pkgs = append(pkgs, fs)
	}
	return
}

// output: one line per input:  name variant stage same idem changed
func runCorpus(a map[string]string) {
	names, pkgs := corpusInputs(a["--dir"])
	maxMut := common.Atoi(a["--maxmut"], 12)
	pairs := common.Atoi(a["--pairs"], 0) // seed-dependent double mutations per archive
	r := common.NewRng(uint64(common.Atoi(a["--seed"], 1)))
	type job struct {
		name, variant string
		files         []srcFile
	}
	var jobs []job
	for i, fs := range pkgs {
		jobs = append(jobs, job{names[i], "orig", fs})
		ls := findLits(fs)
		if a["--nomut"] == "1" {
			ls = nil
		}
		step := 1
		if len(ls) > maxMut && maxMut > 0 {
			step = (len(ls) + maxMut - 1) / maxMut
		}
		for k := 0; k < len(ls); k += step {
			jobs = append(jobs, job{names[i], fmt.Sprintf("lit%d", k), applyLits(fs, []litPos{ls[k]})})
		}
		for k := 0; k < pairs && len(ls) >= 2; k++ {
			x, y := r.Intn(len(ls)), r.Intn(len(ls))
			if x == y {
				continue
			}
			jobs = append(jobs, job{names[i], fmt.Sprintf("lit%d+%d", x, y), applyLits(fs, []litPos{ls[x], ls[y]})})
		}
	}
	lines := make([]string, len(jobs))
	infos := make([]string, len(jobs))
	var wg sync.WaitGroup
	next := make(chan int, len(jobs))
	for i := range jobs {
		next <- i
	}
	close(next)
	for w := 0; w < common.Atoi(a["--workers"], 12); w++ {
		wg.Add(1)
		go func() {
			defer wg.Done()
			for i := range next {
				j := jobs[i]
				res := trimPackage(j.files, false)
				stage := res.Stage
				if stage == "" {
					stage = "OK"
				}
				same := res.Stage != "" || res.Before == res.After
				idem := idemCode(res)
				if res.Stage != "" {
					idem = "1"
				}
				sameCode := string(bit(same))
				if !same {
					if cl := classifyChange(j.files, res.Out); cl != "" {
						sameCode = cl // triage hint only: D conflicting defaults, S self reference
					}
				}
				lines[i] = fmt.Sprintf("%s %s %s %s %s %c", j.name, j.variant, stage, sameCode, idem, bit(res.Changed))
				var b strings.Builder
				for _, f := range j.files {
					fmt.Fprintf(&b, "-- %s --\n%s", f.Name, f.Text)
				}
				if res.Stage == "" {
					b.WriteString("==== trimmed\n")
					for _, f := range res.Out {
						fmt.Fprintf(&b, "-- %s --\n%s", f.Name, f.Text)
					}
					if !same {
						fmt.Fprintf(&b, "==== value before: %s\n==== value after:  %s\n", res.Before, res.After)
					}
					if !res.Idem {
						b.WriteString("==== trimmed twice\n")
						for _, f := range res.Out2 {
							fmt.Fprintf(&b, "-- %s --\n%s", f.Name, f.Text)
						}
					}
				}
				infos[i] = b.String()
			}
		}()
	}
	wg.Wait()
	out, _ := os.Create(a["--out"] + "/corpus.txt")
	defer out.Close()
	src, _ := os.Create(a["--out"] + "/corpus_src.txt")
	defer src.Close()
	for i := range jobs {
		fmt.Fprintln(out, lines[i])
		fmt.Fprintf(src, "### %d %s %s\n%s\n", i, jobs[i].name, jobs[i].variant, infos[i])
	}
	fmt.Fprintf(os.Stderr, "c20 corpus: %d inputs from %d archives\n", len(jobs), len(pkgs))
}
