// Strict converter: cue AST (input files and trim.Files output) -> CoreCUE expressions,
// and the normal form of a package as a multiset of declarations at paths.
package main

import (
	"fmt"
	"strconv"
	"strings"

	"cuelang.org/go/cue/ast"
	"cuelang.org/go/cue/format"
	"cuelang.org/go/cue/parser"
	"cuelang.org/go/cue/token"
)

type convErr struct{ msg string }

func (e convErr) Error() string { return e.msg }

func cfail(format string, args ...any) { panic(convErr{fmt.Sprintf(format, args...)}) }

// TopDecl: a top-level declaration `x: V` of a file
type TopDecl struct {
	File int
	E    Expr
}

type ConvPkg struct {
	Defs    map[string]Expr // linked bodies
	DefList []string        // names in order of appearance
	Decls   []TopDecl
}

func labelOfIdent(name string) (Label, bool) {
	for i, n := range regNames {
		if n == name {
			return Label{LReg, i}, true
		}
	}
	if strings.HasPrefix(name, "_h") {
		if id, err := strconv.Atoi(name[2:]); err == nil {
			return Label{LHid, id}, true
		}
	}
	if strings.HasPrefix(name, "#F") {
		if id, err := strconv.Atoi(name[2:]); err == nil {
			return Label{LDef, id}, true
		}
	}
	return Label{}, false
}

func nodeText(n ast.Node) string {
	b, err := format.Node(n)
	if err != nil {
		return "?"
	}
	return string(b)
}

func intLit(e ast.Expr) (int, bool) {
	switch x := e.(type) {
	case *ast.BasicLit:
		if x.Kind == token.INT {
			if v, err := strconv.Atoi(x.Value); err == nil {
				return v, true
			}
		}
	case *ast.UnaryExpr:
		if x.Op == token.SUB {
			if v, ok := intLit(x.X); ok {
				return -v, true
			}
		}
	case *ast.ParenExpr:
		return intLit(x.X)
	}
	return 0, false
}

func convExpr(e ast.Expr) Expr {
	switch x := e.(type) {
	case *ast.BasicLit:
		switch x.Kind {
		case token.INT:
			v, err := strconv.Atoi(x.Value)
			if err != nil {
				cfail("int literal %s", x.Value)
			}
			return ScalAtom{Atom{'i', v}}
		case token.STRING:
			for i, n := range strNames {
				if x.Value == strconv.Quote(n) {
					return ScalAtom{Atom{'s', i}}
				}
			}
			cfail("string literal %s", x.Value)
		case token.TRUE:
			return ScalAtom{Atom{'b', 1}}
		case token.FALSE:
			return ScalAtom{Atom{'b', 0}}
		case token.NULL:
			return ScalAtom{Atom{'n', 0}}
		}
		cfail("literal %s", x.Value)
	case *ast.Ident:
		switch x.Name {
		case "_":
			return Top{}
		case "int", "string", "bool":
			return ScalKind{x.Name}
		}
		if strings.HasPrefix(x.Name, "#D") {
			return Ref{Name: x.Name}
		}
		cfail("identifier %s", x.Name)
	case *ast.BottomLit:
		return Bot{}
	case *ast.ParenExpr:
		return convExpr(x.X)
	case *ast.UnaryExpr:
		if x.Op == token.SUB {
			if v, ok := intLit(x); ok {
				return ScalAtom{Atom{'i', v}}
			}
		}
		op := map[token.Token]string{token.GTR: "gt", token.GEQ: "ge", token.LSS: "lt", token.LEQ: "le", token.NEQ: "ne"}[x.Op]
		if op != "" {
			if v, ok := intLit(x.X); ok {
				return ScalBound{op, v}
			}
		}
		cfail("unary %s", nodeText(x))
	case *ast.BinaryExpr:
		if x.Op == token.AND {
			return And{convExpr(x.X), convExpr(x.Y)}
		}
		cfail("binary %s", nodeText(x))
	case *ast.CallExpr:
		if id, ok := x.Fun.(*ast.Ident); ok && id.Name == "close" && len(x.Args) == 1 {
			return Close{convExpr(x.Args[0])}
		}
		cfail("call %s", nodeText(x))
	case *ast.StructLit:
		return convStruct(x)
	}
	cfail("expression %T %s", e, nodeText(e))
	return nil
}

func convStruct(s *ast.StructLit) Struct {
	ds := []Decl{}
	for _, el := range s.Elts {
		switch d := el.(type) {
		case *ast.Field:
			fk := byte('=')
			switch d.Constraint {
			case token.OPTION:
				fk = '?'
			case token.NOT:
				fk = '!'
			}
			switch l := d.Label.(type) {
			case *ast.Ident:
				lab, ok := labelOfIdent(l.Name)
				if !ok {
					cfail("label %s", l.Name)
				}
				ds = append(ds, Decl{H: 'f', L: lab, FK: fk, E: convExpr(d.Value)})
			case *ast.ListLit:
				if len(l.Elts) != 1 || fk != '=' {
					cfail("pattern label %s", nodeText(l))
				}
				txt := nodeText(l.Elts[0])
				pi := -1
				for i, p := range patterns {
					if p.CUE == txt {
						pi = i
					}
				}
				if pi < 0 {
					cfail("pattern %s", txt)
				}
				ds = append(ds, Decl{H: 'p', Pat: pi, E: convExpr(d.Value)})
			default:
				cfail("label %T", d.Label)
			}
		case *ast.EmbedDecl:
			ds = append(ds, Decl{H: 'e', E: convExpr(d.Expr)})
		case *ast.Ellipsis:
			if d.Type != nil {
				cfail("typed ellipsis")
			}
			ds = append(ds, Decl{H: '.'})
		case *ast.CommentGroup:
		default:
			cfail("struct element %T", el)
		}
	}
	return Struct{ds}
}

// convPackage converts the files of a package.  Panics with convErr outside the fragment.
func convPackage(files []srcFile) (cp *ConvPkg, err error) {
	defer func() {
		if r := recover(); r != nil {
			if ce, ok := r.(convErr); ok {
				cp, err = nil, ce
				return
			}
			panic(r)
		}
	}()
	cp = &ConvPkg{Defs: map[string]Expr{}}
	for fi, f := range files {
		af, perr := parser.ParseFile(f.Name, f.Text)
		if perr != nil {
			cfail("parse error in %s", f.Name)
		}
		for _, d := range af.Decls {
			switch x := d.(type) {
			case *ast.Package, *ast.CommentGroup:
			case *ast.Field:
				id, ok := x.Label.(*ast.Ident)
				if !ok || x.Constraint != token.ILLEGAL {
					cfail("top-level label %s", nodeText(x.Label))
				}
				switch {
				case id.Name == "x":
					cp.Decls = append(cp.Decls, TopDecl{fi, convExpr(x.Value)})
				case strings.HasPrefix(id.Name, "#D"):
					if _, dup := cp.Defs[id.Name]; dup {
						cfail("definition %s declared twice", id.Name)
					}
					cp.Defs[id.Name] = convExpr(x.Value)
					cp.DefList = append(cp.DefList, id.Name)
				default:
					cfail("top-level field %s", id.Name)
				}
			default:
				cfail("top-level declaration %T", d)
			}
		}
	}
	// link references (definitions are acyclic in the fragment)
	var link func(e Expr, depth int) Expr
	link = func(e Expr, depth int) Expr {
		if depth > 20 {
			cfail("definition cycle")
		}
		switch x := e.(type) {
		case And:
			return And{link(x.A, depth), link(x.B, depth)}
		case Close:
			return Close{link(x.E, depth)}
		case Ref:
			body, ok := cp.Defs[x.Name]
			if !ok {
				cfail("undefined %s", x.Name)
			}
			return Ref{x.Name, link(body, depth+1)}
		case Struct:
			ds := make([]Decl, len(x.Ds))
			for i, d := range x.Ds {
				ds[i] = d
				if d.E != nil {
					ds[i].E = link(d.E, depth)
				}
			}
			return Struct{ds}
		}
		return e
	}
	for i := range cp.Decls {
		cp.Decls[i].E = link(cp.Decls[i].E, 0)
	}
	return cp, nil
}

// ---- normal form: declarations at paths ---------------------------------------------

type PStep struct {
	L  Label
	FK byte
}

type NDecl struct {
	File int
	Path []PStep
	Leaf Expr
}

func (d NDecl) Key() string {
	var ss []string
	for _, s := range d.Path {
		ss = append(ss, fmt.Sprintf("%s%c", s.L.Sexp(), s.FK))
	}
	p := strings.Join(ss, "/")
	if p == "" {
		p = "-"
	}
	return fmt.Sprintf("%d:%s %s", d.File, p, d.Leaf.Sexp())
}

func (d NDecl) CUE() string {
	s := "x: "
	for _, st := range d.Path {
		s += st.L.CUE() + strings.TrimPrefix(string(st.FK), "=") + ": "
	}
	return fmt.Sprintf("[f%d] %s%s", d.File, s, d.Leaf.CUE())
}

func hasEmbed(s Struct) bool {
	for _, d := range s.Ds {
		if d.H == 'e' {
			return true
		}
	}
	return false
}

// normalise: every field node on a path of regular fields gives "the field exists"
// (value _) and, for a struct literal, "it is a struct" (value {}); the leaves are
// scalars, references, close(), literals with an embedding (kept whole), and one
// single-declaration literal per pattern and "..." (optional and required fields are
// path steps like regular ones, with their kind).
// In an open group of conjuncts this is the same set of conjuncts (Core/Laws.v:
// eval_split_decl, eval_split_and, eval_top_decl, eval_decl_perm).
func normalise1(file int, path []PStep, e Expr, out *[]NDecl) {
	leaf := func(v Expr) {
		*out = append(*out, NDecl{file, append([]PStep{}, path...), v})
	}
	switch x := e.(type) {
	case Top:
	case And:
		normalise1(file, path, x.A, out)
		normalise1(file, path, x.B, out)
	case Struct:
		if hasEmbed(x) {
			leaf(x)
			return
		}
		leaf(Struct{})
		for _, d := range x.Ds {
			if d.H == 'f' {
				p2 := append(append([]PStep{}, path...), PStep{d.L, d.FK})
				*out = append(*out, NDecl{file, p2, Top{}})
				normalise1(file, p2, d.E, out)
			} else {
				leaf(Struct{[]Decl{d}})
			}
		}
	default:
		leaf(e)
	}
}

func (cp *ConvPkg) Normal() []NDecl {
	var out []NDecl
	for _, d := range cp.Decls {
		out = append(out, NDecl{d.File, nil, Top{}})
		normalise1(d.File, nil, d.E, &out)
	}
	return out
}

// Inline: the conjuncts of x as one expression (for the in-language closedness probes)
func (cp *ConvPkg) Inline() string {
	var cs []string
	for _, d := range cp.Decls {
		cs = append(cs, "("+d.E.CUE()+")")
	}
	if len(cs) == 0 {
		return "_"
	}
	return "(" + strings.Join(cs, " & ") + ")"
}

// Source: the package as one file (definitions + declarations of x), for the probe program
func (cp *ConvPkg) Source(files []srcFile) string {
	var b strings.Builder
	for _, f := range files {
		for _, line := range strings.Split(f.Text, "\n") {
			if strings.HasPrefix(strings.TrimSpace(line), "package ") {
				continue
			}
			b.WriteString(line)
			b.WriteByte('\n')
		}
	}
	return b.String()
}

// diffNormal: the mask of declarations of `in` missing from `out` (as multisets, by key),
// and the keys present in `out` more often than in `in`.
func diffNormal(in, out []NDecl) (mask []bool, added []string) {
	cnt := map[string]int{}
	for _, d := range out {
		cnt[d.Key()]++
	}
	mask = make([]bool, len(in))
	// keep the LAST occurrences, remove the first ones (identical declarations: any choice)
	total := map[string]int{}
	for _, d := range in {
		total[d.Key()]++
	}
	seen := map[string]int{}
	for i, d := range in {
		k := d.Key()
		seen[k]++
		removed := total[k] - cnt[k]
		if removed > 0 && seen[k] <= removed {
			mask[i] = true
		}
	}
	for k, n := range cnt {
		if n > total[k] {
			added = append(added, k)
		}
	}
	return mask, added
}
