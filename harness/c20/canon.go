package main

import (
	"errors"
	"fmt"
	"strings"

	"cuelang.org/go/cue"
	"cuelang.org/go/cue/cuecontext"
	"cuelang.org/go/internal/core/adt"
)

// isErr: the value is an error other than an incomplete one (at this node or in a
// regular field below, which CUE propagates upwards).
func isErr(v cue.Value) bool {
	if selfErr(v) {
		return true
	}
	if v.IncompleteKind() == cue.BottomKind {
		return true
	}
	// Value.Err() can be nil for a (structure-shared) reference to a struct with an
	// erroneous field although Validate() reports it: look at the fields ourselves.
	if v.IncompleteKind() == cue.StructKind {
		it, err := v.Fields(cue.All())
		if err != nil {
			return true
		}
		for it.Next() {
			if it.Selector().ConstraintType() == cue.OptionalConstraint {
				continue
			}
			if isErr(it.Value()) {
				return true
			}
		}
	}
	return false
}

func selfErr(v cue.Value) bool {
	err := v.Err()
	if err == nil {
		return false
	}
	var be interface{ Bottom() *adt.Bottom }
	if errors.As(err, &be) {
		if b := be.Bottom(); b != nil {
			return !b.IsIncomplete()
		}
	}
	return true
}

func selKey(s cue.Selector) string {
	str := s.String()
	str = strings.TrimSuffix(strings.TrimSuffix(str, "?"), "!")
	return str + "/" + s.LabelType().String()
}

func sel(l Label) cue.Selector {
	switch l.Kind {
	case LHid:
		return cue.Hid(l.CUE(), "_")
	case LDef:
		return cue.Def(l.CUE())
	}
	return cue.Str(regNames[l.ID])
}

type canonCtx struct {
	ctx    *cue.Context
	src    string
	inline string // the conjuncts of x as one expression
	simple bool   // C04: kinds and pinned atom only (no acceptance probes)
	atoms []cue.Value
	nodes [][]string // CUE path (labels) of every struct node rendered, in order of appearance
}

func newCanon(ctx *cue.Context, src, inline string) *canonCtx {
	c := &canonCtx{ctx: ctx, src: src, inline: inline}
	for _, a := range probeAtoms {
		c.atoms = append(c.atoms, ctx.CompileString(a.CUE()))
	}
	return c
}

func bit(b bool) byte {
	if b {
		return '1'
	}
	return '0'
}

// canon renders the evaluated value at path in the notation of the model's printer.
// Open bits of struct nodes are left as a marker and filled in by fillOpenBits.
func (c *canonCtx) canon(v cue.Value, path []string) string {
	if isErr(v) {
		return "E"
	}
	k := v.IncompleteKind()
	if k == cue.StructKind {
		type fld struct {
			pres byte
			v    cue.Value
		}
		fields := map[string]fld{}
		it, err := v.Fields(cue.All())
		if err != nil {
			return "E"
		}
		for it.Next() {
			s := it.Selector()
			pres := byte('=')
			switch s.ConstraintType() {
			case cue.OptionalConstraint:
				pres = '?'
			case cue.RequiredConstraint:
				pres = '!'
			}
			fields[selKey(s)] = fld{pres, it.Value()}
		}
		var b strings.Builder
		b.WriteByte('{')
		id := len(c.nodes)
		c.nodes = append(c.nodes, append([]string{}, path...))
		for i, l := range allLabels() {
			if i > 0 {
				b.WriteByte(',')
			}
			f, ok := fields[selKey(sel(l))]
			if !ok {
				b.WriteByte('-')
				continue
			}
			b.WriteByte(f.pres)
			b.WriteString(c.canon(f.v, append(append([]string{}, path...), l.CUE())))
		}
		fmt.Fprintf(&b, "|@%d@}", id)
		return b.String()
	}
	var b strings.Builder
	b.WriteByte('V')
	b.WriteByte(bit(k&cue.IntKind != 0))
	b.WriteByte(bit(k&cue.StringKind != 0))
	b.WriteByte(bit(k&cue.BoolKind != 0))
	b.WriteByte(bit(k&cue.NullKind != 0))
	b.WriteByte(bit(k&cue.StructKind != 0))
	b.WriteByte(bit(k&cue.FloatKind != 0))
	b.WriteByte(':')
	if !c.simple {
		for _, a := range c.atoms {
			b.WriteByte(bit(!isErr(v.Unify(a))))
		}
		b.WriteByte(':')
	}
	for i, a := range c.atoms {
		pinned := false
		if v.IsConcrete() && v.Kind() == a.Kind() {
			pinned = v.Equals(c.atoms[i])
		}
		b.WriteByte(bit(pinned))
	}
	return b.String()
}

// fillOpenBits decides, IN THE LANGUAGE (a second compilation of the program extended
// with one probe field per struct node and label), whether a regular field l can be
// added to each struct node: probe = x & {path: {l: _}}.
func (c *canonCtx) fillOpenBits(s string) string {
	if len(c.nodes) == 0 {
		return s
	}
	var b strings.Builder
	b.WriteString(c.src)
	for id, path := range c.nodes {
		for _, l := range allLabels() {
			if l.Kind != LReg {
				continue
			}
			inner := "{" + l.CUE() + ": _}"
			for i := len(path) - 1; i >= 1; i-- { // path[0] == "x"
				inner = "{" + path[i] + ": " + inner + "}"
			}
			// inline the conjuncts of x (a reference `x & probe` is not used: referencing a
			// field can change closedness in cue, see design/Core.md)
			fmt.Fprintf(&b, "probe_%d_%d: %s & %s\n", id, l.ID, c.inline, inner)
		}
	}
	ctx := cuecontext.New()
	root := ctx.CompileString(b.String())
	for id := range c.nodes {
		var bits strings.Builder
		for _, l := range allLabels() {
			if l.Kind != LReg {
				bits.WriteByte('1')
				continue
			}
			pv := root.LookupPath(cue.ParsePath(fmt.Sprintf("probe_%d_%d", id, l.ID)))
			bits.WriteByte(bit(pv.Exists() && !isErr(pv)))
		}
		s = strings.Replace(s, fmt.Sprintf("@%d@", id), bits.String(), 1)
	}
	return s
}

func evalProgram(src, inline string) string {
	ctx := cuecontext.New()
	v := ctx.CompileString(src)
	x := v.LookupPath(cue.ParsePath("x"))
	if !x.Exists() {
		if v.Err() != nil {
			return "E"
		}
		return "NOX"
	}
	c := newCanon(ctx, src, inline)
	return c.fillOpenBits(c.canon(x, []string{"x"}))
}
