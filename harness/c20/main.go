package main

import (
	"fmt"
	"os"
	"strings"

	"cuelang.org/go/internal/verifharness/common"
)

func main() {
	a := common.Args(os.Args[1:])
	seed := uint64(common.Atoi(a["--seed"], 1))
	mode := a["--mode"]
	r := common.NewRng(seed)
	switch mode {
	case "src":
		// exploration: a package given as one text file with "-- name --" separators
		data, err := os.ReadFile(a["--file"])
		if err != nil {
			panic(err)
		}
		files := splitArchive(string(data))
		res := trimPackage(files, a["--trace"] == "1")
		fmt.Println(res.Report())
		return
	case "gen":
		out := common.NewOut(a["--out"])
		defer out.Close()
		runGen(r, a, out)
		fmt.Fprintf(os.Stderr, "c20 harness: %d cases\n", out.N)
	case "corpus":
		runCorpus(a)
	case "rich":
		runRich(a)
	case "dir":
		out := common.NewOut(a["--out"])
		defer out.Close()
		runDir(a, out)
	default:
		fmt.Fprintln(os.Stderr, "unknown mode", mode)
		os.Exit(2)
	}
}

type srcFile struct {
	Name string
	Text string
}

// splitArchive splits "-- name --" separated text (txtar without the library: comment
// block first, then files).
func splitArchive(s string) []srcFile {
	var fs []srcFile
	var cur *srcFile
	for _, line := range strings.SplitAfter(s, "\n") {
		t := strings.TrimSpace(line)
		if strings.HasPrefix(t, "-- ") && strings.HasSuffix(t, " --") && len(t) > 6 {
			fs = append(fs, srcFile{Name: strings.TrimSpace(t[3 : len(t)-3])})
			cur = &fs[len(fs)-1]
			continue
		}
		if cur != nil {
			cur.Text += line
		}
	}
	if len(fs) == 0 {
		fs = []srcFile{{Name: "in.cue", Text: s}}
	}
	return fs
}
