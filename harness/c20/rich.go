// Exploration outside CoreCUE: packages with defaults, disjunctions, references between
// fields, comprehensions, lists, patterns and embeddings - where trim is most delicate.
// Only the direct checks apply (parses/evaluates, same final value, idempotent).  The pass
// is run with a FIXED seed by the check (seed independent, triaged).
package main

import (
	"fmt"
	"os"
	"strings"
	"sync"

	"cuelang.org/go/internal/verifharness/common"
)

// Known classes of value-changing trims found with the first version of this generator are
// kept out of the stream (their witnesses are in corpus/C20/explore and reported as known
// findings while they still fail):
//   F11 conflicting defaults (directly, or through a reference to a field whose concrete value was
//       replaced by an equal default) - here a package has ONE default atom for all its disjunctions
//   F12 self/cyclic references  - here references only go y -> x and z -> y
//   F13 comprehensions feeding each other - here comprehension bodies only write z, conditions read x / y
type richGen struct {
	r   *common.Rng
	def map[string]string // per package: the default atom of a label
}

func (g *richGen) defaultOf(l string) string {
	if d, ok := g.def[""]; ok {
		return d
	}
	d := g.intAtom()
	g.def[""] = d
	return d
}

var richLabels = []string{"a", "b", "c"}

func (g *richGen) atom() string { return common.Pick(g.r, []string{"1", "1", "2", `"x"`, "true"}) }

func (g *richGen) intAtom() string { return common.Pick(g.r, []string{"1", "1", "2", "3"}) }

// a schema value for a field
func (g *richGen) schemaVal(l string) string {
	a := g.defaultOf(l)
	switch g.r.Intn(12) {
	case 0, 1:
		return "int"
	case 2:
		return a
	case 3, 4, 5:
		return "*" + a + " | int"
	case 6:
		return "int | *" + a
	case 7:
		return ">0"
	case 8:
		return "*" + a + " | " + g.intAtom()
	case 9:
		return a + " | " + g.intAtom() + ` | "x"`
	case 10:
		return "number"
	}
	return "_"
}

func (g *richGen) schemaBody() string {
	var fs []string
	for _, l := range richLabels {
		if g.r.Chance(2, 3) {
			opt := ""
			if g.r.Chance(1, 5) {
				opt = "?"
			}
			fs = append(fs, l+opt+": "+g.schemaVal(l))
		}
	}
	if g.r.Chance(1, 6) {
		fs = append(fs, "...")
	}
	return "{" + strings.Join(fs, ", ") + "}"
}

func (g *richGen) dataBody() string {
	var fs []string
	for _, l := range richLabels {
		if g.r.Chance(1, 2) {
			fs = append(fs, l+": "+g.intAtom())
		}
	}
	return "{" + strings.Join(fs, ", ") + "}"
}

func (g *richGen) top() string { return common.Pick(g.r, []string{"x", "x", "y", "z"}) }
func (g *richGen) lab() string { return common.Pick(g.r, richLabels) }

func (g *richGen) decl() string {
	switch g.r.Intn(24) {
	case 0, 1:
		return "#S: " + g.schemaBody()
	case 2:
		return "#T: " + g.schemaBody()
	case 3, 4:
		return g.top() + ": #S"
	case 5:
		return g.top() + ": #S & " + g.dataBody()
	case 6, 7, 8:
		return g.top() + ": " + g.lab() + ": " + g.intAtom()
	case 9, 10:
		return g.top() + ": " + g.dataBody()
	case 11:
		l := g.lab()
		return g.top() + ": " + l + ": " + g.schemaVal(l)
	case 12:
		// reference between regular fields (acyclic: y reads x, z reads y)
		if g.r.Bool() {
			return fmt.Sprintf("y: %s: x.%s", g.lab(), g.lab())
		}
		return fmt.Sprintf("z: %s: y.%s", g.lab(), g.lab())
	case 13:
		return fmt.Sprintf("if %s.%s == %s {\n\tz: %s: %s\n}", common.Pick(g.r, []string{"x", "y"}), g.lab(), g.intAtom(), g.lab(), g.intAtom())
	case 14:
		return fmt.Sprintf("for k, v in x {\n\tz: (k): v\n}")
	case 15:
		return fmt.Sprintf("m: [string]: %s", g.schemaBody())
	case 16:
		return fmt.Sprintf("m: %s: %s", common.Pick(g.r, []string{"foo", "bar"}), g.dataBody())
	case 17:
		return "l: [...#S]"
	case 18:
		return "l: [" + g.dataBody() + ", " + g.dataBody() + "]"
	case 19:
		return fmt.Sprintf("d: %s | string\no: d & int", g.intAtom())
	case 20:
		return fmt.Sprintf("%s: {#T, %s: %s}", g.top(), g.lab(), g.intAtom())
	case 21:
		l := g.lab()
		return fmt.Sprintf("%s: %s: *%s | int", g.top(), l, g.defaultOf(l))
	case 22:
		return fmt.Sprintf("%s: [string]: %s", g.top(), common.Pick(g.r, []string{"int", "_", ">0", "number", "int | string"}))
	}
	return fmt.Sprintf("%s: %s: %s | %s", g.top(), g.lab(), g.intAtom(), g.intAtom())
}

// multiMarkBlock: a disjunction carrying TWO OR MORE default marks (it has no usable default on
// its own) - in a definition, a plain field or a pattern constraint - and data equal to one of
// the marked values, to an unmarked value, or absent.  The fields live under their own top-level
// names (w, ws, #M), so no other default meets them (F11's class stays excluded).
func (g *richGen) multiMarkBlock() []string {
	type fld struct {
		name  string
		marks []string
		other string // an admitted, unmarked value
		typ   string
	}
	pool := []fld{
		{"mode", []string{`"a"`, `"b"`}, `"c"`, "string"},
		{"n", []string{"1", "2"}, "7", "int"},
		{"lvl", []string{"1", "2", "3"}, "9", "int"},
		{"tag", []string{`"x"`, `"y"`}, `"z"`, "string"},
	}
	common.Shuffle(g.r, pool)
	fields := pool[:1+g.r.Intn(2)]
	disj := func(f fld) string {
		var parts []string
		for _, m := range f.marks {
			parts = append(parts, "*"+m)
		}
		switch g.r.Intn(3) {
		case 0:
			parts = append(parts, f.typ)
		case 1:
			parts = append(parts, f.other, f.typ)
		}
		if g.r.Chance(1, 4) {
			common.Shuffle(g.r, parts)
		}
		return strings.Join(parts, " | ")
	}
	var schema []string
	for _, f := range fields {
		schema = append(schema, f.name+": "+disj(f))
	}
	if g.r.Chance(1, 3) {
		schema = append(schema, "replicas: *1 | int")
	}
	body := "{" + strings.Join(schema, ", ") + "}"
	data := func() string {
		var ds []string
		for _, f := range fields {
			switch g.r.Intn(6) {
			case 0:
			case 1:
				ds = append(ds, f.name+": "+f.other)
			default:
				ds = append(ds, f.name+": "+common.Pick(g.r, f.marks))
			}
		}
		if strings.Contains(body, "replicas") && g.r.Bool() {
			ds = append(ds, "replicas: 1")
		}
		return strings.Join(ds, ", ")
	}
	var out []string
	switch g.r.Intn(4) {
	case 0: // definition
		out = append(out, "#M: "+body, "w: #M")
		out = append(out, "w: {"+data()+"}")
	case 1: // definition and & in one declaration
		out = append(out, "#M: "+body, "w: #M & {"+data()+"}")
	case 2: // plain field
		out = append(out, "w: "+body)
		for _, d := range strings.Split(data(), ", ") {
			if d != "" {
				out = append(out, "w: "+d)
			}
		}
	default: // pattern constraint
		out = append(out, "ws: [string]: "+body, "ws: foo: {"+data()+"}")
		if g.r.Bool() {
			out = append(out, "ws: bar: {"+data()+"}")
		}
	}
	if g.r.Chance(1, 4) { // the data once more
		out = append(out, out[len(out)-1])
	}
	return out
}

// nestedRefBlock: a reference from a nested struct (1-3 levels deeper) to a field of an enclosing
// struct literal, whose value is split over two declarations (the one the reference binds to is the
// less specific one), with and without an outer field of the same name that the reference would
// rebind to if its target were removed.
func (g *richGen) nestedRefBlock() []string {
	tgt := common.Pick(g.r, []string{"port", "host"})
	weak, strong, outer := "int", "8080", "80"
	if tgt == "host" {
		weak, strong, outer = "string", `"h1"`, `"h0"`
	}
	weak = common.Pick(g.r, []string{weak, weak, "_", strong})
	if tgt == "port" && g.r.Chance(1, 4) {
		weak = ">0"
	}
	top := common.Pick(g.r, []string{"svc", "svc", "app"})
	chain := []string{"probe", "http", "target"}[3-(1+g.r.Intn(3)):] // 1..3 labels, the last one holds the reference
	ref := tgt
	switch g.r.Intn(6) {
	case 0:
		ref = tgt + " & " + map[string]string{"port": "int", "host": "string"}[tgt]
	case 1:
		if tgt == "port" {
			ref = tgt + " + 1"
		}
	}
	inner := chain[len(chain)-1] + ": " + ref
	if g.r.Chance(1, 6) && tgt == "port" {
		inner = "if " + tgt + " > 0 {\n\t\tok: true\n\t}"
	}
	for i := len(chain) - 2; i >= 0; i-- {
		if g.r.Bool() || strings.HasPrefix(inner, "if ") {
			inner = chain[i] + ": {" + inner + "}"
		} else {
			inner = chain[i] + ": " + inner
		}
	}
	if len(chain) == 1 {
		// one level deeper than the target at least
		inner = "sub: {" + inner + "}"
	}
	parts := []string{tgt + ": " + weak, inner}
	if g.r.Chance(1, 3) {
		parts = append(parts, "name: \"s\"")
	}
	common.Shuffle(g.r, parts)
	var out []string
	out = append(out, top+": {\n\t"+strings.Join(parts, "\n\t")+"\n}")
	switch g.r.Intn(4) {
	case 0:
		out = append(out, top+": {"+tgt+": "+strong+"}")
	case 1:
	default:
		out = append(out, top+": "+tgt+": "+strong)
	}
	if g.r.Bool() {
		out = append(out, tgt+": "+outer)
	}
	if g.r.Chance(1, 4) {
		out = append(out, top+": "+tgt+": "+weak)
	}
	common.Shuffle(g.r, out)
	return out
}

func (g *richGen) Package() []srcFile {
	g.def = map[string]string{}
	nf := 1 + g.r.Intn(2)
	fs := make([]srcFile, nf)
	for i := range fs {
		fs[i] = srcFile{Name: fmt.Sprintf("f%d.cue", i), Text: "package p\n"}
	}
	n := 3 + g.r.Intn(7)
	seen := map[string]bool{}
	for i := 0; i < n; i++ {
		d := g.decl()
		if strings.HasPrefix(d, "#S:") || strings.HasPrefix(d, "#T:") {
			if seen[d[:2]] {
				continue
			}
			seen[d[:2]] = true
		}
		fs[g.r.Intn(nf)].Text += d + "\n"
	}
	put := func(d string) { fs[g.r.Intn(nf)].Text += d + "\n" }
	if g.r.Chance(1, 3) {
		for _, d := range g.multiMarkBlock() {
			put(d)
		}
	}
	if g.r.Chance(1, 3) {
		for _, d := range g.nestedRefBlock() {
			put(d)
		}
	}
	all := ""
	for _, f := range fs {
		all += f.Text
	}
	for _, nm := range []string{"#S", "#T"} {
		if strings.Contains(all, nm) && !seen[nm] {
			fs[0].Text += nm + ": " + g.schemaBody() + "\n"
		}
	}
	return fs
}

// output like the corpus mode: name variant stage same idem changed
func runRich(a map[string]string) {
	n := common.Atoi(a["--n"], 1000)
	g := &richGen{r: common.NewRng(uint64(common.Atoi(a["--seed"], 1)))}
	pkgs := make([][]srcFile, 0, n)
	for i := 0; i < n; i++ {
		var fs []srcFile
		for try := 0; try < 8; try++ {
			fs = g.Package()
			if !quickErr(fs) {
				break
			}
		}
		pkgs = append(pkgs, fs)
	}
	lines := make([]string, n)
	infos := make([]string, n)
	var wg sync.WaitGroup
	next := make(chan int, n)
	for i := 0; i < n; i++ {
		next <- i
	}
	close(next)
	for w := 0; w < common.Atoi(a["--workers"], 12); w++ {
		wg.Add(1)
		go func() {
			defer wg.Done()
			for i := range next {
				res := trimPackage(pkgs[i], false)
				stage := res.Stage
				if stage == "" {
					stage = "OK"
				}
				same := res.Stage != "" || res.Before == res.After
				idem := idemCode(res)
				if res.Stage != "" {
					idem = "1"
				}
				sameCode := string(bit(same))
				if !same {
					// triage: every changed path in a known class (D = conflicting defaults F11, S = self reference F12)?
					if cl := classifyChange(pkgs[i], res.Out); cl != "" {
						sameCode = cl
					}
				}
				lines[i] = fmt.Sprintf("rich %d %s %s %s %c", i, stage, sameCode, idem, bit(res.Changed))
				var b strings.Builder
				for _, f := range pkgs[i] {
					fmt.Fprintf(&b, "-- %s --\n%s", f.Name, f.Text)
				}
				if res.Stage == "" {
					b.WriteString("==== trimmed\n")
					for _, f := range res.Out {
						fmt.Fprintf(&b, "-- %s --\n%s", f.Name, f.Text)
					}
					if !same {
						fmt.Fprintf(&b, "==== value before: %s\n==== value after:  %s\n", res.Before, res.After)
					}
					if !res.Idem {
						b.WriteString("==== trimmed twice\n")
						for _, f := range res.Out2 {
							fmt.Fprintf(&b, "-- %s --\n%s", f.Name, f.Text)
						}
					}
				}
				infos[i] = b.String()
			}
		}()
	}
	wg.Wait()
	out, _ := os.Create(a["--out"] + "/rich.txt")
	defer out.Close()
	src, _ := os.Create(a["--out"] + "/rich_src.txt")
	defer src.Close()
	for i := range lines {
		fmt.Fprintln(out, lines[i])
		fmt.Fprintf(src, "### %d\n%s\n", i, infos[i])
	}
	fmt.Fprintf(os.Stderr, "c20 rich: %d packages\n", n)
}
