// Exploration outside CoreCUE: packages with defaults, disjunctions, references between
// fields, comprehensions, lists, patterns and embeddings - where trim is most delicate.
// Only the direct checks apply (parses/evaluates, same final value, idempotent).  The pass
// is run with a FIXED seed by the check (seed independent, triaged).
package main

import (
	"fmt"
	"os"
	"strings"
	"sync"

	"cuelang.org/go/internal/verifharness/common"
)

// Known classes of value-changing trims found with the first version of this generator are
// kept out of the stream (their witnesses are in corpus/C20/explore and reported as known
// findings while they still fail):
//   F11 conflicting defaults (directly, or through a reference to a field whose concrete value was
//       replaced by an equal default) - here a package has ONE default atom for all its disjunctions
//   F12 self/cyclic references  - here references only go y -> x and z -> y
//   F13 comprehensions feeding each other - here comprehension bodies only write z, conditions read x / y
type richGen struct {
	r   *common.Rng
	def map[string]string // per package: the default atom of a label
}

func (g *richGen) defaultOf(l string) string {
	if d, ok := g.def[""]; ok {
		return d
	}
	d := g.intAtom()
	g.def[""] = d
	return d
}

var richLabels = []string{"a", "b", "c"}

func (g *richGen) atom() string { return common.Pick(g.r, []string{"1", "1", "2", `"x"`, "true"}) }

func (g *richGen) intAtom() string { return common.Pick(g.r, []string{"1", "1", "2", "3"}) }

// a schema value for a field
func (g *richGen) schemaVal(l string) string {
	a := g.defaultOf(l)
	switch g.r.Intn(12) {
	case 0, 1:
		return "int"
	case 2:
		return a
	case 3, 4, 5:
		return "*" + a + " | int"
	case 6:
		return "int | *" + a
	case 7:
		return ">0"
	case 8:
		return "*" + a + " | " + g.intAtom()
	case 9:
		return a + " | " + g.intAtom() + ` | "x"`
	case 10:
		return "number"
	}
	return "_"
}

func (g *richGen) schemaBody() string {
	var fs []string
	for _, l := range richLabels {
		if g.r.Chance(2, 3) {
			opt := ""
			if g.r.Chance(1, 5) {
				opt = "?"
			}
			fs = append(fs, l+opt+": "+g.schemaVal(l))
		}
	}
	if g.r.Chance(1, 6) {
		fs = append(fs, "...")
	}
	return "{" + strings.Join(fs, ", ") + "}"
}

func (g *richGen) dataBody() string {
	var fs []string
	for _, l := range richLabels {
		if g.r.Chance(1, 2) {
			fs = append(fs, l+": "+g.intAtom())
		}
	}
	return "{" + strings.Join(fs, ", ") + "}"
}

func (g *richGen) top() string { return common.Pick(g.r, []string{"x", "x", "y", "z"}) }
func (g *richGen) lab() string { return common.Pick(g.r, richLabels) }

func (g *richGen) decl() string {
	switch g.r.Intn(24) {
	case 0, 1:
		return "#S: " + g.schemaBody()
	case 2:
		return "#T: " + g.schemaBody()
	case 3, 4:
		return g.top() + ": #S"
	case 5:
		return g.top() + ": #S & " + g.dataBody()
	case 6, 7, 8:
		return g.top() + ": " + g.lab() + ": " + g.intAtom()
	case 9, 10:
		return g.top() + ": " + g.dataBody()
	case 11:
		l := g.lab()
		return g.top() + ": " + l + ": " + g.schemaVal(l)
	case 12:
		// reference between regular fields (acyclic: y reads x, z reads y)
		if g.r.Bool() {
			return fmt.Sprintf("y: %s: x.%s", g.lab(), g.lab())
		}
		return fmt.Sprintf("z: %s: y.%s", g.lab(), g.lab())
	case 13:
		return fmt.Sprintf("if %s.%s == %s {\n\tz: %s: %s\n}", common.Pick(g.r, []string{"x", "y"}), g.lab(), g.intAtom(), g.lab(), g.intAtom())
	case 14:
		return fmt.Sprintf("for k, v in x {\n\tz: (k): v\n}")
	case 15:
		return fmt.Sprintf("m: [string]: %s", g.schemaBody())
	case 16:
		return fmt.Sprintf("m: %s: %s", common.Pick(g.r, []string{"foo", "bar"}), g.dataBody())
	case 17:
		return "l: [...#S]"
	case 18:
		return "l: [" + g.dataBody() + ", " + g.dataBody() + "]"
	case 19:
		return fmt.Sprintf("d: %s | string\no: d & int", g.intAtom())
	case 20:
		return fmt.Sprintf("%s: {#T, %s: %s}", g.top(), g.lab(), g.intAtom())
	case 21:
		l := g.lab()
		return fmt.Sprintf("%s: %s: *%s | int", g.top(), l, g.defaultOf(l))
	case 22:
		return fmt.Sprintf("%s: [string]: %s", g.top(), common.Pick(g.r, []string{"int", "_", ">0", "number", "int | string"}))
	}
	return fmt.Sprintf("%s: %s: %s | %s", g.top(), g.lab(), g.intAtom(), g.intAtom())
}

func (g *richGen) Package() []srcFile {
	g.def = map[string]string{}
	nf := 1 + g.r.Intn(2)
	fs := make([]srcFile, nf)
	for i := range fs {
		fs[i] = srcFile{Name: fmt.Sprintf("f%d.cue", i), Text: "package p\n"}
	}
	n := 3 + g.r.Intn(7)
	seen := map[string]bool{}
	for i := 0; i < n; i++ {
		d := g.decl()
		if strings.HasPrefix(d, "#S:") || strings.HasPrefix(d, "#T:") {
			if seen[d[:2]] {
				continue
			}
			seen[d[:2]] = true
		}
		fs[g.r.Intn(nf)].Text += d + "\n"
	}
	all := ""
	for _, f := range fs {
		all += f.Text
	}
	for _, nm := range []string{"#S", "#T"} {
		if strings.Contains(all, nm) && !seen[nm] {
			fs[0].Text += nm + ": " + g.schemaBody() + "\n"
		}
	}
	return fs
}

// output like the corpus mode: name variant stage same idem changed
func runRich(a map[string]string) {
	n := common.Atoi(a["--n"], 1000)
	g := &richGen{r: common.NewRng(uint64(common.Atoi(a["--seed"], 1)))}
	pkgs := make([][]srcFile, 0, n)
	for i := 0; i < n; i++ {
		var fs []srcFile
		for try := 0; try < 8; try++ {
			fs = g.Package()
			if !quickErr(fs) {
				break
			}
		}
		pkgs = append(pkgs, fs)
	}
	lines := make([]string, n)
	infos := make([]string, n)
	var wg sync.WaitGroup
	next := make(chan int, n)
	for i := 0; i < n; i++ {
		next <- i
	}
	close(next)
	for w := 0; w < common.Atoi(a["--workers"], 12); w++ {
		wg.Add(1)
		go func() {
			defer wg.Done()
			for i := range next {
				res := trimPackage(pkgs[i], false)
				stage := res.Stage
				if stage == "" {
					stage = "OK"
				}
				same := res.Stage != "" || res.Before == res.After
				idem := idemCode(res)
				if res.Stage != "" {
					idem = "1"
				}
				sameCode := string(bit(same))
				if !same {
					// triage: every changed path in a known class (D = conflicting defaults F11, S = self reference F12)?
					if cl := classifyChange(pkgs[i], res.Out); cl != "" {
						sameCode = cl
					}
				}
				lines[i] = fmt.Sprintf("rich %d %s %s %s %c", i, stage, sameCode, idem, bit(res.Changed))
				var b strings.Builder
				for _, f := range pkgs[i] {
					fmt.Fprintf(&b, "-- %s --\n%s", f.Name, f.Text)
				}
				if res.Stage == "" {
					b.WriteString("==== trimmed\n")
					for _, f := range res.Out {
						fmt.Fprintf(&b, "-- %s --\n%s", f.Name, f.Text)
					}
					if !same {
						fmt.Fprintf(&b, "==== value before: %s\n==== value after:  %s\n", res.Before, res.After)
					}
					if !res.Idem {
						b.WriteString("==== trimmed twice\n")
						for _, f := range res.Out2 {
							fmt.Fprintf(&b, "-- %s --\n%s", f.Name, f.Text)
						}
					}
				}
				infos[i] = b.String()
			}
		}()
	}
	wg.Wait()
	out, _ := os.Create(a["--out"] + "/rich.txt")
	defer out.Close()
	src, _ := os.Create(a["--out"] + "/rich_src.txt")
	defer src.Close()
	for i := range lines {
		fmt.Fprintln(out, lines[i])
		fmt.Fprintf(src, "### %d\n%s\n", i, infos[i])
	}
	fmt.Fprintf(os.Stderr, "c20 rich: %d packages\n", n)
}
