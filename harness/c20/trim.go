package main

import (
	"bytes"
	"fmt"
	"os"
	"sort"
	"strings"

	"cuelang.org/go/cue"
	"cuelang.org/go/cue/ast"
	"cuelang.org/go/cue/build"
	"cuelang.org/go/cue/cuecontext"
	"cuelang.org/go/cue/format"
	"cuelang.org/go/cue/parser"
	"cuelang.org/go/cue/token"
	"cuelang.org/go/tools/trim"
)

const pkgDir = "/c20pkg"

// buildPackage parses the files and builds one instance the way trim_test.go and
// cmd/cue do (files of one package, one build.Instance).
func buildPackage(ctx *cue.Context, files []srcFile) ([]*ast.File, cue.Value, string) {
	inst := build.NewContext().NewInstance(pkgDir, nil)
	var afs []*ast.File
	for _, f := range files {
		af, err := parser.ParseFile(pkgDir+"/"+f.Name, f.Text, parser.ParseComments)
		if err != nil {
			return nil, cue.Value{}, "PARSE-ERROR"
		}
		if err := inst.AddSyntax(af); err != nil {
			return nil, cue.Value{}, "ADD-ERROR"
		}
		afs = append(afs, af)
	}
	v := ctx.BuildInstance(inst)
	return afs, v, ""
}

type trimResult struct {
	Stage    string // "" ok; otherwise where it stopped: PARSE-ERROR, BUILD-ERROR (trim refuses), TRIM-ERROR, PANIC
	In       []srcFile
	Out      []srcFile // formatted trimmed files
	Out2     []srcFile // trim(trim(x))
	Before   string    // generic canonical value of the input
	After    string    // generic canonical value of the trimmed package ("REPARSE-ERROR" / ...)
	Idem     bool
	Changed  bool
	TrimErr2 string
	After2   string // generic canonical value of trim(trim(x)) (only computed when not idempotent)
	FileSkip bool   // pass 1 tried to replace a whole *ast.File (known finding F10): see fileSkipped
}

func (t *trimResult) Report() string {
	var b strings.Builder
	fmt.Fprintf(&b, "stage=%q changed=%v idem=%v same=%v\n", t.Stage, t.Changed, t.Idem, t.Before == t.After)
	for _, f := range t.Out {
		fmt.Fprintf(&b, "== %s\n%s", f.Name, f.Text)
	}
	fmt.Fprintf(&b, "before: %s\nafter:  %s\n", t.Before, t.After)
	return b.String()
}

func formatFiles(afs []*ast.File) ([]srcFile, error) {
	var out []srcFile
	for _, f := range afs {
		b, err := format.Node(f)
		if err != nil {
			return nil, err
		}
		out = append(out, srcFile{Name: strings.TrimPrefix(f.Filename, pkgDir+"/"), Text: string(b)})
	}
	return out, nil
}

func sameFiles(a, b []srcFile) bool {
	if len(a) != len(b) {
		return false
	}
	for i := range a {
		if a[i] != b[i] {
			return false
		}
	}
	return true
}

// trimOnce: parse, build, trim.Files, format.  stage != "" when it did not get through.
func trimOnce(files []srcFile, trace bool) (out []srcFile, val cue.Value, ctx *cue.Context, stage string) {
	defer func() {
		if r := recover(); r != nil {
			stage = "PANIC"
			if trace {
				fmt.Fprintln(os.Stderr, "panic:", r)
			}
		}
	}()
	ctx = cuecontext.New()
	afs, v, st := buildPackage(ctx, files)
	if st != "" {
		return nil, v, ctx, st
	}
	val = v
	cfg := &trim.Config{Trace: trace}
	if err := trim.Files(afs, v, cfg); err != nil {
		// trim.Files refuses packages whose value is an error; the files must be left alone
		before, _, _, _ := normalise(files)
		after, ferr := formatFiles(afs)
		if ferr != nil || !sameFiles(before, after) {
			return nil, v, ctx, "REFUSED-BUT-MODIFIED"
		}
		if v.Err() != nil {
			return nil, v, ctx, "BUILD-ERROR"
		}
		return nil, v, ctx, "TRIM-ERROR"
	}
	out, err := formatFiles(afs)
	if err != nil {
		return nil, v, ctx, "FORMAT-ERROR"
	}
	return out, v, ctx, ""
}

func trimPackage(files []srcFile, trace bool) *trimResult {
	res := &trimResult{In: files}
	out, v, _, stage := trimOnce(files, trace)
	res.Stage = stage
	if stage != "" {
		return res
	}
	res.Out = out
	probes := collectProbes(files)
	res.Before = genCanon(v, probes)
	// the trimmed package, from its TEXT (what cue trim writes back)
	ctx2 := cuecontext.New()
	_, v2, st := buildPackage(ctx2, out)
	switch {
	case st != "":
		res.After = "REPARSE-" + st
	default:
		res.After = genCanon(v2, probes)
	}
	in0, _, _, _ := normalise(files)
	res.Changed = !sameFiles(in0, out)
	out2, _, _, st2 := trimOnce(out, false)
	res.TrimErr2 = st2
	res.Out2 = out2
	res.Idem = st2 == "" && sameFiles(out, out2)
	if st2 == "BUILD-ERROR" {
		// the second pass refuses the trimmed package and leaves it alone: nothing more is removed.
		// (Seen when Value.Err() is nil for the input although a field is erroneous, and the rewriting
		// `#S & {}` -> `#S & _` turns an incomplete reference error into a fatal one; the canonical
		// values - errors as E - are equal, which is what (b) compares.)
		res.Idem = true
		res.Out2 = out
	}
	if !res.Idem && st2 == "" {
		ctx3 := cuecontext.New()
		if _, v3, st := buildPackage(ctx3, out2); st == "" {
			res.After2 = genCanon(v3, probes)
		}
		res.FileSkip = fileSkipped(files)
	}
	return res
}

// normalise: parse + format without trimming (to decide whether trim changed anything)
func normalise(files []srcFile) ([]srcFile, cue.Value, *cue.Context, string) {
	ctx := cuecontext.New()
	afs, v, st := buildPackage(ctx, files)
	if st != "" {
		return nil, v, ctx, st
	}
	out, err := formatFiles(afs)
	if err != nil {
		return nil, v, ctx, "FORMAT-ERROR"
	}
	return out, v, ctx, ""
}

// ---- generic canonical form (any package) -------------------------------------
//
// Final value with defaults resolved, at every path: errors as E (never texts), structs
// with their fields (all kinds of labels, optional/required marked) sorted by selector,
// lists element-wise, concrete scalars by kind and value, non-concrete scalars by the
// admitted kinds and the acceptance of every probe atom (the literals of the source plus
// a fixed set).

func collectProbes(files []srcFile) []string {
	set := map[string]bool{}
	for _, s := range []string{"-1", "0", "1", "2", "5", "7", "10", "11", "100", "1.5", `"x"`, `"y"`, `""`, "true", "false", "null"} {
		set[s] = true
	}
	for _, f := range files {
		af, err := parser.ParseFile(f.Name, f.Text)
		if err != nil {
			continue
		}
		ast.Walk(af, func(n ast.Node) bool {
			if bl, ok := n.(*ast.BasicLit); ok {
				switch bl.Kind {
				case token.INT, token.FLOAT:
					set[bl.Value] = true
				case token.STRING:
					if !strings.Contains(bl.Value, "\\(") && !strings.HasPrefix(bl.Value, "#") && !strings.HasPrefix(bl.Value, `"""`) && !strings.HasPrefix(bl.Value, "'") {
						set[bl.Value] = true
					}
				}
			}
			return true
		}, nil)
	}
	var ps []string
	for s := range set {
		ps = append(ps, s)
	}
	sort.Strings(ps)
	return ps
}

func genCanon(v cue.Value, probes []string) string {
	ctx := v.Context()
	var pv []cue.Value
	for _, p := range probes {
		x := ctx.CompileString(p)
		if x.Err() == nil {
			pv = append(pv, x)
		}
	}
	var b strings.Builder
	genCanonRec(&b, v, pv, 0)
	return b.String()
}

func genCanonRec(b *strings.Builder, v cue.Value, probes []cue.Value, depth int) {
	if depth > 40 {
		b.WriteString("DEEP")
		return
	}
	if d, ok := v.Default(); ok {
		v = d
	}
	if isErr(v) {
		b.WriteString("E")
		return
	}
	k := v.IncompleteKind()
	switch {
	case k == cue.StructKind:
		it, err := v.Fields(cue.All())
		if err != nil {
			b.WriteString("E")
			return
		}
		type ent struct {
			key string
			v   cue.Value
		}
		var es []ent
		for it.Next() {
			s := it.Selector()
			key := s.String() + "/" + s.LabelType().String()
			es = append(es, ent{key, it.Value()})
		}
		sort.Slice(es, func(i, j int) bool { return es[i].key < es[j].key })
		b.WriteByte('{')
		for i, e := range es {
			if i > 0 {
				b.WriteByte(',')
			}
			b.WriteString(e.key)
			b.WriteByte(':')
			genCanonRec(b, e.v, probes, depth+1)
		}
		b.WriteByte('}')
	case k == cue.ListKind:
		l, err := v.List()
		if err != nil {
			b.WriteString("E")
			return
		}
		b.WriteByte('[')
		i := 0
		for l.Next() {
			if i > 0 {
				b.WriteByte(',')
			}
			genCanonRec(b, l.Value(), probes, depth+1)
			i++
		}
		if v.LookupPath(cue.MakePath(cue.AnyIndex)).Exists() {
			b.WriteString(";...")
			genCanonRec(b, v.LookupPath(cue.MakePath(cue.AnyIndex)), probes, depth+1)
		}
		b.WriteByte(']')
	default:
		fmt.Fprintf(b, "V%d", int(k))
		if v.IsConcrete() {
			s, err := format.Node(v.Syntax(cue.Final()))
			if err == nil {
				b.WriteByte('=')
				b.Write(s)
				return
			}
		}
		b.WriteByte(':')
		for _, a := range probes {
			b.WriteByte(bit(!isErr(v.Unify(a))))
		}
	}
}

// fileSkipped re-runs trim.Files with tracing and reports whether the rewriting phase
// tried to replace a whole *ast.File node by `_` (a file none of whose declarations is
// required).  astutil's cursor cannot replace the root, so that file is left completely
// untrimmed by this pass and is only trimmed by the next one: the mechanism of the known
// finding "trim is not idempotent on multi-file packages".  The trace line is produced by
// trimmerV3.trim ("replacing node %p::%T with %T %v").
func fileSkipped(files []srcFile) (skipped bool) {
	defer func() {
		if r := recover(); r != nil {
			skipped = false
		}
	}()
	ctx := cuecontext.New()
	afs, v, st := buildPackage(ctx, files)
	if st != "" || v.Err() != nil {
		return false
	}
	var buf bytes.Buffer
	if err := trim.Files(afs, v, &trim.Config{Trace: true, TraceWriter: &buf}); err != nil {
		return false
	}
	for _, line := range strings.Split(buf.String(), "\n") {
		if strings.Contains(line, "replacing node") && strings.Contains(line, "::*ast.File with") {
			return true
		}
	}
	return false
}

// ---- triage of value changes (exploration outside CoreCUE) --------------------------------

// leafMap: path -> generic canonical form of the leaf (or struct/list marker) at that path
func leafMap(v cue.Value, probes []string) map[string]string {
	ctx := v.Context()
	var pv []cue.Value
	for _, p := range probes {
		x := ctx.CompileString(p)
		if x.Err() == nil {
			pv = append(pv, x)
		}
	}
	m := map[string]string{}
	var walk func(v cue.Value, path string, depth int)
	walk = func(v cue.Value, path string, depth int) {
		if depth > 40 {
			return
		}
		if d, ok := v.Default(); ok {
			v = d
		}
		if isErr(v) {
			m[path] = "E"
			return
		}
		switch v.IncompleteKind() {
		case cue.StructKind:
			m[path] = "{}"
			it, err := v.Fields(cue.All())
			if err != nil {
				m[path] = "E"
				return
			}
			for it.Next() {
				walk(it.Value(), path+"."+it.Selector().String(), depth+1)
			}
		case cue.ListKind:
			m[path] = "[]"
			l, err := v.List()
			if err != nil {
				m[path] = "E"
				return
			}
			for i := 0; l.Next(); i++ {
				walk(l.Value(), fmt.Sprintf("%s[%d]", path, i), depth+1)
			}
		default:
			var b strings.Builder
			genCanonRec(&b, v, pv, depth)
			m[path] = b.String()
		}
	}
	walk(v, "", 0)
	return m
}

// conjunctsAt: the conjuncts of the value at the path of v (one level of & flattened)
func conjunctsOf(v cue.Value) []cue.Value {
	op, args := v.Expr()
	if op == cue.AndOp {
		var out []cue.Value
		for _, a := range args {
			out = append(out, conjunctsOf(a)...)
		}
		return out
	}
	return []cue.Value{v}
}

// classifyChange: for a package whose value changed under trim, decide whether EVERY path
// whose leaf changed belongs to a known class:
//
//	D  (F11) the field has conjuncts carrying at least two DIFFERENT defaults: a concrete value
//	         equal to one of them is removed, the remaining defaults then conflict
//	S  (F12) the field has a conjunct that is a reference to the field itself (y: a: y.a)
//
// Returns the set of classes, or "" if some changed path is in neither.
func classifyChange(files []srcFile, out []srcFile) string {
	probes := collectProbes(files)
	ctx1 := cuecontext.New()
	_, v1, st1 := buildPackage(ctx1, files)
	ctx2 := cuecontext.New()
	_, v2, st2 := buildPackage(ctx2, out)
	if st1 != "" || st2 != "" {
		return ""
	}
	m1, m2 := leafMap(v1, probes), leafMap(v2, probes)
	classes := map[string]bool{}
	var changed []string
	for p, a := range m1 {
		if b, ok := m2[p]; !ok || a != b {
			changed = append(changed, p)
		}
	}
	for p := range m2 {
		if _, ok := m1[p]; !ok {
			return "" // a field appeared
		}
	}
	if len(changed) == 0 {
		return ""
	}
	for _, p := range changed {
		if _, ok := m2[p]; !ok {
			return "" // a field disappeared
		}
		if strings.Contains(p, "[") {
			return ""
		}
		pv := v1.LookupPath(cue.ParsePath(strings.TrimPrefix(p, ".")))
		if !pv.Exists() {
			return ""
		}
		defaults := map[string]bool{}
		self := false
		for _, c := range conjunctsOf(pv) {
			if d, ok := c.Default(); ok {
				if s, err := format.Node(d.Syntax(cue.Final())); err == nil {
					defaults[string(s)] = true
				}
			}
			if _, rp := c.ReferencePath(); len(rp.Selectors()) > 0 && "."+rp.String() == p {
				self = true
			}
		}
		switch {
		case self:
			classes["S"] = true
		case len(defaults) >= 2:
			classes["D"] = true
		default:
			return ""
		}
	}
	var cs []string
	for c := range classes {
		cs = append(cs, c)
	}
	sort.Strings(cs)
	return strings.Join(cs, "")
}
