// Generation of packages for C20 and the per-package pipeline
// (trim.Files on the implementation, canonical values, removed set for the model).
package main

import (
	"fmt"
	"os"
	"strings"
	"sync"

	"cuelang.org/go/cue"
	"cuelang.org/go/cue/cuecontext"
	"cuelang.org/go/internal/verifharness/common"
)

// ---- packages ---------------------------------------------------------------------
//
// A generated package: definitions (#Dk, each referenced once), 0-2 schema conjuncts of x
// (schema literal / #Dk / close(schema) / literal embedding a #Dk or close()) and 1-3 data
// structs partly repeating what the schemas imply; the data is written as whole literals
// or exploded into declarations at paths (x: a: b: 1), some of them repeated in a weaker
// form (x: a: b: int, x: a: _, x: a: {}); everything distributed over 1-3 files.
// The expression fragment is the validated CoreCUE fragment of harness/core (see the
// comment "generation" in ast.go); no defaults, references only to definitions.

type GDecl struct {
	File int
	Path []Label
	E    Expr
}

type GPackage struct {
	NFiles  int
	Defs    []Ref
	DefFile []int
	Decls   []GDecl
}

func (d GDecl) CUE() string {
	s := "x: "
	for _, l := range d.Path {
		s += l.CUE() + ": "
	}
	return s + d.E.CUE()
}

func (p *GPackage) Files() []srcFile {
	fs := make([]srcFile, p.NFiles)
	for i := range fs {
		fs[i].Name = fmt.Sprintf("f%d.cue", i)
		fs[i].Text = "package p\n"
	}
	for i, d := range p.Defs {
		fs[p.DefFile[i]].Text += fmt.Sprintf("%s: %s\n", d.Name, d.Body.CUE())
	}
	for _, d := range p.Decls {
		fs[d.File].Text += d.CUE() + "\n"
	}
	return fs
}

func (g *Gen) explode(path []Label, s Struct, out *[]GDecl) {
	if len(s.Ds) == 0 || g.r.Chance(1, 3) {
		*out = append(*out, GDecl{Path: append([]Label{}, path...), E: s})
		return
	}
	for _, d := range s.Ds {
		p2 := append(append([]Label{}, path...), d.L)
		if sub, ok := d.E.(Struct); ok && g.r.Chance(2, 3) {
			g.explode(p2, sub, out)
			continue
		}
		*out = append(*out, GDecl{Path: p2, E: d.E})
	}
}

// weaker: something the atom a satisfies
func (g *Gen) weaker(a Atom) Expr {
	switch g.r.Intn(6) {
	case 0:
		return Top{}
	case 1, 2:
		switch a.K {
		case 'i':
			return ScalKind{"int"}
		case 's':
			return ScalKind{"string"}
		case 'b':
			return ScalKind{"bool"}
		}
		return Top{}
	case 3:
		if a.K == 'i' {
			for _, b := range boundFamily {
				ok := map[string]bool{"gt": a.I > b.Z, "ge": a.I >= b.Z, "lt": a.I < b.Z, "le": a.I <= b.Z, "ne": a.I != b.Z}[b.Op]
				if ok && g.r.Chance(1, 2) {
					return b
				}
			}
		}
		return ScalAtom{a}
	}
	return ScalAtom{a}
}

func (g *Gen) Package() *GPackage {
	g.defs = nil
	g.ndefs = 0
	g.pref = map[string]Atom{}
	g.shape = map[string]int{}
	depth := g.cfg.MaxDepth
	p := &GPackage{NFiles: 1 + g.r.Intn(3)}
	var decls []GDecl
	ns := []int{0, 1, 1, 1, 1, 2, 2, 2}[g.r.Intn(8)]
	for j := 0; j < ns; j++ {
		g.path = ""
		var e Expr
		switch k := g.r.Intn(10); {
		case k < 4:
			e = g.newDef(depth)
		case k < 5:
			e = Close{g.schema(depth)}
		case k < 6 && depth > 0:
			e = g.embedLit(depth)
		default:
			e = g.schema(depth)
		}
		decls = append(decls, GDecl{E: e})
	}
	nd := 1 + g.r.Intn(3)
	for j := 0; j < nd; j++ {
		g.path = ""
		d := g.data(depth)
		var ds []GDecl
		g.explode(nil, d, &ds)
		decls = append(decls, ds...)
		// weaker repetitions of some of the data
		for _, x := range ds {
			if !g.r.Chance(1, 4) {
				continue
			}
			switch v := x.E.(type) {
			case ScalAtom:
				decls = append(decls, GDecl{Path: x.Path, E: g.weaker(v.A)})
			case Struct:
				if g.r.Bool() {
					decls = append(decls, GDecl{Path: x.Path, E: Struct{}})
				} else {
					decls = append(decls, GDecl{Path: x.Path, E: Top{}})
				}
			}
		}
	}
	// bounds only: a field constrained by two or three bounds of the family (and possibly int), so that
	// subsumption between bounds decides what is removed
	if g.r.Chance(1, 5) {
		l := Label{LReg, g.r.Intn(4)}
		nb := 2 + g.r.Intn(2)
		for j := 0; j < nb; j++ {
			decls = append(decls, GDecl{Path: []Label{l}, E: common.Pick(g.r, boundFamily)})
		}
		if g.r.Chance(1, 3) {
			decls = append(decls, GDecl{Path: []Label{l}, E: ScalKind{"int"}})
		}
	}
	common.Shuffle(g.r, decls)
	for i := range decls {
		decls[i].File = g.r.Intn(p.NFiles)
	}
	p.Decls = decls
	p.Defs = g.defs
	for range p.Defs {
		p.DefFile = append(p.DefFile, g.r.Intn(p.NFiles))
	}
	return p
}

// ---- pipeline ------------------------------------------------------------------------

func coreCanon(files []srcFile, cp *ConvPkg) string {
	ctx := cuecontext.New()
	_, v, st := buildPackage(ctx, files)
	if st != "" {
		return st
	}
	x := v.LookupPath(cue.ParsePath("x"))
	if !x.Exists() {
		if v.Err() != nil {
			return "E"
		}
		return "NOX"
	}
	c := newCanon(ctx, cp.Source(files), cp.Inline())
	return c.fillOpenBits(c.canon(x, []string{"x"}))
}

type caseResult struct {
	Case string // line for the model
	Impl string // observed on the implementation
	Info string // human readable: files before/after
}

// idemCode: 1 = trim(trim(x)) == trim(x) (or the second pass refuses and leaves the files alone);
// F = not a fixpoint, the second pass preserves the value, the package has several files and
// pass 1 skipped a whole file (known finding F10, mechanism a); B = not a fixpoint, second pass
// preserves the value, other mechanism; 0 = not a fixpoint and the second pass changes the value
// or fails.
func idemCode(res *trimResult) string {
	switch {
	case res.Idem:
		return "1"
	case res.FileSkip && len(res.In) > 1 && res.TrimErr2 == "" && res.After2 == res.Before:
		return "F"
	case res.TrimErr2 == "" && res.After2 == res.Before:
		return "B"
	}
	return "0"
}

func bits(m []bool) string {
	var b strings.Builder
	for _, x := range m {
		b.WriteByte(bit(x))
	}
	return b.String()
}

// runPackage: everything the check needs to know about one package.
// impl line:  stage convIn convOut canonIn canonOut genericSame idem nAdded nRemoved changed
func runPackage(files []srcFile) caseResult {
	var info strings.Builder
	for _, f := range files {
		fmt.Fprintf(&info, "-- %s --\n%s", f.Name, f.Text)
	}
	cpIn, errIn := convPackage(files)
	if errIn != nil {
		return caseResult{"TRIM - - | | ", "UNCONVERTIBLE-INPUT " + strings.ReplaceAll(errIn.Error(), " ", "_"), info.String()}
	}
	nin := cpIn.Normal()
	keys := make([]string, len(nin))
	for i, d := range nin {
		keys[i] = d.Key()
	}
	head := "TRIM " + labsSexp() + " " + atomsSexp() + " | " + strings.Join(keys, " ; ") + " | "
	canonIn := coreCanon(files, cpIn)
	res := trimPackage(files, false)
	if res.Stage != "" {
		// trim.Files refuses packages whose value is an error (and leaves the files alone)
		return caseResult{head + bits(make([]bool, len(nin))),
			fmt.Sprintf("%s - - %s %s 1 1 0 0 0 %d", res.Stage, canonIn, canonIn, len(files)), info.String()}
	}
	fmt.Fprintf(&info, "==== trimmed\n")
	for _, f := range res.Out {
		fmt.Fprintf(&info, "-- %s --\n%s", f.Name, f.Text)
	}
	cpOut, errOut := convPackage(res.Out)
	if errOut != nil {
		return caseResult{head + bits(make([]bool, len(nin))),
			fmt.Sprintf("UNCONVERTIBLE-OUTPUT:%s - - %s - %c %s 0 0 1", strings.ReplaceAll(errOut.Error(), " ", "_"),
				canonIn, bit(res.Before == res.After), idemCode(res)), info.String()}
	}
	nout := cpOut.Normal()
	mask, added := diffNormal(nin, nout)
	nrem := 0
	for i, m := range mask {
		if m {
			nrem++
			fmt.Fprintf(&info, "removed: %s\n", nin[i].CUE())
		}
	}
	for _, a := range added {
		fmt.Fprintf(&info, "ADDED: %s\n", a)
	}
	canonOut := coreCanon(res.Out, cpOut)
	impl := fmt.Sprintf("OK %d %d %s %s %c %s %d %d %c %d", len(nin), len(nout), canonIn, canonOut,
		bit(res.Before == res.After), idemCode(res), len(added), nrem, bit(res.Changed), len(files))
	if !res.Idem {
		fmt.Fprintf(&info, "==== trimmed twice (NOT a fixpoint)\n")
		for _, f := range res.Out2 {
			fmt.Fprintf(&info, "-- %s --\n%s", f.Name, f.Text)
		}
	}
	return caseResult{head + bits(mask), impl, info.String()}
}

// quickErr: does the package evaluate to an error (trim.Files refuses those)?
func quickErr(files []srcFile) bool {
	ctx := cuecontext.New()
	_, v, st := buildPackage(ctx, files)
	return st != "" || v.Err() != nil
}

func runGen(r *common.Rng, a map[string]string, out *common.Out) {
	n := common.Atoi(a["--n"], 200)
	workers := common.Atoi(a["--workers"], 12)
	g := NewGen(r.Fork(), GenCfg{MaxDepth: common.Atoi(a["--depth"], 2), Closedness: true, Bounds: true})
	src, _ := os.Create(a["--out"] + "/src.txt")
	defer src.Close()
	// generation is sequential (one random stream); the pipeline runs in parallel
	pkgs := make([][]srcFile, n)
	for i := 0; i < n; i++ {
		var fs []srcFile
		for try := 0; ; try++ {
			fs = g.Package().Files()
			// mostly valid packages: an erroneous one is kept with probability 1/40 per attempt
			if try >= 8 || !quickErr(fs) || g.r.Chance(1, 40) {
				break
			}
		}
		pkgs[i] = fs
	}
	results := make([]caseResult, n)
	var wg sync.WaitGroup
	next := make(chan int, n)
	for i := 0; i < n; i++ {
		next <- i
	}
	close(next)
	for w := 0; w < workers; w++ {
		wg.Add(1)
		go func() {
			defer wg.Done()
			for i := range next {
				results[i] = runPackage(pkgs[i])
			}
		}()
	}
	wg.Wait()
	for i, cr := range results {
		fmt.Fprintf(src, "### %d\n%s\n", i, cr.Info)
		out.Emit(cr.Case, cr.Impl)
	}
}

// runDir: every *.txt archive ("-- name --" separated files) of a directory, in name order
// (the minimized corpus and replays)
func runDir(a map[string]string, out *common.Out) {
	ents, err := os.ReadDir(a["--dir"])
	if err != nil {
		panic(err)
	}
	src, _ := os.Create(a["--out"] + "/src.txt")
	defer src.Close()
	i := 0
	for _, e := range ents {
		if !strings.HasSuffix(e.Name(), ".txt") {
			continue
		}
		data, err := os.ReadFile(a["--dir"] + "/" + e.Name())
		if err != nil {
			panic(err)
		}
		cr := runPackage(splitArchive(string(data)))
		fmt.Fprintf(src, "### %d %s\n%s\n", i, e.Name(), cr.Info)
		out.Emit(cr.Case, cr.Impl)
		i++
	}
}
