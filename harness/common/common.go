// Package common holds helpers shared by the /verif harness binaries.
// It is compiled inside /repo's module through `go build -overlay`.
package common

import (
	"bufio"
	"encoding/hex"
	"fmt"
	"os"
	"strconv"
)

// Rng is splitmix64; every random choice of a harness derives from one state.
type Rng struct{ s uint64 }

func NewRng(seed uint64) *Rng {
	// scramble the seed so that consecutive seeds give unrelated streams
	z := seed + 0x632BE59BD9B4E019
	z = (z ^ (z >> 30)) * 0xBF58476D1CE4E5B9
	z = (z ^ (z >> 27)) * 0x94D049BB133111EB
	z = z ^ (z >> 31)
	return &Rng{s: z}
}

func (r *Rng) Next() uint64 {
	r.s += 0x9E3779B97F4A7C15
	z := r.s
	z = (z ^ (z >> 30)) * 0xBF58476D1CE4E5B9
	z = (z ^ (z >> 27)) * 0x94D049BB133111EB
	return z ^ (z >> 31)
}

// Intn returns a value in [0,n).
func (r *Rng) Intn(n int) int {
	if n <= 0 {
		return 0
	}
	return int(r.Next() % uint64(n))
}

func (r *Rng) Bool() bool { return r.Next()&1 == 1 }

// Chance returns true with probability num/den.
func (r *Rng) Chance(num, den int) bool { return r.Intn(den) < num }

func (r *Rng) Fork() *Rng { return NewRng(r.Next()) }

func Pick[T any](r *Rng, xs []T) T { return xs[r.Intn(len(xs))] }

func Shuffle[T any](r *Rng, xs []T) {
	for i := len(xs) - 1; i > 0; i-- {
		j := r.Intn(i + 1)
		xs[i], xs[j] = xs[j], xs[i]
	}
}

// Hex encodes bytes; the empty string is "-" so that fields never vanish.
func Hex(s string) string {
	if s == "" {
		return "-"
	}
	return hex.EncodeToString([]byte(s))
}

func Unhex(s string) string {
	if s == "-" {
		return ""
	}
	b, err := hex.DecodeString(s)
	if err != nil {
		panic(err)
	}
	return string(b)
}

// Out is a pair of line-oriented files: the cases and what the implementation did.
type Out struct {
	cases, impl *bufio.Writer
	fc, fi      *os.File
	N           int
}

func NewOut(dir string) *Out {
	fc, err := os.Create(dir + "/cases.txt")
	if err != nil {
		panic(err)
	}
	fi, err := os.Create(dir + "/impl.txt")
	if err != nil {
		panic(err)
	}
	return &Out{cases: bufio.NewWriterSize(fc, 1<<20), impl: bufio.NewWriterSize(fi, 1<<20), fc: fc, fi: fi}
}

func (o *Out) Emit(c, impl string) {
	fmt.Fprintln(o.cases, c)
	fmt.Fprintln(o.impl, impl)
	o.N++
}

func (o *Out) Close() {
	o.cases.Flush()
	o.impl.Flush()
	o.fc.Close()
	o.fi.Close()
}

func Atoi(s string, def int) int {
	n, err := strconv.Atoi(s)
	if err != nil {
		return def
	}
	return n
}

// Args parses "--key value" pairs.
func Args(args []string) map[string]string {
	m := map[string]string{}
	for i := 0; i+1 < len(args); i += 2 {
		m[args[i]] = args[i+1]
	}
	return m
}
