// C10 harness: JSON in and out of CUE, observed on the working tree.
//
// Case kinds (one line in cases.txt, one line in impl.txt; bytes hex-encoded):
//
//	DEC <hexdoc> <class>
//	    cue=<canon|REJECT> std=<canon|REJECT|INVALID> valid=<0|1> dec=<same|diff|-> blt=<same|diff|-> nfc=<table> val=<ok|err|PANIC> m=<hex|->
//	    cue: json.Extract + BuildExpr + walk; std: encoding/json token walk (UseNumber),
//	    last duplicate wins; dec: the streaming Decoder agrees with Extract; blt: the
//	    builtin encoding/json.Unmarshal agrees with Extract; m: Value.MarshalJSON bytes.
//	ENC <hexjson> <class> <truth canon>
//	    walk=<canon> std=<canon|REJECT> rt=<canon|REJECT> blt=<same|diff|->
//	    hexjson = MarshalJSON of a generated value (or of a decoded document);
//	    walk: the value itself; std: encoding/json reading of the bytes; rt: cue reading them back.
//	STR <hexlit>   cue=<ok:hex|err> json=<ok:hex|err>      literal.Unquote / encoding/json
//	NUM <hextext>  <ok:base:isint:num|err|nan> rd=<num|none|nan>   literal.ParseNum (+ Decimal); -x for rd
//	FMT <neg> <coeff> <exp>   <hex>      apd Decimal.Append(.., 'G')
//	ESC <hexbytes> <hex>                  internal/encoding/json.Marshal(string)
package main

import (
	"bytes"
	stdjson "encoding/json"
	"fmt"
	"io"
	"math/big"
	"os"
	"strconv"
	"strings"
	"unicode/utf8"

	"cuelang.org/go/cue"
	"cuelang.org/go/cue/ast"
	"cuelang.org/go/cue/cuecontext"
	"cuelang.org/go/cue/literal"
	"cuelang.org/go/cue/token"
	cuejson "cuelang.org/go/encoding/json"
	internaljson "cuelang.org/go/internal/encoding/json"
	"cuelang.org/go/internal/verifharness/common"
	"github.com/cockroachdb/apd/v3"
	"golang.org/x/text/unicode/norm"
)

var ctx = cuecontext.New()

// ------------------------------------------------------------ canon ----

func canonNum(isInt bool, neg bool, coeff *big.Int, exp int64) string {
	k := "d"
	if isInt {
		k = "i"
	}
	s := ""
	if neg && coeff.Sign() != 0 {
		s = "-"
	}
	return "#" + k + s + new(big.Int).Abs(coeff).String() + "e" + strconv.FormatInt(exp, 10)
}

func canonStr(prefix string, s string) string {
	if s == "" {
		return prefix
	}
	return prefix + common.Hex(s)
}

// walk a concrete cue.Value; nfcKeys: member names are NFC-normalised on the way out
var nfcKeys bool

func walk(v cue.Value, b *strings.Builder) error {
	switch v.Kind() {
	case cue.NullKind:
		b.WriteString("n")
	case cue.BoolKind:
		x, err := v.Bool()
		if err != nil {
			return err
		}
		if x {
			b.WriteString("t")
		} else {
			b.WriteString("f")
		}
	case cue.IntKind, cue.FloatKind:
		var m big.Int
		e, err := v.MantExp(&m)
		if err != nil {
			if err == cue.ErrInfinite {
				b.WriteString("#N")
				return nil
			}
			return err
		}
		b.WriteString(canonNum(v.Kind() == cue.IntKind, m.Sign() < 0, &m, int64(e)))
	case cue.StringKind:
		s, err := v.String()
		if err != nil {
			return err
		}
		b.WriteString(canonStr("s", s))
	case cue.ListKind:
		it, err := v.List()
		if err != nil {
			return err
		}
		b.WriteString("[")
		for i := 0; it.Next(); i++ {
			if i > 0 {
				b.WriteString(",")
			}
			if err := walk(it.Value(), b); err != nil {
				return err
			}
		}
		b.WriteString("]")
	case cue.StructKind:
		it, err := v.Fields()
		if err != nil {
			return err
		}
		b.WriteString("{")
		for i := 0; it.Next(); i++ {
			if i > 0 {
				b.WriteString(",")
			}
			sel := it.Selector()
			if sel.LabelType() != cue.StringLabel {
				return fmt.Errorf("non-string label %v", sel)
			}
			key := sel.Unquoted()
			if nfcKeys {
				key = norm.NFC.String(key)
			}
			b.WriteString(canonStr("k", key))
			b.WriteString(":")
			if err := walk(it.Value(), b); err != nil {
				return err
			}
		}
		b.WriteString("}")
	default:
		return fmt.Errorf("kind %v", v.Kind())
	}
	return nil
}

func walkCanon(v cue.Value) string {
	if v.Err() != nil {
		return "REJECT"
	}
	if err := v.Validate(cue.Concrete(true)); err != nil {
		return "REJECT"
	}
	var b strings.Builder
	if err := walk(v, &b); err != nil {
		return "REJECT"
	}
	return b.String()
}

// number text (RFC 8259 grammar, as json.Number holds it) -> canon
func numCanonFromText(t string) string {
	neg := false
	s := t
	if strings.HasPrefix(s, "-") {
		neg = true
		s = s[1:]
	}
	exp := int64(0)
	hasExp := false
	expBig := false
	if i := strings.IndexAny(s, "eE"); i >= 0 {
		hasExp = true
		e := new(big.Int)
		if _, ok := e.SetString(strings.TrimPrefix(s[i+1:], "+"), 10); !ok {
			return "#?"
		}
		if !e.IsInt64() {
			expBig = true
		} else {
			exp = e.Int64()
		}
		s = s[:i]
	}
	frac := ""
	hasFrac := false
	if i := strings.IndexByte(s, '.'); i >= 0 {
		hasFrac = true
		frac = s[i+1:]
		s = s[:i]
	}
	c := new(big.Int)
	if _, ok := c.SetString(s+frac, 10); !ok {
		return "#?"
	}
	k := "d"
	if !hasExp && !hasFrac {
		k = "i"
	}
	sg := ""
	if neg && c.Sign() != 0 {
		sg = "-"
	}
	if expBig {
		// exponent beyond int64: print it exactly
		e := new(big.Int)
		i := strings.IndexAny(t, "eE")
		e.SetString(strings.TrimPrefix(t[i+1:], "+"), 10)
		e.Sub(e, big.NewInt(int64(len(frac))))
		return "#" + k + sg + c.String() + "e" + e.String()
	}
	return "#" + k + sg + c.String() + "e" + strconv.FormatInt(exp-int64(len(frac)), 10)
}

type kvp struct {
	k string
	v string
}

// encoding/json reading of a document through the token API (keeps member order;
// a repeated name replaces the earlier value in place = what a map decode keeps)
func stdCanon(doc []byte) string {
	dec := stdjson.NewDecoder(bytes.NewReader(doc))
	dec.UseNumber()
	s, err := stdValue(dec)
	if err != nil {
		return "REJECT"
	}
	if _, err := dec.Token(); err != io.EOF {
		return "REJECT"
	}
	return s
}

func stdValue(dec *stdjson.Decoder) (string, error) {
	tok, err := dec.Token()
	if err != nil {
		return "", err
	}
	return stdFromToken(dec, tok)
}

func stdFromToken(dec *stdjson.Decoder, tok stdjson.Token) (string, error) {
	switch x := tok.(type) {
	case nil:
		return "n", nil
	case bool:
		if x {
			return "t", nil
		}
		return "f", nil
	case stdjson.Number:
		return numCanonFromText(string(x)), nil
	case string:
		return canonStr("s", x), nil
	case stdjson.Delim:
		switch x {
		case '[':
			var parts []string
			for dec.More() {
				s, err := stdValue(dec)
				if err != nil {
					return "", err
				}
				parts = append(parts, s)
			}
			if _, err := dec.Token(); err != nil {
				return "", err
			}
			return "[" + strings.Join(parts, ",") + "]", nil
		case '{':
			var kvs []kvp
			for dec.More() {
				kt, err := dec.Token()
				if err != nil {
					return "", err
				}
				k, ok := kt.(string)
				if !ok {
					return "", fmt.Errorf("key")
				}
				if keySink != nil {
					keySink(k)
				}
				s, err := stdValue(dec)
				if err != nil {
					return "", err
				}
				found := false
				for i := range kvs {
					if kvs[i].k == k {
						kvs[i].v = s
						found = true
						break
					}
				}
				if !found {
					kvs = append(kvs, kvp{k, s})
				}
			}
			if _, err := dec.Token(); err != nil {
				return "", err
			}
			parts := make([]string, len(kvs))
			for i, p := range kvs {
				parts[i] = canonStr("k", p.k) + ":" + p.v
			}
			return "{" + strings.Join(parts, ",") + "}", nil
		}
	}
	return "", fmt.Errorf("token %v", tok)
}

// ------------------------------------------------- implementation side ----

func cueDecode(doc []byte) (cue.Value, bool) {
	expr, err := cuejson.Extract("x.json", doc)
	if err != nil {
		return cue.Value{}, false
	}
	v := ctx.BuildExpr(expr)
	if v.Err() != nil {
		return v, false
	}
	return v, true
}

func cueCanon(doc []byte) (string, cue.Value) {
	v, ok := cueDecode(doc)
	if !ok {
		return "REJECT", v
	}
	return walkCanon(v), v
}

// the streaming decoder on the same single document
func decoderCanon(doc []byte) string {
	d := cuejson.NewDecoder(nil, "x.json", bytes.NewReader(doc))
	expr, err := d.Extract()
	if err != nil {
		return "REJECT"
	}
	if _, err := d.Extract(); err != io.EOF {
		return "REJECT"
	}
	v := ctx.BuildExpr(expr)
	return walkCanon(v)
}

var bltUnmarshal, bltMarshal, topValue cue.Value

func initBuiltins() {
	v := ctx.CompileString(`import "encoding/json"
U: {s: string, out: json.Unmarshal(s)}
M: {v: _, out: json.Marshal(v)}
`)
	if v.Err() != nil {
		panic(v.Err())
	}
	topValue = ctx.CompileString("_")
	bltUnmarshal = v.LookupPath(cue.ParsePath("U"))
	bltMarshal = v.LookupPath(cue.ParsePath("M"))
}

// pkg/encoding/json Unmarshal builtin
func builtinCanon(doc []byte) string {
	if !utf8.Valid(doc) {
		return "REJECT"
	}
	x := bltUnmarshal.FillPath(cue.ParsePath("s"), string(doc))
	out := x.LookupPath(cue.ParsePath("out"))
	return walkCanon(out)
}

// pkg/encoding/json Marshal builtin
func builtinMarshal(v cue.Value) (string, bool) {
	x := bltMarshal.FillPath(cue.ParsePath("v"), v)
	out := x.LookupPath(cue.ParsePath("out"))
	s, err := out.String()
	if err != nil {
		return "", false
	}
	return s, true
}

func walkCanonNFC(v cue.Value) string {
	nfcKeys = true
	defer func() { nfcKeys = false }()
	return walkCanon(v)
}

// member names of a valid document that cue will change: string labels (those that
// need quoting in CUE) are NFC-normalised by internal/core/compile/label.go
func nfcTable(doc []byte) string {
	var parts []string
	seen := map[string]bool{}
	keySink = func(k string) {
		if nk := norm.NFC.String(k); nk != k && ast.StringLabelNeedsQuoting(k) && !seen[k] {
			seen[k] = true
			parts = append(parts, common.Hex(k)+":"+common.Hex(nk))
		}
	}
	stdCanon(doc)
	keySink = nil
	if len(parts) == 0 {
		return "-"
	}
	return strings.Join(parts, ";")
}

var keySink func(string)

// guard runs an observation of the implementation; a Go panic becomes the observable "PANIC"
func guard(f func() string) (res string) {
	defer func() {
		if r := recover(); r != nil {
			res = "PANIC"
		}
	}()
	return f()
}

func sameOr(a, b string) string {
	if a == b {
		return "same"
	}
	return "diff"
}

type emitter struct {
	out     *common.Out
	noExtra bool
}

func (e *emitter) dec(doc []byte, class string) {
	valid := stdjson.Valid(doc)
	var v cue.Value
	cc := guard(func() string { var c string; c, v = cueCanon(doc); return c })
	std := "INVALID"
	if valid {
		std = stdCanon(doc)
	}
	dc := sameOr(cc, guard(func() string { return decoderCanon(doc) }))
	bl := "-"
	if len(doc) < 4000 {
		// the builtin keeps every label a string label (NFC-normalised), json.Extract turns
		// identifier-like labels into identifiers (not normalised): compare modulo NFC of names
		bc := "REJECT"
		if cc != "REJECT" && cc != "PANIC" {
			bc = guard(func() string { return walkCanonNFC(v) })
		}
		nfcKeys = true
		bl = sameOr(bc, guard(func() string { return builtinCanon(doc) }))
		nfcKeys = false
	}
	nt := "-"
	if valid {
		nt = nfcTable(doc)
	}
	// encoding/json.Validate(doc, _): json.Valid + CompileBytes + Unify + Validate(Final)
	val := guard(func() string {
		if err := cuejson.Validate(doc, topValue); err != nil {
			return "err"
		}
		return "ok"
	})
	m := "-"
	var mb []byte
	if cc != "REJECT" && cc != "PANIC" {
		m = guard(func() string {
			b, err := v.MarshalJSON()
			if err == nil {
				mb = b
				return common.Hex(string(b))
			}
			return "ERR"
		})
	}
	vb := 0
	if valid {
		vb = 1
	}
	e.out.Emit(fmt.Sprintf("DEC %s %s", common.Hex(string(doc)), class),
		fmt.Sprintf("cue=%s std=%s valid=%d dec=%s blt=%s nfc=%s val=%s m=%s", cc, std, vb, dc, bl, nt, val, m))
	if mb != nil && !e.noExtra {
		e.enc(mb, "remarshal", cc, v)
	}
}

func (e *emitter) enc(mb []byte, class, truth string, v cue.Value) {
	w := guard(func() string { return walkCanon(v) })
	std := stdCanon(mb)
	rt := guard(func() string { c, _ := cueCanon(mb); return c })
	bl := "-"
	// a NaN number (exponent text beyond int32, known finding) makes FillPath panic
	// in adt.insertValueConjunct: do not feed it to the builtin
	if len(mb) < 4000 && !strings.Contains(w, "#N") {
		bl = guard(func() string {
			if s, ok := builtinMarshal(v); ok {
				return sameOr(string(mb), s)
			}
			return "diff"
		})
		if bl == "PANIC" {
			bl = "diff"
		}
	}
	e.out.Emit(fmt.Sprintf("ENC %s %s %s", common.Hex(string(mb)), class, truth),
		fmt.Sprintf("walk=%s std=%s rt=%s blt=%s nfc=%s", w, std, rt, bl, nfcTable(mb)))
}

func (e *emitter) str(lit string) {
	c := "err"
	if s, err := literal.Unquote(lit); err == nil {
		c = "ok:" + common.Hex(s)
	}
	j := "err"
	var s string
	if stdjson.Valid([]byte(lit)) && len(lit) > 1 && lit[0] == '"' && lit[len(lit)-1] == '"' && utf8.ValidString(lit) {
		if err := stdjson.Unmarshal([]byte(lit), &s); err == nil {
			j = "ok:" + common.Hex(s)
		}
	}
	e.out.Emit("STR "+common.Hex(lit), fmt.Sprintf("cue=%s json=%s", c, j))
}

func apdCanon(isInt bool, d *apd.Decimal) string {
	if d.Form != apd.Finite {
		return "nan"
	}
	return canonNum(isInt, d.Negative, d.Coeff.MathBigInt(), int64(d.Exponent))
}

func (e *emitter) num(text string) {
	var info literal.NumInfo
	a := "err"
	if err := literal.ParseNum(text, &info); err == nil {
		var d apd.Decimal
		base := 10
		switch {
		case strings.HasPrefix(strings.TrimLeft(text, "+-"), "0x"), strings.HasPrefix(strings.TrimLeft(text, "+-"), "0X"):
			base = 16
		case strings.HasPrefix(strings.TrimLeft(text, "+-"), "0b"):
			base = 2
		case strings.HasPrefix(strings.TrimLeft(text, "+-"), "0o"):
			base = 8
		}
		isInt := 0
		if info.IsInt() {
			isInt = 1
		}
		if info.Multiplier() != 0 {
			a = "other"
		} else if base != 10 {
			a = fmt.Sprintf("ok:%d:%d:-", base, isInt)
		} else if err := info.Decimal(&d); err != nil {
			a = "err"
		} else {
			a = fmt.Sprintf("ok:10:%d:%s", isInt, apdCanon(info.IsInt(), &d))
		}
	} else if m := info.Multiplier(); m != 0 {
		a = "other"
	}
	// the text as a CUE expression: optional unary minus + literal
	rd := "skip"
	if !strings.ContainsAny(text, " \t\r\n") && isPlainNumberExpr(text) {
		rd = "none"
		v := ctx.CompileString(text)
		if v.Err() == nil && (v.Kind() == cue.IntKind || v.Kind() == cue.FloatKind) {
			var mnt big.Int
			ex, err := v.MantExp(&mnt)
			if err == nil {
				rd = canonNum(v.Kind() == cue.IntKind, mnt.Sign() < 0, &mnt, int64(ex))
			} else if err == cue.ErrInfinite {
				rd = "nan"
			}
		}
	}
	e.out.Emit("NUM "+common.Hex(text), fmt.Sprintf("%s rd=%s", a, rd))
}

// only texts that are [-] followed by one decimal number literal without multiplier are compared for rd
func isPlainNumberExpr(t string) bool {
	t = strings.TrimPrefix(t, "-")
	if t == "" || !(t[0] == '.' || (t[0] >= '0' && t[0] <= '9')) || strings.HasPrefix(t, "0x") || strings.HasPrefix(t, "0X") || strings.HasPrefix(t, "0b") || strings.HasPrefix(t, "0o") {
		return false
	}
	for _, c := range t {
		switch {
		case c >= '0' && c <= '9', c == '.', c == 'e', c == 'E', c == '+', c == '-', c == '_':
		default:
			return false
		}
	}
	// "1-2", "1+2" are binary expressions
	for i := 1; i < len(t); i++ {
		if (t[i] == '+' || t[i] == '-') && t[i-1] != 'e' && t[i-1] != 'E' {
			return false
		}
	}
	return true
}

func (e *emitter) fmtG(neg bool, coeff *big.Int, exp int32) {
	var d apd.Decimal
	d.Coeff.SetMathBigInt(coeff)
	d.Exponent = exp
	d.Negative = neg
	nb := 0
	if neg {
		nb = 1
	}
	e.out.Emit(fmt.Sprintf("FMT %d %s %d", nb, coeff.String(), exp), common.Hex(d.Text('G')))
}

func (e *emitter) esc(s string) {
	b, err := internaljson.Marshal(s)
	r := "ERR"
	if err == nil {
		r = common.Hex(string(b))
	}
	e.out.Emit("ESC "+common.Hex(s), r)
}

// ---------------------------------------------------------- generators ----

var runePool = []rune{0, 1, 7, 8, 9, 10, 12, 13, 0x1b, 0x1f, ' ', '!', '"', '#', '$', '\'', '(', ')', '/', '0', '<', '>', '&', 'A', '\\', '_', 'a', 'n', 'u', '{', '}', 0x7f,
	0x80, 0x85, 0xa0, 0xe9, 0x7ff, 0x800, 0x2027, 0x2028, 0x2029, 0x202a, 0xd7ff, 0xe000, 0xfdd0, 0xfeff, 0xfffd, 0xfffe, 0xffff,
	0x10000, 0x1f600, 0x10ffff}

func genRune(r *common.Rng, allowBOM bool) rune {
	for {
		var c rune
		switch r.Intn(10) {
		case 0, 1, 2:
			c = common.Pick(r, runePool)
		case 3, 4, 5, 6:
			c = rune(0x20 + r.Intn(0x5f))
		case 7:
			c = rune(r.Intn(0x800))
		case 8:
			c = rune(r.Intn(0x10000))
		default:
			c = rune(r.Intn(0x110000))
		}
		if c >= 0xd800 && c <= 0xdfff {
			continue
		}
		if c == 0xfeff && !allowBOM {
			continue
		}
		return c
	}
}

func genString(r *common.Rng, allowBOM bool) string {
	n := 0
	switch r.Intn(8) {
	case 0:
		n = 0
	case 1, 2, 3:
		n = 1 + r.Intn(4)
	case 4, 5, 6:
		n = 4 + r.Intn(12)
	default:
		n = 10 + r.Intn(60)
	}
	var b strings.Builder
	for i := 0; i < n; i++ {
		b.WriteRune(genRune(r, allowBOM))
	}
	return b.String()
}

var hexDigitsLower = "0123456789abcdef"
var hexDigitsMixed = "0123456789abcdefABCDEF"

func u4(r *common.Rng, c rune) string {
	s := fmt.Sprintf("%04x", c)
	b := []byte(s)
	for i := range b {
		if r.Bool() && b[i] >= 'a' {
			b[i] -= 32
		}
	}
	return "\\u" + string(b)
}

// JSON spelling of a string value: every rune either raw (if allowed) or escaped in one of its forms
func spellString(r *common.Rng, s string, style int) string {
	var b strings.Builder
	b.WriteByte('"')
	for _, c := range s {
		esc := false
		switch {
		case c < 0x20 || c == '"' || c == '\\':
			esc = true
		case style == 0:
			esc = false
		case style == 1:
			esc = r.Chance(1, 4)
		default:
			esc = true
		}
		if !esc {
			b.WriteRune(c)
			continue
		}
		short := map[rune]string{'"': `\"`, '\\': `\\`, '/': `\/`, 8: `\b`, 12: `\f`, 10: `\n`, 13: `\r`, 9: `\t`}
		if sh, ok := short[c]; ok && r.Chance(3, 4) {
			b.WriteString(sh)
			continue
		}
		if c >= 0x10000 {
			c -= 0x10000
			b.WriteString(u4(r, 0xd800+(c>>10)))
			b.WriteString(u4(r, 0xdc00+(c&0x3ff)))
			continue
		}
		b.WriteString(u4(r, c))
	}
	b.WriteByte('"')
	return b.String()
}

func digits(r *common.Rng, n int) string {
	b := make([]byte, n)
	for i := range b {
		b[i] = byte('0' + r.Intn(10))
	}
	return string(b)
}

// a JSON number text from the full RFC 8259 grammar; exponent magnitude bounded by maxExp
func genNumberText(r *common.Rng, maxExp int) string {
	var b strings.Builder
	if r.Chance(1, 3) {
		b.WriteByte('-')
	}
	switch r.Intn(6) {
	case 0:
		b.WriteByte('0')
	case 1, 2, 3:
		b.WriteByte(byte('1' + r.Intn(9)))
		b.WriteString(digits(r, r.Intn(6)))
	case 4:
		b.WriteByte(byte('1' + r.Intn(9)))
		b.WriteString(digits(r, 15+r.Intn(30)))
	default:
		b.WriteByte(byte('1' + r.Intn(9)))
		b.WriteString(digits(r, r.Intn(3)))
	}
	if r.Chance(2, 5) {
		b.WriteByte('.')
		switch r.Intn(4) {
		case 0:
			b.WriteString(digits(r, 1))
		case 1, 2:
			b.WriteString(digits(r, 1+r.Intn(6)))
		default:
			b.WriteString(digits(r, 20+r.Intn(30)))
		}
	}
	if r.Chance(2, 5) {
		b.WriteByte("eE"[r.Intn(2)])
		switch r.Intn(3) {
		case 0:
			b.WriteByte('+')
		case 1:
			b.WriteByte('-')
		}
		if r.Chance(1, 5) {
			b.WriteString("00")
		}
		switch r.Intn(5) {
		case 0:
			b.WriteString("0")
		case 1, 2:
			b.WriteString(strconv.Itoa(r.Intn(40)))
		case 3:
			b.WriteString(strconv.Itoa(300 + r.Intn(200)))
		default:
			b.WriteString(strconv.Itoa(r.Intn(maxExp)))
		}
	}
	return b.String()
}

var wsChars = []string{" ", "\t", "\n", "\r", "\r\n", "  ", " \n\t"}

type docGen struct {
	r       *common.Rng
	ws      int  // 0 none, 1 some, 2 heavy
	dup     bool // may repeat a member name
	bom     bool // strings may contain raw U+FEFF
	lone    bool // strings may contain unpaired surrogate escapes
	maxExp  int
	strSty  int
	nodes   int
	maxNode int
}

func (g *docGen) w(b *strings.Builder) {
	switch g.ws {
	case 1:
		if g.r.Chance(1, 4) {
			b.WriteString(common.Pick(g.r, wsChars))
		}
	case 2:
		for g.r.Chance(2, 3) {
			b.WriteString(common.Pick(g.r, wsChars))
		}
	}
}

func (g *docGen) str(b *strings.Builder) {
	s := genString(g.r, g.bom)
	t := spellString(g.r, s, g.strSty)
	if g.lone && g.r.Chance(1, 3) {
		// insert an unpaired surrogate escape somewhere (at a rune boundary, not inside an escape)
		lone := u4(g.r, rune(0xd800+g.r.Intn(0x800)))
		t = t[:len(t)-1] + lone + `"`
		if g.r.Bool() {
			t = `"` + lone + t[1:]
		}
	}
	b.WriteString(t)
}

func (g *docGen) value(b *strings.Builder, depth int) {
	g.nodes++
	k := g.r.Intn(10)
	if depth <= 0 || g.nodes > g.maxNode {
		k = g.r.Intn(6)
	}
	switch k {
	case 0:
		b.WriteString("null")
	case 1:
		b.WriteString(common.Pick(g.r, []string{"true", "false"}))
	case 2, 3:
		b.WriteString(genNumberText(g.r, g.maxExp))
	case 4, 5:
		g.str(b)
	case 6, 7:
		b.WriteByte('[')
		g.w(b)
		n := g.r.Intn(5)
		for i := 0; i < n; i++ {
			if i > 0 {
				b.WriteByte(',')
				g.w(b)
			}
			g.value(b, depth-1)
			g.w(b)
		}
		b.WriteByte(']')
	default:
		b.WriteByte('{')
		g.w(b)
		n := g.r.Intn(5)
		var keys []string
		for i := 0; i < n; i++ {
			if i > 0 {
				b.WriteByte(',')
				g.w(b)
			}
			var key string
			if g.dup && len(keys) > 0 && g.r.Chance(1, 2) {
				key = common.Pick(g.r, keys)
			} else {
				for tries := 0; ; tries++ {
					var kb strings.Builder
					if g.r.Chance(1, 2) {
						kb.WriteString(spellString(g.r, common.Pick(g.r, keyPool), g.strSty))
					} else {
						save := g.lone
						g.lone = false
						g.str(&kb)
						g.lone = save
					}
					key = kb.String()
					fresh := true
					for _, o := range keys {
						if sameKey(o, key) {
							fresh = false
						}
					}
					if fresh || tries > 20 {
						break
					}
				}
			}
			keys = append(keys, key)
			b.WriteString(key)
			g.w(b)
			b.WriteByte(':')
			g.w(b)
			g.value(b, depth-1)
			g.w(b)
		}
		b.WriteByte('}')
	}
}

var keyPool = []string{"", "a", "b", "c", "_", "_a", "#a", "_#a", "__x", "a-b", "a b", "0", "1a", "if", "for", "let", "in", "null", "true", "false", "_|_", "é", "a.b", "\"", "\\", "x/y", "😀", "$", "$a", "a$", "A", "Z9", "__", "#", "import", "package", "div", "mod", "quo", "rem"}

func sameKey(a, b string) bool {
	var x, y string
	if stdjson.Unmarshal([]byte(a), &x) != nil || stdjson.Unmarshal([]byte(b), &y) != nil {
		return a == b
	}
	return x == y
}

func (g *docGen) doc(depth int) string {
	var b strings.Builder
	g.nodes = 0
	g.w(&b)
	g.value(&b, depth)
	g.w(&b)
	return b.String()
}

// ---- mutations: invalid and borderline documents
var mutInserts = []string{",", ":", "]", "}", "[", "{", "\"", "\\", "0", "1", ".", "e", "-", "+", " ", "\x00", "\x01", "\t", "\n", "\x7f", "\xff", "\xc0\x80", "\xed\xa0\x80", "\xef\xbb\xbf", "'", "/", "//", "/*", "_", "x", "u", "\\u12", "\\x41", "\\a", "\\v", "\\'", "\\(", "tru", "nul", "NaN", "Infinity", "0x1", "1K", "\f", "\v", "\u00a0", "\u2028", "#", "\\U0001F600", "\\ud800", "\\udc00"}

func mutate(r *common.Rng, d string) string {
	b := []byte(d)
	if len(b) == 0 {
		return common.Pick(r, mutInserts)
	}
	switch r.Intn(7) {
	case 0: // delete a byte
		i := r.Intn(len(b))
		return string(b[:i]) + string(b[i+1:])
	case 1: // insert a token
		i := r.Intn(len(b) + 1)
		return string(b[:i]) + common.Pick(r, mutInserts) + string(b[i:])
	case 2: // replace a byte
		i := r.Intn(len(b))
		return string(b[:i]) + common.Pick(r, mutInserts) + string(b[i+1:])
	case 3: // truncate
		return string(b[:r.Intn(len(b))])
	case 4: // duplicate a byte
		i := r.Intn(len(b))
		return string(b[:i+1]) + string(b[i:])
	case 5: // swap two adjacent bytes
		if len(b) < 2 {
			return string(b) + string(b)
		}
		i := r.Intn(len(b) - 1)
		b[i], b[i+1] = b[i+1], b[i]
		return string(b)
	default: // append
		return string(b) + common.Pick(r, mutInserts)
	}
}

// ---- data generator: concrete CUE values with their ground truth
type truthNum struct {
	isInt bool
	neg   bool
	coeff *big.Int
	exp   int64
}

func genCueNumber(r *common.Rng) (ast.Expr, string) {
	neg := r.Chance(1, 3)
	var lit string
	var tn truthNum
	tn.neg = neg
	switch r.Intn(8) {
	case 0, 1: // integers incl. big ones
		n := 1 + r.Intn(4)
		if r.Chance(1, 4) {
			n = 20 + r.Intn(40)
		}
		ds := digits(r, n)
		ds = strings.TrimLeft(ds, "0")
		if ds == "" {
			ds = "0"
		}
		lit = ds
		tn.isInt = true
		tn.coeff, _ = new(big.Int).SetString(ds, 10)
	case 2: // integer with separators / other bases / multipliers
		switch r.Intn(4) {
		case 0:
			lit = "1_000_000"
			tn.coeff = big.NewInt(1000000)
		case 1:
			x := r.Intn(1 << 30)
			lit = fmt.Sprintf("0x%X", x)
			tn.coeff = big.NewInt(int64(x))
		case 2:
			x := r.Intn(1 << 20)
			lit = fmt.Sprintf("0b%b", x)
			tn.coeff = big.NewInt(int64(x))
		default:
			x := 1 + r.Intn(999)
			lit = fmt.Sprintf("%dK", x)
			tn.coeff = big.NewInt(int64(x) * 1000)
		}
		tn.isInt = true
	case 3, 4, 5: // decimal floats
		ip := strconv.Itoa(r.Intn(100000))
		fp := digits(r, 1+r.Intn(8))
		if r.Chance(1, 4) {
			fp = digits(r, 20+r.Intn(30))
		}
		lit = ip + "." + fp
		tn.coeff, _ = new(big.Int).SetString(ip+fp, 10)
		tn.exp = -int64(len(fp))
		if r.Chance(1, 3) {
			e := r.Intn(600) - 300
			lit += "e" + strconv.Itoa(e)
			tn.exp += int64(e)
		}
	case 6: // exponent forms
		ip := strconv.Itoa(1 + r.Intn(999))
		e := r.Intn(9000) - 4500
		if r.Chance(1, 3) {
			e = r.Intn(40) - 20
		}
		lit = ip + "e" + strconv.Itoa(e)
		if r.Bool() {
			lit = ip + "E+" + strconv.Itoa(abs(e))
			e = abs(e)
		}
		tn.coeff, _ = new(big.Int).SetString(ip, 10)
		tn.exp = int64(e)
	default: // .5 style and zero forms
		switch r.Intn(4) {
		case 0:
			fp := digits(r, 1+r.Intn(5))
			lit = "." + fp
			tn.coeff, _ = new(big.Int).SetString(fp, 10)
			tn.exp = -int64(len(fp))
		case 1:
			lit = "0.0"
			tn.coeff = big.NewInt(0)
			tn.exp = -1
		case 2:
			n := 1 + r.Intn(12)
			lit = "0." + strings.Repeat("0", n)
			tn.coeff = big.NewInt(0)
			tn.exp = -int64(n)
		default:
			lit = "0e0"
			tn.coeff = big.NewInt(0)
		}
	}
	kind := token.FLOAT
	if tn.isInt {
		kind = token.INT
	}
	var e ast.Expr = &ast.BasicLit{Kind: kind, Value: lit}
	if neg {
		e = &ast.UnaryExpr{Op: token.SUB, X: e}
	}
	return e, canonNum(tn.isInt, tn.neg, tn.coeff, tn.exp)
}

func abs(x int) int {
	if x < 0 {
		return -x
	}
	return x
}

func cueStringLit(r *common.Rng, s string) ast.Expr {
	if strings.HasPrefix(s, `""`) {
		// literal.Form.WithOptionalHashes mis-quotes these (C09-autohash-leading-quotes): plain quoting only
		return ast.NewString(s)
	}
	switch r.Intn(4) {
	case 0:
		return &ast.BasicLit{Kind: token.STRING, Value: literal.String.WithOptionalTabIndent(1).Quote(s)}
	case 1:
		return &ast.BasicLit{Kind: token.STRING, Value: literal.String.WithOptionalHashes().Quote(s)}
	default:
		return ast.NewString(s)
	}
}

type valGen struct {
	r     *common.Rng
	nodes int
	nfc   int // labels changed by NFC normalisation
}

func (g *valGen) value(depth int) (ast.Expr, string) {
	g.nodes++
	k := g.r.Intn(10)
	if depth <= 0 || g.nodes > 60 {
		k = g.r.Intn(6)
	}
	switch k {
	case 0:
		return ast.NewNull(), "n"
	case 1:
		if g.r.Bool() {
			return ast.NewBool(true), "t"
		}
		return ast.NewBool(false), "f"
	case 2, 3:
		return genCueNumber(g.r)
	case 4, 5:
		s := genString(g.r, true)
		return cueStringLit(g.r, s), canonStr("s", s)
	case 6, 7:
		n := g.r.Intn(5)
		var elts []ast.Expr
		var parts []string
		for i := 0; i < n; i++ {
			e, t := g.value(depth - 1)
			elts = append(elts, e)
			parts = append(parts, t)
		}
		return ast.NewList(elts...), "[" + strings.Join(parts, ",") + "]"
	default:
		n := g.r.Intn(6)
		var fields []interface{}
		var parts []string
		seen := map[string]bool{}
		for i := 0; i < n; i++ {
			var key string
			if g.r.Chance(2, 3) {
				key = common.Pick(g.r, keyPool)
			} else {
				key = genString(g.r, true)
			}
			if seen[key] {
				continue
			}
			seen[key] = true
			e, t := g.value(depth - 1)
			var lab ast.Label = ast.NewString(key)
			if ast.IsValidIdent(key) && !strings.HasPrefix(key, "_") && !strings.HasPrefix(key, "#") && g.r.Bool() {
				if _, err := strconv.Unquote(`"` + key + `"`); err == nil && token.Lookup(key) == token.IDENT {
					lab = ast.NewIdent(key)
				}
			}
			fields = append(fields, &ast.Field{Label: lab, Value: e})
			if _, isIdent := lab.(*ast.Ident); !isIdent {
				// string labels are NFC-normalised by the compiler (finding F13): the truth follows
				if nk := norm.NFC.String(key); nk != key {
					if seen[nk] {
						fields = fields[:len(fields)-1]
						continue
					}
					seen[nk] = true
					key = nk
					g.nfc++
				}
			}
			parts = append(parts, canonStr("k", key)+":"+t)
		}
		return ast.NewStruct(fields...), "{" + strings.Join(parts, ",") + "}"
	}
}

// --------------------------------------------------------------- corpus ----

func fixedDocs() [][2]string {
	deep := func(o, c string, n int, mid string) string {
		return strings.Repeat(o, n) + mid + strings.Repeat(c, n)
	}
	docs := [][2]string{
		// known finding witnesses
		{`"\ud800"`, "kf-lone"}, {`"\udc00"`, "kf-lone"}, {`"\ud800A"`, "kf-lone"}, {`["\ud800\ud800\udc00"]`, "kf-lone"},
		{`{"a":"x\udfffy"}`, "kf-lone"}, {`{"\ud800":1}`, "kf-lone"},
		{"\"\ufeff\"", "kf-bom"}, {"[\"a\ufeffb\"]", "kf-bom"}, {"{\"\ufeff\":1}", "kf-bom"},
		{`"\ufeff"`, "kf-bom-esc"}, {`{"a":["x\uFEFFy"]}`, "kf-bom-esc"},
		{`1e100001`, "kf-exp"}, {`5e-100001`, "kf-exp"}, {`10e100000`, "kf-exp"}, {`0.1e-100000`, "kf-exp"}, {`[1e2147483648]`, "kf-exp"},
		{`1e99999999999999999999`, "kf-exp"}, {`-1e-2147483649`, "kf-exp"}, {`0e100001`, "kf-exp"}, {`{"a":1E+100001}`, "kf-exp"},
		{`{"a":1,"a":2}`, "kf-dup"}, {`{"a":1,"a":1}`, "kf-dup"}, {`{"a":{"b":1},"a":{"c":2}}`, "kf-dup"}, {`{"a":1,"a":1.0}`, "kf-dup"},
		{`{"a":1.0,"a":1.00}`, "kf-dup"}, {`{"a":[1],"a":[1,2]}`, "kf-dup"}, {`{"a":[1,{"x":1}],"a":[1,{"y":2}]}`, "kf-dup"},
		{`{"a":{"x":1},"b":2,"a":{"y":2}}`, "kf-dup"}, {`{"b":1,"a":2,"b":1}`, "kf-dup"}, {`[{"a":null,"a":null}]`, "kf-dup"},
		{`{"a":"x","a":"y"}`, "kf-dup"}, {`{"":1,"":1}`, "kf-dup"}, {`{"a":true,"a":false}`, "kf-dup"}, {`{"a":{},"a":[]}`, "kf-dup"},
		{`"\"\""`, "kf-qq"}, {`"\"\"\""`, "kf-qq"}, {`["\"\"x"]`, "kf-qq"}, {`{"a":"\"\"\"#"}`, "kf-qq"}, {`"\u0022\u0022"`, "kf-qq"},
		{`{"e\u0301":1}`, "kf-nfc"}, {`{"\uf9a0.":1}`, "kf-nfc"}, {`{"\u0387 ":{"a\u030a-":[1]}}`, "kf-nfc"}, {`{"\u212b ":1}`, "kf-nfc"},
		{`{"\uf9a0":1}`, "fixed"}, {`{"\"\"x":1}`, "kf-qq"}, {`"x\"\"\""`, "fixed"}, {`"\"\"\"\n"`, "fixed"}, {`"\"\"\u0001"`, "fixed"},
		// limits inside apd's range
		{`1e100000`, "fixed"}, {`1e-100000`, "fixed"}, {`1.5e99999`, "fixed"}, {`12345e99996`, "fixed"}, {`0.00001e-99995`, "fixed"},
		// every production
		{`null`, "fixed"}, {`true`, "fixed"}, {`false`, "fixed"}, {`0`, "fixed"}, {`-0`, "fixed"}, {`-0.0`, "fixed"}, {`0e0`, "fixed"}, {`-0e-0`, "fixed"}, {`0E+0`, "fixed"},
		{`1e400`, "fixed"}, {`1E-400`, "fixed"}, {`1.50`, "fixed"}, {`100`, "fixed"}, {`1e2`, "fixed"}, {`1E+2`, "fixed"}, {`1e0002`, "fixed"}, {`123456789012345678901234567890123456789012345678901234567890`, "fixed"},
		{`0.000000000000000000000000000000000000000000000000001`, "fixed"}, {`3.141592653589793238462643383279502884197169399375105820974944592307816406286`, "fixed"},
		{`""`, "fixed"}, {`"\"\\\/\b\f\n\r\t"`, "fixed"}, {`"\u0000\u001f\u007f\u0080\u00ff\u0100\uffff"`, "fixed"}, {`"\ud83d\ude00"`, "fixed"}, {`"\uD83D\uDE00"`, "fixed"},
		{`"\udbff\udfff"`, "fixed"}, {`"\ud800\udc00"`, "fixed"}, {"\"\u2028\u2029\"", "fixed"}, {`"\u2028\u2029"`, "fixed"}, {"\"\x7f\"", "fixed"}, {"\"\ufffd\"", "fixed"}, {"\"\uffff\ufffe\"", "fixed"},
		{`"<>&"`, "fixed"}, {`"\u003c"`, "fixed"}, {`"\\("`, "fixed"}, {`"a\\(b)"`, "fixed"}, {`"\\u0041"`, "fixed"}, {`"'"`, "fixed"}, {`"#"`, "fixed"}, {`"\"\"\""`, "fixed"}, {`"#\"#"`, "fixed"},
		{`"line1\nline2 long enough"`, "fixed"}, {`"trailing newline long\n"`, "fixed"}, {`"a\rb long enough xx"`, "fixed"}, {`"\n"`, "fixed"}, {`"\n\n\n\n\n\n"`, "fixed"},
		{`"\"\"\"\n\"\"\" ###"`, "fixed"}, {`" \n \t\n  x"`, "fixed"}, {`"\t\n\tindented\n\t"`, "fixed"}, {`"x\\\ny long long long"`, "fixed"},
		{`[]`, "fixed"}, {`{}`, "fixed"}, {`[[],{}]`, "fixed"}, {`{"":{}}`, "fixed"}, {`{"":""}`, "fixed"}, {`[null,true,false,0,"",[],{}]`, "fixed"},
		{" \t\r\n[ \t\r\n1 \t\r\n, \t\r\n2 \t\r\n] \t\r\n", "fixed"}, {"{ \"a\" : 1 , \"b\" : [ ] }", "fixed"}, {"\n{\n\t\"a\"\n:\n1\n}\n", "fixed"},
		{`{"_a":1,"#b":2,"a-b":3,"_":4,"if":5,"null":6,"true":7,"a b":8,"1":9,"ä":10,"__x":11,"_#y":12,"$":13}`, "fixed"},
		{`{"z":1,"a":2,"m":3,"_":4,"A":5,"0":6}`, "fixed"},
		{deep("[", "]", 200, ""), "fixed"}, {deep(`{"a":`, "}", 200, "1"), "fixed"}, {deep(`[{"k":`, "}]", 100, `"v"`), "fixed"},
		// invalid documents
		{``, "bad"}, {` `, "bad"}, {`[1,]`, "bad"}, {`[,1]`, "bad"}, {`{"a":1,}`, "bad"}, {`{,}`, "bad"}, {`[1 2]`, "bad"}, {`{"a" 1}`, "bad"}, {`{"a":}`, "bad"}, {`{a:1}`, "bad"}, {`{'a':1}`, "bad"}, {`{1:1}`, "bad"},
		{`'a'`, "bad"}, {`tru`, "bad"}, {`nul`, "bad"}, {`True`, "bad"}, {`NULL`, "bad"}, {`NaN`, "bad"}, {`Infinity`, "bad"}, {`-Infinity`, "bad"}, {`1 2`, "bad"}, {`[]]`, "bad"}, {`[[]`, "bad"}, {`{}}`, "bad"}, {`]`, "bad"},
		{`01`, "bad"}, {`-01`, "bad"}, {`00`, "bad"}, {`1.`, "bad"}, {`.5`, "bad"}, {`-.5`, "bad"}, {`+1`, "bad"}, {`1e`, "bad"}, {`1e+`, "bad"}, {`1.e1`, "bad"}, {`1.5.5`, "bad"}, {`1e5e5`, "bad"}, {`-`, "bad"}, {`--1`, "bad"}, {`1_000`, "bad"}, {`0x10`, "bad"}, {`0b1`, "bad"}, {`0o7`, "bad"}, {`1K`, "bad"}, {`1Ki`, "bad"}, {`1e1.5`, "bad"}, {`0e`, "bad"},
		{`"`, "bad"}, {`"a`, "bad"}, {`"\"`, "bad"}, {`"\`, "bad"}, {`"\a"`, "bad"}, {`"\v"`, "bad"}, {`"\x41"`, "bad"}, {`"\U0001F600"`, "bad"}, {`"\(x)"`, "bad"}, {`"\'"`, "bad"}, {`"\0"`, "bad"}, {`"\u12"`, "bad"}, {`"\u12g4"`, "bad"}, {`"\u{41}"`, "bad"}, {`"\ "`, "bad"},
		{"\"a\tb\"", "bad"}, {"\"a\rb\"", "bad"}, {"\"a\nb\"", "bad"}, {"\"a\x00b\"", "bad"}, {"\"a\x1fb\"", "bad"}, {"\"\\\n\"", "bad"}, {`"""`, "bad"}, {`"""x"""`, "bad"}, {`#"x"#`, "bad"},
		{"\ufeff1", "bad"}, {"\ufeff{}", "bad"}, {"\f1", "bad"}, {"\v1", "bad"}, {"\u00a01", "bad"}, {"1//c", "bad"}, {"1/*c*/", "bad"}, {"//c\n1", "bad"}, {"[1,2,...]", "bad"}, {"{a: 1}", "bad"}, {"1+1", "bad"}, {"(1)", "bad"}, {"[1,2][0]", "bad"}, {`"a"+"b"`, "bad"}, {`{"a":1}.a`, "bad"}, {`"\(1)"`, "bad"}, {`{"a":1,"b":a}`, "bad"}, {`_`, "bad"}, {`_|_`, "bad"}, {`int`, "bad"}, {`{"a"?:1}`, "bad"}, {`{"a":1} & {}`, "bad"}, {`[1]|[2]`, "bad"}, {`*1`, "bad"}, {`{"a":1,"b"::2}`, "bad"},
		// invalid UTF-8 (json.Valid accepts, RFC 8259 section 8.1 does not)
		{"\"\xff\"", "bad-utf8"}, {"\"\xed\xa0\x80\"", "bad-utf8"}, {"\"\xc0\x80\"", "bad-utf8"}, {"\"a\x80\"", "bad-utf8"}, {"\"\xf4\x90\x80\x80\"", "bad-utf8"}, {"{\"\xe2\x82\":1}", "bad-utf8"},
	}
	return docs
}

func readCorpus(path string) [][2]string {
	b, err := os.ReadFile(path)
	if err != nil {
		return nil
	}
	var out [][2]string
	for _, ln := range strings.Split(string(b), "\n") {
		ln = strings.TrimSpace(ln)
		if ln == "" || strings.HasPrefix(ln, "//") {
			continue
		}
		f := strings.Fields(ln)
		cl := "corpus"
		if len(f) > 1 {
			cl = f[1]
		}
		out = append(out, [2]string{common.Unhex(f[0]), cl})
	}
	return out
}

// ------------------------------------------------------------------ main ----

func main() {
	args := common.Args(os.Args[1:])
	seed := uint64(common.Atoi(args["--seed"], 1))
	outDir := args["--out"]
	if outDir == "" {
		outDir = "."
	}
	initBuiltins()
	out := common.NewOut(outDir)
	defer out.Close()
	em := &emitter{out: out}

	if f := args["--replay-cases"]; f != "" {
		b, err := os.ReadFile(f)
		if err != nil {
			panic(err)
		}
		em.noExtra = args["--extra"] == ""
		for _, ln := range strings.Split(string(b), "\n") {
			fs := strings.Fields(ln)
			if len(fs) < 2 {
				continue
			}
			switch fs[0] {
			case "DEC":
				cl := "replay"
				if len(fs) > 2 {
					cl = fs[2]
				}
				em.dec([]byte(common.Unhex(fs[1])), cl)
			case "ENC":
				// re-marshal cannot be replayed from bytes alone: decode and marshal again
				doc := []byte(common.Unhex(fs[1]))
				if v, ok := cueDecode(doc); ok {
					if mb, err := v.MarshalJSON(); err == nil {
						em.enc(mb, "replay", walkCanon(v), v)
					}
				}
			case "STR":
				em.str(common.Unhex(fs[1]))
			case "NUM":
				em.num(common.Unhex(fs[1]))
			case "FMT":
				c, _ := new(big.Int).SetString(fs[2], 10)
				e, _ := strconv.Atoi(fs[3])
				em.fmtG(fs[1] == "1", c, int32(e))
			case "ESC":
				em.esc(common.Unhex(fs[1]))
			}
		}
		return
	}

	nDoc := common.Atoi(args["--ndoc"], 2000)
	nMut := common.Atoi(args["--nmut"], 2000)
	nVal := common.Atoi(args["--nval"], 1500)
	nStr := common.Atoi(args["--nstr"], 2000)
	nNum := common.Atoi(args["--nnum"], 2000)
	nFmt := common.Atoi(args["--nfmt"], 1500)
	nEsc := common.Atoi(args["--nesc"], 1500)
	rng := common.NewRng(seed)

	// 1. corpus + fixed documents (seed independent)
	for _, d := range readCorpus(args["--corpus"]) {
		em.dec([]byte(d[0]), d[1])
	}
	fixed := fixedDocs()
	for _, d := range fixed {
		em.dec([]byte(d[0]), d[1])
	}

	// 2. grammar documents
	var pool []string
	for i := 0; i < nDoc; i++ {
		r := rng.Fork()
		g := &docGen{r: r, ws: r.Intn(3), maxExp: 5000, strSty: r.Intn(3), maxNode: 40 + r.Intn(80)}
		class := "gen"
		switch r.Intn(20) {
		case 0:
			g.dup = true
			class = "gen-dup"
		case 1:
			g.bom = true
			class = "gen-bom"
		case 2:
			g.lone = true
			class = "gen-lone"
		case 3:
			g.maxExp = 99000
			class = "gen-bigexp"
		}
		d := g.doc(1 + r.Intn(6))
		if len(pool) < 4000 && class == "gen" {
			pool = append(pool, d)
		}
		em.dec([]byte(d), class)
	}

	// 3. mutated documents (mostly invalid)
	for i := 0; i < nMut && len(pool) > 0; i++ {
		r := rng.Fork()
		var d string
		if r.Chance(1, 5) {
			d = common.Pick(r, fixed)[0]
		} else {
			d = common.Pick(r, pool)
		}
		if len(d) > 300 {
			continue
		}
		m := mutate(r, d)
		if r.Chance(1, 4) {
			m = mutate(r, m)
		}
		em.dec([]byte(m), "mut")
	}

	// 4. concrete values from the data generator
	for i := 0; i < nVal; i++ {
		r := rng.Fork()
		g := &valGen{r: r}
		e, truth := g.value(1 + r.Intn(5))
		v := ctx.BuildExpr(e)
		var mb []byte
		var err error
		if guard(func() string { mb, err = v.MarshalJSON(); return "" }) == "PANIC" {
			err = fmt.Errorf("panic")
		}
		if err != nil {
			out.Emit(fmt.Sprintf("ENC - value %s", truth), "walk=REJECT std=REJECT rt=REJECT blt=-")
			continue
		}
		cl := "value"
		if g.nfc > 0 {
			cl = "value-nfc"
		}
		em.enc(mb, cl, truth, v)
	}

	// 5. string literals: JSON spellings and their neighbours
	for i := 0; i < nStr; i++ {
		r := rng.Fork()
		s := genString(r, true)
		t := spellString(r, s, r.Intn(3))
		switch r.Intn(6) {
		case 0:
			t = mutate(r, t)
		case 1:
			t = t[:len(t)-1] + common.Pick(r, []string{`\a`, `\v`, `\x41`, `\U0001F600`, `\UFFFFFFFF`, `\U00110000`, `\(`, `\'`, `\0`, `\101`, "\\\n", "\\\r\n", `\u12`, `\ud800`, `\udc00`, `\ud800\u0041`, `\ud800\ud800`, "\r", "\t", "\x00", "\xff", `\`, `"`, `#`}) + `"`
		}
		em.str(t)
	}

	// 6. number texts
	for i := 0; i < nNum; i++ {
		r := rng.Fork()
		t := genNumberText(r, 120000)
		switch r.Intn(8) {
		case 0:
			t = mutate(r, t)
		case 1:
			t = common.Pick(r, []string{"0x1F", "0XaB", "0b101", "0o17", "1K", "1Ki", "5M", "1.5G", "1_000", "1__0", "1_", "_1", ".5", "1.", "1.e3", "01", "01.5", "0_1", "00", "0.", "0e", "1e", "1e+", "+1", "+.5", "-", "", "0K", "0.5K", "1e1K", "1E400", "0x", "0b2", "0o8", "1.5e", "1e99999999999", "1e2147483647", "1e2147483648", "1e-2147483648", "1e-2147483649", "1e100000", "1e100001", "9.99e99998", "10e100000", "0.1e-100000", "1\x00", "12a", "1e5x"})
		}
		em.num(t)
	}

	// 7. apd 'G' formatting
	for i := 0; i < nFmt; i++ {
		r := rng.Fork()
		c := new(big.Int)
		switch r.Intn(5) {
		case 0:
			c.SetInt64(0)
		case 1:
			c.SetInt64(int64(r.Intn(10)))
		case 2:
			c.SetInt64(int64(r.Intn(1000000)))
		default:
			c.SetString("1"+digits(r, r.Intn(40)), 10)
		}
		var e int
		switch r.Intn(5) {
		case 0:
			e = 0
		case 1:
			e = -r.Intn(12)
		case 2:
			e = r.Intn(12)
		case 3:
			e = -r.Intn(60)
		default:
			e = r.Intn(6000) - 3000
		}
		em.fmtG(r.Chance(1, 3), c, int32(e))
	}

	// 8. string escaping of arbitrary Go strings (incl. invalid UTF-8)
	for i := 0; i < nEsc; i++ {
		r := rng.Fork()
		s := genString(r, true)
		if r.Chance(1, 3) {
			b := []byte(s)
			for k := 0; k < 1+r.Intn(3); k++ {
				ins := common.Pick(r, []string{"\xff", "\xc0", "\x80", "\xed\xa0\x80", "\xf4\x90\x80\x80", "\xe2\x82", "\xf0\x9f", "\xc0\x80", "\xfe"})
				p := r.Intn(len(b) + 1)
				b = append(b[:p:p], append([]byte(ins), b[p:]...)...)
			}
			s = string(b)
		}
		em.esc(s)
	}
}
