package main

import (
	"bytes"
	stdjson "encoding/json"
	"fmt"
	_ "strings"

	"cuelang.org/go/cue"
	"cuelang.org/go/cue/cuecontext"
	"cuelang.org/go/encoding/json"
)

func main() {
	ctx := cuecontext.New()
	docs := []string{
		"\"\ufeff\"", "\"a\ufeff\"", `"\ufeff"`, `["\ufeffabcdefghijklmn"]`, "\"\ufffd\"", "\"\uffff\ufffe\"", "\"\U0010ffff\"",
		`1e100000`, `1e100001`, `5e100001`, `10e100000`, `1e-100000`, `1e-100001`, `0.1e-100000`, `123e-100001`, `1e2147483647`, `0e100001`, `1.5e99999`,
		`{"a":1,"a":1.0}`, `{"a":1.0,"a":1.00}`, `{"a":1.00,"a":1.0}`, `{"a":[1],"a":[1]}`, `{"a":[1],"a":[1,2]}`, `{"a":null,"a":null}`, `{"a":"x","a":"x"}`, `{"a":"x","a":"y"}`,
		`{"a":{"x":1,"y":2},"a":{"y":2,"x":1}}`, `{"a":{"x":1},"b":2,"a":{"y":2}}`, `{"b":1,"a":2,"b":1}`, `{"a":{"y":2},"a":{"x":1,"y":2}}`, `[{"a":1,"a":1}]`, `{"a":true,"a":false}`,
		`{"z":1,"a":2,"m":3,"_":4,"A":5,"0":6}`,
		`"line1\nline2 long enough"`, `"trailing newline long\n"`, `"a\rb long enough xx"`, `"\n"`, `"\n\n\n\n\n\n"`, `"\"\"\"\n\"\"\" ###"`, `"tab\there\nand there #\""`, `"x\\ny long long long"`, `" \n \t\n  x"`, `"a\u2028b\nlong long long"`, `"\u0085\n long long long"`, `"\u0000\n long long long"`,`"\u007f\u001f\n long long long"`,
	}
	for _, d := range docs {
		show(ctx, d)
	}
}

func show(ctx *cue.Context, d string) {
	lab := d
	if len(lab) > 60 {
		lab = lab[:60] + "..."
	}
	valid := stdjson.Valid([]byte(d))
	expr, err := json.Extract("x.json", []byte(d))
	if err != nil {
		fmt.Printf("%q valid=%v EXTRACT-ERR %.100v\n", lab, valid, err)
		return
	}
	v := ctx.BuildExpr(expr)
	if v.Err() != nil {
		fmt.Printf("%q valid=%v BUILD-ERR %.100v\n", lab, valid, v.Err())
		return
	}
	b, err := v.MarshalJSON()
	if err != nil {
		fmt.Printf("%q valid=%v MARSHAL-ERR %.100v\n", lab, valid, err)
		return
	}
	var x any
	dec := stdjson.NewDecoder(bytes.NewReader([]byte(d)))
	dec.UseNumber()
	dec.Decode(&x)
	ob := string(b)
	if len(ob) > 80 {
		ob = ob[:80] + "..."
	}
	fmt.Printf("%q valid=%v kind=%v marshal=%q std=%.60q\n", lab, valid, v.Kind(), ob, fmt.Sprint(x))
}
