// C17 harness, part 2: generators.
package main

import (
	"fmt"
	"slices"
	"sort"
	"strings"

	"cuelang.org/go/internal/mod/semver"
	"cuelang.org/go/internal/verifharness/common"
)

var (
	hosts    = []string{"a.test", "b.test", "c.test", "d.test"}
	elems    = []string{"px", "py", "pz", "pw"}
	verPool  = []string{"v0.1.0", "v0.2.0", "v0.3.0", "v0.4.0-pre", "v1.0.0", "v1.1.0", "v1.2.0-pre", "v2.0.0", "v2.1.0-pre"}
	v0Pool   = []string{"v0.1.0", "v0.2.0", "v0.3.0", "v0.4.0-pre"}
	stdPkgs  = []string{"strings", "list", "encoding/json"}
	mainBase = "main.test"
)

func uniq(xs []string) []string {
	xs = slices.Clone(xs)
	sort.Strings(xs)
	return slices.Compact(xs)
}

// genUniverse: <= 6 module base paths x <= 3 versions.  Shapes aimed at:
// nested module paths (several lexical providers of one import path), several
// major versions of a base (explicit / implicit / ambiguous defaults),
// unversioned imports in dependencies, packages missing in some versions,
// imports nobody provides, unused / stale / inconsistent entries in module.cue.
func genUniverse(r *common.Rng) *universe {
	u := &universe{mainBase: mainBase, mainMajor: "v0", deps: map[modID][]dep{}, pkgs: map[modID][]string{}, imps: map[pkgID][]string{}}
	singleMajor := r.Chance(2, 5)
	flat := r.Chance(1, 4) // no nested module paths
	nb := 2 + r.Intn(5)
	var bases []string
	for tries := 0; len(bases) < nb && tries < 40; tries++ {
		b := common.Pick(r, hosts[:2+r.Intn(3)])
		if !flat && r.Chance(2, 5) {
			b += "/" + common.Pick(r, elems[:2])
			if r.Chance(1, 4) {
				b += "/" + common.Pick(r, elems[:2])
			}
		}
		if !slices.Contains(bases, b) {
			bases = append(bases, b)
		}
		if len(bases) < nb && r.Chance(1, 30) && !slices.Contains(bases, mainBase+"/px") {
			bases = append(bases, mainBase+"/px") // a module lexically inside the main module
		}
	}
	// versions
	vers := map[string][]string{}
	for _, b := range bases {
		pool := verPool
		if singleMajor {
			pool = v0Pool
		}
		n := 1 + r.Intn(3)
		vs := slices.Clone(pool)
		common.Shuffle(r, vs)
		vs = vs[:n]
		semver.Sort(vs)
		vers[b] = vs
		for _, v := range vs {
			u.mods = append(u.mods, modID{b, v})
		}
	}
	// package directories: a base has a "shape" shared by its versions, with drift
	dirPool := func(b string) []string {
		var ds []string
		for _, e := range elems {
			ds = append(ds, e)
			for _, f := range elems[:2] {
				ds = append(ds, e+"/"+f)
			}
		}
		if strings.Contains(b, "/") {
			ds = append(ds, ".")
		}
		return ds
	}
	for _, b := range bases {
		pool := dirPool(b)
		var shape []string
		for i, n := 0, 1+r.Intn(3); i < n; i++ {
			shape = append(shape, common.Pick(r, pool))
		}
		for _, v := range vers[b] {
			ds := slices.Clone(shape)
			if r.Chance(1, 6) {
				ds = append(ds, common.Pick(r, pool))
			}
			if len(ds) > 1 && r.Chance(1, 12) {
				ds = ds[1:]
			}
			u.pkgs[modID{b, v}] = uniq(ds)
		}
	}
	// everything that can be imported
	type target struct{ path, base, major string }
	var targets []target
	seen := map[string]bool{}
	for _, m := range u.mods {
		for _, d := range u.pkgs[m] {
			p := m.base
			if d != "." {
				p += "/" + d
			}
			if k := p + " " + m.base + " " + semver.Major(m.ver); !seen[k] {
				seen[k] = true
				targets = append(targets, target{p, m.base, semver.Major(m.ver)})
			}
		}
	}
	majorsOf := func(b string) []string {
		var ms []string
		for _, v := range vers[b] {
			ms = append(ms, semver.Major(v))
		}
		return uniq(ms)
	}
	genImport := func(self string) (imp string, base string) {
		switch k := r.Intn(150); {
		case k < 5:
			return common.Pick(r, stdPkgs), ""
		case k == 5: // nobody provides it
			return common.Pick(r, hosts) + "/q/" + common.Pick(r, elems), ""
		case k == 6 && len(bases) > 0: // inside an existing module, but no such package
			b := common.Pick(r, bases)
			return b + "/nopkg@" + common.Pick(r, majorsOf(b)), b
		}
		if len(targets) == 0 {
			return "strings", ""
		}
		t := common.Pick(r, targets)
		if t.base == self && r.Chance(2, 3) {
			t = common.Pick(r, targets)
		}
		switch {
		case r.Chance(7, 10):
			return t.path + "@" + t.major, t.base
		case r.Chance(1, 6):
			return t.path + "@" + common.Pick(r, majorsOf(t.base)), t.base
		case r.Chance(1, 25):
			return t.path + "@v3", t.base // a major version nobody has
		}
		return t.path, t.base
	}
	// imports and requirements of registry modules
	for _, m := range u.mods {
		need := map[string]bool{}
		for _, d := range u.pkgs[m] {
			var imps []string
			for i, n := 0, []int{0, 0, 0, 1, 1, 1, 2}[r.Intn(7)]; i < n; i++ {
				imp, b := genImport(m.base)
				imps = append(imps, imp)
				if b != "" && b != m.base {
					need[b] = true
				}
			}
			if imps = uniq(imps); len(imps) > 0 {
				u.imps[pkgID{m, d}] = imps
			}
		}
		tidyish := r.Chance(3, 4)
		var bs []string
		for b := range need {
			bs = append(bs, b)
		}
		sort.Strings(bs)
		if !tidyish {
			bs = nil
			for _, b := range bases {
				if b != m.base && r.Chance(1, 3) {
					bs = append(bs, b)
				}
			}
		} else if r.Chance(1, 4) {
			if b := common.Pick(r, bases); b != m.base && !slices.Contains(bs, b) {
				bs = append(bs, b)
			}
		}
		usedMP := map[string]bool{}
		flagged := map[string]bool{}
		for _, b := range bs {
			for i, n := 0, 1+r.Intn(2); i < n; i++ {
				v := common.Pick(r, vers[b])
				mp := b + "@" + semver.Major(v)
				if usedMP[mp] {
					continue
				}
				usedMP[mp] = true
				d := dep{b, v, false}
				if !flagged[b] && len(majorsOf(b)) > 1 && r.Chance(1, 3) {
					d.def = true
					flagged[b] = true
				}
				u.deps[m] = append(u.deps[m], d)
				if singleMajor || r.Chance(2, 3) {
					break
				}
			}
		}
	}
	// main module
	u.mdirs = []string{"."}
	if r.Chance(1, 3) {
		u.mdirs = append(u.mdirs, common.Pick(r, elems))
	}
	for i, n := 0, 1+r.Intn(5); i < n; i++ {
		imp, _ := genImport("")
		u.mimps = append(u.mimps, imp)
	}
	if len(u.mdirs) > 1 && r.Chance(1, 2) {
		u.mimps = append(u.mimps, mainBase+"/"+u.mdirs[1])
	}
	if r.Chance(1, 15) {
		u.mimps = append(u.mimps, mainBase+"/px/"+common.Pick(r, elems))
	}
	u.mimps = uniq(u.mimps)
	// module.cue of the main module
	switch k := r.Intn(10); {
	case k < 4: // fresh
	case k < 7: // arbitrary entries: unused, stale, possibly inconsistent
		usedMP := map[string]bool{}
		flagged := map[string]bool{}
		for _, b := range bases {
			if !r.Chance(1, 2) {
				continue
			}
			for _, v := range vers[b] {
				mp := b + "@" + semver.Major(v)
				if usedMP[mp] || !r.Chance(1, 2) {
					continue
				}
				usedMP[mp] = true
				d := dep{b, v, false}
				if !flagged[b] && r.Chance(1, 4) {
					d.def = true
					flagged[b] = true
				}
				u.deps0 = append(u.deps0, d)
			}
		}
	default: // what tidy itself wrote for this module, then edited by hand
		reg, err := u.registry(r.Fork(), false, false, layout{})
		if err != nil {
			break
		}
		fsy, err := u.mainFS(nil, layout{})
		if err != nil {
			break
		}
		t := runTidy(fsy, reg)
		if !t.ok {
			break
		}
		u.deps0 = slices.Clone(t.deps)
		for i := range u.deps0 {
			switch r.Intn(8) {
			case 0: // another version of the same major
				d := u.deps0[i]
				for _, v := range vers[d.base] {
					if semver.Major(v) == semver.Major(d.ver) && r.Chance(1, 2) {
						u.deps0[i].ver = v
					}
				}
			case 1:
				if len(majorsOf(u.deps0[i].base)) > 1 {
					ok := true
					for j := range u.deps0 {
						if j != i && u.deps0[j].base == u.deps0[i].base && u.deps0[j].def {
							ok = false
						}
					}
					if ok {
						u.deps0[i].def = !u.deps0[i].def
					}
				}
			}
		}
		if len(u.deps0) > 0 && r.Chance(1, 4) {
			k := r.Intn(len(u.deps0))
			u.deps0 = append(u.deps0[:k], u.deps0[k+1:]...)
		}
	}
	// malformed registry contents: requirements on versions / modules that do not exist
	if r.Chance(1, 25) {
		m := common.Pick(r, u.mods)
		b := common.Pick(r, bases)
		bad := dep{b, "v0.9.0", false}
		if r.Chance(1, 3) {
			bad = dep{"e.test", "v0.1.0", false}
		}
		ok := bad.base != m.base
		for _, d := range u.deps[m] {
			if d.base == bad.base && semver.Major(d.ver) == semver.Major(bad.ver) {
				ok = false
			}
		}
		if ok {
			u.deps[m] = append(u.deps[m], bad)
		}
	}
	if r.Chance(1, 30) {
		bad := dep{common.Pick(r, bases), "v0.9.0", false}
		ok := true
		for _, d := range u.deps0 {
			if d.base == bad.base && semver.Major(d.ver) == "v0" {
				ok = false
			}
		}
		if ok {
			u.deps0 = append(u.deps0, bad)
		}
	}
	return u
}

func (u *universe) stats() string {
	nimp := 0
	for _, is := range u.imps {
		nimp += len(is)
	}
	return fmt.Sprintf("mods=%d imps=%d", len(u.mods), nimp)
}
