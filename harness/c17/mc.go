// C17 harness, part 4: the module file codec tied to the Gallina model
// coq/theories/Tidy/ModFile.v.
//
//	MC s<hex of cueversion.LanguageVersion()> <tokens of a data tree>      (the evaluated content of a module.cue file)
//
// tokens (space separated):  s<hex> string | t | f bools | n null | i<int> |
// { <hex key> <val> ... } struct | [ <val> ... ] list.  The top level is a struct.
//
// The harness renders the tree as CUE text and prints
//
//	CUR=<language version of the tree> ; P=<res> ; N=<res> ; L=<legacy> ; F=<format of P's file> ; FT=<fields of the text dropped by P>
//
// res = <class>  or  OK <file tree tokens> DV <sorted path=version ...> DM <sorted base=major ...>
// The extracted model prints the same line (ocaml/c17_driver.ml).
package main

import (
	"fmt"
	"sort"
	"strconv"
	"strings"

	"cuelang.org/go/cue"
	"cuelang.org/go/cue/cuecontext"
	"cuelang.org/go/cue/literal"
	"cuelang.org/go/internal/cueversion"
	"cuelang.org/go/internal/verifharness/common"
	"cuelang.org/go/mod/modfile"
)

type tval struct {
	kind byte // s t f n i { [
	s    string
	i    int64
	keys []string
	vals []*tval
}

func parseTokens(toks []string, pos *int) *tval {
	t := toks[*pos]
	*pos++
	switch t[0] {
	case 's':
		return &tval{kind: 's', s: common.Unhex(t[1:])}
	case 't', 'f', 'n':
		return &tval{kind: t[0]}
	case 'i':
		n, _ := strconv.ParseInt(t[1:], 10, 64)
		return &tval{kind: 'i', i: n}
	case '{':
		v := &tval{kind: '{'}
		for toks[*pos] != "}" {
			v.keys = append(v.keys, common.Unhex(toks[*pos][1:]))
			*pos++
			v.vals = append(v.vals, parseTokens(toks, pos))
		}
		*pos++
		return v
	case '[':
		v := &tval{kind: '['}
		for toks[*pos] != "]" {
			v.vals = append(v.vals, parseTokens(toks, pos))
		}
		*pos++
		return v
	}
	panic("bad token " + t)
}

func (v *tval) tokens(b *strings.Builder) {
	switch v.kind {
	case 's':
		b.WriteString("s" + common.Hex(v.s))
	case 't', 'f', 'n':
		b.WriteByte(v.kind)
	case 'i':
		fmt.Fprintf(b, "i%d", v.i)
	case '{':
		b.WriteString("{")
		for i, k := range v.keys {
			b.WriteString(" k" + common.Hex(k) + " ")
			v.vals[i].tokens(b)
		}
		b.WriteString(" }")
	case '[':
		b.WriteString("[")
		for _, x := range v.vals {
			b.WriteString(" ")
			x.tokens(b)
		}
		b.WriteString(" ]")
	}
}

func (v *tval) String() string {
	var b strings.Builder
	v.tokens(&b)
	return b.String()
}

// cue renders the tree as CUE source text (the concrete rendering of the abstract fields).
func (v *tval) cue(b *strings.Builder, top bool) {
	switch v.kind {
	case 's':
		b.WriteString(literal.String.Quote(v.s))
	case 't':
		b.WriteString("true")
	case 'f':
		b.WriteString("false")
	case 'n':
		b.WriteString("null")
	case 'i':
		fmt.Fprintf(b, "%d", v.i)
	case '{':
		if !top {
			b.WriteString("{")
		}
		for i, k := range v.keys {
			b.WriteString(literal.String.Quote(k) + ": ")
			v.vals[i].cue(b, false)
			if top {
				b.WriteString("\n")
			} else if i < len(v.keys)-1 {
				b.WriteString(", ")
			}
		}
		if !top {
			b.WriteString("}")
		}
	case '[':
		b.WriteString("[")
		for i, x := range v.vals {
			if i > 0 {
				b.WriteString(", ")
			}
			x.cue(b, false)
		}
		b.WriteString("]")
	}
}

// treeOfValue turns an evaluated data-only CUE value back into a tree (fields in source order).
func treeOfValue(v cue.Value) (*tval, error) {
	switch v.Kind() {
	case cue.StringKind:
		s, err := v.String()
		return &tval{kind: 's', s: s}, err
	case cue.BoolKind:
		x, err := v.Bool()
		if x {
			return &tval{kind: 't'}, err
		}
		return &tval{kind: 'f'}, err
	case cue.NullKind:
		return &tval{kind: 'n'}, nil
	case cue.IntKind:
		n, err := v.Int64()
		return &tval{kind: 'i', i: n}, err
	case cue.StructKind:
		out := &tval{kind: '{'}
		it, err := v.Fields()
		if err != nil {
			return nil, err
		}
		for it.Next() {
			x, err := treeOfValue(it.Value())
			if err != nil {
				return nil, err
			}
			out.keys = append(out.keys, it.Selector().Unquoted())
			out.vals = append(out.vals, x)
		}
		return out, nil
	case cue.ListKind:
		out := &tval{kind: '['}
		it, err := v.List()
		if err != nil {
			return nil, err
		}
		for it.Next() {
			x, err := treeOfValue(it.Value())
			if err != nil {
				return nil, err
			}
			out.vals = append(out.vals, x)
		}
		return out, nil
	}
	return nil, fmt.Errorf("unsupported kind %v", v.Kind())
}

func treeOfAny(x any) *tval {
	switch x := x.(type) {
	case nil:
		return &tval{kind: 'n'}
	case string:
		return &tval{kind: 's', s: x}
	case bool:
		if x {
			return &tval{kind: 't'}
		}
		return &tval{kind: 'f'}
	case int:
		return &tval{kind: 'i', i: int64(x)}
	case int64:
		return &tval{kind: 'i', i: x}
	case float64:
		return &tval{kind: 'i', i: int64(x)}
	case map[string]any:
		out := &tval{kind: '{'}
		var ks []string
		for k := range x {
			ks = append(ks, k)
		}
		sort.Strings(ks)
		for _, k := range ks {
			out.keys = append(out.keys, k)
			out.vals = append(out.vals, treeOfAny(x[k]))
		}
		return out
	case []any:
		out := &tval{kind: '['}
		for _, e := range x {
			out.vals = append(out.vals, treeOfAny(e))
		}
		return out
	}
	return &tval{kind: 's', s: fmt.Sprintf("?%T", x)}
}

// fileTree projects a modfile.File onto the abstract record, printed in the layout of the
// model's [render] (maps sorted by key).
func fileTree(f *modfile.File) *tval {
	out := &tval{kind: '{'}
	add := func(t *tval, k string, v *tval) { t.keys = append(t.keys, k); t.vals = append(t.vals, v) }
	add(out, "module", &tval{kind: 's', s: f.Module})
	if f.Language != nil {
		l := &tval{kind: '{'}
		if f.Language.Version != "" {
			add(l, "version", &tval{kind: 's', s: f.Language.Version})
		}
		add(out, "language", l)
	}
	if f.Source != nil {
		s := &tval{kind: '{'}
		add(s, "kind", &tval{kind: 's', s: f.Source.Kind})
		add(out, "source", s)
	}
	if len(f.Deps) > 0 {
		ds := &tval{kind: '{'}
		var ks []string
		for k := range f.Deps {
			ks = append(ks, k)
		}
		sort.Strings(ks)
		for _, k := range ks {
			d := f.Deps[k]
			dt := &tval{kind: '{'}
			if d == nil {
				add(ds, k, &tval{kind: 'n'})
				continue
			}
			add(dt, "v", &tval{kind: 's', s: d.Version})
			if d.Default {
				add(dt, "default", &tval{kind: 't'})
			}
			if d.ReplaceWith != "" {
				add(dt, "replaceWith", &tval{kind: 's', s: d.ReplaceWith})
			}
			add(ds, k, dt)
		}
		add(out, "deps", ds)
	}
	if f.Custom != nil {
		cs := &tval{kind: '{'}
		var ks []string
		for k := range f.Custom {
			ks = append(ks, k)
		}
		sort.Strings(ks)
		for _, k := range ks {
			m := map[string]any{}
			for a, b := range f.Custom[k] {
				m[a] = b
			}
			add(cs, k, treeOfAny(m))
		}
		add(out, "custom", cs)
	}
	return out
}

func classifyMC(err error) string {
	s := err.Error()
	switch {
	case strings.Contains(s, "no language version declared"):
		return "NOLANG"
	case strings.Contains(s, "cannot determine language version"):
		return "LANGDECODE"
	case strings.Contains(s, "is not valid semantic version"):
		return "BADLANG"
	case strings.Contains(s, "is too new for current language version"):
		return "TOONEW"
	case strings.Contains(s, "cannot find schema suitable"):
		return "NOSCHEMA"
	case strings.Contains(s, "cannot decode into modFile struct"):
		return "DECODE"
	case strings.Contains(s, "invalid module file syntax"), strings.Contains(s, "invalid module file value"):
		return "SYNTAX"
	case strings.HasPrefix(s, "invalid module file module.cue: "):
		return "INIT"
	}
	return "SCHEMA"
}

func parsedView(f *modfile.File, err error) string {
	if err != nil {
		return classifyMC(err)
	}
	var dv []string
	for _, v := range f.DepVersions() {
		dv = append(dv, v.Path()+"="+v.Version())
	}
	sort.Strings(dv)
	var dm []string
	for k, v := range f.DefaultMajorVersions() {
		dm = append(dm, k+"="+v)
	}
	sort.Strings(dm)
	return strings.TrimSpace("OK " + fileTree(f).String() + " DV " + strings.Join(dv, " ") + " DM " + strings.Join(dm, " "))
}

func runMCCase(line string) (res string) {
	defer func() {
		if e := recover(); e != nil {
			res = fmt.Sprint("PANIC ", e)
		}
	}()
	toks := strings.Fields(line)[2:] // [1] is the language version the case was generated for (echoed as CUR by the model)
	pos := 0
	tree := parseTokens(toks, &pos)
	var b strings.Builder
	tree.cue(&b, true)
	text := []byte(b.String())
	// the tree the evaluator sees must be the tree we generated (rendering glue)
	back, err := treeOfValue(cuecontext.New().CompileBytes(text))
	if err != nil || back.String() != tree.String() {
		return "BADCASE rendering: " + fmt.Sprint(err) + " " + oneLine(string(text))
	}
	pf, perr := modfile.Parse(text, "module.cue")
	nf, nerr := modfile.ParseNonStrict(text, "module.cue")
	leg := "ERR"
	if lf, err := modfile.ParseLegacy(text, "module.cue"); err == nil {
		leg = "OK s" + common.Hex(lf.Module)
	}
	fres, dropped := "-", "-"
	if perr == nil {
		data, err := modfile.Format(pf)
		if err != nil {
			fres = "ERR"
		} else {
			ft, err := treeOfValue(cuecontext.New().CompileBytes(data))
			if err != nil {
				fres = "UNREADABLE " + oneLine(string(data))
			} else {
				fres = "OK " + ft.String()
				// the formatted text parses back to the same file
				again, err := modfile.Parse(data, "module.cue")
				if err != nil || parsedView(again, nil) != parsedView(pf, nil) {
					fres = "NOROUNDTRIP " + fres
				}
			}
		}
		// top-level fields of the accepted text that the parsed file no longer carries
		kept := map[string]bool{}
		for _, k := range fileTree(pf).keys {
			kept[k] = true
		}
		var dr []string
		for _, k := range tree.keys {
			if !kept[k] {
				dr = append(dr, "k"+common.Hex(k))
			}
		}
		dropped = strings.Join(dr, " ")
		if dropped == "" {
			dropped = "none"
		}
	}
	return fmt.Sprintf("CUR=s%s ; P=%s ; N=%s ; L=%s ; F=%s ; FT=%s", common.Hex(cueversion.LanguageVersion()),
		parsedView(pf, perr), parsedView(nf, nerr), leg, fres, dropped)
}
