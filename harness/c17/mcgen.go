// Generator of module file trees for the MC cases: mostly valid files, with one or two
// local deviations (the malformed stream), every value derived from the PRNG.
package main

import (
	"fmt"

	"cuelang.org/go/internal/cueversion"
	"cuelang.org/go/internal/verifharness/common"
)

func tS(s string) *tval { return &tval{kind: 's', s: s} }
func tB(b bool) *tval {
	if b {
		return &tval{kind: 't'}
	}
	return &tval{kind: 'f'}
}
func tI(i int) *tval { return &tval{kind: 'i', i: int64(i)} }
func tN() *tval      { return &tval{kind: 'n'} }
func tO() *tval      { return &tval{kind: '{'} }
func (v *tval) put(k string, x *tval) *tval {
	for i, k0 := range v.keys {
		if k0 == k {
			v.vals[i] = x
			return v
		}
	}
	v.keys = append(v.keys, k)
	v.vals = append(v.vals, x)
	return v
}

var mcLangs = []string{"v0.8.0", "v0.8.0-alpha.0", "v0.9.0-alpha.0", "v0.9.0", "v0.9.2", "v0.12.0", "v0.16.9", "v0.17.0",
	"v0.17.0-rc.1", "v0.17.1", "v0.18.0", "v0.18.0-alpha.1", "v0.10.0-0.dev"}
var mcBadLangs = []string{"v0.8.0-alpha", "v0.7.9", "v0.0.0", "v0.18.1", "v0.19.0-alpha.1", "v1.0.0", "v0.9", "v0", "v0.9.0+build",
	"v0.17.0+x", "0.9.0", "", "latest", "v0.09.0", "v0.9.0-", "\n", "V0.9.0", "v0.9.0.0"}
var mcHosts = []string{"a.test", "b.test", "c.test", "x-y.test", "a1.b2.test", "a__b.test", "a--b.test"}
var mcBadBases = []string{"A.test", "a.test/Px", "atest", "a.test/", "/a.test", "a.test//px", "a..test", "a.test/.px", "a.test/px.",
	"a.test/_px", "a.test/px_", "-a.test", "a.test/-px", "a_b.test", "a.test/p_-x", "a.test/p.-x", "a.test/p___x", "a.test/p._x",
	"con.test", "a.test/nul", "a.test/com1.x", "a.test/lpt9", "a.test/p~1", "a.test/p x", "a.test/pé", "a.test/p+x", "a.test/p!x",
	"a.test/aux.cue/x", "local", "a.test/p:x", "", "a.test/PRN"}
var mcGoodTails = []string{"", "/px", "/px/py", "/p-x", "/p_x", "/p__x", "/p.x", "/p--x/q1", "/con1", "/xcon", "/nul1"}
var mcBadMajors = []string{"v01", "v1.2", "vx", "1", "v", "v1.0.0", "V1", "v-1", "v1@v1"}

func mcBase(r *common.Rng) string {
	if r.Chance(1, 12) {
		return common.Pick(r, mcBadBases)
	}
	return common.Pick(r, mcHosts) + common.Pick(r, mcGoodTails)
}

func mcVersion(r *common.Rng, major int) string {
	v := fmt.Sprintf("v%d.%d.%d", major, r.Intn(4), r.Intn(12))
	switch r.Intn(14) {
	case 0:
		v += "-rc." + fmt.Sprint(r.Intn(3))
	case 1:
		v += "-0.dev"
	case 2:
		return common.Pick(r, []string{fmt.Sprintf("v%d.1", major), fmt.Sprintf("v%d", major), v + "+meta", "none", "", "latest",
			fmt.Sprintf("%d.2.3", major), fmt.Sprintf("v%d.01.0", major), v + "-", v + "-01", "\n", v + ".0"})
	}
	return v
}

func mcCustomVal(r *common.Rng, depth int) *tval {
	switch r.Intn(7) {
	case 0:
		return tI(r.Intn(2000) - 1000)
	case 1:
		return tB(r.Bool())
	case 2:
		if depth < 2 {
			o := tO()
			for i, n := 0, r.Intn(3); i < n; i++ {
				o.put(common.Pick(r, []string{"a", "b", "zz", "x.y", "k k", "é"}), mcCustomVal(r, depth+1))
			}
			return o
		}
	case 3:
		if depth < 2 {
			l := &tval{kind: '['}
			for i, n := 0, r.Intn(3); i < n; i++ {
				l.vals = append(l.vals, mcCustomVal(r, depth+1))
			}
			return l
		}
	case 4:
		return tN()
	}
	return tS(common.Pick(r, []string{"", "s", "hello world", "q\"uote", "tab\there", "é世", "a/b@v1"}))
}

func mcScalar(r *common.Rng) *tval {
	switch r.Intn(6) {
	case 0:
		return tN()
	case 1:
		return tI(r.Intn(5))
	case 2:
		return tB(r.Bool())
	case 3:
		return &tval{kind: '['}
	case 4:
		return tO()
	}
	return tS(common.Pick(r, []string{"", "x", "v1.0.0", "true"}))
}

func genMCTree(r *common.Rng) *tval {
	t := tO()
	// module
	major := r.Intn(3)
	mod := mcBase(r)
	switch r.Intn(12) {
	case 0: // no major version: v0 assumed
	case 1:
		mod += "@" + common.Pick(r, mcBadMajors)
	case 2:
		mod = common.Pick(r, []string{"@v1", "@", "a.test@", "", "local@v1", "local"})
	default:
		mod += fmt.Sprintf("@v%d", major)
	}
	if !r.Chance(1, 25) {
		t.put("module", tS(mod))
	}
	// language
	lang := common.Pick(r, mcLangs)
	if r.Chance(1, 8) {
		lang = common.Pick(r, mcBadLangs)
	}
	l := tO().put("version", tS(lang))
	switch r.Intn(40) {
	case 0:
		l = tO()
	case 1:
		l.put(common.Pick(r, []string{"min", "vers", "v"}), tS("v0.9.0"))
	case 2:
		l.put("version", mcScalar(r))
	}
	switch r.Intn(40) {
	case 0:
	case 1:
		t.put("language", mcScalar(r))
	default:
		t.put("language", l)
	}
	// source
	if r.Chance(1, 4) {
		src := tO().put("kind", tS(common.Pick(r, []string{"self", "git", "git", "self", "hg", "Git", ""})))
		switch r.Intn(20) {
		case 0:
			src.put("url", tS("x"))
		case 1:
			src = tO()
		case 2:
			src.put("kind", mcScalar(r))
		}
		if r.Chance(1, 20) {
			t.put("source", mcScalar(r))
		} else {
			t.put("source", src)
		}
	}
	// description (known to the schema, not to modfile.File)
	if r.Chance(1, 10) {
		if r.Chance(1, 6) {
			t.put("description", mcScalar(r))
		} else {
			t.put("description", tS(common.Pick(r, []string{"a module", "", "déscription"})))
		}
	}
	// deps
	if r.Chance(3, 4) {
		deps := tO()
		for i, n := 0, r.Intn(5); i < n; i++ {
			mj := r.Intn(3)
			key := mcBase(r)
			switch r.Intn(14) {
			case 0: // no major version in the key: accepted by ParseNonStrict only
			case 1:
				key += "@" + common.Pick(r, mcBadMajors)
			case 2:
				key += fmt.Sprintf("@v%d", (mj+1)%3) // mismatch
			default:
				key += fmt.Sprintf("@v%d", mj)
			}
			d := tO().put("v", tS(mcVersion(r, mj)))
			if r.Chance(1, 4) {
				d.put("default", tB(!r.Chance(1, 4)))
			}
			switch r.Intn(30) {
			case 0:
				d = tO() // no version (allowed by the v0.17.0 schema)
				if r.Bool() {
					d.put("default", tB(true))
				}
			case 1:
				d.put("v", mcScalar(r))
			case 2:
				d.put("default", mcScalar(r))
			case 3:
				d.put(common.Pick(r, []string{"version", "replace", "dflt"}), tS("v1.0.0"))
			case 4, 5:
				d.put("replaceWith", tS(common.Pick(r, []string{"c.test@v1", "./local", "../x", "c.test@v1.2.3", ""})))
			case 6:
				d.put("replaceWith", mcScalar(r))
			}
			if r.Chance(1, 40) {
				deps.put(key, mcScalar(r))
			} else {
				deps.put(key, d)
			}
		}
		if r.Chance(1, 40) {
			t.put("deps", mcScalar(r))
		} else {
			t.put("deps", deps)
		}
	}
	// custom
	if r.Chance(1, 4) {
		c := tO()
		for i, n := 0, r.Intn(3); i < n; i++ {
			inner := tO()
			for j, m := 0, r.Intn(4); j < m; j++ {
				inner.put(common.Pick(r, []string{"a", "b", "zz", "x.y", "k k", "é", "A"}), mcCustomVal(r, 0))
			}
			k := common.Pick(r, []string{"legacy", "tool.test", "x.test/y@v1", "Upper", ""})
			if r.Chance(1, 15) {
				c.put(k, mcScalar(r))
			} else {
				c.put(k, inner)
			}
		}
		if r.Chance(1, 20) {
			t.put("custom", mcScalar(r))
		} else {
			t.put("custom", c)
		}
	}
	// unknown top-level field
	if r.Chance(1, 15) {
		t.put(common.Pick(r, []string{"dep", "require", "version", "x", "replace"}), mcCustomVal(r, 1))
	}
	// shuffle the top-level fields: the order of fields in the text must not matter
	if r.Chance(1, 3) {
		idx := make([]int, len(t.keys))
		for i := range idx {
			idx[i] = i
		}
		common.Shuffle(r, idx)
		t2 := tO()
		for _, i := range idx {
			t2.put(t.keys[i], t.vals[i])
		}
		t = t2
	}
	return t
}

func genMCCase(r *common.Rng) string {
	return "MC s" + common.Hex(cueversion.LanguageVersion()) + " " + genMCTree(r).String()
}
