// C17 harness, part 3: direct exploration of the module file codec
// (mod/modfile Parse / ParseNonStrict / Format and schema.cue).  No model: the
// round trip and the rejections are checked on the implementation alone.
//
//	MF RT <hex of a generated module file value in a private notation>
//	   -> RT=ok | RT=FAIL <why>
//	MF REJ <kind> <hex of module.cue text>
//	   -> REJ=yes | REJ=NO <what was accepted>
package main

import (
	"fmt"
	"reflect"
	"sort"
	"strings"

	"cuelang.org/go/internal/verifharness/common"
	"cuelang.org/go/mod/modfile"
)

type mfSpec struct {
	module, lang, source string
	deps                 []dep
	custom               map[string]map[string]any
}

func (s mfSpec) encode() string {
	var b strings.Builder
	fmt.Fprintf(&b, "%s;%s;%s;", s.module, s.lang, s.source)
	for i, d := range s.deps {
		if i > 0 {
			b.WriteString(",")
		}
		b.WriteString(d.String())
	}
	b.WriteString(";")
	var ks []string
	for k := range s.custom {
		ks = append(ks, k)
	}
	sort.Strings(ks)
	for i, k := range ks {
		if i > 0 {
			b.WriteString(",")
		}
		var fs []string
		for f := range s.custom[k] {
			fs = append(fs, f)
		}
		sort.Strings(fs)
		b.WriteString(k + "=")
		for j, f := range fs {
			if j > 0 {
				b.WriteString("+")
			}
			fmt.Fprintf(&b, "%s:%v", f, s.custom[k][f])
		}
	}
	return b.String()
}

func decodeSpec(x string) mfSpec {
	parts := strings.Split(x, ";")
	s := mfSpec{module: parts[0], lang: parts[1], source: parts[2]}
	if parts[3] != "" {
		for _, w := range strings.Split(parts[3], ",") {
			s.deps = append(s.deps, parseDep(w))
		}
	}
	if parts[4] != "" {
		s.custom = map[string]map[string]any{}
		for _, kv := range strings.Split(parts[4], ",") {
			k, fs, _ := strings.Cut(kv, "=")
			s.custom[k] = map[string]any{}
			for _, f := range strings.Split(fs, "+") {
				name, val, _ := strings.Cut(f, ":")
				switch val {
				case "true":
					s.custom[k][name] = true
				default:
					s.custom[k][name] = val
				}
			}
		}
	}
	return s
}

func (s mfSpec) file() *modfile.File {
	f := &modfile.File{Module: s.module, Language: &modfile.Language{Version: s.lang}, Custom: s.custom}
	if s.source != "" {
		f.Source = &modfile.Source{Kind: s.source}
	}
	if len(s.deps) > 0 {
		f.Deps = map[string]*modfile.Dep{}
		for _, d := range s.deps {
			f.Deps[d.base] = &modfile.Dep{Version: d.ver, Default: d.def}
		}
	}
	return f
}

var langs = []string{"v0.8.0", "v0.9.0", "v0.9.2", "v0.10.0", "v0.11.0", "v0.12.0", "v0.13.0"}

func genSpec(r *common.Rng) mfSpec {
	s := mfSpec{module: common.Pick(r, hosts) + "/" + common.Pick(r, elems) + "@v" + fmt.Sprint(r.Intn(3)), lang: common.Pick(r, langs)}
	if r.Chance(1, 3) && s.lang != "v0.8.0" {
		s.source = common.Pick(r, []string{"self", "git"})
	}
	seen := map[string]bool{}
	flagged := map[string]bool{}
	for i, n := 0, r.Intn(5); i < n; i++ {
		v := common.Pick(r, verPool)
		if r.Chance(1, 4) {
			v = fmt.Sprintf("v%d.%d.%d", r.Intn(3), r.Intn(30), r.Intn(200))
			if r.Chance(1, 3) {
				v += "-rc." + fmt.Sprint(r.Intn(9))
			}
		}
		base := common.Pick(r, hosts)
		if r.Chance(1, 2) {
			base += "/" + common.Pick(r, elems)
		}
		key := base + "@" + semverMajor(v)
		if seen[key] || key == s.module {
			continue
		}
		seen[key] = true
		d := dep{key, v, false} // here base carries the full key
		if !flagged[base] && base+"@" != s.module[:strings.Index(s.module, "@")+1] && r.Chance(1, 4) {
			d.def = true
			flagged[base] = true
		}
		s.deps = append(s.deps, d)
	}
	if r.Chance(1, 4) {
		s.custom = map[string]map[string]any{}
		for i, n := 0, 1+r.Intn(2); i < n; i++ {
			k := common.Pick(r, []string{"legacy", "tool.test", "x.test/y"})
			s.custom[k] = map[string]any{}
			for j, m := 0, 1+r.Intn(2); j < m; j++ {
				if r.Bool() {
					s.custom[k][common.Pick(r, elems)] = true
				} else {
					s.custom[k][common.Pick(r, elems)] = "s" + fmt.Sprint(r.Intn(100))
				}
			}
		}
	}
	return s
}

func semverMajor(v string) string {
	i := strings.Index(v, ".")
	return v[:i]
}

// mutations of a valid module.cue text that must be rejected
var rejKinds = []string{"unknown-top", "unknown-dep-field", "unknown-lang-field", "version-type", "version-syntax",
	"no-language", "major-mismatch", "default-type", "two-defaults", "bad-source", "lang-noncanonical", "lang-future",
	"dep-no-major", "unknown-source-field", "module-type", "custom-shape"}

func genRejCase(r *common.Rng) (kind, text string) {
	kind = common.Pick(r, rejKinds)
	base := "module: \"a.test/m@v1\"\nlanguage: version: \"v0.9.0\"\n"
	depOK := "deps: \"b.test@v1\": v: \"v1.2.3\"\n"
	switch kind {
	case "unknown-top":
		text = base + depOK + common.Pick(r, []string{"dep", "require", "Deps", "version", "x"}) + ": \"y\"\n"
	case "unknown-dep-field":
		text = base + "deps: \"b.test@v1\": {v: \"v1.2.3\", " + common.Pick(r, []string{"version", "replace", "Default", "dflt"}) + ": true}\n"
	case "unknown-lang-field":
		text = "module: \"a.test/m@v1\"\nlanguage: {version: \"v0.9.0\", " + common.Pick(r, []string{"min", "Version", "v"}) + ": \"v0.9.0\"}\n"
	case "version-type":
		text = base + "deps: \"b.test@v1\": v: " + common.Pick(r, []string{"1", "true", "[\"v1.2.3\"]", "{}"}) + "\n"
	case "version-syntax":
		text = base + "deps: \"b.test@v1\": v: \"" + common.Pick(r, []string{"1.2.3", "v1.2", "v1", "v1.2.3.4", "v01.2.3", "latest", "v1.2.3+meta"}) + "\"\n"
	case "no-language":
		text = "module: \"a.test/m@v1\"\n" + depOK
	case "major-mismatch":
		text = base + "deps: \"b.test@v1\": v: \"" + common.Pick(r, []string{"v2.0.0", "v0.1.0"}) + "\"\n"
	case "default-type":
		text = base + "deps: \"b.test@v1\": {v: \"v1.2.3\", default: " + common.Pick(r, []string{"1", "\"true\"", "null"}) + "}\n"
	case "two-defaults":
		text = base + "deps: {\"b.test@v1\": {v: \"v1.2.3\", default: true}, \"b.test@v2\": {v: \"v2.0.0\", default: true}}\n"
	case "bad-source":
		text = base + "source: kind: \"" + common.Pick(r, []string{"hg", "svn", "Git", ""}) + "\"\n"
	case "lang-noncanonical":
		text = "module: \"a.test/m@v1\"\nlanguage: version: \"" + common.Pick(r, []string{"v0.9", "v0", "0.9.0", "v0.9.0+x"}) + "\"\n"
	case "lang-future":
		text = "module: \"a.test/m@v1\"\nlanguage: version: \"v9.0.0\"\n"
	case "dep-no-major":
		text = base + "deps: \"b.test\": v: \"v1.2.3\"\n"
	case "unknown-source-field":
		text = base + "source: {kind: \"git\", url: \"x\"}\n"
	case "module-type":
		text = "module: " + common.Pick(r, []string{"1", "[\"a.test\"]", "{}"}) + "\nlanguage: version: \"v0.9.0\"\n"
	case "custom-shape":
		text = base + "custom: " + common.Pick(r, []string{"\"x\"", "{\"a.test\": 1}", "[1]"}) + "\n"
	}
	return kind, text
}

func genModfileCase(r *common.Rng) string {
	if r.Chance(2, 5) {
		kind, text := genRejCase(r)
		return "MF REJ " + kind + " " + common.Hex(text)
	}
	return "MF RT " + common.Hex(genSpec(r).encode())
}

func fileView(f *modfile.File) string {
	s := mfSpec{module: f.Module, custom: f.Custom}
	if f.Language != nil {
		s.lang = f.Language.Version
	}
	if f.Source != nil {
		s.source = f.Source.Kind
	}
	var ks []string
	for k := range f.Deps {
		ks = append(ks, k)
	}
	sort.Strings(ks)
	for _, k := range ks {
		s.deps = append(s.deps, dep{k, f.Deps[k].Version, f.Deps[k].Default})
	}
	return s.encode()
}

func runModfileCase(line string) (res string) {
	defer func() {
		if e := recover(); e != nil {
			res = fmt.Sprint("PANIC ", e)
		}
	}()
	w := strings.Fields(line)
	switch w[1] {
	case "RT":
		spec := decodeSpec(common.Unhex(w[2]))
		f := spec.file()
		data, err := modfile.Format(f)
		if err != nil {
			return "RT=FAIL format: " + oneLine(err.Error())
		}
		back, err := modfile.Parse(data, "module.cue")
		if err != nil {
			return "RT=FAIL parse: " + oneLine(err.Error())
		}
		if fileView(back) != fileView(f) || !reflect.DeepEqual(back.Custom, f.Custom) && len(f.Custom) > 0 {
			return "RT=FAIL differs: " + fileView(back) + " vs " + fileView(f)
		}
		// formatting is a fixpoint and the lax parser agrees with the strict one
		data2, err := modfile.Format(back)
		if err != nil || string(data2) != string(data) {
			return "RT=FAIL reformat differs"
		}
		lax, err := modfile.ParseNonStrict(data, "module.cue")
		if err != nil || fileView(lax) != fileView(f) {
			return "RT=FAIL nonstrict differs"
		}
		// the derived views agree with the public fields
		if len(back.DepVersions()) != len(f.Deps) {
			return "RT=FAIL DepVersions"
		}
		for _, v := range back.DepVersions() {
			d, ok := f.Deps[v.Path()]
			if !ok || d.Version != v.Version() {
				return "RT=FAIL DepVersions entry"
			}
		}
		for k, d := range f.Deps {
			base, _, _ := strings.Cut(k, "@")
			if got := back.DefaultMajorVersions()[base] == semverMajor(d.Version); got != d.Default {
				// another major of the same base may hold the default
				other := false
				for k2, d2 := range f.Deps {
					b2, _, _ := strings.Cut(k2, "@")
					if k2 != k && b2 == base && d2.Default && semverMajor(d2.Version) == semverMajor(d.Version) {
						other = true
					}
				}
				if !other {
					return "RT=FAIL DefaultMajorVersions " + k
				}
			}
		}
		return "RT=ok"
	case "REJ":
		text := common.Unhex(w[3])
		f, err := modfile.Parse([]byte(text), "module.cue")
		if err == nil {
			return "REJ=NO accepted as " + fileView(f)
		}
		return "REJ=yes"
	}
	return "BADCASE"
}

func oneLine(s string) string { return strings.ReplaceAll(s, "\n", " / ") }
