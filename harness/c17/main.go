// C17 harness: drives modload.Tidy / CheckTidy of the working tree over generated
// universes served by an in-memory registry, and explores the module file codec.
//
//	harness-c17 --seed S --out DIR --nuni N --nmf M      generated stream
//	harness-c17 --replay-cases FILE --out DIR            cases from FILE
//	harness-c17 --explain FILE                           verbose run of the cases in FILE
package main

import (
	"bufio"
	"fmt"
	"os"
	"strings"
	"sync"

	"cuelang.org/go/internal/verifharness/common"
)

// runUniverse runs everything the check wants to know about one universe and
// returns the impl line:
//
//	T=<outcome> ; TT=<outcome of tidy on the result> ; CK=<check on result> ; CK0=<check on input> ; PERM=<same|DIFF ..>
func runUniverse(u *universe, rng *common.Rng, reps int) string {
	canon := layout{}
	reg, err := u.registry(rng.Fork(), false, false, canon)
	if err != nil {
		return "BADCASE " + err.Error()
	}
	fsy, err := u.mainFS(u.deps0, canon)
	if err != nil {
		return "BADCASE " + err.Error()
	}
	t := runTidy(fsy, reg)
	ck0 := runCheck(fsy, reg)
	tt, ck := "-", "-"
	if t.ok {
		fsy1, err := u.mainFS(t.deps, canon)
		if err != nil {
			return "BADCASE " + err.Error()
		}
		tt = runTidy(fsy1, reg).String()
		ck = runCheck(fsy1, reg)
	}
	// presentation changes: shuffled listings, latency, import/file order and
	// distribution over files
	perm := "same"
	for i := 0; i < reps; i++ {
		lr := layout{rng: rng.Fork()}
		reg2, err := u.registry(rng.Fork(), true, true, lr)
		if err != nil {
			return "BADCASE " + err.Error()
		}
		fsy2, err := u.mainFS(permDeps(rng, u.deps0), lr)
		if err != nil {
			return "BADCASE " + err.Error()
		}
		t2 := runTidy(fsy2, reg2)
		if t2.String() != t.String() {
			perm = "DIFF " + t2.String()
			break
		}
	}
	return fmt.Sprintf("T=%s ; TT=%s ; CK=%s ; CK0=%s ; PERM=%s", t, tt, ck, ck0, perm)
}

func permDeps(r *common.Rng, ds []dep) []dep {
	out := append([]dep(nil), ds...)
	common.Shuffle(r, out)
	return out
}

func readLines(path string) []string {
	f, err := os.Open(path)
	if err != nil {
		panic(err)
	}
	defer f.Close()
	var out []string
	sc := bufio.NewScanner(f)
	sc.Buffer(make([]byte, 1<<20), 1<<26)
	for sc.Scan() {
		if s := strings.TrimSpace(sc.Text()); s != "" && !strings.HasPrefix(s, "#") {
			out = append(out, s)
		}
	}
	return out
}

func runCase(line string, rng *common.Rng, reps int) string {
	switch {
	case strings.HasPrefix(line, "U "):
		u, err := parseCase(line)
		if err != nil {
			return "BADCASE " + err.Error()
		}
		return runUniverse(u, rng, reps)
	case strings.HasPrefix(line, "MF "):
		return runModfileCase(line)
	case strings.HasPrefix(line, "MC "):
		return runMCCase(line)
	}
	return "BADCASE"
}

func main() {
	a := common.Args(os.Args[1:])
	seed := uint64(common.Atoi(a["--seed"], 1))
	rng := common.NewRng(seed ^ 0xC17)
	reps := common.Atoi(a["--reps"], 2)
	if f := a["--explain"]; f != "" {
		for _, line := range readLines(f) {
			fmt.Println(line)
			if u, err := parseCase(line); err == nil {
				explain(u)
			}
			fmt.Println("  =>", runCase(line, rng, reps))
		}
		return
	}
	out := common.NewOut(a["--out"])
	defer out.Close()
	if f := a["--replay-cases"]; f != "" {
		for _, line := range readLines(f) {
			out.Emit(line, runCase(line, rng, reps))
		}
		return
	}
	if f := a["--corpus"]; f != "" {
		for _, line := range readLines(f) {
			out.Emit(line, runCase(line, rng, reps))
		}
	}
	nuni := common.Atoi(a["--nuni"], 100)
	nmf := common.Atoi(a["--nmf"], 100)
	workers := common.Atoi(a["--workers"], 8)
	// every case has its own PRNG streams, fixed before any work starts, so the
	// output does not depend on how the workers are scheduled
	type job struct {
		gen, run *common.Rng
		line, res string
	}
	jobs := make([]job, nuni+nmf)
	for i := range jobs {
		jobs[i].gen, jobs[i].run = rng.Fork(), rng.Fork()
	}
	var wg sync.WaitGroup
	next := make(chan int)
	for w := 0; w < workers; w++ {
		wg.Add(1)
		go func() {
			defer wg.Done()
			for i := range next {
				j := &jobs[i]
				if i < nuni {
					j.line = genUniverse(j.gen).String()
				} else if (i-nuni)%3 != 0 {
					j.line = genMCCase(j.gen)
				} else {
					j.line = genModfileCase(j.gen)
				}
				j.res = runCase(j.line, j.run, reps)
			}
		}()
	}
	for i := range jobs {
		next <- i
	}
	close(next)
	wg.Wait()
	for i := range jobs {
		out.Emit(jobs[i].line, jobs[i].res)
	}
}

func explain(u *universe) {
	canon := layout{}
	reg, err := u.registry(common.NewRng(1), false, false, canon)
	if err != nil {
		fmt.Println("  registry:", err)
		return
	}
	fsy, err := u.mainFS(u.deps0, canon)
	if err != nil {
		fmt.Println("  mainFS:", err)
		return
	}
	t := runTidy(fsy, reg)
	fmt.Printf("  tidy: %s  %s\n", t, t.err)
	if t.ok {
		fsy1, _ := u.mainFS(t.deps, canon)
		t2 := runTidy(fsy1, reg)
		fmt.Printf("  tidy(tidy): %s  %s\n", t2, t2.err)
	}
}
