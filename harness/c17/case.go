// C17 harness, part 1: the textual case format shared with the extracted Coq
// model (ocaml/c17_driver.ml), the in-memory registry and the runner that
// drives modload.Tidy / modload.CheckTidy of the working tree.
//
// A universe case is ONE line:
//
//	U main=<base>@<major> | <dep0> .. | <mdir> .. | <mimp> .. | <mod> .. | <mod>><dep> .. | <mod>:<dir> .. | <mod>:<dir>><imp> ..
//
// sections (separated by " | "):
//
//	1 deps of the main module's module.cue     dep  = <base>@<version>[*]     (* = default: true)
//	2 directories of the main module that hold a package ("." = root)
//	3 imports of the main module (union over all of its files)      imp = CUE import path
//	4 module versions present in the registry    mod  = <base>@<version>
//	5 requirement facts                          <mod>><dep>
//	6 package directory facts                    <mod>:<dir>
//	7 import facts                               <mod>:<dir>><imp>
//
// Every section is a SET of facts: order and repetition carry no meaning.
package main

import (
	"context"
	"errors"
	"fmt"
	"io/fs"
	"runtime"
	"slices"
	"sort"
	"strings"
	"sync"
	"testing/fstest"
	"time"

	"cuelang.org/go/cue/ast"
	"cuelang.org/go/internal/mod/modload"
	"cuelang.org/go/internal/mod/semver"
	"cuelang.org/go/internal/verifharness/common"
	"cuelang.org/go/mod/modfile"
	"cuelang.org/go/mod/modregistry"
	"cuelang.org/go/mod/module"
)

const langVersion = "v0.9.0"

type dep struct {
	base, ver string
	def       bool
}

func (d dep) String() string {
	s := d.base + "@" + d.ver
	if d.def {
		s += "*"
	}
	return s
}

type modID struct{ base, ver string }

func (m modID) String() string { return m.base + "@" + m.ver }

type pkgID struct {
	mod modID
	dir string
}

type universe struct {
	mainBase, mainMajor string
	deps0               []dep
	mdirs               []string
	mimps               []string
	mods                []modID
	deps                map[modID][]dep
	pkgs                map[modID][]string
	imps                map[pkgID][]string
}

func parseDep(s string) dep {
	d := dep{}
	if strings.HasSuffix(s, "*") {
		d.def = true
		s = s[:len(s)-1]
	}
	i := strings.LastIndex(s, "@")
	d.base, d.ver = s[:i], s[i+1:]
	return d
}

func parseMod(s string) modID {
	i := strings.LastIndex(s, "@")
	return modID{s[:i], s[i+1:]}
}

func parseCase(line string) (*universe, error) {
	secs := strings.Split(line, "|")
	if len(secs) != 8 {
		return nil, fmt.Errorf("want 8 sections, got %d", len(secs))
	}
	head := strings.Fields(secs[0])
	if len(head) != 2 || head[0] != "U" || !strings.HasPrefix(head[1], "main=") {
		return nil, fmt.Errorf("bad head %q", secs[0])
	}
	u := &universe{deps: map[modID][]dep{}, pkgs: map[modID][]string{}, imps: map[pkgID][]string{}}
	m := parseMod(strings.TrimPrefix(head[1], "main="))
	u.mainBase, u.mainMajor = m.base, m.ver
	for _, w := range strings.Fields(secs[1]) {
		u.deps0 = append(u.deps0, parseDep(w))
	}
	u.mdirs = strings.Fields(secs[2])
	u.mimps = strings.Fields(secs[3])
	for _, w := range strings.Fields(secs[4]) {
		u.mods = append(u.mods, parseMod(w))
	}
	for _, w := range strings.Fields(secs[5]) {
		a, b, ok := strings.Cut(w, ">")
		if !ok {
			return nil, fmt.Errorf("bad dep fact %q", w)
		}
		u.deps[parseMod(a)] = append(u.deps[parseMod(a)], parseDep(b))
	}
	for _, w := range strings.Fields(secs[6]) {
		i := strings.LastIndex(w, ":")
		mod := parseMod(w[:i])
		u.pkgs[mod] = append(u.pkgs[mod], w[i+1:])
	}
	for _, w := range strings.Fields(secs[7]) {
		a, imp, ok := strings.Cut(w, ">")
		if !ok {
			return nil, fmt.Errorf("bad import fact %q", w)
		}
		i := strings.LastIndex(a, ":")
		k := pkgID{parseMod(a[:i]), a[i+1:]}
		u.imps[k] = append(u.imps[k], imp)
	}
	return u, nil
}

func (u *universe) String() string {
	var b strings.Builder
	fmt.Fprintf(&b, "U main=%s@%s |", u.mainBase, u.mainMajor)
	for _, d := range u.deps0 {
		b.WriteString(" " + d.String())
	}
	b.WriteString(" |")
	for _, d := range u.mdirs {
		b.WriteString(" " + d)
	}
	b.WriteString(" |")
	for _, i := range u.mimps {
		b.WriteString(" " + i)
	}
	b.WriteString(" |")
	for _, m := range u.mods {
		b.WriteString(" " + m.String())
	}
	b.WriteString(" |")
	for _, m := range u.mods {
		for _, d := range u.deps[m] {
			b.WriteString(" " + m.String() + ">" + d.String())
		}
	}
	b.WriteString(" |")
	for _, m := range u.mods {
		for _, d := range u.pkgs[m] {
			b.WriteString(" " + m.String() + ":" + d)
		}
	}
	b.WriteString(" |")
	for _, m := range u.mods {
		for _, d := range u.pkgs[m] {
			for _, i := range u.imps[pkgID{m, d}] {
				b.WriteString(" " + m.String() + ":" + d + ">" + i)
			}
		}
	}
	return b.String()
}

// ---------------------------------------------------------------- registry ----

type memMod struct {
	mf  *modfile.File
	fsy fstest.MapFS
}

// memReg implements modload.Registry (Fetch, ModFile, ModuleVersions) in memory.
// Listings are returned in a PRNG-chosen order and calls yield / sleep at
// PRNG-chosen points so that the loader's worker goroutines interleave differently
// from run to run.
type memReg struct {
	mods    map[string]*memMod // key: base@version
	byBase  map[string][]string
	mu      sync.Mutex
	rng     *common.Rng
	shuffle bool
	latency bool
	nFetch  int
	nList   int
}

func (r *memReg) jitter() {
	if !r.latency {
		return
	}
	r.mu.Lock()
	d := r.rng.Intn(6)
	r.mu.Unlock()
	switch d {
	case 1:
		runtime.Gosched()
	case 2:
		time.Sleep(30 * time.Microsecond)
	case 3:
		for i := 0; i < 3; i++ {
			runtime.Gosched()
		}
	}
}

func keyOf(m module.Version) string { return m.BasePath() + "@" + m.Version() }

func (r *memReg) Fetch(ctx context.Context, m module.Version) (module.SourceLoc, error) {
	r.jitter()
	r.mu.Lock()
	r.nFetch++
	r.mu.Unlock()
	mm, ok := r.mods[keyOf(m)]
	if !ok || semver.Major(m.Version()) != majorOfPath(m.Path()) {
		return module.SourceLoc{}, &modregistry.ModuleError{Module: m.String(), Err: modregistry.ErrNotFound}
	}
	return module.SourceLoc{FS: mm.fsy, Dir: "."}, nil
}

func majorOfPath(p string) string {
	_, v, _ := ast.SplitPackageVersion(p)
	return v
}

func (r *memReg) ModFile(ctx context.Context, m module.Version) (*modfile.File, error) {
	r.jitter()
	mm, ok := r.mods[keyOf(m)]
	if !ok || semver.Major(m.Version()) != majorOfPath(m.Path()) {
		return nil, &modregistry.ModuleError{Module: m.String(), Err: modregistry.ErrNotFound}
	}
	return mm.mf, nil
}

func (r *memReg) ModuleVersions(ctx context.Context, mpath string) ([]string, error) {
	r.jitter()
	base, major, hasMajor := ast.SplitPackageVersion(mpath)
	var out []string
	for _, v := range r.byBase[base] {
		if !hasMajor || semver.Major(v) == major {
			out = append(out, v)
		}
	}
	r.mu.Lock()
	r.nList++
	if r.shuffle {
		common.Shuffle(r.rng, out)
	} else {
		semver.Sort(out)
	}
	r.mu.Unlock()
	return out, nil
}

func pkgNameOf(base, dir string) string {
	p := base
	if dir != "." {
		p = base + "/" + dir
	}
	return ast.ParseImportPath(p).Qualifier
}

func depsMap(ds []dep) map[string]*modfile.Dep {
	if len(ds) == 0 {
		return nil
	}
	m := map[string]*modfile.Dep{}
	for _, d := range ds {
		m[d.base+"@"+semver.Major(d.ver)] = &modfile.Dep{Version: d.ver, Default: d.def}
	}
	return m
}

// cueFile renders one CUE file of package name with the given imports.
func cueFile(name string, imps []string) []byte {
	var b strings.Builder
	fmt.Fprintf(&b, "package %s\n\n", name)
	if len(imps) > 0 {
		b.WriteString("import (\n")
		for i, imp := range imps {
			// an alias keeps the file well formed whatever the import path looks like
			fmt.Fprintf(&b, "\ti%d %q\n", i, imp)
		}
		b.WriteString(")\n")
		for i := range imps {
			fmt.Fprintf(&b, "_u%d: i%d\n", i, i)
		}
	}
	return []byte(b.String())
}

// layout controls presentation choices that must not matter: how imports are
// spread over files, their order, file names.
type layout struct {
	rng *common.Rng // nil: canonical layout
}

func (l layout) perm(xs []string) []string {
	xs = slices.Clone(xs)
	if l.rng != nil {
		common.Shuffle(l.rng, xs)
	}
	return xs
}

func (l layout) split(imps []string) [][]string {
	imps = l.perm(imps)
	if l.rng == nil || len(imps) < 2 {
		return [][]string{imps}
	}
	n := 1 + l.rng.Intn(3)
	out := make([][]string, n)
	for _, imp := range imps {
		k := l.rng.Intn(n)
		out[k] = append(out[k], imp)
		if l.rng.Chance(1, 5) { // the same import in two files
			k2 := l.rng.Intn(n)
			out[k2] = append(out[k2], imp)
		}
	}
	return out
}

func (l layout) fileName(i int) string {
	if l.rng == nil {
		return fmt.Sprintf("f%d.cue", i)
	}
	return fmt.Sprintf("%c%d.cue", 'a'+byte(l.rng.Intn(26)), i)
}

func addPkgFiles(fsy fstest.MapFS, dir, name string, imps []string, l layout) {
	for i, part := range l.split(imps) {
		p := l.fileName(i)
		if dir != "." {
			p = dir + "/" + p
		}
		fsy[p] = &fstest.MapFile{Data: cueFile(name, part)}
	}
}

func (u *universe) registry(rng *common.Rng, shuffle, latency bool, l layout) (*memReg, error) {
	r := &memReg{mods: map[string]*memMod{}, byBase: map[string][]string{}, rng: rng, shuffle: shuffle, latency: latency}
	for _, m := range u.mods {
		if _, dup := r.mods[m.String()]; dup {
			continue
		}
		mf := &modfile.File{
			Module:   m.base + "@" + semver.Major(m.ver),
			Language: &modfile.Language{Version: langVersion},
			Deps:     depsMap(u.deps[m]),
		}
		if err := mf.Init(); err != nil {
			return nil, fmt.Errorf("module %v: %v", m, err)
		}
		data, err := modfile.Format(mf)
		if err != nil {
			return nil, fmt.Errorf("module %v: %v", m, err)
		}
		fsy := fstest.MapFS{"cue.mod/module.cue": &fstest.MapFile{Data: data}}
		for _, d := range l.perm(u.pkgs[m]) {
			addPkgFiles(fsy, d, pkgNameOf(m.base, d), u.imps[pkgID{m, d}], l)
		}
		r.mods[m.String()] = &memMod{mf: mf, fsy: fsy}
		r.byBase[m.base] = append(r.byBase[m.base], m.ver)
	}
	return r, nil
}

// mainFS lays the main module out: every main directory gets a package; the
// main module's imports are spread over those packages' files.
func (u *universe) mainFS(deps []dep, l layout) (fstest.MapFS, error) {
	mf := &modfile.File{
		Module:   u.mainBase + "@" + u.mainMajor,
		Language: &modfile.Language{Version: langVersion},
		Deps:     depsMap(deps),
	}
	data, err := modfile.Format(mf)
	if err != nil {
		return nil, err
	}
	fsy := fstest.MapFS{"cue.mod/module.cue": &fstest.MapFile{Data: data}}
	dirs := slices.Clone(u.mdirs)
	if len(dirs) == 0 {
		dirs = []string{"."}
	}
	per := map[string][]string{}
	imps := l.perm(u.mimps)
	for i, imp := range imps {
		k := 0
		if l.rng != nil {
			k = l.rng.Intn(len(dirs))
		} else {
			k = i % len(dirs)
		}
		per[dirs[k]] = append(per[dirs[k]], imp)
	}
	for _, d := range dirs {
		name := "main"
		if d != "." {
			name = pkgNameOf(u.mainBase, d)
		}
		addPkgFiles(fsy, d, name, per[d], l)
	}
	return fsy, nil
}

// ------------------------------------------------------------------ runner ----

// outcome is the projected observable of one Tidy run.
type outcome struct {
	ok   bool
	deps []dep // sorted
	errK string
	err  string
}

func (o outcome) String() string {
	if !o.ok {
		return "ERR:" + o.errK
	}
	var parts []string
	for _, d := range o.deps {
		parts = append(parts, d.String())
	}
	return strings.TrimSpace("OK " + strings.Join(parts, " "))
}

func classify(err error) string {
	s := err.Error()
	switch {
	case strings.Contains(s, "ambiguous import"):
		return "ambiguous"
	case strings.Contains(s, "cannot find module providing package"):
		return "missing"
	case strings.Contains(s, "module is not tidy"):
		return "nottidy"
	case strings.Contains(s, "not found") || strings.Contains(s, "cannot fetch"):
		return "fetch"
	}
	return "other"
}

func projectFile(mf *modfile.File) []dep {
	var out []dep
	for k, d := range mf.Deps {
		base, _, _ := ast.SplitPackageVersion(k)
		out = append(out, dep{base, d.Version, d.Default})
	}
	sort.Slice(out, func(i, j int) bool {
		if out[i].base != out[j].base {
			return out[i].base < out[j].base
		}
		return semver.Compare(out[i].ver, out[j].ver) < 0
	})
	return out
}

func runTidy(fsy fs.FS, reg modload.Registry) (o outcome) {
	defer func() {
		if e := recover(); e != nil {
			o = outcome{errK: "panic", err: fmt.Sprint(e)}
		}
	}()
	res, err := modload.Tidy(context.Background(), fsy, ".", reg, nil)
	if err != nil {
		return outcome{errK: classify(err), err: err.Error()}
	}
	if res.Module == nil || res.Local != nil {
		return outcome{errK: "shape", err: "unexpected TidyResult shape"}
	}
	// the result must survive the module file codec
	data, err := modfile.Format(res.Module)
	if err != nil {
		return outcome{errK: "format", err: err.Error()}
	}
	back, err := modfile.Parse(data, "module.cue")
	if err != nil {
		return outcome{errK: "reparse", err: err.Error()}
	}
	a, b := projectFile(res.Module), projectFile(back)
	if !slices.Equal(a, b) {
		return outcome{errK: "codec", err: "Parse(Format(result)) differs"}
	}
	return outcome{ok: true, deps: a}
}

func runCheck(fsy fs.FS, reg modload.Registry) (res string) {
	defer func() {
		if e := recover(); e != nil {
			res = "ERR:panic"
		}
	}()
	err := modload.CheckTidy(context.Background(), fsy, ".", reg, nil)
	if err == nil {
		return "ACCEPT"
	}
	var nt *modload.ErrModuleNotTidy
	if errors.As(err, &nt) {
		return "REJECT"
	}
	return "ERR:" + classify(err)
}
