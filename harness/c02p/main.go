// C02 harness, parser part: runs parser.ParseExpr (cue/parser) on generated expression
// sources and records verdict / number of errors / smallest error offset / AST shape; the token
// list the parser's scanner produces (kind, offset, line, flag, scanner errors) is recorded with
// a second scanner.Scanner run and handed to the extracted Coq model (Robust/Parse.v), which
// must print the same line.
//
//	harness-c02p --seed S --out DIR --n N [--replay-cases FILE]
package main

import (
	"fmt"
	"os"
	"sort"
	"strings"
	"time"

	"cuelang.org/go/cue/ast"
	"cuelang.org/go/cue/errors"
	"cuelang.org/go/cue/parser"
	"cuelang.org/go/cue/scanner"
	"cuelang.org/go/cue/token"
	"cuelang.org/go/internal/verifharness/common"
)

const maxNest = 10000 // parser.maxNestLevel (a constant of the model's Section)

// ------------------------------------------------------------- token list ----

type serr struct{ off, line int }

// tokens returns the model's token list for src, or "" with a reason if src is outside the fragment.
func tokens(src []byte) (string, string) {
	var s scanner.Scanner
	f := token.NewFile("x.cue", -1, len(src))
	var pending []token.Pos
	s.Init(f, src, func(pos token.Pos, msg string, args []interface{}) { pending = append(pending, pos) }, 0)
	type tk struct {
		kind, off int
		pos       token.Pos
		flag      bool
		errs      []token.Pos
	}
	var toks []tk
	var eof token.Pos
	for {
		pos, tok, lit := s.Scan()
		errs := pending
		pending = nil
		if tok == token.EOF {
			if len(errs) > 0 {
				return "", "errors-at-eof"
			}
			eof = pos
			break
		}
		switch tok {
		case token.LBRACE, token.INTERPOLATION, token.FOR, token.IF, token.TRY, token.COMMENT:
			return "", "outside:" + tok.String()
		}
		fl := false
		switch tok {
		case token.COMMA:
			fl = lit == "\n"
		case token.STRING:
			fl = strings.HasPrefix(lit, `"`) && !strings.HasPrefix(lit, `""`)
		case token.IDENT:
			fl = strings.HasPrefix(lit, "__")
		}
		toks = append(toks, tk{int(tok), pos.Offset(), pos, fl, errs})
		if len(toks) > 200000 {
			return "", "too-long"
		}
	}
	var b strings.Builder
	fmt.Fprintf(&b, "PARSE %d %d %d", maxNest, eof.Offset(), eof.Line())
	for _, t := range toks {
		fl := 0
		if t.flag {
			fl = 1
		}
		fmt.Fprintf(&b, " %d:%d:%d:%d:", t.kind, t.off, t.pos.Line(), fl)
		if len(t.errs) == 0 {
			b.WriteByte('-')
		}
		for i, e := range t.errs {
			if i > 0 {
				b.WriteByte(';')
			}
			fmt.Fprintf(&b, "%d.%d", e.Offset(), e.Line())
		}
	}
	return b.String(), ""
}

// ------------------------------------------------------------------ shape ----

func shape(b *strings.Builder, n ast.Node) {
	opt := func(e ast.Expr) {
		if e == nil {
			b.WriteString(" nil")
		} else {
			b.WriteByte(' ')
			shape(b, e)
		}
	}
	switch x := n.(type) {
	case *ast.BadExpr:
		b.WriteString("bad")
	case *ast.BottomLit:
		b.WriteString("bottom")
	case *ast.Ident:
		b.WriteString("id")
	case *ast.BasicLit:
		fmt.Fprintf(b, "lit%d", int(x.Kind))
	case *ast.ParenExpr:
		b.WriteString("(paren ")
		shape(b, x.X)
		b.WriteByte(')')
	case *ast.UnaryExpr:
		fmt.Fprintf(b, "(un%d ", int(x.Op))
		shape(b, x.X)
		b.WriteByte(')')
	case *ast.BinaryExpr:
		fmt.Fprintf(b, "(bin%d ", int(x.Op))
		shape(b, x.X)
		b.WriteByte(' ')
		shape(b, x.Y)
		b.WriteByte(')')
	case *ast.SelectorExpr:
		b.WriteString("(sel ")
		shape(b, x.X)
		b.WriteByte(')')
	case *ast.IndexExpr:
		b.WriteString("(index ")
		shape(b, x.X)
		opt(x.Index)
		b.WriteByte(')')
	case *ast.SliceExpr:
		b.WriteString("(slice ")
		shape(b, x.X)
		opt(x.Low)
		opt(x.High)
		b.WriteByte(')')
	case *ast.CallExpr:
		b.WriteString("(call ")
		shape(b, x.Fun)
		for _, a := range x.Args {
			b.WriteByte(' ')
			shape(b, a)
		}
		b.WriteByte(')')
	case *ast.ListLit:
		b.WriteString("(list")
		for _, a := range x.Elts {
			b.WriteByte(' ')
			shape(b, a)
		}
		b.WriteByte(')')
	case *ast.Ellipsis:
		b.WriteString("(ellipsis")
		opt(x.Type)
		b.WriteByte(')')
	case *ast.Alias:
		b.WriteString("(alias ")
		shape(b, x.Expr)
		b.WriteByte(')')
	case *ast.PostfixExpr:
		b.WriteString("(postfix ")
		shape(b, x.X)
		b.WriteByte(')')
	default:
		fmt.Fprintf(b, "(other-%T)", n)
	}
}

// --------------------------------------------------------------- the impl ----

func parseOnce(src []byte) (res string) {
	defer func() {
		if r := recover(); r != nil {
			res = fmt.Sprintf("ESCAPED %v", r)
			if len(res) > 120 {
				res = res[:120]
			}
			res = strings.ReplaceAll(res, "\n", " ")
		}
	}()
	e, err := parser.ParseExpr("x.cue", src)
	if err != nil {
		es := errors.Errors(err)
		mn := int(^uint(0) >> 1)
		for _, x := range es {
			if o := x.Position().Offset(); o < mn {
				mn = o
			}
		}
		return fmt.Sprintf("R %d %d", len(es), mn)
	}
	var b strings.Builder
	shape(&b, e)
	return "A " + b.String()
}

var hangs int

func parseGuarded(src []byte) string {
	if hangs >= 3 {
		return "SKIPPED-after-hangs"
	}
	ch := make(chan string, 1)
	go func() { ch <- parseOnce(src) }()
	select {
	case r := <-ch:
		return r
	case <-time.After(20 * time.Second):
		hangs++
		return "HANG"
	}
}

// ------------------------------------------------------------- generators ----

var atoms = []string{"a", "b", "x1", "_", "_x", "#D", "__r", "1", "23", "0x1F", "1.5", "1e3", "\"s\"", "\"\"", "'b'", "#\"r\"#",
	"\"\"\"\n  m\n  \"\"\"", "null", "true", "false", "_|_", "int", "string", "func", "in", "let", "else", "otherwise", "fallback"}
var binops = []string{"+", "-", "*", "/", "&", "|", "&&", "||", "==", "!=", "<", "<=", ">", ">=", "=~", "!~"}
var unops = []string{"+", "-", "!", "*", "<", "<=", ">=", ">", "!=", "=~", "!~"}
var junk = []string{",", ":", "?", "=", "...", ".", ")", "]", "(", "[", "==", "~", "@a(b)", ";", "$", "\n", "1 2", "\"x", "0x", "}", "!", "..", "<-"}

func genExpr(r *common.Rng, depth int) string {
	if depth <= 0 || r.Chance(1, 4) {
		return common.Pick(r, atoms)
	}
	sp := func() string {
		switch r.Intn(6) {
		case 0:
			return " "
		case 1:
			return "\n"
		}
		return ""
	}
	switch r.Intn(13) {
	case 0, 1:
		return genExpr(r, depth-1) + " " + common.Pick(r, binops) + sp() + " " + genExpr(r, depth-1)
	case 2:
		return common.Pick(r, unops) + genExpr(r, depth-1)
	case 3:
		return "(" + sp() + genExpr(r, depth-1) + sp() + ")"
	case 4, 5:
		n := r.Intn(4)
		var el []string
		for i := 0; i < n; i++ {
			if r.Chance(1, 8) {
				el = append(el, common.Pick(r, []string{"a", "X", "__y", "1"})+" = "+genExpr(r, depth-1))
			} else {
				el = append(el, genExpr(r, depth-1))
			}
		}
		s := "[" + sp() + strings.Join(el, common.Pick(r, []string{", ", ",", ",\n", "\n", ", "}))
		switch r.Intn(8) {
		case 0:
			if n > 0 {
				s += ", "
			}
			s += "..."
		case 1:
			if n > 0 {
				s += ", "
			}
			s += "..." + genExpr(r, depth-1)
		case 2:
			s += ","
		case 3:
			s += "\n"
		}
		return s + "]"
	case 6:
		return genExpr(r, depth-1) + "." + common.Pick(r, []string{"f", "g", "\"k\"", "if0", "in", "null", "\"\"\"x\"\"\"", "1", "f?"})
	case 7:
		return genExpr(r, depth-1) + "[" + genExpr(r, depth-1) + common.Pick(r, []string{"", "", ",", "\n"}) + "]" + common.Pick(r, []string{"", "", "?"})
	case 8:
		lo, hi := "", ""
		if r.Bool() {
			lo = genExpr(r, depth-1)
		}
		if r.Bool() {
			hi = genExpr(r, depth-1)
		}
		return genExpr(r, depth-1) + "[" + lo + ":" + hi + common.Pick(r, []string{"", "", "", ":", ":1", ","}) + "]"
	case 9, 10:
		n := r.Intn(3)
		var el []string
		for i := 0; i < n; i++ {
			el = append(el, genExpr(r, depth-1))
		}
		return genExpr(r, depth-1) + "(" + strings.Join(el, common.Pick(r, []string{", ", ",", ",\n", "\n"})) + common.Pick(r, []string{"", "", ",", "\n"}) + ")"
	case 11:
		return common.Pick(r, []string{"a", "b.c", "x1"}) + "?"
	default:
		return genExpr(r, depth-1) + common.Pick(r, []string{"...", " ?", "?:"})
	}
}

func mutate(r *common.Rng, s string) string {
	b := []byte(s)
	n := 1 + r.Intn(3)
	for i := 0; i < n; i++ {
		p := 0
		if len(b) > 0 {
			p = r.Intn(len(b) + 1)
		}
		switch r.Intn(4) {
		case 0: // insert junk
			j := common.Pick(r, junk)
			b = append(b[:p:p], append([]byte(j), b[p:]...)...)
		case 1: // delete a byte
			if p < len(b) {
				b = append(b[:p:p], b[p+1:]...)
			}
		case 2: // duplicate a chunk
			if p < len(b) {
				q := p + 1 + r.Intn(min(6, len(b)-p))
				b = append(b[:q:q], append([]byte(string(b[p:q])), b[q:]...)...)
			}
		default: // truncate
			b = b[:p]
		}
	}
	return string(b)
}

type kase struct{ kind, src string }

func fixedCases() []kase {
	var out []kase
	add := func(k, s string) { out = append(out, kase{k, s}) }
	for _, s := range []string{"", "1", "a", "a?", "a?:", "a ? b", "a[1]", "a[1:2]", "a[:]", "a[::]", "a[1:2:3]", "a[1:2:]", "a[:2:3]", "a[", "a[:", "a[1:",
		"a[,]", "a[1,]", "f()", "f(1,2)", "f(1 2)", "f(1\n2)", "f(1,", "f(", "(1", "(1\n)", "[", "[1", "[1,", "[1 2]", "[1\n2]", "[...]", "[...int]", "[1, ...]",
		"[... ,]", "[...\n]", "[a=1]", "[__a=1]", "[1=2]", "[a=b=c]", "a.b", "a.", "a.1", "a.\"s\"", "a.\"\"\"s\"\"\"", "a.if", "a.null.b?", "a...", "a ... b",
		"1 +", "+", "* 1", "== 1", "- - ! 1", "1 + 2 * 3", "1 * 2 + 3", "1 | 2 & 3 || 4 && 5 == 6 + 7 * 8", "1 < 2 < 3", ",", ",,", ", 1", "1,", "1, 2", "1\n",
		"1\n2", ")", "]", "())", "[)]", "(]", "a b c d e f g h i j k l m", "1 1\n1 1\n1 1\n1 1\n1 1\n1 1\n1 1\n1 1\n1 1\n1 1\n1 1\n1 1\n1 1",
		"[1 1\n1 1\n1 1\n1 1\n1 1\n1 1\n1 1\n1 1\n1 1\n1 1\n1 1\n1 1\n1 1]", "f(1 1\n1 1\n1 1\n1 1\n1 1\n1 1\n1 1\n1 1\n1 1\n1 1\n1 1\n1 1\n1 1)",
		"[+,\n+,\n+,\n+,\n+,\n+,\n+,\n+,\n+,\n+,\n+,\n+,\n+,\n+]", "a.\n1.\n1.\n1.\n1.\n1.\n1.\n1.\n1.\n1.\n1.\n1.\n1.\n1.\n1", "\"x", "0x", "'a\n'", "$", "a $ b", "@attr(x)", "func", "func(a)", "in.x", "__x", "#a.#b",
		"a...\nb...\nc...\nd...\ne...\nf...\ng...\nh...\ni...\nj...\nk...\nl...\nm...", "a[1:2\n:3]", "a[:2?]", "a?[1]?.b?"} {
		add("fixed", s)
	}
	// moderately deep nesting (the boundary at maxNestLevel itself is exercised by the c02x exploration:
	// the model's unary-nat depth accounting is quadratic, 10 000 levels do not fit the time budget)
	for _, n := range []int{50, 200} {
		add("deep-paren", strings.Repeat("(", n-1)+"1"+strings.Repeat(")", n-1))
		add("deep-unary", strings.Repeat("-", n-1)+"1")
		add("deep-list", strings.Repeat("[", n-1)+"1"+strings.Repeat("]", n-1))
		add("deep-call", strings.Repeat("f(", n-1)+"1"+strings.Repeat(")", n-1))
		add("deep-index", strings.Repeat("a[", n-1)+"1"+strings.Repeat("]", n-1))
		add("deep-mixed", strings.Repeat("([-", (n-1)/3)+"1")
		add("deep-open", strings.Repeat("(", n-1))
		add("deep-after-error", "1 1\n+"+strings.Repeat("(", n))
	}
	add("long-binary", "1"+strings.Repeat(" + 1", 300))
	add("long-prec", "1"+strings.Repeat(" | 1 & 2 || 3 && 4 == 5 + 6 * 7", 40))
	add("long-list", "["+strings.Repeat("1, ", 300)+"]")
	add("long-sel", "a"+strings.Repeat(".b", 300))
	add("long-call", "a"+strings.Repeat("(1)", 300))
	return out
}

func main() {
	args := common.Args(os.Args[1:])
	seed := uint64(common.Atoi(args["--seed"], 1))
	n := common.Atoi(args["--n"], 4000)
	dir := args["--out"]
	out := common.NewOut(dir)
	meta, err := os.Create(dir + "/meta.txt")
	if err != nil {
		panic(err)
	}
	defer meta.Close()
	skipped := map[string]int{}
	kinds := map[string]int{}
	emit := func(k kase) {
		line, why := tokens([]byte(k.src))
		if line == "" {
			skipped[strings.SplitN(why, ":", 2)[0]]++
			return
		}
		out.Emit(line, parseGuarded([]byte(k.src)))
		fmt.Fprintf(meta, "%s %s\n", k.kind, common.Hex(k.src))
		kinds[k.kind]++
	}
	if f := args["--replay-cases"]; f != "" {
		data, err := os.ReadFile(f)
		if err != nil {
			panic(err)
		}
		for _, l := range strings.Split(strings.TrimSpace(string(data)), "\n") {
			p := strings.Fields(l)
			if len(p) == 2 {
				emit(kase{p[0], common.Unhex(p[1])})
			} else if len(p) == 1 {
				emit(kase{p[0], ""})
			}
		}
	} else {
		for _, k := range fixedCases() {
			emit(k)
		}
		r := common.NewRng(seed*7919 + 17)
		for i := 0; i < n; i++ {
			s := genExpr(r, 1+r.Intn(5))
			switch r.Intn(10) {
			case 0, 1, 2, 3:
				emit(kase{"gen", s})
			case 4, 5, 6:
				emit(kase{"mutated", mutate(r, s)})
			case 7:
				emit(kase{"truncated", s[:r.Intn(len(s)+1)]})
			case 8:
				// error-rich: several broken lines (the 10-error limit)
				var ls []string
				for j := 0; j < 2+r.Intn(14); j++ {
					ls = append(ls, mutate(r, genExpr(r, 2)))
				}
				emit(kase{"multi-error", common.Pick(r, []string{"[", "f(", "(", ""}) + strings.Join(ls, common.Pick(r, []string{",\n", "\n", " "}))})
			default:
				var ts []string
				for j := 0; j < 1+r.Intn(10); j++ {
					if r.Bool() {
						ts = append(ts, common.Pick(r, atoms))
					} else if r.Bool() {
						ts = append(ts, common.Pick(r, junk))
					} else {
						ts = append(ts, common.Pick(r, binops))
					}
				}
				emit(kase{"soup", strings.Join(ts, common.Pick(r, []string{" ", "", "\n"}))})
			}
		}
	}
	out.Close()
	var ks []string
	for k, v := range kinds {
		ks = append(ks, fmt.Sprintf("%s=%d", k, v))
	}
	for k, v := range skipped {
		ks = append(ks, fmt.Sprintf("skipped-%s=%d", k, v))
	}
	sort.Strings(ks)
	fmt.Printf("cases=%d hangs=%d %s\n", out.N, hangs, strings.Join(ks, " "))
}
