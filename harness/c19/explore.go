package main

import (
	"bufio"
	"encoding/json"
	"fmt"
	"os"
	goruntime "runtime"
	"runtime/debug"
	"runtime/pprof"
	"strings"
	"sync"
	"sync/atomic"
	"time"

	"cuelang.org/go/internal/verifharness/common"
)

type Mismatch struct {
	Call, Want, Got, Where string
}

type RoundRec struct {
	Round      int
	Kind       string
	Seed       uint64
	G          int
	Program    string
	Programs   []string `json:",omitempty"`
	Calls      []string
	NCalls     int
	Executed   int // concurrent call executions compared with the baseline
	Sequential int // sequential executions (baselines, warm-up, after)
	Unstable   []string
	UnstableDetail []Mismatch `json:",omitempty"`
	Mismatches []Mismatch
	Panics     []string
	Feats      map[string]int
	BaseErr    int // baseline results that are errors / non-existent
	Unfinalized []string `json:",omitempty"` // arcs not finalized after CompileString on a private copy (precondition of F11)
	ElapsedMs  int64
}

var kinds = []string{"shared-warm", "shared-cold", "shared-cold", "multi-ctx", "mixed", "decode-fold", "pattern-alias"}

func safeCall(c Call, e *Env) (res string) {
	defer func() {
		if x := recover(); x != nil {
			st := string(debug.Stack())
			if len(st) > 3000 {
				st = st[:3000]
			}
			res = fmt.Sprintf("PANIC: %v\n%s", x, st)
		}
	}()
	return c.Fn(e)
}

func trunc(s string) string {
	if len(s) > 1500 {
		return s[:1500] + "...(truncated)"
	}
	return s
}

type roundCtx struct {
	rec *RoundRec
	mu  sync.Mutex
	ex  atomic.Int64
}

func (rc *roundCtx) compare(call Call, want, got, where string, unstable bool) {
	if strings.HasPrefix(got, "PANIC:") && !strings.HasPrefix(want, "PANIC:") {
		rc.mu.Lock()
		if len(rc.rec.Panics) < 5 {
			rc.rec.Panics = append(rc.rec.Panics, where+": "+call.Desc+": "+trunc(got))
		}
		rc.mu.Unlock()
		return
	}
	if unstable || got == want {
		return
	}
	rc.mu.Lock()
	if len(rc.rec.Mismatches) < 5 {
		rc.rec.Mismatches = append(rc.rec.Mismatches, Mismatch{call.Desc, trunc(want), trunc(got), where})
	}
	rc.mu.Unlock()
}

// baseline runs every call sequentially on two fresh copies (forward and reverse order).
func baseline(p *Program, calls []Call, rec *RoundRec) (base []string, unstable []bool) {
	n := len(calls)
	base = make([]string, n)
	base2 := make([]string, n)
	unstable = make([]bool, n)
	e1 := newEnv(p.Src)
	for i := range calls {
		base[i] = safeCall(calls[i], e1)
	}
	e2 := newEnv(p.Src)
	for i := n - 1; i >= 0; i-- {
		base2[i] = safeCall(calls[i], e2)
	}
	rec.Sequential += 2 * n
	for i := range calls {
		if base[i] != base2[i] || strings.HasPrefix(base[i], "PANIC:") {
			unstable[i] = true
			rec.Unstable = append(rec.Unstable, calls[i].Desc)
			if len(rec.UnstableDetail) < 3 {
				rec.UnstableDetail = append(rec.UnstableDetail, Mismatch{calls[i].Desc, trunc(base[i]), trunc(base2[i]), "forward order vs reverse order, both sequential on fresh copies: " + p.Src})
			}
		}
		if base[i] == "ERR" || base[i] == "NX" || strings.HasPrefix(base[i], "err=ERR") {
			rec.BaseErr++
		}
	}
	return base, unstable
}

func runRound(k int, seed uint64, kind string) *RoundRec {
	switch kind {
	case "decode-fold":
		return runDecodeFold(k, seed)
	case "pattern-alias":
		return runPatternAlias(k, seed)
	}
	t0 := time.Now()
	r := common.NewRng(seed)
	p := genProgram(r.Fork())
	calls := mkCalls(p, r.Fork())
	rec := &RoundRec{Round: k, Kind: kind, Seed: seed, Program: p.Src, NCalls: len(calls), Feats: p.Feats}
	for _, c := range calls {
		rec.Calls = append(rec.Calls, c.Desc)
	}
	rc := &roundCtx{rec: rec}
	rec.Unfinalized = unfinalizedPaths(newEnv(p.Src).V)
	base, unstable := baseline(p, calls, rec)
	g := 2 + r.Intn(15)
	rec.G = g

	// second program for the multi-context kinds
	type prog struct {
		p        *Program
		calls    []Call
		base     []string
		unstable []bool
	}
	progs := []prog{{p, calls, base, unstable}}
	if kind == "multi-ctx" || kind == "mixed" {
		for i, n := 0, r.Intn(3); i < n; i++ {
			q := genProgram(r.Fork())
			qc := mkCalls(q, r.Fork())
			qb, qu := baseline(q, qc, rec)
			progs = append(progs, prog{q, qc, qb, qu})
			rec.Programs = append(rec.Programs, q.Src)
		}
	}

	var shared *Env
	if kind != "multi-ctx" {
		shared = newEnv(p.Src)
		if kind == "shared-warm" {
			for i := range calls {
				rc.compare(calls[i], base[i], safeCall(calls[i], shared), "warm-up (sequential, shared value)", unstable[i])
			}
			rec.Sequential += len(calls)
		}
	}

	plans := make([][]int, g)
	rngs := make([]*common.Rng, g)
	own := make([]int, g) // -1: works on the shared value; >= 0: own context with program own[t]
	for t := 0; t < g; t++ {
		rngs[t] = r.Fork()
		own[t] = -1
		if kind == "multi-ctx" || (kind == "mixed" && t%2 == 1) {
			own[t] = rngs[t].Intn(len(progs))
		}
		nc := len(calls)
		if own[t] >= 0 {
			nc = len(progs[own[t]].calls)
		}
		m := 3 + rngs[t].Intn(nc/2+1)
		for i := 0; i < m; i++ {
			plans[t] = append(plans[t], rngs[t].Intn(nc))
		}
	}
	start := make(chan struct{})
	var wg sync.WaitGroup
	for t := 0; t < g; t++ {
		wg.Add(1)
		go func(t int) {
			defer wg.Done()
			<-start
			skew(rngs[t])
			e, pr, where := shared, progs[0], fmt.Sprintf("goroutine %d/%d on the shared value", t, g)
			if own[t] >= 0 {
				pr = progs[own[t]]
				e = newEnv(pr.p.Src)
				where = fmt.Sprintf("goroutine %d/%d with its own context (program %d)", t, g, own[t])
			}
			for _, i := range plans[t] {
				rc.compare(pr.calls[i], pr.base[i], safeCall(pr.calls[i], e), where, pr.unstable[i])
				rc.ex.Add(1)
				if rngs[t].Chance(1, 8) {
					goruntime.Gosched()
				}
			}
		}(t)
	}
	close(start)
	wg.Wait()
	rec.Executed = int(rc.ex.Load())
	if shared != nil {
		for i := range calls {
			rc.compare(calls[i], base[i], safeCall(calls[i], shared), "after the concurrent phase (sequential, shared value)", unstable[i])
		}
		rec.Sequential += len(calls)
	}
	rec.ElapsedMs = time.Since(t0).Milliseconds()
	return rec
}

func runExplore(seed uint64, out string, args map[string]string) {
	rounds := common.Atoi(args["--rounds"], 20)
	deadline := time.Duration(common.Atoi(args["--deadline-s"], 3600)) * time.Second
	roundTimeout := time.Duration(common.Atoi(args["--round-timeout-s"], 120)) * time.Second
	name := args["--name"]
	if name == "" {
		name = "explore"
	}
	f, err := os.Create(out + "/" + name + ".jsonl")
	if err != nil {
		panic(err)
	}
	defer f.Close()
	w := bufio.NewWriter(f)
	defer w.Flush()
	enc := json.NewEncoder(w)
	r := common.NewRng(seed)
	t0 := time.Now()

	var cur atomic.Pointer[string]
	var beat atomic.Int64
	beat.Store(time.Now().UnixNano())
	go func() {
		for {
			time.Sleep(time.Second)
			if time.Since(time.Unix(0, beat.Load())) > roundTimeout {
				fmt.Fprintf(os.Stderr, "C19-TIMEOUT %s\n", *cur.Load())
				pprof.Lookup("goroutine").WriteTo(os.Stderr, 1)
				w.Flush()
				os.Exit(3)
			}
		}
	}()

	one := func(k int, rs uint64, kind string) {
		desc := fmt.Sprintf("round=%d seed=%d kind=%s", k, rs, kind)
		cur.Store(&desc)
		beat.Store(time.Now().UnixNano())
		fmt.Fprintf(os.Stderr, "C19-ROUND %s\n", desc)
		rec := runRound(k, rs, kind)
		fmt.Fprintf(os.Stderr, "C19-ROUND-END %s\n", desc)
		enc.Encode(rec)
		w.Flush()
	}
	if s := args["--only-seed"]; s != "" {
		var rs uint64
		fmt.Sscan(s, &rs)
		kind := args["--kind"]
		for i := 0; i < common.Atoi(args["--reps"], 10); i++ {
			one(i, rs, kind)
		}
		return
	}
	minRounds := common.Atoi(args["--min-rounds"], 0)
	for k := 0; k < rounds && (time.Since(t0) < deadline || k < minRounds); k++ {
		rs := r.Next()
		kind := kinds[int(rs>>8)%len(kinds)]
		switch k { // the two targeted kinds always run, even when the machine is slow
		case 0:
			kind = "decode-fold"
		case 1:
			kind = "pattern-alias"
		}
		one(k, rs, kind)
	}
}

// runWitness: a fixed program and a fixed call pair/group, all goroutines start
// together on a freshly compiled value; used to confirm known findings and for
// minimal replays.  --src FILE --calls "desc1|desc2|.." (descriptions as produced by
// witnessCalls) --g N --reps N
func witnessCalls() map[string]func(e *Env) string {
	m := map[string]func(e *Env) string{}
	for _, os := range optSets {
		os := os
		m["syntax "+os.name] = func(e *Env) string { return text(e.V, os.opts...) }
		m["validate "+os.name] = func(e *Env) string { return errClass(e.V.Validate(os.opts...)) }
		m["fields "+os.name] = func(e *Env) string { return fieldsOf(e.V, 2, os.opts...) }
	}
	m["yaml"] = func(e *Env) string {
		b, err := yamlEncode(e.V)
		if err != nil {
			return "ERR"
		}
		return string(b)
	}
	m["json"] = func(e *Env) string {
		b, err := e.V.MarshalJSON()
		if err != nil {
			return "ERR"
		}
		return string(b)
	}
	m["decode map"] = func(e *Env) string {
		var x map[string]any
		if err := e.V.Decode(&x); err != nil {
			return "ERR"
		}
		return jsonOf(x)
	}
	m["unify small0"] = func(e *Env) string { return describe(e.V.Unify(e.Smalls[0])) }
	m["describe"] = func(e *Env) string { return describe(e.V) }
	return m
}

func runWitness(out string, args map[string]string) {
	srcb, err := os.ReadFile(args["--src"])
	if err != nil {
		panic(err)
	}
	wc := witnessCalls()
	var fns []Call
	for _, d := range strings.Split(args["--calls"], "|") {
		d = strings.TrimSpace(d)
		fn, ok := wc[d]
		if !ok {
			fn, ok = witnessCallAt(d)
		}
		if !ok {
			fmt.Fprintln(os.Stderr, "unknown witness call", d)
			os.Exit(2)
		}
		fns = append(fns, Call{d, fn})
	}
	g := common.Atoi(args["--g"], 8)
	reps := common.Atoi(args["--reps"], 20)
	mism := 0
	var first atomic.Pointer[string]
	for rep := 0; rep < reps; rep++ {
		fmt.Fprintf(os.Stderr, "C19-ROUND witness rep=%d\n", rep)
		eb := newEnv(string(srcb))
		base := make([]string, len(fns))
		for i, c := range fns {
			base[i] = safeCall(c, eb)
		}
		e := newEnv(string(srcb))
		bar := &spinBarrier{n: int32(g)}
		var wg sync.WaitGroup
		var bad atomic.Int64
		for t := 0; t < g; t++ {
			wg.Add(1)
			go func(t int) {
				defer wg.Done()
				bar.wait()
				for i := range fns {
					j := (i + t) % len(fns)
					if got := safeCall(fns[j], e); got != base[j] {
						bad.Add(1)
						d := fmt.Sprintf("call %q: sequential %q, concurrent %q", fns[j].Desc, trunc(base[j]), trunc(got))
						first.CompareAndSwap(nil, &d)
					}
				}
			}(t)
		}
		wg.Wait()
		mism += int(bad.Load())
	}
	fmt.Printf("witness reps=%d g=%d mismatches=%d\n", reps, g, mism)
	if d := first.Load(); d != nil {
		fmt.Printf("first-mismatch %s\n", strings.ReplaceAll(*d, "\n", "\\n"))
	}
}

// witnessCallAt understands "lookup PATH", "syntax OPTS @PATH", "fields OPTS @PATH", "default PATH".
func witnessCallAt(d string) (func(e *Env) string, bool) {
	if p, ok := strings.CutPrefix(d, "lookup "); ok {
		return func(e *Env) string { return describe(at(e, p)) }, true
	}
	if p, ok := strings.CutPrefix(d, "default "); ok {
		return func(e *Env) string {
			x, ok := at(e, p).Default()
			return fmt.Sprintf("%v %s", ok, describe(x))
		}, true
	}
	for _, kind := range []string{"syntax ", "fields "} {
		rest, ok := strings.CutPrefix(d, kind)
		if !ok {
			continue
		}
		name, p, ok := strings.Cut(rest, " @")
		if !ok {
			return nil, false
		}
		for _, os := range optSets {
			if os.name == name {
				os := os
				if kind == "syntax " {
					return func(e *Env) string { return text(at(e, p), os.opts...) }, true
				}
				return func(e *Env) string { return fieldsOf(at(e, p), 2, os.opts...) }, true
			}
		}
	}
	return nil, false
}
