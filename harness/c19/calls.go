package main

import (
	"encoding/json"
	"fmt"
	"sort"
	"strings"

	"cuelang.org/go/cue"
	"cuelang.org/go/cue/cuecontext"
	"cuelang.org/go/cue/format"
	"cuelang.org/go/encoding/yaml"
	"cuelang.org/go/internal/verifharness/common"
)

// Env is what a set of API calls operates on: the value under test, small
// values of the SAME context and small values of ANOTHER context.
type Env struct {
	Ctx    *cue.Context
	V      cue.Value
	Smalls []cue.Value
	Others []cue.Value
}

var smallSrcs = []string{
	"{}",
	"{f0: int}",
	"{f1: 1}",
	"{zz: 1}",
	"{f2: string, f3: _}",
	"_",
	"{f0: >=0, zq: {a: 1}}",
	"{#Z: {q: int}, zr: #Z & {q: 2}}",
	"{f4: {a: int}}",
	"[1, 2]",
	"42",
}

func newEnv(src string) *Env {
	ctx := cuecontext.New()
	e := &Env{Ctx: ctx, V: ctx.CompileString(src)}
	for _, s := range smallSrcs {
		e.Smalls = append(e.Smalls, ctx.CompileString(s))
	}
	other := cuecontext.New()
	for _, s := range smallSrcs[:5] {
		e.Others = append(e.Others, other.CompileString(s))
	}
	return e
}

// Call is one API call (or a short chain of calls) with a canonical textual result.
type Call struct {
	Desc string
	Fn   func(e *Env) string
}

func errClass(err error) string {
	if err == nil {
		return "ok"
	}
	return "ERR"
}

func text(w cue.Value, opts ...cue.Option) string {
	if !w.Exists() {
		return "NX"
	}
	b, err := format.Node(w.Syntax(opts...))
	if err != nil {
		return "FMTERR"
	}
	return string(b)
}

// safeText is text() for values handed back by Value.Expr, whose Syntax may panic
// even sequentially (not this property's business): the panic value becomes the text.
func safeText(w cue.Value) (res string) {
	defer func() {
		if x := recover(); x != nil {
			res = fmt.Sprintf("SYNTAX-PANIC(%v)", x)
		}
	}()
	return text(w)
}

func describe(w cue.Value) string {
	if !w.Exists() {
		return "NX"
	}
	return fmt.Sprintf("err=%s kind=%v ikind=%v concrete=%v validate=%s text=%s",
		errClass(w.Err()), w.Kind(), w.IncompleteKind(), w.IsConcrete(), errClass(w.Validate()), text(w))
}

func fieldsOf(w cue.Value, depth int, opts ...cue.Option) string {
	it, err := w.Fields(opts...)
	if err != nil {
		return "ERR"
	}
	var b strings.Builder
	for it.Next() {
		fmt.Fprintf(&b, "%s[%v opt=%v ik=%v]", it.Selector(), it.FieldType(), it.IsOptional(), it.Value().IncompleteKind())
		if depth > 0 && it.Value().IncompleteKind() == cue.StructKind {
			b.WriteString("{" + fieldsOf(it.Value(), depth-1, opts...) + "}")
		}
		b.WriteString(";")
	}
	return b.String()
}

type goStruct struct {
	F0   any            `json:"f0,omitempty"`
	F1   any            `json:"f1,omitempty"`
	F2   any            `json:"f2,omitempty"`
	F3   any            `json:"f3,omitempty"`
	Name string         `json:"name,omitempty"`
	N    *int           `json:"n,omitempty"`
	Kind string         `json:"kind,omitempty"`
	Sub  map[string]any `json:"sub,omitempty"`
	Rest map[string]any `json:",inline"`
}

type encStruct struct {
	Name string   `json:"name"`
	N    int      `json:"n,omitempty"`
	Tags []string `json:"tags,omitempty"`
	Next *encStruct `json:"next,omitempty"`
}

func yamlEncode(v cue.Value) ([]byte, error) { return yaml.Encode(v) }

func jsonOf(x any) string {
	b, err := json.Marshal(x)
	if err != nil {
		return "JSONERR"
	}
	return string(b)
}

var optSets = []struct {
	name string
	opts []cue.Option
}{
	{"none", nil},
	{"final", []cue.Option{cue.Final()}},
	{"concrete", []cue.Option{cue.Concrete(true)}},
	{"notconcrete", []cue.Option{cue.Concrete(false)}},
	{"all", []cue.Option{cue.All()}},
	{"all+docs+attrs", []cue.Option{cue.All(), cue.Docs(true), cue.Attributes(true)}},
	{"raw", []cue.Option{cue.Raw()}},
	{"defs+opt+hidden", []cue.Option{cue.Definitions(true), cue.Optional(true), cue.Hidden(true)}},
	{"inline", []cue.Option{cue.InlineImports(true)}},
	{"schema", []cue.Option{cue.Schema()}},
	{"nocycles", []cue.Option{cue.DisallowCycles(true)}},
	{"patterns", []cue.Option{cue.Patterns(true), cue.Optional(true)}},
}

func at(e *Env, p string) cue.Value {
	if p == "" {
		return e.V
	}
	return e.V.LookupPath(cue.ParsePath(p))
}

// mkCalls derives the call set of a program: deterministic given the program and r.
func mkCalls(p *Program, r *common.Rng) []Call {
	var cs []Call
	add := func(desc string, fn func(e *Env) string) { cs = append(cs, Call{desc, fn}) }
	paths := append([]string(nil), p.Paths...)
	common.Shuffle(r, paths)
	if len(paths) > 12 {
		paths = paths[:12]
	}
	sort.Strings(paths)
	pick := func() string { return paths[r.Intn(len(paths))] }
	structPaths := append([]string{""}, p.Structs...)
	structPaths = append(structPaths, p.Defs...)

	for _, q := range paths {
		q := q
		add("lookup "+q, func(e *Env) string { return describe(at(e, q)) })
	}
	for i := 0; i < 5; i++ {
		q := pick()
		add("kind "+q, func(e *Env) string {
			w := at(e, q)
			n := -1
			if l := w.Len(); l.Exists() {
				if x, err := l.Int64(); err == nil {
					n = int(x)
				}
			}
			return fmt.Sprintf("%v %v %v %v len=%d path=%s null=%v", w.Exists(), w.Kind(), w.IncompleteKind(), w.IsConcrete(), n, w.Path(), w.IsNull())
		})
	}
	for _, os := range []int{0, 4, 7, 11} {
		os := optSets[os]
		sp := structPaths[r.Intn(len(structPaths))]
		add("fields "+os.name+" @"+sp, func(e *Env) string { return fieldsOf(at(e, sp), 1, os.opts...) })
	}
	for i := range smallSrcs {
		i := i
		if r.Chance(1, 2) {
			add(fmt.Sprintf("unify small%d", i), func(e *Env) string { return describe(e.V.Unify(e.Smalls[i])) })
		}
	}
	for i := 0; i < 3; i++ {
		i := i
		add(fmt.Sprintf("unify other%d (cross context)", i), func(e *Env) string { return describe(e.V.Unify(e.Others[i])) })
	}
	for i := 0; i < 3; i++ {
		a, b := pick(), pick()
		add("unifyAt "+a+" "+b, func(e *Env) string { return describe(at(e, a).Unify(at(e, b))) })
		add("equals "+a+" "+b, func(e *Env) string { return fmt.Sprint(at(e, a).Equals(at(e, b))) })
		add("subsume "+a+" "+b, func(e *Env) string {
			return errClass(at(e, a).Subsume(at(e, b))) + "/" + errClass(at(e, a).Subsume(at(e, b), cue.Final()))
		})
	}
	if len(p.Defs) > 0 {
		d := p.Defs[r.Intn(len(p.Defs))]
		add("unify def "+d, func(e *Env) string {
			return describe(at(e, d).Unify(e.Ctx.CompileString(`{name: "u", sub: p: 3}`)))
		})
		add("unify def (encode) "+d, func(e *Env) string {
			return describe(at(e, d).Unify(e.Ctx.Encode(encStruct{Name: "enc", N: 3})))
		})
	}
	fills := []struct {
		name string
		x    func(e *Env) any
	}{
		{"1", func(*Env) any { return 1 }},
		{`"s"`, func(*Env) any { return "s" }},
		{"map", func(*Env) any { return map[string]any{"a": 1, "name": "m"} }},
		{"small3", func(e *Env) any { return e.Smalls[3] }},
		{"other1", func(e *Env) any { return e.Others[1] }},
		{"struct", func(*Env) any { return encStruct{Name: "filled", Tags: []string{"t"}} }},
	}
	for i := 0; i < 5; i++ {
		q := pick()
		if i == 0 {
			q = "zfill.deep"
		}
		if strings.ContainsAny(q, "[") {
			continue
		}
		f := fills[r.Intn(len(fills))]
		add("fill "+q+" "+f.name, func(e *Env) string { return describe(e.V.FillPath(cue.ParsePath(q), f.x(e))) })
	}
	for _, os := range optSets[:6] {
		os := os
		add("validate "+os.name, func(e *Env) string { return errClass(e.V.Validate(os.opts...)) })
	}
	for i := 0; i < 3; i++ {
		q, os := pick(), optSets[r.Intn(6)]
		add("validate "+os.name+" @"+q, func(e *Env) string { return errClass(at(e, q).Validate(os.opts...)) })
	}
	for i := 0; i < 4; i++ {
		q := pick()
		add("default "+q, func(e *Env) string {
			if !at(e, q).Exists() {
				return "NX"
			}
			d, ok := at(e, q).Default()
			return fmt.Sprintf("%v %s", ok, describe(d))
		})
	}
	for _, os := range optSets {
		os := os
		if r.Chance(2, 3) {
			add("syntax "+os.name, func(e *Env) string { return text(e.V, os.opts...) })
		}
	}
	for i := 0; i < 3; i++ {
		q, os := pick(), optSets[r.Intn(len(optSets))]
		add("syntax "+os.name+" @"+q, func(e *Env) string { return text(at(e, q), os.opts...) })
	}
	add("json", func(e *Env) string {
		b, err := e.V.MarshalJSON()
		if err != nil {
			return "ERR"
		}
		return string(b)
	})
	add("yaml", func(e *Env) string {
		b, err := yaml.Encode(e.V)
		if err != nil {
			return "ERR"
		}
		return string(b)
	})
	for i := 0; i < 3; i++ {
		q := pick()
		add("json @"+q, func(e *Env) string {
			b, err := at(e, q).MarshalJSON()
			if err != nil {
				return "ERR"
			}
			return string(b)
		})
	}
	add("decode map", func(e *Env) string {
		var m map[string]any
		if err := e.V.Decode(&m); err != nil {
			return "ERR"
		}
		return jsonOf(m)
	})
	add("decode struct", func(e *Env) string {
		var s goStruct
		if err := e.V.Decode(&s); err != nil {
			return "ERR"
		}
		return jsonOf(s)
	})
	for i := 0; i < 3; i++ {
		q := pick()
		add("decode any @"+q, func(e *Env) string {
			var x any
			if err := at(e, q).Decode(&x); err != nil {
				return "ERR"
			}
			return jsonOf(x)
		})
	}
	if len(p.Defs) > 0 {
		d := p.Defs[0]
		add("decode struct @"+d+"&", func(e *Env) string {
			var s goStruct
			if err := at(e, d).Unify(e.Ctx.CompileString(`{name: "dec"}`)).Decode(&s); err != nil {
				return "ERR"
			}
			return jsonOf(s)
		})
	}
	for i := 0; i < 3; i++ {
		q := pick()
		add("scalars "+q, func(e *Env) string {
			w := at(e, q)
			if !w.Exists() {
				return "NX"
			}
			s, e1 := w.String()
			n, e2 := w.Int64()
			f, e3 := w.Float64()
			b, e4 := w.Bool()
			by, e5 := w.Bytes()
			return fmt.Sprintf("%q/%s %d/%s %g/%s %v/%s %q/%s", s, errClass(e1), n, errClass(e2), f, errClass(e3), b, errClass(e4), by, errClass(e5))
		})
		add("expr "+q, func(e *Env) string {
			if !at(e, q).Exists() {
				return "NX"
			}
			op, args := at(e, q).Expr()
			var as []string
			for _, a := range args {
				as = append(as, safeText(a))
			}
			return fmt.Sprintf("%v(%s)", op, strings.Join(as, " ; "))
		})
		add("refpath "+q, func(e *Env) string {
			if !at(e, q).Exists() {
				return "NX"
			}
			root, rp := at(e, q).ReferencePath()
			return fmt.Sprintf("%v %s", root.Exists(), rp)
		})
		add("eval "+q, func(e *Env) string {
			if !at(e, q).Exists() {
				return "NX"
			}
			return describe(at(e, q).Eval())
		})
		add("meta "+q, func(e *Env) string {
			w := at(e, q)
			if !w.Exists() {
				return "NX"
			}
			var as []string
			for _, a := range w.Attributes(cue.ValueAttr | cue.FieldAttr | cue.DeclAttr) {
				as = append(as, a.Name()+"("+a.Contents()+")")
			}
			var ds []string
			for _, d := range w.Doc() {
				ds = append(ds, d.Text())
			}
			return fmt.Sprintf("attrs=%v doc=%q pos=%s allows=%v/%v", as, ds, w.Pos(), w.Allows(cue.Str("zz")), w.Allows(cue.AnyString))
		})
	}
	for _, lp := range p.Lists {
		lp := lp
		add("list "+lp, func(e *Env) string {
			it, err := at(e, lp).List()
			if err != nil {
				return "ERR"
			}
			var xs []string
			for it.Next() {
				xs = append(xs, text(it.Value()))
			}
			return strings.Join(xs, ",")
		})
		break
	}
	add("walk", func(e *Env) string {
		n, kinds := 0, map[cue.Kind]int{}
		e.V.Walk(func(w cue.Value) bool { n++; kinds[w.IncompleteKind()]++; return n < 500 }, nil)
		var ks []string
		for k, c := range kinds {
			ks = append(ks, fmt.Sprintf("%v=%d", k, c))
		}
		sort.Strings(ks)
		return fmt.Sprintf("%d %v", n, ks)
	})
	for i := 0; i < 2; i++ {
		ex := "zz"
		switch {
		case len(p.Ints) > 0 && r.Bool():
			ex = p.Ints[r.Intn(len(p.Ints))] + " + 1"
		case len(p.Strs) > 0:
			ex = `"\(` + p.Strs[r.Intn(len(p.Strs))] + `)!"`
		case len(p.Structs) > 0:
			ex = p.Structs[r.Intn(len(p.Structs))] + " & {zs: 1}"
		}
		add("scope "+ex, func(e *Env) string { return describe(e.Ctx.CompileString(ex, cue.Scope(e.V))) })
	}
	add("encode+unify", func(e *Env) string {
		return describe(e.Ctx.Encode(map[string]any{"zenc": encStruct{Name: "e", Next: &encStruct{Name: "n"}}}).Unify(e.V))
	})
	add("encodetype", func(e *Env) string { return describe(e.Ctx.EncodeType(encStruct{})) })
	nl := pick()
	add("newlist "+nl, func(e *Env) string {
		return describe(e.Ctx.NewList(e.V, e.Smalls[1], at(e, nl)))
	})
	return cs
}
