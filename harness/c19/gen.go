package main

import (
	"fmt"
	"sort"
	"strings"

	"cuelang.org/go/internal/verifharness/common"
)

// Program is a generated, self-contained CUE source with the paths worth looking at.
type Program struct {
	Src     string
	Paths   []string // candidate paths for LookupPath (most exist, a few do not)
	Ints    []string // top-level concrete int fields
	Strs    []string
	Structs []string
	Lists   []string
	Defs    []string
	Feats   map[string]int // which constructs were used
}

type sym struct {
	name string
	sub  []string // int-valued sub fields (for structs)
}

type gen struct {
	r       *common.Rng
	ints    []string
	strs    []string
	structs []sym
	lists   []string // lists of ints
	defs    []string
	imports map[string]bool
	paths   []string
	feats   map[string]int
	nLet    int
}

func (g *gen) feat(s string) { g.feats[s]++ }

func (g *gen) lit() int { return g.r.Intn(12) - 2 }

var strLits = []string{"a", "b", "abc", "x y", "", "z9", "k1", "héllo"}

func (g *gen) intExpr() string {
	c := g.r.Intn(10)
	switch {
	case c < 3 || (len(g.ints) == 0 && c < 7):
		return fmt.Sprint(g.lit())
	case c < 5 && len(g.ints) > 0:
		g.feat("ref")
		return common.Pick(g.r, g.ints)
	case c < 7 && len(g.ints) > 0:
		g.feat("arith")
		op := common.Pick(g.r, []string{"+", "-", "*"})
		if g.r.Bool() && len(g.ints) > 1 {
			return fmt.Sprintf("%s %s %s", common.Pick(g.r, g.ints), op, common.Pick(g.r, g.ints))
		}
		return fmt.Sprintf("%s %s %d", common.Pick(g.r, g.ints), op, g.r.Intn(5))
	case c == 7 && len(g.lists) > 0:
		g.feat("builtin")
		if g.r.Bool() {
			return fmt.Sprintf("len(%s)", common.Pick(g.r, g.lists))
		}
		g.imports["list"] = true
		return fmt.Sprintf("list.Sum(%s)", common.Pick(g.r, g.lists))
	case c == 8 && len(g.structs) > 0:
		s := common.Pick(g.r, g.structs)
		if len(s.sub) > 0 {
			g.feat("selector")
			return s.name + "." + common.Pick(g.r, s.sub)
		}
	}
	return fmt.Sprint(g.lit())
}

func (g *gen) intConstraint() string {
	g.feat("constraint")
	// No non-concrete conjunctions such as `int & >5` or `>=0 & <100` here: they are the trigger of known
	// finding F10 (export sorts the shared Conjunction in place; concurrent readers can even see a wrong kind).
	// That class is exercised by corpus/C19/f10_conjunction_sort.cue on every run; the generated programs stay
	// in the domain on which the unchanged tree has been validated.
	return common.Pick(g.r, []string{"int", ">=0", "<100", "*3 | int", "1 | 2 | *3", ">=0 | *-1", "number", "*1 | 2 | 3", "int | *\"none\"", "<10 | >20"})
}

func (g *gen) strExpr() string {
	c := g.r.Intn(11)
	switch {
	case c < 3 || (len(g.strs) == 0 && len(g.ints) == 0):
		return fmt.Sprintf("%q", common.Pick(g.r, strLits))
	case c < 5 && len(g.strs) > 0:
		g.feat("ref")
		return common.Pick(g.r, g.strs)
	case c < 7:
		g.feat("interpolation")
		a, b := "x", "y"
		if len(g.ints) > 0 {
			a = `\(` + common.Pick(g.r, g.ints) + `)`
		}
		if len(g.strs) > 0 {
			b = `\(` + common.Pick(g.r, g.strs) + `)`
		}
		return `"` + a + "-" + b + `"`
	case c == 7 && len(g.strs) > 0:
		g.feat("builtin")
		g.imports["strings"] = true
		return fmt.Sprintf("strings.ToUpper(%s)", common.Pick(g.r, g.strs))
	case c == 8 && len(g.structs) > 0:
		g.feat("json.Marshal")
		g.imports["encoding/json"] = true
		return fmt.Sprintf("json.Marshal(%s)", common.Pick(g.r, g.structs).name)
	case c == 9 && len(g.lists) > 0:
		g.feat("builtin")
		g.imports["strings"] = true
		return fmt.Sprintf(`strings.Join([for x in %s {"\(x)"}], ",")`, common.Pick(g.r, g.lists))
	case len(g.strs) > 0:
		g.feat("arith")
		return common.Pick(g.r, g.strs) + ` + "!"`
	}
	return fmt.Sprintf("%q", common.Pick(g.r, strLits))
}

func (g *gen) strConstraint() string {
	g.feat("constraint")
	return common.Pick(g.r, []string{"string", `=~"^[a-z]"`, `*"a" | "b"`, `"x" | "y" | *"z"`, `!=""`, `string | *"dflt"`, `*"k1" | "k2"`})
}

func (g *gen) listExpr() string {
	c := g.r.Intn(9)
	switch {
	case c < 3:
		n := 1 + g.r.Intn(4)
		var xs []string
		for i := 0; i < n; i++ {
			xs = append(xs, g.intExpr())
		}
		return "[" + strings.Join(xs, ", ") + "]"
	case c < 5 && len(g.lists) > 0:
		g.feat("listcomp")
		if g.r.Bool() {
			return fmt.Sprintf("[for x in %s {x + %d}]", common.Pick(g.r, g.lists), g.r.Intn(3))
		}
		return fmt.Sprintf("[for x in %s if x > %d {x}]", common.Pick(g.r, g.lists), g.r.Intn(4))
	case c == 5:
		g.feat("openlist")
		return common.Pick(g.r, []string{"[...int]", "[1, 2, ...int]", "[...>=0]"})
	case c == 6 && len(g.lists) > 0:
		g.feat("builtin")
		g.imports["list"] = true
		return fmt.Sprintf("list.Concat([%s, [%d]])", common.Pick(g.r, g.lists), g.lit())
	}
	return fmt.Sprintf("[%d, %d, %d]", g.lit(), g.lit(), g.lit())
}

var fieldNames = []string{"a", "b", "c", "d", "e", "x", "y", "name", "kind", "val", "n", "sub"}

// structLit returns the literal, the relative paths of its fields and the names of its concrete int fields.
func (g *gen) structLit(depth int, onlyInts bool) (string, []string, []string) {
	n := 1 + g.r.Intn(4)
	names := append([]string(nil), fieldNames...)
	common.Shuffle(g.r, names)
	var parts, paths, ints []string
	for i := 0; i < n; i++ {
		nm := names[i]
		c := g.r.Intn(12)
		switch {
		case onlyInts || c < 3:
			parts = append(parts, fmt.Sprintf("%s: %s", nm, g.intExpr()))
			ints = append(ints, nm)
		case c == 3:
			parts = append(parts, fmt.Sprintf("%s: %s", nm, g.intConstraint()))
		case c < 6:
			parts = append(parts, fmt.Sprintf("%s: %s", nm, g.strExpr()))
		case c == 6:
			parts = append(parts, fmt.Sprintf("%s: %s", nm, g.strConstraint()))
		case c == 7:
			g.feat("optional")
			parts = append(parts, fmt.Sprintf("%s?: %s", nm, common.Pick(g.r, []string{"int", "string", ">0", "{p: int}", "[...string]"})))
		case c == 8 && depth > 0:
			g.feat("nested")
			s, sub, _ := g.structLit(depth-1, false)
			parts = append(parts, fmt.Sprintf("%s: %s", nm, s))
			for _, p := range sub {
				paths = append(paths, nm+"."+p)
			}
		case c == 9:
			parts = append(parts, fmt.Sprintf("%s: %s", nm, g.listExpr()))
			paths = append(paths, nm+"[0]")
		case c == 10 && len(g.defs) > 0:
			g.feat("defuse")
			parts = append(parts, fmt.Sprintf("%s: %s & {name: %q}", nm, common.Pick(g.r, g.defs), common.Pick(g.r, strLits)))
			paths = append(paths, nm+".name", nm+".kind")
		case c == 11:
			g.feat("required")
			parts = append(parts, fmt.Sprintf("%s!: %s", nm, common.Pick(g.r, []string{"int", "string"})))
		default:
			parts = append(parts, fmt.Sprintf("%s: %s", nm, common.Pick(g.r, []string{"true", "false", "null", "bool", "_", "1.5", "'bytes'"})))
		}
		paths = append(paths, nm)
	}
	// extras
	switch g.r.Intn(14) {
	case 0:
		g.feat("pattern")
		parts = append(parts, `[=~"^z"]: int`)
	case 1:
		g.feat("ellipsis")
		parts = append(parts, "...")
	case 2:
		g.feat("hidden")
		parts = append(parts, fmt.Sprintf("_h: %s", g.intExpr()))
		paths = append(paths, "_h")
	case 3:
		g.feat("localdef")
		parts = append(parts, fmt.Sprintf("#L: {p: int | *%d, q?: string}", g.lit()), "u: #L & {p: 7}")
		paths = append(paths, "#L", "u.p")
	case 4:
		if len(g.defs) > 0 {
			g.feat("embed")
			parts = append(parts, common.Pick(g.r, g.defs))
		}
	case 5:
		g.feat("fieldcomp")
		if len(g.ints) > 0 {
			parts = append(parts, fmt.Sprintf("if %s > %d {cond: true}", common.Pick(g.r, g.ints), g.r.Intn(5)))
		}
	case 6:
		g.feat("pattern")
		parts = append(parts, `[string]: _`)
	}
	return "{" + strings.Join(parts, ", ") + "}", paths, ints
}

func (g *gen) doc() string {
	if g.r.Chance(1, 6) {
		g.feat("doc")
		return "// doc " + fmt.Sprint(g.r.Intn(100)) + "\n"
	}
	return ""
}

func (g *gen) attr() string {
	if g.r.Chance(1, 8) {
		g.feat("attr")
		return fmt.Sprintf(" @tag(v%d)", g.r.Intn(9))
	}
	return ""
}

func genProgram(r *common.Rng) *Program {
	g := &gen{r: r, imports: map[string]bool{}, feats: map[string]int{}}
	var lines []string
	n := 5 + r.Intn(12)
	for i := 0; i < n; i++ {
		nm := fmt.Sprintf("f%d", i)
		c := r.Intn(30)
		switch {
		case c < 4:
			lines = append(lines, g.doc()+fmt.Sprintf("%s: %s%s", nm, g.intExpr(), g.attr()))
			g.ints = append(g.ints, nm)
			g.paths = append(g.paths, nm)
		case c < 6:
			lines = append(lines, fmt.Sprintf("%s: %s", nm, g.intConstraint()))
			g.paths = append(g.paths, nm)
		case c < 9:
			lines = append(lines, g.doc()+fmt.Sprintf("%s: %s%s", nm, g.strExpr(), g.attr()))
			g.strs = append(g.strs, nm)
			g.paths = append(g.paths, nm)
		case c < 10:
			lines = append(lines, fmt.Sprintf("%s: %s", nm, g.strConstraint()))
			g.paths = append(g.paths, nm)
		case c < 15:
			s, sub, ints := g.structLit(2, r.Chance(1, 5))
			lines = append(lines, g.doc()+fmt.Sprintf("%s: %s", nm, s))
			g.structs = append(g.structs, sym{nm, ints})
			g.paths = append(g.paths, nm)
			for _, p := range sub {
				g.paths = append(g.paths, nm+"."+p)
			}
		case c < 18:
			lines = append(lines, fmt.Sprintf("%s: %s", nm, g.listExpr()))
			g.paths = append(g.paths, nm, nm+"[0]", nm+"[1]")
			if !strings.Contains(lines[len(lines)-1], "...") {
				g.lists = append(g.lists, nm)
			}
		case c < 21:
			g.feat("definition")
			d := fmt.Sprintf("#D%d", len(g.defs))
			body := fmt.Sprintf(`{name: string, n?: int, kind: *"k1" | "k2", sub: {p: int | *%d}`, g.lit())
			if r.Chance(1, 3) {
				body += ", ..."
			}
			if r.Chance(1, 3) && len(g.defs) > 0 {
				body += ", inner?: " + common.Pick(r, g.defs)
			}
			body += "}"
			lines = append(lines, g.doc()+d+": "+body)
			g.defs = append(g.defs, d)
			g.paths = append(g.paths, d, d+".name", d+".kind", d+".sub.p", d+".n")
		case c < 23 && len(g.defs) > 0:
			g.feat("defuse")
			d := common.Pick(r, g.defs)
			switch r.Intn(5) {
			case 0:
				lines = append(lines, fmt.Sprintf("%s: %s", nm, d))
			case 1:
				lines = append(lines, fmt.Sprintf("%s: %s & {name: %s, n: %s}", nm, d, g.strExpr(), g.intExpr()))
			case 2:
				lines = append(lines, fmt.Sprintf("%s: [...%s] & [{name: \"q\"}, {name: \"r\", kind: \"k2\"}]", nm, d))
				g.paths = append(g.paths, nm+"[1].kind")
			case 3:
				g.feat("closed-error")
				lines = append(lines, fmt.Sprintf("%s: %s & {name: \"x\", extra%d: 1}", nm, d, i))
			default:
				lines = append(lines, fmt.Sprintf("%s: %s & {name: \"y\", sub: p: %d}", nm, d, g.lit()))
			}
			g.paths = append(g.paths, nm, nm+".name", nm+".sub.p", nm+".kind")
		case c < 25:
			g.feat("structdisj")
			switch r.Intn(3) {
			case 0:
				lines = append(lines, fmt.Sprintf(`%s: {k: "a", v: int} | {k: "b", w: string}`, nm),
					fmt.Sprintf(`%sx: %s & {k: "a", v: %d}`, nm, nm, g.lit()))
				g.paths = append(g.paths, nm+"x.v", nm+"x")
			case 1:
				lines = append(lines, fmt.Sprintf(`%s: *{a: 1} | {a: 2, b: %s}`, nm, g.intExpr()))
				g.paths = append(g.paths, nm+".a")
			default:
				lines = append(lines, fmt.Sprintf(`%s: {a: 1} | {b: 2}`, nm))
			}
			g.paths = append(g.paths, nm)
		case c == 25:
			g.feat("let")
			g.nLet++
			l := fmt.Sprintf("L%d", g.nLet)
			lines = append(lines, fmt.Sprintf("let %s = %s", l, g.intExpr()), fmt.Sprintf("%s: %s + 1", nm, l))
			g.ints = append(g.ints, nm)
			g.paths = append(g.paths, nm)
		case c == 26:
			g.feat("topcomp")
			if len(g.lists) > 0 && r.Bool() {
				lines = append(lines, fmt.Sprintf(`for i, x in %s {"e%d_\(i)": x}`, common.Pick(r, g.lists), i))
				g.paths = append(g.paths, fmt.Sprintf("e%d_0", i))
			} else if len(g.ints) > 0 {
				lines = append(lines, fmt.Sprintf("if %s > %d {%s: %s}", common.Pick(r, g.ints), r.Intn(4), nm, g.intExpr()))
				g.paths = append(g.paths, nm)
			}
		case c == 27:
			g.feat("cycle")
			switch r.Intn(3) {
			case 0:
				lines = append(lines, fmt.Sprintf("%s: %sb & int", nm, nm), fmt.Sprintf("%sb: %s", nm, nm))
			case 1:
				lines = append(lines, fmt.Sprintf("%s: {a: %sb.b, b: 1}", nm, nm), fmt.Sprintf("%sb: {b: %s.b}", nm, nm))
				g.paths = append(g.paths, nm+".a")
			default:
				lines = append(lines, fmt.Sprintf("%s: %sb + 1", nm, nm), fmt.Sprintf("%sb: %s - 1", nm, nm))
			}
			g.paths = append(g.paths, nm, nm+"b")
		case c == 28:
			g.feat("error")
			e := []string{"1 & 2", `"a" & int`, "[1, 2][5]", `{a: 1} & {a: 2}`, `"a" + 1`}
			if len(g.structs) > 0 {
				e = append(e, common.Pick(r, g.structs).name+".nope")
			}
			if len(g.ints) > 0 {
				e = append(e, common.Pick(r, g.ints)+" / 0")
			}
			lines = append(lines, fmt.Sprintf("%s: %s", nm, common.Pick(r, e)))
			g.paths = append(g.paths, nm)
		default:
			g.feat("hidden")
			lines = append(lines, fmt.Sprintf("_h%d: %s", i, g.intExpr()), fmt.Sprintf("%s: _h%d", nm, i))
			g.ints = append(g.ints, nm)
			g.paths = append(g.paths, nm, fmt.Sprintf("_h%d", i))
		}
	}
	var hdr []string
	var imps []string
	for k := range g.imports {
		imps = append(imps, k)
	}
	sort.Strings(imps)
	for _, k := range imps {
		hdr = append(hdr, fmt.Sprintf("import %q", k))
		g.feat("import:" + k)
	}
	g.paths = append(g.paths, "zz", "f0.nope", "#Nope")
	p := &Program{Src: strings.Join(append(hdr, lines...), "\n") + "\n", Paths: g.paths, Ints: g.ints, Strs: g.strs,
		Lists: g.lists, Defs: g.defs, Feats: g.feats}
	for _, s := range g.structs {
		p.Structs = append(p.Structs, s.name)
	}
	return p
}
