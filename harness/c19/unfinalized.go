package main

import (
	"cuelang.org/go/cue"
	"cuelang.org/go/internal/core/adt"
	"cuelang.org/go/internal/value"
)

// unfinalizedPaths lists the arcs of a freshly compiled value (a PRIVATE copy, nothing has been
// called on it) whose vertex is not in state "finalized" although the root has been finalized by
// CompileString: the precondition of known finding F11 ("vertices are finalised before being
// shared" does not hold for them).  Read-only walk; paths in cue.Path syntax.
func unfinalizedPaths(v cue.Value) []string {
	rt, root := value.ToInternal(v)
	var out []string
	seen := map[*adt.Vertex]bool{}
	var walk func(n *adt.Vertex, path string, depth int)
	walk = func(n *adt.Vertex, path string, depth int) {
		if n == nil || seen[n] || depth > 12 {
			return
		}
		seen[n] = true
		for _, a := range n.Arcs {
			p := a.Label.SelectorString(rt)
			if path != "" {
				p = path + "." + p
			}
			if a.Status().String() != "finalized" {
				out = append(out, p)
			}
			walk(a, p, depth+1)
		}
	}
	walk(root, "", 0)
	return out
}
