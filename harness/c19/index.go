package main

import (
	"encoding/json"
	"fmt"
	"os"
	goruntime "runtime"
	"sort"
	"strings"
	"sync"
	"sync/atomic"

	"cuelang.org/go/internal/core/runtime"
	"cuelang.org/go/internal/par"
	"cuelang.org/go/internal/verifharness/common"
)

// spinBarrier lets n goroutines reach the same point at (nearly) the same time.
type spinBarrier struct {
	n     int32
	count atomic.Int32
	gen   atomic.Int32
}

func (b *spinBarrier) wait() {
	g := b.gen.Load()
	if b.count.Add(1) == b.n {
		b.count.Store(0)
		b.gen.Add(1)
		return
	}
	for b.gen.Load() == g {
		goruntime.Gosched()
	}
}

func skew(r *common.Rng) {
	for i, n := 0, r.Intn(40); i < n; i++ {
		goruntime.Gosched()
	}
}

type idxEntry struct {
	s string
	p int64
}

func hexList(ss []string) string {
	var b strings.Builder
	for i, s := range ss {
		if i > 0 {
			b.WriteByte(',')
		}
		b.WriteString(common.Hex(s))
	}
	return b.String()
}

func hexMap(m map[string]int) string {
	type kv struct {
		k string
		v int
	}
	kvs := make([]kv, 0, len(m))
	for k, v := range m {
		kvs = append(kvs, kv{k, v})
	}
	sort.Slice(kvs, func(i, j int) bool {
		if kvs[i].v != kvs[j].v {
			return kvs[i].v < kvs[j].v
		}
		return kvs[i].k < kvs[j].k
	})
	var b strings.Builder
	for i, e := range kvs {
		if i > 0 {
			b.WriteByte(',')
		}
		fmt.Fprintf(&b, "%s:%d", common.Hex(e.k), e.v)
	}
	return b.String()
}

func hexLog(l []idxEntry) string {
	var b strings.Builder
	for i, e := range l {
		if i > 0 {
			b.WriteByte(',')
		}
		fmt.Fprintf(&b, "%s:%d", common.Hex(e.s), e.p)
	}
	return b.String()
}

var weird = []string{"", "_", "#D", "_h", "a b", "\x00", "é", "\xff\xfe", "日本", "a,b", "x:y|z", "0", "-"}

type modelStats struct {
	SeqCases, HistCases, OnceCases, UIDCases     int
	IdxCalls, IdxFresh, IdxGoroutines            int
	SectionBHits                                 int // calls on a string that was fresh when the history started
	OnceCalls, OnceKeys, OnceExecs               int
	UIDCalls                                     int
	TableStart, TableEnd                         int
	GoSideFailures                               []string
	GoroutineHist                                map[int]int
	BarrierCases, FreeCases                      int
	SameFreshSameTime                            int // fresh strings requested by >= 2 goroutines in a history
}

func runModels(seed uint64, out string, n int) {
	o := common.NewOut(out)
	defer o.Close()
	r := common.NewRng(seed)
	rt := runtime.New()
	st := &modelStats{GoroutineHist: map[int]int{}}
	// populate the table the way real use does: compile a few programs first
	for i := 0; i < 4; i++ {
		newEnv(genProgram(r.Fork()).Src)
	}
	l0, _ := runtime.VerifLabelSnapshot()
	st.TableStart = len(l0)
	fresh := 0
	newFresh := func() string {
		fresh++
		if r.Chance(1, 12) {
			return fmt.Sprintf("%s·%d·%d", common.Pick(r, weird), seed, fresh)
		}
		return fmt.Sprintf("c19_%d_%d", seed, fresh)
	}
	fail := func(f string, a ...any) {
		if len(st.GoSideFailures) < 20 {
			st.GoSideFailures = append(st.GoSideFailures, fmt.Sprintf(f, a...))
		}
	}
	for i := 0; i < n; i++ {
		// ---- sequential calls: exact agreement with get_key on a snapshot ----
		{
			labels, m := runtime.VerifLabelSnapshot()
			var ss []string
			for j, k := 0, 8+r.Intn(24); j < k; j++ {
				switch c := r.Intn(10); {
				case c < 4:
					ss = append(ss, labels[r.Intn(len(labels))])
				case c < 8 || len(ss) == 0:
					if i == 0 && j < len(weird) {
						ss = append(ss, weird[j])
					} else {
						ss = append(ss, newFresh())
					}
				default:
					ss = append(ss, ss[r.Intn(len(ss))])
				}
			}
			var res []string
			for _, s := range ss {
				var p int64
				if r.Bool() {
					p = rt.StringToIndex(s)
				} else {
					p = runtime.VerifGetKey(s)
				}
				if got := rt.IndexToString(p); got != s {
					fail("SEQ IndexToString(%d) = %q, want %q", p, got, s)
				}
				if f := rt.StrLabel(s); int64(f.Index()) != p || rt.LabelStr(f) != s {
					fail("SEQ StrLabel(%q): index %d label %q, want %d", s, f.Index(), rt.LabelStr(f), p)
				}
				res = append(res, fmt.Sprint(p))
				st.IdxCalls++
			}
			o.Emit(fmt.Sprintf("SEQ %s | %s | %s", hexList(labels), hexMap(m), hexList(ss)), strings.Join(res, " "))
			st.SeqCases++
		}
		// ---- concurrent history ----
		{
			labels, _ := runtime.VerifLabelSnapshot()
			g := 2 + r.Intn(15)
			st.GoroutineHist[g]++
			nf := 4 + r.Intn(44)
			fr := make([]string, nf)
			for j := range fr {
				fr[j] = newFresh()
			}
			useBarrier := r.Bool()
			if useBarrier {
				st.BarrierCases++
			} else {
				st.FreeCases++
			}
			bar := &spinBarrier{n: int32(g)}
			logs := make([][]idxEntry, g)
			bad := make([]string, g)
			rngs := make([]*common.Rng, g)
			plans := make([][]string, g) // per goroutine: the strings to request; "\x01" = barrier
			for t := 0; t < g; t++ {
				rngs[t] = r.Fork()
				order := append([]string(nil), fr...)
				// small local perturbations of the common order
				for k := 0; k+1 < len(order); k++ {
					if rngs[t].Chance(1, 4) {
						order[k], order[k+1] = order[k+1], order[k]
					}
				}
				var plan []string
				for k, s := range order {
					if useBarrier {
						plan = append(plan, "\x01")
					}
					plan = append(plan, s)
					for x, y := 0, rngs[t].Intn(3); x < y; x++ {
						if rngs[t].Bool() {
							plan = append(plan, labels[rngs[t].Intn(len(labels))])
						} else {
							plan = append(plan, order[rngs[t].Intn(k+1)])
						}
					}
				}
				plans[t] = plan
			}
			start := make(chan struct{})
			var wg sync.WaitGroup
			for t := 0; t < g; t++ {
				wg.Add(1)
				go func(t int) {
					defer wg.Done()
					<-start
					if !useBarrier {
						skew(rngs[t])
					}
					for _, s := range plans[t] {
						if s == "\x01" {
							bar.wait()
							continue
						}
						p := rt.StringToIndex(s)
						logs[t] = append(logs[t], idxEntry{s, p})
						if got := rt.IndexToString(p); got != s && bad[t] == "" {
							bad[t] = fmt.Sprintf("IndexToString(%d) = %q right after StringToIndex(%q)", p, got, s)
						}
					}
				}(t)
			}
			close(start)
			wg.Wait()
			final, fm := runtime.VerifLabelSnapshot()
			verdict := "ok"
			for t := 0; t < g; t++ {
				if bad[t] != "" {
					verdict = "reject"
					fail("HIST %s", bad[t])
				}
				for _, e := range logs[t] {
					if e.p < 0 || int(e.p) >= len(final) || final[e.p] != e.s {
						verdict = "reject"
						fail("HIST index %d handed out for %q reads %q at the end", e.p, e.s, final[min(int(e.p), len(final)-1)])
					}
					st.IdxCalls++
				}
			}
			freshSet := map[string]int{}
			for _, s := range fr {
				freshSet[s] = 0
			}
			for t := 0; t < g; t++ {
				seen := map[string]bool{}
				for _, e := range logs[t] {
					if _, ok := freshSet[e.s]; ok {
						st.SectionBHits++
						if !seen[e.s] {
							seen[e.s] = true
							freshSet[e.s]++
						}
					}
				}
			}
			for _, c := range freshSet {
				if c >= 2 {
					st.SameFreshSameTime++
				}
			}
			var lg []string
			for t := 0; t < g; t++ {
				lg = append(lg, hexLog(logs[t]))
			}
			o.Emit(fmt.Sprintf("HIST %s | %s | %s | %s", hexList(labels), strings.Join(lg, ";"), hexList(final), hexMap(fm)), verdict)
			st.HistCases++
			st.IdxFresh += nf
			st.IdxGoroutines += g
		}
		// ---- par.Cache.Do ----
		{
			var c par.Cache[string, int]
			g := 2 + r.Intn(15)
			nk := 2 + r.Intn(23)
			keys := make([]string, nk)
			for j := range keys {
				keys[j] = fmt.Sprintf("k%d", j)
			}
			useBarrier := r.Bool()
			bar := &spinBarrier{n: int32(g)}
			var counter atomic.Int64
			var mu sync.Mutex
			type ex struct {
				k   string
				tok int
			}
			var execs []ex
			rets := make([][]ex, g)
			bad := make([]string, g)
			rngs := make([]*common.Rng, g)
			for t := range rngs {
				rngs[t] = r.Fork()
			}
			start := make(chan struct{})
			var wg sync.WaitGroup
			for t := 0; t < g; t++ {
				wg.Add(1)
				go func(t int) {
					defer wg.Done()
					rr := rngs[t]
					order := append([]string(nil), keys...)
					for k := 0; k+1 < len(order); k++ {
						if rr.Chance(1, 4) {
							order[k], order[k+1] = order[k+1], order[k]
						}
					}
					<-start
					if !useBarrier {
						skew(rr)
					}
					for k, key := range order {
						if useBarrier {
							bar.wait()
						}
						spin := rr.Intn(30)
						v := c.Do(key, func() int {
							tok := int(counter.Add(1))
							for i := 0; i < spin; i++ {
								goruntime.Gosched()
							}
							mu.Lock()
							execs = append(execs, ex{key, tok})
							mu.Unlock()
							return tok
						})
						rets[t] = append(rets[t], ex{key, v})
						if w, ok := c.Get(key); !ok || w != v {
							bad[t] = fmt.Sprintf("Get(%q) = %d,%v after Do returned %d", key, w, ok, v)
						}
						if rr.Chance(1, 3) {
							// a second call of an earlier key must return the cached result without running f
							k2 := order[rr.Intn(k+1)]
							v2 := c.Do(k2, func() int {
								tok := int(counter.Add(1))
								mu.Lock()
								execs = append(execs, ex{k2, tok})
								mu.Unlock()
								return tok
							})
							rets[t] = append(rets[t], ex{k2, v2})
						}
					}
				}(t)
			}
			close(start)
			wg.Wait()
			verdict := "ok"
			for t := range bad {
				if bad[t] != "" {
					verdict = "reject"
					fail("ONCE %s", bad[t])
				}
			}
			var eb, rb []string
			for _, e := range execs {
				eb = append(eb, fmt.Sprintf("%s:%d", common.Hex(e.k), e.tok))
			}
			for t := range rets {
				for _, e := range rets[t] {
					if e.tok == 0 {
						// the zero V: Do returned without a result ("-" = no result; tokens of f start at 1)
						rb = append(rb, fmt.Sprintf("%s:-", common.Hex(e.k)))
					} else {
						rb = append(rb, fmt.Sprintf("%s:%d", common.Hex(e.k), e.tok))
					}
					st.OnceCalls++
				}
			}
			st.OnceKeys += nk
			st.OnceExecs += len(execs)
			o.Emit(fmt.Sprintf("ONCE %s | %s", strings.Join(eb, ","), strings.Join(rb, ",")), verdict)
			st.OnceCases++
		}
		// ---- NextUniqueID (Go-side check only: all ids distinct and contiguous) ----
		{
			rt2 := runtime.New()
			g := 2 + r.Intn(15)
			m := 50 + r.Intn(200)
			ids := make([][]uint64, g)
			var wg sync.WaitGroup
			start := make(chan struct{})
			for t := 0; t < g; t++ {
				wg.Add(1)
				go func(t int) {
					defer wg.Done()
					<-start
					for i := 0; i < m; i++ {
						ids[t] = append(ids[t], rt2.NextUniqueID())
					}
				}(t)
			}
			close(start)
			wg.Wait()
			seen := map[uint64]bool{}
			for t := range ids {
				last := uint64(0)
				for _, id := range ids[t] {
					if seen[id] {
						fail("UID %d handed out twice", id)
					}
					if id <= last {
						fail("UID not increasing within a goroutine: %d after %d", id, last)
					}
					last = id
					seen[id] = true
					st.UIDCalls++
				}
			}
			for id := uint64(1); id <= uint64(g*m); id++ {
				if !seen[id] {
					fail("UID %d skipped (%d goroutines x %d calls)", id, g, m)
					break
				}
			}
			st.UIDCases++
		}
	}
	lN, _ := runtime.VerifLabelSnapshot()
	st.TableEnd = len(lN)
	b, _ := json.MarshalIndent(st, "", " ")
	os.WriteFile(out+"/models-stats.json", b, 0o644)
}
