// C19 harness: (1) "models": stress of the real label index (runtime.getKey /
// IndexToString), par.Cache.Do and NextUniqueID whose observed histories are
// checked by the extracted Coq models; (2) "explore": concurrent use of shared
// cue.Values against a sequential baseline, meant to be built with -race and
// run as a child process whose stderr is scanned for race reports.
package main

import (
	"fmt"
	"os"

	"cuelang.org/go/internal/verifharness/common"
)

func main() {
	if len(os.Args) < 2 {
		fmt.Fprintln(os.Stderr, "usage: c19 models|explore --seed S --out DIR ...")
		os.Exit(2)
	}
	args := common.Args(os.Args[2:])
	seed := uint64(common.Atoi(args["--seed"], 1))
	out := args["--out"]
	if out == "" {
		out = "."
	}
	switch os.Args[1] {
	case "models":
		runModels(seed, out, common.Atoi(args["--n"], 20))
	case "explore":
		runExplore(seed, out, args)
	case "witness":
		runWitness(out, args)
	case "gen":
		// print generated programs (debugging aid)
		r := common.NewRng(seed)
		for i := 0; i < common.Atoi(args["--n"], 3); i++ {
			p := genProgram(r.Fork())
			fmt.Printf("---- program %d (paths %v)\n%s\nunfinalized after compile: %v\n", i, p.Paths, p.Src, unfinalizedPaths(newEnv(p.Src).V))
		}
	default:
		fmt.Fprintln(os.Stderr, "unknown mode", os.Args[1])
		os.Exit(2)
	}
}
