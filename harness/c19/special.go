package main

// Two round kinds that target shared state the generated call sets do not reach:
//
//   decode-fold:   Value.Decode into UNTAGGED Go structs whose field names match the
//                  CUE fields only case-insensitively (the fallback path of
//                  cue/decode.go convertStruct; the per-Go-type field table in the
//                  global fieldCache is shared by all goroutines, values and contexts).
//   pattern-alias: pattern constraints with label aliases ([X=string]: {name: X})
//                  looked up through optional selectors (a?), AnyString / AnyIndex and
//                  regular fields on a FRESH shared value (Vertex.MatchAndInsert binds
//                  the label in an Environment).
//
// In both kinds the concurrent phase is the FIRST use of the shared value (and, for
// decode-fold, of the spelling); the sequential answers come from private copies
// (pattern-alias: every script item alone on its own fresh copy), and after the
// concurrent phase the whole script is run sequentially on the shared value
// ("the shared values are unchanged afterwards").

import (
	"fmt"
	"strings"
	"sync"
	"time"

	"cuelang.org/go/cue"
	"cuelang.org/go/cue/cuecontext"
	"cuelang.org/go/internal/verifharness/common"
)

type foldInner struct {
	Label string
	Size  int
}

type foldRec struct {
	Name  string
	Count int
	Tags  []string
	Inner foldInner
	Ok    bool
}

type foldRec2 struct {
	Title   string
	Count   int
	Weights []float64
	Inner   *foldInner
	Meta    map[string]any
}

func randCase(r *common.Rng, s string) string {
	b := []byte(strings.ToLower(s))
	upper := 0
	for i := range b {
		if r.Bool() {
			b[i] = b[i] - 'a' + 'A'
			upper++
		}
	}
	_ = upper // all lower case is fine as well: Go field `Name` vs CUE `name` still needs the fold
	return string(b)
}

type foldCase struct {
	src  string
	kind int // which Go type
}

func genFoldCase(r *common.Rng, i int) foldCase {
	if r.Bool() {
		src := fmt.Sprintf("{%s: %q, %s: %d, %s: [%q, %q], %s: {%s: %q, %s: %d}, %s: %v}",
			randCase(r, "name"), fmt.Sprintf("n%d", i), randCase(r, "count"), r.Intn(1000),
			randCase(r, "tags"), "t"+fmt.Sprint(r.Intn(9)), "u",
			randCase(r, "inner"), randCase(r, "label"), "l"+fmt.Sprint(i), randCase(r, "size"), r.Intn(50),
			randCase(r, "ok"), r.Bool())
		return foldCase{src, 0}
	}
	src := fmt.Sprintf("{%s: %q, %s: %d, %s: [1.5, %d], %s: {%s: %q, %s: %d}, %s: {k%d: %d, z: \"s\"}}",
		randCase(r, "title"), fmt.Sprintf("t%d", i), randCase(r, "count"), r.Intn(1000),
		randCase(r, "weights"), r.Intn(9),
		randCase(r, "inner"), randCase(r, "label"), "l"+fmt.Sprint(i), randCase(r, "size"), r.Intn(50),
		randCase(r, "meta"), r.Intn(5), r.Intn(7))
	return foldCase{src, 1}
}

func decodeFold(v cue.Value, kind int) (res string) {
	defer func() {
		if x := recover(); x != nil {
			res = fmt.Sprintf("PANIC: %v", x)
		}
	}()
	if kind == 0 {
		var rec foldRec
		err := v.Decode(&rec)
		return errClass(err) + " " + jsonOf(rec)
	}
	var rec foldRec2
	err := v.Decode(&rec)
	return errClass(err) + " " + jsonOf(rec)
}

func runDecodeFold(k int, seed uint64) *RoundRec {
	t0 := time.Now()
	r := common.NewRng(seed)
	rec := &RoundRec{Round: k, Kind: "decode-fold", Seed: seed, Feats: map[string]int{"decode-fold": 1}}
	rc := &roundCtx{rec: rec}
	g := 2 + r.Intn(15)
	rec.G = g
	sub := 12
	var srcs []string
	for s := 0; s < sub; s++ {
		// a few values with spellings nobody has decoded yet; all goroutines decode all of them,
		// in rotated order, half on the shared values and half on their own copies in their own context
		n := 2 + r.Intn(3)
		cases := make([]foldCase, n)
		shared := make([]cue.Value, n)
		ctx := cuecontext.New()
		for i := range cases {
			cases[i] = genFoldCase(r, s*10+i)
			shared[i] = ctx.CompileString(cases[i].src)
			srcs = append(srcs, cases[i].src)
		}
		got := make([][]string, g)
		bar := &spinBarrier{n: int32(g)}
		var wg sync.WaitGroup
		for t := 0; t < g; t++ {
			wg.Add(1)
			go func(t int) {
				defer wg.Done()
				vals := shared
				if t%2 == 1 {
					own := cuecontext.New()
					vals = make([]cue.Value, n)
					for i := range cases {
						vals[i] = own.CompileString(cases[i].src)
					}
				}
				got[t] = make([]string, n)
				bar.wait()
				for j := 0; j < n; j++ {
					i := (j + t) % n
					got[t][i] = decodeFold(vals[i], cases[i].kind)
				}
			}(t)
		}
		wg.Wait()
		// sequential answers on private copies, computed afterwards
		for i := range cases {
			want := decodeFold(cuecontext.New().CompileString(cases[i].src), cases[i].kind)
			rec.Sequential++
			if !strings.HasPrefix(want, "ok ") {
				rec.BaseErr++
			}
			c := Call{Desc: fmt.Sprintf("decode (untagged Go struct %d, fields match case-insensitively) of %s", cases[i].kind, cases[i].src)}
			for t := 0; t < g; t++ {
				rc.compare(c, want, got[t][i], fmt.Sprintf("goroutine %d/%d, first decodes of this spelling", t, g), false)
				rc.ex.Add(1)
			}
			rc.compare(c, want, decodeFold(shared[i], cases[i].kind), "after the concurrent phase (sequential, shared value)", false)
			rec.Sequential++
		}
	}
	rec.Program = strings.Join(srcs, "\n")
	rec.Calls = []string{"decode fold (Value.Decode into untagged Go structs, all goroutines, new spellings)"}
	rec.NCalls = len(srcs)
	rec.Executed = int(rc.ex.Load())
	rec.ElapsedMs = time.Since(t0).Milliseconds()
	return rec
}

// ---- pattern constraints with label aliases --------------------------------

type scriptItem struct {
	Desc string
	Fn   func(v cue.Value) string
}

func safeItem(it scriptItem, v cue.Value) (res string) {
	defer func() {
		if x := recover(); x != nil {
			res = fmt.Sprintf("PANIC: %v", x)
		}
	}()
	return it.Fn(v)
}

var aliasTemplates = []struct {
	body   string   // the struct with the pattern(s); %d = a small number
	labels []string // labels worth asking for
	subs   []string // sub paths of the instantiated constraint
}{
	{`{[X=string]: {name: X, n: len(X)}}`, []string{"a", "ab", "field1", "field2", "field3", "field4", "field5", "zeta"}, []string{"name", "n"}},
	{`{[X=string]: {name: X, n: len(X)}, fixed: {name: "fixed", n: 5}, other: {}}`, []string{"a", "b", "fixed", "other", "q7"}, []string{"name", "n"}},
	{`{[X=~"^a"]: {id: X, k: "v%d"}, [Y=string]: {tag: "t-\(Y)"}}`, []string{"a", "ab", "abc", "b", "ba", "c"}, []string{"id", "tag", "k"}},
	{`{[X=string]: "\(X)!"}`, []string{"a", "b", "c", "dd", "eee"}, nil},
	{`{[X=string]: {name: X, sub: {[Y=string]: "\(X).\(Y)"}}}`, []string{"a", "b", "m", "n"}, []string{"name", "sub"}},
}

// genAliasProgram returns a source and a script over it.
func genAliasProgram(r *common.Rng) (string, []scriptItem) {
	var lines []string
	var script []scriptItem
	add := func(desc string, fn func(v cue.Value) string) { script = append(script, scriptItem{desc, fn}) }
	n := 1 + r.Intn(3)
	for i := 0; i < n; i++ {
		tp := aliasTemplates[r.Intn(len(aliasTemplates))]
		fname := fmt.Sprintf("p%d", i)
		body := tp.body
		if strings.Contains(body, "%d") {
			body = fmt.Sprintf(body, r.Intn(9))
		}
		lines = append(lines, fname+": "+body)
		labels := append([]string(nil), tp.labels...)
		common.Shuffle(r, labels)
		type sel struct {
			desc string
			s    cue.Selector
		}
		var sels []sel
		for _, l := range labels {
			sels = append(sels, sel{l + "?", cue.Str(l).Optional()})
			if r.Chance(1, 3) {
				sels = append(sels, sel{l, cue.Str(l)})
			}
			if r.Chance(1, 4) {
				sels = append(sels, sel{l + "!", cue.Str(l).Required()})
			}
		}
		sels = append(sels, sel{"[string]", cue.AnyString}, sel{"[string]", cue.AnyString})
		common.Shuffle(r, sels)
		for _, s := range sels {
			s := s
			p := cue.MakePath(cue.Str(fname), s.s)
			add(fmt.Sprintf("lookup %s.%s", fname, s.desc), func(v cue.Value) string { return describe(v.LookupPath(p)) })
			for _, sub := range tp.subs {
				if r.Chance(1, 2) {
					sp := cue.MakePath(cue.Str(fname), s.s, cue.Str(sub))
					add(fmt.Sprintf("lookup %s.%s.%s", fname, s.desc, sub), func(v cue.Value) string { return describe(v.LookupPath(sp)) })
				}
			}
			if strings.Contains(tp.body, "Y=string]: \"") && r.Chance(1, 2) {
				// nested pattern: a?.sub.b?
				np := cue.MakePath(cue.Str(fname), s.s, cue.Str("sub"), cue.Str("y"+fmt.Sprint(r.Intn(3))).Optional())
				add(fmt.Sprintf("lookup %s.%s.sub.y?", fname, s.desc), func(v cue.Value) string { return describe(v.LookupPath(np)) })
			}
		}
	}
	// a list with an element type and a plain struct, for AnyIndex and ordinary lookups
	lines = append(lines, fmt.Sprintf("l: [...{i: int, s: *\"d%d\" | string}]", r.Intn(9)), "plain: {a: 1, b: \"x\"}")
	ai := cue.MakePath(cue.Str("l"), cue.AnyIndex)
	add("lookup l.[_]", func(v cue.Value) string { return describe(v.LookupPath(ai)) })
	add("lookup plain.a", func(v cue.Value) string { return describe(v.LookupPath(cue.ParsePath("plain.a"))) })
	add("lookup plain.zz?", func(v cue.Value) string {
		return describe(v.LookupPath(cue.MakePath(cue.Str("plain"), cue.Str("zz").Optional())))
	})
	add("syntax", func(v cue.Value) string { return text(v) })
	add("fields all", func(v cue.Value) string { return fieldsOf(v, 1, cue.All()) })
	common.Shuffle(r, script)
	return strings.Join(lines, "\n") + "\n", script
}

func runPatternAlias(k int, seed uint64) *RoundRec {
	t0 := time.Now()
	r := common.NewRng(seed)
	rec := &RoundRec{Round: k, Kind: "pattern-alias", Seed: seed, Feats: map[string]int{"pattern-alias": 1}}
	rc := &roundCtx{rec: rec}
	src, script := genAliasProgram(r)
	rec.Program = src
	for _, it := range script {
		rec.Calls = append(rec.Calls, it.Desc)
	}
	rec.NCalls = len(script)
	// the sequential answer of every item: run ALONE on its own fresh copy
	want := make([]string, len(script))
	for i, it := range script {
		want[i] = safeItem(it, cuecontext.New().CompileString(src))
		rec.Sequential++
		if strings.HasPrefix(want[i], "NX") || strings.HasPrefix(want[i], "err=ERR") {
			rec.BaseErr++
		}
	}
	g := 2 + r.Intn(15)
	rec.G = g
	sub := 10
	for s := 0; s < sub; s++ {
		shared := cuecontext.New().CompileString(src) // nobody has queried it yet
		plans := make([][]int, g)
		for t := 0; t < g; t++ {
			m := 2 + r.Intn(len(script))
			for i := 0; i < m; i++ {
				plans[t] = append(plans[t], r.Intn(len(script)))
			}
		}
		bar := &spinBarrier{n: int32(g)}
		var wg sync.WaitGroup
		for t := 0; t < g; t++ {
			wg.Add(1)
			go func(t int) {
				defer wg.Done()
				bar.wait()
				for _, i := range plans[t] {
					rc.compare(Call{Desc: script[i].Desc}, want[i], safeItem(script[i], shared),
						fmt.Sprintf("goroutine %d/%d on the fresh shared value (sub-round %d)", t, g, s), false)
					rc.ex.Add(1)
				}
			}(t)
		}
		wg.Wait()
		// unchanged afterwards: the whole script, sequentially, on the shared value
		for i, it := range script {
			rc.compare(Call{Desc: it.Desc}, want[i], safeItem(it, shared),
				"after the concurrent phase (whole script run sequentially on the shared value; each answer must equal the answer of the call run alone on a private copy)", false)
			rec.Sequential++
		}
	}
	// and purely sequentially: the script in order on one fresh value (a read-only call must not change later answers)
	seq := cuecontext.New().CompileString(src)
	for i, it := range script {
		rc.compare(Call{Desc: it.Desc}, want[i], safeItem(it, seq),
			"sequential script on one private value (no concurrency): the answer depends on the calls made before", false)
		rec.Sequential++
	}
	rec.Executed = int(rc.ex.Load())
	rec.ElapsedMs = time.Since(t0).Milliseconds()
	return rec
}
