//go:build !c02s_sanonly

package main

import (
	"fmt"
	"slices"
	"strconv"
	"strings"

	"cuelang.org/go/cue"
	"cuelang.org/go/cue/ast"
	"cuelang.org/go/cue/cuecontext"
	"cuelang.org/go/internal/core/adt"
	"cuelang.org/go/internal/core/runtime"
	"cuelang.org/go/internal/core/toposort"
	"cuelang.org/go/internal/verifharness/common"
)

// label tokens: i<dec> = integer label, s<hex> = any other label by its raw string

func tokOfName(s string) string { return "s" + common.Hex(s) }

func featureOfTok(idx adt.StringIndexer, t string) adt.Feature {
	if t[0] == 'i' {
		n, _ := strconv.Atoi(t[1:])
		return adt.MakeIntLabel(adt.IntLabel, int64(n))
	}
	return adt.MakeStringLabel(idx, common.Unhex(t[1:]))
}

func tokOfFeature(idx adt.StringIndexer, f adt.Feature) string {
	if f.Typ() == adt.IntLabel {
		return "i" + strconv.Itoa(f.Index())
	}
	return tokOfName(f.RawString(idx))
}

// runTopoLine: TOPO <nodes> | <a>b> ... : EnsureNode for the nodes in the given
// order, AddEdge for the edges in the given order, Build().Sort().
func runTopoLine(line string) (result string) {
	defer func() {
		if r := recover(); r != nil {
			result = fmt.Sprintf("PANIC %v", r)
		}
	}()
	parts := strings.Split(line, "|")
	nodes := strings.Fields(parts[0])[1:]
	edges := strings.Fields(parts[1])
	var first []string
	for rep := 0; rep < 2; rep++ {
		idx := runtime.New()
		b := toposort.NewGraphBuilder(true)
		// interleave nodes and edges differently on the second build
		if rep == 0 {
			for _, n := range nodes {
				b.EnsureNode(featureOfTok(idx, n))
			}
		}
		for _, e := range edges {
			ab := strings.Split(e, ">")
			b.AddEdge(featureOfTok(idx, ab[0]), featureOfTok(idx, ab[1]))
		}
		if rep == 1 {
			for i := len(nodes) - 1; i >= 0; i-- {
				b.EnsureNode(featureOfTok(idx, nodes[i]))
			}
		}
		var got []string
		for _, f := range b.Build().Sort(idx) {
			got = append(got, tokOfFeature(idx, f))
		}
		if rep == 0 {
			first = got
		} else if !slices.Equal(first, got) {
			return "NONDET " + strings.Join(first, " ") + " / " + strings.Join(got, " ")
		}
	}
	return strings.Join(first, " ")
}

var namePool = []string{"a", "b", "c", "d", "e", "f", "g", "h", "i", "j", "ab", "a0", "B", "_h", "#D", "z9", "k", "l"}

func pickLabels(r *common.Rng, n int, ints bool) []string {
	names := slices.Clone(namePool)
	common.Shuffle(r, names)
	var ls []string
	for i := 0; i < n; i++ {
		if ints && r.Chance(1, 5) {
			ls = append(ls, "i"+strconv.Itoa(i))
		} else {
			ls = append(ls, tokOfName(names[i]))
		}
	}
	return ls
}

// subsequence of xs with at least min elements (if possible)
func subseq(r *common.Rng, xs []string, min int) []string {
	for {
		var o []string
		for _, x := range xs {
			if r.Chance(1, 2) {
				o = append(o, x)
			}
		}
		if len(o) >= min || len(xs) < min {
			return o
		}
	}
}

func chainEdges(o []string) []string {
	var es []string
	for i := 0; i+1 < len(o); i++ {
		es = append(es, o[i]+">"+o[i+1])
	}
	return es
}

func emitTopo(out *common.Out, nodes, edges []string) string {
	line := "TOPO " + strings.Join(nodes, " ") + " | " + strings.Join(edges, " ")
	impl := runTopoLine(line)
	out.Emit(line, impl)
	return impl
}

func genTopoGroup(r *common.Rng, out *common.Out, stats map[string]int) {
	n := 3 + r.Intn(8)
	hidden := pickLabels(r, n, true)
	var nodes, edges []string
	kind := ""
	switch k := r.Intn(100); {
	case k < 55:
		// DAG: union of 2-4 chains that are subsequences of one hidden order
		kind = "dag-chains"
		nch := 2 + r.Intn(3)
		for c := 0; c < nch; c++ {
			o := subseq(r, hidden, 1)
			nodes = append(nodes, o...)
			edges = append(edges, chainEdges(o)...)
		}
		if r.Chance(1, 4) { // isolated nodes
			nodes = append(nodes, hidden[r.Intn(n)])
		}
	case k < 70:
		// DAG: random forward edges
		kind = "dag-random"
		nodes = slices.Clone(hidden)
		ne := r.Intn(2 * n)
		for e := 0; e < ne; e++ {
			i, j := r.Intn(n), r.Intn(n)
			if i > j {
				i, j = j, i
			}
			if i != j {
				edges = append(edges, hidden[i]+">"+hidden[j])
			}
		}
	case k < 85:
		// cyclic: chains in unrelated orders
		kind = "cyclic-chains"
		nch := 2 + r.Intn(3)
		for c := 0; c < nch; c++ {
			o := slices.Clone(hidden)
			common.Shuffle(r, o)
			o = o[:1+r.Intn(min(5, n))]
			nodes = append(nodes, o...)
			edges = append(edges, chainEdges(o)...)
		}
	default:
		// arbitrary digraph, self loops included
		kind = "digraph"
		nodes = slices.Clone(hidden)
		ne := r.Intn(2*n + 1)
		for e := 0; e < ne; e++ {
			edges = append(edges, hidden[r.Intn(n)]+">"+hidden[r.Intn(n)])
		}
	}
	// nodes: every label once
	slices.Sort(nodes)
	nodes = slices.Compact(nodes)
	stats["topo-"+kind]++
	var first string
	for rep := 0; rep < 3; rep++ {
		common.Shuffle(r, nodes)
		common.Shuffle(r, edges)
		impl := emitTopo(out, nodes, edges)
		if rep == 0 {
			first = impl
		} else if impl != first {
			stats["topo-order-dependent"]++
		}
	}
}

func topoFixed(out *common.Out) {
	s := tokOfName
	emitTopo(out, nil, nil)
	emitTopo(out, []string{s("a")}, nil)
	emitTopo(out, []string{s("a")}, []string{s("a") + ">" + s("a")})
	emitTopo(out, []string{s("b"), s("a")}, nil)
	emitTopo(out, []string{s("b"), s("a")}, []string{s("b") + ">" + s("a")})
	emitTopo(out, []string{s("b"), s("a")}, []string{s("b") + ">" + s("a"), s("a") + ">" + s("b")})
	emitTopo(out, []string{"i1", "i0", s("0")}, nil)
	// the test cases of graph_test.go TestSort
	for _, chains := range [][]string{
		{"cb", "da"}, {"cb", "da", "fe"}, {"bc", "ca"}, {"bcfdg", "caed"}, {"bc", "cdaf", "afe"},
		{"hba", "ab", "hcd", "dc"}, {"gbc", "ecbd", "dfae", "ahf"}, {"abcd", "dcba", "bdac", "cadb"}} {
		var nodes, edges []string
		for _, c := range chains {
			var o []string
			for _, ch := range strings.Split(c, "") {
				o = append(o, s(ch))
			}
			nodes = append(nodes, o...)
			edges = append(edges, chainEdges(o)...)
		}
		slices.Sort(nodes)
		nodes = slices.Compact(nodes)
		emitTopo(out, nodes, edges)
	}
}

// ---------------------------------------------------------------- pipeline level ----

// ORD <o1> | <o2> ...: the struct literals {o1...} & {o2...} unified in ONE
// expression; field order as reported by Value.Fields and by Value.Syntax.
func ordSource(orders [][]string, shape string) string {
	val := map[string]int{}
	var lits []string
	for _, o := range orders {
		var fs []string
		for _, t := range o {
			name := common.Unhex(t[1:])
			if _, ok := val[name]; !ok {
				val[name] = len(val) + 1
			}
			fs = append(fs, fmt.Sprintf("%s: %d", name, val[name]))
		}
		lits = append(lits, "{"+strings.Join(fs, ", ")+"}")
	}
	switch shape {
	case "implicit":
		return "x: " + strings.Join(lits, "\nx: ") + "\n"
	case "embed":
		return "x: {\n\t" + strings.Join(lits, "\n\t") + "\n}\n"
	case "refs":
		var b strings.Builder
		var names []string
		for i, l := range lits {
			fmt.Fprintf(&b, "s%d: %s\n", i, l)
			names = append(names, fmt.Sprintf("s%d", i))
		}
		return b.String() + "x: " + strings.Join(names, " & ") + "\n"
	case "refs-implicit":
		var b strings.Builder
		for i, l := range lits {
			fmt.Fprintf(&b, "s%d: %s\n", i, l)
		}
		for i := range lits {
			fmt.Fprintf(&b, "x: s%d\n", i)
		}
		return b.String()
	}
	return "x: " + strings.Join(lits, " & ") + "\n"
}

func runOrdLine(line string) (result string) {
	defer func() {
		if r := recover(); r != nil {
			result = fmt.Sprintf("PANIC %v", r)
		}
	}()
	var orders [][]string
	shape := "explicit"
	parts := strings.Split(line[4:], "|")
	if strings.HasPrefix(line, "ORDX ") {
		shape = strings.TrimSpace(parts[0]) // line[4:] starts after "ORDX"
		parts = parts[1:]
	}
	for _, p := range parts {
		orders = append(orders, strings.Fields(p))
	}
	src := ordSource(orders, shape)
	var first []string
	for rep := 0; rep < 2; rep++ {
		ctx := cuecontext.New()
		v := ctx.CompileString(src, cue.Filename("ord.cue")).LookupPath(cue.ParsePath("x"))
		if err := v.Err(); err != nil {
			return "ERROR"
		}
		var got []string
		it, err := v.Fields()
		if err != nil {
			return "ERROR"
		}
		for it.Next() {
			got = append(got, tokOfName(it.Selector().Unquoted()))
		}
		// the exported syntax must list the fields in the same order
		var syn []string
		if st, ok := v.Syntax(cue.Final()).(*ast.StructLit); ok {
			for _, d := range st.Elts {
				if f, ok := d.(*ast.Field); ok {
					nm, _, _ := ast.LabelName(f.Label)
					syn = append(syn, tokOfName(nm))
				}
			}
		}
		if !slices.Equal(got, syn) {
			return "SYNTAX-DIFFERS " + strings.Join(got, " ") + " / " + strings.Join(syn, " ")
		}
		if rep == 0 {
			first = got
		} else if !slices.Equal(first, got) {
			return "NONDET " + strings.Join(first, " ") + " / " + strings.Join(got, " ")
		}
	}
	return strings.Join(first, " ")
}

var identPool = []string{"a", "b", "c", "d", "e", "f", "g", "h", "k", "m", "ab", "a0", "B", "zz"}

func genOrdCase(r *common.Rng, out *common.Out, stats map[string]int) {
	n := 2 + r.Intn(7)
	names := slices.Clone(identPool)
	common.Shuffle(r, names)
	var hidden []string
	for i := 0; i < n; i++ {
		hidden = append(hidden, tokOfName(names[i]))
	}
	k := 2 + r.Intn(2)
	var parts []string
	cyc := r.Chance(1, 5)
	for c := 0; c < k; c++ {
		if cyc {
			// orders that need not be jointly consistent (cyclic field graphs)
			o := slices.Clone(hidden)
			common.Shuffle(r, o)
			parts = append(parts, strings.Join(o[:1+r.Intn(n)], " "))
		} else {
			parts = append(parts, strings.Join(subseq(r, hidden, 1), " "))
		}
	}
	line := "ORD " + strings.Join(parts, " | ")
	shape := "explicit"
	if r.Chance(1, 2) {
		shape = common.Pick(r, []string{"refs", "implicit", "embed", "refs-implicit"})
		line = "ORDX " + shape + " | " + strings.Join(parts, " | ")
	}
	if cyc {
		stats["ord-unrelated-orders"]++
	}
	stats["ord-"+shape]++
	out.Emit(line, runOrdLine(line))
}
