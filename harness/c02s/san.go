package main

import (
	"fmt"
	"slices"
	"strconv"
	"strings"

	"cuelang.org/go/cue/errors"
	"cuelang.org/go/cue/token"
	"cuelang.org/go/internal/verifharness/common"
)

// hErr is an errors.Error with a path and input positions.
type hErr struct {
	pos    token.Pos
	path   []string
	msg    string
	inputs []token.Pos
}

func (e *hErr) Position() token.Pos         { return e.pos }
func (e *hErr) InputPositions() []token.Pos { return e.inputs }
func (e *hErr) Error() string               { return e.msg }
func (e *hErr) Path() []string              { return e.path }
func (e *hErr) Msg() (string, []interface{}) {
	return "%s", []interface{}{e.msg}
}

// rec is the abstract record of the Coq model (Sanitize.v, Record err).
type rec struct {
	nopos bool
	name  string
	off   int
	bits  int // fileid<<6 | low 6 bits of Pos.offset (rel, comma, scanned); fileid 0 = nil *File
	path  []string
	msg   string
	aux   int // identity of the Go error value; also selects its concrete type and payload
}

func (r rec) String() string {
	pos := "N"
	if !r.nopos {
		h := common.Hex(r.name)
		if h == "-" {
			h = ""
		}
		pos = fmt.Sprintf("P%s:%d:%d", h, r.off, r.bits)
	}
	path := "_"
	if len(r.path) > 0 {
		hs := make([]string, len(r.path))
		for i, p := range r.path {
			hs[i] = common.Hex(p)
		}
		path = strings.Join(hs, ",")
	}
	return fmt.Sprintf("%s;%s;%s;%d", pos, path, common.Hex(r.msg), r.aux)
}

func hasInputs(r rec) bool { return r.aux%3 == 0 && (len(r.path) > 0 || r.aux%2 == 1) }

func parseRec(s string) rec {
	f := strings.Split(s, ";")
	if len(f) != 4 {
		panic("bad rec " + s)
	}
	var r rec
	if f[0] == "N" {
		r.nopos = true
	} else {
		p := strings.Split(f[0][1:], ":")
		if p[0] != "" {
			r.name = common.Unhex(p[0])
		}
		r.off, _ = strconv.Atoi(p[1])
		r.bits, _ = strconv.Atoi(p[2])
	}
	if f[1] != "_" {
		for _, h := range strings.Split(f[1], ",") {
			r.path = append(r.path, common.Unhex(h))
		}
	}
	r.msg = common.Unhex(f[2])
	r.aux, _ = strconv.Atoi(f[3])
	return r
}

const fileSize = 1000

type fileKey struct {
	name string
	id   int
}

// world materialises records as Go values.
type world struct {
	files  map[fileKey]*token.File
	values map[int]errors.Error
	ids    map[errors.Error]int
	inFile *token.File
	broken string
}

func newWorld() *world {
	return &world{files: map[fileKey]*token.File{}, values: map[int]errors.Error{},
		ids: map[errors.Error]int{}, inFile: token.NewFile("in.cue", -1, fileSize)}
}

func (w *world) pos(r rec) token.Pos {
	if r.nopos {
		return token.NoPos
	}
	id, low := r.bits>>6, r.bits&63
	var p token.Pos
	if id == 0 {
		p = token.RelPos(low & 0xf).Pos()
	} else {
		k := fileKey{r.name, id}
		f := w.files[k]
		if f == nil {
			f = token.NewFile(r.name, -1, fileSize)
			w.files[k] = f
		}
		p = f.Pos(r.off, token.RelPos(low&0xf))
	}
	if low&0x10 != 0 {
		p = p.WithComma(true)
	}
	if low&0x20 != 0 {
		p = p.WithScanned(true)
	}
	// the abstraction the model relies on
	if p.Filename() != r.name || p.Offset() != r.off || !p.IsValid() {
		w.broken = fmt.Sprintf("ABSTRACTION-BROKEN pos %v: name %q off %d valid %v", r, p.Filename(), p.Offset(), p.IsValid())
	}
	return p
}

func (w *world) value(r rec) errors.Error {
	if v, ok := w.values[r.aux]; ok {
		return v
	}
	var v errors.Error
	p := w.pos(r)
	if len(r.path) == 0 && r.aux%2 == 0 {
		v = errors.Newf(p, "%s", r.msg)
	} else {
		h := &hErr{pos: p, path: r.path, msg: r.msg}
		if hasInputs(r) {
			h.inputs = []token.Pos{w.inFile.Pos(r.aux%97, token.NoRelPos)}
		}
		v = h
	}
	w.values[r.aux] = v
	w.ids[v] = r.aux
	return v
}

func (w *world) show(res errors.Error) string {
	if res == nil {
		return "Z"
	}
	if !errors.VerifIsList(res) {
		if id, ok := w.ids[res]; ok {
			return "S " + strconv.Itoa(id)
		}
		return "S ?"
	}
	var b strings.Builder
	b.WriteString("L")
	for _, e := range errors.Errors(res) {
		if id, ok := w.ids[e]; ok {
			fmt.Fprintf(&b, " %d", id)
		} else {
			b.WriteString(" ?")
		}
	}
	return b.String()
}

var baseText = map[string]string{}

// runSanLine executes one SAN case line on errors.Sanitize.  The first line of a
// group is the base; later lines (permutations of the same records) report
// whether errors.Details renders the same text as the base.
func runSanLine(line string, _ string) (result string) {
	defer func() {
		if r := recover(); r != nil {
			result = fmt.Sprintf("PANIC %v", r)
		}
	}()
	f := strings.Fields(line)
	gid, shape := f[1], f[2]
	w := newWorld()
	var es []errors.Error
	pf := true
	for _, s := range f[3:] {
		r := parseRec(s)
		es = append(es, w.value(r))
		if hasInputs(r) {
			pf = false
		}
	}
	if w.broken != "" {
		return w.broken
	}
	var in errors.Error
	switch shape {
	case "Z":
		in = nil
	case "S":
		in = es[0]
	case "L":
		if len(es) == 0 && strings.HasSuffix(gid, "n") {
			es = nil
		} else if es == nil {
			es = []errors.Error{}
		}
		in = errors.VerifList(es)
	}
	before := slices.Clone(es)
	res := errors.Sanitize(in)
	out := w.show(res)
	if !slices.Equal(before, es) {
		out += " INPUT-MUTATED"
	}
	// Print/Details sanitize again; what they iterate over:
	text := ""
	if in != nil {
		text = errors.Details(in, nil)
	}
	verdict := "same"
	if bt, ok := baseText[gid]; ok {
		if bt != text {
			verdict = "diff"
		}
	} else {
		baseText[gid] = text
	}
	// a second Sanitize of the result must not change it (idempotence)
	idem := "1"
	if w.show(errors.Sanitize(res)) != out {
		idem = "0"
	}
	pfs := "0"
	if pf {
		pfs = "1"
	}
	return fmt.Sprintf("%s | txt=%s pf=%s idem=%s lines=%d", out, verdict, pfs, idem, strings.Count(text, "\n"))
}

// ---------------------------------------------------------------- generators ----

func emitSan(out *common.Out, gid, shape string, rs []rec) string {
	var b strings.Builder
	fmt.Fprintf(&b, "SAN %s %s", gid, shape)
	for _, r := range rs {
		b.WriteByte(' ')
		b.WriteString(r.String())
	}
	line := b.String()
	impl := runSanLine(line, "")
	out.Emit(line, impl)
	return impl
}

var (
	relNames  = []string{"a.cue", "b.cue", "dir/c.cue", "", "z.cue"}
	absNames  = []string{"/r/a.cue", "/r/b.cue", "/a.cue"}
	pathPool  = [][]string{nil, nil, {"a"}, {"a", "b"}, {"b"}, {"a", ""}, {""}, {"a", "b", "c"}, {"ab"}}
	msgPool   = []string{"m0", "m1", "m2", "conflicting values", "", "m", "field not allowed"}
	lowChoice = []int{0, 1, 2, 3, 4, 5, 0x10 | 3, 0x20 | 4, 0x30 | 1}
)

type posSpec struct {
	nopos bool
	name  string
	off   int
	bits  int
}

type sanGen struct {
	r       *common.Rng
	nextAux int
}

func (g *sanGen) aux(payloadFree bool) int {
	for {
		g.nextAux++
		if g.r.Chance(1, 3) {
			g.nextAux++
		}
		if !payloadFree || g.nextAux%3 != 0 {
			return g.nextAux
		}
	}
}

// positions: coherent = no two different Pos values that Pos.Compare calls equal
func (g *sanGen) positions(coherent bool) []posSpec {
	r := g.r
	var ps []posSpec
	nfiles := 1 + r.Intn(3)
	names := slices.Clone(relNames)
	names = append(names, absNames...)
	common.Shuffle(r, names)
	type fl struct {
		name string
		id   int
	}
	var files []fl
	for i := 0; i < nfiles; i++ {
		nm := names[i]
		if !coherent && i > 0 && r.Chance(1, 2) {
			nm = files[r.Intn(len(files))].name // a second *token.File with the same name
		}
		files = append(files, fl{nm, i + 1})
	}
	if r.Chance(3, 4) {
		ps = append(ps, posSpec{nopos: true})
	}
	fixedLow := common.Pick(r, lowChoice)
	noff := 1 + r.Intn(5)
	for _, f := range files {
		for k := 0; k < noff; k++ {
			off := r.Intn(8)
			low := fixedLow
			if !coherent {
				low = common.Pick(r, lowChoice)
			} else if r.Chance(1, 2) {
				low = lowChoice[(off+f.id)%len(lowChoice)] // a function of the position
			}
			ps = append(ps, posSpec{name: f.name, off: off, bits: f.id<<6 | low})
		}
	}
	// positions without a file: valid, file name "", offset 0
	if r.Chance(1, 4) {
		low := 1 + r.Intn(5)
		ps = append(ps, posSpec{name: "", off: 0, bits: low})
		if !coherent && r.Chance(1, 2) {
			ps = append(ps, posSpec{name: "", off: 0, bits: 1 + (low % 5)})
		}
	}
	if coherent {
		// remove comparator-equal but different positions (same name+off)
		seen := map[string]bool{}
		var qs []posSpec
		for _, p := range ps {
			k := fmt.Sprintf("%v|%s|%d", p.nopos, p.name, p.off)
			if !seen[k] {
				seen[k] = true
				qs = append(qs, p)
			}
		}
		ps = qs
	}
	return ps
}

func mkRec(p posSpec, path []string, msg string, aux int) rec {
	return rec{nopos: p.nopos, name: p.name, off: p.off, bits: p.bits, path: path, msg: msg, aux: aux}
}

func keyOf(r rec) string {
	return fmt.Sprintf("%v|%s|%d|%d|%q|%q", r.nopos, r.name, r.off, r.bits, r.path, r.msg)
}

func genSanGroup(r *common.Rng, out *common.Out, i int, stats map[string]int) {
	g := &sanGen{r: r, nextAux: r.Intn(5)}
	regime := r.Intn(100)
	var rs []rec
	kind := ""
	switch {
	case regime < 40:
		// coherent: every key is one Go value; duplicates are the same value again
		kind = "coherent"
		ps := g.positions(true)
		n := r.Intn(41)
		if r.Chance(1, 3) {
			n = r.Intn(13)
		}
		byKey := map[string]rec{}
		dupRich := r.Bool()
		for len(rs) < n {
			if dupRich && len(rs) > 0 && r.Chance(1, 3) {
				rs = append(rs, rs[r.Intn(len(rs))])
				continue
			}
			x := mkRec(common.Pick(r, ps), common.Pick(r, pathPool), common.Pick(r, msgPool), 0)
			if !dupRich && r.Chance(2, 3) {
				x.msg = fmt.Sprintf("u%d", len(rs)) // duplicate-free lists
			}
			k := keyOf(x)
			if y, ok := byKey[k]; ok {
				x = y
			} else {
				x.aux = g.aux(false)
				byKey[k] = x
			}
			rs = append(rs, x)
		}
	case regime < 60:
		// position-coherent, duplicates are distinct values with the same key, no payload
		kind = "benign-dups"
		ps := g.positions(true)
		n := r.Intn(13)
		for len(rs) < n {
			x := mkRec(common.Pick(r, ps), common.Pick(r, pathPool[:5]), common.Pick(r, msgPool[:4]), g.aux(true))
			rs = append(rs, x)
		}
	case regime < 80:
		// comparator-equal positions that are not == (same-name files, rel/comma/scanned bits)
		kind = "incoherent-pos"
		ps := g.positions(false)
		n := r.Intn(13)
		for len(rs) < n {
			x := mkRec(common.Pick(r, ps), common.Pick(r, pathPool[:4]), common.Pick(r, msgPool[:3]), g.aux(r.Bool()))
			rs = append(rs, x)
		}
	case regime < 92:
		// same key, different payload (input positions)
		kind = "payload-dups"
		ps := g.positions(true)
		n := r.Intn(13)
		for len(rs) < n {
			x := mkRec(common.Pick(r, ps), common.Pick(r, pathPool[2:6]), common.Pick(r, msgPool[:3]), g.aux(false))
			rs = append(rs, x)
		}
	case regime < 96:
		kind = "all-nopos"
		n := r.Intn(13)
		for len(rs) < n {
			rs = append(rs, mkRec(posSpec{nopos: true}, common.Pick(r, pathPool), common.Pick(r, msgPool), g.aux(true)))
		}
	default:
		kind = "all-identical"
		ps := g.positions(true)
		x := mkRec(common.Pick(r, ps), common.Pick(r, pathPool), common.Pick(r, msgPool), g.aux(false))
		n := 1 + r.Intn(30)
		for len(rs) < n {
			rs = append(rs, x)
		}
	}
	stats["san-"+kind]++
	gid := fmt.Sprintf("g%d", i)
	emitSan(out, gid, "L", rs)
	nshuf := 2 + r.Intn(2)
	for k := 0; k < nshuf; k++ {
		qs := slices.Clone(rs)
		common.Shuffle(r, qs)
		impl := emitSan(out, gid, "L", qs)
		if strings.Contains(impl, "txt=diff") {
			stats["san-text-differs-"+kind]++
		}
	}
}

// sanEdgeStream: nil, single error returned as is, lists of none/one, nil list.
func sanEdgeStream(out *common.Out) {
	p := posSpec{name: "a.cue", off: 3, bits: 1<<6 | 2}
	emitSan(out, "e0", "Z", nil)
	emitSan(out, "e1", "S", []rec{mkRec(p, nil, "m", 2)})
	emitSan(out, "e2", "S", []rec{mkRec(p, []string{"a"}, "m", 3)})
	emitSan(out, "e3", "S", []rec{mkRec(posSpec{nopos: true}, nil, "", 4)})
	emitSan(out, "e4", "L", nil)
	emitSan(out, "e5n", "L", nil)
	emitSan(out, "e6", "L", []rec{mkRec(p, nil, "m", 2)})
	emitSan(out, "e7", "L", []rec{mkRec(p, nil, "m", 2), mkRec(p, nil, "m", 2)})
	emitSan(out, "e8", "L", []rec{mkRec(p, nil, "m", 2), mkRec(p, nil, "m", 4)})
	np := posSpec{nopos: true}
	emitSan(out, "e9", "L", []rec{mkRec(np, nil, "b", 2), mkRec(np, nil, "a", 4), mkRec(np, []string{"x"}, "a", 5), mkRec(np, nil, "b", 8)})
	// NoPos sorts first, absolute names before relative ones
	emitSan(out, "e10", "L", []rec{
		mkRec(posSpec{name: "a.cue", off: 0, bits: 1 << 6}, nil, "r", 2),
		mkRec(posSpec{name: "/z.cue", off: 9, bits: 2 << 6}, nil, "a", 4),
		mkRec(np, nil, "n", 8),
		mkRec(posSpec{name: "", off: 0, bits: 3}, nil, "nofile", 10)})
}

// sanWitnesses replays the refutation witnesses of SanTopoExamples.v
// (sanitize_perm_refuted, sanitize_payload_refuted) on the real Sanitize.
func sanWitnesses(out *common.Out, stats map[string]int) {
	// A(p,m) B(p',m) C(p,m): p, p' same file and offset, different RelPos
	p := posSpec{name: "a.cue", off: 3, bits: 1<<6 | 1}
	q := posSpec{name: "a.cue", off: 3, bits: 1<<6 | 2}
	a, b, c := mkRec(p, nil, "m", 2), mkRec(q, nil, "m", 4), mkRec(p, nil, "m", 8)
	i1 := emitSan(out, "w1", "L", []rec{a, b, c})
	i2 := emitSan(out, "w1", "L", []rec{a, c, b})
	if strings.Contains(i2, "txt=diff") {
		stats["witness-pos-text-differs"]++
	}
	if strings.Split(i1, " | ")[0] != strings.Split(i2, " | ")[0] {
		stats["witness-pos-result-differs"]++
	}
	// the record-coherent variant: the very same error value twice (sanitize_perm_refuted)
	i1 = emitSan(out, "w0", "L", []rec{a, b, a})
	i2 = emitSan(out, "w0", "L", []rec{a, a, b})
	if strings.Split(i1, " | ")[0] != strings.Split(i2, " | ")[0] {
		stats["witness-pos-same-value-result-differs"]++
	}
	// the same with two files of the same name
	p2 := posSpec{name: "a.cue", off: 3, bits: 1 << 6}
	q2 := posSpec{name: "a.cue", off: 3, bits: 2 << 6}
	a, b, c = mkRec(p2, nil, "m", 2), mkRec(q2, nil, "m", 4), mkRec(p2, nil, "m", 8)
	emitSan(out, "w2", "L", []rec{a, b, c})
	i2 = emitSan(out, "w2", "L", []rec{a, c, b})
	if strings.Contains(i2, "txt=diff") {
		stats["witness-file-text-differs"]++
	}
	// same key, different payload: which one survives depends on the order
	x := mkRec(p, []string{"f"}, "m", 3) // aux 3: input position in.cue:1:4
	y := mkRec(p, []string{"f"}, "m", 9) // aux 9: input position in.cue:1:10
	emitSan(out, "w3", "L", []rec{x, y})
	i2 = emitSan(out, "w3", "L", []rec{y, x})
	if strings.Contains(i2, "txt=diff") {
		stats["witness-payload-text-differs"]++
	}
}
