// C02 sub-harness: errors.Sanitize and internal/core/toposort of the working
// tree, printed in the format of the extracted Coq models
// (coq/theories/Robust/Sanitize.v, Topo.v; driver ocaml/c02s_driver.ml).
//
// Every SAN case is executed FROM ITS CASE LINE (the generator only produces
// lines), so a replayed line runs exactly what was run originally.
package main

import (
	"fmt"
	"os"
	"strings"

	"cuelang.org/go/internal/verifharness/common"
)

func main() {
	a := common.Args(os.Args[1:])
	seed := common.Atoi(a["--seed"], 1)
	dir := a["--out"]
	if dir == "" {
		dir = "."
	}
	out := common.NewOut(dir)
	defer out.Close()

	if rc := a["--replay-cases"]; rc != "" {
		data, err := os.ReadFile(rc)
		if err != nil {
			panic(err)
		}
		for _, line := range strings.Split(string(data), "\n") {
			if strings.TrimSpace(line) == "" {
				continue
			}
			out.Emit(line, runCase(line))
		}
		return
	}

	rng := common.NewRng(uint64(seed))
	nsan := common.Atoi(a["--nsan"], 800)
	ntopo := common.Atoi(a["--ntopo"], 400)
	nord := common.Atoi(a["--nord"], 150)

	stats := map[string]int{}
	sanEdgeStream(out)
	sanWitnesses(out, stats)
	for i := 0; i < nsan; i++ {
		genSanGroup(rng.Fork(), out, i, stats)
	}
	topoFixed(out)
	for i := 0; i < ntopo; i++ {
		genTopoGroup(rng.Fork(), out, stats)
	}
	for i := 0; i < nord; i++ {
		genOrdCase(rng.Fork(), out, stats)
	}
	f, err := os.Create(dir + "/stats.txt")
	if err == nil {
		for k, v := range stats {
			fmt.Fprintf(f, "%s %d\n", k, v)
		}
		f.Close()
	}
}

func runCase(line string) string {
	switch {
	case strings.HasPrefix(line, "SAN "):
		return runSanLine(line, "")
	case strings.HasPrefix(line, "TOPO "):
		return runTopoLine(line)
	case strings.HasPrefix(line, "ORD "), strings.HasPrefix(line, "ORDX "):
		return runOrdLine(line)
	}
	return "BADCASE"
}
