//go:build c02s_sanonly

// Stub used only for fast mutation experiments on cue/errors and cue/token
// (VERIF_C02_TAGS=c02s_sanonly): without the toposort and cuecontext imports the
// harness depends on cue/errors, cue/token and the helpers only.
package main

import "cuelang.org/go/internal/verifharness/common"

func runTopoLine(line string) string                                { return "SKIPPED" }
func runOrdLine(line string) string                                 { return "SKIPPED" }
func topoFixed(out *common.Out)                                     {}
func genTopoGroup(r *common.Rng, out *common.Out, s map[string]int) {}
func genOrdCase(r *common.Rng, out *common.Out, s map[string]int)   {}
