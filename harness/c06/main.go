// C06 harness: arithmetic, comparison, integer division and number literals of
// the working tree, evaluated through the public cue API (cue.Context.CompileString,
// Value.Kind, Value.Err, the adt.Num behind the Value) and, for literals, through
// literal.ParseNum directly.  Results are printed in the format of the extracted
// Coq model (ocaml/c06_driver.ml).
package main

import (
	"fmt"
	"math/big"
	"os"
	"strconv"
	"strings"

	"github.com/cockroachdb/apd/v3"

	"cuelang.org/go/cue"
	"cuelang.org/go/cue/cuecontext"
	"cuelang.org/go/cue/literal"
	"cuelang.org/go/internal/core/adt"
	"cuelang.org/go/internal/value"
	"cuelang.org/go/internal/verifharness/common"
)

// ---------------------------------------------------------------- running ----

var ctx *cue.Context
var nctx int

func getCtx() *cue.Context {
	// a fresh context every so often keeps the runtime's index small
	if ctx == nil || nctx > 2000 {
		ctx = cuecontext.New()
		nctx = 0
	}
	nctx++
	return ctx
}

var binops = map[string]bool{"+": true, "-": true, "*": true, "/": true, "==": true, "!=": true,
	"<": true, "<=": true, ">": true, ">=": true}
var calls = map[string]bool{"div": true, "mod": true, "quo": true, "rem": true}

func hexToDec(h string) string {
	z, ok := new(big.Int).SetString(h, 16)
	if !ok {
		panic("bad hex " + h)
	}
	return z.String()
}

// render turns the prefix token stream into CUE source; every operand is parenthesised.
func render(toks []string) (string, []string) {
	t := toks[0]
	rest := toks[1:]
	switch {
	case binops[t]:
		a, r1 := render(rest)
		b, r2 := render(r1)
		return "(" + a + " " + t + " " + b + ")", r2
	case calls[t]:
		a, r1 := render(rest)
		b, r2 := render(r1)
		return t + "(" + a + ", " + b + ")", r2
	case strings.HasPrefix(t, "bnd"):
		// a & <b : the bound validates the value through BinOp(op, a, b)
		a, r1 := render(rest)
		b, r2 := render(r1)
		return "(" + a + " & " + t[3:] + "(" + b + "))", r2
	case t == "neg":
		a, r1 := render(rest)
		return "(-" + a + ")", r1
	case t[0] == 'i':
		return hexToDec(t[1:]), rest
	case t[0] == 'f':
		i := strings.IndexByte(t, '^')
		return hexToDec(t[1:i]) + "e" + t[i+1:], rest
	}
	panic("bad token " + t)
}

func showDec(kind string, d *apd.Decimal) string {
	s := "+"
	if d.Negative {
		s = "-"
	}
	return fmt.Sprintf("%s %s %s %d", kind, s, d.Coeff.Text(16), d.Exponent)
}

// evalCUE compiles and evaluates one expression and projects the result.
func evalCUE(src string) (res string) {
	defer func() {
		if r := recover(); r != nil {
			res = fmt.Sprintf("panic %v", r)
		}
	}()
	v := getCtx().CompileString(src)
	if v.Err() != nil {
		return "err"
	}
	switch v.Kind() {
	case cue.BoolKind:
		b, err := v.Bool()
		if err != nil {
			return "err"
		}
		if b {
			return "b 1"
		}
		return "b 0"
	case cue.IntKind, cue.FloatKind:
		k := "i"
		if v.Kind() == cue.FloatKind {
			k = "f"
		}
		vx := value.Vertex(v)
		n, ok := vx.DerefValue().BaseValue.(*adt.Num)
		if !ok {
			return "notnum"
		}
		if n.X.Form != apd.Finite {
			return "nan " + k
		}
		// cross-check with the public accessor
		var mant big.Int
		e, err := v.MantExp(&mant)
		if err != nil || e != int(n.X.Exponent) || mant.CmpAbs(n.X.Coeff.MathBigInt()) != 0 {
			return "mantexp-disagrees"
		}
		return "n " + showDec(k, &n.X)
	}
	return "other " + v.Kind().String()
}

// histLits are parsed into a NumInfo before it is reused for the literal under test: the result of ParseNum
// must be a function of the literal alone (the model is), whatever the NumInfo parsed before (multiplier,
// base, separators, sign, float-ness, error state).
var histLits = []string{"1K", "3Mi", ".5M", "0x1F", "0b101", "0o17", "1_000", "1.5e3", "2e-3", "1.5Gi", "07x", "1e"}

func parseNumDirect(s string) string {
	fresh := parseNumWith(s, nil)
	for _, h := range histLits {
		var info literal.NumInfo
		_ = literal.ParseNum(h, &info)
		if got := parseNumWith(s, &info); got != fresh {
			return "HISTORY-DIFF fresh=[" + fresh + "] after " + h + "=[" + got + "]"
		}
	}
	return fresh
}

func parseNumWith(s string, reuse *literal.NumInfo) string {
	var info0 literal.NumInfo
	info := &info0
	if reuse != nil {
		info = reuse
	}
	return parseNumInfo(s, info)
}

func parseNumInfo(s string, infop *literal.NumInfo) string {
	if err := literal.ParseNum(s, infop); err != nil {
		return "err"
	}
	info := *infop
	k := "f"
	if info.IsInt() {
		k = "i"
	}
	var d apd.Decimal
	if err := info.Decimal(&d); err != nil {
		return "err"
	}
	if d.Form != apd.Finite {
		return "nan " + k
	}
	return "num " + showDec(k, &d)
}

func runCase(line string) (res string) {
	defer func() {
		if r := recover(); r != nil {
			res = fmt.Sprintf("panic %v", r)
		}
	}()
	f := strings.Fields(line)
	switch f[0] {
	case "E":
		src, rest := render(f[1:])
		if len(rest) != 0 {
			return "BADCASE"
		}
		return evalCUE(src)
	case "L":
		return parseNumDirect(common.Unhex(f[1]))
	case "LV":
		s := common.Unhex(f[1])
		d := parseNumDirect(s)
		e := evalCUE(s)
		// the same literal compiled after other literals in one source: [h, s][1] must be the value of s
		for _, h := range []string{"1K", ".5M", "0x1F", "1.5e3", "1_000"} {
			if e3 := evalCUE("[" + h + ", " + s + "][1]"); e3 != e {
				return "CONTEXT-DIFF alone=[" + e + "] after " + h + "=[" + e3 + "]"
			}
		}
		e2 := e
		if strings.HasPrefix(e, "n ") {
			e2 = "num " + e[2:]
		}
		if d != e2 {
			return "E2E-DIFF direct=[" + d + "] compiled=[" + e + "]"
		}
		return d
	case "S":
		a, b := common.Unhex(f[3]), common.Unhex(f[4])
		form := literal.String
		if f[2] == "b" {
			form = literal.Bytes
		}
		return evalCUE(form.Quote(a) + " " + f[1] + " " + form.Quote(b))
	}
	return "BADCASE"
}

// ---------------------------------------------------------------- generation ----

type gen struct {
	r      *common.Rng
	out    *common.Out
	maxD   int  // largest number of digits of random operands
	bigE   int  // largest |exponent|
	bounds bool // also emit bound-validation forms (E bnd<op> a b)
	stats  map[string]int
}

func (g *gen) emit(c string) {
	g.out.Emit(c, runCase(c))
	g.stats[strings.Fields(c)[0]]++
}

func pow10(n int) *big.Int { return new(big.Int).Exp(big.NewInt(10), big.NewInt(int64(n)), nil) }

func (g *gen) randDigits(n int) *big.Int {
	// n random decimal digits, first one non-zero
	var sb strings.Builder
	sb.WriteByte(byte('1' + g.r.Intn(9)))
	for i := 1; i < n; i++ {
		switch g.r.Intn(12) {
		case 0:
			sb.WriteByte('0')
		case 1:
			sb.WriteByte('9')
		case 2:
			sb.WriteByte('5')
		default:
			sb.WriteByte(byte('0' + g.r.Intn(10)))
		}
	}
	z, _ := new(big.Int).SetString(sb.String(), 10)
	return z
}

func (g *gen) numDigits() int {
	switch g.r.Intn(10) {
	case 0, 1, 2:
		return 1 + g.r.Intn(6)
	case 3, 4:
		return 1 + g.r.Intn(33)
	case 5, 6:
		return 30 + g.r.Intn(10) // around the precision
	case 7:
		return 17 + g.r.Intn(4) // products of two land around 34..40
	case 8:
		return 1 + g.r.Intn(80)
	default:
		return 1 + g.r.Intn(g.maxD)
	}
}

func (g *gen) randCoeff() *big.Int {
	switch g.r.Intn(14) {
	case 0:
		return big.NewInt(0)
	case 1:
		// a power of ten, or next to one
		z := pow10(g.r.Intn(40))
		return z.Add(z, big.NewInt(int64(g.r.Intn(3)-1))).Abs(z)
	case 2:
		// all nines
		z := pow10(1 + g.r.Intn(40))
		return z.Sub(z, big.NewInt(1))
	case 3:
		// trailing zeros
		z := g.randDigits(1 + g.r.Intn(20))
		return z.Mul(z, pow10(g.r.Intn(30)))
	case 4:
		// 34 digits followed by a tie / near-tie tail
		return g.tieCoeff()
	}
	return g.randDigits(g.numDigits())
}

func (g *gen) tieCoeff() *big.Int {
	y := g.randDigits(34)
	if g.r.Chance(1, 4) {
		y = new(big.Int).Sub(pow10(34), big.NewInt(1)) // rollover
	}
	k := 1 + g.r.Intn(6)
	tails := []string{"5", "49", "50", "51", "499", "500", "501", "4", "6", "0", "1", "9"}
	t := common.Pick(g.r, tails)
	for len(t) < k {
		t += common.Pick(g.r, []string{"0", "0", "9", "1"})
	}
	tz, _ := new(big.Int).SetString(t, 10)
	z := new(big.Int).Mul(y, pow10(len(t)))
	return z.Add(z, tz)
}

func (g *gen) randExp() int {
	switch g.r.Intn(24) {
	case 0, 1, 2, 3, 4, 5:
		return 0
	case 6, 7, 8, 9, 10, 11:
		return g.r.Intn(9) - 4
	case 12, 13, 14, 15, 16, 17:
		return g.r.Intn(81) - 40
	case 18, 19:
		return g.r.Intn(401) - 200
	case 20, 21, 22:
		return -g.r.Intn(40)
	default:
		// rare: the extracted model needs ~0.2 s for 10^2000
		return g.r.Intn(2*g.bigE+1) - g.bigE
	}
}

func lit(isInt bool, c *big.Int, e int) string {
	if isInt {
		return "i" + c.Text(16)
	}
	return "f" + c.Text(16) + "^" + strconv.Itoa(e)
}

// operand: a literal, possibly negated
func (g *gen) operand(intOnly bool) string {
	c := g.randCoeff()
	isInt := intOnly || g.r.Chance(1, 2)
	s := lit(isInt, c, g.randExp())
	if g.r.Chance(2, 5) {
		s = "neg " + s
	}
	return s
}

var arithOps = []string{"+", "-", "*", "/"}
var cmpOps = []string{"==", "!=", "<", "<=", ">", ">="}
var boundOps = []string{"!=", "<", "<=", ">", ">="}
var callOps = []string{"div", "mod", "quo", "rem"}

func (g *gen) expr(depth int, wantInt bool) string {
	if depth == 0 {
		return g.operand(wantInt)
	}
	switch g.r.Intn(8) {
	case 0:
		return "neg " + g.expr(depth-1, wantInt)
	case 1:
		return common.Pick(g.r, callOps) + " " + g.expr(depth-1, true) + " " + g.expr(depth-1, true)
	default:
		ops := arithOps
		if wantInt {
			ops = arithOps[:3]
		}
		return common.Pick(g.r, ops) + " " + g.expr(depth-1, wantInt) + " " + g.expr(depth-1, wantInt)
	}
}

func signed(tok string, neg bool) string {
	if neg {
		return "neg " + tok
	}
	return tok
}

// small exhaustive ranges
func (g *gen) exhaustive(full bool) {
	var ints, flts []string
	lim := int64(4)
	if full {
		lim = 12
	}
	for i := -lim; i <= lim; i++ {
		ints = append(ints, signed(lit(true, big.NewInt(abs64(i)), 0), i < 0))
	}
	fl := [][2]int64{{0, 0}, {0, -2}, {5, -1}, {15, -1}, {25, -2}, {1, 1}, {10, -1}, {3, 0}, {1, -3}, {75, -1}, {2, 2}}
	if !full {
		fl = fl[:7]
	}
	for _, f := range fl {
		flts = append(flts, lit(false, big.NewInt(f[0]), int(f[1])))
		if f[0] != 0 {
			flts = append(flts, "neg "+lit(false, big.NewInt(f[0]), int(f[1])))
		}
	}
	all := append(append([]string{}, ints...), flts...)
	for _, a := range all {
		for _, b := range all {
			for _, op := range arithOps {
				g.emit("E " + op + " " + a + " " + b)
			}
			for _, op := range cmpOps {
				g.emit("E " + op + " " + a + " " + b)
			}
		}
	}
	for _, a := range ints {
		for _, b := range ints {
			for _, op := range callOps {
				g.emit("E " + op + " " + a + " " + b)
			}
		}
	}
	// the kind check of the builtins
	for _, op := range callOps {
		g.emit("E " + op + " " + flts[2] + " " + ints[0])
		g.emit("E " + op + " " + ints[0] + " " + flts[2])
	}
}

func abs64(i int64) int64 {
	if i < 0 {
		return -i
	}
	return i
}

// mixedOrder: ordering and equality between an INT and a FLOAT operand whose values differ by
// less than a float64 ulp (or not at all): magnitudes around 2^52, 2^53, 2^63, 2^64, 2^100, 2^113,
// 10^k, each +-1 on the int side and +-0 / +-0.5 / +-1 on the float side, the float in several
// representations (b.0, b.00, b e0, m e k), both operand orders, all six operators, both signs;
// and floats below the smallest float64 subnormal against the ints 0, 1, -1.
// Decimal.Cmp decides all of them exactly; a comparison through float64 does not.
func (g *gen) mixedOrder(full bool) {
	var bases []*big.Int
	for _, sh := range []uint{52, 53, 63, 64} {
		bases = append(bases, new(big.Int).Lsh(big.NewInt(1), sh))
	}
	ks := []int{16, 17, 19, 22, 23, 34, 36}
	if full {
		for _, sh := range []uint{24, 31, 32, 54, 62, 65, 100, 113, 127, 128, 256} {
			bases = append(bases, new(big.Int).Lsh(big.NewInt(1), sh))
		}
		bases = append(bases, new(big.Int).Add(new(big.Int).Lsh(big.NewInt(1), 54), big.NewInt(2)),
			new(big.Int).Mul(big.NewInt(3), new(big.Int).Lsh(big.NewInt(1), 53)))
		ks = nil
		for k := 15; k <= 41; k++ {
			ks = append(ks, k)
		}
	}
	for _, k := range ks {
		bases = append(bases, pow10(k))
	}
	emitPair := func(a, b string) {
		for _, op := range cmpOps {
			g.emit("E " + op + " " + a + " " + b)
			g.emit("E " + op + " " + b + " " + a)
		}
		if g.bounds {
			// the same comparisons as validation of a value against a bound: a & <b ...
			for _, op := range boundOps {
				if g.r.Chance(1, 2) {
					g.emit("E bnd" + op + " " + a + " " + b)
				} else {
					g.emit("E bnd" + op + " " + b + " " + a)
				}
			}
		}
	}
	for _, b := range bases {
		// float operands: (2b + h)/2 for h in -2..2, i.e. b-1, b-0.5, b, b+0.5, b+1
		var flts []string
		for h := int64(-2); h <= 2; h++ {
			c := new(big.Int).Add(new(big.Int).Mul(b, big.NewInt(10)), big.NewInt(5*h))
			flts = append(flts, lit(false, c, -1))
		}
		// other representations of b itself
		flts = append(flts, lit(false, b, 0), lit(false, new(big.Int).Mul(b, big.NewInt(100)), -2))
		// b as mantissa and positive exponent when it is a multiple of a power of ten
		if r := new(big.Int).Mod(b, big.NewInt(10)); r.Sign() == 0 {
			m := new(big.Int).Set(b)
			e := 0
			for new(big.Int).Mod(m, big.NewInt(10)).Sign() == 0 {
				m.Div(m, big.NewInt(10))
				e++
			}
			flts = append(flts, lit(false, m, e), lit(false, new(big.Int).Mul(m, big.NewInt(10)), e-1))
		}
		for d := int64(-1); d <= 1; d++ {
			iv := new(big.Int).Add(b, big.NewInt(d))
			a := lit(true, iv, 0)
			for _, f := range flts {
				if !full && g.r.Chance(1, 3) {
					continue
				}
				if g.r.Chance(1, 3) {
					emitPair("neg "+a, "neg "+f)
				} else {
					emitPair(a, f)
				}
			}
		}
	}
	// floats that underflow float64 (and the smallest subnormals) against small ints
	tiny := []string{lit(false, big.NewInt(1), -400), lit(false, big.NewInt(49), -325), lit(false, big.NewInt(1), -323),
		lit(false, big.NewInt(24), -325), lit(false, big.NewInt(1), -1000), lit(false, big.NewInt(0), -400)}
	for _, f := range tiny {
		for _, iv := range []int64{0, 1} {
			a := lit(true, big.NewInt(iv), 0)
			emitPair(a, f)
			emitPair(a, "neg "+f)
			if iv != 0 {
				emitPair("neg "+a, "neg "+f)
				// 1 - tiny and 1 + tiny are not 1
				emitPair(a, "+ "+lit(false, big.NewInt(1), 0)+" "+f)
			}
		}
	}
	// huge floats (beyond float64) against huge ints
	for _, k := range []int{308, 309, 400} {
		a := lit(true, new(big.Int).Add(pow10(k), big.NewInt(1)), 0)
		emitPair(a, lit(false, big.NewInt(1), k))
		emitPair(a, lit(false, new(big.Int).Add(pow10(34), big.NewInt(1)), k-34))
	}
}

func (g *gen) boundaries(full bool) {
	var bs []*big.Int
	add := func(z *big.Int) {
		for d := int64(-1); d <= 1; d++ {
			bs = append(bs, new(big.Int).Add(z, big.NewInt(d)))
		}
	}
	add(new(big.Int).Lsh(big.NewInt(1), 63))
	add(new(big.Int).Lsh(big.NewInt(1), 64))
	for _, e := range []int{33, 34, 35, 36} {
		add(pow10(e))
	}
	if full {
		add(new(big.Int).Lsh(big.NewInt(1), 31))
		add(new(big.Int).Lsh(big.NewInt(1), 32))
		add(new(big.Int).Lsh(big.NewInt(1), 127))
		add(new(big.Int).Lsh(big.NewInt(1), 128))
		add(new(big.Int).Lsh(big.NewInt(1), 256))
		add(pow10(17))
		add(pow10(68))
		bs = append(bs, new(big.Int).Mul(big.NewInt(5), pow10(33)), new(big.Int).Mul(big.NewInt(5), pow10(34)))
	}
	small := []*big.Int{big.NewInt(0), big.NewInt(1), big.NewInt(2), big.NewInt(3), big.NewInt(7), big.NewInt(10)}
	var ops []string
	for _, z := range append(append([]*big.Int{}, bs...), small...) {
		ops = append(ops, lit(true, z, 0), "neg "+lit(true, z, 0))
	}
	for i, a := range ops {
		for j, b := range ops {
			if !full && (i+j)%3 != 0 && i != j {
				continue
			}
			for _, op := range arithOps {
				g.emit("E " + op + " " + a + " " + b)
			}
			g.emit("E " + common.Pick(g.r, cmpOps) + " " + a + " " + b)
			g.emit("E " + common.Pick(g.r, callOps) + " " + a + " " + b)
		}
	}
	// the same magnitudes as floats with exponents
	for _, z := range bs {
		for _, e := range []int{-1, 1, -34} {
			a := lit(false, z, e)
			b := g.operand(false)
			for _, op := range arithOps {
				g.emit("E " + op + " " + a + " " + b)
				g.emit("E " + op + " " + b + " " + a)
			}
		}
	}
}

func (g *gen) random(n int) {
	divisors := []int64{2, 3, 4, 5, 6, 7, 8, 9, 11, 16, 25, 32, 64, 125, 1000, 1024}
	for i := 0; i < n; i++ {
		switch g.r.Intn(20) {
		case 0, 1, 2, 3, 4, 5, 6:
			g.emit("E " + common.Pick(g.r, arithOps) + " " + g.operand(false) + " " + g.operand(false))
		case 7, 8:
			g.emit("E " + common.Pick(g.r, arithOps[:3]) + " " + g.operand(true) + " " + g.operand(true))
		case 9, 10:
			// comparison, often of close values
			a := g.operand(false)
			b := g.operand(false)
			if g.r.Chance(1, 3) {
				b = a
			} else if g.r.Chance(1, 3) {
				// same value, other representation: c*10^k e-k
				c := g.randCoeff()
				e := g.randExp()
				k := g.r.Intn(6)
				a = lit(false, c, e)
				b = lit(false, new(big.Int).Mul(c, pow10(k)), e-k)
				if g.r.Chance(1, 3) {
					b = lit(false, new(big.Int).Add(new(big.Int).Mul(c, pow10(k)), big.NewInt(int64(g.r.Intn(2)))), e-k)
				}
				if g.r.Chance(1, 2) {
					a, b = "neg "+a, "neg "+b
				}
			}
			g.emit("E " + common.Pick(g.r, cmpOps) + " " + a + " " + b)
		case 11, 12:
			g.emit("E " + common.Pick(g.r, callOps) + " " + g.operand(true) + " " + g.operand(true))
		case 13:
			// division by a small divisor: exact quotients and ties
			d := lit(g.r.Bool(), big.NewInt(common.Pick(g.r, divisors)), 0)
			g.emit("E / " + g.operand(false) + " " + signed(d, g.r.Chance(1, 4)))
		case 14, 15:
			// sums and products constructed to hit a tie at digit 35
			c := g.tieCoeff()
			x := g.randDigits(1 + g.r.Intn(36))
			if x.Cmp(c) > 0 {
				x.Set(c)
			}
			y := new(big.Int).Sub(c, x)
			isInt := g.r.Bool()
			e := 0
			if !isInt {
				e = g.randExp()
			}
			switch g.r.Intn(3) {
			case 0:
				g.emit("E + " + lit(isInt, x, e) + " " + lit(isInt, y, e))
			case 1:
				g.emit("E - " + lit(isInt, c, e) + " neg " + lit(isInt, big.NewInt(0), e))
			default:
				g.emit("E * " + lit(isInt, c, e) + " " + signed(lit(true, big.NewInt(1), 0), g.r.Bool()))
			}
		case 16, 17:
			g.emit("E " + g.expr(2, g.r.Chance(1, 3)))
		case 18:
			g.emit("E " + common.Pick(g.r, cmpOps) + " " + g.expr(1, false) + " " + g.expr(1, false))
		default:
			g.emit("E " + g.expr(3, g.r.Chance(1, 2)))
		}
	}
}

// ---- literals ----

func (g *gen) decimals(n int, sep bool) string {
	var sb strings.Builder
	for i := 0; i < n; i++ {
		// no '_' right after a single leading 0: cue/scanner reads "0_9" as 0 followed by
		// the identifier _9 (the grammar allows it; that is C09's business, not C06's)
		if sep && i > 0 && g.r.Chance(1, 4) && !(i == 1 && sb.String() == "0") {
			sb.WriteByte('_')
		}
		sb.WriteByte(byte('0' + g.r.Intn(10)))
	}
	return sb.String()
}

func (g *gen) basedDigits(alpha string, n int) string {
	var sb strings.Builder
	for i := 0; i < n; i++ {
		if i > 0 && g.r.Chance(1, 5) {
			sb.WriteByte('_')
		}
		sb.WriteByte(alpha[g.r.Intn(len(alpha))])
	}
	return sb.String()
}

func (g *gen) litLen() int {
	switch g.r.Intn(6) {
	case 0:
		return 1
	case 1, 2:
		return 1 + g.r.Intn(5)
	case 3:
		return 28 + g.r.Intn(12)
	case 4:
		return 1 + g.r.Intn(40)
	default:
		return 1 + g.r.Intn(g.maxD)
	}
}

var mults = []string{"K", "M", "G", "T", "P", "Ki", "Mi", "Gi", "Ti", "Pi"}

// validLiteral produces a spelling of the grammar in doc/ref/spec.md
func (g *gen) validLiteral() string {
	nz := func(s string) string { // decimal_lit: no leading zero
		if len(s) > 1 && s[0] == '0' {
			return string(byte('1'+g.r.Intn(9))) + s[1:]
		}
		return s
	}
	switch g.r.Intn(12) {
	case 0, 1:
		return nz(g.decimals(g.litLen(), true))
	case 2:
		return "0x" + g.basedDigits("0123456789abcdefABCDEF", 1+g.r.Intn(40))
	case 3:
		switch g.r.Intn(3) {
		case 0:
			return "0X" + g.basedDigits("0123456789abcdefABCDEF", 1+g.r.Intn(20))
		case 1:
			return "0b" + g.basedDigits("01", 1+g.r.Intn(70))
		default:
			return "0o" + g.basedDigits("01234567", 1+g.r.Intn(40))
		}
	case 4, 5:
		// si_lit
		s := g.decimals(g.litLen(), g.r.Bool())
		switch g.r.Intn(3) {
		case 0:
			s = nz(s)
		case 1:
			s = nz(s) + "." + g.decimals(1+g.r.Intn(7), g.r.Bool())
		default:
			s = "." + g.decimals(1+g.r.Intn(7), g.r.Bool())
		}
		return s + common.Pick(g.r, mults)
	case 6:
		// fraction whose product with the multiplier is integral
		m := common.Pick(g.r, mults[:5])
		k := 3 * (1 + strings.Index("KMGTP", m))
		return nz(g.decimals(g.litLen(), false)) + "." + g.decimals(1+g.r.Intn(k), false) + m
	case 7, 8:
		// float_lit
		s := g.decimals(g.litLen(), g.r.Bool())
		switch g.r.Intn(3) {
		case 0:
			s = s + "." + g.decimals(g.r.Intn(12), g.r.Bool())
		case 1:
			s = "." + g.decimals(1+g.r.Intn(12), g.r.Bool())
			if g.r.Bool() {
				return s
			}
		default:
		}
		if g.r.Chance(1, 3) && strings.Contains(s, ".") {
			return s
		}
		e := strconv.Itoa(g.r.Intn(50))
		if g.r.Chance(1, 6) {
			e = strconv.Itoa(g.r.Intn(g.bigE))
		}
		if g.r.Chance(1, 30) {
			e = strconv.Itoa(99960 + g.r.Intn(80)) // around apd's exponent limit
		}
		if g.r.Chance(1, 6) {
			e = "0" + e
		}
		return s + common.Pick(g.r, []string{"e", "E"}) + common.Pick(g.r, []string{"", "+", "-"}) + e
	case 9:
		return common.Pick(g.r, []string{"0", "0.", "0.0", "00.5", "0e0", "0K", "0.5K", "1.5G", "1.3Ki", ".25", "1E6",
			"072.40", "1.e+0", "0Ki", "0.0M", "1_000", "0b1", "0o7", "0xF", "0.001K", "0.0001K",
			"1000000000000000000000000000000000.001K", "1000000000000000000000000000000000.0004K",
			"1e100000", "1e100001", "1e-100000", "1e-100001", "12e99999", "1e2147483647", "1e2147483648",
			"9007199254740993", "18446744073709551616", "0.1e1", "1_0.0_1e1_0"})
	default:
		return nz(g.decimals(1+g.r.Intn(6), false))
	}
}

const litAlphabet = "0123456789_.eE+-xXboKMGTPiabcdfABCDF \x00"

func (g *gen) mutate(s string) string {
	b := []byte(s)
	for k := 1 + g.r.Intn(2); k > 0; k-- {
		c := litAlphabet[g.r.Intn(len(litAlphabet))]
		switch g.r.Intn(4) {
		case 0: // insert
			i := g.r.Intn(len(b) + 1)
			b = append(b[:i], append([]byte{c}, b[i:]...)...)
		case 1: // delete
			if len(b) > 0 {
				i := g.r.Intn(len(b))
				b = append(b[:i], b[i+1:]...)
			}
		case 2: // replace
			if len(b) > 0 {
				b[g.r.Intn(len(b))] = c
			}
		default: // prefix sign
			b = append([]byte{common.Pick(g.r, []byte("-+."))}, b...)
		}
	}
	return string(b)
}

func (g *gen) literals(n int) {
	for i := 0; i < n; i++ {
		switch g.r.Intn(10) {
		case 0, 1, 2, 3, 4:
			g.emit("LV " + common.Hex(g.validLiteral()))
		case 5, 6, 7:
			g.emit("L " + common.Hex(g.mutate(g.validLiteral())))
		case 8:
			s := g.validLiteral()
			g.emit("L " + common.Hex(common.Pick(g.r, []string{"-", "+"})+s))
		default:
			var sb strings.Builder
			for k := g.r.Intn(8); k >= 0; k-- {
				sb.WriteByte(litAlphabet[g.r.Intn(len(litAlphabet))])
			}
			g.emit("L " + common.Hex(sb.String()))
		}
	}
}

// every string over a small alphabet up to length 4: the malformed stream
func (g *gen) literalsExhaustive(alpha string, maxLen int) {
	var rec func(prefix string)
	rec = func(prefix string) {
		if len(prefix) > 0 {
			g.emit("L " + common.Hex(prefix))
		}
		if len(prefix) == maxLen {
			return
		}
		for i := 0; i < len(alpha); i++ {
			rec(prefix + string(alpha[i]))
		}
	}
	rec("")
}

func (g *gen) strs(n int) {
	alpha := []string{"a", "b", "A", "", "ab", "é", "\x00", "z", "~", "ÿ", "日", "0", "9", " "}
	balpha := []byte{0, 1, 'a', 'b', 0x7f, 0x80, 0xff, 0xc3}
	for i := 0; i < n; i++ {
		if g.r.Bool() {
			mk := func() string {
				var sb strings.Builder
				for k := g.r.Intn(5); k > 0; k-- {
					sb.WriteString(common.Pick(g.r, alpha))
				}
				return sb.String()
			}
			a := mk()
			b := mk()
			if g.r.Chance(1, 3) {
				b = a + mk()
			}
			if g.r.Chance(1, 8) {
				b = a
			}
			g.emit("S " + common.Pick(g.r, cmpOps) + " s " + common.Hex(a) + " " + common.Hex(b))
		} else {
			mk := func() string {
				var sb strings.Builder
				for k := g.r.Intn(5); k > 0; k-- {
					sb.WriteByte(common.Pick(g.r, balpha))
				}
				return sb.String()
			}
			a := mk()
			b := mk()
			if g.r.Chance(1, 3) {
				b = a + mk()
			}
			if g.r.Chance(1, 8) {
				b = a
			}
			g.emit("S " + common.Pick(g.r, cmpOps) + " b " + common.Hex(a) + " " + common.Hex(b))
		}
	}
}

func main() {
	a := common.Args(os.Args[1:])
	out := common.NewOut(a["--out"])
	defer out.Close()
	if f := a["--replay-cases"]; f != "" {
		data, err := os.ReadFile(f)
		if err != nil {
			panic(err)
		}
		for _, line := range strings.Split(string(data), "\n") {
			if strings.TrimSpace(line) != "" {
				out.Emit(line, runCase(line))
			}
		}
		return
	}
	seed := uint64(common.Atoi(a["--seed"], 1))
	full := a["--tier"] == "thorough"
	g := &gen{r: common.NewRng(seed), out: out, maxD: common.Atoi(a["--maxdigits"], 300),
		bigE: common.Atoi(a["--maxexp"], 2000), stats: map[string]int{}, bounds: a["--bounds"] == "1"}
	if cf := a["--corpus"]; cf != "" {
		if data, err := os.ReadFile(cf); err == nil {
			for _, line := range strings.Split(string(data), "\n") {
				if strings.TrimSpace(line) != "" && !strings.HasPrefix(line, "#") {
					g.emit(line)
				}
			}
		}
	}
	g.exhaustive(full)
	g.boundaries(full)
	g.mixedOrder(full)
	g.random(common.Atoi(a["--n"], 2000))
	if full {
		g.literalsExhaustive("0123456789_.eE+-xXboKMGTPiaAfF\x00 ", 3)
		g.literalsExhaustive("019_.e-xbK", 5)
	} else {
		g.literalsExhaustive("019_.eE+-xboKiaF\x00", 3)
	}
	g.literals(common.Atoi(a["--nlit"], 2000))
	g.strs(common.Atoi(a["--nstr"], 300))
}
