// Seed corpus: the evaluable `-- in.cue --` sections of /repo/cue/testdata (txtar).  Only the
// direct check with a weaker equivalence: the printed text must parse and compile on its own and,
// when the original is concrete, export as the same JSON.
package main

import (
	"bufio"
	"bytes"
	"encoding/json"
	"reflect"
	"fmt"
	"io/fs"
	"os"
	"path/filepath"
	"sort"
	"strings"

	"cuelang.org/go/cue"
	"cuelang.org/go/cue/cuecontext"
	"cuelang.org/go/cue/parser"
	"cuelang.org/go/internal/verifharness/common"
)

// inCue returns the in.cue section of a txtar file when it is the only CUE source and has no imports.
func inCue(data []byte) (string, bool) {
	var cur string
	secs := map[string]*bytes.Buffer{}
	var order []string
	sc := bufio.NewScanner(bytes.NewReader(data))
	sc.Buffer(make([]byte, 1<<20), 1<<24)
	for sc.Scan() {
		line := sc.Text()
		if strings.HasPrefix(line, "-- ") && strings.HasSuffix(line, " --") {
			cur = strings.TrimSpace(line[3 : len(line)-3])
			secs[cur] = &bytes.Buffer{}
			order = append(order, cur)
			continue
		}
		if cur != "" {
			secs[cur].WriteString(line + "\n")
		}
	}
	ncue := 0
	for _, n := range order {
		if strings.HasSuffix(n, ".cue") && !strings.HasPrefix(n, "out/") {
			ncue++
		}
	}
	b, ok := secs["in.cue"]
	if !ok || ncue != 1 {
		return "", false
	}
	s := b.String()
	if strings.Contains(s, "import ") || strings.Contains(s, "import(") {
		return "", false
	}
	// experimental language features (file-level @experiment(...)) are outside the property
	if strings.Contains(s, "@experiment(") {
		return "", false
	}
	return s, true
}

func errClass(v cue.Value) string {
	err := v.Err()
	if err == nil {
		err = v.Validate()
	}
	msg := fmt.Sprint(err)
	switch {
	case strings.Contains(msg, "let[]: reference"):
		return "dangling-reference-in-hoisted-let"
	case strings.Contains(msg, "reference \"") && strings.Contains(msg, "not found"):
		return "dangling-reference"
	case strings.Contains(msg, "field not allowed"):
		return "field-not-allowed"
	case strings.Contains(msg, "structural cycle"):
		return "structural-cycle"
	case strings.Contains(msg, "conflicting values"):
		return "conflicting-values"
	}
	return "other"
}

// jsonEqual compares two JSON texts as values (the order of the fields of an object is not part
// of the value).
func jsonEqual(a, b []byte) bool {
	var x, y interface{}
	da := json.NewDecoder(bytes.NewReader(a))
	da.UseNumber()
	db := json.NewDecoder(bytes.NewReader(b))
	db.UseNumber()
	if da.Decode(&x) != nil || db.Decode(&y) != nil {
		return false
	}
	return reflect.DeepEqual(x, y)
}

func runCorpus(a map[string]string) {
	out := common.NewOut(a["--out"])
	defer out.Close()
	root := a["--root"]
	limit := common.Atoi(a["--limit"], 0)
	var files []string
	filepath.WalkDir(root, func(p string, d fs.DirEntry, err error) error {
		if err == nil && !d.IsDir() && strings.HasSuffix(p, ".txtar") {
			files = append(files, p)
		}
		return nil
	})
	sort.Strings(files)
	cprofiles := []profile{profiles[0], profiles[1], profiles[3]}
	nrun := 0
	for _, f := range files {
		data, err := os.ReadFile(f)
		if err != nil {
			continue
		}
		src, ok := inCue(data)
		rel, _ := filepath.Rel(root, f)
		if !ok {
			continue
		}
		if _, err := parser.ParseFile("in.cue", src); err != nil {
			continue
		}
		func() {
			defer func() {
				if r := recover(); r != nil {
					out.Emit("C "+rel+" *", "PANIC")
				}
			}()
			ctx := cuecontext.New()
			v := ctx.CompileString(src, cue.Filename("in.cue"))
			if v.Err() != nil || v.Validate() != nil {
				return
			}
			if limit > 0 && nrun >= limit {
				return
			}
			nrun++
			concrete := v.Validate(cue.Concrete(true)) == nil
			var j0 []byte
			if concrete {
				j0, err = v.MarshalJSON()
				if err != nil {
					concrete = false
				}
			}
			for _, pr := range cprofiles {
				res, _ := corpusCheck(v, pr, concrete, j0)
				out.Emit("C "+rel+" "+pr.name, res)
			}
		}()
	}
	fmt.Fprintf(os.Stderr, "corpus: %d files with in.cue, %d evaluable run\n", len(files), nrun)
}


// corpusCheck: print v under the profile, re-read the text as a file on its own, compare JSON
// when the original is concrete.
func corpusCheck(v cue.Value, pr profile, concrete bool, j0 []byte) (res, text string) {
	text, err := printValue(v, pr.opts)
	res = "OK"
	if err != nil {
		return "FORMAT", text
	}
	body := text
	// a struct literal printed for a file-level value is re-read as a file
	if strings.HasPrefix(body, "{") && strings.HasSuffix(body, "}") {
		body = body[1 : len(body)-1]
	}
	if _, perr := parser.ParseFile("printed.cue", body); perr != nil {
		return "PARSE", text
	}
	ctx2 := cuecontext.New()
	v2 := ctx2.CompileString(body, cue.Filename("printed.cue"))
	if v2.Err() != nil || v2.Validate() != nil {
		return "COMPILE:" + errClass(v2), text
	}
	if concrete {
		j1, err := v2.MarshalJSON()
		if err != nil {
			res = "JSON-ERR"
		} else if !jsonEqual(j0, j1) {
			res = "JSON-DIFF"
		} else {
			res = "OK-JSON"
		}
	}
	return res, text
}

// fileCheck runs corpusCheck on one source file (replay / finding witnesses).
func fileCheck(a map[string]string) {
	data, _ := os.ReadFile(a["--file"])
	ctx := cuecontext.New()
	v := ctx.CompileString(string(data), cue.Filename("in.cue"))
	if v.Err() != nil || v.Validate() != nil {
		fmt.Println("ORIG-ERROR")
		return
	}
	concrete := v.Validate(cue.Concrete(true)) == nil
	var j0 []byte
	if concrete {
		var err error
		j0, err = v.MarshalJSON()
		if err != nil {
			concrete = false
		}
	}
	for _, pr := range profiles {
		if a["--profile"] != "" && a["--profile"] != pr.name {
			continue
		}
		res, text := corpusCheck(v, pr, concrete, j0)
		fmt.Printf("%s %s\n--- printed\n%s\n", pr.name, res, text)
	}
}

// runEvalSexp evaluates with cue the expressions the model printed (one S-expression per line
// of --file; "-" lines are passed through) and prints their canonical forms.
func runEvalSexp(a map[string]string) {
	data, _ := os.ReadFile(a["--file"])
	w := bufio.NewWriter(os.Stdout)
	defer w.Flush()
	for _, line := range strings.Split(strings.TrimRight(string(data), "\n"), "\n") {
		if line == "-" || line == "" {
			fmt.Fprintln(w, "-")
			continue
		}
		text, err := sexpToCUE(line)
		if err != nil {
			fmt.Fprintln(w, "RENDER-FAIL "+strings.ReplaceAll(err.Error(), " ", "_"))
			continue
		}
		fmt.Fprintln(w, evalProgram("x: "+text+"\n", "("+text+")"))
	}
}
