// C07, disjunctions with defaults (exporter.value case *adt.Disjunction, adt.Default under
// TakeDefaults; definition mode re-prints the disjunction expressions with their marks).
//
// One case = one field  x: O1 & O2 & ...  whose operands are plain scalars or flat disjunctions of
// scalar conjunctions, with `*` marks.  For the evaluated value v and every option profile p the
// printed text is parsed and compiled on its own (v') and compared by observables:
//   acc(v)          per probe atom a: v & a is not an error
//   acc(Default(v)) the same for v.Default()
//   tag             C: Default(v) is concrete, I: it is not
// definition-mode profiles must preserve all three; value-mode profiles (TakeDefaults) promise
// Default(v).  The disjuncts of the Final() text are split at the top-level `|` and probed one by
// one: the SET of printed disjuncts is compared with the model's print_final.
package main

import (
	"fmt"
	"os"
	"sort"
	"strings"

	"cuelang.org/go/cue"
	"cuelang.org/go/cue/ast"
	"cuelang.org/go/cue/cuecontext"
	"cuelang.org/go/cue/format"
	"cuelang.org/go/cue/parser"
	"cuelang.org/go/cue/token"
	"cuelang.org/go/internal/verifharness/common"
)

// probe atoms of the disjunction stream (ints around the operands of the bound family, the two
// strings, bools, null)
var dAtoms = []Atom{{'i', -1}, {'i', 0}, {'i', 1}, {'i', 2}, {'i', 3}, {'i', 4}, {'i', 5}, {'i', 6}, {'i', 9}, {'i', 10}, {'i', 11},
	{'s', 0}, {'s', 1}, {'b', 0}, {'b', 1}, {'n', 0}}

func dAtomsSexp() string {
	var ss []string
	for _, a := range dAtoms {
		ss = append(ss, a.Sexp())
	}
	return strings.Join(ss, ",")
}

// a scalar token: model notation and CUE text
type dTok struct{ m, c string }

var dBoundToks = []dTok{{"gt:0", ">0"}, {"ge:0", ">=0"}, {"lt:10", "<10"}, {"le:10", "<=10"}, {"ne:5", "!=5"}, {"ge:2", ">=2"}, {"lt:5", "<5"}}
var dKindToks = []dTok{{"int", "int"}, {"int", "int"}, {"string", "string"}, {"bool", "bool"}}
var dAtomPool = []Atom{{'i', 1}, {'i', 2}, {'i', 3}, {'i', 5}, {'i', 0}, {'i', 10}, {'i', 2}, {'i', 3}, {'s', 0}, {'s', 1}, {'b', 1}, {'n', 0}}

type dDisjunct struct {
	mark bool
	toks []dTok
}

func (d dDisjunct) cue() string {
	var cs []string
	for _, t := range d.toks {
		cs = append(cs, t.c)
	}
	s := strings.Join(cs, " & ")
	if len(cs) > 1 {
		s = "(" + s + ")"
	}
	if d.mark {
		s = "*" + s
	}
	return s
}

func (d dDisjunct) model() string {
	var ms []string
	for _, t := range d.toks {
		ms = append(ms, t.m)
	}
	s := strings.Join(ms, ",")
	if d.mark {
		s = "*" + s
	}
	return s
}

func genScalarConj(r *common.Rng) []dTok {
	switch c := r.Intn(10); {
	case c < 5:
		a := common.Pick(r, dAtomPool)
		return []dTok{{"a:" + a.Sexp(), a.CUE()}}
	case c < 7:
		return []dTok{common.Pick(r, dKindToks)}
	case c < 8:
		return []dTok{common.Pick(r, dBoundToks)}
	case c < 9:
		return []dTok{{"int", "int"}, common.Pick(r, dBoundToks)}
	default:
		a, b := common.Pick(r, dBoundToks), common.Pick(r, dBoundToks)
		if a == b {
			return []dTok{a}
		}
		return []dTok{a, b}
	}
}

type dCase struct {
	plain [][]dTok
	ds    [][]dDisjunct
	order []int // operand order in the text: >= 0 index into ds, < 0: -(index into plain)-1
}

func genDisjCase(r *common.Rng) dCase {
	var c dCase
	n := 1 + r.Intn(3)
	for i := 0; i < n; i++ {
		if r.Chance(1, 4) {
			// plain operands are single constraints (bounds, kinds, sometimes an atom)
			var t []dTok
			if r.Chance(1, 4) {
				a := common.Pick(r, dAtomPool)
				t = []dTok{{"a:" + a.Sexp(), a.CUE()}}
			} else if r.Bool() {
				t = []dTok{common.Pick(r, dBoundToks)}
			} else {
				t = []dTok{common.Pick(r, dKindToks)}
			}
			c.plain = append(c.plain, t)
			c.order = append(c.order, -len(c.plain))
			continue
		}
		k := 2 + r.Intn(2)
		var d []dDisjunct
		marks := r.Chance(2, 3)
		for j := 0; j < k; j++ {
			d = append(d, dDisjunct{mark: marks && r.Chance(2, 5), toks: genScalarConj(r)})
		}
		c.ds = append(c.ds, d)
		c.order = append(c.order, len(c.ds)-1)
	}
	if len(c.ds) == 0 {
		c.ds = append(c.ds, []dDisjunct{{true, genScalarConj(r)}, {false, genScalarConj(r)}})
		c.order = append(c.order, 0)
	}
	return c
}

func (c dCase) cue() string {
	var ops []string
	for _, o := range c.order {
		if o >= 0 {
			var ds []string
			for _, d := range c.ds[o] {
				ds = append(ds, d.cue())
			}
			ops = append(ops, "("+strings.Join(ds, " | ")+")")
		} else {
			ops = append(ops, c.plain[-o-1][0].c)
		}
	}
	return "x: " + strings.Join(ops, " & ") + "\n"
}

func (c dCase) model() string {
	var ps, dss []string
	for _, p := range c.plain {
		ps = append(ps, p[0].m)
	}
	for _, d := range c.ds {
		var xs []string
		for _, dj := range d {
			xs = append(xs, dj.model())
		}
		dss = append(dss, strings.Join(xs, " / "))
	}
	return "D " + dAtomsSexp() + " | " + strings.Join(ps, " ") + " | " + strings.Join(dss, " ; ")
}

func accBits(ctx *cue.Context, v cue.Value) string {
	b := make([]byte, len(dAtoms))
	for i, a := range dAtoms {
		u := v.Unify(ctx.CompileString(a.CUE()))
		if u.Err() == nil {
			b[i] = '1'
		} else {
			b[i] = '0'
		}
	}
	return string(b)
}

type dSig struct{ acc, dacc, tag string }

func sigOf(ctx *cue.Context, v cue.Value) dSig {
	d, _ := v.Default()
	tag := "I"
	if d.IsConcrete() {
		tag = "C"
	}
	return dSig{accBits(ctx, v), accBits(ctx, d), tag}
}

func splitOr(e ast.Expr, out *[]ast.Expr) {
	if b, ok := e.(*ast.BinaryExpr); ok && b.Op == token.OR {
		splitOr(b.X, out)
		splitOr(b.Y, out)
		return
	}
	*out = append(*out, e)
}

// the set of disjuncts of a printed scalar expression, each probed on its own ("*" kept)
func disjunctSet(text string) string {
	e, err := parser.ParseExpr("printed", text)
	if err != nil {
		return "PARSE"
	}
	var parts []ast.Expr
	splitOr(e, &parts)
	set := map[string]bool{}
	for _, p := range parts {
		mark := ""
		if u, ok := p.(*ast.UnaryExpr); ok && u.Op == token.MUL {
			mark = "*"
			p = u.X
		}
		b, err := format.Node(p)
		if err != nil {
			return "FORMAT"
		}
		ctx := cuecontext.New()
		v := ctx.CompileString("y: " + string(b)).LookupPath(cue.ParsePath("y"))
		if v.Err() != nil {
			return "COMPILE"
		}
		set[mark+accBits(ctx, v)] = true
	}
	var keys []string
	for k := range set {
		keys = append(keys, k)
	}
	sort.Strings(keys)
	return strings.Join(keys, "|")
}

func runDisjCase(text string) (impl string, printed string, ok bool) {
	ctx := cuecontext.New()
	x := ctx.CompileString(text).LookupPath(cue.ParsePath("x"))
	if x.Err() != nil {
		return "", "", false
	}
	orig := sigOf(ctx, x)
	dv, _ := x.Default()
	want := sigOf(ctx, dv)
	var verdicts []string
	finalSet := "-"
	var sb strings.Builder
	for _, pr := range profiles {
		s, err := printValue(x, pr.opts)
		fmt.Fprintf(&sb, "--- %s\n%s\n", pr.name, s)
		if err != nil {
			verdicts = append(verdicts, pr.name+":FORMAT")
			continue
		}
		if _, perr := parser.ParseExpr("printed", s); perr != nil {
			verdicts = append(verdicts, pr.name+":PARSE")
			continue
		}
		ctx2 := cuecontext.New()
		y := ctx2.CompileString("x: " + s).LookupPath(cue.ParsePath("x"))
		if y.Err() != nil {
			verdicts = append(verdicts, pr.name+":COMPILE")
			continue
		}
		got := sigOf(ctx2, y)
		exp := orig
		if pr.value {
			exp = want
		}
		if got == exp {
			verdicts = append(verdicts, pr.name+":OK")
		} else {
			verdicts = append(verdicts, fmt.Sprintf("%s:DIFF(%s/%s/%s)", pr.name, got.acc, got.dacc, got.tag))
		}
		if pr.name == "final" {
			finalSet = disjunctSet(s)
		}
	}
	return orig.acc + " " + orig.dacc + " " + orig.tag + " " + finalSet + " " + strings.Join(verdicts, ","), sb.String(), true
}

func runDisj(a map[string]string, r *common.Rng, n int) {
	if f := a["--file"]; f != "" { // replay of one program text
		data, _ := os.ReadFile(f)
		impl, printed, ok := runDisjCase(string(data))
		fmt.Printf("%v %s\n%s", ok, impl, printed)
		return
	}
	out := common.NewOut(a["--out"])
	defer out.Close()
	src, _ := os.Create(a["--out"] + "/src.txt")
	defer src.Close()
	stats := map[string]int{}
	for i := 0; i < n; i++ {
		c := genDisjCase(r)
		text := c.cue()
		impl, printed, ok := runDisjCase(text)
		if !ok {
			stats["disj-erroneous"]++
			continue
		}
		stats["disj-evaluable"]++
		stats[fmt.Sprintf("disj-operands-%d", len(c.order))]++
		stats[fmt.Sprintf("disj-disjunctions-%d", len(c.ds))]++
		marked := 0
		for _, d := range c.ds {
			for _, dj := range d {
				if dj.mark {
					marked++
				}
			}
		}
		if marked > 0 {
			stats["disj-with-marks"]++
		}
		fmt.Fprintf(src, "### %d\n%s%s", out.N, text, printed)
		out.Emit(c.model(), impl)
	}
	var keys []string
	for k := range stats {
		keys = append(keys, k)
	}
	sort.Strings(keys)
	for _, k := range keys {
		fmt.Fprintf(os.Stderr, "stat %s %d\n", k, stats[k])
	}
}
