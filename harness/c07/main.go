// C07 harness: print evaluated values with Value.Syntax + format.Node under the option profiles,
// re-evaluate the text on its own, compare canonical forms (direct check of the property), and
// hand the printed AST - strictly converted to a CoreCUE S-expression - to the extracted model.
package main

import (
	"fmt"
	"os"
	"sort"
	"strings"

	"cuelang.org/go/cue"
	"cuelang.org/go/cue/ast"
	"cuelang.org/go/cue/ast/astutil"
	"cuelang.org/go/cue/cuecontext"
	"cuelang.org/go/cue/format"
	"cuelang.org/go/cue/parser"
	"cuelang.org/go/cue/token"
	"cuelang.org/go/internal/verifharness/common"
)

type profile struct {
	name  string
	opts  []cue.Option
	value bool // value mode (export.Vertex): regular fields of the finalized vertex only
}

var profiles = []profile{
	{"default", nil, false},
	{"final", []cue.Option{cue.Final()}, true},
	{"concrete", []cue.Option{cue.Concrete(true)}, true},
	{"all", []cue.Option{cue.All()}, false},
	{"raw", []cue.Option{cue.Raw()}, false},
	{"dho", []cue.Option{cue.Definitions(true), cue.Hidden(true), cue.Optional(true)}, false},
}

func printValue(v cue.Value, opts []cue.Option) (string, error) {
	n := v.Syntax(opts...)
	b, err := format.Node(n)
	return strings.TrimSpace(string(b)), err
}

func errTree(n *CNode) bool {
	if n == nil {
		return false
	}
	if n.Err {
		return true
	}
	if n.Struct {
		for i, p := range n.Pres {
			if (p == '=' || p == '!') && errTree(n.Kids[i]) {
				return true
			}
		}
	}
	return false
}

// projectValue: what the value-mode profiles (Final, Concrete) promise to show: regular and
// required fields with regular labels, recursively; nothing about closedness or patterns
// (Print/Model.v project_value / project_res).
func projectValue(n *CNode) *CNode {
	if n == nil || n.Err || !n.Struct {
		return n
	}
	m := &CNode{Struct: true}
	for i, l := range allLabels() {
		if l.Kind == LReg && (n.Pres[i] == '=' || n.Pres[i] == '!') {
			k := projectValue(n.Kids[i])
			m.Pres = append(m.Pres, n.Pres[i])
			m.Kids = append(m.Kids, k)
			m.Open = append(m.Open, !errTree(k))
		} else {
			m.Pres = append(m.Pres, '-')
			m.Kids = append(m.Kids, nil)
			m.Open = append(m.Open, true)
		}
	}
	return m
}

// ---- the class of the known def-mode findings ---------------------------------------------
// A node of the program is "suspect" when it is closed - by a definition at the root of the
// printed value (export.Def wraps ALL conjuncts in _#def) or by close() at any level
// (mergeValues/wrapCloseIfNecessary wraps the merged plain literals in close()) - and receives
// a further conjunct.  Conservative: computed on the syntax of the program.
func flattenAnd(es []Expr) []Expr {
	var out []Expr
	for _, e := range es {
		if a, ok := e.(And); ok {
			out = append(out, flattenAnd([]Expr{a.A, a.B})...)
		} else {
			out = append(out, e)
		}
	}
	return out
}

func embedsOf(s Struct) (close, ref bool) {
	for _, d := range s.Ds {
		if d.H == 'e' {
			switch d.E.(type) {
			case Close:
				close = true
			case Ref:
				ref = true
			}
		}
	}
	return
}

// structsOf: the struct literals an item contributes fields from (through close, definition
// bodies and embeddings)
func structsOf(e Expr) []Struct {
	switch x := e.(type) {
	case Struct:
		out := []Struct{x}
		for _, d := range x.Ds {
			if d.H == 'e' {
				out = append(out, structsOf(d.E)...)
			}
		}
		return out
	case Close:
		return structsOf(x.E)
	case Ref:
		return structsOf(x.Body)
	case And:
		return append(structsOf(x.A), structsOf(x.B)...)
	}
	return nil
}

func suspectNode(items []Expr, top bool) bool {
	items = flattenAnd(items)
	nClose, nRef, nPlain, nStructish := 0, 0, 0, 0
	for _, it := range items {
		switch x := it.(type) {
		case Close:
			nClose++
			nStructish++
		case Ref:
			nRef++
			nStructish++
		case Struct:
			c, r := embedsOf(x)
			if c {
				nClose++
			}
			if r {
				nRef++
			}
			if !c && !r {
				nPlain++
			}
			nStructish++
		}
	}
	if top && nRef > 0 && nStructish >= 2 {
		return true
	}
	if nClose > 0 && nStructish >= 2 {
		return true
	}
	// children
	kids := map[string][]Expr{}
	var sts []Struct
	for _, it := range items {
		sts = append(sts, structsOf(it)...)
	}
	for _, s := range sts {
		for _, d := range s.Ds {
			if d.H == 'f' {
				kids[d.L.Sexp()] = append(kids[d.L.Sexp()], d.E)
			}
		}
	}
	for _, s := range sts {
		for _, d := range s.Ds {
			if d.H != 'p' {
				continue
			}
			if _, isStruct := d.E.(Struct); !isStruct {
				continue
			}
			for _, id := range patterns[d.Pat].ids() {
				k := Label{LReg, id}.Sexp()
				if _, ok := kids[k]; ok {
					kids[k] = append(kids[k], d.E)
				}
			}
		}
	}
	for _, vs := range kids {
		if suspectNode(vs, false) {
			return true
		}
	}
	return false
}

func hasNegLess(e Expr) bool {
	switch x := e.(type) {
	case ScalBound:
		return x.Z < 0 && (x.Op == "lt")
	case And:
		return hasNegLess(x.A) || hasNegLess(x.B)
	case Close:
		return hasNegLess(x.E)
	case Ref:
		return hasNegLess(x.Body)
	case Struct:
		for _, d := range x.Ds {
			if d.E != nil && hasNegLess(d.E) {
				return true
			}
		}
	}
	return false
}

// ---- one (program, profile) case ----------------------------------------------------------------
type caseOut struct {
	verdict string   // OK DIFF PARSE COMPILE FORMAT
	flags   []string // suspect f3 outfrag conv:<msg>
	want    string
	got     string
	text    string
	sexp    string
}

func runProfile(x cue.Value, orig *CNode, pr profile, suspect bool) caseOut {
	co := caseOut{sexp: "-", got: "-"}
	want := orig
	if pr.value {
		want = projectValue(orig)
	}
	co.want = want.String()
	if suspect && !pr.value {
		co.flags = append(co.flags, "suspect")
	}
	text, err := printValue(x, pr.opts)
	co.text = text
	if err != nil {
		co.verdict = "FORMAT"
		return co
	}
	if _, perr := parser.ParseExpr("printed", text); perr != nil && strings.Contains(text, "_|_ //") {
		// known finding F15: an error value (below an optional field) is written `_|_ // message`
		// and, in a one-line struct, the closing brace lands inside the comment.  The class is
		// recognised exactly: the same syntax tree formatted without the comments of its bottom
		// literals must pass everything below.
		n := x.Syntax(pr.opts...)
		ast.Walk(n, func(m ast.Node) bool {
			if b, ok := m.(*ast.BottomLit); ok {
				ast.SetComments(b, nil)
			}
			return true
		}, nil)
		if b, ferr := format.Node(n); ferr == nil {
			fixed := strings.TrimSpace(string(b))
			if _, perr2 := parser.ParseExpr("printed", fixed); perr2 == nil {
				co.flags = append(co.flags, "f15")
				text = fixed
			}
		}
	}
	if _, perr := parser.ParseExpr("printed", text); perr != nil {
		// (finding F3 - `< -1` written `<-1` - is fixed: fix: cue/format, internal/pretty: keep a
		// blank between a `<` bound and a signed operand; a text that does not parse is a violation)
		co.verdict = "PARSE"
		return co
	}
	re, st := evalTree("x: "+text+"\n", "("+text+")")
	if re == nil {
		co.verdict = "COMPILE"
		co.got = st
		return co
	}
	co.got = re.String()
	if co.got == co.want {
		co.verdict = "OK"
	} else {
		co.verdict = "DIFF"
		// known finding F8 (C01/C05: an embedded plain struct literal changes closedness in the
		// evaluator) met through the exporter, which embeds literals that have pattern constraints.
		// Recognised exactly: the same text with the embedded plain literals spliced into their
		// parent literal (the same value by the spec) must give the expected canonical form.
		if e, perr := parser.ParseExpr("printed", text); perr == nil {
			if spliced, n := spliceEmbeddedLiterals(e); n > 0 {
				if b, ferr := format.Node(spliced); ferr == nil {
					t2 := strings.TrimSpace(string(b))
					if re2, _ := evalTree("x: "+t2+"\n", "("+t2+")"); re2 != nil && re2.String() == co.want {
						co.verdict = "OK"
						co.flags = append(co.flags, "f8")
						co.got = re2.String()
						text = t2
					}
				}
			}
		}
	}
	sexp, inFrag, cerr := convertText(text)
	if cerr != nil {
		co.flags = append(co.flags, "conv:"+strings.ReplaceAll(cerr.Error(), " ", "_"))
	} else {
		co.sexp = sexp
		if !inFrag {
			co.flags = append(co.flags, "outfrag")
		}
	}
	return co
}

// spliceEmbeddedLiterals normalises embeddings into unification (the same value by the spec):
// every embedded plain struct literal {A} inside a struct literal is replaced by its declarations
// A, and every embedded scalar expression S of {S, decls} is lifted out: (S & {decls}).
// Returns the number of rewrites.
func isScalarExpr(e ast.Expr) bool {
	switch x := e.(type) {
	case *ast.BasicLit, *ast.BottomLit:
		return true
	case *ast.Ident:
		switch x.Name {
		case "_", "int", "string", "bool", "null", "true", "false", "uint", "number", "float", "bytes":
			return true
		}
		_, ok := predeclRanges[x.Name]
		return ok
	case *ast.UnaryExpr:
		return isScalarExpr(x.X)
	case *ast.ParenExpr:
		return isScalarExpr(x.X)
	case *ast.BinaryExpr:
		return x.Op == token.AND && isScalarExpr(x.X) && isScalarExpr(x.Y)
	}
	return false
}

func spliceEmbeddedLiterals(e ast.Expr) (ast.Expr, int) {
	n := 0
	var fix func(elts []ast.Decl, lifted *[]ast.Expr) []ast.Decl
	fix = func(elts []ast.Decl, lifted *[]ast.Expr) []ast.Decl {
		var out []ast.Decl
		for _, d := range elts {
			if em, ok := d.(*ast.EmbedDecl); ok {
				if st, ok := em.Expr.(*ast.StructLit); ok {
					n++
					out = append(out, fix(st.Elts, lifted)...)
					continue
				}
				if isScalarExpr(em.Expr) {
					n++
					*lifted = append(*lifted, em.Expr)
					continue
				}
			}
			out = append(out, d)
		}
		return out
	}
	res := astutil.Apply(e, nil, func(c astutil.Cursor) bool {
		if st, ok := c.Node().(*ast.StructLit); ok {
			var lifted []ast.Expr
			st.Elts = fix(st.Elts, &lifted)
			if len(lifted) > 0 {
				c.Replace(&ast.ParenExpr{X: ast.NewBinExpr(token.AND, append(lifted, st)...)})
			}
		}
		return true
	})
	if r, ok := res.(ast.Expr); ok {
		return r, n
	}
	return e, 0
}

func (co caseOut) implLine() string {
	fl := "-"
	if len(co.flags) > 0 {
		fl = strings.Join(co.flags, ",")
	}
	return co.verdict + " " + fl + " " + co.want + " " + co.got
}

func caseLine(p *Program, pr profile, sexp string) string {
	var cs []string
	for _, c := range p.Conjs {
		cs = append(cs, c.Sexp())
	}
	mode := "d"
	if pr.value {
		mode = "v"
	}
	return "P " + mode + " " + labsSexp() + " " + atomsSexp() + " | " + strings.Join(cs, " ; ") + " | " + sexp
}

func runPrograms(a map[string]string, r *common.Rng, n int) {
	out := common.NewOut(a["--out"])
	defer out.Close()
	src, _ := os.Create(a["--out"] + "/src.txt")
	defer src.Close()
	g := NewGen(r, GenCfg{MaxDepth: common.Atoi(a["--depth"], 3), Closedness: true, Bounds: true, NegBounds: true})
	stats := map[string]int{}
	for i := 0; i < n; i++ {
		if i%3 == 0 {
			g.cfg.MaxDepth = 2
		} else {
			g.cfg.MaxDepth = common.Atoi(a["--depth"], 3)
		}
		p := g.Program()
		text := p.CUE()
		orig, _ := evalTree(text, p.Inline())
		if orig == nil || errTree(orig) {
			stats["programs-erroneous"]++
			continue
		}
		stats["programs-evaluable"]++
		ctx := cuecontext.New()
		v := ctx.CompileString(text)
		x := v.LookupPath(cue.ParsePath("x"))
		suspect := suspectNode(p.Conjs, true)
		if suspect {
			stats["programs-suspect"]++
		}
		for _, pr := range profiles {
			if pr.name == "raw" && len(p.Defs) > 0 {
				stats["raw-skipped-dangling-references"]++
				continue
			}
			co := runProfile(x, orig, pr, suspect)
			fmt.Fprintf(src, "### %d %s\n%s--- printed\n%s\n", out.N, pr.name, text, co.text)
			out.Emit(caseLine(p, pr, co.sexp), co.implLine())
		}
	}
	var keys []string
	for k := range stats {
		keys = append(keys, k)
	}
	sort.Strings(keys)
	for _, k := range keys {
		fmt.Fprintf(os.Stderr, "stat %s %d\n", k, stats[k])
	}
}

func main() {
	a := common.Args(os.Args[1:])
	seed := uint64(common.Atoi(a["--seed"], 1))
	n := common.Atoi(a["--n"], 200)
	r := common.NewRng(seed)
	switch a["--mode"] {
	case "show":
		data, _ := os.ReadFile(a["--file"])
		ctx := cuecontext.New()
		v := ctx.CompileString(string(data))
		x := v.LookupPath(cue.ParsePath("x"))
		for _, p := range profiles {
			s, err := printValue(x, p.opts)
			fmt.Printf("=== %s err=%v\n%s\n", p.name, err, s)
			sx, in, cerr := convertText(s)
			fmt.Printf("--- sexp (inFragment=%v err=%v)\n%s\n", in, cerr, sx)
		}
	case "replay":
		// direct check of the property on one program text (field x) under one or all profiles
		data, _ := os.ReadFile(a["--file"])
		text := string(data)
		// the conjuncts of x as one expression (Program.CUE writes one `x: <expr>` per line); a
		// reference to x is not used for the closedness probes (design/Core.md)
		inline := "x"
		var cs []string
		for _, ln := range strings.Split(text, "\n") {
			if strings.HasPrefix(ln, "x: ") {
				cs = append(cs, "("+strings.TrimPrefix(ln, "x: ")+")")
			}
		}
		if len(cs) > 0 {
			inline = "(" + strings.Join(cs, " & ") + ")"
		}
		orig, st := evalTree(text, inline)
		if orig == nil || errTree(orig) {
			fmt.Printf("ORIG-ERROR %s\n", st)
			return
		}
		ctx := cuecontext.New()
		v := ctx.CompileString(text)
		x := v.LookupPath(cue.ParsePath("x"))
		for _, pr := range profiles {
			if a["--profile"] != "" && a["--profile"] != pr.name {
				continue
			}
			co := runProfile(x, orig, pr, false)
			fmt.Printf("%s %s\n--- printed\n%s\n", pr.name, co.implLine(), co.text)
		}
	case "run", "":
		runPrograms(a, r, n)
	case "bounds":
		runBounds(a, r, n)
	case "disj":
		runDisj(a, r, n)
	case "corpus":
		runCorpus(a)
	case "filecheck":
		fileCheck(a)
	case "evalsexp":
		runEvalSexp(a)
	}
}
