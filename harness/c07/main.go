package main

import (
	"fmt"
	"os"
	"strings"

	"cuelang.org/go/cue"
	"cuelang.org/go/cue/cuecontext"
	"cuelang.org/go/cue/format"
	"cuelang.org/go/internal/verifharness/common"
)

type profile struct {
	name  string
	opts  []cue.Option
	value bool // value mode (export.Vertex): regular fields of the finalized vertex only
}

var profiles = []profile{
	{"default", nil, false},
	{"final", []cue.Option{cue.Final()}, true},
	{"concrete", []cue.Option{cue.Concrete(true)}, true},
	{"all", []cue.Option{cue.All()}, false},
	{"raw", []cue.Option{cue.Raw()}, false},
	{"dho", []cue.Option{cue.Definitions(true), cue.Hidden(true), cue.Optional(true)}, false},
}

func printValue(v cue.Value, opts []cue.Option) (string, error) {
	n := v.Syntax(opts...)
	b, err := format.Node(n)
	return string(b), err
}

func errTree(n *CNode) bool {
	if n == nil {
		return false
	}
	if n.Err {
		return true
	}
	if n.Struct {
		for i, p := range n.Pres {
			if (p == '=' || p == '!') && errTree(n.Kids[i]) {
				return true
			}
		}
	}
	return false
}

// projectValue: what the value-mode profiles (Final, Concrete) promise to show: regular and
// required fields with regular labels, recursively; nothing about closedness or patterns.
func projectValue(n *CNode) *CNode {
	if n == nil || n.Err || !n.Struct {
		return n
	}
	m := &CNode{Struct: true}
	for i, l := range allLabels() {
		if l.Kind == LReg && (n.Pres[i] == '=' || n.Pres[i] == '!') {
			k := projectValue(n.Kids[i])
			m.Pres = append(m.Pres, n.Pres[i])
			m.Kids = append(m.Kids, k)
			m.Open = append(m.Open, !errTree(k))
		} else {
			m.Pres = append(m.Pres, '-')
			m.Kids = append(m.Kids, nil)
			m.Open = append(m.Open, true)
		}
	}
	return m
}

func main() {
	a := common.Args(os.Args[1:])
	seed := uint64(common.Atoi(a["--seed"], 1))
	n := common.Atoi(a["--n"], 200)
	switch a["--mode"] {
	case "show":
		data, _ := os.ReadFile(a["--file"])
		ctx := cuecontext.New()
		v := ctx.CompileString(string(data))
		x := v.LookupPath(cue.ParsePath("x"))
		for _, p := range profiles {
			s, err := printValue(x, p.opts)
			fmt.Printf("=== %s err=%v\n%s\n", p.name, err, s)
		}
	case "explore":
		r := common.NewRng(seed)
		g := NewGen(r, GenCfg{MaxDepth: common.Atoi(a["--depth"], 3), Closedness: a["--closed"] != "0", Bounds: true})
		stats := map[string]int{}
		shown := map[string]int{}
		for i := 0; i < n; i++ {
			p := g.Program()
			text := p.CUE()
			orig, st := evalTree(text, p.Inline())
			if orig == nil || errTree(orig) {
				stats["orig-"+st+"-err"]++
				continue
			}
			stats["evaluable"]++
			single := len(p.Conjs) == 1
			if _, isAnd := p.Conjs[0].(And); isAnd {
				single = false
			}
			ctx := cuecontext.New()
			v := ctx.CompileString(text)
			x := v.LookupPath(cue.ParsePath("x"))
			for _, pr := range profiles {
				if a["--only"] != "" && pr.name != a["--only"] {
					continue
				}
				out, err := printValue(x, pr.opts)
				key := pr.name + ":"
				if single {
					key += "single:"
				}
				if err != nil {
					key += "format-error"
				} else {
					out = strings.TrimSpace(out)
					re, st2 := evalTree("x: "+out+"\n", "("+out+")")
					want := orig
					if pr.value {
						want = projectValue(orig)
					}
					switch {
					case re == nil:
						key += "reeval-" + st2
					case re.String() == want.String():
						key += "ok"
					default:
						key += "differs"
						if strings.Contains(out, "_#def") {
							key += "+def"
						}
						if strings.Contains(out, "close(") {
							key += "+close"
						}
					}
					if !strings.HasSuffix(key, ":ok") && (a["--grep"] == "" || key == a["--grep"]) && shown[key] < common.Atoi(a["--show"], 2) {
						shown[key]++
						fmt.Printf("##### %s\n%s--- printed\n%s\n--- want %s\n--- got  %s\n", key, text, out, want.String(), func() string {
							if re == nil {
								return st2
							}
							return re.String()
						}())
					}
				}
				stats[key]++
			}
		}
		for k, v := range stats {
			fmt.Println(k, v)
		}
	}
}
