// Strict conversion of a printed CUE AST into the S-expression of the CoreCUE model.
// Anything outside the fragment is an error (counted by the check), never approximated.
package main

import (
	"fmt"
	"strconv"
	"strings"

	"cuelang.org/go/cue/ast"
	"cuelang.org/go/cue/format"
	"cuelang.org/go/cue/literal"
	"cuelang.org/go/cue/parser"
	"cuelang.org/go/cue/token"
)

type convErr struct{ msg string }

func (e convErr) Error() string { return e.msg }

func cfail(format string, a ...interface{}) { panic(convErr{fmt.Sprintf(format, a...)}) }

type converter struct {
	// definitions the printed text introduces for self-containedness:
	//   let D1 = {#x: body}   referenced as D1.#x
	//   _#def: body           referenced as _#def (embedded at the root)
	lets    map[string]ast.Expr // let name -> expression
	defs    map[string]ast.Expr // hidden definition field (_#def) -> body
	used    map[string]int
	embPlain int // embedded plain struct literals met (outside the validated Core fragment: F8)
}

func labelOfName(n string, quoted bool) (Label, bool) {
	if !quoted {
		if n == "_h0" {
			return Label{LHid, 0}, true
		}
		if n == "#F0" {
			return Label{LDef, 0}, true
		}
		if strings.HasPrefix(n, "_") || strings.HasPrefix(n, "#") {
			return Label{}, false
		}
	}
	for i, r := range regNames {
		if r == n {
			return Label{LReg, i}, true
		}
	}
	return Label{}, false
}

func patternIndex(e ast.Expr) int {
	b, err := format.Node(e)
	if err != nil {
		cfail("pattern format: %v", err)
	}
	txt := strings.TrimSpace(string(b))
	for i, p := range patterns {
		if p.CUE == txt {
			return i
		}
	}
	cfail("unknown pattern %q", txt)
	return -1
}

func intLit(e ast.Expr) (int, bool) {
	switch x := e.(type) {
	case *ast.BasicLit:
		if x.Kind == token.INT {
			n, err := strconv.Atoi(x.Value)
			if err == nil {
				return n, true
			}
		}
	case *ast.UnaryExpr:
		if x.Op == token.SUB {
			if n, ok := intLit(x.X); ok {
				return -n, true
			}
		}
		if x.Op == token.ADD {
			return intLit(x.X)
		}
	case *ast.ParenExpr:
		return intLit(x.X)
	}
	return 0, false
}

var boundOps = map[token.Token]string{token.GTR: "gt", token.GEQ: "ge", token.LSS: "lt", token.LEQ: "le", token.NEQ: "ne"}

// predeclared integer ranges (adt.MatchBuiltinRange / the predeclared identifiers)
var predeclRanges = map[string][2]string{
	"uint":  {"0", ""},
	"uint8": {"0", "255"}, "int8": {"-128", "127"},
	"uint16": {"0", "65535"}, "int16": {"-32768", "32767"},
}

func (c *converter) expr(e ast.Expr) string {
	switch x := e.(type) {
	case *ast.ParenExpr:
		return c.expr(x.X)
	case *ast.BottomLit:
		return "B"
	case *ast.Ident:
		switch x.Name {
		case "_":
			return "T"
		case "int", "string", "bool":
			return "(k " + x.Name + ")"
		case "null":
			return "(a n)"
		case "true":
			return "(a b1)"
		case "false":
			return "(a b0)"
		}
		if r, ok := predeclRanges[x.Name]; ok {
			s := "(& (k int) (ge " + r[0] + "))"
			if r[1] != "" {
				s = "(& " + s + " (le " + r[1] + "))"
			}
			return s
		}
		if body, ok := c.defs[x.Name]; ok {
			c.used[x.Name]++
			return "(r " + c.expr(body) + ")"
		}
		cfail("identifier %s", x.Name)
	case *ast.SelectorExpr:
		// D1.#x  where  let D1 = {#x: body}
		id, ok := x.X.(*ast.Ident)
		if !ok {
			cfail("selector on non-identifier")
		}
		le, ok := c.lets[id.Name]
		if !ok {
			cfail("selector on unknown let %s", id.Name)
		}
		st, ok := le.(*ast.StructLit)
		if !ok || len(st.Elts) != 1 {
			cfail("let %s is not {#x: body}", id.Name)
		}
		f, ok := st.Elts[0].(*ast.Field)
		sel, ok2 := x.Sel.(*ast.Ident)
		if !ok || !ok2 {
			cfail("let %s: shape", id.Name)
		}
		fl, ok := f.Label.(*ast.Ident)
		if !ok || fl.Name != sel.Name || !strings.HasPrefix(sel.Name, "#") {
			cfail("let %s: selector %s", id.Name, sel.Name)
		}
		c.used[id.Name]++
		return "(r " + c.expr(f.Value) + ")"
	case *ast.BasicLit:
		switch x.Kind {
		case token.INT:
			n, err := strconv.Atoi(x.Value)
			if err != nil {
				cfail("int literal %s", x.Value)
			}
			return fmt.Sprintf("(a i%d)", n)
		case token.STRING:
			s, err := literal.Unquote(x.Value)
			if err != nil {
				cfail("string literal %s", x.Value)
			}
			for i, n := range strNames {
				if n == s {
					return fmt.Sprintf("(a s%d)", i)
				}
			}
			cfail("string %q outside the universe", s)
		case token.TRUE:
			return "(a b1)"
		case token.FALSE:
			return "(a b0)"
		case token.NULL:
			return "(a n)"
		}
		cfail("literal kind %v", x.Kind)
	case *ast.UnaryExpr:
		if op, ok := boundOps[x.Op]; ok {
			n, ok := intLit(x.X)
			if !ok {
				cfail("bound operand")
			}
			return fmt.Sprintf("(%s %d)", op, n)
		}
		if n, ok := intLit(x); ok {
			return fmt.Sprintf("(a i%d)", n)
		}
		cfail("unary %v", x.Op)
	case *ast.BinaryExpr:
		if x.Op != token.AND {
			cfail("binary %v", x.Op)
		}
		return "(& " + c.expr(x.X) + " " + c.expr(x.Y) + ")"
	case *ast.CallExpr:
		id, ok := x.Fun.(*ast.Ident)
		if !ok || id.Name != "close" || len(x.Args) != 1 {
			cfail("call")
		}
		return "(c " + c.expr(x.Args[0]) + ")"
	case *ast.StructLit:
		return c.structLit(x.Elts)
	}
	cfail("expression %T", e)
	return ""
}

func (c *converter) structLit(elts []ast.Decl) string {
	// first pass: the lets and hidden definitions of this scope
	for _, d := range elts {
		switch x := d.(type) {
		case *ast.LetClause:
			c.lets[x.Ident.Name] = x.Expr
		case *ast.Field:
			if id, ok := x.Label.(*ast.Ident); ok && strings.HasPrefix(id.Name, "_#") {
				c.defs[id.Name] = x.Value
			}
		}
	}
	var parts []string
	for _, d := range elts {
		switch x := d.(type) {
		case *ast.LetClause:
			continue
		case *ast.Ellipsis:
			if x.Type != nil {
				cfail("typed ellipsis")
			}
			parts = append(parts, "(...)")
		case *ast.EmbedDecl:
			if _, plain := x.Expr.(*ast.StructLit); plain {
				c.embPlain++
			}
			parts = append(parts, "(e "+c.expr(x.Expr)+")")
		case *ast.Field:
			if len(x.Attrs) > 0 {
				cfail("attribute")
			}
			fk := "="
			switch x.Constraint {
			case token.OPTION:
				fk = "?"
			case token.NOT:
				fk = "!"
			case token.ILLEGAL:
			default:
				cfail("constraint %v", x.Constraint)
			}
			switch l := x.Label.(type) {
			case *ast.Ident:
				if strings.HasPrefix(l.Name, "_#") {
					continue // helper definition, inlined at its references
				}
				lab, ok := labelOfName(l.Name, false)
				if !ok {
					cfail("label %s", l.Name)
				}
				parts = append(parts, fmt.Sprintf("(f %s %s %s)", lab.Sexp(), fk, c.expr(x.Value)))
			case *ast.BasicLit:
				if l.Kind != token.STRING {
					cfail("label literal %s", l.Value)
				}
				n, err := literal.Unquote(l.Value)
				if err != nil {
					cfail("label literal %s", l.Value)
				}
				lab, ok := labelOfName(n, true)
				if !ok {
					cfail("label %q", n)
				}
				parts = append(parts, fmt.Sprintf("(f %s %s %s)", lab.Sexp(), fk, c.expr(x.Value)))
			case *ast.ListLit:
				if len(l.Elts) != 1 || fk != "=" {
					cfail("pattern shape")
				}
				ids := patterns[patternIndex(l.Elts[0])].ids()
				ss := make([]string, len(ids))
				for i, id := range ids {
					ss[i] = fmt.Sprint(id)
				}
				parts = append(parts, "(p "+strings.Join(ss, ",")+" "+c.expr(x.Value)+")")
			default:
				cfail("label %T", x.Label)
			}
		default:
			cfail("declaration %T", d)
		}
	}
	return "(s " + strings.Join(parts, " ") + ")"
}

// convertText parses text as an expression and converts it. The second result reports whether the
// text is inside the validated Core fragment (no embedded plain struct literal: F8).
func convertText(text string) (sexp string, inFragment bool, err error) {
	defer func() {
		if r := recover(); r != nil {
			if ce, ok := r.(convErr); ok {
				err = ce
				return
			}
			panic(r)
		}
	}()
	e, perr := parser.ParseExpr("printed", text)
	if perr != nil {
		return "", false, perr
	}
	c := &converter{lets: map[string]ast.Expr{}, defs: map[string]ast.Expr{}, used: map[string]int{}}
	s := c.expr(e)
	for _, n := range c.used {
		if n > 1 {
			return s, false, nil // the same definition referenced twice: outside the Core fragment
		}
	}
	return s, c.embPlain == 0, nil
}
