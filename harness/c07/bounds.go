// Direct exercise of internal/core/export/bounds.go: random lists of `int` and integer bounds,
// in random order (also orders and redundancies the evaluator would have simplified away), are
// printed as an adt.Conjunction through export.Profile.Value (exporter.value, case
// *adt.Conjunction -> boundSimplifier.add / expr).  The model's range_rewrite must produce the
// same token list.
package main

import (
	"fmt"
	"strings"

	"cuelang.org/go/cue/ast"
	"cuelang.org/go/cue/cuecontext"
	"cuelang.org/go/cue/format"
	"cuelang.org/go/cue/token"
	"cuelang.org/go/internal/core/adt"
	"cuelang.org/go/internal/core/export"
	"cuelang.org/go/internal/value"
	"cuelang.org/go/internal/verifharness/common"
	"github.com/cockroachdb/apd/v3"
)

var boundAdtOps = map[string]adt.Op{"gt": adt.GreaterThanOp, "ge": adt.GreaterEqualOp, "lt": adt.LessThanOp, "le": adt.LessEqualOp, "ne": adt.NotEqualOp}

func flattenAndAst(e ast.Expr, out *[]ast.Expr) {
	if b, ok := e.(*ast.BinaryExpr); ok && b.Op == token.AND {
		flattenAndAst(b.X, out)
		flattenAndAst(b.Y, out)
		return
	}
	*out = append(*out, e)
}

func tokOf(e ast.Expr) string {
	switch x := e.(type) {
	case *ast.Ident:
		if r, ok := predeclRanges[x.Name]; ok && r[1] != "" {
			return "range:" + r[0] + ":" + r[1]
		}
		return x.Name
	case *ast.UnaryExpr:
		if op, ok := boundOps[x.Op]; ok {
			if n, ok := intLit(x.X); ok {
				return fmt.Sprintf("%s:%d", op, n)
			}
		}
	}
	b, _ := format.Node(e)
	return "?" + strings.ReplaceAll(string(b), " ", "_")
}

func runBounds(a map[string]string, r *common.Rng, n int) {
	out := common.NewOut(a["--out"])
	defer out.Close()
	ctx := cuecontext.New()
	rt, _ := value.ToInternal(ctx.CompileString("0"))
	pool := []int{-9, -5, -3, -1, 0, 1, 2, 5, 10, 11, 0, 0, -128, 127, 255, -32768, 32767, 65535}
	ops := []string{"gt", "ge", "lt", "le", "ne"}
	mk := func(tok string) adt.Value {
		if tok == "int" {
			return &adt.BasicType{K: adt.IntKind}
		}
		if tok == "string" {
			return &adt.BasicType{K: adt.StringKind}
		}
		f := strings.Split(tok, ":")
		return &adt.BoundValue{Op: boundAdtOps[f[0]], Value: &adt.Num{K: adt.IntKind, X: *apd.New(int64(common.Atoi(f[1], 0)), 0)}}
	}
	render := func(vals []adt.Value) string {
		e, err := export.Simplified.Value(rt, "", &adt.Conjunction{Values: vals})
		if err != nil || e == nil {
			return "ERR"
		}
		var parts []ast.Expr
		flattenAndAst(e, &parts)
		var ss []string
		for _, p := range parts {
			ss = append(ss, tokOf(p))
		}
		return strings.Join(ss, " ")
	}
	if c := a["--case"]; c != "" { // replay of one conjunction
		var vals []adt.Value
		for _, t := range strings.Fields(c) {
			vals = append(vals, mk(t))
		}
		out.Emit("B "+c, render(vals))
		return
	}
	for i := 0; i < n; i++ {
		k := 1 + r.Intn(6)
		var toks []string
		var vals []adt.Value
		for j := 0; j < k; j++ {
			switch c := r.Intn(12); {
			case c < 3:
				toks = append(toks, "int")
				vals = append(vals, &adt.BasicType{K: adt.IntKind})
			case c < 4 && r.Chance(1, 3):
				toks = append(toks, "string")
				vals = append(vals, &adt.BasicType{K: adt.StringKind})
			default:
				op := common.Pick(r, ops)
				z := common.Pick(r, pool)
				toks = append(toks, fmt.Sprintf("%s:%d", op, z))
				vals = append(vals, &adt.BoundValue{Op: boundAdtOps[op], Value: &adt.Num{K: adt.IntKind, X: *apd.New(int64(z), 0)}})
			}
		}
		out.Emit("B "+strings.Join(toks, " "), render(vals))
	}
}
