// Reader for the S-expressions of the CoreCUE model (the inverse of Expr.Sexp), used to evaluate
// with cue what the model's print_nf produced.
package main

import (
	"fmt"
	"strconv"
	"strings"
)

type sx struct {
	atom string
	list []*sx
}

func tokenizeSx(s string) []string {
	s = strings.ReplaceAll(s, "(", " ( ")
	s = strings.ReplaceAll(s, ")", " ) ")
	return strings.Fields(s)
}

func parseSx(toks []string, i int) (*sx, int) {
	if toks[i] == "(" {
		n := &sx{}
		i++
		for toks[i] != ")" {
			var k *sx
			k, i = parseSx(toks, i)
			n.list = append(n.list, k)
		}
		return n, i + 1
	}
	return &sx{atom: toks[i]}, i + 1
}

func atomOfSx(s string) Atom {
	switch s[0] {
	case 'i':
		n, _ := strconv.Atoi(s[1:])
		return Atom{'i', n}
	case 's':
		n, _ := strconv.Atoi(s[1:])
		return Atom{'s', n}
	case 'b':
		n, _ := strconv.Atoi(s[1:])
		return Atom{'b', n}
	}
	return Atom{'n', 0}
}

func labelOfSx(s string) Label {
	n, _ := strconv.Atoi(s[1:])
	switch s[0] {
	case 'h':
		return Label{LHid, n}
	case 'd':
		return Label{LDef, n}
	}
	return Label{LReg, n}
}

// RawPat is a pattern given by the set of universe labels it matches (as the model prints
// closers); rendered as the pattern of the table with that id set, or as ["name"] for a singleton.
type RawPat struct {
	IDs string
}

func patCUE(ids string) string {
	for _, p := range patterns {
		var ss []string
		for _, id := range p.ids() {
			ss = append(ss, fmt.Sprint(id))
		}
		if strings.Join(ss, ",") == ids {
			return p.CUE
		}
	}
	if !strings.Contains(ids, ",") {
		n, _ := strconv.Atoi(ids)
		if n != freshID {
			return fmt.Sprintf("%q", regNames[n])
		}
	}
	panic("pattern id set " + ids + " has no CUE rendering")
}

type PatStruct struct {
	Parts []string // rendered declarations
}

func exprOfSx(n *sx) string {
	if n.list == nil {
		switch n.atom {
		case "T":
			return "_"
		case "B":
			return "_|_"
		}
		panic("atom " + n.atom)
	}
	head := n.list[0].atom
	switch head {
	case "a":
		return atomOfSx(n.list[1].atom).CUE()
	case "k":
		return n.list[1].atom
	case "gt", "ge", "lt", "le", "ne":
		z, _ := strconv.Atoi(n.list[1].atom)
		return ScalBound{head, z}.CUE()
	case "&":
		return "(" + exprOfSx(n.list[1]) + " & " + exprOfSx(n.list[2]) + ")"
	case "c":
		return "close(" + exprOfSx(n.list[1]) + ")"
	case "s":
		var parts []string
		for _, d := range n.list[1:] {
			switch d.list[0].atom {
			case "f":
				suffix := ""
				if d.list[2].atom == "!" || d.list[2].atom == "?" {
					suffix = d.list[2].atom
				}
				parts = append(parts, labelOfSx(d.list[1].atom).CUE()+suffix+": "+exprOfSx(d.list[3]))
			case "p":
				parts = append(parts, "["+patCUE(d.list[1].atom)+"]: "+exprOfSx(d.list[2]))
			case "...":
				parts = append(parts, "...")
			case "e":
				parts = append(parts, exprOfSx(d.list[1]))
			}
		}
		return "{" + strings.Join(parts, ", ") + "}"
	}
	panic("head " + head)
}

func sexpToCUE(s string) (text string, err error) {
	defer func() {
		if r := recover(); r != nil {
			err = fmt.Errorf("%v", r)
		}
	}()
	n, _ := parseSx(tokenizeSx(s), 0)
	return exprOfSx(n), nil
}
