package main

import (
	"errors"
	"fmt"
	"strings"

	"cuelang.org/go/cue"
	"cuelang.org/go/cue/cuecontext"
	"cuelang.org/go/internal/core/adt"
)

// isErr: the value is an error other than an incomplete one (at this node or in a
// regular field below, which CUE propagates upwards).
func isErr(v cue.Value) bool {
	if selfErr(v) {
		return true
	}
	if v.IncompleteKind() == cue.BottomKind {
		return true
	}
	// Value.Err() can be nil for a (structure-shared) reference to a struct with an
	// erroneous field although Validate() reports it: look at the fields ourselves.
	if v.IncompleteKind() == cue.StructKind {
		it, err := v.Fields(cue.All())
		if err != nil {
			return true
		}
		for it.Next() {
			if it.Selector().ConstraintType() == cue.OptionalConstraint {
				continue
			}
			if isErr(it.Value()) {
				return true
			}
		}
	}
	return false
}

func selfErr(v cue.Value) bool {
	err := v.Err()
	if err == nil {
		return false
	}
	var be interface{ Bottom() *adt.Bottom }
	if errors.As(err, &be) {
		if b := be.Bottom(); b != nil {
			return !b.IsIncomplete()
		}
	}
	return true
}

func selKey(s cue.Selector) string {
	str := s.String()
	str = strings.TrimSuffix(strings.TrimSuffix(str, "?"), "!")
	return str + "/" + s.LabelType().String()
}

func sel(l Label) cue.Selector {
	switch l.Kind {
	case LHid:
		return cue.Hid(l.CUE(), "_")
	case LDef:
		return cue.Def(l.CUE())
	}
	return cue.Str(regNames[l.ID])
}

type canonCtx struct {
	ctx    *cue.Context
	src    string
	inline string // the conjuncts of x as one expression
	simple bool   // C04: kinds and pinned atom only (no acceptance probes)
	atoms []cue.Value
	nodes [][]string // CUE path (labels) of every struct node rendered, in order of appearance
	cnodes []*CNode
}

func newCanon(ctx *cue.Context, src, inline string) *canonCtx {
	c := &canonCtx{ctx: ctx, src: src, inline: inline}
	for _, a := range probeAtoms {
		c.atoms = append(c.atoms, ctx.CompileString(a.CUE()))
	}
	return c
}

func bit(b bool) byte {
	if b {
		return '1'
	}
	return '0'
}


// CNode is the canonical form of an evaluated value as a tree (the same observables as the
// Core canonical string: presence + value per universe label, open bits per regular label
// decided in the language, kinds / acceptance of probe atoms / pinned atom for scalars).
type CNode struct {
	Err    bool
	Struct bool
	Pres   []byte   // per universe label: '-', '=', '?', '!'
	Kids   []*CNode // per universe label (nil when absent)
	Open   []bool   // per universe label
	Kinds  string
	Acc    string
	Pin    string
	id     int
}

// canon builds the tree; open bits of struct nodes are filled in by fillOpenBits.
func (c *canonCtx) canon(v cue.Value, path []string) *CNode {
	if isErr(v) {
		return &CNode{Err: true}
	}
	k := v.IncompleteKind()
	if k == cue.StructKind {
		type fld struct {
			pres byte
			v    cue.Value
		}
		fields := map[string]fld{}
		it, err := v.Fields(cue.All())
		if err != nil {
			return &CNode{Err: true}
		}
		for it.Next() {
			s := it.Selector()
			pres := byte('=')
			switch s.ConstraintType() {
			case cue.OptionalConstraint:
				pres = '?'
			case cue.RequiredConstraint:
				pres = '!'
			}
			fields[selKey(s)] = fld{pres, it.Value()}
		}
		n := &CNode{Struct: true, id: len(c.nodes)}
		c.nodes = append(c.nodes, append([]string{}, path...))
		c.cnodes = append(c.cnodes, n)
		for _, l := range allLabels() {
			f, ok := fields[selKey(sel(l))]
			if !ok {
				n.Pres = append(n.Pres, '-')
				n.Kids = append(n.Kids, nil)
				continue
			}
			n.Pres = append(n.Pres, f.pres)
			n.Kids = append(n.Kids, c.canon(f.v, append(append([]string{}, path...), l.CUE())))
		}
		return n
	}
	n := &CNode{}
	var b strings.Builder
	b.WriteByte(bit(k&cue.IntKind != 0))
	b.WriteByte(bit(k&cue.StringKind != 0))
	b.WriteByte(bit(k&cue.BoolKind != 0))
	b.WriteByte(bit(k&cue.NullKind != 0))
	b.WriteByte(bit(k&cue.StructKind != 0))
	b.WriteByte(bit(k&cue.FloatKind != 0))
	n.Kinds = b.String()
	b.Reset()
	for _, a := range c.atoms {
		b.WriteByte(bit(!isErr(v.Unify(a))))
	}
	n.Acc = b.String()
	b.Reset()
	for i, a := range c.atoms {
		pinned := false
		if v.IsConcrete() && v.Kind() == a.Kind() {
			pinned = v.Equals(c.atoms[i])
		}
		b.WriteByte(bit(pinned))
	}
	n.Pin = b.String()
	return n
}

// fillOpenBits decides, IN THE LANGUAGE (a second compilation of the program extended
// with one probe field per struct node and label), whether a regular field l can be
// added to each struct node: probe = (conjuncts of x) & {path: {l: _}}.
func (c *canonCtx) fillOpenBits() {
	if len(c.nodes) == 0 {
		return
	}
	var b strings.Builder
	b.WriteString(c.src)
	b.WriteString("\n")
	for id, path := range c.nodes {
		for _, l := range allLabels() {
			if l.Kind != LReg {
				continue
			}
			inner := "{" + l.CUE() + ": _}"
			for i := len(path) - 1; i >= 1; i-- { // path[0] == "x"
				inner = "{" + path[i] + ": " + inner + "}"
			}
			fmt.Fprintf(&b, "probe_%d_%d: %s & %s\n", id, l.ID, c.inline, inner)
		}
	}
	ctx := cuecontext.New()
	root := ctx.CompileString(b.String())
	for id, n := range c.cnodes {
		for _, l := range allLabels() {
			if l.Kind != LReg {
				n.Open = append(n.Open, true)
				continue
			}
			pv := root.LookupPath(cue.ParsePath(fmt.Sprintf("probe_%d_%d", id, l.ID)))
			n.Open = append(n.Open, pv.Exists() && !isErr(pv))
		}
	}
}

func bits(bs []bool) string {
	var b strings.Builder
	for _, x := range bs {
		b.WriteByte(bit(x))
	}
	return b.String()
}

// String renders the tree in the notation of the model's printer (ocaml/c07_driver.ml).
// nested: below an optional/required field (the API does not report such values as concrete:
// pin bits are masked there, as in the model's show_nested).
func (n *CNode) String() string { return n.str(false) }

func (n *CNode) str(nested bool) string {
	if n == nil || n.Err {
		return "E"
	}
	if n.Struct {
		var b strings.Builder
		b.WriteByte('{')
		for i := range n.Pres {
			if i > 0 {
				b.WriteByte(',')
			}
			b.WriteByte(n.Pres[i])
			if n.Pres[i] != '-' {
				b.WriteString(n.Kids[i].str(n.Pres[i] != '='))
			}
		}
		b.WriteByte('|')
		b.WriteString(bits(n.Open))
		b.WriteByte('}')
		return b.String()
	}
	pin := n.Pin
	if nested {
		pin = strings.Repeat("0", len(pin))
	}
	return "V" + n.Kinds + ":" + n.Acc + ":" + pin
}

// evalTree evaluates src (which must define field x; inline = the conjuncts of x as one
// self-contained expression) and returns the canonical tree, or a status.
func evalTree(src, inline string) (*CNode, string) {
	ctx := cuecontext.New()
	v := ctx.CompileString(src)
	x := v.LookupPath(cue.ParsePath("x"))
	if !x.Exists() {
		if v.Err() != nil {
			return nil, "E"
		}
		return nil, "NOX"
	}
	c := newCanon(ctx, src, inline)
	t := c.canon(x, []string{"x"})
	c.fillOpenBits()
	return t, ""
}

func evalProgram(src, inline string) string {
	t, st := evalTree(src, inline)
	if t == nil {
		return st
	}
	return t.String()
}
