// CoreCUE programs: generation, rendering as CUE text and as the S-expression
// read by the extracted Coq model.
package main

import (
	"fmt"
	"regexp"
	"strings"

	"cuelang.org/go/cue/ast"

	"cuelang.org/go/internal/verifharness/common"
)

type LabelKind int

const (
	LReg LabelKind = iota
	LHid
	LDef
)

type Label struct {
	Kind LabelKind
	ID   int
}

// The label universe of harness/core with two names that exercise the label-quoting decision of the
// exporter (export/label.go stringLabel -> ast.NewStringLabel -> ast.StringLabelNeedsQuoting):
// "a-b" is not an identifier, "_c" would be a hidden field if written unquoted. They match the
// patterns exactly like "ab" and "c" do in harness/core.
var regNames = []string{"a", "b", "a-b", "_c", "zq"} // zq is the fresh label: never generated in programs
const freshID = 4

func quoteLabel(n string) string {
	if ast.StringLabelNeedsQuoting(n) {
		return fmt.Sprintf("%q", n)
	}
	return n
}

func (l Label) CUE() string {
	switch l.Kind {
	case LHid:
		return fmt.Sprintf("_h%d", l.ID)
	case LDef:
		return fmt.Sprintf("#F%d", l.ID)
	}
	return quoteLabel(regNames[l.ID])
}
func (l Label) Sexp() string { return fmt.Sprintf("%c%d", "rhd"[l.Kind], l.ID) }

type Atom struct {
	K byte // i s b n
	I int  // int value, string id, bool 0/1
}

var strNames = []string{"x", "y"}

func (a Atom) CUE() string {
	switch a.K {
	case 'i':
		return fmt.Sprint(a.I)
	case 's':
		return fmt.Sprintf("%q", strNames[a.I])
	case 'b':
		if a.I == 1 {
			return "true"
		}
		return "false"
	}
	return "null"
}
func (a Atom) Sexp() string {
	switch a.K {
	case 'i':
		return fmt.Sprintf("i%d", a.I)
	case 's':
		return fmt.Sprintf("s%d", a.I)
	case 'b':
		return fmt.Sprintf("b%d", a.I)
	}
	return "n"
}

var probeAtoms = []Atom{{'i', -9}, {'i', -5}, {'i', -3}, {'i', -1}, {'i', 0}, {'i', 1}, {'i', 5}, {'i', 10}, {'i', 11}, {'s', 0}, {'s', 1}, {'b', 0}, {'b', 1}, {'n', 0}}

type Expr interface {
	CUE() string
	Sexp() string
}

type Top struct{}
type Bot struct{}
type ScalAtom struct{ A Atom }
type ScalKind struct{ K string } // int string bool null
type ScalBound struct {
	Op string // gt ge lt le ne
	Z  int
}
type And struct{ A, B Expr }
type Close struct{ E Expr }
type Ref struct {
	Name string
	Body Expr
}
type Decl struct {
	H     byte // f p . e
	L     Label
	FK    byte // '=' regular, '!' required, '?' optional
	Pat   int  // index in patterns
	E     Expr
}
type Struct struct{ Ds []Decl }

func (Top) CUE() string  { return "_" }
func (Top) Sexp() string { return "T" }
func (Bot) CUE() string  { return "_|_" }
func (Bot) Sexp() string { return "B" }
func (s ScalAtom) CUE() string  { return s.A.CUE() }
func (s ScalAtom) Sexp() string { return "(a " + s.A.Sexp() + ")" }
func (s ScalKind) CUE() string  { return s.K }
func (s ScalKind) Sexp() string { return "(k " + s.K + ")" }

var opCUE = map[string]string{"gt": ">", "ge": ">=", "lt": "<", "le": "<=", "ne": "!="}

func (s ScalBound) CUE() string {
	if s.Z < 0 {
		return opCUE[s.Op] + " " + fmt.Sprint(s.Z) // `<-1` would lex as the arrow token
	}
	return opCUE[s.Op] + fmt.Sprint(s.Z)
}
func (s ScalBound) Sexp() string { return fmt.Sprintf("(%s %d)", s.Op, s.Z) }
func (a And) CUE() string        { return "(" + a.A.CUE() + " & " + a.B.CUE() + ")" }
func (a And) Sexp() string       { return "(& " + a.A.Sexp() + " " + a.B.Sexp() + ")" }
func (c Close) CUE() string      { return "close(" + c.E.CUE() + ")" }
func (c Close) Sexp() string     { return "(c " + c.E.Sexp() + ")" }
func (r Ref) CUE() string        { return r.Name }
func (r Ref) Sexp() string       { return "(r " + r.Body.Sexp() + ")" }

type Pattern struct {
	CUE string
	re  *regexp.Regexp
	neq string
}

var patterns = []Pattern{
	{CUE: "string"},
	{CUE: `=~"^a"`, re: regexp.MustCompile("^a")},
	{CUE: `=~"b$"`, re: regexp.MustCompile("b$")},
	{CUE: `!="_c"`, neq: "_c"},
}

func (p Pattern) ids() []int {
	var ids []int
	for i, n := range regNames {
		ok := true
		if p.re != nil {
			ok = p.re.MatchString(n)
		} else if p.neq != "" {
			ok = n != p.neq
		}
		if ok {
			ids = append(ids, i)
		}
	}
	return ids
}

func (s Struct) CUE() string {
	var parts []string
	for _, d := range s.Ds {
		switch d.H {
		case 'f':
			suffix := ""
			if d.FK == '!' {
				suffix = "!"
			} else if d.FK == '?' {
				suffix = "?"
			}
			parts = append(parts, d.L.CUE()+suffix+": "+d.E.CUE())
		case 'p':
			parts = append(parts, "["+patterns[d.Pat].CUE+"]: "+d.E.CUE())
		case '.':
			parts = append(parts, "...")
		case 'e':
			parts = append(parts, d.E.CUE())
		}
	}
	return "{" + strings.Join(parts, ", ") + "}"
}

func (s Struct) Sexp() string {
	var parts []string
	for _, d := range s.Ds {
		switch d.H {
		case 'f':
			parts = append(parts, fmt.Sprintf("(f %s %c %s)", d.L.Sexp(), d.FK, d.E.Sexp()))
		case 'p':
			ids := patterns[d.Pat].ids()
			ss := make([]string, len(ids))
			for i, x := range ids {
				ss[i] = fmt.Sprint(x)
			}
			parts = append(parts, "(p "+strings.Join(ss, ",")+" "+d.E.Sexp()+")")
		case '.':
			parts = append(parts, "(...)")
		case 'e':
			parts = append(parts, "(e "+d.E.Sexp()+")")
		}
	}
	return "(s " + strings.Join(parts, " ") + ")"
}

// Program: definitions + the conjuncts of field x (rendered as separate declarations of x
// or as one &-expression).
type Program struct {
	Defs  []Ref
	Conjs []Expr
}

func (p *Program) CUE() string {
	var b strings.Builder
	for _, d := range p.Defs {
		fmt.Fprintf(&b, "%s: %s\n", d.Name, d.Body.CUE())
	}
	for _, c := range p.Conjs {
		fmt.Fprintf(&b, "x: %s\n", c.CUE())
	}
	return b.String()
}

func labsSexp() string {
	var ss []string
	for i := range regNames {
		ss = append(ss, Label{LReg, i}.Sexp())
	}
	ss = append(ss, Label{LHid, 0}.Sexp(), Label{LDef, 0}.Sexp())
	return strings.Join(ss, ",")
}

func allLabels() []Label {
	var ls []Label
	for i := range regNames {
		ls = append(ls, Label{LReg, i})
	}
	return append(ls, Label{LHid, 0}, Label{LDef, 0})
}

func atomsSexp() string {
	var ss []string
	for _, a := range probeAtoms {
		ss = append(ss, a.Sexp())
	}
	return strings.Join(ss, ",")
}

// Inline renders the conjuncts of x as one parenthesised &-expression.
func (p *Program) Inline() string {
	var cs []string
	for _, c := range p.Conjs {
		cs = append(cs, "("+c.CUE()+")")
	}
	return "(" + strings.Join(cs, " & ") + ")"
}

func (p *Program) Case() string {
	var cs []string
	for _, c := range p.Conjs {
		cs = append(cs, c.Sexp())
	}
	return "EVAL " + labsSexp() + " " + atomsSexp() + " | " + strings.Join(cs, " ; ")
}

// ---- generation -----------------------------------------------------------
//
// The generated fragment (design/Core.md "fragment"):
//   scalar   := atom | basic type | bound of a conflict-free family | int & bound | _
//   data     := { regular fields with unique labels : scalar | data }
//   schema   := { fields (regular/optional/required, unique labels) : scalar | schema | #Def | close(schema);
//                 patterns : scalar  (or a flat struct of scalars when no declared field of the literal
//                 has a struct value);  optionally "..." }
//   #Def     := schema                         (each definition is referenced exactly once)
//   embedlit := { ONE embedding (#Def | close(schema)), fields : scalar, optionally "..." }     (root only)
//   conjunct := schema | embedlit | #Def | close(schema) | data | conjunct & conjunct
// Outside the fragment (cue's closedness bookkeeping deviates from the conjunct-set reading there, see
// known finding F8 and design/Core.md): embedded plain literals, several embeddings in one literal,
// struct-valued siblings of an embedding, embeddings inside definition bodies or nested values, two
// struct-valued constraints for one label inside one definition body, the same definition referenced twice.

type Gen struct {
	r     *common.Rng
	defs  []Ref
	ndefs int
	cfg   GenCfg
	pref  map[string]Atom // per program: the atom most constraints on a label agree with
	shape map[string]int  // per program: 1 = the label mostly holds structs, 2 = scalars
	path  string         // path of the struct being generated (preferences are per path)
}

type GenCfg struct {
	MaxDepth   int
	Closedness bool // definitions, close, embeddings of closed things
	Bounds     bool
	NegBounds  bool // families with negative operands
}

// bound families: the members of one family are satisfiable together (cue's emptiness detection
// for bounds is C03's subject); one family per program.  Families 1 and 2 have negative operands
// (`< -1` used to be printed as `<-1`: finding F3, fixed; kept as regression input).
var boundFamilies = [][]ScalBound{
	{{"gt", 0}, {"ge", 0}, {"lt", 10}, {"le", 10}, {"ne", 5}},
	{{"gt", -9}, {"ge", -9}, {"lt", -1}, {"le", -1}, {"ne", -5}},
	{{"gt", -5}, {"ge", -5}, {"lt", 10}, {"le", 10}, {"ne", 5}, {"ge", 0}},
}
var boundFamily = boundFamilies[0]

func (g *Gen) atom() Atom { return common.Pick(g.r, probeAtoms) }

// scalarFor biases the scalar towards the preferred atom of label l, so that the
// conjuncts of a program mostly agree (mostly-valid inputs).
func (g *Gen) scalarFor(l Label) Expr {
	key := g.path + "." + l.Sexp()
	a, ok := g.pref[key]
	if !ok {
		a = g.atom()
		g.pref[key] = a
	}
	switch k := g.r.Intn(20); {
	case k < 10:
		return ScalAtom{a}
	case k < 15:
		switch a.K {
		case 'i':
			return ScalKind{"int"}
		case 's':
			return ScalKind{"string"}
		case 'b':
			return ScalKind{"bool"}
		}
		return Top{}
	case k < 18 && a.K == 'i' && g.cfg.Bounds:
		for _, b := range boundFamily {
			ok := map[string]bool{"gt": a.I > b.Z, "ge": a.I >= b.Z, "lt": a.I < b.Z, "le": a.I <= b.Z, "ne": a.I != b.Z}[b.Op]
			if ok && g.r.Chance(1, 2) {
				return b
			}
		}
		return Top{}
	}
	return g.scalar()
}

// wantStruct: labels keep one shape (struct or scalar) in most of a program's conjuncts
func (g *Gen) wantStruct(l Label, p int) bool {
	if l.Kind == LDef {
		return false
	}
	key := g.path + "." + l.Sexp()
	sh, ok := g.shape[key]
	if !ok {
		sh = 2
		if g.r.Chance(p, 100) {
			sh = 1
		}
		g.shape[key] = sh
	}
	if g.r.Chance(1, 12) {
		return sh != 1
	}
	return sh == 1
}

func (g *Gen) scalar() Expr {
	switch g.r.Intn(10) {
	case 0, 1, 2, 3, 4:
		return ScalAtom{g.atom()}
	case 5, 6:
		return ScalKind{common.Pick(g.r, []string{"int", "string", "bool", "int", "string"})}
	case 7:
		if g.cfg.Bounds {
			return common.Pick(g.r, boundFamily)
		}
		return ScalKind{"int"}
	case 8:
		return Top{}
	default:
		if g.cfg.Bounds {
			return And{ScalKind{"int"}, common.Pick(g.r, boundFamily)}
		}
		return ScalAtom{g.atom()}
	}
}

// labels draws n distinct labels
func (g *Gen) labels(n int) []Label {
	pool := []Label{{LReg, 0}, {LReg, 1}, {LReg, 2}, {LReg, 3}}
	if g.r.Chance(1, 5) {
		pool = append(pool, Label{LHid, 0})
	}
	if g.r.Chance(1, 6) {
		pool = append(pool, Label{LDef, 0})
	}
	common.Shuffle(g.r, pool)
	if n > len(pool) {
		n = len(pool)
	}
	return pool[:n]
}

func (g *Gen) newDef(depth int) Ref {
	name := fmt.Sprintf("#D%d", g.ndefs)
	g.ndefs++
	d := Ref{name, g.schema(depth)}
	g.defs = append(g.defs, d)
	return d
}

// dataLabels: data mostly fills the labels the schemas mention at this path
func (g *Gen) dataLabels() []Label {
	var known, other []Label
	for _, l := range []Label{{LReg, 0}, {LReg, 1}, {LReg, 2}, {LReg, 3}, {LHid, 0}, {LDef, 0}} {
		key := g.path + "." + l.Sexp()
		_, a := g.pref[key]
		_, b := g.shape[key]
		if a || b {
			known = append(known, l)
		} else if l.Kind == LReg {
			other = append(other, l)
		}
	}
	var ls []Label
	for _, l := range known {
		if g.r.Chance(4, 5) {
			ls = append(ls, l)
		}
	}
	for _, l := range other {
		if g.r.Chance(1, 6) {
			ls = append(ls, l)
		}
	}
	common.Shuffle(g.r, ls)
	return ls
}

func (g *Gen) data(depth int) Struct {
	var ds []Decl
	for _, l := range g.dataLabels() {
		var v Expr = g.scalarFor(l)
		if _, isAtom := v.(ScalAtom); !isAtom {
			v = ScalAtom{g.pref[g.path+"."+l.Sexp()]}
		}
		if g.r.Chance(1, 6) {
			v = ScalAtom{g.atom()}
		}
		if depth > 0 && l.Kind == LReg && g.wantStruct(l, 35) {
			save := g.path
			g.path += "." + l.Sexp()
			v = g.data(depth - 1)
			g.path = save
		}
		ds = append(ds, Decl{H: 'f', L: l, FK: '=', E: v})
	}
	return Struct{ds}
}

func (g *Gen) schemaValue(depth int, l Label) (Expr, bool) {
	if depth <= 0 || !g.wantStruct(l, 45) {
		return g.scalarFor(l), false
	}
	save := g.path
	g.path += "." + l.Sexp()
	defer func() { g.path = save }()
	switch g.r.Intn(6) {
	case 0, 1:
		if g.cfg.Closedness {
			return g.newDef(depth - 1), true
		}
	case 2:
		if g.cfg.Closedness {
			return Close{g.schema(depth - 1)}, true
		}
	}
	return g.schema(depth - 1), true
}

func (g *Gen) schema(depth int) Struct {
	n := g.r.Intn(4)
	if g.r.Chance(1, 8) {
		n = 0
	}
	var ds []Decl
	structVal := false
	for _, l := range g.labels(n) {
		fk := "=??!"[g.r.Intn(4)]
		v, isStruct := g.schemaValue(depth, l)
		structVal = structVal || isStruct
		ds = append(ds, Decl{H: 'f', L: l, FK: fk, E: v})
		if !isStruct && g.r.Chance(1, 8) { // the same label again, scalar value (split declaration)
			ds = append(ds, Decl{H: 'f', L: l, FK: "=?"[g.r.Intn(2)], E: g.scalarFor(l)})
		}
	}
	if g.r.Chance(1, 3) {
		var v Expr = Top{}
		switch g.r.Intn(6) {
		case 0, 1:
			v = ScalKind{common.Pick(g.r, []string{"int", "string", "bool"})}
		case 2:
			v = g.scalar()
		}
		if !structVal && depth > 0 && g.r.Chance(1, 3) {
			var fs []Decl
			for _, l := range g.labels(1 + g.r.Intn(2)) {
				fs = append(fs, Decl{H: 'f', L: l, FK: "=?"[g.r.Intn(2)], E: g.scalar()})
			}
			v = Struct{fs}
		}
		ds = append(ds, Decl{H: 'p', Pat: g.r.Intn(len(patterns)), E: v})
	}
	if g.r.Chance(1, 7) {
		ds = append(ds, Decl{H: '.'})
	}
	common.Shuffle(g.r, ds)
	return Struct{ds}
}

func (g *Gen) embedLit(depth int) Struct {
	var ds []Decl
	var e Expr
	if g.r.Chance(2, 3) {
		e = g.newDef(depth - 1)
	} else {
		e = Close{g.schema(depth - 1)}
	}
	ds = append(ds, Decl{H: 'e', E: e})
	for _, l := range g.labels(g.r.Intn(3)) {
		ds = append(ds, Decl{H: 'f', L: l, FK: "=?!="[g.r.Intn(4)], E: g.scalarFor(l)})
	}
	if g.r.Chance(1, 6) {
		ds = append(ds, Decl{H: '.'})
	}
	common.Shuffle(g.r, ds)
	return Struct{ds}
}

// conjunct of the root: a struct-valued expression
func (g *Gen) rootConj(depth int) Expr {
	k := g.r.Intn(12)
	switch {
	case k < 2 && g.cfg.Closedness:
		return g.newDef(depth)
	case k < 3 && g.cfg.Closedness:
		return Close{g.schema(depth)}
	case k < 5 && g.cfg.Closedness && depth > 0:
		return g.embedLit(depth)
	case k < 6 && depth > 0:
		return And{g.rootConj(depth - 1), g.rootConj(depth - 1)}
	case k < 9:
		return g.data(depth)
	}
	return g.schema(depth)
}

func NewGen(r *common.Rng, cfg GenCfg) *Gen { return &Gen{r: r, cfg: cfg} }

func (g *Gen) Program() *Program {
	boundFamily = boundFamilies[0]
	if g.cfg.NegBounds && g.r.Chance(1, 2) {
		boundFamily = boundFamilies[1+g.r.Intn(2)]
	}
	g.defs = nil
	g.ndefs = 0
	g.pref = map[string]Atom{}
	g.shape = map[string]int{}
	n := 1 + g.r.Intn(3)
	var cs []Expr
	for i := 0; i < n; i++ {
		g.path = ""
		cs = append(cs, g.rootConj(g.cfg.MaxDepth))
	}
	return &Program{Defs: g.defs, Conjs: cs}
}
