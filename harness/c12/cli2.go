package main

import (
	"bytes"
	"fmt"
	"os"
	"path/filepath"
	"strings"

	"cuelang.org/go/internal/verifharness/common"
)

// Two further kinds of CLI cases.
//
// I: import by directory.  Data files of every encoding are exported into one
//    directory (one file per encoding, distinct base names), then `cue import`
//    is run on the directory as a whole: `./data`, `./data/...`, or with no
//    argument from inside it.  Every data file must have produced its .cue
//    file (none silently skipped) and each .cue must export the file's data.
//
// H: a history on one output file.  `cue export A -o F`, then `cue export B -o F`
//    without --force (must fail and leave F as it is), then with --force
//    (must succeed); F read back must be exactly B's data, for B shorter than,
//    longer than and as long as A.

type dirSpec struct {
	form  string   // dir | pattern | noargs
	fmts  []string // file extension of each data file: json yaml yml toml
	trees []*D
}

func (c dirSpec) enc() string {
	var fs []string
	for i, f := range c.fmts {
		fs = append(fs, f+":"+c.trees[i].encD())
	}
	return fmt.Sprintf("I form=%s files=%s", c.form, strings.Join(fs, ";"))
}

func parseDirSpec(line string) dirSpec {
	var c dirSpec
	for _, w := range strings.Fields(line)[1:] {
		i := strings.IndexByte(w, '=')
		k, v := w[:i], w[i+1:]
		switch k {
		case "form":
			c.form = v
		case "files":
			for _, f := range strings.Split(v, ";") {
				j := strings.IndexByte(f, ':')
				t, _ := parseD(f[j+1:])
				c.fmts = append(c.fmts, f[:j])
				c.trees = append(c.trees, t)
			}
		}
	}
	return c
}

func outFmt(ext string) string {
	if ext == "yml" {
		return "yaml"
	}
	return ext
}

func writeCue(path string, t *D) {
	var sb strings.Builder
	for i, k := range t.Kids {
		sb.WriteString(cueString(t.Keys[i]) + ": ")
		k.cue(&sb, "")
		sb.WriteString("\n")
	}
	os.WriteFile(path, []byte(sb.String()), 0o644)
}

// dirCase: impl line  import=rcN n=<files> made=<cue files produced> same=<files whose .cue exports the data> [missing=ext,..] [diff=ext,..]
func dirCase(cueBin, work string, id int, c dirSpec) (string, string) {
	dir := filepath.Join(work, fmt.Sprintf("dir%06d", id))
	data := filepath.Join(dir, "data")
	os.MkdirAll(data, 0o755)
	defer os.RemoveAll(dir)
	for i, ext := range c.fmts {
		src := filepath.Join(dir, fmt.Sprintf("src%d.cue", i))
		writeCue(src, c.trees[i])
		r := runCue(cueBin, dir, "export", filepath.Base(src), "--out", outFmt(ext), "--outfile", filepath.Join("data", fmt.Sprintf("f%d.%s", i, ext)))
		if r.rc != 0 {
			return c.enc(), fmt.Sprintf("prepare=rc%d stderr=%s", r.rc, common.Hex(firstLine(r.err)))
		}
	}
	var im cliRes
	switch c.form {
	case "dir":
		im = runCue(cueBin, dir, "import", "./data")
	case "pattern":
		im = runCue(cueBin, dir, "import", "./data/...")
	default:
		im = runCue(cueBin, data, "import")
	}
	impl := fmt.Sprintf("import=rc%d n=%d", im.rc, len(c.fmts))
	if im.rc != 0 {
		return c.enc(), impl + " stderr=" + common.Hex(firstLine(im.err))
	}
	made, same := 0, 0
	var missing, diff []string
	for i, ext := range c.fmts {
		cf := filepath.Join(data, fmt.Sprintf("f%d.cue", i))
		if _, err := os.Stat(cf); err != nil {
			missing = append(missing, ext)
			continue
		}
		made++
		sorted := ext == "toml"
		re := runCue(cueBin, data, "export", filepath.Base(cf), "--out", "json")
		if re.rc == 98 {
			return c.enc(), impl + " rc98"
		}
		got := ""
		if re.rc == 0 {
			got, _ = jsonCanon([]byte(re.out), sorted)
		}
		if re.rc == 0 && got == c.trees[i].canon(sorted) {
			same++
		} else {
			diff = append(diff, ext)
		}
	}
	impl += fmt.Sprintf(" made=%d same=%d", made, same)
	if len(missing) > 0 {
		impl += " missing=" + strings.Join(missing, ",")
	}
	if len(diff) > 0 {
		impl += " diff=" + strings.Join(diff, ",")
	}
	return c.enc(), impl
}

type histSpec struct {
	format string // json yaml toml cue
	mode   string // outfile (-o FILE) | outflag (--out F --outfile FILE)
	a, b   *D
}

func (c histSpec) enc() string {
	return fmt.Sprintf("H fmt=%s mode=%s a=%s b=%s", c.format, c.mode, c.a.encD(), c.b.encD())
}

func parseHistSpec(line string) histSpec {
	var c histSpec
	for _, w := range strings.Fields(line)[1:] {
		i := strings.IndexByte(w, '=')
		k, v := w[:i], w[i+1:]
		switch k {
		case "fmt":
			c.format = v
		case "mode":
			c.mode = v
		case "a":
			c.a, _ = parseD(v)
		case "b":
			c.b, _ = parseD(v)
		}
	}
	return c
}

// histCase: impl line
//
//	first=rcN lenA=<bytes> noforce=rcN kept=<0|1> force=rcN lenB=<bytes> read=rcN same=<0|1>
func histCase(cueBin, work string, id int, c histSpec) (string, string) {
	dir := filepath.Join(work, fmt.Sprintf("hist%06d", id))
	os.MkdirAll(dir, 0o755)
	defer os.RemoveAll(dir)
	writeCue(filepath.Join(dir, "a.cue"), c.a)
	writeCue(filepath.Join(dir, "b.cue"), c.b)
	out := "out." + c.format
	if c.format == "cue" {
		out = "outdata.cue"
	}
	export := func(src string, force bool) cliRes {
		args := []string{"export", src}
		if c.mode == "outflag" {
			args = append(args, "--out", c.format, "--outfile", out)
		} else {
			args = append(args, "-o", out)
		}
		if force {
			args = append(args, "--force")
		}
		return runCue(cueBin, dir, args...)
	}
	r1 := export("a.cue", false)
	impl := fmt.Sprintf("first=rc%d", r1.rc)
	if r1.rc != 0 {
		return c.enc(), impl
	}
	fa, _ := os.ReadFile(filepath.Join(dir, out))
	r2 := export("b.cue", false)
	fa2, _ := os.ReadFile(filepath.Join(dir, out))
	kept := 0
	if bytes.Equal(fa, fa2) {
		kept = 1
	}
	impl += fmt.Sprintf(" lenA=%d noforce=rc%d kept=%d", len(fa), r2.rc, kept)
	r3 := export("b.cue", true)
	fb, _ := os.ReadFile(filepath.Join(dir, out))
	impl += fmt.Sprintf(" force=rc%d lenB=%d", r3.rc, len(fb))
	if r3.rc != 0 {
		return c.enc(), impl
	}
	sorted := c.format == "toml"
	rd := runCue(cueBin, dir, "export", out, "--out", "json")
	same := 0
	got := ""
	if rd.rc == 0 {
		got, _ = jsonCanon([]byte(rd.out), sorted)
		if got == c.b.canon(sorted) {
			same = 1
		}
	}
	impl += fmt.Sprintf(" read=rc%d same=%d", rd.rc, same)
	if same == 0 {
		impl += " file=" + common.Hex(string(fb))
	}
	return c.enc(), impl
}

// shrink returns a tree with fewer fields than t (at least one field is kept
// when t has one), pad one with an additional long field.
func shrink(t *D) *D {
	n := len(t.Kids) / 2
	if n == 0 && len(t.Kids) > 0 {
		n = 1
	}
	return &D{K: 'M', Keys: append([]string{}, t.Keys[:n]...), Kids: append([]*D{}, t.Kids[:n]...)}
}

func pad(t *D) *D {
	r := &D{K: 'M', Keys: append([]string{}, t.Keys...), Kids: append([]*D{}, t.Kids...)}
	r.Keys = append(r.Keys, "zz_pad")
	r.Kids = append(r.Kids, &D{K: 'L', Kids: []*D{{K: 's', S: strings.Repeat("padding ", 12)}, {K: 'i', S: "1234567890"}, {K: 'M', Keys: []string{"deep"}, Kids: []*D{{K: 's', S: "tail of the longer document"}}}}})
	return r
}

// sameLen returns t with every string scalar replaced by another string of the same length.
func sameLen(t *D) *D {
	switch t.K {
	case 's':
		return &D{K: 's', S: strings.Map(func(r rune) rune {
			if r >= 'a' && r <= 'y' {
				return r + 1
			}
			return r
		}, t.S)}
	case 'L', 'M':
		r := &D{K: t.K, Keys: t.Keys}
		for _, k := range t.Kids {
			r.Kids = append(r.Kids, sameLen(k))
		}
		return r
	}
	return t
}
