// Events of the TOML parser as the C12 model sees them, their rendering as
// TOML text, and generators.
package main

import (
	"fmt"
	"strings"

	"cuelang.org/go/internal/verifharness/common"
)

// value: leaf (index into the case's leaf table), array, inline table
type val struct {
	kind byte // 'L', 'A', 'I'
	leaf int
	arr  []*val
	keys [][]string // 'I'
	vals []*val     // 'I'
}

type event struct {
	kind byte // 'K' key-value, 'T' table, 'A' array table
	path []string
	v    *val
}

// leaf spellings: TOML source text of scalar values
var leafPool = []string{
	`"str"`, `""`, `"a \"quoted\" \\ \t é"`, `'literal \n'`, `"""multi
line"""`, `'''raw
multi'''`, `"日本"`,
	`0`, `42`, `-17`, `+5`, `1_000`, `0xDEADbeef`, `0xdead_beef`, `0o755`, `0b1010`, `9223372036854775807`, `-9223372036854775808`,
	`1.5`, `-0.01`, `+1.0`, `5e+22`, `1e06`, `-2E-2`, `6.626e-34`, `9_224_617.445_991`, `3.0`, `0.0`, `-0.0`,
	`true`, `false`,
	`1979-05-27T07:32:00Z`, `1979-05-27T00:32:00-07:00`, `1979-05-27T00:32:00.999999-07:00`,
	`1979-05-27T07:32:00`, `1979-05-27T00:32:00.999999`, `1979-05-27`, `07:32:00`, `00:32:00.999999`,
}

// valid TOML scalars that the decoder turns into CUE that does not evaluate
// (no inf / nan in CUE; the date-time with a blank fails time.Format)
var leafPoolNoCUE = []string{`inf`, `-inf`, `+inf`, `nan`, `+nan`, `-nan`, `1979-05-27 07:32:00Z`}

var keyPool = []string{"a", "b", "c", "d", "key", "x-y", "k_1", "1", "0", "a.b", "", "a b", "_x", "é", "\"q\"", "true", "A"}

func hexPath(p []string) string {
	hs := make([]string, len(p))
	for i, k := range p {
		hs[i] = common.Hex(k)
	}
	return strings.Join(hs, ".")
}

func (v *val) enc() string {
	switch v.kind {
	case 'L':
		return fmt.Sprintf("L%d", v.leaf)
	case 'A':
		ss := make([]string, len(v.arr))
		for i, x := range v.arr {
			ss[i] = x.enc()
		}
		return "[" + strings.Join(ss, ",") + "]"
	default:
		ss := make([]string, len(v.vals))
		for i, x := range v.vals {
			ss[i] = hexPath(v.keys[i]) + "=" + x.enc()
		}
		return "{" + strings.Join(ss, ",") + "}"
	}
}

func encEvents(es []event) string {
	ss := make([]string, len(es))
	for i, e := range es {
		switch e.kind {
		case 'K':
			ss[i] = "K " + hexPath(e.path) + " " + e.v.enc()
		default:
			ss[i] = string(e.kind) + " " + hexPath(e.path)
		}
	}
	return strings.Join(ss, ";")
}

func isBare(k string) bool {
	if k == "" {
		return false
	}
	for _, c := range k {
		if !(c >= 'a' && c <= 'z' || c >= 'A' && c <= 'Z' || c >= '0' && c <= '9' || c == '_' || c == '-') {
			return false
		}
	}
	return true
}

func tomlKey(r *common.Rng, k string) string {
	if isBare(k) && !r.Chance(1, 5) {
		return k
	}
	if !strings.ContainsAny(k, "'\n") && r.Chance(1, 2) {
		return "'" + k + "'"
	}
	var sb strings.Builder
	sb.WriteByte('"')
	for _, c := range k {
		switch c {
		case '"':
			sb.WriteString(`\"`)
		case '\\':
			sb.WriteString(`\\`)
		case '\n':
			sb.WriteString(`\n`)
		default:
			sb.WriteRune(c)
		}
	}
	sb.WriteByte('"')
	return sb.String()
}

func tomlPath(r *common.Rng, p []string) string {
	ss := make([]string, len(p))
	for i, k := range p {
		ss[i] = tomlKey(r, k)
	}
	sep := "."
	if r.Chance(1, 6) {
		sep = " . "
	}
	return strings.Join(ss, sep)
}

func (v *val) toml(r *common.Rng, leaves []string) string {
	switch v.kind {
	case 'L':
		return leaves[v.leaf]
	case 'A':
		ss := make([]string, len(v.arr))
		for i, x := range v.arr {
			ss[i] = x.toml(r, leaves)
		}
		if r.Chance(1, 4) && len(ss) > 0 {
			return "[\n  " + strings.Join(ss, ",\n  ") + ",\n]"
		}
		return "[" + strings.Join(ss, ", ") + "]"
	default:
		ss := make([]string, len(v.vals))
		for i, x := range v.vals {
			ss[i] = tomlPath(r, v.keys[i]) + " = " + x.toml(r, leaves)
		}
		if len(ss) == 0 {
			return "{}"
		}
		return "{ " + strings.Join(ss, ", ") + " }"
	}
}

func renderTOML(r *common.Rng, es []event, leaves []string) string {
	var sb strings.Builder
	for _, e := range es {
		switch e.kind {
		case 'K':
			sb.WriteString(tomlPath(r, e.path) + " = " + e.v.toml(r, leaves) + "\n")
		case 'T':
			if r.Chance(1, 3) {
				sb.WriteString("\n")
			}
			sb.WriteString("[" + tomlPath(r, e.path) + "]\n")
		case 'A':
			if r.Chance(1, 3) {
				sb.WriteString("\n")
			}
			sb.WriteString("[[" + tomlPath(r, e.path) + "]]\n")
		}
		if r.Chance(1, 10) {
			sb.WriteString("# comment\n")
		}
	}
	return sb.String()
}

// ---------------------------------------------------------------- generators

type gen struct {
	r      *common.Rng
	leaves []string // leaf texts used by the case, index = leaf id
	keys   []string
}

func (g *gen) leaf() *val {
	pool := leafPool
	if g.r.Chance(1, 60) {
		pool = leafPoolNoCUE
	}
	g.leaves = append(g.leaves, common.Pick(g.r, pool))
	return &val{kind: 'L', leaf: len(g.leaves) - 1}
}

func (g *gen) key() string { return common.Pick(g.r, g.keys) }

func (g *gen) path(max int) []string {
	n := 1
	for n < max && g.r.Chance(1, 3) {
		n++
	}
	p := make([]string, n)
	for i := range p {
		p[i] = g.key()
	}
	return p
}

func (g *gen) value(depth int) *val {
	switch k := g.r.Intn(10); {
	case k < 6 || depth <= 0:
		return g.leaf()
	case k < 8:
		n := g.r.Intn(4)
		v := &val{kind: 'A'}
		for i := 0; i < n; i++ {
			v.arr = append(v.arr, g.value(depth-1))
		}
		return v
	default:
		n := g.r.Intn(4)
		v := &val{kind: 'I'}
		for i := 0; i < n; i++ {
			v.keys = append(v.keys, g.path(2))
			v.vals = append(v.vals, g.value(depth-1))
		}
		return v
	}
}

// inlineDoc: a whole document in the inline layout of the model's emit_inline
// (Toml/RoundTrip.v): root key-values with one-segment keys whose values are
// arrays and inline tables nested up to depth 4, keys distinct within every
// table (the model's wf).  With dup set, one table gets a key twice (the
// decoder must report it).
func (g *gen) inlineDoc(dup bool) []event {
	var value func(depth int) *val
	fields := func(depth int) ([][]string, []*val) {
		used := map[string]bool{}
		var ks [][]string
		var vs []*val
		n := g.r.Intn(4)
		for i := 0; i < n; i++ {
			k := g.key()
			if used[k] {
				continue
			}
			used[k] = true
			ks = append(ks, []string{k})
			vs = append(vs, value(depth-1))
		}
		if dup && len(ks) > 0 && g.r.Chance(1, 2) {
			dup = false
			ks = append(ks, ks[g.r.Intn(len(ks))])
			vs = append(vs, value(0))
		}
		return ks, vs
	}
	value = func(depth int) *val {
		switch k := g.r.Intn(10); {
		case k < 4 || depth <= 0:
			return g.leaf()
		case k < 7:
			v := &val{kind: 'A'}
			n := g.r.Intn(4)
			for i := 0; i < n; i++ {
				v.arr = append(v.arr, value(depth-1))
			}
			return v
		default:
			v := &val{kind: 'I'}
			v.keys, v.vals = fields(depth)
			return v
		}
	}
	ks, vs := fields(5)
	var es []event
	for i := range ks {
		es = append(es, event{'K', ks[i], vs[i]})
	}
	return es
}

// soup: a random sequence of events over a small key alphabet; many are
// rejected (duplicates, redeclarations), many are valid.
func (g *gen) soup() []event {
	n := 1 + g.r.Intn(9)
	var es []event
	for i := 0; i < n; i++ {
		switch k := g.r.Intn(10); {
		case k < 5:
			es = append(es, event{'K', g.path(3), g.value(2)})
		case k < 8:
			es = append(es, event{'T', g.path(3), nil})
		default:
			es = append(es, event{'A', g.path(3), nil})
		}
	}
	return es
}

// structured: a document laid out the way TOML files usually are: root
// key-values, then tables and arrays of tables with sub-tables, distinct keys
// per table; with probability a few perturbations (repeat an event, swap).
func (g *gen) structured() []event {
	var es []event
	var table func(prefix []string, depth int)
	kvs := func() {
		used := map[string]bool{}
		n := g.r.Intn(4)
		for i := 0; i < n; i++ {
			p := g.path(2)
			id := hexPath(p)
			if used[p[0]] || used[id] {
				continue
			}
			used[id] = true
			used[p[0]] = true
			es = append(es, event{'K', p, g.value(2)})
		}
	}
	table = func(prefix []string, depth int) {
		kvs()
		if depth <= 0 {
			return
		}
		used := map[string]bool{}
		n := g.r.Intn(3)
		for i := 0; i < n; i++ {
			k := "t" + g.key()
			if used[k] {
				continue
			}
			used[k] = true
			p := append(append([]string{}, prefix...), k)
			if g.r.Chance(1, 4) {
				p = append(p, g.key()) // [a.b.c] without [a.b]
			}
			if g.r.Chance(2, 5) {
				m := 1 + g.r.Intn(3)
				for j := 0; j < m; j++ {
					es = append(es, event{'A', p, nil})
					table(p, depth-1)
				}
			} else {
				es = append(es, event{'T', p, nil})
				table(p, depth-1)
			}
		}
	}
	table(nil, 2)
	if g.r.Chance(1, 4) && len(es) > 1 {
		// perturb
		i := g.r.Intn(len(es))
		switch g.r.Intn(3) {
		case 0:
			es = append(es, es[i])
		case 1:
			j := g.r.Intn(len(es))
			es[i], es[j] = es[j], es[i]
		default:
			es = append(es[:i:i], es[i+1:]...)
		}
	}
	return es
}
