// C12 harness: (i) the TOML decoder of the working tree on generated TOML
// texts whose parser events are known by construction; (ii) cue export /
// import round trips through the cue binary built from the working tree.
package main

import (
	"fmt"
	"math/big"
	"os"
	"runtime"
	"sort"
	"strings"
	"sync"
	"sync/atomic"

	"cuelang.org/go/cue"
	"cuelang.org/go/cue/cuecontext"
	"cuelang.org/go/encoding/toml"
	"cuelang.org/go/internal/verifharness/common"
)

// canon: data projection with sorted struct keys (TOML tables are unordered).
func canon(v cue.Value) (out string) {
	defer func() {
		if r := recover(); r != nil {
			out = "PANIC"
		}
	}()
	var sb strings.Builder
	if !canonTo(&sb, v) {
		return "CONFLICT"
	}
	return sb.String()
}

func canonTo(sb *strings.Builder, v cue.Value) bool {
	if v.Err() != nil {
		return false
	}
	switch v.IncompleteKind() {
	case cue.StringKind:
		s, err := v.String()
		if err != nil {
			return false
		}
		sb.WriteString("s:" + common.Hex(s))
	case cue.IntKind:
		var x big.Int
		if _, err := v.Int(&x); err != nil {
			return false
		}
		sb.WriteString("i:" + x.String())
	case cue.FloatKind, cue.NumberKind:
		sb.WriteString("f:" + floatCanon(v))
	case cue.BoolKind:
		b, err := v.Bool()
		if err != nil {
			return false
		}
		if b {
			sb.WriteString("b:1")
		} else {
			sb.WriteString("b:0")
		}
	case cue.NullKind:
		sb.WriteString("n")
	case cue.ListKind:
		it, err := v.List()
		if err != nil {
			return false
		}
		sb.WriteString("[")
		for it.Next() {
			if !canonTo(sb, it.Value()) {
				return false
			}
			sb.WriteString(",")
		}
		sb.WriteString("]")
	case cue.StructKind:
		it, err := v.Fields(cue.All())
		if err != nil {
			return false
		}
		type kv struct{ k, v string }
		var kvs []kv
		for it.Next() {
			var fb strings.Builder
			if !canonTo(&fb, it.Value()) {
				return false
			}
			sel := it.Selector()
			k := common.Hex(sel.Unquoted())
			if sel.LabelType() != cue.StringLabel || sel.ConstraintType() != 0 {
				k = "?" + sel.String()
			}
			kvs = append(kvs, kv{k, fb.String()})
		}
		sort.Slice(kvs, func(i, j int) bool { return kvs[i].k < kvs[j].k })
		sb.WriteString("{")
		for _, e := range kvs {
			sb.WriteString(e.k + "=" + e.v + ",")
		}
		sb.WriteString("}")
	default:
		return false
	}
	return true
}

func floatCanon(v cue.Value) string {
	if !v.IsConcrete() {
		return "ERR"
	}
	var m big.Int
	exp, err := v.MantExp(&m)
	if err != nil {
		return "ERR:" + strings.ReplaceAll(err.Error(), " ", "_")
	}
	if m.Sign() == 0 {
		return "0e0"
	}
	ten := big.NewInt(10)
	var q, r big.Int
	for {
		q.QuoRem(&m, ten, &r)
		if r.Sign() != 0 {
			break
		}
		m.Set(&q)
		exp++
	}
	return fmt.Sprintf("%se%d", m.String(), exp)
}

// decodeTOML runs the decoder of the working tree and classifies the outcome.
func decodeTOML(ctx *cue.Context, text string) (res string) {
	defer func() {
		if r := recover(); r != nil {
			res = "panic"
		}
	}()
	expr, err := toml.NewDecoder("x.toml", strings.NewReader(text)).Decode()
	if err != nil {
		msg := err.Error()
		switch {
		case strings.Contains(msg, "duplicate key"):
			return "err dup"
		case strings.Contains(msg, "cannot redeclare table array"):
			return "err arr_as_table"
		case strings.Contains(msg, "cannot redeclare key"):
			return "err as_array"
		}
		return "err other"
	}
	v := ctx.BuildExpr(expr)
	c := canon(v)
	if c == "CONFLICT" {
		return "conflict"
	}
	return "ok " + c
}

type job func(ctx *cue.Context) [][2]string

func runJobs(out *common.Out, jobs []job, nw int) {
	res := make([][][2]string, len(jobs))
	var wg sync.WaitGroup
	next := int64(-1)
	for w := 0; w < nw; w++ {
		wg.Add(1)
		go func() {
			defer wg.Done()
			ctx := cuecontext.New()
			n := 0
			for {
				i := int(atomic.AddInt64(&next, 1))
				if i >= len(jobs) {
					return
				}
				res[i] = jobs[i](ctx)
				n++
				if n%1000 == 0 {
					ctx = cuecontext.New()
				}
			}
		}()
	}
	wg.Wait()
	for _, r := range res {
		for _, e := range r {
			out.Emit(e[0], e[1])
		}
	}
}

// eventCase: E <events> | L0=<canon> L1=<canon> ... | <hex toml text>
func eventCase(ctx *cue.Context, es []event, leaves []string, text string) (string, string) {
	lc := make([]string, len(leaves))
	for i, l := range leaves {
		r := decodeTOML(ctx, "x = "+l+"\n")
		c := "BAD"
		if strings.HasPrefix(r, "ok {78=") {
			c = strings.TrimSuffix(strings.TrimPrefix(r, "ok {78="), ",}")
		}
		lc[i] = fmt.Sprintf("L%d=%s", i, c)
	}
	return "E " + encEvents(es) + " | " + strings.Join(lc, " ") + " | " + common.Hex(text), decodeTOML(ctx, text)
}

func main() {
	if len(os.Args) < 2 {
		fmt.Fprintln(os.Stderr, "usage: harness-c12 run --seed N --nevents N --ncli N --cue PATH --out DIR")
		os.Exit(2)
	}
	args := common.Args(os.Args[2:])
	switch os.Args[1] {
	case "run":
		run(args)
	default:
		os.Exit(2)
	}
}

func run(args map[string]string) {
	seed := uint64(common.Atoi(args["--seed"], 1))
	nev := common.Atoi(args["--nevents"], 1000)
	out := common.NewOut(args["--out"])
	defer out.Close()
	dist := map[string]int{}
	r := common.NewRng(seed)
	var jobs []job
	if f := args["--replay-cases"]; f != "" {
		data, err := os.ReadFile(f)
		if err != nil {
			panic(err)
		}
		ctx := cuecontext.New()
		for n, line := range strings.Split(strings.TrimSpace(string(data)), "\n") {
			switch {
			case strings.HasPrefix(line, "E "):
				parts := strings.Split(line, " | ")
				out.Emit(line, decodeTOML(ctx, common.Unhex(parts[2])))
			case strings.HasPrefix(line, "I "):
				cs, im := dirCase(args["--cue"], args["--out"], n, parseDirSpec(line))
				out.Emit(cs, im)
			case strings.HasPrefix(line, "H "):
				cs, im := histCase(args["--cue"], args["--out"], n, parseHistSpec(line))
				out.Emit(cs, im)
			case strings.HasPrefix(line, "C "):
				cs, im := cliCase(args["--cue"], args["--out"], n, parseCliSpec(line))
				out.Emit(cs, im)
			}
		}
		return
	}
	// corpus: the witnesses of the theorems
	for _, text := range []string{"[[a.b]]\n[[a]]\n[[a]]\n", "[[a.b]]\n[[a]]\n[[c]]\n[[a]]\nx = 1\n", "[a]\n[a]\n", "a = 1\na = 2\n",
		"[[a]]\n[[a]]\nk = 1\n", "a.b.c = 1\n", "[a]\nb.c = 1\n", "a = { b.c = 1 }\n", "[a]\n[[a]]\n", "[[a]]\n[a]\n"} {
		es, leaves := corpusEvents(text)
		tt := text
		jobs = append(jobs, func(ctx *cue.Context) [][2]string {
			c, im := eventCase(ctx, es, leaves, tt)
			return [][2]string{{c, im}}
		})
	}
	for i := 0; i < nev; i++ {
		g := &gen{r: r, keys: keyPool}
		if r.Chance(1, 2) {
			g.keys = keyPool[:4+r.Intn(4)] // small alphabet: more collisions
		}
		var es []event
		if r.Chance(1, 6) {
			dup := r.Chance(1, 6)
			es = g.inlineDoc(dup)
			if dup {
				dist["events/inline-dup"]++
			} else {
				dist["events/inline"]++
			}
		} else if r.Chance(2, 5) {
			es = g.soup()
			dist["events/soup"]++
		} else {
			es = g.structured()
			dist["events/structured"]++
		}
		dist[fmt.Sprintf("events/len%02d", min(len(es), 20))]++
		text := renderTOML(r, es, g.leaves)
		leaves := g.leaves
		jobs = append(jobs, func(ctx *cue.Context) [][2]string {
			c, im := eventCase(ctx, es, leaves, text)
			return [][2]string{{c, im}}
		})
	}
	ncli := common.Atoi(args["--ncli"], 0)
	nwide := common.Atoi(args["--nwide"], 0)
	cueBin := args["--cue"]
	work := args["--out"]
	if ncli+nwide > 0 {
		// corpus: numbers at and beyond the limits of TOML's 64-bit integers and floats
		for n, line := range []string{
			"C fmt=toml mode=stdout expr=0 fail=none wide=1 data={78=i:9223372036854775808,}",
			"C fmt=toml mode=outfile expr=0 fail=none wide=1 data={61={62=[i:1,{63=i:-123456789012345678901234567890,},],},}",
			"C fmt=toml mode=stdout expr=0 fail=none wide=1 data={78=f:1e+1000,}",
			"C fmt=toml mode=stdout expr=0 fail=none wide=1 data={78=i:-9223372036854775808,79=i:9223372036854775807,}",
		} {
			spec, id := parseCliSpec(line), 900000+n
			jobs = append(jobs, func(ctx *cue.Context) [][2]string {
				cs, im := cliCase(cueBin, work, id, spec)
				return [][2]string{{cs, im}}
			})
		}
	}
	for i := 0; i < ncli+nwide; i++ {
		g := &dgen{r: r}
		c := cliSpec{format: common.Pick(r, []string{"json", "yaml", "toml", "cue"}),
			mode: common.Pick(r, []string{"stdout", "outflag", "outfile", "pkg"}), expr: r.Chance(1, 3)}
		if i >= ncli {
			// TOML with numbers it cannot hold: an error or a known silent change
			c.format, c.wide = "toml", true
			g.big, g.badf = true, true
		} else if c.format != "toml" {
			g.null = true
			g.big = r.Chance(1, 2)
			g.badf = r.Chance(1, 2)
		}
		if r.Chance(1, 6) && !c.wide {
			c.fail = common.Pick(r, []string{"incomplete", "conflict", "missing"})
			if c.fail == "missing" {
				c.expr = true
			}
		}
		c.t = g.tree(3, true)
		dist["cli/fmt-"+c.format]++
		dist["cli/mode-"+c.mode]++
		if c.expr {
			dist["cli/expr"]++
		}
		if c.fail != "" {
			dist["cli/fail-"+c.fail]++
		}
		id := i
		jobs = append(jobs, func(ctx *cue.Context) [][2]string {
			cs, im := cliCase(cueBin, work, id, c)
			return [][2]string{{cs, im}}
		})
	}
	// import by directory / pattern / no arguments, every encoding in one directory
	ndir := common.Atoi(args["--ndir"], 0)
	for i := 0; i < ndir; i++ {
		g := &dgen{r: r}
		c := dirSpec{form: []string{"dir", "pattern", "noargs"}[i%3]}
		exts := []string{"json", "yaml", "toml", "yml"}
		common.Shuffle(r, exts)
		if r.Chance(1, 3) {
			exts = exts[:2+r.Intn(2)]
		}
		if i < 3 {
			exts = []string{"json", "yaml", "toml", "yml"} // every encoding under each form, on every run
		}
		for _, e := range exts {
			c.fmts = append(c.fmts, e)
			c.trees = append(c.trees, g.tree(2, true))
		}
		dist["cli/import-"+c.form]++
		id := 500000 + i
		jobs = append(jobs, func(ctx *cue.Context) [][2]string {
			cs, im := dirCase(cueBin, work, id, c)
			return [][2]string{{cs, im}}
		})
	}
	// histories on one output file: export A, export B without and with --force
	nhist := common.Atoi(args["--nhist"], 0)
	for i := 0; i < nhist; i++ {
		g := &dgen{r: r}
		g.null = false
		base := g.tree(3, true)
		for len(base.Kids) < 2 {
			base = g.tree(3, true)
		}
		c := histSpec{format: []string{"json", "yaml", "toml", "cue"}[i%4], mode: common.Pick(r, []string{"outfile", "outflag"})}
		switch (i / 4) % 3 {
		case 0: // B shorter than A
			c.a, c.b = pad(base), shrink(base)
			dist["cli/force-shorter"]++
		case 1: // B longer than A
			c.a, c.b = shrink(base), pad(base)
			dist["cli/force-longer"]++
		default: // same length
			c.a, c.b = base, sameLen(base)
			dist["cli/force-samelen"]++
		}
		id := 600000 + i
		jobs = append(jobs, func(ctx *cue.Context) [][2]string {
			cs, im := histCase(cueBin, work, id, c)
			return [][2]string{{cs, im}}
		})
	}
	nw := runtime.NumCPU()
	if nw > 12 {
		nw = 12
	}
	runJobs(out, jobs, nw)
	var ks []string
	for k := range dist {
		ks = append(ks, k)
	}
	sort.Strings(ks)
	for _, k := range ks {
		fmt.Printf("dist %s %d\n", k, dist[k])
	}
}

// corpusEvents: the event sequence of the corpus texts (simple grammar: headers
// and `dotted.key = 1` / `a = { b.c = 1 }` lines with bare keys).
func corpusEvents(text string) ([]event, []string) {
	var es []event
	var leaves []string
	for _, line := range strings.Split(strings.TrimSpace(text), "\n") {
		switch {
		case strings.HasPrefix(line, "[["):
			es = append(es, event{'A', strings.Split(strings.Trim(line, "[]"), "."), nil})
		case strings.HasPrefix(line, "["):
			es = append(es, event{'T', strings.Split(strings.Trim(line, "[]"), "."), nil})
		default:
			kv := strings.SplitN(line, " = ", 2)
			leaves = append(leaves, "1")
			lf := &val{kind: 'L', leaf: len(leaves) - 1}
			if strings.HasPrefix(kv[1], "{") {
				inner := strings.SplitN(strings.Trim(kv[1], "{} "), " = ", 2)
				leaves[len(leaves)-1] = inner[1]
				lf = &val{kind: 'I', keys: [][]string{strings.Split(inner[0], ".")}, vals: []*val{lf}}
			} else {
				leaves[len(leaves)-1] = kv[1]
			}
			es = append(es, event{'K', strings.Split(kv[0], "."), lf})
		}
	}
	return es, leaves
}
