package main

import (
	"bytes"
	"context"
	"encoding/json"
	"fmt"
	"os"
	"os/exec"
	"path/filepath"
	"sort"
	"strings"
	"time"

	"cuelang.org/go/internal/verifharness/common"
)

// D is a concrete data tree for the CLI loop.
type D struct {
	K    byte // 's' 'i' 'f' 'b' 'n' 'L' 'M'
	S    string
	B    bool
	Kids []*D
	Keys []string
}

var cliStrings = []string{"", "a", "hello world", "it's", "say \"hi\"", "a: b", "a #b", "# c", "- x", "x\ny", "line1\nline2\n", "tab\tsep", "é日本", "\U0001F600", "back\\slash",
	"1", "1.5", "true", "null", "yes", "~", "2001-12-14", "0x1F", "[a]", "{a}", "a,b", "&a", "*a", "!t", "|", ">", "%x", "@x", "`x`", " lead", "trail ", "a\n b", "ünï", "key=value", "a.b", "$v"}
var cliKeys = []string{"a", "b", "c", "key", "x-y", "k_1", "a b", "a.b", "1", "é", "true", "#k", "k:", "\"q\"", "A", "_x", "$y"}
var cliInts = []string{"0", "1", "-1", "42", "-17", "1000000", "9223372036854775807", "-9223372036854775807"}
var cliBigInts = []string{"-9223372036854775808", "9223372036854775808", "18446744073709551616", "-123456789012345678901234567890"}
var cliFloats = []string{"0.0", "1.5", "-1.5", "0.25", "100.0", "3.0", "1e+3", "2.5e-7", "0.1", "1e+100", "-0.5", "123456.789"}
var cliBadFloats = []string{"1e+1000", "123456789.123456789123", "0.1000000000000000055511151231257827"}

type dgen struct {
	r               *common.Rng
	null, big, badf bool // allow null / integers beyond int64 / floats beyond float64
}

func (g *dgen) scalar() *D {
	switch k := g.r.Intn(100); {
	case k < 45:
		return &D{K: 's', S: common.Pick(g.r, cliStrings)}
	case k < 65:
		if g.big && g.r.Chance(1, 4) {
			return &D{K: 'i', S: common.Pick(g.r, cliBigInts)}
		}
		return &D{K: 'i', S: common.Pick(g.r, cliInts)}
	case k < 82:
		if g.badf && g.r.Chance(1, 4) {
			return &D{K: 'f', S: common.Pick(g.r, cliBadFloats)}
		}
		return &D{K: 'f', S: common.Pick(g.r, cliFloats)}
	case k < 92:
		return &D{K: 'b', B: g.r.Bool()}
	default:
		if g.null {
			return &D{K: 'n'}
		}
		return &D{K: 's', S: "nil"}
	}
}

func (g *dgen) tree(depth int, mustStruct bool) *D {
	if !mustStruct && (depth <= 0 || g.r.Chance(2, 5)) {
		return g.scalar()
	}
	if !mustStruct && g.r.Chance(2, 5) {
		n := g.r.Intn(4)
		t := &D{K: 'L'}
		// TOML arrays: keep them homogeneous half of the time (arrays of tables)
		allStruct := g.r.Chance(1, 2)
		for i := 0; i < n; i++ {
			t.Kids = append(t.Kids, g.tree(depth-1, allStruct))
		}
		return t
	}
	n := g.r.Intn(5)
	if mustStruct && depth >= 2 && n == 0 {
		n = 1
	}
	t := &D{K: 'M'}
	seen := map[string]bool{}
	for i := 0; i < n; i++ {
		k := common.Pick(g.r, cliKeys)
		if seen[k] {
			continue
		}
		seen[k] = true
		t.Keys = append(t.Keys, k)
		t.Kids = append(t.Kids, g.tree(depth-1, false))
	}
	return t
}

func cueString(s string) string {
	var sb strings.Builder
	sb.WriteByte('"')
	for _, c := range s {
		switch c {
		case '"':
			sb.WriteString(`\"`)
		case '\\':
			sb.WriteString(`\\`)
		case '\n':
			sb.WriteString(`\n`)
		case '\t':
			sb.WriteString(`\t`)
		default:
			sb.WriteRune(c)
		}
	}
	sb.WriteByte('"')
	return sb.String()
}

func (t *D) cue(sb *strings.Builder, ind string) {
	switch t.K {
	case 's':
		sb.WriteString(cueString(t.S))
	case 'i', 'f':
		sb.WriteString(t.S)
	case 'b':
		fmt.Fprintf(sb, "%v", t.B)
	case 'n':
		sb.WriteString("null")
	case 'L':
		sb.WriteString("[")
		for i, k := range t.Kids {
			if i > 0 {
				sb.WriteString(", ")
			}
			k.cue(sb, ind+"\t")
		}
		sb.WriteString("]")
	case 'M':
		sb.WriteString("{\n")
		for i, k := range t.Kids {
			sb.WriteString(ind + "\t" + cueString(t.Keys[i]) + ": ")
			k.cue(sb, ind+"\t")
			sb.WriteString("\n")
		}
		sb.WriteString(ind + "}")
	}
}

// numCanon: exact decimal value of a number literal, and its kind.
func numCanon(text string) string {
	kind := "i"
	if strings.ContainsAny(text, ".eE") {
		kind = "f"
	}
	s := text
	neg := false
	if strings.HasPrefix(s, "-") {
		neg, s = true, s[1:]
	} else if strings.HasPrefix(s, "+") {
		s = s[1:]
	}
	exp := 0
	if i := strings.IndexAny(s, "eE"); i >= 0 {
		fmt.Sscanf(s[i+1:], "%d", &exp)
		s = s[:i]
	}
	if i := strings.IndexByte(s, '.'); i >= 0 {
		exp -= len(s) - i - 1
		s = s[:i] + s[i+1:]
	}
	s = strings.TrimLeft(s, "0")
	for strings.HasSuffix(s, "0") {
		s = s[:len(s)-1]
		exp++
	}
	if s == "" {
		return kind + ":0e0"
	}
	if neg {
		s = "-" + s
	}
	return fmt.Sprintf("%s:%se%d", kind, s, exp)
}

// canon of the tree; sorted = struct keys sorted (TOML), kinds = keep int/float kind
func (t *D) canon(sorted bool) string {
	switch t.K {
	case 's':
		return "s:" + common.Hex(t.S)
	case 'i', 'f':
		return numCanon(t.S)
	case 'b':
		if t.B {
			return "b:1"
		}
		return "b:0"
	case 'n':
		return "n"
	case 'L':
		var sb strings.Builder
		sb.WriteString("[")
		for _, k := range t.Kids {
			sb.WriteString(k.canon(sorted) + ",")
		}
		sb.WriteString("]")
		return sb.String()
	}
	type kv struct{ k, v string }
	var kvs []kv
	for i, k := range t.Kids {
		kvs = append(kvs, kv{common.Hex(t.Keys[i]), k.canon(sorted)})
	}
	if sorted {
		sort.Slice(kvs, func(i, j int) bool { return kvs[i].k < kvs[j].k })
	}
	var sb strings.Builder
	sb.WriteString("{")
	for _, e := range kvs {
		sb.WriteString(e.k + "=" + e.v + ",")
	}
	sb.WriteString("}")
	return sb.String()
}

// jsonCanon: the same projection from JSON text (object key order kept).
func jsonCanon(data []byte, sorted bool) (string, error) {
	dec := json.NewDecoder(bytes.NewReader(data))
	dec.UseNumber()
	var val func() (string, error)
	val = func() (string, error) {
		tok, err := dec.Token()
		if err != nil {
			return "", err
		}
		switch x := tok.(type) {
		case json.Delim:
			if x == '[' {
				var sb strings.Builder
				sb.WriteString("[")
				for dec.More() {
					v, err := val()
					if err != nil {
						return "", err
					}
					sb.WriteString(v + ",")
				}
				dec.Token()
				sb.WriteString("]")
				return sb.String(), nil
			}
			type kv struct{ k, v string }
			var kvs []kv
			for dec.More() {
				kt, err := dec.Token()
				if err != nil {
					return "", err
				}
				v, err := val()
				if err != nil {
					return "", err
				}
				kvs = append(kvs, kv{common.Hex(kt.(string)), v})
			}
			dec.Token()
			if sorted {
				sort.SliceStable(kvs, func(i, j int) bool { return kvs[i].k < kvs[j].k })
			}
			var sb strings.Builder
			sb.WriteString("{")
			for _, e := range kvs {
				sb.WriteString(e.k + "=" + e.v + ",")
			}
			sb.WriteString("}")
			return sb.String(), nil
		case string:
			return "s:" + common.Hex(x), nil
		case json.Number:
			return numCanon(x.String()), nil
		case bool:
			if x {
				return "b:1", nil
			}
			return "b:0", nil
		case nil:
			return "n", nil
		}
		return "", fmt.Errorf("token %v", tok)
	}
	s, err := val()
	if err != nil {
		return "", err
	}
	if dec.More() {
		return "", fmt.Errorf("trailing data")
	}
	return s, nil
}

type cliRes struct {
	rc       int
	out, err string
}

// runCue runs the cue binary; rc 98 = the process was killed by the time limit
// (an overloaded machine), tried twice.
func runCue(cueBin, dir string, args ...string) cliRes {
	r := runCue1(cueBin, dir, args...)
	if r.rc == 98 {
		r = runCue1(cueBin, dir, args...)
	}
	return r
}

func runCue1(cueBin, dir string, args ...string) cliRes {
	cctx, cancel := context.WithTimeout(context.Background(), 240*time.Second)
	defer cancel()
	cmd := exec.CommandContext(cctx, cueBin, args...)
	cmd.Dir = dir
	cmd.Env = append(os.Environ(), "CUE_CACHE_DIR="+filepath.Join(dir, ".cache"), "HOME="+dir, "NO_COLOR=1")
	var so, se bytes.Buffer
	cmd.Stdout, cmd.Stderr = &so, &se
	err := cmd.Run()
	rc := 0
	if err != nil {
		rc = 1
		if ee, ok := err.(*exec.ExitError); ok {
			rc = ee.ExitCode()
		} else {
			rc = 99
		}
		if cctx.Err() != nil || rc < 0 {
			rc = 98
		}
	}
	return cliRes{rc, so.String(), se.String()}
}

// cliSpec describes one CLI round trip.
type cliSpec struct {
	t      *D
	format string // json yaml toml cue
	mode   string // stdout | outflag (--out F --outfile) | outfile (-o file.ext) | pkg (package argument)
	expr   bool   // select the field "sel" with -e
	fail   string // "" | incomplete | conflict | missing (the -e path does not exist)
	wide   bool   // numbers beyond int64 / float64 allowed for TOML
}

func (c cliSpec) enc() string {
	e, f := 0, c.fail
	if c.expr {
		e = 1
	}
	if f == "" {
		f = "none"
	}
	w := 0
	if c.wide {
		w = 1
	}
	return fmt.Sprintf("C fmt=%s mode=%s expr=%d fail=%s wide=%d data=%s", c.format, c.mode, e, f, w, c.t.encD())
}

func (t *D) encD() string {
	switch t.K {
	case 's':
		return "s:" + common.Hex(t.S)
	case 'i':
		return "i:" + t.S
	case 'f':
		return "f:" + t.S
	case 'b':
		if t.B {
			return "b:1"
		}
		return "b:0"
	case 'n':
		return "n"
	case 'L':
		var sb strings.Builder
		sb.WriteString("[")
		for _, k := range t.Kids {
			sb.WriteString(k.encD() + ",")
		}
		sb.WriteString("]")
		return sb.String()
	}
	var sb strings.Builder
	sb.WriteString("{")
	for i, k := range t.Kids {
		sb.WriteString(common.Hex(t.Keys[i]) + "=" + k.encD() + ",")
	}
	sb.WriteString("}")
	return sb.String()
}

var extOf = map[string]string{"json": "json", "yaml": "yaml", "toml": "toml", "cue": "cue"}

// cliCase runs export -> (import) -> export --out json and reports:
//
//	export=<rc0|rcN> want=<ok|fail> [import=<rc> reexport=<rc> same=<0|1> direct=<rc> dsame=<0|1>]
func cliCase(cueBin, work string, id int, c cliSpec) (string, string) {
	dir := filepath.Join(work, fmt.Sprintf("cli%06d", id))
	os.MkdirAll(dir, 0o755)
	defer os.RemoveAll(dir)
	var sb strings.Builder
	if c.mode == "pkg" {
		os.MkdirAll(filepath.Join(dir, "cue.mod"), 0o755)
		os.WriteFile(filepath.Join(dir, "cue.mod", "module.cue"), []byte("module: \"verif.example/m\"\nlanguage: version: \"v0.9.0\"\n"), 0o644)
		sb.WriteString("package p\n\n")
	}
	data := c.t
	if c.expr {
		sb.WriteString("other: 1\nsel: ")
		data.cue(&sb, "")
		sb.WriteString("\n")
	} else {
		// the fields of the top-level struct
		for i, k := range data.Kids {
			sb.WriteString(cueString(data.Keys[i]) + ": ")
			k.cue(&sb, "")
			sb.WriteString("\n")
		}
	}
	switch c.fail {
	case "incomplete":
		if c.expr {
			sb.WriteString("sel: bad_: int\n")
		} else {
			sb.WriteString("bad_: int\n")
		}
	case "conflict":
		if c.expr {
			sb.WriteString("sel: bad_: 1 & 2\n")
		} else {
			sb.WriteString("bad_: 1 & 2\n")
		}
	}
	os.WriteFile(filepath.Join(dir, "x.cue"), []byte(sb.String()), 0o644)
	ext := extOf[c.format]
	outFile := "out." + ext
	if c.format == "cue" {
		outFile = "outdata.cue"
	}
	args := []string{"export"}
	if c.mode == "pkg" {
		args = append(args, ".")
	} else {
		args = append(args, "x.cue")
	}
	if c.expr {
		if c.fail == "missing" {
			args = append(args, "-e", "nosuch")
		} else {
			args = append(args, "-e", "sel")
		}
	}
	switch c.mode {
	case "stdout", "pkg":
		args = append(args, "--out", c.format)
	case "outflag":
		args = append(args, "--out", c.format, "--outfile", outFile)
	case "outfile":
		args = append(args, "-o", outFile)
	}
	res := runCue(cueBin, dir, args...)
	want := "ok"
	if c.fail != "" {
		want = "fail"
	}
	impl := fmt.Sprintf("export=rc%d want=%s", res.rc, want)
	if res.rc != 0 {
		return c.enc(), impl + " stderr=" + common.Hex(firstLine(res.err))
	}
	if c.mode == "stdout" || c.mode == "pkg" {
		os.WriteFile(filepath.Join(dir, outFile), []byte(res.out), 0o644)
	}
	exported, _ := os.ReadFile(filepath.Join(dir, outFile))
	if c.mode == "pkg" {
		// keep the round trip apart from the package
		os.Remove(filepath.Join(dir, "x.cue"))
	}
	sorted := c.format == "toml"
	expect := data.canon(sorted)
	// direct: cue export out.EXT --out json
	d := runCue(cueBin, dir, "export", outFile, "--out", "json")
	dsame := 0
	dc := ""
	if d.rc == 0 {
		var err error
		dc, err = jsonCanon([]byte(d.out), sorted)
		if err == nil && dc == expect {
			dsame = 1
		}
	}
	impl += fmt.Sprintf(" direct=rc%d dsame=%d", d.rc, dsame)
	// import + export
	if c.format != "cue" {
		im := runCue(cueBin, dir, "import", outFile)
		impl += fmt.Sprintf(" import=rc%d", im.rc)
		if im.rc == 0 {
			re := runCue(cueBin, dir, "export", "out.cue", "--out", "json")
			same := 0
			rcn := ""
			if re.rc == 0 {
				var err error
				rcn, err = jsonCanon([]byte(re.out), sorted)
				if err == nil && rcn == expect {
					same = 1
				}
			}
			impl += fmt.Sprintf(" reexport=rc%d same=%d", re.rc, same)
			if same == 0 {
				impl += " got=" + rcn
			}
		}
	}
	if dsame == 0 {
		impl += " dgot=" + dc + " exported=" + common.Hex(string(exported))
	}
	return c.enc(), impl
}

func firstLine(s string) string {
	if i := strings.IndexByte(s, '\n'); i >= 0 {
		s = s[:i]
	}
	if len(s) > 160 {
		s = s[:160]
	}
	return s
}

// parseD parses the encoding written by encD.
func parseD(s string) (*D, string) {
	switch s[0] {
	case '[':
		t := &D{K: 'L'}
		s = s[1:]
		for s[0] != ']' {
			var k *D
			k, s = parseD(s)
			t.Kids = append(t.Kids, k)
			s = s[1:] // ,
		}
		return t, s[1:]
	case '{':
		t := &D{K: 'M'}
		s = s[1:]
		for s[0] != '}' {
			i := strings.IndexByte(s, '=')
			key := common.Unhex(s[:i])
			var k *D
			k, s = parseD(s[i+1:])
			t.Keys = append(t.Keys, key)
			t.Kids = append(t.Kids, k)
			s = s[1:]
		}
		return t, s[1:]
	case 'n':
		return &D{K: 'n'}, s[1:]
	}
	e := strings.IndexAny(s, ",]}")
	if e < 0 {
		e = len(s)
	}
	body := s[2:e]
	switch s[0] {
	case 's':
		return &D{K: 's', S: common.Unhex(body)}, s[e:]
	case 'i':
		return &D{K: 'i', S: body}, s[e:]
	case 'f':
		return &D{K: 'f', S: body}, s[e:]
	default:
		return &D{K: 'b', B: body == "1"}, s[e:]
	}
}

func parseCliSpec(line string) cliSpec {
	var c cliSpec
	for _, w := range strings.Fields(line)[1:] {
		i := strings.IndexByte(w, '=')
		k, v := w[:i], w[i+1:]
		switch k {
		case "fmt":
			c.format = v
		case "mode":
			c.mode = v
		case "expr":
			c.expr = v == "1"
		case "fail":
			if v != "none" {
				c.fail = v
			}
		case "wide":
			c.wide = v == "1"
		case "data":
			c.t, _ = parseD(v)
		}
	}
	return c
}
