package main

// literal.IndentTabs (cue/literal/indent.go): case kinds I (arbitrary literal
// text) and J (a literal written by Form.Quote, next to the same text quoted
// with the new indentation), in the format of ocaml/c09_driver.ml.

import (
	"strconv"
	"strings"

	"cuelang.org/go/cue/literal"
	"cuelang.org/go/internal/verifharness/common"
)

func implIndentTabs(lit string, n int) (r string, panicked bool) {
	defer func() {
		if e := recover(); e != nil {
			r, panicked = "", true
		}
	}()
	return literal.IndentTabs(lit, n), false
}

// I <hex literal> <n>  ->  ok:<hex IndentTabs> <Unquote of it> <Unquote of the literal> | panic - <Unquote of the literal>
func implIndentCase(p []string) string {
	lit := common.Unhex(p[1])
	n := common.Atoi(p[2], 0)
	r, pan := implIndentTabs(lit, n)
	if pan {
		return "panic - " + implUnquote(lit)
	}
	return "ok:" + common.Hex(r) + " " + implUnquote(r) + " " + implUnquote(lit)
}

// J <form> <hex s> <tbl> <n>  ->  <hex f.Quote(s)> <hex IndentTabs(that, n)> <hex f.WithTabIndent(n).Quote(s)> <Unquote of the re-indented literal>
func implRequoteCase(p []string) string {
	f := parseForm(p[1])
	s := common.Unhex(p[2])
	n := common.Atoi(p[4], 0)
	q, pan := implQuote(f, s)
	if pan {
		return "panic"
	}
	r, pan := implIndentTabs(q, n)
	if pan {
		return "panic"
	}
	f2 := f
	f2.ind = n
	q2, pan := implQuote(f2, s)
	if pan {
		return "panic"
	}
	return common.Hex(q) + " " + common.Hex(r) + " " + common.Hex(q2) + " " + implUnquote(r)
}

// genIndentLit assembles a multi-line literal line by line with a chosen
// white-space prefix (tabs, blanks, mixed, Unicode spaces, none): mostly
// well-formed, with empty lines, CRLF, escaped newlines, lines that start with
// more white space than the prefix, lines with too little of it, text that
// contains the search string of IndentTabs, and look-alike closing delimiters.
func genIndentLit(r *common.Rng) string {
	nh := common.Pick(r, []int{0, 0, 0, 1, 2})
	q := common.Pick(r, []string{`"`, `'`})
	h := strings.Repeat("#", nh)
	ws := common.Pick(r, []string{"", "", "\t", "\t", "\t\t", "\t\t\t", " ", "  ", "    ", " \t", "\t ", " ", " \t", "\v", "\f ", "\r"})
	eol := "\n"
	if r.Chance(1, 6) {
		eol = "\r\n"
	}
	var sb strings.Builder
	sb.WriteString(h + q + q + q + eol)
	nl := r.Intn(6)
	for i := 0; i < nl; i++ {
		switch r.Intn(14) {
		case 0, 1: // empty line
			sb.WriteString(eol)
			continue
		case 2: // white-space-only line with the full prefix
			sb.WriteString(ws + eol)
			continue
		case 3: // too little white space
			if len(ws) > 0 {
				sb.WriteString(ws[:len(ws)-1] + "x" + eol)
				continue
			}
		case 4: // a different prefix
			sb.WriteString(common.Pick(r, []string{" ", "\t", "  ", ""}) + "y" + eol)
			continue
		}
		sb.WriteString(ws)
		for j, m := 0, r.Intn(4); j < m; j++ {
			switch r.Intn(12) {
			case 0, 1, 2, 3:
				sb.WriteString(common.Pick(r, asciiWords))
			case 4:
				sb.WriteString(common.Pick(r, []string{"\t", " ", "\t\t", "  "}))
			case 5:
				sb.WriteString(`\` + h + common.Pick(r, []string{"n", "t", `\`, "u00e9", "r"}))
			case 6: // escaped newline, the next line carries the prefix again
				sb.WriteString(`\` + h + eol + common.Pick(r, []string{ws, ws, ""}))
			case 7:
				sb.WriteString(strings.Repeat(q, 1+r.Intn(3)) + strings.Repeat("#", r.Intn(3)))
			case 8:
				sb.WriteString(common.Pick(r, []string{"é", " ", " ", "\xff", "\r"}))
			case 9:
				sb.WriteString(common.Pick(r, []string{`\(`, `\n` + ws, `\\` + "\n" + ws}))
			default:
				sb.WriteByte(byte(0x21 + r.Intn(0x5e)))
			}
		}
		sb.WriteString(eol)
	}
	cws := ws
	if r.Chance(1, 10) {
		cws = common.Pick(r, []string{"", "\t", " ", ws + "\t", ws + " "})
	}
	sb.WriteString(cws + q + q + q + h)
	return sb.String()
}

func genIndentN(r *common.Rng) int {
	switch r.Intn(40) {
	case 0:
		return -1 - r.Intn(3)
	case 1:
		return 5 + r.Intn(12)
	}
	return r.Intn(5)
}

func fixedIndentCases() []string {
	var cs []string
	lits := []string{"\"\"\"\n\"\"\"", "\"\"\"\n\t\"\"\"", "\"\"\"\na\n\"\"\"", "\"\"\"\n\ta\n\t\"\"\"", "\"\"\"\n\ta\n\n\tb\n\t\"\"\"",
		"\"\"\"\n  a\n   b\n  \"\"\"", "\"\"\"\na\n\nb\n\"\"\"", "#\"\"\"\n\ta\\#n\n\t\"\"\"#", "'''\n\t\ta\n\t\t'''", "\"\"\"\r\n\ta\r\n\t\"\"\"",
		"\"\"\"\n\ta\\\n\tb\n\t\"\"\"", "\"\"\"\n\ta\n b\n\t\"\"\"", "\"\"\"\n\t\ta\n\tb\n\t\t\"\"\"", "\"a\"", "\"", "", "#", "\"\"\"x", "\"\"\"\n\ta\"\"\"",
		"\"\"\"\n a\n \"\"\"", "\"\"\"\n\ta\n\r\"\"\"", "\"\"\"\n\t\\(x)\n\t\"\"\"", "\"\"\"\n\t\"\"\"\n\t\"\"\"", "\"\"\"\n\t\n\t\"\"\"", "\"\"\"\n\ta\r\n\r\n\tb\n\t\"\"\""}
	for _, l := range lits {
		for _, n := range []int{0, 1, 2, 3, -1} {
			cs = append(cs, "I "+common.Hex(l)+" "+strconv.Itoa(n))
		}
	}
	for _, bf := range []bool{false, true} {
		for _, ind := range []int{0, 1, 2} {
			for _, s := range []string{"", "a", "\n", "a\n\nb", "a\n\tb", "\n\na", "a\n", "a\r\nb", "\ta\n\t\tb", "a\n\"\"\"#\nb", "a\\\nb"} {
				for _, n := range []int{0, 1, 3} {
					f := formSpec{bytes: bf, ml: true, ind: ind}
					cs = append(cs, "J "+f.String()+" "+common.Hex(s)+" "+tblFor(s)+" "+strconv.Itoa(n))
				}
			}
		}
	}
	return cs
}

// genIndentCases: ni generated I / J cases; valid = literals written by Quote in this run
func genIndentCases(ri *common.Rng, ni int, valid []string, emit func(string)) {
	for i := 0; i < ni; i++ {
		n := genIndentN(ri)
		switch ri.Intn(20) {
		case 0, 1, 2, 3, 4, 5, 6:
			f := formSpec{bytes: ri.Bool(), ind: ri.Intn(4)}
			switch ri.Intn(8) {
			case 0:
				f.auto = true
			case 1: // single line: returned as is
			default:
				f.ml = true
			}
			f.ah = ri.Chance(1, 5)
			f.ascii = ri.Chance(1, 6)
			f.g = ri.Chance(1, 6)
			s, _ := genContent(ri, f.bytes)
			if ri.Chance(1, 2) && !strings.Contains(s, "\n") {
				s = strings.ReplaceAll(s, " ", "\n")
			}
			if n < 0 {
				n = 0
			}
			emit("J " + f.String() + " " + common.Hex(s) + " " + tblFor(s) + " " + strconv.Itoa(n))
		case 7, 8, 9, 10, 11, 12, 13:
			emit("I " + common.Hex(genIndentLit(ri)) + " " + strconv.Itoa(n))
		case 14, 15:
			emit("I " + common.Hex(mutate(ri, genIndentLit(ri))) + " " + strconv.Itoa(n))
		case 16, 17:
			emit("I " + common.Hex(genLiteral(ri)) + " " + strconv.Itoa(n))
		default:
			if len(valid) > 0 {
				l := common.Pick(ri, valid)
				if ri.Bool() {
					l = mutate(ri, l)
				}
				emit("I " + common.Hex(l) + " " + strconv.Itoa(n))
			} else {
				emit("I " + common.Hex(genIndentLit(ri)) + " " + strconv.Itoa(n))
			}
		}
	}
}
