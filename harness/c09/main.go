// C09 harness: literal quoting/unquoting of the working tree printed in the
// format of the extracted Coq model (lit.go), plus the direct exploration of
// scanner / literal / parser agreement and parser position invariants
// (explore.go).
package main

import (
	"fmt"
	"os"

	"cuelang.org/go/internal/verifharness/common"
)

func main() {
	a := common.Args(os.Args[1:])
	switch a["--mode"] {
	case "explore", "explore-replay":
		runExplore(a)
	case "lit", "":
		runLit(a)
	case "unq":
		runUnq(a)
	default:
		fmt.Fprintln(os.Stderr, "unknown --mode", a["--mode"])
		os.Exit(2)
	}
}
