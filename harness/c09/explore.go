// C09 exploration: parser totality / position invariants (PART A) and
// three-way lexical agreement scanner / cue/literal / parser (PART B).
//
// Entry point: runExplore(common.Args(os.Args[1:])), modes "explore" and
// "explore-replay". Everything random derives from common.NewRng(seed); inputs
// are generated sequentially, checked by a worker pool, and aggregated in case
// order, so the same seed gives a byte-identical explore.json (except wall_ms).
package main

import (
	"bytes"
	"encoding/json"
	"fmt"
	"io/fs"
	"math/big"
	"os"
	"path/filepath"
	"reflect"
	"regexp"
	"runtime"
	"runtime/debug"
	"sort"
	"strconv"
	"strings"
	"sync"
	"sync/atomic"
	"time"
	"unicode"

	"cuelang.org/go/cue/ast"
	"cuelang.org/go/cue/errors"
	"cuelang.org/go/cue/literal"
	"cuelang.org/go/cue/parser"
	"cuelang.org/go/cue/scanner"
	"cuelang.org/go/cue/token"
	"cuelang.org/go/internal/verifharness/common"
)

// ---------------------------------------------------------------------------
// Output shape

type xFailure struct {
	Part     string `json:"part"`
	Class    string `json:"class"`
	What     string `json:"what"`
	InputHex string `json:"input_hex"`
	Opts     string `json:"opts"`
	Kind     string `json:"kind"`
	Mutation string `json:"mutation,omitempty"`
	LitKind  string `json:"lit_kind,omitempty"`
	OrigLen  int    `json:"orig_len"`
}

type xKnown struct {
	Count      int    `json:"count"`
	WitnessHex string `json:"witness_hex"`
	Witness    string `json:"witness_quoted"`
	Verdict    string `json:"verdict,omitempty"`
	What       string `json:"what"`
	PartA      int    `json:"part_a_count,omitempty"`
	PartAHex   string `json:"part_a_witness_hex,omitempty"`
	FormCount  int    `json:"quote_output_rejected_count,omitempty"`
	FormWhat   string `json:"quote_output_rejected_witness,omitempty"`
}

type xExcl struct {
	Count      int    `json:"count"`
	WitnessHex string `json:"witness_hex"`
	Verdicts   string `json:"verdicts"`
	Why        string `json:"why"`
}

type xThreeway struct {
	Cases         int                       `json:"cases"`
	Compared      int                       `json:"compared"`
	ByKind        map[string]map[string]int `json:"by_kind"`
	Verdicts      map[string]int            `json:"verdicts"`
	Excluded      map[string]*xExcl         `json:"excluded_classes"`
	Disagreements int                       `json:"disagreements"`
	NumKindChecks int                       `json:"num_kind_checks"`
	CRLFChecks    int                       `json:"crlf_invariance_checks"`
	FormChecks    int                       `json:"quoted_form_checks"`
}

type xReport struct {
	Mode          string             `json:"mode"`
	Seed          uint64             `json:"seed"`
	CorpusFiles   int                `json:"corpus_files"`
	CorpusSource  string             `json:"corpus_source"`
	ParseInputs   int                `json:"parse_inputs"`
	ParseCalls    int                `json:"parse_calls"`
	ParseOK       int                `json:"parse_ok"`
	ParseErr      int                `json:"parse_err"`
	ExprCalls     int                `json:"parse_expr_calls"`
	ExprOK        int                `json:"parse_expr_ok"`
	MutationKinds map[string]int     `json:"mutation_kinds"`
	SizeHist      map[string]int     `json:"size_hist"`
	NodesVisited  int                `json:"nodes_visited"`
	NodeTypes     map[string]int     `json:"node_types"`
	InvChecks     int                `json:"invariant_checks"`
	InvChecksBy   map[string]int     `json:"invariant_checks_by"`
	Invariants    []string           `json:"invariants"`
	Failures      []xFailure         `json:"failures"`
	FailuresTotal int                `json:"failures_total"`
	FailureClass  map[string]int     `json:"failure_classes"`
	Known         map[string]*xKnown `json:"known_candidates"`
	Relaxed       map[string]*xKnown `json:"relaxed_counts"`
	Threeway      xThreeway          `json:"threeway"`
	Idents        xIdents            `json:"idents"`
	Relaxations   []string           `json:"relaxations"`
	WallMs        int64              `json:"wall_ms"`
}

var invariantDoc = []string{
	"I1 every node position with an absolute file position refers to the parse's token.File (size == len(src)), its raw index lies in [0,len(src)] (checked through the public API: file.Pos(p.Offset(),rel)+flag bits == p, since Pos.Offset() itself clamps), and Pos().Offset() <= End().Offset()",
	"I2 every child lies within its parent: parent.Pos <= child.Pos and child.End <= parent.End (comment groups are checked separately: I1 only, plus comments inside their group)",
	"I3 consecutive children in syntactic order (slice elements, and X/Y, Fun/Args, Label/Alias/Value/Attrs, Clauses/Value/Fallback ...) do not overlap: prev.End <= next.Pos",
	"I4 every error of errors.Errors(err) with an absolute position: raw index in [0,len(src)], line >= 1, column >= 1",
	"I5 ParseFile never returns (nil,nil); parsing the same bytes twice gives the same structural dump (node types, offsets, number and positions of errors; error texts are not compared)",
	"I6 (error-free parses only) token positions point at their token text in src: Ident.Name, BasicLit.Value, Attribute.Text, Comment.Text (modulo CR stripping), brackets/braces/parens, operators, ':', '.', '...', '_|_', keywords of clauses, '=' and '~' of aliases, import/package keywords",
	"I8 CRLF invariance: for every input containing CRLF, ParseFile(src) is error-free iff ParseFile(src with CRLF->LF) is (spec.md: CR is white space and is discarded inside string literals); mutation kind 'crlf' converts whole corpus files",
	"I7 own child enumeration visits exactly as many nodes as ast.Walk (harness self-check); ast.Walk does not panic",
}

var relaxationDoc = []string{
	"positions without an absolute file (NoPos, or rel-only positions produced by expect() failures and synthesized nodes) are skipped in every invariant; a node whose Pos or End is not absolute is not compared with its parent/sibling on that side",
	"comment groups attached to a node may lie outside the node's Pos/End range: for them only I1 (and I2/I3 among the comments of the group) is checked",
	"*ast.File with no declarations: Pos() fabricates a position in a fresh one-byte token.File; it is ignored",
	"I3 skips a pair when both children are the same pointer (PostfixAlias recovery stores the same *Ident as Label and Field)",
	"I2 (End side) is skipped for specs #1.. of an *ast.ImportDecl whose Rparen is invalid: ImportDecl.End() then is Specs[0].End() (only reachable through a missing ')' in error recovery)",
	"I6: ForClause.Colon may point at a newline: the parser accepts the scanner's auto-inserted comma between key and value (for k<newline>v in x) without error",
	"I6 is only enforced when the parse returned err == nil (error recovery synthesizes identifiers \"_\", keyword identifiers and BadExpr ranges at the position of the offending token)",
	"raw End() index == len(src)+1 (one past EOF; clamped by Pos.Offset()) is produced by error recovery for nodes synthesized at the EOF token (End = pos.Add(1|len)); it is observable only through Pos equality/Add and is counted under relaxed_counts[\"raw-end-past-eof\"] instead of failures; any other out-of-range raw index is a failure",
}

// ---------------------------------------------------------------------------
// Small helpers

func stripCRs(s string) string { return strings.ReplaceAll(s, "\r", "") }

func quoteShort(s string) string {
	q := fmt.Sprintf("%q", s)
	if len(q) > 160 {
		q = q[:157] + "..."
	}
	return q
}

func sizeBucket(n int) string {
	switch {
	case n < 16:
		return "0000-0015"
	case n < 64:
		return "0016-0063"
	case n < 256:
		return "0064-0255"
	case n < 1024:
		return "0256-1023"
	case n < 4096:
		return "1024-4095"
	default:
		return "4096+"
	}
}

const watchdog = 5 * time.Second

// guarded runs fn in a goroutine; it reports a recovered panic value and/or
// a watchdog timeout (the goroutine is then abandoned, not killed).
func guarded(fn func()) (panicVal any, panicked, timedOut bool) {
	type res struct {
		v any
		p bool
	}
	done := make(chan res, 1)
	go func() {
		finished := false
		defer func() {
			if !finished {
				done <- res{recover(), true}
			}
		}()
		fn()
		finished = true
		done <- res{nil, false}
	}()
	t := time.NewTimer(watchdog)
	defer t.Stop()
	select {
	case r := <-done:
		return r.v, r.p, false
	case <-t.C:
		return nil, false, true
	}
}

// ---------------------------------------------------------------------------
// PART A: parse + invariants

type optSet struct {
	name string
	opts []parser.Option
}

var optSets = []optSet{
	{"comments", []parser.Option{parser.ParseComments}},
	{"comments+allerrors", []parser.Option{parser.ParseComments, parser.AllErrors}},
	{"none", nil},
	{"comments+funcs", []parser.Option{parser.ParseComments, parser.ParseFuncs}},
}

type aIssue struct {
	class   string
	what    string
	opts    string
	relaxed bool // documented relaxation, counted under relaxed_counts
	known   bool // known defect candidate, counted under known_candidates
}

type aResult struct {
	calls, ok, errs   int
	exprCalls, exprOK int
	nodes             int
	checks            [8]int // index = invariant number
	nodeTypes         map[string]int
	issues            []aIssue
}

func (r *aResult) issue(class, what, opts string) {
	if len(r.issues) < 8 {
		r.issues = append(r.issues, aIssue{class: class, what: what, opts: opts})
	}
}

func (r *aResult) relaxedIssue(class, what, opts string) {
	if len(r.issues) < 8 {
		r.issues = append(r.issues, aIssue{class: class, what: what, opts: opts, relaxed: true})
	}
}

func (r *aResult) knownIssue(class, what, opts string) {
	if len(r.issues) < 8 {
		r.issues = append(r.issues, aIssue{class: class, what: what, opts: opts, known: true})
	}
}

// walker checks one tree.
type walker struct {
	src     []byte
	file    *token.File // the token.File of the parse; learnt from the first absolute pos
	res     *aResult
	opts    string
	errFree bool
	dump    *strings.Builder
	count   int
}

// posState classifies a position: abs == has a file; inRange == raw index
// within [0,size]; delta == how far the raw index is outside (best effort).
func (w *walker) posState(p token.Pos) (off int, abs, inRange bool, delta int) {
	if !p.HasAbsPos() {
		return 0, false, true, 0
	}
	f := p.File()
	off = p.Offset()
	q := f.Pos(off, p.RelPos()).WithComma(p.HasComma()).WithScanned(p.Scanned())
	if q == p {
		return off, true, true, 0
	}
	// Out of range: find the distance with Add, which works on the raw index.
	for k := 1; k <= 64; k++ {
		for _, sgn := range []int{-1, 1} {
			r := p.Add(sgn * k)
			o := r.Offset()
			if f.Pos(o, r.RelPos()).WithComma(r.HasComma()).WithScanned(r.Scanned()) == r {
				return off, true, false, -sgn * k
			}
		}
	}
	return off, true, false, 1 << 20
}

var nodeNames sync.Map // reflect.Type -> string

func nodeName(n ast.Node) string {
	t := reflect.TypeOf(n)
	if v, ok := nodeNames.Load(t); ok {
		return v.(string)
	}
	name := strings.TrimPrefix(fmt.Sprintf("%T", n), "*ast.")
	nodeNames.Store(t, name)
	return name
}

// checkPos is I1 for one position; returns offset and whether it can be used
// in comparisons.
func (w *walker) checkPos(n ast.Node, which string, p token.Pos) (int, bool) {
	off, abs, inRange, delta := w.posState(p)
	if !abs {
		return 0, false
	}
	w.res.checks[1]++
	f := p.File()
	if w.file == nil {
		w.file = f
		if f.Size() != len(w.src) {
			w.res.issue("I1-file-size", fmt.Sprintf("%s.%s: token.File size %d != len(src) %d", nodeName(n), which, f.Size(), len(w.src)), w.opts)
		}
	} else if f != w.file {
		w.res.issue("I1-foreign-file", fmt.Sprintf("%s.%s refers to a different token.File (%q size %d)", nodeName(n), which, f.Name(), f.Size()), w.opts)
		return 0, false
	}
	if !inRange {
		if which == "End" && delta == 1 {
			// documented relaxation: one past EOF, produced by Add(1) on the EOF position
			w.res.relaxedIssue("raw-end-past-eof", fmt.Sprintf("%s.End() raw index = len(src)+1 (Offset() clamps to %d)", nodeName(n), off), w.opts)
			return off, true
		}
		w.res.issue("I1-"+strings.ToLower(which)+"-range", fmt.Sprintf("%s.%s raw index out of [0,%d] by %+d (clamped offset %d)", nodeName(n), which, len(w.src), delta, off), w.opts)
		return off, true
	}
	if off < 0 || off > len(w.src) {
		w.res.issue("I1-"+strings.ToLower(which)+"-range", fmt.Sprintf("%s.%s offset %d outside [0,%d]", nodeName(n), which, off, len(w.src)), w.opts)
	}
	return off, true
}

type span struct {
	pos, end     int
	hasPos, hasE bool
}

func (w *walker) spanOf(n ast.Node) span {
	var s span
	s.pos, s.hasPos = w.checkPos(n, "Pos", n.Pos())
	s.end, s.hasE = w.checkPos(n, "End", n.End())
	if s.hasPos && s.hasE {
		w.res.checks[1]++
		if s.pos > s.end {
			w.res.issue("I1-pos-after-end", fmt.Sprintf("%s Pos %d > End %d", nodeName(n), s.pos, s.end), w.opts)
		}
	}
	return s
}

// kids enumerates the children of n in syntactic order (mirrors ast.Walk,
// without the comment groups).
func kids(n ast.Node) (out []ast.Node, unknown bool) {
	add := func(x ast.Node) { out = append(out, x) }
	switch n := n.(type) {
	case *ast.Comment, *ast.Attribute, *ast.BottomLit, *ast.BadExpr, *ast.Ident, *ast.BasicLit, *ast.BadDecl:
	case *ast.CommentGroup:
		for _, c := range n.List {
			add(c)
		}
	case *ast.Field:
		if n.Label != nil {
			add(n.Label)
		}
		if n.Alias != nil {
			add(n.Alias)
		}
		if n.Value != nil {
			add(n.Value)
		}
		for _, a := range n.Attrs {
			add(a)
		}
	case *ast.Func:
		for _, a := range n.Args {
			add(a)
		}
		if n.Ret != nil {
			add(n.Ret)
		}
	case *ast.StructLit:
		for _, d := range n.Elts {
			add(d)
		}
	case *ast.Interpolation:
		for _, e := range n.Elts {
			add(e)
		}
	case *ast.ListLit:
		for _, e := range n.Elts {
			add(e)
		}
	case *ast.Ellipsis:
		if n.Type != nil {
			add(n.Type)
		}
	case *ast.ParenExpr:
		if n.X != nil {
			add(n.X)
		}
	case *ast.SelectorExpr:
		if n.X != nil {
			add(n.X)
		}
		if n.Sel != nil {
			add(n.Sel)
		}
	case *ast.IndexExpr:
		if n.X != nil {
			add(n.X)
		}
		if n.Index != nil {
			add(n.Index)
		}
	case *ast.SliceExpr:
		if n.X != nil {
			add(n.X)
		}
		if n.Low != nil {
			add(n.Low)
		}
		if n.High != nil {
			add(n.High)
		}
	case *ast.CallExpr:
		if n.Fun != nil {
			add(n.Fun)
		}
		for _, a := range n.Args {
			add(a)
		}
	case *ast.UnaryExpr:
		if n.X != nil {
			add(n.X)
		}
	case *ast.BinaryExpr:
		if n.X != nil {
			add(n.X)
		}
		if n.Y != nil {
			add(n.Y)
		}
	case *ast.PostfixExpr:
		if n.X != nil {
			add(n.X)
		}
	case *ast.ImportSpec:
		if n.Name != nil {
			add(n.Name)
		}
		if n.Path != nil {
			add(n.Path)
		}
	case *ast.ImportDecl:
		for _, s := range n.Specs {
			add(s)
		}
	case *ast.EmbedDecl:
		if n.Expr != nil {
			add(n.Expr)
		}
	case *ast.LetClause:
		if n.Ident != nil {
			add(n.Ident)
		}
		if n.Expr != nil {
			add(n.Expr)
		}
	case *ast.TryClause:
		if n.Ident != nil {
			add(n.Ident)
			if n.Expr != nil {
				add(n.Expr)
			}
		}
	case *ast.Alias:
		if n.Ident != nil {
			add(n.Ident)
		}
		if n.Expr != nil {
			add(n.Expr)
		}
	case *ast.PostfixAlias:
		if n.Label != nil {
			add(n.Label)
		}
		if n.Field != nil {
			add(n.Field)
		}
	case *ast.Comprehension:
		for _, c := range n.Clauses {
			add(c)
		}
		if n.Value != nil {
			add(n.Value)
		}
		if n.Fallback != nil {
			add(n.Fallback)
		}
	case *ast.File:
		for _, d := range n.Decls {
			add(d)
		}
	case *ast.Package:
		if n.Name != nil {
			add(n.Name)
		}
	case *ast.ForClause:
		if n.Key != nil {
			add(n.Key)
		}
		if n.Value != nil {
			add(n.Value)
		}
		if n.Source != nil {
			add(n.Source)
		}
	case *ast.IfClause:
		if n.Condition != nil {
			add(n.Condition)
		}
	case *ast.FallbackClause:
		if n.Body != nil {
			add(n.Body)
		}
	default:
		return nil, true
	}
	return out, false
}

// matchAt reports whether text occurs in src at off, ignoring carriage returns
// that are present in src but not in text (the scanner strips CR from
// multi-line strings and comments).
func matchAt(src []byte, off int, text string) bool {
	i, j := off, 0
	for j < len(text) {
		if i >= len(src) {
			return false
		}
		if src[i] == text[j] {
			i++
			j++
			continue
		}
		if src[i] == '\r' {
			i++
			continue
		}
		return false
	}
	return true
}

func (w *walker) tok(n ast.Node, field string, p token.Pos, texts ...string) {
	if !w.errFree || !p.HasAbsPos() {
		return
	}
	w.res.checks[6]++
	off := p.Offset()
	for _, t := range texts {
		if matchAt(w.src, off, t) {
			return
		}
	}
	end := off + 12
	if end > len(w.src) {
		end = len(w.src)
	}
	w.res.issue("I6-token-text", fmt.Sprintf("%s.%s at offset %d: source has %q, want %q", nodeName(n), field, off, w.src[off:end], texts), w.opts)
}

// tokenChecks is I6.
func (w *walker) tokenChecks(n ast.Node) {
	if !w.errFree {
		return
	}
	switch n := n.(type) {
	case *ast.Comment:
		w.tok(n, "Slash", n.Slash, n.Text)
	case *ast.Attribute:
		w.tok(n, "At", n.At, n.Text)
	case *ast.Ident:
		w.tok(n, "NamePos", n.NamePos, n.Name)
	case *ast.BasicLit:
		w.tok(n, "ValuePos", n.ValuePos, n.Value)
	case *ast.BottomLit:
		w.tok(n, "Bottom", n.Bottom, "_|_")
	case *ast.Field:
		w.tok(n, "TokenPos", n.TokenPos, ":")
	case *ast.Func:
		w.tok(n, "Func", n.Func, "func")
	case *ast.StructLit:
		w.tok(n, "Lbrace", n.Lbrace, "{")
		w.tok(n, "Rbrace", n.Rbrace, "}")
	case *ast.ListLit:
		w.tok(n, "Lbrack", n.Lbrack, "[")
		w.tok(n, "Rbrack", n.Rbrack, "]")
	case *ast.Ellipsis:
		w.tok(n, "Ellipsis", n.Ellipsis, "...")
	case *ast.ParenExpr:
		w.tok(n, "Lparen", n.Lparen, "(")
		w.tok(n, "Rparen", n.Rparen, ")")
	case *ast.SelectorExpr:
		w.tok(n, "Period", n.Period, ".")
	case *ast.IndexExpr:
		w.tok(n, "Lbrack", n.Lbrack, "[")
		w.tok(n, "Rbrack", n.Rbrack, "]")
	case *ast.SliceExpr:
		w.tok(n, "Lbrack", n.Lbrack, "[")
		w.tok(n, "Rbrack", n.Rbrack, "]")
	case *ast.CallExpr:
		w.tok(n, "Lparen", n.Lparen, "(")
		w.tok(n, "Rparen", n.Rparen, ")")
	case *ast.UnaryExpr:
		w.tok(n, "OpPos", n.OpPos, n.Op.String())
	case *ast.BinaryExpr:
		w.tok(n, "OpPos", n.OpPos, n.Op.String())
	case *ast.PostfixExpr:
		w.tok(n, "OpPos", n.OpPos, n.Op.String())
	case *ast.ImportDecl:
		w.tok(n, "Import", n.Import, "import")
		w.tok(n, "Lparen", n.Lparen, "(")
		w.tok(n, "Rparen", n.Rparen, ")")
	case *ast.Package:
		w.tok(n, "PackagePos", n.PackagePos, "package")
	case *ast.LetClause:
		w.tok(n, "Let", n.Let, "let")
		w.tok(n, "Equal", n.Equal, "=")
	case *ast.TryClause:
		w.tok(n, "Try", n.Try, "try")
		w.tok(n, "Equal", n.Equal, "=")
	case *ast.ForClause:
		w.tok(n, "For", n.For, "for")
		w.tok(n, "Colon", n.Colon, ",", "\n") // relaxation: "for k<newline>v in x" uses the auto-inserted comma
		w.tok(n, "In", n.In, "in")
	case *ast.IfClause:
		w.tok(n, "If", n.If, "if")
	case *ast.FallbackClause:
		w.tok(n, "Fallback", n.Fallback, "else", "otherwise", "fallback")
	case *ast.Alias:
		w.tok(n, "Equal", n.Equal, "=")
	case *ast.PostfixAlias:
		w.tok(n, "Tilde", n.Tilde, "~")
		w.tok(n, "Lparen", n.Lparen, "(")
		w.tok(n, "Comma", n.Comma, ",")
		w.tok(n, "Rparen", n.Rparen, ")")
	}
}

func (w *walker) visit(n ast.Node, isComment bool) span {
	w.count++
	w.res.nodes++
	name := nodeName(n)
	if w.res.nodeTypes != nil {
		w.res.nodeTypes[name]++
	}
	var s span
	if f, ok := n.(*ast.File); ok && len(f.Decls) == 0 {
		// relaxation: File.Pos() of an empty file is a fabricated position.
	} else {
		s = w.spanOf(n)
	}
	if w.dump != nil {
		d := w.dump
		d.WriteByte('(')
		d.WriteString(name)
		d.WriteByte(' ')
		if s.hasPos {
			d.WriteString(strconv.Itoa(s.pos))
		} else {
			d.WriteByte('-')
		}
		d.WriteByte(' ')
		if s.hasE {
			d.WriteString(strconv.Itoa(s.end))
		} else {
			d.WriteByte('-')
		}
	}
	w.tokenChecks(n)

	// Comment groups attached to the node: I1 only (they may lie outside).
	for _, cg := range ast.Comments(n) {
		if cg == nil {
			w.res.issue("nil-comment-group", name+" has a nil comment group", w.opts)
			continue
		}
		w.visit(cg, true)
	}

	ks, unknown := kids(n)
	if unknown {
		w.res.issue("I7-unknown-node-type", fmt.Sprintf("node type %T not handled", n), w.opts)
	}
	var prev span
	var prevNode ast.Node
	for i, k := range ks {
		cs := w.visit(k, isComment)
		// I2
		if s.hasPos && cs.hasPos {
			w.res.checks[2]++
			if cs.pos < s.pos {
				w.res.issue("I2-child-before-parent", fmt.Sprintf("%s child #%d %s Pos %d < parent Pos %d", name, i, nodeName(k), cs.pos, s.pos), w.opts)
			}
		}
		if id, ok := n.(*ast.ImportDecl); ok && i > 0 && !id.Rparen.IsValid() {
			// relaxation: ImportDecl.End() without a closing paren is
			// Specs[0].End(); with several specs (only possible when the
			// ')' is missing, i.e. error recovery) later specs lie outside.
		} else if s.hasE && cs.hasE {
			w.res.checks[2]++
			if cs.end > s.end {
				w.res.issue("I2-child-after-parent", fmt.Sprintf("%s child #%d %s End %d > parent End %d", name, i, nodeName(k), cs.end, s.end), w.opts)
			}
		}
		// I3
		if i > 0 && prev.hasE && cs.hasPos && prevNode != k {
			w.res.checks[3]++
			if prev.end > cs.pos {
				w.res.issue("I3-sibling-order", fmt.Sprintf("%s children #%d %s End %d > #%d %s Pos %d", name, i-1, nodeName(prevNode), prev.end, i, nodeName(k), cs.pos), w.opts)
			}
		}
		prev, prevNode = cs, k
	}
	if w.dump != nil {
		w.dump.WriteByte(')')
	}
	return s
}

func (w *walker) checkErrors(err error) {
	for i, e := range errors.Errors(err) {
		p := e.Position()
		off, abs, inRange, delta := w.posState(p)
		if w.dump != nil {
			// positions only: error texts are never compared (e.g. the order of
			// several "unknown experiment" messages follows Go map iteration)
			fmt.Fprintf(w.dump, "[E %d:%v]", off, abs)
		}
		if !abs {
			continue
		}
		w.res.checks[4]++
		if p.File().Size() != len(w.src) {
			w.res.issue("I4-error-file", fmt.Sprintf("error #%d refers to a token.File of size %d", i, p.File().Size()), w.opts)
			continue
		}
		if !inRange || off < 0 || off > len(w.src) {
			w.res.issue("I4-error-pos-range", fmt.Sprintf("error #%d raw index out of [0,%d] by %+d: %v", i, len(w.src), delta, e), w.opts)
		}
		pp := p.Position()
		if pp.Line < 1 || pp.Column < 1 {
			w.res.issue("I4-error-line-col", fmt.Sprintf("error #%d line %d column %d: %v", i, pp.Line, pp.Column, e), w.opts)
		}
		if pp.Offset != off {
			w.res.issue("I4-error-pos-range", fmt.Sprintf("error #%d Position().Offset %d != Offset() %d", i, pp.Offset, off), w.opts)
		}
	}
}

// parseOnce runs ParseFile + all invariants for one option set. It returns the
// structural dump (or "" if not requested).
func parseOnce(src []byte, os optSet, res *aResult, wantDump bool, stage *atomic.Value) string {
	stage.Store("ParseFile")
	f, err := parser.ParseFile("x.cue", src, os.opts...)
	res.calls++
	if err == nil {
		res.ok++
	} else {
		res.errs++
	}
	res.checks[5]++
	if f == nil && err == nil {
		res.issue("I5-nil-nil", "ParseFile returned (nil, nil)", os.name)
		return ""
	}
	w := &walker{src: src, res: res, opts: os.name, errFree: err == nil}
	if wantDump {
		w.dump = &strings.Builder{}
	}
	if f != nil {
		stage.Store("walk")
		w.visit(f, false)
		stage.Store("ast.Walk")
		n := 0
		ast.Walk(f, func(ast.Node) bool { n++; return true }, nil)
		res.checks[7]++
		if n != w.count {
			res.issue("I7-walker-mismatch", fmt.Sprintf("ast.Walk visited %d nodes, harness walker %d", n, w.count), os.name)
		}
	}
	stage.Store("errors")
	w.checkErrors(err)
	if w.dump != nil {
		return w.dump.String()
	}
	return ""
}

// checkParse is the complete PART A check of one input. sets selects the
// option sets (indices into optSets); the first one also gets the
// determinism re-parse.
func checkParse(src []byte, sets []int, withTypes bool) *aResult {
	return checkParseDet(src, sets, withTypes, true)
}

// checkParseDet: det selects the I5 determinism re-parse for the first set.
func checkParseDet(src []byte, sets []int, withTypes, det bool) *aResult {
	res := &aResult{}
	if withTypes {
		res.nodeTypes = map[string]int{}
	}
	for si, oi := range sets {
		os := optSets[oi]
		var stage atomic.Value
		stage.Store("start")
		sub := &aResult{nodeTypes: res.nodeTypes}
		pv, panicked, timedOut := guarded(func() {
			d1 := parseOnce(src, os, sub, det && si == 0, &stage)
			if det && si == 0 {
				// I5 determinism: a second, independent parse.
				save := *sub
				sub2 := &aResult{}
				d2 := parseOnce(src, os, sub2, true, &stage)
				*sub = save
				sub.checks[5]++
				if d1 != d2 {
					sub.issue("I5-nondeterministic", "two parses of the same bytes gave different dumps", os.name)
				}
			}
		})
		if timedOut {
			res.calls++
			res.issue("timeout", fmt.Sprintf("no result after %v in stage %v", watchdog, stage.Load()), os.name)
			continue
		}
		if panicked {
			res.calls++
			res.issue("panic", fmt.Sprintf("Go panic in stage %v: %v", stage.Load(), pv), os.name)
			continue
		}
		res.calls += sub.calls
		res.ok += sub.ok
		res.errs += sub.errs
		res.nodes += sub.nodes
		for i := range res.checks {
			res.checks[i] += sub.checks[i]
		}
		res.issues = append(res.issues, sub.issues...)
	}
	if len(src) <= 256 {
		checkParseExpr(src, res)
	}
	if bytes.Contains(src, []byte("\r\n")) {
		checkCRLF(src, res)
	}
	return res
}

// parsesClean reports whether ParseFile(src, ParseComments) returns err == nil.
func parsesClean(src []byte) (clean, bad bool) {
	_, panicked, timedOut := guarded(func() {
		_, err := parser.ParseFile("x.cue", src, parser.ParseComments)
		clean = err == nil
	})
	return clean, panicked || timedOut
}

// dropBlankLineCRs removes the CR of every CRLF that ends a line made only of
// blanks and CRs.
func dropBlankLineCRs(src []byte) []byte {
	var out []byte
	lineStart := 0
	for i := 0; i < len(src); i++ {
		if src[i] != '\n' {
			continue
		}
		line := src[lineStart : i+1]
		if len(bytes.Trim(line, " \t\r\n")) == 0 {
			line = bytes.ReplaceAll(line, []byte("\r\n"), []byte("\n"))
		}
		out = append(out, line...)
		lineStart = i + 1
	}
	return append(out, src[lineStart:]...)
}

// checkCRLF is I8: replacing every CRLF by LF does not change whether the
// input parses without error.
func checkCRLF(src []byte, res *aResult) {
	res.checks[0]++ // slot 0 is used for I8
	lf := bytes.ReplaceAll(src, []byte("\r\n"), []byte("\n"))
	okSrc, bad1 := parsesClean(src)
	okLF, bad2 := parsesClean(lf)
	if bad1 || bad2 || okSrc == okLF {
		return // panics/timeouts are reported by the main check
	}
	what := fmt.Sprintf("error-free(src)=%v but error-free(src with CRLF->LF)=%v", okSrc, okLF)
	if okP, bad := parsesClean(dropBlankLineCRs(src)); !bad && okP == okLF {
		res.knownIssue("scanner-cr-in-line-leading-whitespace", what+"; dropping only the CRs of blank lines restores agreement (CRLF file with an empty line inside an indented multi-line string)", "comments")
		return
	}
	res.issue("I8-crlf-variance", what, "comments")
}

func checkParseExpr(src []byte, res *aResult) {
	for _, os := range []optSet{optSets[0], optSets[2]} {
		var stage atomic.Value
		stage.Store("ParseExpr")
		sub := &aResult{nodeTypes: res.nodeTypes}
		pv, panicked, timedOut := guarded(func() {
			e, err := parser.ParseExpr("x.cue", src, os.opts...)
			sub.exprCalls++
			sub.checks[5]++
			if err == nil {
				sub.exprOK++
				if e == nil {
					sub.issue("I5-expr-nil-nil", "ParseExpr returned (nil, nil)", "expr/"+os.name)
					return
				}
			}
			w := &walker{src: src, res: sub, opts: "expr/" + os.name, errFree: err == nil}
			if e != nil {
				stage.Store("walk")
				w.visit(e, false)
				stage.Store("ast.Walk")
				n := 0
				ast.Walk(e, func(ast.Node) bool { n++; return true }, nil)
				sub.checks[7]++
				if n != w.count {
					sub.issue("I7-walker-mismatch", fmt.Sprintf("ast.Walk visited %d nodes, harness walker %d", n, w.count), w.opts)
				}
			}
			stage.Store("errors")
			w.checkErrors(err)
		})
		if timedOut {
			res.exprCalls++
			res.issue("timeout", fmt.Sprintf("ParseExpr: no result after %v in stage %v", watchdog, stage.Load()), "expr/"+os.name)
			continue
		}
		if panicked {
			res.exprCalls++
			res.issue("panic", fmt.Sprintf("ParseExpr: Go panic in stage %v: %v", stage.Load(), pv), "expr/"+os.name)
			continue
		}
		res.exprCalls += sub.exprCalls
		res.exprOK += sub.exprOK
		res.nodes += sub.nodes
		for i := range res.checks {
			res.checks[i] += sub.checks[i]
		}
		res.issues = append(res.issues, sub.issues...)
	}
}

// ---------------------------------------------------------------------------
// Corpus

type corpusFile struct {
	name string
	src  []byte
}

const maxCorpusSize = 16 << 10

// repoRoot is the tree whose corpus files are read: VERIF_REPO (the tree the
// harness was built from) or /repo.
func repoRoot() string {
	if r := os.Getenv("VERIF_REPO"); r != "" {
		return strings.TrimRight(r, "/")
	}
	return "/repo"
}

func parseTxtar(data []byte) (out []corpusFile) {
	lines := bytes.SplitAfter(data, []byte("\n"))
	cur := -1
	for _, ln := range lines {
		t := bytes.TrimRight(ln, "\r\n")
		if bytes.HasPrefix(t, []byte("-- ")) && bytes.HasSuffix(t, []byte(" --")) && len(t) >= 7 {
			name := strings.TrimSpace(string(t[3 : len(t)-3]))
			out = append(out, corpusFile{name: name})
			cur = len(out) - 1
			continue
		}
		if cur >= 0 {
			out[cur].src = append(out[cur].src, ln...)
		}
	}
	return out
}

func loadCorpus() (files []corpusFile, source string) {
	var plain, txtars []string
	for _, root := range []string{repoRoot() + "/cue/testdata", repoRoot() + "/doc"} {
		filepath.WalkDir(root, func(p string, d fs.DirEntry, err error) error {
			if err != nil || d.IsDir() {
				return nil
			}
			switch filepath.Ext(p) {
			case ".cue":
				plain = append(plain, p)
			case ".txtar":
				txtars = append(txtars, p)
			}
			return nil
		})
	}
	sort.Strings(plain)
	sort.Strings(txtars)
	seen := map[string]bool{}
	addFile := func(name string, src []byte) {
		if len(src) == 0 || len(src) > maxCorpusSize || seen[string(src)] {
			return
		}
		seen[string(src)] = true
		files = append(files, corpusFile{name, src})
	}
	for _, p := range plain {
		if b, err := os.ReadFile(p); err == nil {
			addFile(p, b)
		}
	}
	source = fmt.Sprintf("%d plain .cue files under /repo/cue/testdata and /repo/doc", len(files))
	if len(files) < 50 {
		// Fallback: the *.cue sections of the txtar archives (also the
		// formatter's test archives, which are comment-heavy).
		more, _ := filepath.Glob(repoRoot() + "/cue/format/testdata/*.txtar")
		sort.Strings(more)
		txtars = append(txtars, more...)
		n0 := len(files)
		for _, p := range txtars {
			b, err := os.ReadFile(p)
			if err != nil {
				continue
			}
			for _, s := range parseTxtar(b) {
				if strings.HasSuffix(s.name, ".cue") {
					addFile(p+"#"+s.name, s.src)
				}
			}
		}
		source += fmt.Sprintf("; + %d distinct *.cue sections (<= %d bytes) of %d txtar archives under /repo/cue/testdata/** and /repo/cue/format/testdata", len(files)-n0, maxCorpusSize, len(txtars))
	}
	return files, source
}

// ---------------------------------------------------------------------------
// Mutations

var insertAlphabet = func() []string {
	var a []string
	for _, c := range "\"'#\\(){}[]:,.\n\r\t 0123456789_eE+-xXbo?!*|&=<>~/@$" {
		a = append(a, string(c))
	}
	a = append(a, "\x00", "\xff", "\xc0\x80", "\xef\xbb\xbf", "\xfe\xff", "\u2028", "\xed\xa0\x80",
		"\"\"\"", "'''", "\\(", "#\"", "\"#", "//", "...", "_|_", "\r\n", "\\u", "\\U", "\\x")
	return a
}()

var soupTokens = []string{
	"for", "in", "if", "let", "try", "else", "otherwise", "fallback", "func", "import", "package",
	"null", "true", "false", "_|_", "_", "a", "b", "x", "#D", "_h", "_#x", "__x", "$x", "string", "int",
	`"s"`, `'b'`, `#"x"#`, "\"\"\"\n  m\n  \"\"\"", `"a\(b)c"`, `"\(`, `)"`, `#"r\#(x)"#`, "'''\n\tq\n\t'''",
	"1", "0", "0x1F", "1.5", "1e9", "1Ki", ".5", "0b1", "0o7", "1_0", "01",
	"+", "-", "*", "/", "&", "|", "&&", "||", "==", "!=", "<", "<=", ">", ">=", "=~", "!~", "!", "=", ":",
	"?", ",", ".", "...", "(", ")", "[", "]", "{", "}", "~", "@a(b)", "@a(", "// c\n", "//\n", ";", "<-", "..",
	"a:", "b: 1", "[x]:", "{a: 1}", "[1, 2]", "x.y", "f(1)", "a[0]", "a[1:2]", "X=a", "a~X", "a~(K,V)", "a~", "a~(", "a~(K", "a~(K,", "a~(K,V", "[x]~X:",
	"if true {}", "for k, v in x {}", "let y = 1", "func(int, string): int", "func(", "try x = a.b?", "a?.b", "a...", "@experiment(aliasv2)", "@experiment(try)", "@experiment(explicitopen)",
}

var soupSpace = []string{" ", " ", " ", "", "\n", "\n", "\t", "\r\n", "  ", ", ", "\n\n"}

type parseInput struct {
	kind string
	src  []byte
}

func clampWindow(src []byte, at int) ([]byte, int) {
	const win = 4096
	if len(src) <= win {
		return src, at
	}
	lo := at - win/2
	if lo < 0 {
		lo = 0
	}
	hi := lo + win
	if hi > len(src) {
		hi = len(src)
		lo = hi - win
	}
	return src[lo:hi], at - lo
}

const expPrefix = "@experiment(explicitopen)\n@experiment(aliasv2)\n@experiment(try)\n"

func tokenSoup(r *common.Rng) []byte {
	n := 1 + r.Intn(40)
	var b []byte
	if r.Chance(1, 3) {
		// file-level experiments switch on postfix aliases, try clauses and postfix "..."
		b = append(b, expPrefix...)
	}
	for i := 0; i < n; i++ {
		b = append(b, common.Pick(r, soupTokens)...)
		b = append(b, common.Pick(r, soupSpace)...)
	}
	return b
}

func deepNest(r *common.Rng, depth int) []byte {
	open := common.Pick(r, []string{"(", "[", "{a:", "-", "!", "[{a:(", "a&(", "f(", "\"\\("})
	closeOf := map[string]string{"(": ")", "[": "]", "{a:": "}", "-": "", "!": "", "[{a:(": ")}]", "a&(": ")", "f(": ")", "\"\\(": ")\""}
	var b []byte
	for i := 0; i < depth; i++ {
		b = append(b, open...)
	}
	b = append(b, "1"...)
	if r.Chance(3, 4) {
		c := closeOf[open]
		for i := 0; i < depth; i++ {
			b = append(b, c...)
		}
	}
	return b
}

var mutationKinds = []string{"flip", "delete", "insert", "dup-chunk", "truncate", "splice", "token-soup", "multi", "deep-nest", "crlf", "exp-prefix"}

func mutateOnce(r *common.Rng, kind string, src []byte, corpus []corpusFile) []byte {
	out := append([]byte(nil), src...)
	n := len(out)
	switch kind {
	case "flip":
		if n == 0 {
			return out
		}
		i := r.Intn(n)
		if r.Bool() {
			out[i] ^= 1 << uint(r.Intn(8))
		} else {
			s := common.Pick(r, insertAlphabet)
			out[i] = s[0]
		}
	case "delete":
		if n == 0 {
			return out
		}
		i := r.Intn(n)
		k := 1
		if r.Chance(1, 3) {
			k = 1 + r.Intn(8)
		}
		if i+k > n {
			k = n - i
		}
		out = append(out[:i], out[i+k:]...)
	case "insert":
		i := r.Intn(n + 1)
		s := common.Pick(r, insertAlphabet)
		if r.Chance(1, 4) {
			s += common.Pick(r, insertAlphabet)
		}
		out = append(out[:i], append([]byte(s), out[i:]...)...)
	case "dup-chunk":
		if n == 0 {
			return out
		}
		i := r.Intn(n)
		k := 1 + r.Intn(64)
		if i+k > n {
			k = n - i
		}
		j := r.Intn(n + 1)
		chunk := append([]byte(nil), out[i:i+k]...)
		out = append(out[:j], append(chunk, out[j:]...)...)
	case "truncate":
		out = out[:r.Intn(n+1)]
	case "splice":
		o := corpus[r.Intn(len(corpus))].src
		if len(o) == 0 {
			return out
		}
		i := r.Intn(len(o))
		k := 1 + r.Intn(128)
		if i+k > len(o) {
			k = len(o) - i
		}
		j := r.Intn(n + 1)
		chunk := append([]byte(nil), o[i:i+k]...)
		if r.Bool() {
			out = append(out[:j], append(chunk, out[j:]...)...)
		} else {
			e := j + k
			if e > n {
				e = n
			}
			out = append(out[:j], append(chunk, out[e:]...)...)
		}
	}
	return out
}

func genMutant(r *common.Rng, corpus []corpusFile) parseInput {
	kind := common.Pick(r, mutationKinds)
	// weights: soups and deep nests are rarer than byte-level mutations
	if (kind == "deep-nest" && !r.Chance(1, 4)) || (kind == "token-soup" && !r.Chance(2, 3)) {
		kind = common.Pick(r, mutationKinds[:6])
	}
	switch kind {
	case "token-soup":
		return parseInput{kind, tokenSoup(r)}
	case "deep-nest":
		return parseInput{kind, deepNest(r, 2+r.Intn(400))}
	}
	base := corpus[r.Intn(len(corpus))].src
	if len(base) > 4096 {
		base, _ = clampWindow(base, r.Intn(len(base)))
	}
	if kind == "crlf" {
		out := bytes.ReplaceAll(bytes.ReplaceAll(base, []byte("\r\n"), []byte("\n")), []byte("\n"), []byte("\r\n"))
		if r.Chance(1, 3) {
			out = mutateOnce(r, common.Pick(r, mutationKinds[:6]), out, corpus)
		}
		return parseInput{kind, out}
	}
	if kind == "exp-prefix" {
		out := mutateOnce(r, common.Pick(r, mutationKinds[:6]), base, corpus)
		return parseInput{kind, append([]byte(expPrefix), out...)}
	}
	if kind == "multi" {
		out := base
		k := 2 + r.Intn(4)
		for i := 0; i < k; i++ {
			out = mutateOnce(r, common.Pick(r, mutationKinds[:6]), out, corpus)
		}
		return parseInput{kind, out}
	}
	return parseInput{kind, mutateOnce(r, kind, base, corpus)}
}

// ---------------------------------------------------------------------------
// PART B: three-way agreement

type twCase struct {
	kind    string
	lit     string
	form    string // str-form only: the literal.Form expression
	content string // str-form only: the quoted content
}

type twResult struct {
	verdict  string // e.g. "SUP", "S-P", "-!-" ('!' == Go panic in that component)
	skipped  string // excluded before comparison (class name) or ""
	class    string // excluded / known class for a disagreement, or "" when agreeing
	known    bool   // class is a known candidate (defect candidate), not a contract difference
	untri    bool   // untriaged disagreement
	what     string
	numKind  bool // a number kind check was made
	formChk  bool
	crlfChk  bool
	rawUDiff bool
}

func isNumLit(L string) bool {
	return len(L) > 0 && (L[0] >= '0' && L[0] <= '9' || L[0] == '.')
}

func leadingHashes(L string) int {
	n := 0
	for n < len(L) && L[n] == '#' {
		n++
	}
	return n
}

func isMultiLit(L string) bool {
	h := leadingHashes(L)
	s := L[h:]
	return len(s) > 3 && (s[0] == '"' || s[0] == '\'') && s[1] == s[0] && s[2] == s[0] && s[3] != '#'
}

func scanVerdict(L string, num bool) (ok bool, tok token.Token, interp, panicked bool) {
	_, panicked, _ = guarded(func() {
		f := token.NewFile("x.cue", -1, len(L))
		var s scanner.Scanner
		nerr := 0
		s.Init(f, []byte(L), func(token.Pos, string, []interface{}) { nerr++ }, 0)
		pos, t, lit := s.Scan()
		tok = t
		if t == token.INTERPOLATION {
			interp = true
			return
		}
		if num {
			if t != token.INT && t != token.FLOAT {
				return
			}
		} else if t != token.STRING {
			return
		}
		if pos.Offset() != 0 || !(lit == L || (!num && isMultiLit(L) && lit == stripCRs(L))) {
			return
		}
		_, t2, l2 := s.Scan()
		if t2 != token.COMMA || l2 != "\n" {
			return
		}
		_, t3, _ := s.Scan()
		if t3 != token.EOF {
			return
		}
		ok = nerr == 0 && s.ErrorCount == 0
	})
	if panicked {
		ok = false
	}
	return
}

func unquoteVerdict(L string, num bool) (ok, panicked, isInt bool, errText string) {
	_, panicked, _ = guarded(func() {
		if num {
			var info literal.NumInfo
			err := literal.ParseNum(L, &info)
			ok = err == nil
			isInt = info.IsInt()
			if err != nil {
				errText = err.Error()
			}
		} else {
			_, err := literal.Unquote(L)
			ok = err == nil
			if err != nil {
				errText = err.Error()
			}
		}
	})
	if panicked {
		ok = false
	}
	return
}

func parseVerdict(L string, num bool) (ok, panicked bool) {
	_, panicked, _ = guarded(func() {
		e, err := parser.ParseExpr("x.cue", L)
		if err != nil {
			return
		}
		b, isLit := e.(*ast.BasicLit)
		if !isLit {
			return
		}
		if num {
			if b.Kind != token.INT && b.Kind != token.FLOAT {
				return
			}
		} else if b.Kind != token.STRING {
			return
		}
		ok = b.Pos().Offset() == 0 && (b.Value == L || (!num && isMultiLit(L) && b.Value == stripCRs(L)))
	})
	if panicked {
		ok = false
	}
	return
}

func vch(ok, panicked bool, c byte) byte {
	if panicked {
		return '!'
	}
	if ok {
		return c
	}
	return '-'
}

var (
	reUOverflow      = regexp.MustCompile(`\\#*U[89a-fA-F][0-9a-fA-F]{7}`)
	reSurrogate      = regexp.MustCompile(`\\#*(u[dD][89a-fA-F][0-9a-fA-F]{2}|U0000[dD][89a-fA-F][0-9a-fA-F]{2})`)
	reSIFraction     = regexp.MustCompile(`^([0-9_]*)\.([0-9_]*)([KMGTP])(i?)$`)
	reZeroUnderscore = regexp.MustCompile(`^0_[0-9_]*[.eE]`)
	reCRInIntro      = regexp.MustCompile(`\\#*\r+#`)
	reCRLeadingWS    = regexp.MustCompile(`\n[ \t]*\r`)
)

// hasEscape reports whether L (with h leading hashes) contains the escape
// introducer `\` + h*'#' followed by one of the bytes in set.
func hasEscape(L string, h int, set string) bool {
	intro := "\\" + strings.Repeat("#", h)
	for i := 0; ; {
		j := strings.Index(L[i:], intro)
		if j < 0 {
			return false
		}
		k := i + j + len(intro)
		if k < len(L) && strings.IndexByte(set, L[k]) >= 0 {
			return true
		}
		i = i + j + 1
	}
}

// unicodeSpaceClosingIndent: multi-line literal whose closing line (between
// the last newline and the closing quotes) contains a rune other than ' ' and
// '\t' for which unicode.IsSpace holds.
func unicodeSpaceClosingIndent(L string, h int) bool {
	if !isMultiLit(L) || len(L) < 2*(h+3)+1 {
		return false
	}
	end := len(L) - h - 3
	if L[end:] != L[h:h+3]+strings.Repeat("#", h) {
		return false
	}
	i := strings.LastIndexByte(L[:end], '\n')
	if i < 0 {
		return false
	}
	found := false
	for _, r := range L[i+1 : end] {
		if r == ' ' || r == '\t' {
			continue
		}
		if !unicode.IsSpace(r) {
			return false
		}
		found = true
	}
	return found
}

// closingDelimInside: multi-line literal containing newline, blanks, then the
// closing delimiter (three quotes + h hashes) somewhere before the end.
func closingDelimInside(L string, h int) bool {
	if !isMultiLit(L) {
		return false
	}
	L = stripCRs(L)
	delim := L[h:h+3] + strings.Repeat("#", h)
	for i := 0; i < len(L); i++ {
		if L[i] != '\n' {
			continue
		}
		j := i + 1
		for j < len(L) && (L[j] == ' ' || L[j] == '\t') {
			j++
		}
		if strings.HasPrefix(L[j:], delim) && j+len(delim) < len(L) {
			return true
		}
	}
	return false
}

// hashStringTwoQuotes: h >= 1 hashes, then three equal quote characters NOT
// followed by a newline (so not a multi-line opener), and the literal ends
// with quote + h hashes: a single-line hash string whose content starts with
// two quote characters.
func hashStringTwoQuotes(L string, h int) bool {
	if h < 1 || len(L) < 2*h+4 {
		return false
	}
	q := L[h]
	if (q != '"' && q != '\'') || L[h+1] != q || L[h+2] != q {
		return false
	}
	if c := L[h+3]; c == '\n' || c == '\r' {
		return false
	}
	return strings.HasSuffix(L, string(q)+strings.Repeat("#", h))
}

// siFractionNotIntegral: mantissa with '.' and an SI/IEC multiplier whose
// scaled value is not an integer.
func siFractionNotIntegral(L string) bool {
	m := reSIFraction.FindStringSubmatch(L)
	if m == nil {
		return false
	}
	ip := strings.ReplaceAll(m[1], "_", "")
	fp := strings.ReplaceAll(m[2], "_", "")
	if ip == "" {
		ip = "0"
	}
	v, ok := new(big.Rat).SetString(ip + "." + fp + "0")
	if !ok {
		return false
	}
	exp := strings.Index("KMGTP", m[3]) + 1
	base := big.NewInt(1000)
	if m[4] == "i" {
		base = big.NewInt(1024)
	}
	mul := new(big.Int).Exp(base, big.NewInt(int64(exp)), nil)
	v.Mul(v, new(big.Rat).SetInt(mul))
	return !v.IsInt()
}

// hasUnmatchedSurrogate tokenises the escapes of the literal L (h hashes) left
// to right, the way unquoteChar does: a backslash followed by exactly h hashes
// introduces an escape that consumes the next character (so in `\\uD83D` the
// second backslash is escaped and uD83D is plain text), `u` takes four and `U`
// eight hex digits. It reports whether some escaped surrogate half
// (D800-DFFF) is NOT part of a well-formed pair (a high half directly followed
// by an escaped low half). Only such unmatched halves are a legitimate S-P
// difference; a well-formed pair must be accepted by all three components.
func hasUnmatchedSurrogate(L string, h int) bool {
	hexVal := func(t string) (int, bool) {
		v, err := strconv.ParseUint(t, 16, 64)
		if err != nil || strings.ContainsAny(t, "+-_") {
			return 0, false
		}
		return int(v), true
	}
	i := h // skip the opening hashes; quote characters are ordinary tokens here
	pendingHigh, unmatched := false, false
	other := func() {
		if pendingHigh {
			unmatched = true
		}
		pendingHigh = false
	}
	for i < len(L) {
		if L[i] != '\\' {
			other()
			i++
			continue
		}
		k := i + 1
		for n := 0; n < h && k < len(L) && L[k] == '#'; n++ {
			k++
		}
		if k-(i+1) != h || k >= len(L) {
			other() // a literal backslash
			i++
			continue
		}
		n := 0
		switch L[k] {
		case 'u':
			n = 4
		case 'U':
			n = 8
		}
		if n == 0 || k+1+n > len(L) {
			other() // some other escape: it consumes the escaped character
			i = k + 1
			continue
		}
		v, ok := hexVal(L[k+1 : k+1+n])
		if !ok {
			other()
			i = k + 1
			continue
		}
		i = k + 1 + n
		switch {
		case 0xD800 <= v && v < 0xDC00:
			other()
			pendingHigh = true
		case 0xDC00 <= v && v < 0xE000:
			if pendingHigh {
				pendingHigh = false
			} else {
				unmatched = true
			}
		default:
			other()
		}
	}
	other()
	return unmatched
}

type exclClass struct {
	name     string
	known    bool
	verdicts []string // verdict triples this class explains
	why      string
	pred     func(L string, num bool, h int) bool
}

const crLeadingWhy = "multi-line literal with a CR inside the leading white space of a line, typically an EMPTY LINE OF A CRLF FILE (\\n\\r\\n) inside an indented multi-line string: scanner.scanString skips '\\r' with `continue` but the slice src[lineStart:offset-1] it later records as the line's white-space prefix still contains the CR, so minLineWS becomes \"\\r\"/\"\" and the closing indentation no longer matches (\"non-matching whitespace for multiline string\"); literal.Unquote on the CR-stripped text accepts. spec.md: CR inside string literals is discarded"

// The triage table. Order matters: the first class whose predicate holds AND
// which explains the observed verdict triple wins. Anything left is an
// untriaged disagreement.
var exclClasses = []exclClass{
	{
		name:     "surrogate-escape",
		verdicts: []string{"S-P"},
		why:      `\uD800-\uDFFF escapes: the scanner only checks x <= unicode.MaxRune (TODO in scanEscape), literal.Unquote pairs surrogates and rejects unmatched halves (value-level rule; spec.md lists "\uD800" as illegal)`,
		pred: func(L string, num bool, h int) bool {
			return !num && hasUnmatchedSurrogate(L, h)
		},
	},
	{
		name:     "bom-inside-literal",
		verdicts: []string{"-U-"},
		why:      "U+FEFF after offset 0 is a source-text error of the scanner (illegal byte order mark); literal.Unquote works on an isolated literal and has no such rule",
		pred: func(L string, num bool, h int) bool {
			return !num && strings.Contains(L[1:], "\ufeff")
		},
	},
	{
		name: "escaped-newline-scanner-rejects", known: true,
		verdicts: []string{"-U-"},
		why:      `spec.md: "A backslash at the end of a line elides the line terminator"; literal.Unquote implements it (escapedNewline) but scanner.scanEscape has no case for '\n' and reports "unknown escape sequence", so the parser rejects such multi-line strings`,
		pred: func(L string, num bool, h int) bool {
			return !num && isMultiLit(L) && (hasEscape(L, h, "\n") || hasEscape(stripCRs(L), h, "\n"))
		},
	},
	{
		name:     "si-fraction-not-integral",
		known:    true,
		verdicts: []string{"S-P"},
		why:      `spec.md: "When multiplying a fraction by a multiplier, the result is truncated towards zero" (1.3Ki == 1331); literal.ParseNum rejects with "number cannot be represented as int" while scanner and parser accept the token`,
		pred:     func(L string, num bool, h int) bool { return num && siFractionNotIntegral(L) },
	},
	{
		name:     "cr-splits-escape-introducer",
		verdicts: []string{"S-P"},
		why:      "multi-line literal with a CR between the backslash/hashes of an escape introducer (e.g. \\#<CR>## in a ###-string): the scanner sees no escape (the hash run is interrupted) and accepts, then strips the CR, and the stripped text handed to literal.Unquote contains a complete introducer followed by an invalid escape. Pathological CR placement; the scanner strips CRs only after tokenizing",
		pred: func(L string, num bool, h int) bool {
			return !num && h > 0 && isMultiLit(L) && reCRInIntro.MatchString(L)
		},
	},
	{
		name: "scanner-multiline-opener-swallows-hashes", known: true,
		verdicts: []string{"S-P"},
		why:      "h >= 2 hashes, three quotes, then 1..h-1 hashes and a newline, e.g. ##\"\"\"#<LF>\"\"\"##: Scanner.Scan (case 2 of consumeQuotes) calls scanHashes to test for the #\"\"\"# form, which consumes the partial hash run, and then continues as if a multi-line opener followed by newline had been seen: scanner and parser accept the text as one STRING token although a multi-line opener must be followed directly by a newline; literal.Unquote (ParseQuotes: qqq followed by '#' is single-line) rejects it, so the error only surfaces after parsing",
		pred: func(L string, num bool, h int) bool {
			if num || h < 2 || len(L) < h+5 || L[h] != L[h+1] || L[h] != L[h+2] || (L[h] != '"' && L[h] != '\'') {
				return false
			}
			k := 0
			for h+3+k < len(L) && L[h+3+k] == '#' {
				k++
			}
			rest := L[h+3+k:]
			return k >= 1 && k < h && (strings.HasPrefix(rest, "\n") || strings.HasPrefix(rest, "\r\n"))
		},
	},
	{
		name:     "unquote-closing-delim-after-other-indent",
		verdicts: []string{"-U-"},
		why:      "multi-line text with a closing delimiter (three quotes + hashes) at the start of a line after white space that differs from the final closing indentation, followed by more text: the scanner ends the token there (so the text is not ONE token: trailing garbage), literal.Unquote only recognises the delimiter after exactly the closing indentation and otherwise reads the quotes as content; it is lenient on text the scanner never produces as a single token",
		pred:     func(L string, num bool, h int) bool { return !num && closingDelimInside(L, h) },
	},
	{
		name:     "unquote-unicode-space-closing-indent",
		verdicts: []string{"-U-"},
		why:      "literal.ParseQuotes finds the closing-line indentation of a multi-line literal with unicode.IsSpace (so \\v, \\f, U+0085, U+00A0, U+2028 ... count as indentation) while the scanner (and spec.md: white space is space, tab, CR, newline) only allows ' ' and '\\t' before the closing quotes; the parser never hands such text to Unquote",
		pred:     func(L string, num bool, h int) bool { return !num && unicodeSpaceClosingIndent(L, h) },
	},
	{
		name: "hash-string-content-starts-with-two-quotes", known: true,
		verdicts: []string{"-U-"},
		why:      "a single-line #-delimited literal whose content starts with two quote characters, e.g. ##\"\"\"#\"## (content \"\"#): the scanner reads the three quotes as a multi-line opener and fails, literal.ParseQuotes treats qqq followed by '#' as single-line and accepts. Form.Quote does not produce such literals (fix autohash: text starting with two quotes gets regular quoting)",
		pred:     func(L string, num bool, h int) bool { return !num && hashStringTwoQuotes(L, h) && L[h+3] == '#' },
	},
	{
		name: "scanner-rejects-zero-underscore-float", known: true,
		verdicts: []string{"-U-"},
		why:      "minor: spec.md float_lit = decimals \".\" [decimals] [exponent] | decimals exponent with decimals = decimal_digit { [\"_\"] decimal_digit }, so 0_1e1 and 0_0. are float literals (like 072.40); scanner.scanNumber only continues after a leading '0' when the next byte is a digit ('_' is not), so it lexes INT 0 followed by IDENT _1e1; literal.ParseNum accepts",
		pred:     func(L string, num bool, h int) bool { return num && reZeroUnderscore.MatchString(L) },
	},
	{
		name:     "parsenum-dot-underscore",
		verdicts: []string{"-U-"},
		why:      "ParseNum is lenient on spellings the scanner never hands to it: \"._5\" (the scanner lexes '.' '_5' as PERIOD IDENT)",
		pred:     func(L string, num bool, h int) bool { return num && strings.HasPrefix(L, "._") },
	},
}

func threeway(L string, kind string) twResult {
	return threewayCase(twCase{kind: kind, lit: L})
}

func threewayCase(c twCase) twResult {
	L, kind := c.lit, c.kind
	num := isNumLit(L)
	var r twResult
	h := 0
	if !num {
		h = leadingHashes(L)
	}
	sOK, _, interp, sPanic := scanVerdict(L, num)
	if !num && (interp || hasEscape(L, h, "(")) {
		// An interpolation is not a single token; literal.Unquote on the whole
		// text is not meaningful. Excluded before comparison.
		r.skipped = "interpolation"
		r.verdict = "skip"
		return r
	}
	uL := L
	crlfDiff := false
	if !num && isMultiLit(L) && strings.Contains(L, "\r") {
		if sOK {
			// The scanner accepted the token and stripped the CRs: the parser
			// pipeline hands literal.Unquote the CR-stripped text. (When the
			// scanner rejects, U is literal.Unquote on the raw text.)
			uL = stripCRs(L)
			rawOK, rawPanic, _, _ := unquoteVerdict(L, num)
			strOK, strPanic, _, _ := unquoteVerdict(uL, num)
			r.rawUDiff = rawOK != strOK || rawPanic != strPanic
		}
		if strings.Count(L, "\r") == strings.Count(L, "\r\n") {
			// CRLF invariance of the scanner: all CRs are CRLF line ends.
			r.crlfChk = true
			s2, _, _, _ := scanVerdict(strings.ReplaceAll(L, "\r\n", "\n"), num)
			crlfDiff = s2 != sOK
		}
	}
	uOK, uPanic, isInt, uErr := unquoteVerdict(uL, num)
	pOK, pPanic := parseVerdict(L, num)
	r.verdict = string([]byte{vch(sOK, sPanic, 'S'), vch(uOK, uPanic, 'U'), vch(pOK, pPanic, 'P')})

	if crlfDiff {
		r.what = fmt.Sprintf("scanner verdict changes when CRLF is replaced by LF (with CRLF: ok=%v)", sOK)
		if reCRLeadingWS.MatchString(L) {
			r.class, r.known = "scanner-cr-in-line-leading-whitespace", true
			r.what += "; " + crLeadingWhy
		} else {
			r.class, r.untri = "crlf-sensitivity", true
		}
		return r
	}
	agree := r.verdict == "SUP" || r.verdict == "---"
	if kind == "str-form" && !agree {
		// the output of literal.Form.Quote must be accepted by all three components
		r.formChk = true
		r.untri = true
		r.class = "quoted-form-rejected"
		r.what = fmt.Sprintf("literal.%s.Quote(%q) == %q: verdicts %s (unquote error: %s)", c.form, c.content, L, r.verdict, uErr)
		return r
	}
	if agree {
		if num && r.verdict == "SUP" {
			// extra: token kind agreement INT/FLOAT <-> NumInfo.IsInt
			r.numKind = true
			_, tok, _, _ := scanVerdict(L, num)
			if (tok == token.INT) != isInt {
				r.untri = true
				r.class = "num-kind-mismatch"
				r.what = fmt.Sprintf("scanner token %v but NumInfo.IsInt()=%v", tok, isInt)
			}
		}
		if kind == "str-form" {
			// extra: the output of literal.Form.Quote must be a valid literal
			r.formChk = true
			if r.verdict != "SUP" {
				r.what = fmt.Sprintf("literal.%s.Quote(%q) == %q is rejected by scanner, Unquote and parser (%s)", c.form, c.content, L, uErr)
				r.untri = true
				r.class = "quoted-form-rejected"
			}
		}
		return r
	}
	for i := range exclClasses {
		c := &exclClasses[i]
		if !c.pred(L, num, h) {
			continue
		}
		for _, v := range c.verdicts {
			if v == r.verdict {
				r.class = c.name
				r.known = c.known
				r.what = c.why
				return r
			}
		}
	}
	r.untri = true
	r.class = "disagree:" + r.verdict
	r.what = fmt.Sprintf("scanner/Unquote|ParseNum/ParseExpr verdicts %s (unquote error: %s)", r.verdict, uErr)
	return r
}

// --- literal generators

var advPieces = []string{
	`"`, `""`, `"""`, `'`, `'''`, `#`, `##`, `"#`, `'#`, `"##`, `#"`, `\`, `\\`, `\#`, `\(`, `\#(`, "\n", "\n", "\r", "\r\n",
	"\t", " ", "  ", "\t ", " \t", "\x00", "\x01", "\x7f", "\x1b", "\xff", "\xc0\x80", "\xed\xa0\x80", "\u2028", "\u2029",
	"\ufeff", "\u00a0", "\u0085", "\u00e9", "\u65e5\u672c", "\U0001f600", "\ufffd", "a", "abc", "$", "(", ")", "x)", "0", "u1234", "n", "/",
	"\n\t", "\n\t\t", "\n  ", "\n\n", "\v", "\f",
}

func advContent(r *common.Rng) string {
	n := r.Intn(9)
	var b strings.Builder
	if r.Chance(1, 8) {
		b.WriteString(`""`)
	}
	for i := 0; i < n; i++ {
		b.WriteString(common.Pick(r, advPieces))
	}
	if r.Chance(1, 8) {
		b.WriteString(`\`)
	}
	return b.String()
}

func randForm(r *common.Rng) (literal.Form, string) {
	f, name := literal.String, "String"
	if r.Bool() {
		f, name = literal.Bytes, "Bytes"
	}
	switch r.Intn(4) {
	case 1:
		n := r.Intn(4)
		f = f.WithTabIndent(n)
		name += fmt.Sprintf(".WithTabIndent(%d)", n)
	case 2:
		n := r.Intn(4)
		f = f.WithOptionalTabIndent(n)
		name += fmt.Sprintf(".WithOptionalTabIndent(%d)", n)
	}
	if r.Chance(1, 3) {
		f = f.WithOptionalHashes()
		name += ".WithOptionalHashes()"
	}
	if r.Chance(1, 4) {
		f = f.WithASCIIOnly()
		name += ".WithASCIIOnly()"
	}
	if r.Chance(1, 4) {
		f = f.WithGraphicOnly()
		name += ".WithGraphicOnly()"
	}
	return f, name
}

var escPieces = []string{
	`\n`, `\t`, "\\" + "u1234", `\U0010FFFF`, `\x41`, `\101`, `\(`, `\\`, `\"`, `\'`, `\/`, `\a`, `\b`, `\f`, `\r`, `\v`,
	`\uD800`, `\uDC00`, "\\" + "uD83D" + "\\" + "uDE00", `\uD83D`, `\U00110000`, `\UFFFFFFFF`, `\UFFFFFFFC`, `\UFFFFFFFE`, `\UFFFFFFFD`, `\U80000000`,
	`\U0000D800`, `\u12`, `\u12_4`, `\x4`, `\xZZ`, `\777`, `\400`, `\08`, `\0`, `\q`, `\`, "\\\n", "\\\r\n", `\ `,
	"\u00e9", `\U0001F600`, `\xff`, `\377`, `\000`, `\u0000`,
}

var plainPieces = []string{"a", "abc", " ", "\u00e9", "\u65e5", "x y", "#", "##", "0", "_", "\t", "$", "(", ")", "'", `"`, `""`, "''", "\r", "\u2028", "\ufeff", "\x00", "\xff", "\U0001f600"}

// handLit assembles #*"..."#* / multi-line literals with escapes, sometimes
// with wrong hash counts or wrong indentation.
func handLit(r *common.Rng) string {
	h := 0
	if r.Chance(1, 2) {
		h = 1 + r.Intn(3)
	}
	q := `"`
	if r.Chance(1, 3) {
		q = `'`
	}
	multi := r.Chance(1, 3)
	hashes := strings.Repeat("#", h)
	esc := func(e string) string {
		// place the hashes after the backslash of an escape
		if len(e) > 0 && e[0] == '\\' {
			eh := h
			if r.Chance(1, 10) {
				eh = r.Intn(4)
			}
			return `\` + strings.Repeat("#", eh) + e[1:]
		}
		return e
	}
	body := func() string {
		var b strings.Builder
		n := r.Intn(6)
		for i := 0; i < n; i++ {
			if r.Chance(3, 5) {
				b.WriteString(esc(common.Pick(r, escPieces)))
			} else {
				b.WriteString(common.Pick(r, plainPieces))
			}
		}
		return b.String()
	}
	closeH := h
	if r.Chance(1, 10) {
		closeH = r.Intn(4)
	}
	closing := strings.Repeat("#", closeH)
	if !multi {
		return hashes + q + body() + q + closing
	}
	q3 := q + q + q
	indent := common.Pick(r, []string{"", "", "\t", "  ", "\t\t", " \t", "\u2028", "\u00a0", "\v", "\r"})
	nl := "\n"
	if r.Chance(1, 6) {
		nl = "\r\n"
	}
	var b strings.Builder
	b.WriteString(hashes + q3)
	if h >= 1 && r.Chance(1, 10) {
		// a (partial) hash run between the opening quotes and the newline
		b.WriteString(strings.Repeat("#", 1+r.Intn(h)))
	}
	if !r.Chance(1, 15) {
		b.WriteString(nl)
	}
	lines := r.Intn(4)
	for i := 0; i < lines; i++ {
		ind := indent
		switch r.Intn(10) {
		case 0:
			ind = ""
		case 1:
			ind = indent + " "
		case 2:
			if len(indent) > 0 {
				ind = indent[:len(indent)-1]
			}
		}
		ln := body()
		if r.Chance(1, 6) {
			ln = "" // empty / whitespace-only line
		}
		if r.Chance(1, 12) {
			ln += q3 // closing delimiter in the middle of a line
		}
		b.WriteString(ind + ln + nl)
	}
	if r.Chance(1, 15) {
		// closing quote not on its own line
		s := b.String()
		b.Reset()
		b.WriteString(strings.TrimSuffix(strings.TrimSuffix(s, "\n"), "\r"))
	}
	cind := indent
	if r.Chance(1, 8) {
		cind = common.Pick(r, []string{"", " ", "\t", "\t\t", "\r", "\t\r"})
	}
	b.WriteString(cind + q3 + closing)
	return b.String()
}

var numValid = []string{
	"0", "1", "12_3", "0x1F", "0X1f", "0b101", "0o17", "1.5", ".5", "1e9", "1.5e-3", "1K", "1Ki", "1.5M", "0.1Gi", "0.5Ki",
	"1E6", "1.e+0", "0.", "1.", "072.40", "6.67428e-11", ".12345E+5", "42", "1.5G", "1.3Ki", "0xBad_Face", "0o755", "0b0101_0001",
	"170_141_183_460_469_231_731_687_303_715_884_105_727", "0M", "0Ki", "1P", "1Pi", "1T", "2.5Ti", "1_000.5", "1_0e1_0", "0e0", "0.0", "00.5",
	"1.25Ki", "0.001K", "0.0001K", ".5K", ".5Ki", "1.000K", "1e+9", "1e-9", "9_9", "0x0", "0b0", "0o0", "0.K", "1.K",
}

var numMalformed = []string{
	"01", "1__2", "1_", "0x", "1e", "1.2.3", "0b12", "1Kii", "1E", "1_000._5", "0B1", "0O7", "0x_1", "0xG", "1e+", "1e-", "1ee1",
	"1Ei", "1Z", "1Y", "1k", "1Ku", "1KK", "1iK", "0b", "0o", "0o8", "0_1", "0_", "00", "08", "1..2", "1...", "._5", ".e1", ".",
	"..", ".5.", "1e1e1", "1e1K", "1Ke1", "0x1.5", "0x1p3", "0b1e1", "1_e1", "1e_1", "1._", "1.5_", "0xK", "1 ", " 1", "1\n", "1\x00", "1\u0660",
	"1i", "0x1K", "0b1K", "0o1K", "1.5.K", "1K.", "1Ki5", "1e1_", "1__0.5", "1.0__0", "0..1", "1.e", "0e", "0.e", "0.e1", "0x1_", "0b_1",
}

func mutateLit(r *common.Rng, s string, alphabet []string) string {
	b := []byte(s)
	k := 1 + r.Intn(2)
	for i := 0; i < k; i++ {
		n := len(b)
		switch r.Intn(5) {
		case 0: // delete
			if n > 0 {
				j := r.Intn(n)
				b = append(b[:j], b[j+1:]...)
			}
		case 1: // insert
			j := r.Intn(n + 1)
			b = append(b[:j], append([]byte(common.Pick(r, alphabet)), b[j:]...)...)
		case 2: // replace
			if n > 0 {
				j := r.Intn(n)
				x := common.Pick(r, alphabet)
				b = append(b[:j], append([]byte(x), b[j+1:]...)...)
			}
		case 3: // duplicate a chunk
			if n > 0 {
				j := r.Intn(n)
				l := 1 + r.Intn(4)
				if j+l > n {
					l = n - j
				}
				c := append([]byte(nil), b[j:j+l]...)
				p := r.Intn(n + 1)
				b = append(b[:p], append(c, b[p:]...)...)
			}
		case 4: // truncate / drop the head
			if n > 0 {
				if r.Bool() {
					b = b[:r.Intn(n)]
				} else {
					b = b[r.Intn(n):]
				}
			}
		}
	}
	return string(b)
}

var strMutAlphabet = []string{`"`, `'`, `#`, `\`, "\n", "\r", "\t", " ", "(", ")", "\x00", "\xff", "\ufeff", "\u2028", "u", "U", "x", "0", "7", "8", "f", "F", "D", "d", "n", `""`, `\#`, "\r\n"}
var numMutAlphabet = []string{"0", "1", "7", "8", "9", "_", ".", "e", "E", "+", "-", "x", "X", "b", "o", "K", "M", "G", "T", "P", "i", "a", "f", "F", "\x00", " ", "Z", "k", "B", "O"}

func genLit(r *common.Rng) twCase {
	switch p := r.Intn(100); {
	case p < 28:
		f, name := randForm(r)
		content := advContent(r)
		return twCase{kind: "str-form", lit: f.Quote(content), form: name, content: content}
	case p < 50:
		return twCase{kind: "str-hand", lit: handLit(r)}
	case p < 72:
		var base string
		if r.Bool() {
			f, _ := randForm(r)
			base = f.Quote(advContent(r))
		} else {
			base = handLit(r)
		}
		return twCase{kind: "str-mut", lit: mutateLit(r, base, strMutAlphabet)}
	case p < 80:
		return twCase{kind: "num-valid", lit: common.Pick(r, numValid)}
	case p < 88:
		return twCase{kind: "num-malformed", lit: common.Pick(r, numMalformed)}
	default:
		base := common.Pick(r, numValid)
		if r.Chance(1, 4) {
			base = common.Pick(r, numMalformed)
		}
		return twCase{kind: "num-mut", lit: mutateLit(r, base, numMutAlphabet)}
	}
}

// ---------------------------------------------------------------------------
// PART C: identifier spellings: scanner / ast.IsValidIdent / parser agree

type idCase struct {
	kind string
	lit  string
}

type idResult struct {
	verdict string // 4 chars S I P F; '-' == no, '!' == Go panic
	class   string
	known   bool
	untri   bool
	what    string
}

func uc(cps ...rune) string { return string(cps) }

func idScan(L string) (ok, panicked bool) {
	_, panicked, _ = guarded(func() {
		f := token.NewFile("x.cue", -1, len(L))
		var s scanner.Scanner
		nerr := 0
		s.Init(f, []byte(L), func(token.Pos, string, []interface{}) { nerr++ }, 0)
		pos, t, lit := s.Scan()
		if t != token.IDENT || lit != L || pos.Offset() != 0 {
			return
		}
		_, t2, l2 := s.Scan()
		if t2 != token.COMMA || l2 != "\n" {
			return
		}
		if _, t3, _ := s.Scan(); t3 != token.EOF {
			return
		}
		ok = nerr == 0 && s.ErrorCount == 0
	})
	return ok && !panicked, panicked
}

func idValid(L string) (ok, panicked bool) {
	_, panicked, _ = guarded(func() { ok = ast.IsValidIdent(L) })
	return ok && !panicked, panicked
}

func idExpr(L string) (ok, panicked bool) {
	_, panicked, _ = guarded(func() {
		e, err := parser.ParseExpr("x.cue", L)
		if err != nil {
			return
		}
		id, isIdent := e.(*ast.Ident)
		ok = isIdent && id.Name == L && id.Pos().Offset() == 0
	})
	return ok && !panicked, panicked
}

func idField(L string) (ok, panicked bool) {
	_, panicked, _ = guarded(func() {
		f, err := parser.ParseFile("x.cue", L+": 1")
		if err != nil || f == nil || len(f.Decls) != 1 {
			return
		}
		fld, isField := f.Decls[0].(*ast.Field)
		if !isField {
			return
		}
		id, isIdent := fld.Label.(*ast.Ident)
		ok = isIdent && id.Name == L && id.Pos().Offset() == 0
	})
	return ok && !panicked, panicked
}

type idClass struct {
	name     string
	known    bool
	verdicts []string
	why      string
	pred     func(L string) bool
}

func isKeywordSpelling(L string) bool { return token.Lookup(L).IsKeyword() }

var idClasses = []idClass{
	{
		name:     "keyword-usable-as-identifier",
		verdicts: []string{"-IPF"},
		why:      "if else for in let try fallback otherwise func: the scanner returns the keyword token (not IDENT), ast.IsValidIdent has no keyword list, and the parser turns a keyword in operand or label position back into an *ast.Ident (parseKeyIdent / the ident fallbacks of parseComprehensionClauses, parseLetDecl, parseFunc)",
		pred: func(L string) bool {
			t := token.Lookup(L)
			return t.IsKeyword() && t != token.TRUE && t != token.FALSE && t != token.NULL
		},
	},
	{
		name:     "keyword-literal",
		verdicts: []string{"-I--"},
		why:      "null true false: keyword tokens that the parser turns into *ast.BasicLit (as operand and as label), never *ast.Ident; ast.IsValidIdent has no keyword list",
		pred: func(L string) bool {
			t := token.Lookup(L)
			return t == token.TRUE || t == token.FALSE || t == token.NULL
		},
	},
	{
		name:     "double-underscore-reserved-in-declarations",
		verdicts: []string{"SIP-"},
		why:      "identifiers starting with __ are scanned as IDENT, valid for ast.IsValidIdent and usable as a reference, but parser.checkDeclIdent rejects them wherever an identifier is declared (field label, let, alias, for): \"identifiers starting with '__' are reserved\"",
		pred:     func(L string) bool { return strings.HasPrefix(L, "__") },
	},
	{
		name:     "package-import-pseudo-keywords",
		verdicts: []string{"SIP-"},
		why:      "package and import are ordinary IDENT tokens, but at the start of a file parseFile reads them as the package clause / an import declaration, so `package: 1` and `import: 1` are not fields",
		pred:     func(L string) bool { return L == "package" || L == "import" },
	},
}

func identCheck(L string) idResult {
	var r idResult
	s, sp := idScan(L)
	i, ip := idValid(L)
	p, pp := idExpr(L)
	f, fp := idField(L)
	r.verdict = string([]byte{vch(s, sp, 'S'), vch(i, ip, 'I'), vch(p, pp, 'P'), vch(f, fp, 'F')})
	if r.verdict == "SIPF" || r.verdict == "----" {
		return r
	}
	for k := range idClasses {
		c := &idClasses[k]
		if !c.pred(L) {
			continue
		}
		for _, v := range c.verdicts {
			if v == r.verdict {
				r.class, r.known, r.what = c.name, c.known, c.why
				return r
			}
		}
	}
	r.untri = true
	r.class = "ident-disagree:" + r.verdict
	r.what = "scanner / ast.IsValidIdent / ParseExpr / ParseFile(L+\": 1\") verdicts " + r.verdict
	return r
}

// --- identifier generators

var idPlain = []string{"a", "foo_bar", "a1", "A", "x", "Foo", "camelCase", "a_", "a__b", "z9_", "x1y2", "ab", "i", "o", "e1", "x0"}
var idPrefixed = []string{"_", "_a", "_foo", "_1", "_0a", "#", "#a", "#Foo", "#_a", "#_", "_#", "_#a", "_#Foo", "_#_", "_#_a", "$", "$a", "a$", "a$b", "$$", "$1", "_$",
	"#$", "__", "__a", "__int", "___", "__#", "__#a", "_#0", "#0", "#1a", "_#1", "##", "#a#", "a#", "_a#b", "_|_", "_|", "|_", "_ |_", "#\"", "#'", "_#\"a\"", "#a.b"}
var idDigitFirst = []string{"1a", "0x", "9_", "1", "0", "1_a", "0b", "0o", "1e", "1K", "1Ki"}
var idInner = []string{"a#b", "a-b", "a.b", "a b", "a\tb", "a\nb", "a:b", "a,b", "a/b", "a?", "a!", "a~b", "a@b", "a=b", "a|b", "a&b", "a*b", "a+b", "a(b)", "a[0]", "a{}", "a\"b\"", "a'b'", "a\\b", "a//b", " a", "a ", "\ta", "a\n", "a\r", "\na", "a\r\n", "a;", "a..", "a..."}
var idKeywords = []string{"if", "for", "let", "in", "null", "true", "false", "import", "package", "func", "else", "try", "otherwise", "fallback",
	"If", "FOR", "iff", "for_", "_if", "#if", "_#for", "nulls", "True", "int", "string", "bool", "bytes", "number", "float", "uint", "int8", "uint64", "float32", "rune",
	"len", "close", "and", "or", "div", "mod", "quo", "rem", "__int", "__string", "self", "_self"}

var idUnicode = []string{
	uc(0xe9), "caf" + uc(0xe9), uc(0xe9) + "a", uc(0x65e5, 0x672c), uc(0x65e5) + "1", "a" + uc(0x65e5), // Latin-1 letter, CJK
	uc(0x3b1, 0x3b2), uc(0x3a9), "_" + uc(0x3b1), "#" + uc(0x3b1), "$" + uc(0x3b1), // Greek
	uc(0x663), "a" + uc(0x663), uc(0x663) + "a", "_" + uc(0x663), "#" + uc(0x663), "_#" + uc(0x663), uc(0xff11), "a" + uc(0xff11), // Arabic-Indic / fullwidth digits
	"e" + uc(0x301), uc(0x301) + "e", "a" + uc(0x200b), uc(0x200b), "a" + uc(0x200d) + "b", // combining mark, ZWSP, ZWJ
	uc(0x1f600), "a" + uc(0x1f600), uc(0xaa), uc(0xba), uc(0xb5), uc(0x2160), uc(0x2167) + "x", uc(0xb2), "a" + uc(0xb2), uc(0xbd), // ordinal indicators, micro, Roman numerals (Nl), superscript two (No), one half (No)
	uc(0x1d7d8), "a" + uc(0x1d7d8), uc(0x1d400), uc(0x2028), "a" + uc(0x2028), uc(0xa0) + "a", "a" + uc(0xa0), uc(0xfeff) + "a", "a" + uc(0xfeff), // math digits/letters, LS, NBSP, BOM
	uc(0xfffd), "a" + uc(0xfffd), uc(0x5f0), uc(0x1c5), uc(0x2b0), uc(0x5d0, 0x5d1), uc(0x203f), "a" + uc(0x203f) + "b", uc(0xff3f), // U+FFFD, Lt/Lm letters, Hebrew, connector punctuation
	uc(0x10ffff), uc(0xe000), uc(0x16ee), uc(0x3007), uc(0x9fa5),
}

var idBad = []string{"", "\x00", "a\x00", "\x00a", "a\x00b", "\xff", "a\xff", "\xffa", "\xc0\x80", "a\xc0\x80", "\xed\xa0\x80", "a\xed\xa0\x80", "\xe9", "a\xe9", "\xf4\x90\x80\x80",
	"\xe2\x82", "a\xe2\x82", "\x80", "\x7f", "a\x7f", "\x01", "a\x1b", "\xef\xbb\xbf", "\xef\xbb\xbfa", "\xef\xbb\xbf_", "@a", "@a()", "//a", "a//", "\"a\"", "'a'", "(a)", "[a]", "{a}", "-a", "!a", "*a", "a:", ":a", "a: b"}

var idMutAlphabet = []string{"_", "#", "$", "-", ".", "0", "1", "9", "a", "Z", " ", "\t", "\n", "\r", "\x00", "\xff", "|", ":", "\"", "'", "/", "@", "(", "?", "!", "~", "=",
	uc(0xe9), uc(0x663), uc(0x301), uc(0x200b), uc(0x65e5), uc(0x1f600), uc(0xfeff), uc(0x2028), uc(0xb2), uc(0x2160)}

func genIdent(r *common.Rng) idCase {
	pick := func(kind string, xs []string) idCase { return idCase{kind, common.Pick(r, xs)} }
	switch p := r.Intn(100); {
	case p < 10:
		return pick("plain", idPlain)
	case p < 24:
		return pick("prefixed", idPrefixed)
	case p < 29:
		return pick("digit-first", idDigitFirst)
	case p < 37:
		return pick("inner-punct", idInner)
	case p < 47:
		return pick("keyword", idKeywords)
	case p < 59:
		return pick("unicode", idUnicode)
	case p < 66:
		return pick("bad-bytes", idBad)
	case p < 69:
		// very long
		n := 200 + r.Intn(5000)
		b := []byte(strings.Repeat(common.Pick(r, []string{"a", "_", "a1", "x_", uc(0xe9), "$"}), n))
		pre := common.Pick(r, []string{"", "_", "#", "_#", "$", "__", "1"})
		s := pre + string(b)
		if r.Chance(1, 4) {
			s += common.Pick(r, []string{"-", "#", " ", "\x00", uc(0x301)})
		}
		return idCase{"long", s}
	case p < 80:
		// assembled: prefix + runs of identifier-ish pieces
		s := common.Pick(r, []string{"", "", "_", "#", "_#", "$", "__", "#_", "_$", "##", "_##", "#$"})
		k := r.Intn(4)
		for i := 0; i < k; i++ {
			s += common.Pick(r, []string{"a", "B", "_", "$", "0", "7", "x1", uc(0xe9), uc(0x663), uc(0x65e5), "if", "for", "null", "int", "#", uc(0x301), uc(0xb2)})
		}
		return idCase{"assembled", s}
	default:
		var pools = [][]string{idPlain, idPrefixed, idKeywords, idUnicode, idDigitFirst, idInner}
		base := common.Pick(r, common.Pick(r, pools))
		return idCase{"mutated", mutateLit(r, base, idMutAlphabet)}
	}
}

// canonicalIdents are checked on every seed before the generated cases.
var canonicalIdents = []string{"a", "_", "#", "_#", "$", "__", "__x", "_|_", "if", "for", "let", "in", "null", "true", "false", "import", "package", "func", "int", "__int", "1a", "_#0", "#0", "a-b", "a.b", ""}

type xIdents struct {
	Cases         int                       `json:"cases"`
	Verdicts      map[string]int            `json:"verdicts"`
	ByKind        map[string]map[string]int `json:"by_kind"`
	Excluded      map[string]*xExcl         `json:"excluded_classes"`
	Disagreements int                       `json:"disagreements"`
	Legend        string                    `json:"legend"`
}

func (rep *xReport) addC(c idCase, r idResult) {
	id := &rep.Idents
	id.Cases++
	id.Verdicts[r.verdict]++
	bk := id.ByKind[c.kind]
	if bk == nil {
		bk = map[string]int{}
		id.ByKind[c.kind] = bk
	}
	bk[r.verdict]++
	switch {
	case r.untri:
		id.Disagreements++
		rep.FailuresTotal++
		rep.FailureClass[r.class]++
		if len(rep.Failures) < 20 {
			class := r.class
			w := shrink([]byte(c.lit), 300, func(b []byte) bool {
				x := identCheck(string(b))
				return x.untri && x.class == class
			})
			rep.Failures = append(rep.Failures, xFailure{Part: "C", Class: r.class, What: r.what + " for " + quoteShort(string(w)), InputHex: common.Hex(string(w)),
				Opts: c.kind, Kind: "threeway", LitKind: "ident", Mutation: c.kind, OrigLen: len(c.lit)})
		}
	case r.class != "" && r.known:
		k := rep.Known[r.class]
		if k == nil {
			class := r.class
			w := shrink([]byte(c.lit), 300, func(b []byte) bool {
				x := identCheck(string(b))
				return x.known && x.class == class
			})
			k = &xKnown{WitnessHex: common.Hex(string(w)), Witness: quoteShort(string(w)), Verdict: identCheck(string(w)).verdict, What: "part C: " + r.what}
			rep.Known[r.class] = k
		}
		k.Count++
	case r.class != "":
		e := id.Excluded[r.class]
		if e == nil {
			e = &xExcl{WitnessHex: common.Hex(c.lit), Why: r.what}
			id.Excluded[r.class] = e
		}
		e.Count++
		if !strings.Contains(e.Verdicts, r.verdict) {
			if e.Verdicts != "" {
				e.Verdicts += ","
			}
			e.Verdicts += r.verdict
		}
		if len(c.lit) < len(common.Unhex(e.WitnessHex)) {
			e.WitnessHex = common.Hex(c.lit)
		}
	}
}

// ---------------------------------------------------------------------------
// Shrinking (greedy chunk deletion, bounded)

func shrink(in []byte, budget int, keep func([]byte) bool) []byte {
	cur := append([]byte(nil), in...)
	// pass 1: whole lines
	if bytes.Count(cur, []byte("\n")) > 3 {
		lines := bytes.SplitAfter(cur, []byte("\n"))
		for chunk := len(lines) / 2; chunk >= 1 && budget > 0; chunk /= 2 {
			for i := 0; i+chunk <= len(lines) && budget > 0; {
				cand := bytes.Join(append(append([][]byte(nil), lines[:i]...), lines[i+chunk:]...), nil)
				budget--
				if keep(cand) {
					lines = append(append([][]byte(nil), lines[:i]...), lines[i+chunk:]...)
				} else {
					i += chunk
				}
			}
		}
		cur = bytes.Join(lines, nil)
	}
	// pass 2: byte chunks
	for chunk := len(cur) / 2; chunk >= 1 && budget > 0; {
		progress := false
		for i := 0; i+chunk <= len(cur) && budget > 0; {
			cand := append(append([]byte(nil), cur[:i]...), cur[i+chunk:]...)
			budget--
			if keep(cand) {
				cur = cand
				progress = true
			} else {
				i += chunk
			}
		}
		if !progress || chunk > len(cur) {
			chunk /= 2
		}
		if chunk > len(cur) {
			chunk = len(cur)
		}
	}
	return cur
}

func allSets() []int { return []int{0, 1, 2, 3} }

func hasClassA(src []byte, class string) bool {
	var res *aResult
	if class == "scanner-cr-in-line-leading-whitespace" || class == "I8-crlf-variance" {
		res = &aResult{}
		if bytes.Contains(src, []byte("\r\n")) {
			checkCRLF(src, res)
		}
	} else {
		res = checkParse(src, allSets(), false)
	}
	for _, is := range res.issues {
		if is.class == class {
			return true
		}
	}
	return false
}

// Canonical witnesses, run on every seed before the generated cases.
var canonicalLits = []string{
	`"\UFFFFFFFC"`,           // regression witness of fix unquote-U: an int32 accumulator panics here
	`"\UFFFFFFFF"`,           // regression witness of fix unquote-U: an int32 accumulator accepts it as terminator
	"\"\"\"\na\\\nb\n\"\"\"", // escaped-newline-scanner-rejects
	"1.3Ki",                  // si-fraction-not-integral (spec.md example)
	`##"""#"##`,              // hash-string-content-starts-with-two-quotes
	"##\"\"\"#\n\"\"\"##",    // scanner-multiline-opener-swallows-hashes
	"0_1e1",                  // scanner-rejects-zero-underscore-float
	"\"\"\"\r\n\tfoo\r\n\r\n\tbar\r\n\t\"\"\"", // scanner-cr-in-line-leading-whitespace
	`"\uD800"`,       // surrogate-escape (excluded class)
	`"\ud800\udc00"`, // well-formed surrogate pairs at the corners of both ranges: all three must accept
	`"\ud800\udfff"`,
	`"\udbff\udc00"`,
	`'\uDBFF\uDFFF'`,
	`#"\#ud83d\#ude00"#`,
	"###\"\\###\\###uD83D\\###uDC00\"###", // escaped backslash, text uD83D, then a LONE low half: surrogate-escape (excluded class)
	"'日\\\\uD83D\\uDE00'",
	"\"日\\\\uD83D\\uDE00\"",
	"\"\"\"\n\u00a0\"\"\"", // unquote-unicode-space-closing-indent (excluded class)
}

var canonicalFiles = []string{
	"x: \"\"\"\r\n\tfoo\r\n\r\n\tbar\r\n\t\"\"\"\r\n", // CRLF file, empty line inside an indented multi-line string
	"a.",                                // raw-end-past-eof relaxation
	"x: \"\"\"\n\ta\\\n\tb\n\t\"\"\"\n", // escaped newline (spec.md) is rejected by the parser
}

// ---------------------------------------------------------------------------
// Driver

func parallelDo(n int, fn func(i int)) {
	workers := runtime.NumCPU()
	if workers > 16 {
		workers = 16
	}
	if workers < 1 {
		workers = 1
	}
	var next int64 = -1
	var wg sync.WaitGroup
	for w := 0; w < workers; w++ {
		wg.Add(1)
		go func() {
			defer wg.Done()
			for {
				i := int(atomic.AddInt64(&next, 1))
				if i >= n {
					return
				}
				fn(i)
			}
		}()
	}
	wg.Wait()
}

func newReport(mode string, seed uint64) *xReport {
	return &xReport{
		Mode: mode, Seed: seed,
		MutationKinds: map[string]int{}, SizeHist: map[string]int{}, NodeTypes: map[string]int{},
		InvChecksBy: map[string]int{}, Invariants: invariantDoc, Failures: []xFailure{},
		FailureClass: map[string]int{},
		Known:        map[string]*xKnown{}, Relaxed: map[string]*xKnown{}, Relaxations: relaxationDoc,
		Threeway: xThreeway{ByKind: map[string]map[string]int{}, Verdicts: map[string]int{}, Excluded: map[string]*xExcl{}},
		Idents: xIdents{ByKind: map[string]map[string]int{}, Verdicts: map[string]int{}, Excluded: map[string]*xExcl{},
			Legend: "verdict = S I P F: S scanner yields exactly one IDENT == L (then auto comma, EOF, no errors); I ast.IsValidIdent(L); P ParseExpr(L) is *ast.Ident with Name == L; F ParseFile(L+\": 1\") is one Field whose Label is *ast.Ident with Name == L; '-' no, '!' Go panic"},
	}
}

func (rep *xReport) addA(in parseInput, res *aResult, sets []int) {
	rep.ParseInputs++
	rep.ParseCalls += res.calls
	rep.ParseOK += res.ok
	rep.ParseErr += res.errs
	rep.ExprCalls += res.exprCalls
	rep.ExprOK += res.exprOK
	rep.MutationKinds[in.kind]++
	rep.SizeHist[sizeBucket(len(in.src))]++
	rep.NodesVisited += res.nodes
	for k, v := range res.nodeTypes {
		rep.NodeTypes[k] += v
	}
	for i, c := range res.checks {
		if c > 0 {
			name := fmt.Sprintf("I%d", i)
			if i == 0 {
				name = "I8"
			}
			rep.InvChecksBy[name] += c
			rep.InvChecks += c
		}
	}
	seen := map[string]bool{}
	for _, is := range res.issues {
		if seen[is.class] {
			continue
		}
		seen[is.class] = true
		if is.known || is.relaxed {
			m := rep.Relaxed
			if is.known {
				m = rep.Known
			}
			k := m[is.class]
			if k == nil {
				k = &xKnown{}
				m[is.class] = k
			}
			k.Count++
			k.PartA++
			if k.PartAHex == "" {
				class := is.class
				w := shrink(in.src, 1500, func(b []byte) bool { return hasClassA(b, class) })
				k.PartAHex = common.Hex(string(w))
				if k.WitnessHex == "" {
					k.WitnessHex, k.Witness, k.What = common.Hex(string(w)), quoteShort(string(w)), "part A, opts "+is.opts+": "+is.what
				}
			}
			continue
		}
		rep.FailuresTotal++
		rep.FailureClass[is.class]++
		if len(rep.Failures) < 20 {
			class := is.class
			w := in.src
			if class != "timeout" {
				w = shrink(in.src, 300, func(b []byte) bool { return hasClassA(b, class) })
			}
			rep.Failures = append(rep.Failures, xFailure{Part: "A", Class: is.class, What: is.what, InputHex: common.Hex(string(w)),
				Opts: is.opts, Kind: "parse", Mutation: in.kind, OrigLen: len(in.src)})
		}
	}
}

func (rep *xReport) addB(c twCase, r twResult) {
	tw := &rep.Threeway
	tw.Cases++
	bk := tw.ByKind[c.kind]
	if bk == nil {
		bk = map[string]int{}
		tw.ByKind[c.kind] = bk
	}
	bk[r.verdict]++
	tw.Verdicts[r.verdict]++
	if r.numKind {
		tw.NumKindChecks++
	}
	if r.formChk {
		tw.FormChecks++
	}
	if r.crlfChk {
		tw.CRLFChecks++
	}
	excl := func(name, verdict, why string) {
		e := tw.Excluded[name]
		if e == nil {
			e = &xExcl{WitnessHex: common.Hex(c.lit), Why: why}
			tw.Excluded[name] = e
		}
		e.Count++
		if !strings.Contains(e.Verdicts, verdict) {
			if e.Verdicts != "" {
				e.Verdicts += ","
			}
			e.Verdicts += verdict
		}
		if len(c.lit) < len(common.Unhex(e.WitnessHex)) {
			e.WitnessHex = common.Hex(c.lit)
		}
	}
	if r.skipped != "" {
		excl(r.skipped, "skip", "an interpolation start \\#*( makes the text an INTERPOLATION token sequence, not a single literal; not compared")
		return
	}
	tw.Compared++
	if r.rawUDiff {
		excl("multiline-raw-CR", r.verdict, "multi-line literal containing CR: literal.Unquote on the raw text differs from Unquote on the scanner's CR-stripped text; the three-way uses the CR-stripped text for U (what the parser pipeline passes on)")
	}
	switch {
	case r.untri:
		tw.Disagreements++
		rep.FailuresTotal++
		rep.FailureClass[r.class]++
		if len(rep.Failures) < 20 {
			class, kind := r.class, c.kind
			w := []byte(c.lit)
			if class != "quoted-form-rejected" {
				w = shrink(w, 300, func(b []byte) bool {
					x := threeway(string(b), kind)
					return x.untri && x.class == class
				})
			}
			rep.Failures = append(rep.Failures, xFailure{Part: "B", Class: r.class, What: r.what, InputHex: common.Hex(string(w)),
				Opts: c.kind, Kind: "threeway", LitKind: c.kind, Mutation: c.kind, OrigLen: len(c.lit)})
		}
	case r.class != "" && r.known:
		k := rep.Known[r.class]
		if k == nil {
			k = &xKnown{}
			rep.Known[r.class] = k
		}
		k.Count++
		if r.formChk && r.verdict == "---" {
			// Quote output rejected by all three: keep form + content, no shrinking.
			k.FormCount++
			if k.FormWhat == "" || len(r.what) < len(k.FormWhat) {
				k.FormWhat = r.what
			}
			if k.WitnessHex == "" {
				k.WitnessHex, k.Witness, k.Verdict, k.What = common.Hex(c.lit), quoteShort(c.lit), r.verdict, "part B (str-form): "+r.what
			}
		} else if k.What == "" || strings.HasPrefix(k.What, "part B (str-form)") {
			class := r.class
			w := shrink([]byte(c.lit), 300, func(b []byte) bool {
				x := threeway(string(b), "shrink")
				return x.class == class && x.known
			})
			v := threeway(string(w), "shrink").verdict
			k.WitnessHex, k.Witness, k.Verdict, k.What = common.Hex(string(w)), quoteShort(string(w)), v, "part B: "+r.what
		}
	case r.class != "":
		excl(r.class, r.verdict, r.what)
	}
}

func writeReport(dir string, rep *xReport, t0 time.Time) {
	rep.WallMs = time.Since(t0).Milliseconds()
	b, err := json.MarshalIndent(rep, "", " ")
	if err != nil {
		panic(err)
	}
	if err := os.MkdirAll(dir, 0o755); err != nil {
		panic(err)
	}
	if err := os.WriteFile(filepath.Join(dir, "explore.json"), append(b, '\n'), 0o644); err != nil {
		panic(err)
	}
}

func usage(msg string) {
	fmt.Fprintln(os.Stderr, "c09 explore: "+msg)
	fmt.Fprintln(os.Stderr, "usage: --mode explore --seed N --nmut N --nlit N --out DIR | --mode explore-replay --kind parse|threeway [--lit-kind str-form|ident] --input-hex HEX --out DIR")
	os.Exit(2)
}

func runExplore(a map[string]string) {
	t0 := time.Now()
	mode := a["--mode"]
	out := a["--out"]
	if out == "" {
		usage("missing --out")
	}
	seed := uint64(common.Atoi(a["--seed"], 1))
	switch mode {
	case "explore":
		nmut := common.Atoi(a["--nmut"], 1500)
		nlit := common.Atoi(a["--nlit"], 4000)
		rep := explore(seed, nmut, nlit)
		writeReport(out, rep, t0)
	case "explore-replay":
		hexIn, ok := a["--input-hex"]
		if !ok {
			usage("missing --input-hex")
		}
		in := common.Unhex(hexIn)
		rep := newReport(mode, seed)
		switch a["--kind"] {
		case "parse":
			pin := parseInput{"replay", []byte(in)}
			res := checkParse(pin.src, allSets(), true)
			rep.addA(pin, res, allSets())
		case "threeway":
			if a["--lit-kind"] == "ident" {
				rep.addC(idCase{"replay", in}, identCheck(in))
				break
			}
			c := twCase{kind: "replay", lit: in}
			if k := a["--lit-kind"]; k != "" {
				c.kind = k
			}
			rep.addB(c, threeway(in, c.kind))
		default:
			usage("--kind must be parse or threeway")
		}
		writeReport(out, rep, t0)
	default:
		usage("--mode must be explore or explore-replay")
	}
}

func explore(seed uint64, nmut, nlit int) *xReport {
	debug.SetGCPercent(400) // allocation-heavy, short-lived: fewer GC cycles
	rep := newReport("explore", seed)
	tPhase := time.Now()
	phase := func(name string) {
		if os.Getenv("VERIF_C09_TIMING") != "" {
			fmt.Fprintf(os.Stderr, "c09 explore: phase %s %d ms\n", name, time.Since(tPhase).Milliseconds())
		}
		tPhase = time.Now()
	}
	master := common.NewRng(seed)
	rngA := master.Fork()
	rngB := master.Fork()
	rngC := master.Fork() // forked after A and B: their case streams are unchanged

	// PART A inputs: every corpus file unchanged, then nmut mutants.
	corpus, source := loadCorpus()
	rep.CorpusFiles = len(corpus)
	rep.CorpusSource = source
	var inputs []parseInput
	for _, c := range canonicalFiles {
		inputs = append(inputs, parseInput{"canonical", []byte(c)})
	}
	for _, c := range corpus {
		inputs = append(inputs, parseInput{"unmutated", c.src})
	}
	if len(corpus) > 0 {
		// two inputs that exceed the parser's nesting limit (bail-out path)
		for _, open := range []string{"(", "["} {
			inputs = append(inputs, parseInput{"nest-limit", []byte(strings.Repeat(open, 10_001+rngA.Intn(50)) + "1")})
		}
		for i := 0; i < nmut; i++ {
			inputs = append(inputs, genMutant(rngA.Fork(), corpus))
		}
	}
	phase("A-generate")
	resA := make([]*aResult, len(inputs))
	// Every input is parsed with all four option sets (ParseComments,
	// ParseComments|AllErrors, none, ParseComments|ParseFuncs): a parse costs well under a millisecond,
	// so no rotation is needed and explore-replay runs exactly the same checks.
	setsFor := func(i int) []int { return allSets() }
	// The nest-limit inputs recurse ~10^4 levels deep (tens of MB of goroutine
	// stack). Run them alone, before the worker pool: concurrently with 15
	// allocation-heavy workers every GC cycle rescans that stack and a parse
	// that takes ~0.1 s alone was seen to exceed the 5 s watchdog.
	// One parse each (ParseComments, no determinism re-parse): what is tested
	// is the bail-out path; explore-replay of such an input runs everything.
	for i := range inputs {
		if inputs[i].kind == "nest-limit" {
			resA[i] = checkParseDet(inputs[i].src, []int{0}, true, false)
		}
	}
	phase("A-nest-limit")
	parallelDo(len(inputs), func(i int) {
		if resA[i] == nil {
			resA[i] = checkParse(inputs[i].src, setsFor(i), true)
		}
	})
	phase("A-pool")
	// A watchdog hit under the loaded worker pool is only believed if it
	// reproduces when the input is checked again alone.
	// (up to three more attempts: on a heavily overloaded machine a 0.1 s
	// deep-recursion parse has been seen to take seconds).
	hasTimeout := func(r *aResult) bool {
		for _, is := range r.issues {
			if is.class == "timeout" {
				return true
			}
		}
		return false
	}
	for i := range inputs {
		for try := 0; try < 3 && hasTimeout(resA[i]); try++ {
			if inputs[i].kind == "nest-limit" {
				resA[i] = checkParseDet(inputs[i].src, []int{0}, true, false)
			} else {
				resA[i] = checkParse(inputs[i].src, setsFor(i), true)
			}
		}
	}
	for i, in := range inputs {
		rep.addA(in, resA[i], setsFor(i))
	}

	phase("A-aggregate")

	// PART B: the canonical witnesses of the triaged classes first (seed
	// independent, so that every run reports whether each known class still
	// reproduces), then nlit generated cases.
	var cases []twCase
	for _, l := range canonicalLits {
		cases = append(cases, twCase{kind: "canonical", lit: l})
	}
	cases = append(cases, twCase{kind: "str-form", lit: literal.String.WithOptionalHashes().Quote(`""a`),
		form: "String.WithOptionalHashes()", content: `""a`})
	for i := 0; i < nlit; i++ {
		cases = append(cases, genLit(rngB.Fork()))
	}
	resB := make([]twResult, len(cases))
	parallelDo(len(cases), func(i int) { resB[i] = threewayCase(cases[i]) })
	for i, c := range cases {
		rep.addB(c, resB[i])
	}

	phase("B")

	// PART C: identifier spellings, about nlit/4 generated cases after the
	// canonical ones.
	var ids []idCase
	for _, l := range canonicalIdents {
		ids = append(ids, idCase{"canonical", l})
	}
	for i := 0; i < nlit/4; i++ {
		ids = append(ids, genIdent(rngC.Fork()))
	}
	resC := make([]idResult, len(ids))
	parallelDo(len(ids), func(i int) { resC[i] = identCheck(ids[i].lit) })
	for i, c := range ids {
		rep.addC(c, resC[i])
	}
	phase("C")
	return rep
}
