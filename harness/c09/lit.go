package main

// Literal quoting / unquoting of the working tree, one case per line in the
// format of ocaml/c09_driver.ml.  Every implementation result is computed by
// implFor(caseLine), so a replay goes through exactly the same path.

import (
	"bufio"
	"fmt"
	"os"
	"sort"
	"strconv"
	"strings"
	"unicode/utf8"

	"cuelang.org/go/cue/literal"
	"cuelang.org/go/internal/verifharness/common"
)

// ---------------------------------------------------------------- forms ----

type formSpec struct {
	bytes                  bool
	ml, auto, ah, ascii, g bool
	ind                    int
}

func b01(b bool) string {
	if b {
		return "1"
	}
	return "0"
}

func (f formSpec) String() string {
	k := "s"
	if f.bytes {
		k = "b"
	}
	return strings.Join([]string{k, b01(f.ml), b01(f.auto), b01(f.ah), b01(f.ascii), b01(f.g), strconv.Itoa(f.ind)}, ":")
}

func parseForm(s string) formSpec {
	p := strings.Split(s, ":")
	if len(p) != 7 {
		panic("bad form " + s)
	}
	return formSpec{bytes: p[0] == "b", ml: p[1] == "1", auto: p[2] == "1", ah: p[3] == "1", ascii: p[4] == "1", g: p[5] == "1", ind: common.Atoi(p[6], 0)}
}

// form builds the literal.Form through the exported API only.
func (f formSpec) form() literal.Form {
	fm := literal.String
	if f.bytes {
		fm = literal.Bytes
	}
	if f.auto {
		fm = fm.WithOptionalTabIndent(f.ind)
	}
	if f.ml {
		fm = fm.WithTabIndent(f.ind)
	}
	if f.ah {
		fm = fm.WithOptionalHashes()
	}
	if f.ascii {
		fm = fm.WithASCIIOnly()
	}
	if f.g {
		fm = fm.WithGraphicOnly()
	}
	return fm
}

func genForm(r *common.Rng) formSpec {
	f := formSpec{bytes: r.Bool()}
	switch r.Intn(10) {
	case 0, 1, 2:
		// single line
	case 3, 4, 5, 6:
		f.ml = true
		f.ind = r.Intn(4)
	case 7, 8:
		f.auto = true
		f.ind = r.Intn(4)
	case 9:
		f.auto = true
		f.ml = true
		f.ind = r.Intn(3)
	}
	f.ah = r.Chance(2, 5)
	f.ascii = r.Chance(1, 5)
	f.g = r.Chance(1, 5)
	return f
}

// tbl lists strconv.IsPrint / IsGraphic for every rune > 0xFF that ranging
// over s yields (U+FFFD included when s has invalid bytes).
func tblFor(s string) string {
	seen := map[rune]bool{}
	var rs []rune
	for _, r := range s {
		if r > 0xFF && !seen[r] {
			seen[r] = true
			rs = append(rs, r)
		}
	}
	if len(rs) == 0 {
		return "-"
	}
	sort.Slice(rs, func(i, j int) bool { return rs[i] < rs[j] })
	var sb strings.Builder
	for i, r := range rs {
		if i > 0 {
			sb.WriteByte(',')
		}
		fmt.Fprintf(&sb, "%x.%s%s", r, b01(strconv.IsPrint(r)), b01(strconv.IsGraphic(r)))
	}
	return sb.String()
}

// ------------------------------------------------------- implementation ----

func implUnquote(lit string) (res string) {
	defer func() {
		if e := recover(); e != nil {
			res = "panic"
		}
	}()
	v, err := literal.Unquote(lit)
	if err != nil {
		return "err:" + literal.VerifErrClass(err)
	}
	return "ok:" + common.Hex(v)
}

func implQuote(f formSpec, s string) (q string, panicked bool) {
	defer func() {
		if e := recover(); e != nil {
			q, panicked = "", true
		}
	}()
	return f.form().Quote(s), false
}

func implFor(line string) string {
	p := strings.Split(line, " ")
	switch p[0] {
	case "Q":
		f := parseForm(p[1])
		s := common.Unhex(p[2])
		q, pan := implQuote(f, s)
		if pan {
			return "panic"
		}
		return common.Hex(q) + " " + implUnquote(q)
	case "U":
		return implUnquote(common.Unhex(p[1]))
	case "I":
		return implIndentCase(p)
	case "J":
		return implRequoteCase(p)
	case "D":
		s := common.Unhex(p[1])
		r, w := utf8.DecodeRuneInString(s)
		r2, w2 := utf8.DecodeLastRuneInString(s)
		return fmt.Sprintf("%d %d %d %d", r, w, r2, w2)
	case "E":
		v, _ := strconv.ParseUint(p[1], 16, 32)
		return common.Hex(string(utf8.AppendRune(nil, rune(v))))
	case "S":
		s := common.Unhex(p[1])
		var b []byte
		for _, r := range s {
			b = utf8.AppendRune(b, r)
		}
		return common.Hex(string(b))
	}
	return "BADCASE"
}

// ------------------------------------------------------------ generators ----

var asciiWords = []string{"a", "b", "x", "foo", "bar baz", " ", "  ", "0", "n", "t", "u", "U", "x41", "u00e9", "(", ")", "(x)", "/", "#", "##", "###", "{", "}", ":", "\t", "\t\t", " \t", "e9", "0041", "DC00", "d800", "FFFFFFFF"}

var specialRunes = []rune{0x80, 0x85, 0xA0, 0xA1, 0xAD, 0xE9, 0xFF, 0x100, 0x17F, 0x300, 0x378, 0x3A9, 0x600, 0x1680, 0x180E,
	0x2000, 0x2003, 0x200A, 0x200B, 0x200E, 0x2028, 0x2029, 0x202F, 0x205F, 0x2060, 0x3000, 0x4E2D, 0xD7FF, 0xE000, 0xF8FF,
	0xFEFF, 0xFFFD, 0xFFFE, 0xFFFF, 0x10000, 0x1F600, 0x1F468, 0x2FFFF, 0x30000, 0xE0001, 0xE0100, 0xF0000, 0x10FFFD, 0x10FFFF}

var invalidSeqs = []string{"\x80", "\xbf", "\xc0\x80", "\xc1\xbf", "\xc2", "\xe2\x82", "\xe0\x80\x80", "\xe0\x9f\xbf", "\xed\xa0\x80",
	"\xed\xbf\xbf", "\xed\xa0\xbd\xed\xb8\x80", "\xf0\x80\x80\x80", "\xf0\x8f\xbf\xbf", "\xf0\x9f\x98", "\xf4\x90\x80\x80", "\xf5\x80\x80\x80",
	"\xf8\x88\x80\x80\x80", "\xfe", "\xff", "\xef\xbf", "\xc2\x22", "\xe2\x28\xa1"}

func randRune(r *common.Rng) rune {
	switch r.Intn(6) {
	case 0:
		return rune(r.Intn(0x80))
	case 1:
		return rune(0x80 + r.Intn(0x780))
	case 2:
		x := rune(0x800 + r.Intn(0xF800))
		if x >= 0xD800 && x < 0xE000 {
			x = 0xFFFD
		}
		return x
	case 3:
		return rune(0x10000 + r.Intn(0x100000))
	default:
		return common.Pick(r, specialRunes)
	}
}

// genContent produces adversarial string content.  kind tags the dominant feature.
func genContent(r *common.Rng, bytesForm bool) (string, string) {
	var sb strings.Builder
	kind := "mixed"
	q := `"`
	if bytesForm {
		q = `'`
	}
	if r.Chance(1, 12) { // leading quote pairs / triples (delimiter look-alikes)
		kind = "leadquotes"
		sb.WriteString(strings.Repeat(q, 1+r.Intn(4)))
		sb.WriteString(strings.Repeat("#", r.Intn(3)))
	}
	n := r.Intn(14)
	if r.Chance(1, 10) {
		n = 20 + r.Intn(60)
	}
	if r.Chance(1, 200) {
		n = 300 + r.Intn(600)
	}
	nl := r.Chance(1, 2)
	for i := 0; i < n; i++ {
		switch r.Intn(16) {
		case 0, 1, 2:
			sb.WriteString(common.Pick(r, asciiWords))
		case 3: // quotes next to # runs
			qq := q
			if r.Chance(1, 4) {
				qq = common.Pick(r, []string{`"`, `'`})
			}
			sb.WriteString(strings.Repeat(qq, 1+r.Intn(4)))
			sb.WriteString(strings.Repeat("#", r.Intn(4)))
		case 4: // backslash, maybe # run, maybe an escape letter
			sb.WriteString(strings.Repeat(`\`, 1+r.Intn(2)))
			sb.WriteString(strings.Repeat("#", r.Intn(3)))
			if r.Bool() {
				sb.WriteString(common.Pick(r, []string{"n", "t", "(", "u00e9", "x41", "U0001F600", `"`, "'", "\n", "\r\n"}))
			}
		case 5:
			if nl {
				sb.WriteString(common.Pick(r, []string{"\n", "\n", "\n", "\n\n", "\r\n", "\r", "\n\r", "\n\t", "\n ", "\n \t", "\n\t ", "\n  \n", "\n\n\n"}))
			} else {
				sb.WriteString(common.Pick(r, []string{" ", "\t", "\r"}))
			}
		case 6: // NUL / control characters
			sb.WriteByte(byte(r.Intn(0x20)))
		case 7:
			sb.WriteByte(byte(common.Pick(r, []int{0, 7, 8, 9, 11, 12, 13, 27, 31, 127})))
		case 8, 9:
			sb.WriteRune(common.Pick(r, specialRunes))
		case 10:
			sb.WriteRune(randRune(r))
		case 11: // invalid UTF-8, surrogates as bytes
			sb.WriteString(common.Pick(r, invalidSeqs))
		case 12:
			sb.WriteByte(byte(0x80 + r.Intn(0x80)))
		case 13: // triple quote with hashes
			sb.WriteString(strings.Repeat(q, 3+r.Intn(2)))
			sb.WriteString(strings.Repeat("#", r.Intn(4)))
		case 14:
			sb.WriteString(common.Pick(r, []string{"U8", "U9", "UF", "\\U", "é", "日本", "😀"}))
		case 15:
			sb.WriteByte(byte(0x20 + r.Intn(0x5f)))
		}
	}
	if r.Chance(1, 8) { // trailing backslash / quote / newline
		sb.WriteString(common.Pick(r, []string{`\`, q, q + "#", "\n", "\r", "\r\n", `\#`, q + q, q + q + q}))
		kind = "trailing"
	}
	s := sb.String()
	switch {
	case kind != "mixed":
	case !utf8.ValidString(s):
		kind = "invalid-utf8"
	case strings.ContainsAny(s, "\n"):
		kind = "newlines"
	case strings.ContainsAny(s, `"'\`):
		kind = "quotes"
	}
	return s, kind
}

// hand-assembled literal text (decoder cases)
func genLiteral(r *common.Rng) string {
	nh := common.Pick(r, []int{0, 0, 0, 1, 1, 2, 3})
	q := common.Pick(r, []string{`"`, `'`})
	multi := r.Chance(2, 5)
	h := strings.Repeat("#", nh)
	esc := func() string {
		k := nh
		if r.Chance(1, 8) { // wrong hash count
			k = r.Intn(4)
		}
		return `\` + strings.Repeat("#", k)
	}
	hexd := func(n int) string {
		var sb strings.Builder
		for i := 0; i < n; i++ {
			sb.WriteByte("0123456789abcdefABCDEF"[r.Intn(22)])
		}
		return sb.String()
	}
	piece := func() string {
		switch r.Intn(22) {
		case 0, 1, 2:
			return common.Pick(r, asciiWords)
		case 3:
			return esc() + common.Pick(r, []string{"a", "b", "f", "n", "r", "t", "v", "/", `\`, `"`, `'`})
		case 4:
			return esc() + "x" + hexd(2)
		case 5:
			return esc() + "u" + hexd(4)
		case 6:
			return esc() + "U" + common.Pick(r, []string{"0000", "0001", "0010", "0011", "000F"}) + hexd(4)
		case 7:
			return esc() + "U" + hexd(8)
		case 8: // surrogates
			// boundary-directed: both halves at the corners of their ranges
			// (D800/DBFF, DC00/DFFF), just outside (D7FF, E000), or random
			hv := common.Pick(r, []int{0xD800, 0xD800, 0xDBFF, 0xDBFF, 0xD801, 0xDBFE, 0xD800 + r.Intn(0x400), 0xD800 + r.Intn(0x400)})
			lv := common.Pick(r, []int{0xDC00, 0xDC00, 0xDFFF, 0xDFFF, 0xDC01, 0xDFFE, 0xDC00 + r.Intn(0x400), 0xDC00 + r.Intn(0x400)})
			if r.Chance(1, 10) {
				hv = common.Pick(r, []int{0xD7FF, 0xDC00, 0xE000})
			}
			if r.Chance(1, 10) {
				lv = common.Pick(r, []int{0xDBFF, 0xE000, 0xD7FF, 0x0041})
			}
			hexf := "%04x"
			if r.Bool() {
				hexf = "%04X"
			}
			hi := fmt.Sprintf(hexf, hv)
			lo := fmt.Sprintf(hexf, lv)
			if r.Chance(1, 6) { // eight-digit spelling of a half
				return esc() + "U0000" + hi + esc() + "u" + lo
			}
			switch r.Intn(5) {
			case 0:
				return esc() + "u" + hi
			case 1:
				return esc() + "u" + lo
			case 2:
				return esc() + "u" + lo + esc() + "u" + hi
			case 3:
				return esc() + "u" + hi + "x"
			}
			return esc() + "u" + hi + esc() + "u" + lo
		case 9: // octal
			return esc() + fmt.Sprintf("%d%d%d", r.Intn(8), r.Intn(10), r.Intn(8))
		case 10:
			return esc() + common.Pick(r, []string{"(", "(x)", "q", "0", "8", "x4", "u12", "U1234", "\n", "\r\n", "\r", " ", ""})
		case 11:
			return strings.Repeat(q, 1+r.Intn(3)) + strings.Repeat("#", r.Intn(4))
		case 12:
			return common.Pick(r, []string{"\n", "\n", "\r\n", "\n\n", "\r"})
		case 13:
			return string(common.Pick(r, specialRunes))
		case 14:
			return common.Pick(r, invalidSeqs)
		case 15:
			return string([]byte{byte(r.Intn(0x20))})
		case 16:
			return common.Pick(r, []string{`"`, `'`})
		case 17:
			return esc() + "U" + common.Pick(r, []string{"FFFFFFFF", "FFFFFFFE", "FFFFFFFD", "FFFFFFFC", "80000000", "7FFFFFFF", "00110000", "0010FFFF", "ffffffff", "8000dc00"})
		case 18:
			return "\\"
		default:
			return string([]byte{byte(0x20 + r.Intn(0x5f))})
		}
	}
	var sb strings.Builder
	if !multi {
		sb.WriteString(h + q)
		for i, n := 0, r.Intn(8); i < n; i++ {
			p := piece()
			if r.Chance(9, 10) {
				p = strings.ReplaceAll(p, "\n", "")
			}
			sb.WriteString(p)
		}
		ch := h
		if r.Chance(1, 10) {
			ch = strings.Repeat("#", r.Intn(4))
		}
		sb.WriteString(q + ch)
		return sb.String()
	}
	ws := common.Pick(r, []string{"", "", "\t", "\t\t", "  ", " \t", "\t ", "    ", " ", " \t", "\v", "\f ",
		" ", "\t ", "\u0085", "　 ", " ", "\xa0", "\xc2", "\t\xe2\x80", " \t", "​"})
	open := common.Pick(r, []string{"\n", "\n", "\n", "\n", "\r\n", "", "x\n", " \n", "\r", "#\n"})
	sb.WriteString(h + q + q + q + open)
	nlines := r.Intn(5)
	for i := 0; i < nlines; i++ {
		lws := ws
		switch r.Intn(10) {
		case 0:
			lws = ws + common.Pick(r, []string{" ", "\t", "  "})
		case 1:
			if len(ws) > 0 {
				lws = ws[:r.Intn(len(ws))]
			}
		case 2:
			lws = common.Pick(r, []string{"", " ", "\t"})
		}
		if r.Chance(1, 6) { // empty line
			lws = ""
		} else {
			sb.WriteString(lws)
			for j, n := 0, r.Intn(5); j < n; j++ {
				sb.WriteString(strings.ReplaceAll(piece(), "\n", ""))
			}
		}
		sb.WriteString(common.Pick(r, []string{"\n", "\n", "\n", "\r\n", esc() + "\n", esc() + "\r\n"}))
	}
	cws := ws
	if r.Chance(1, 8) {
		cws = common.Pick(r, []string{"", " ", "\t", ws + " ", "x", " ", ws + " ", "\x85", "\xe3\x80\x80", "\x80\x80\x80\x80\x80"})
	}
	ch := h
	if r.Chance(1, 10) {
		ch = strings.Repeat("#", r.Intn(4))
	}
	sb.WriteString(cws + q + q + q + ch)
	return sb.String()
}

func mutate(r *common.Rng, s string) string {
	b := []byte(s)
	for k, n := 0, 1+r.Intn(2); k < n; k++ {
		if len(b) == 0 {
			b = append(b, byte(r.Intn(256)))
			continue
		}
		i := r.Intn(len(b))
		alphabet := "\"'#\\\n\r\t (nuUx0\x00\xff\x80"
		switch r.Intn(7) {
		case 0:
			b[i] = alphabet[r.Intn(len(alphabet))]
		case 1:
			b = append(b[:i], b[i+1:]...)
		case 2:
			b = append(b[:i], append([]byte{alphabet[r.Intn(len(alphabet))]}, b[i:]...)...)
		case 3:
			b = b[:i]
		case 4:
			j := r.Intn(len(b))
			b[i], b[j] = b[j], b[i]
		case 5:
			b = append(b[:i], append([]byte{b[i]}, b[i:]...)...)
		case 6:
			b[i] ^= byte(1 << r.Intn(8))
		}
	}
	return string(b)
}

// ------------------------------------------------------------------ main ----

func fixedCases() []string {
	var cs []string
	add := func(s string) { cs = append(cs, s) }
	strs := []string{"", "a", `"`, `""`, `""x`, `""#`, `"""`, `'`, `''`, `''x`, `'''`, `\`, `a\`, `a"#b`, `a\#b`, "\n", "\n\n", "a\n", "a\nb", "a\r\nb",
		"\x00", "\xff", "\xed\xa0\x80", " ", " ­", "a\n\"\"\"", "a\n\"\"\"#", "\"\"\"\"##x", "a\n\tb", " a\n  b", "\t", "é", "😀", "�", "U8", "\\U80000000"}
	for _, bf := range []bool{false, true} {
		for _, mode := range []int{0, 1, 2} {
			for _, ah := range []bool{false, true} {
				for _, s := range strs {
					f := formSpec{bytes: bf, ah: ah}
					if mode == 1 {
						f.ml, f.ind = true, 2
					} else if mode == 2 {
						f.auto, f.ind = true, 1
					}
					add("Q " + f.String() + " " + common.Hex(s) + " " + tblFor(s))
				}
			}
		}
	}
	lits := []string{`""`, `"`, `#"#`, `"""`, `""""`, `"a"`, `'a'`, `#"a"#`, `#"a"`, `"a"#`, `"\UFFFFFFFF"`, `"abc\UFFFFFFFFdef"`, `"\UFFFFFFFE"`, `"\UFFFFFFFD"`, `"\UFFFFFFFC"`, `"\U80000000"`,
		`"\U7FFFFFFF"`, `"\U00110000"`, `"\U0010FFFF"`, `"\ud800"`, `"𐀀"`, `"\udc00"`, `"\ud800x"`, `'\xff'`, `"\xff"`, `'\377'`, `'\400'`, `"\101"`, "\"a\rb\"", "\"a\rb\\t\"", "\"a\x00\"",
		"\"a\nb\"", "\"\"\"\n\"\"\"", "\"\"\"\na\n\"\"\"", "\"\"\"\n a\n \"\"\"", "\"\"\"\n a\n\"\"\"", "\"\"\"\na\n \"\"\"", "\"\"\"\r\na\r\n\"\"\"", "\"\"\"\na\\\n\"\"\"", "\"\"\"\na\\\nb\n\"\"\"",
		"\"\"\"\n\"\"\"x\n\"\"\"", "\"\"\"\na\"\"\"", "#\"\"\"\na\\#n\n\"\"\"#", "\"\"\"a\n\"\"\"", "\"\"\"\r", "\"\"\"\n a\n \"\"\"", `"\(x)"`, `"a\("`, `"\(`, `#"""#`, `##"""##`, `#""#`, `'''`, "'''\n'''"}
	for _, l := range lits {
		add("U " + common.Hex(l))
	}
	// surrogate escapes at the corners of both ranges: pairs in all four corner
	// combinations, neighbours, lone halves, reversed pairs; string and bytes
	// literals, 0..2 hashes, single line and multi-line
	halvesHi := []string{"d800", "dbff", "D801", "DBFE"}
	halvesLo := []string{"dc00", "dfff", "DC01", "DFFE"}
	for _, q := range []string{`"`, `'`} {
		for nh := 0; nh <= 2; nh++ {
			h := strings.Repeat("#", nh)
			e := `\` + h + "u"
			wrap := func(body string) []string {
				return []string{h + q + body + q + h, h + q + q + q + "\n" + body + "\n" + q + q + q + h}
			}
			var bodies []string
			for _, hi := range halvesHi {
				for _, lo := range halvesLo {
					bodies = append(bodies, e+hi+e+lo, "a"+e+hi+e+lo+"z", e+lo+e+hi)
				}
				bodies = append(bodies, e+hi, e+hi+"x", e+hi+e+"0041", e+hi+e+"dbff", e+hi+e+"e000", e+hi+e+hi)
			}
			for _, lo := range halvesLo {
				bodies = append(bodies, e+lo, "x"+e+lo)
			}
			bodies = append(bodies, e+"d7ff"+e+"dc00", e+"e000"+e+"dc00", e+"dc00"+e+"dc00",
				`\`+h+"U0000d800"+e+"dc00", `\`+h+"U0000dbff"+`\`+h+"U0000dfff", `\`+h+"U0000dc00")
			for _, b := range bodies {
				for _, l := range wrap(b) {
					add("U " + common.Hex(l))
				}
			}
		}
	}
	return cs
}

func runLit(a map[string]string) {
	out := a["--out"]
	if out == "" {
		out = "."
	}
	o := common.NewOut(out)
	defer o.Close()
	if f := a["--replay-cases"]; f != "" {
		fh, err := os.Open(f)
		if err != nil {
			panic(err)
		}
		sc := bufio.NewScanner(fh)
		sc.Buffer(make([]byte, 1<<20), 1<<26)
		for sc.Scan() {
			if l := strings.TrimSpace(sc.Text()); l != "" {
				o.Emit(l, implFor(l))
			}
		}
		return
	}
	seed := uint64(common.Atoi(a["--seed"], 1))
	nq := common.Atoi(a["--nq"], 3000)
	nu := common.Atoi(a["--nu"], 3000)
	nc := common.Atoi(a["--ncodec"], 1000)
	emit := func(c string) { o.Emit(c, implFor(c)) }

	for _, c := range fixedCases() {
		emit(c)
	}
	ni := common.Atoi(a["--ni"], 0)
	if ni > 0 {
		for _, c := range fixedIndentCases() {
			emit(c)
		}
	}
	r := common.NewRng(seed)
	// encoder cases; remember the produced literals as the valid decoder stream
	rq := r.Fork()
	var valid []string
	for i := 0; i < nq; i++ {
		f := genForm(rq)
		s, _ := genContent(rq, f.bytes)
		c := "Q " + f.String() + " " + common.Hex(s) + " " + tblFor(s)
		emit(c)
		if q, pan := implQuote(f, s); !pan && len(valid) < 4*nu {
			valid = append(valid, q)
		}
	}
	// decoder cases: hand-assembled literals (mostly valid), and a malformed stream
	ru := r.Fork()
	for i := 0; i < nu; i++ {
		var l string
		switch ru.Intn(10) {
		case 0, 1, 2, 3, 4:
			l = genLiteral(ru)
		case 5, 6:
			l = mutate(ru, genLiteral(ru))
		default:
			if len(valid) > 0 {
				l = mutate(ru, common.Pick(ru, valid))
			} else {
				l = genLiteral(ru)
			}
		}
		emit("U " + common.Hex(l))
	}
	// codec
	rc := r.Fork()
	for i := 0; i < nc; i++ {
		switch rc.Intn(4) {
		case 0:
			var b []byte
			for j, n := 0, 1+rc.Intn(5); j < n; j++ {
				b = append(b, byte(rc.Intn(256)))
			}
			if rc.Bool() {
				b = append([]byte(string(randRune(rc))), b...)
			}
			if rc.Bool() {
				b = append(b, []byte(string(randRune(rc)))...)
			}
			emit("D " + common.Hex(string(b)))
		case 1:
			v := uint32(randRune(rc))
			switch rc.Intn(6) {
			case 0:
				v = uint32(0xD800 + rc.Intn(0x800))
			case 1:
				v = uint32(0x10FFFF + rc.Intn(0x100000))
			case 2:
				v = common.Pick(rc, []uint32{0, 0x7F, 0x80, 0x7FF, 0x800, 0xFFFF, 0x10000, 0x10FFFF, 0x110000, 0xD7FF, 0xD800, 0xDFFF, 0xE000})
			}
			emit("E " + strconv.FormatUint(uint64(v), 16))
		case 2:
			s, _ := genContent(rc, true)
			emit("S " + common.Hex(s))
		case 3:
			s := common.Pick(rc, invalidSeqs) + string(randRune(rc)) + common.Pick(rc, invalidSeqs)
			emit("D " + common.Hex(s))
		}
	}
	// IndentTabs (forked last: the streams above are unchanged)
	genIndentCases(r.Fork(), ni, valid, emit)
}

// runUnq: cross-validation pass 2 -- the implementation's Unquote on literals
// produced by the MODEL's quote (one hex literal per line of --in).
func runUnq(a map[string]string) {
	fh, err := os.Open(a["--in"])
	if err != nil {
		panic(err)
	}
	w := bufio.NewWriterSize(os.Stdout, 1<<20)
	defer w.Flush()
	sc := bufio.NewScanner(fh)
	sc.Buffer(make([]byte, 1<<20), 1<<26)
	for sc.Scan() {
		fmt.Fprintln(w, implUnquote(common.Unhex(strings.TrimSpace(sc.Text()))))
	}
}
