// C14 harness: semver comparison and MVS build lists of the working tree,
// printed in the format the extracted Coq model prints.
package main

import (
	"fmt"
	"os"
	"runtime"
	"slices"
	"strings"
	"sync"
	"time"

	"cuelang.org/go/internal/mod/mvs"
	"cuelang.org/go/internal/mod/semver"
	"cuelang.org/go/internal/verifharness/common"
	"cuelang.org/go/mod/module"
)

type node struct{ p, v string }

func (n node) String() string { return n.p + "@" + n.v }

type reqs struct {
	g       map[node][]node
	rng     *common.Rng
	mu      sync.Mutex
	events  []string
	latency bool
	calls   map[node]int
}

func (r *reqs) New(p, v string) (node, error) { return node{p, v}, nil }
func (r *reqs) Path(n node) string             { return n.p }
func (r *reqs) Version(n node) string          { return n.v }
func (r *reqs) Max(a, b string) string         { return module.Versions{}.Max(a, b) }
func (r *reqs) Required(m node) ([]node, error) {
	r.mu.Lock()
	r.events = append(r.events, "S:"+m.String())
	r.calls[m]++
	d := 0
	if r.latency {
		d = r.rng.Intn(4)
	}
	r.mu.Unlock()
	switch d {
	case 1:
		runtime.Gosched()
	case 2:
		time.Sleep(time.Duration(1+d) * 20 * time.Microsecond)
	case 3:
		for i := 0; i < 3; i++ {
			runtime.Gosched()
		}
	}
	r.mu.Lock()
	r.events = append(r.events, "R:"+m.String())
	r.mu.Unlock()
	return r.g[m], nil
}

var versions = []string{"v0.1.0", "v0.9.0", "v1.0.0-alpha", "v1.0.0-alpha.1", "v1.0.0-rc.1", "v1.0.0",
	"v1.0.1", "v1.1.0", "v1.2.0-0", "v1.2.0", "v1.10.0", "v2.0.0", "v10.0.0"}

func genGraph(r *common.Rng) (targets []node, g map[node][]node) {
	nmod := 2 + r.Intn(7)
	nver := 1 + r.Intn(4)
	mods := make([]string, nmod)
	for i := range mods {
		mods[i] = fmt.Sprintf("m%d", i)
	}
	// each module gets nver versions from the pool
	mv := map[string][]string{}
	for _, m := range mods {
		vs := slices.Clone(versions)
		common.Shuffle(r, vs)
		mv[m] = vs[:nver]
	}
	pickNode := func() node {
		m := common.Pick(r, mods)
		if r.Chance(1, 25) {
			return node{m, "none"}
		}
		return node{m, common.Pick(r, mv[m])}
	}
	g = map[node][]node{}
	for _, m := range mods {
		for _, v := range mv[m] {
			k := r.Intn(4)
			if r.Chance(1, 6) {
				k = 0
			}
			var rs []node
			for i := 0; i < k; i++ {
				rs = append(rs, pickNode())
			}
			if len(rs) > 0 && r.Chance(1, 8) { // duplicate requirement
				rs = append(rs, rs[0])
			}
			g[node{m, v}] = rs
		}
	}
	// Targets are main modules: their version is "" (the top element of Max), which
	// is the precondition of buildList (nothing may select a higher version of a
	// target).  Other modules may still require older versions of a target module.
	nt := 1
	if r.Chance(1, 5) {
		nt = 2
	}
	for i := 0; i < nt && i < nmod; i++ {
		t := node{mods[i], ""}
		k := 1 + r.Intn(4)
		var rs []node
		for j := 0; j < k; j++ {
			rs = append(rs, pickNode())
		}
		g[t] = rs
		targets = append(targets, t)
	}
	return targets, g
}

func fmtNodes(ns []node) string {
	ss := make([]string, len(ns))
	for i, n := range ns {
		ss[i] = n.String()
	}
	return strings.Join(ss, " ")
}

func fmtGraph(g map[node][]node, order []node) string {
	var parts []string
	for _, m := range order {
		parts = append(parts, m.String()+" > "+fmtNodes(g[m]))
	}
	return strings.Join(parts, " ; ")
}

func permuteGraph(r *common.Rng, g map[node][]node) map[node][]node {
	g2 := map[node][]node{}
	for k, v := range g {
		v2 := slices.Clone(v)
		common.Shuffle(r, v2)
		g2[k] = v2
	}
	return g2
}

func runMVS(r *common.Rng, out *common.Out, reps int) {
	targets, g := genGraph(r)
	var order []node
	for k := range g {
		order = append(order, k)
	}
	slices.SortFunc(order, func(a, b node) int { return strings.Compare(a.String(), b.String()) })
	common.Shuffle(r, order)
	runGraph(r, out, reps, targets, g, order)
}

func runGraph(r *common.Rng, out *common.Out, reps int, targets []node, g map[node][]node, order []node) {
	gs := fmtGraph(g, order)
	var first string
	for i := 0; i < reps; i++ {
		gi := g
		if i > 0 && i%2 == 0 {
			gi = permuteGraph(r, g) // requirement-list order must not matter
		}
		rq := &reqs{g: gi, rng: r.Fork(), latency: i > 0, calls: map[node]int{}}
		var list []node
		var err error
		panicked := ""
		func() {
			defer func() {
				if e := recover(); e != nil {
					panicked = fmt.Sprint(e)
				}
			}()
			list, err = mvs.BuildList[node](targets, rq)
		}()
		res := ""
		if panicked != "" {
			res = "PANIC"
		} else if err != nil {
			res = "ERROR"
		} else {
			res = fmtNodes(list)
		}
		// BuildList has returned: no callback may still be running.  Take the lock anyway so that a
		// traversal that returns early (a bug) shows up as a wrong result, not as a crash of the harness.
		rq.mu.Lock()
		for m, c := range rq.calls {
			if c != 1 {
				res = fmt.Sprintf("MULTICALL %s x%d", m, c)
			}
		}
		events := slices.Clone(rq.events)
		rq.mu.Unlock()
		if i == 0 {
			first = res
			out.Emit("MVS "+fmtNodes(targets)+" | "+gs, res)
		} else if res != first {
			// schedule or order dependence observed directly
			out.Emit("MVS "+fmtNodes(targets)+" | "+gs, "NONDET run0=["+first+"] run"+fmt.Sprint(i)+"=["+res+"]")
		}
		if i == 1 || i == reps-1 {
			// the trace must be a feasible schedule of the model (graph gi has the same sets)
			out.Emit("TR "+fmtNodes(targets)+" | "+fmtGraph(gi, order)+" | "+strings.Join(events, " "), "ACCEPT "+res)
		}
	}
}

// ---- semver strings -------------------------------------------------------

var idents = []string{"0", "1", "2", "10", "01", "00", "alpha", "beta", "rc", "a", "A", "-", "a-b", "1a", "a1", "0a", "x", "", "9", "11", "99999999999999999999", "100000000000000000000"}
var nums = []string{"0", "1", "2", "3", "9", "10", "11", "01", "00", "", "123", "18446744073709551615", "18446744073709551616", "99999999999999999999", "100000000000000000000", "a", "-1"}

func genVersion(r *common.Rng) string {
	var b strings.Builder
	if !r.Chance(1, 30) {
		b.WriteString("v")
	}
	parts := 3
	if r.Chance(1, 8) {
		parts = 1 + r.Intn(4)
	}
	for i := 0; i < parts; i++ {
		if i > 0 {
			if r.Chance(1, 60) {
				b.WriteString("..")
			} else {
				b.WriteString(".")
			}
		}
		if r.Chance(9, 10) {
			b.WriteString(common.Pick(r, nums[:8]))
		} else {
			b.WriteString(common.Pick(r, nums))
		}
	}
	if r.Chance(1, 2) {
		b.WriteString("-")
		k := 1 + r.Intn(3)
		for i := 0; i < k; i++ {
			if i > 0 {
				b.WriteString(".")
			}
			b.WriteString(common.Pick(r, idents))
		}
	}
	if r.Chance(1, 4) {
		b.WriteString("+")
		k := 1 + r.Intn(2)
		for i := 0; i < k; i++ {
			if i > 0 {
				b.WriteString(".")
			}
			b.WriteString(common.Pick(r, idents))
		}
	}
	s := b.String()
	if r.Chance(1, 25) && len(s) > 0 { // byte-level mutation
		bs := []byte(s)
		i := r.Intn(len(bs))
		switch r.Intn(4) {
		case 0:
			bs[i] = byte(r.Intn(256))
		case 1:
			bs = append(bs[:i], bs[i+1:]...)
		case 2:
			bs = append(bs[:i], append([]byte{byte(common.Pick(r, []int{'.', '-', '+', '0', 'v', ' ', '_', 0xc3}))}, bs[i:]...)...)
		case 3:
			bs = append(bs, "+-.0"[r.Intn(4)])
		}
		s = string(bs)
	}
	return s
}

func mutateNear(r *common.Rng, v string) string {
	// a neighbour of v: change one numeric field or identifier slightly
	switch r.Intn(6) {
	case 0:
		return v + "+meta"
	case 1:
		return v + "-0"
	case 2:
		return strings.Replace(v, "1", "2", 1)
	case 3:
		return strings.Replace(v, "alpha", "beta", 1)
	case 4:
		return strings.Replace(v, "9", "10", 1)
	default:
		return v
	}
}

func sgn(c int) int {
	if c < 0 {
		return -1
	}
	if c > 0 {
		return 1
	}
	return 0
}

func svLine(v, w string) (string, string) {
	c := fmt.Sprintf("SV %s %s", common.Hex(v), common.Hex(w))
	b2i := func(b bool) int {
		if b {
			return 1
		}
		return 0
	}
	impl := fmt.Sprintf("cmp=%d valid=%d,%d canon=%s,%s major=%s,%s max=%s",
		sgn(semver.Compare(v, w)), b2i(semver.IsValid(v)), b2i(semver.IsValid(w)),
		common.Hex(semver.Canonical(v)), common.Hex(semver.Canonical(w)),
		common.Hex(semver.Major(v)), common.Hex(semver.Major(w)),
		common.Hex(module.Versions{}.Max(v, w)))
	return c, impl
}

// replayCases re-runs explicit cases (lines in the cases.txt format).
func replayCases(path string, out *common.Out, reps int) {
	data, err := os.ReadFile(path)
	if err != nil {
		panic(err)
	}
	for _, line := range strings.Split(strings.TrimSpace(string(data)), "\n") {
		f := strings.Fields(line)
		if len(f) == 0 {
			continue
		}
		switch f[0] {
		case "SV":
			out.Emit(svLine(common.Unhex(f[1]), common.Unhex(f[2])))
		case "MVS", "TR":
			parts := strings.Split(line, "|")
			var targets []node
			for _, t := range strings.Fields(parts[0])[1:] {
				targets = append(targets, parseNode(t))
			}
			g := map[node][]node{}
			var order []node
			for _, e := range strings.Split(parts[1], ";") {
				w := strings.Fields(e)
				if len(w) == 0 {
					continue
				}
				m := parseNode(w[0])
				var rs []node
				for _, x := range w[1:] {
					if x != ">" {
						rs = append(rs, parseNode(x))
					}
				}
				g[m] = rs
				order = append(order, m)
			}
			runGraph(common.NewRng(7), out, reps, targets, g, order)
		}
	}
}

func parseNode(t string) node {
	i := strings.IndexByte(t, '@')
	return node{t[:i], t[i+1:]}
}

func main() {
	a := common.Args(os.Args[1:])
	seed := uint64(common.Atoi(a["--seed"], 1))
	nsv := common.Atoi(a["--nsv"], 1000)
	nmvs := common.Atoi(a["--nmvs"], 100)
	reps := common.Atoi(a["--reps"], 6)
	dir := a["--out"]
	out := common.NewOut(dir)
	defer out.Close()
	r := common.NewRng(seed)
	if f := a["--replay-cases"]; f != "" {
		replayCases(f, out, reps)
		return
	}
	// corpus: fixed interesting strings, all pairs
	fixed := []string{"", "v", "v1", "v1.0", "v1.0.0", "v01.0.0", "v1.00.0", "v1.0.0-", "v1.0.0-a..b", "v1.0.0-01", "v1.0.0-0a",
		"v1.0.0-alpha", "v1.0.0-alpha.1", "v1.0.0-alpha.beta", "v1.0.0-beta", "v1.0.0-beta.2", "v1.0.0-beta.11", "v1.0.0-rc.1",
		"v1.0.0+build", "v1.0.0-rc.1+build.5", "v1.0.0+", "v1.0.0+a..b", "v1.2", "v1.2-pre", "v1+meta", "none", "1.0.0",
		"v1.0.0-1", "v1.0.0-2", "v1.0.0-10", "v1.0.0-a", "v1.0.0--", "v2.0.0", "v10.0.0", "v9.0.0", "v1.0.0\n", "v1.0.0 ", "V1.0.0"}
	for _, v := range fixed {
		for _, w := range fixed {
			out.Emit(svLine(v, w))
		}
	}
	rs := r.Fork()
	for i := 0; i < nsv; i++ {
		v := genVersion(rs)
		var w string
		if rs.Chance(1, 3) {
			w = mutateNear(rs, v)
		} else {
			w = genVersion(rs)
		}
		out.Emit(svLine(v, w))
	}
	rm := r.Fork()
	for i := 0; i < nmvs; i++ {
		runMVS(rm, out, reps)
	}
	fmt.Fprintf(os.Stderr, "c14 harness: %d cases\n", out.N)
}
