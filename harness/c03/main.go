// C03 harness: scalar unification of the working tree, printed in the format
// the extracted Coq model prints (see ocaml/c03_driver.ml for the grammar).
//
//	SB cases call adt.SimplifyBounds directly;
//	EV cases compile CUE source (many fields per file) with cue.Context.CompileString
//	and observe bottom / incomplete / concrete atom for `expr`, `expr & atom`
//	and expr.Unify(atom).
package main

import (
	"bufio"
	"fmt"
	"math/big"
	"os"
	"regexp"
	"sort"
	"strconv"
	"strings"

	"cuelang.org/go/cue"
	"cuelang.org/go/cue/cuecontext"
	"cuelang.org/go/cue/literal"
	"cuelang.org/go/internal/core/adt"
	"cuelang.org/go/internal/core/eval"
	"cuelang.org/go/internal/core/runtime"
	"cuelang.org/go/internal/verifharness/common"
)

// ---------------------------------------------------------------- atoms ----

type atom struct {
	k    byte // n b i f s y
	b    bool
	neg  bool
	coef *big.Int // absolute value of the coefficient
	exp  int
	s    string
}

func mkInt(z int64) atom {
	c := big.NewInt(z)
	neg := z < 0
	c.Abs(c)
	return atom{k: 'i', neg: neg, coef: c}
}

func mkBigInt(z *big.Int) atom {
	c := new(big.Int).Abs(z)
	return atom{k: 'i', neg: z.Sign() < 0, coef: c}
}

func mkFloat(neg bool, coef *big.Int, exp int) atom {
	if coef.Sign() == 0 {
		neg = false
	}
	return atom{k: 'f', neg: neg, coef: new(big.Int).Set(coef), exp: exp}
}

func (a atom) tok() string {
	switch a.k {
	case 'n':
		return "n"
	case 'b':
		if a.b {
			return "b1"
		}
		return "b0"
	case 'i':
		if a.neg {
			return "i-" + a.coef.String()
		}
		return "i" + a.coef.String()
	case 'f':
		sg := "+"
		if a.neg {
			sg = "-"
		}
		return "f" + sg + a.coef.String() + "e" + strconv.Itoa(a.exp)
	case 's':
		return "s" + common.Hex(a.s)
	case 'y':
		return "y" + common.Hex(a.s)
	}
	panic("bad atom")
}

// cue renders the atom as CUE source whose literal has exactly this
// (sign, coefficient, exponent); checked once per literal by litCheck.
func (a atom) cue() string {
	switch a.k {
	case 'n':
		return "null"
	case 'b':
		if a.b {
			return "true"
		}
		return "false"
	case 'i':
		if a.neg {
			return "-" + a.coef.String()
		}
		return a.coef.String()
	case 'f':
		d := a.coef.String()
		var t string
		if a.exp < 0 {
			n := -a.exp
			if len(d) <= n {
				d = strings.Repeat("0", n-len(d)+1) + d
			}
			t = d[:len(d)-n] + "." + d[len(d)-n:]
		} else {
			t = d + "e" + strconv.Itoa(a.exp)
		}
		if a.neg {
			return "-" + t
		}
		return t
	case 's':
		return literal.String.Quote(a.s)
	case 'y':
		return literal.Bytes.Quote(a.s)
	}
	panic("bad atom")
}

func parseAtom(t string) atom {
	switch t[0] {
	case 'n':
		return atom{k: 'n'}
	case 'b':
		return atom{k: 'b', b: t[1] == '1'}
	case 'i':
		z, ok := new(big.Int).SetString(t[1:], 10)
		if !ok {
			panic("bad int " + t)
		}
		return mkBigInt(z)
	case 'f':
		body := t[2:]
		e := strings.IndexByte(body, 'e')
		c, ok := new(big.Int).SetString(body[:e], 10)
		if !ok {
			panic("bad float " + t)
		}
		x, err := strconv.Atoi(body[e+1:])
		if err != nil {
			panic(err)
		}
		return atom{k: 'f', neg: t[1] == '-', coef: c, exp: x}
	case 's':
		return atom{k: 's', s: common.Unhex(t[1:])}
	case 'y':
		return atom{k: 'y', s: common.Unhex(t[1:])}
	}
	panic("bad atom " + t)
}

func (a atom) isNum() bool { return a.k == 'i' || a.k == 'f' }

func (a atom) adt() adt.Value {
	switch a.k {
	case 'n':
		return &adt.Null{}
	case 'b':
		return &adt.Bool{B: a.b}
	case 'i', 'f':
		n := &adt.Num{K: adt.IntKind}
		if a.k == 'f' {
			n.K = adt.FloatKind
		}
		n.X.Coeff.SetMathBigInt(a.coef)
		n.X.Negative = a.neg
		n.X.Exponent = int32(a.exp)
		return n
	case 's':
		return &adt.String{Str: a.s}
	case 'y':
		return &adt.Bytes{B: []byte(a.s)}
	}
	panic("bad atom")
}

// ---------------------------------------------------------- constraints ----

type constr struct {
	k    byte // A T B R
	a    atom
	op   string // lt le gt ge ne ma nm
	name string
}

var opText = map[string]string{"lt": "<", "le": "<=", "gt": ">", "ge": ">=", "ne": "!=", "ma": "=~", "nm": "!~"}
var opAdt = map[string]adt.Op{"lt": adt.LessThanOp, "le": adt.LessEqualOp, "gt": adt.GreaterThanOp,
	"ge": adt.GreaterEqualOp, "ne": adt.NotEqualOp, "ma": adt.MatchOp, "nm": adt.NotMatchOp}

func (c constr) tok() string {
	switch c.k {
	case 'A':
		return "A" + c.a.tok()
	case 'T':
		return "T" + c.name
	case 'B':
		return "B" + c.op + "," + c.a.tok()
	case 'R':
		return "R" + c.name
	}
	panic("bad constr")
}

func (c constr) cue() string {
	switch c.k {
	case 'A':
		return c.a.cue()
	case 'T', 'R':
		return c.name
	case 'B':
		t := c.a.cue()
		if strings.HasPrefix(t, "-") {
			return opText[c.op] + " " + t // "<-" would lex as the arrow token
		}
		return opText[c.op] + t
	}
	panic("bad constr")
}

func parseConstr(t string) constr {
	switch t[0] {
	case 'A':
		return constr{k: 'A', a: parseAtom(t[1:])}
	case 'T':
		return constr{k: 'T', name: t[1:]}
	case 'B':
		i := strings.IndexByte(t, ',')
		return constr{k: 'B', op: t[1:i], a: parseAtom(t[i+1:])}
	case 'R':
		return constr{k: 'R', name: t[1:]}
	}
	panic("bad constr " + t)
}

func exprText(cs []constr) string {
	parts := make([]string, len(cs))
	for i, c := range cs {
		parts[i] = c.cue()
	}
	return strings.Join(parts, " & ")
}

// regexp verdict table for a case: every pattern x every string in the case
func reTable(cs []constr, probes []atom, extra ...atom) string {
	var pats, subj []string
	add := func(l *[]string, s string) {
		for _, x := range *l {
			if x == s {
				return
			}
		}
		*l = append(*l, s)
	}
	for _, c := range cs {
		if c.k == 'B' && (c.op == "ma" || c.op == "nm") {
			add(&pats, c.a.s)
		}
		if (c.k == 'A' || c.k == 'B') && c.a.k == 's' {
			add(&subj, c.a.s)
		}
	}
	for _, a := range append(probes, extra...) {
		if a.k == 's' {
			add(&subj, a.s)
		}
	}
	if len(pats) == 0 {
		return ""
	}
	var b strings.Builder
	for _, p := range pats {
		re := regexp.MustCompile(p)
		for _, s := range subj {
			v := "0"
			if re.MatchString(s) {
				v = "1"
			}
			fmt.Fprintf(&b, " %s:%s:%s", common.Hex(p), common.Hex(s), v)
		}
	}
	return " |" + b.String()
}

// ------------------------------------------------------- implementation ----

type evcase struct {
	cs     []constr
	probes []atom
}

func (e evcase) line() string {
	var b strings.Builder
	b.WriteString("EV")
	for _, c := range e.cs {
		b.WriteString(" " + c.tok())
	}
	b.WriteString(" |")
	for _, a := range e.probes {
		b.WriteString(" " + a.tok())
	}
	b.WriteString(reTable(e.cs, e.probes))
	return b.String()
}

var litChecked = map[string]bool{}

// atomOf reads a concrete scalar back from the evaluator.
func atomOf(v cue.Value) (atom, bool) {
	switch v.Kind() {
	case cue.NullKind:
		return atom{k: 'n'}, true
	case cue.BoolKind:
		b, err := v.Bool()
		return atom{k: 'b', b: b}, err == nil
	case cue.IntKind, cue.FloatKind:
		d, err := v.Decimal()
		if err != nil {
			return atom{}, false
		}
		a := atom{k: 'f', neg: d.Negative, coef: new(big.Int).Set(d.Coeff.MathBigInt()), exp: int(d.Exponent)}
		if v.Kind() == cue.IntKind {
			a.k = 'i'
			if a.exp != 0 {
				return a, false
			}
		}
		return a, true
	case cue.StringKind:
		s, err := v.String()
		return atom{k: 's', s: s}, err == nil
	case cue.BytesKind:
		s, err := v.Bytes()
		return atom{k: 'y', s: string(s)}, err == nil
	}
	return atom{}, false
}

// classify maps a value to the observable: B bottom, I incomplete, =atom.
func classify(v cue.Value) string {
	if !v.Exists() {
		return "?missing"
	}
	if err := v.Err(); err != nil {
		return "B"
	}
	if !v.IsConcrete() {
		return "I"
	}
	a, ok := atomOf(v)
	if !ok {
		return "?kind:" + v.Kind().String()
	}
	return "=" + a.tok()
}

// runBatch evaluates the cases of one CUE file.
func runBatch(cases []evcase, out *common.Out) {
	var src strings.Builder
	atoms := map[string]int{}
	var atomList []atom
	for i, e := range cases {
		ex := exprText(e.cs)
		fmt.Fprintf(&src, "e%d: %s\n", i, ex)
		for j, a := range e.probes {
			fmt.Fprintf(&src, "p%d_%d: %s & %s\n", i, j, ex, a.cue())
			if _, ok := atoms[a.tok()]; !ok {
				atoms[a.tok()] = len(atomList)
				atomList = append(atomList, a)
			}
		}
	}
	for k, a := range atomList {
		fmt.Fprintf(&src, "a%d: %s\n", k, a.cue())
	}
	ctx := cuecontext.New()
	root := ctx.CompileString(src.String())
	look := func(name string) cue.Value { return root.LookupPath(cue.MakePath(cue.Str(name))) }
	if !look("e0").Exists() {
		fmt.Fprintf(os.Stderr, "c03 harness: generated file does not compile: %v\n%s\n", root.Err(), src.String())
		os.Exit(3)
	}
	avals := make([]cue.Value, len(atomList))
	for k, a := range atomList {
		avals[k] = look("a" + strconv.Itoa(k))
		if !litChecked[a.tok()] {
			// the literal must denote exactly the token the model is given
			if got := classify(avals[k]); got != "="+a.tok() {
				fmt.Fprintf(os.Stderr, "c03 harness: literal %s reads back as %s, expected =%s\n", a.cue(), got, a.tok())
				os.Exit(3)
			}
			litChecked[a.tok()] = true
		}
	}
	for i, e := range cases {
		ev := look("e" + strconv.Itoa(i))
		var b strings.Builder
		b.WriteString(classify(ev))
		for j, a := range e.probes {
			pv := look("p" + strconv.Itoa(i) + "_" + strconv.Itoa(j))
			uv := ev.Unify(avals[atoms[a.tok()]])
			b.WriteString(" " + classify(pv) + "," + classify(uv))
		}
		out.Emit(e.line(), b.String())
	}
}

var sbCtx *adt.OpContext

// sbCase calls adt.SimplifyBounds(ctx, k, x, y) and reports which value came back.
func sbCase(k int, o1 string, a1 atom, o2 string, a2 atom) (string, string) {
	if sbCtx == nil || sbCtx.HasErr() {
		sbCtx = eval.NewContext(runtime.New(), &adt.Vertex{})
	}
	x := &adt.BoundValue{Op: opAdt[o1], Value: a1.adt()}
	y := &adt.BoundValue{Op: opAdt[o2], Value: a2.adt()}
	line := fmt.Sprintf("SB %d %s %s %s %s", k, o1, a1.tok(), o2, a2.tok())
	line += reTable([]constr{{k: 'B', op: o1, a: a1}, {k: 'B', op: o2, a: a2}}, nil)
	var res string
	switch v := adt.SimplifyBounds(sbCtx, adt.Kind(k), x, y).(type) {
	case nil:
		res = "N"
	case *adt.BoundValue:
		if v == x {
			res = "X"
		} else if v == y {
			res = "Y"
		} else {
			res = "?other-bound"
		}
	case *adt.Bottom:
		res = "B"
	default:
		res = fmt.Sprintf("?%T", v)
	}
	return line, res
}

// ------------------------------------------------------------ alphabets ----

type alphabet struct {
	nums, strs, bys, others []atom // atoms
	atoms                   []atom
	constrs                 []constr
}

func halfFloat(h int) atom { // h/2 written with one decimal place
	neg := h < 0
	if neg {
		h = -h
	}
	return mkFloat(neg, big.NewInt(int64(h*5)), -1)
}

func buildAlphabet(lo, hi int, strs, bys, pats, types, ranges []string, invalid bool) alphabet {
	var al alphabet
	for z := lo; z <= hi; z++ {
		al.nums = append(al.nums, mkInt(int64(z)))
	}
	for h := 2 * lo; h <= 2*hi; h++ {
		al.nums = append(al.nums, halfFloat(h))
	}
	for _, s := range strs {
		al.strs = append(al.strs, atom{k: 's', s: s})
	}
	for _, s := range bys {
		al.bys = append(al.bys, atom{k: 'y', s: s})
	}
	al.others = []atom{{k: 'b', b: true}, {k: 'b', b: false}, {k: 'n'}}
	al.atoms = append(al.atoms, al.nums...)
	al.atoms = append(al.atoms, al.strs...)
	al.atoms = append(al.atoms, al.bys...)
	al.atoms = append(al.atoms, al.others...)
	for _, a := range al.atoms {
		al.constrs = append(al.constrs, constr{k: 'A', a: a})
	}
	for _, t := range types {
		al.constrs = append(al.constrs, constr{k: 'T', name: t})
	}
	for _, op := range []string{"lt", "le", "gt", "ge"} {
		for _, a := range al.atoms {
			if a.k == 'b' || a.k == 'n' {
				continue
			}
			al.constrs = append(al.constrs, constr{k: 'B', op: op, a: a})
		}
	}
	for _, a := range al.atoms {
		al.constrs = append(al.constrs, constr{k: 'B', op: "ne", a: a})
	}
	if invalid {
		al.constrs = append(al.constrs, constr{k: 'B', op: "lt", a: atom{k: 'n'}}, constr{k: 'B', op: "ge", a: atom{k: 'b', b: true}})
	}
	for _, p := range pats {
		al.constrs = append(al.constrs, constr{k: 'B', op: "ma", a: atom{k: 's', s: p}}, constr{k: 'B', op: "nm", a: atom{k: 's', s: p}})
	}
	for _, r := range ranges {
		al.constrs = append(al.constrs, constr{k: 'R', name: r})
	}
	return al
}

var allTypes = []string{"null", "bool", "int", "float", "number", "string", "bytes"}
var allRanges = []string{"uint", "uint8", "int8", "uint16", "int16", "rune", "uint32", "int32", "uint64", "int64", "uint128", "int128", "float32", "float64"}

func fullAlphabet() alphabet {
	return buildAlphabet(-2, 2, []string{"", "a", "b"}, []string{"", "a"}, []string{"^a", "b$"}, allTypes,
		[]string{"uint", "uint8", "int8", "float32"}, true)
}

func coreAlphabet() alphabet {
	return buildAlphabet(-1, 1, []string{"a", "b"}, []string{"a"}, []string{"^a"}, allTypes, []string{"uint", "int8"}, false)
}

func miniAlphabet() alphabet {
	al := buildAlphabet(0, 1, nil, nil, nil, []string{"int", "float", "number"}, nil, false)
	return al
}

// ------------------------------------------------------ random decimals ----

func randDigits(r *common.Rng, n int) *big.Int {
	var b strings.Builder
	b.WriteByte(byte('1' + r.Intn(9)))
	for i := 1; i < n; i++ {
		switch r.Intn(6) {
		case 0:
			b.WriteByte('0')
		case 1:
			b.WriteByte('9')
		case 2:
			b.WriteByte('5')
		default:
			b.WriteByte(byte('0' + r.Intn(10)))
		}
	}
	z, _ := new(big.Int).SetString(b.String(), 10)
	return z
}

var ten = big.NewInt(10)

func pow10(n int) *big.Int { return new(big.Int).Exp(ten, big.NewInt(int64(n)), nil) }

// neighbours returns decimals around a random base: equal value in other
// spellings, +-1 ulp, +-1, +-2, the surrounding integers; as float and, when
// integral, as int.
func neighbours(r *common.Rng) []atom {
	nd := 1 + r.Intn(12)
	switch r.Intn(5) {
	case 0:
		nd = 30 + r.Intn(10) // around the 34 digit precision
	case 1:
		nd = 34 + r.Intn(27) // beyond it
	}
	coef := randDigits(r, nd)
	exp := 0
	switch r.Intn(6) {
	case 0:
		exp = -r.Intn(4)
	case 1:
		exp = -r.Intn(nd + 3)
	case 2:
		exp = -r.Intn(45)
	case 3:
		exp = r.Intn(6)
	case 4:
		exp = r.Intn(45)
	case 5:
		exp = -1
	}
	neg := r.Intn(3) == 0
	signed := new(big.Int).Set(coef)
	if neg {
		signed.Neg(signed)
	}
	var out []atom
	seen := map[string]bool{}
	add := func(a atom) {
		if !seen[a.tok()] {
			seen[a.tok()] = true
			out = append(out, a)
		}
	}
	// addVal adds the value s*10^e as float (and int when integral)
	addVal := func(s *big.Int, e int) {
		c := new(big.Int).Abs(s)
		add(mkFloat(s.Sign() < 0, c, e))
		if e >= 0 {
			add(mkBigInt(new(big.Int).Mul(s, pow10(e))))
		} else {
			q, m := new(big.Int).QuoRem(s, pow10(-e), new(big.Int))
			if m.Sign() == 0 {
				add(mkBigInt(q))
			}
		}
	}
	addVal(signed, exp)
	// other spelling of the same value
	addVal(new(big.Int).Mul(signed, ten), exp-1)
	// +- 1 ulp
	addVal(new(big.Int).Add(signed, big.NewInt(1)), exp)
	addVal(new(big.Int).Sub(signed, big.NewInt(1)), exp)
	// +-1, +-2 and the surrounding integers
	var unit *big.Int
	e0 := exp
	s0 := signed
	if exp > 0 {
		s0 = new(big.Int).Mul(signed, pow10(exp))
		e0 = 0
	}
	unit = pow10(-e0)
	for _, d := range []int64{1, -1, 2, -2} {
		addVal(new(big.Int).Add(s0, new(big.Int).Mul(unit, big.NewInt(d))), e0)
	}
	if e0 < 0 {
		fl := new(big.Int).Div(s0, unit) // floor (Euclidean for positive modulus)
		for _, d := range []int64{-1, 0, 1, 2} {
			add(mkBigInt(new(big.Int).Add(fl, big.NewInt(d))))
		}
		// half way
		addVal(new(big.Int).Add(new(big.Int).Mul(fl, unit), new(big.Int).Div(unit, big.NewInt(2))), e0)
	}
	return out
}

// strNeighbours returns strings (or byte strings) around a random base:
// prefixes, extensions, last element +-1, multi-byte runes.
func strNeighbours(r *common.Rng, asBytes bool) []atom {
	k := byte('s')
	if asBytes {
		k = 'y'
	}
	runes := []string{"a", "b", "c", "z", "A", " ", "0", "\u00e9", "\u00ff", "\u65e5", "~"}
	if asBytes {
		runes = append(runes, "\x00", "\x7f", "\x80", "\xff")
	}
	var base string
	for i, n := 0, r.Intn(5); i < n; i++ {
		base += common.Pick(r, runes)
	}
	var out []atom
	seen := map[string]bool{}
	add := func(s string) {
		if !seen[s] {
			seen[s] = true
			out = append(out, atom{k: k, s: s})
		}
	}
	add(base)
	add(base + common.Pick(r, runes))
	add(base + "a")
	add("")
	if len(base) > 0 {
		// drop the last rune
		rs := []rune(base)
		if asBytes {
			add(base[:len(base)-1])
		} else {
			add(string(rs[:len(rs)-1]))
		}
		if !asBytes {
			last := rs[len(rs)-1]
			add(string(rs[:len(rs)-1]) + string(last+1))
			if last > 1 {
				add(string(rs[:len(rs)-1]) + string(last-1))
			}
		} else {
			b := []byte(base)
			c := b[len(b)-1]
			add(string(append(append([]byte(nil), b[:len(b)-1]...), c+1)))
			add(string(append(append([]byte(nil), b[:len(b)-1]...), c-1)))
		}
	}
	add(common.Pick(r, runes) + base)
	return out
}

// --------------------------------------------------------------- driver ----

func main() {
	args := common.Args(os.Args[1:])
	seed := uint64(common.Atoi(args["--seed"], 1))
	outDir := args["--out"]
	if outDir == "" {
		outDir = "."
	}
	out := common.NewOut(outDir)
	defer out.Close()
	stats := map[string]int{}

	batch := make([]evcase, 0, 512)
	fields := 0
	flush := func() {
		if len(batch) > 0 {
			runBatch(batch, out)
			batch = batch[:0]
			fields = 0
		}
	}
	emitEV := func(kind string, cs []constr, probes []atom) {
		stats[kind]++
		stats["ev_probes"] += len(probes)
		batch = append(batch, evcase{cs: append([]constr(nil), cs...), probes: probes})
		fields += 1 + len(probes)
		if fields >= 600 {
			flush()
		}
	}
	emitSB := func(kind string, k int, o1 string, a1 atom, o2 string, a2 atom) {
		stats[kind]++
		l, r := sbCase(k, o1, a1, o2, a2)
		out.Emit(l, r)
	}

	if f := args["--replay-cases"]; f != "" {
		fh, err := os.Open(f)
		if err != nil {
			panic(err)
		}
		sc := bufio.NewScanner(fh)
		sc.Buffer(make([]byte, 1<<20), 1<<26)
		for sc.Scan() {
			replayLine(sc.Text(), emitEV, emitSB)
		}
		flush()
		return
	}

	// corpus lines first
	if f := args["--corpus"]; f != "" {
		if fh, err := os.Open(f); err == nil {
			sc := bufio.NewScanner(fh)
			sc.Buffer(make([]byte, 1<<20), 1<<26)
			for sc.Scan() {
				t := strings.TrimSpace(sc.Text())
				if t == "" || strings.HasPrefix(t, "#") {
					continue
				}
				replayLine(t, func(_ string, cs []constr, p []atom) { emitEV("corpus", cs, p) },
					func(_ string, k int, o1 string, a1 atom, o2 string, a2 atom) { emitSB("corpus", k, o1, a1, o2, a2) })
			}
			fh.Close()
		}
	}

	rng := common.NewRng(seed)
	full := fullAlphabet()
	core := coreAlphabet()
	mini := miniAlphabet()

	// probes relevant for a conjunction: all atoms of every family mentioned,
	// one representative of each other family
	probesFor := func(al alphabet, cs []constr) []atom {
		num, st, by := false, false, false
		for _, c := range cs {
			switch {
			case c.k == 'R':
				num = true
			case c.k == 'T':
				switch c.name {
				case "int", "float", "number":
					num = true
				case "string":
					st = true
				case "bytes":
					by = true
				}
			default:
				switch c.a.k {
				case 'i', 'f':
					num = true
				case 's':
					st = true
				case 'y':
					by = true
				}
			}
		}
		var p []atom
		if num {
			p = append(p, al.nums...)
		} else if len(al.nums) > 0 {
			p = append(p, al.nums[0], al.nums[len(al.nums)-1])
		}
		if st {
			p = append(p, al.strs...)
		} else if len(al.strs) > 0 {
			p = append(p, al.strs[0])
		}
		if by {
			p = append(p, al.bys...)
		} else if len(al.bys) > 0 {
			p = append(p, al.bys[0])
		}
		if !(num && !st && !by) || rng.Intn(8) == 0 {
			p = append(p, al.others...)
		} else {
			p = append(p, al.others[2])
		}
		return p
	}

	// (1) direct SimplifyBounds over the dense number alphabet, every operator pair, k in int/float/number
	sbOps := []string{"lt", "le", "gt", "ge", "ne"}
	nSB := common.Atoi(args["--sb-dense"], 1)
	if nSB > 0 {
		for _, k := range []int{4, 8, 12} {
			for _, o1 := range sbOps {
				for _, a1 := range full.nums {
					for _, o2 := range sbOps {
						for _, a2 := range full.nums {
							emitSB("sb_dense_num", k, o1, a1, o2, a2)
						}
					}
				}
			}
		}
		strOps := []string{"lt", "le", "gt", "ge", "ne", "ma", "nm"}
		strs := []atom{{k: 's', s: ""}, {k: 's', s: "a"}, {k: 's', s: "ab"}, {k: 's', s: "b"}, {k: 's', s: "^a"}, {k: 's', s: "b$"}}
		for _, o1 := range strOps {
			for _, a1 := range strs {
				for _, o2 := range strOps {
					for _, a2 := range strs {
						emitSB("sb_dense_str", 16, o1, a1, o2, a2)
					}
				}
			}
		}
		bys := []atom{{k: 'y', s: ""}, {k: 'y', s: "a"}, {k: 'y', s: "ab"}, {k: 'y', s: "b"}, {k: 'y', s: "\xff"}}
		for _, o1 := range sbOps {
			for _, a1 := range bys {
				for _, o2 := range sbOps {
					for _, a2 := range bys {
						emitSB("sb_dense_bytes", 32, o1, a1, o2, a2)
					}
				}
			}
		}
		// != against null / bool / other families (the kind-conflict pairs reach SimplifyBounds too)
		mixed := []atom{{k: 'n'}, {k: 'b', b: true}, {k: 'b', b: false}, mkInt(1), halfFloat(2), {k: 's', s: "a"}, {k: 'y', s: "a"}}
		for _, a1 := range mixed {
			for _, o2 := range sbOps {
				for _, a2 := range mixed {
					for _, k := range []int{511, 510, 12, 16, 2} {
						emitSB("sb_mixed", k, "ne", a1, o2, a2)
						if o2 != "ne" {
							emitSB("sb_mixed", k, o2, a2, "ne", a1)
						}
					}
				}
			}
		}
	}

	// (2) direct SimplifyBounds on random decimals near each other
	nSBR := common.Atoi(args["--sb-random"], 3000)
	for i := 0; i < nSBR; i++ {
		ns := neighbours(rng)
		for j := 0; j < 6; j++ {
			a1 := common.Pick(rng, ns)
			a2 := common.Pick(rng, ns)
			k := common.Pick(rng, []int{4, 8, 12, 12, 4})
			emitSB("sb_random", k, common.Pick(rng, sbOps), a1, common.Pick(rng, sbOps), a2)
		}
	}

	// (3) end to end: singles over the full alphabet x every atom
	if common.Atoi(args["--singles"], 1) > 0 {
		for _, c := range full.constrs {
			emitEV("ev_single", []constr{c}, full.atoms)
		}
		for _, r := range allRanges {
			emitEV("ev_single", []constr{{k: 'R', name: r}}, full.atoms)
		}
	}

	// (4) pairs: exhaustive over the core alphabet
	if common.Atoi(args["--pairs"], 1) > 0 {
		for _, c1 := range core.constrs {
			for _, c2 := range core.constrs {
				cs := []constr{c1, c2}
				emitEV("ev_pair_core", cs, probesFor(core, cs))
			}
		}
	}
	// ... and over the full alphabet (thorough)
	if common.Atoi(args["--pairs"], 1) > 1 {
		for _, c1 := range full.constrs {
			for _, c2 := range full.constrs {
				cs := []constr{c1, c2}
				emitEV("ev_pair_full", cs, probesFor(full, cs))
			}
		}
	}

	// (5) triples: exhaustive over the mini alphabet (thorough) ...
	if common.Atoi(args["--triples-mini"], 0) > 0 {
		for _, c1 := range mini.constrs {
			for _, c2 := range mini.constrs {
				for _, c3 := range mini.constrs {
					cs := []constr{c1, c2, c3}
					emitEV("ev_triple_mini", cs, mini.nums)
				}
			}
		}
	}
	// ... and random conjunctions of 2..4 constraints over the full alphabet;
	// the first constraint fixes a family so that most conjunctions are consistent in kind
	nRand := common.Atoi(args["--rand"], 2000)
	maxLen := common.Atoi(args["--maxlen"], 3)
	family := func(c constr) byte {
		switch c.k {
		case 'R':
			return 'N'
		case 'T':
			switch c.name {
			case "int", "float", "number":
				return 'N'
			case "string":
				return 's'
			case "bytes":
				return 'y'
			}
			return c.name[0]
		}
		if c.a.isNum() {
			return 'N'
		}
		return c.a.k
	}
	byFam := map[byte][]constr{}
	for _, c := range full.constrs {
		byFam[family(c)] = append(byFam[family(c)], c)
	}
	for i := 0; i < nRand; i++ {
		n := 2 + rng.Intn(maxLen-1)
		if rng.Intn(3) > 0 {
			n = maxLen
		}
		first := common.Pick(rng, full.constrs)
		cs := []constr{first}
		for len(cs) < n {
			if rng.Intn(8) == 0 {
				cs = append(cs, common.Pick(rng, full.constrs))
			} else {
				cs = append(cs, common.Pick(rng, byFam[family(first)]))
			}
		}
		common.Shuffle(rng, cs)
		emitEV(fmt.Sprintf("ev_rand_%d", n), cs, probesFor(full, cs))
	}

	// (6) random high-precision / large-magnitude decimals near each other
	nBig := common.Atoi(args["--big"], 1500)
	relOps := []string{"lt", "le", "gt", "ge"}
	for i := 0; i < nBig; i++ {
		ns := neighbours(rng)
		n := 2 + rng.Intn(maxLen-1)
		var cs []constr
		for len(cs) < n {
			switch rng.Intn(10) {
			case 0:
				cs = append(cs, constr{k: 'T', name: common.Pick(rng, []string{"int", "float", "number", "int", "int"})})
			case 1:
				cs = append(cs, constr{k: 'B', op: "ne", a: common.Pick(rng, ns)})
			case 2:
				if rng.Intn(3) == 0 {
					cs = append(cs, constr{k: 'A', a: common.Pick(rng, ns)})
				} else {
					cs = append(cs, constr{k: 'R', name: common.Pick(rng, allRanges)})
				}
			default:
				cs = append(cs, constr{k: 'B', op: common.Pick(rng, relOps), a: common.Pick(rng, ns)})
			}
		}
		probes := ns
		if len(probes) > 10 {
			common.Shuffle(rng, probes)
			probes = probes[:10]
		}
		emitEV("ev_big", cs, probes)
	}
	// (7) random strings / bytes near each other, with every operator incl. regexps
	nStr := common.Atoi(args["--strs"], 1200)
	strOps := []string{"lt", "le", "gt", "ge", "ne"}
	pats := []string{"^a", "b$", "a.c", "^[a-c]+$", "\u00e9", "", "^$", "a|z"}
	for i := 0; i < nStr; i++ {
		asBytes := rng.Intn(3) == 0
		ns := strNeighbours(rng, asBytes)
		n := 1 + rng.Intn(maxLen)
		var cs []constr
		for len(cs) < n {
			switch rng.Intn(9) {
			case 0:
				if asBytes {
					cs = append(cs, constr{k: 'T', name: "bytes"})
				} else {
					cs = append(cs, constr{k: 'T', name: "string"})
				}
			case 1:
				cs = append(cs, constr{k: 'A', a: common.Pick(rng, ns)})
			case 2, 3:
				if asBytes {
					cs = append(cs, constr{k: 'B', op: "ne", a: common.Pick(rng, ns)})
				} else {
					cs = append(cs, constr{k: 'B', op: common.Pick(rng, []string{"ma", "nm"}), a: atom{k: 's', s: common.Pick(rng, pats)}})
				}
			default:
				cs = append(cs, constr{k: 'B', op: common.Pick(rng, strOps), a: common.Pick(rng, ns)})
			}
		}
		probes := append([]atom(nil), ns...)
		if len(probes) > 9 {
			common.Shuffle(rng, probes)
			probes = probes[:9]
		}
		probes = append(probes, mkInt(1))
		emitEV("ev_str", cs, probes)
	}
	flush()

	// input distribution, printed into the evidence by the check
	keys := make([]string, 0, len(stats))
	for k := range stats {
		keys = append(keys, k)
	}
	sort.Strings(keys)
	var sb strings.Builder
	for _, k := range keys {
		fmt.Fprintf(&sb, "%s=%d ", k, stats[k])
	}
	os.WriteFile(outDir+"/stats.txt", []byte(strings.TrimSpace(sb.String())+"\n"), 0o644)
}

func replayLine(t string, emitEV func(string, []constr, []atom), emitSB func(string, int, string, atom, string, atom)) {
	parts := strings.Split(t, "|")
	w := strings.Fields(parts[0])
	if len(w) == 0 {
		return
	}
	switch w[0] {
	case "SB":
		k, _ := strconv.Atoi(w[1])
		emitSB("replay", k, w[2], parseAtom(w[3]), w[4], parseAtom(w[5]))
	case "EV":
		var cs []constr
		for _, c := range w[1:] {
			cs = append(cs, parseConstr(c))
		}
		var probes []atom
		if len(parts) > 1 {
			for _, a := range strings.Fields(parts[1]) {
				probes = append(probes, parseAtom(a))
			}
		}
		emitEV("replay", cs, probes)
	}
}
