package main

// The task-graph CONFIGURATION of a generated workflow in the language of the Coq
// model Flow/Discover.v (flat list of entries: field path, guard, item), mirroring
// render(): the model discovers tasks and dependencies from it, the way
// tools/flow/tasks.go + internal/core/dep do from the CUE value.
//
// Field numbering (only identity matters): root = 0, t<i> = 100+i, g<k> = 200+k,
// mid<p> = 300+p, a<i>x<j> = 1000+20i+j, A<i>x<j> (top level) = 2000+20i+j,
// b<i>x<j> = 3000+20i+j, c<i>x<j> = 4000+20i+j; any field inside a task = 1.

import (
	"fmt"
	"strconv"
	"strings"

	"cuelang.org/go/internal/verifharness/common"
)

func pstr(p []int) string {
	ss := make([]string, len(p))
	for i, x := range p {
		ss[i] = strconv.Itoa(x)
	}
	return strings.Join(ss, ".")
}

func (w *wfSpec) tpath(j int) []int {
	t := &w.tasks[j]
	if t.trig >= 0 {
		return []int{0, 300 + t.trig, 100 + j}
	}
	if t.group >= 0 {
		return []int{0, 200 + t.group, 100 + j}
	}
	return []int{0, 100 + j}
}

func (w *wfSpec) config() string {
	var ents, aux []string
	sub := func(j int, more ...int) string { return pstr(append(append([]int{}, w.tpath(j)...), more...)) }
	taskEntry := func(i int) string {
		t := &w.tasks[i]
		var refs []string
		for _, e := range t.edges {
			switch e.form {
			case fRoot:
				refs = append(refs, sub(e.to))
			case fOut, fInterp, fDeep, fLateRef:
				refs = append(refs, sub(e.to, 1))
			case fNested:
				refs = append(refs, sub(e.to, 2, 3, 4))
			case fAux:
				a := []int{0, 1000 + 20*i + e.to}
				aux = append(aux, fmt.Sprintf("%s:-:R:%s", pstr(a), sub(e.to, 1)))
				refs = append(refs, pstr(a))
			case fTop:
				a := []int{2000 + 20*i + e.to}
				aux = append(aux, fmt.Sprintf("%s:-:R:%s", pstr(a), sub(e.to, 1)))
				refs = append(refs, pstr(a))
			case fGroup:
				// for k, x in mid<p> {(k): x.out}: the source, and x.out for every member
				refs = append(refs, pstr([]int{0, 300 + e.to}))
				for _, l := range w.lateOf(e.to) {
					refs = append(refs, sub(l, 1))
				}
			case fEncl:
				refs = append(refs, pstr([]int{0, 200 + e.to}))
			case fEnclMid:
				refs = append(refs, pstr([]int{0, 300 + e.to}))
			case fAux2:
				c := []int{0, 4000 + 20*i + e.to}
				b := []int{0, 3000 + 20*i + e.to}
				aux = append(aux, fmt.Sprintf("%s:-:R:%s", pstr(c), sub(e.to, 1)))
				aux = append(aux, fmt.Sprintf("%s:-:R:%s", pstr(b), pstr(c)))
				refs = append(refs, pstr(b))
			}
		}
		rs := "-"
		if len(refs) > 0 {
			rs = strings.Join(refs, ",")
		}
		g := "-"
		if t.trig >= 0 {
			g = strconv.Itoa(t.trig)
		}
		return fmt.Sprintf("%s:%s:T%d:%s", pstr(w.tpath(i)), g, i, rs)
	}
	// same field order as render(): ungrouped static tasks, groups, mid<p>, aliases
	groups := map[int][]int{}
	var gkeys []int
	for _, t := range w.tasks {
		if t.trig >= 0 {
			continue
		}
		if t.group >= 0 {
			if _, ok := groups[t.group]; !ok {
				gkeys = append(gkeys, t.group)
			}
			groups[t.group] = append(groups[t.group], t.id)
			continue
		}
		ents = append(ents, taskEntry(t.id))
	}
	for _, g := range gkeys {
		for _, i := range groups[g] {
			ents = append(ents, taskEntry(i))
		}
	}
	for _, t := range w.tasks {
		for _, l := range w.lateOf(t.id) {
			ents = append(ents, taskEntry(l))
		}
	}
	return strings.Join(append(ents, aux...), ";")
}

// genXWF: a generated workflow plus references whose effect on the dependency sets
// is only described by the discovery model: whole-struct references to groups that
// contain tasks (static groups, groups of late tasks), alias chains outside tasks,
// references into late tasks from tasks that exist from the start.
func genXWF(r *common.Rng) *wfSpec {
	kinds := []string{"late", "late", "random", "diamond", "fanin", "chain", "latecyclic"}
	w := genWF(r, kinds[r.Intn(len(kinds))])
	w.kind = "x-" + w.kind
	n := len(w.tasks)
	if !strings.Contains(w.kind, "late") {
		// make sure there are groups
		for i := range w.tasks {
			if r.Chance(1, 2) {
				w.tasks[i].group = r.Intn(2)
			} else {
				w.tasks[i].group = -1
			}
		}
	}
	hasEncl := false
	ne := 1 + r.Intn(3)
	for k := 0; k < ne; k++ {
		i := r.Intn(n)
		t := &w.tasks[i]
		switch r.Intn(4) {
		case 0: // enclosing static group; only from a task that is in no group (structural cycles otherwise)
			if t.trig >= 0 || t.group >= 0 {
				continue
			}
			var gs []int
			seen := map[int]bool{}
			for _, u := range w.tasks {
				if u.trig < 0 && u.group >= 0 && !seen[u.group] {
					seen[u.group] = true
					gs = append(gs, u.group)
				}
			}
			if len(gs) == 0 {
				continue
			}
			t.edges = append(t.edges, edge{gs[r.Intn(len(gs))], fEncl})
			hasEncl = true
		case 1: // the struct holding the late tasks of p
			if t.trig >= 0 || t.group >= 0 {
				continue
			}
			var ps []int
			for p := 0; p < n; p++ {
				if len(w.lateOf(p)) > 0 {
					ps = append(ps, p)
				}
			}
			if len(ps) == 0 {
				continue
			}
			t.edges = append(t.edges, edge{ps[r.Intn(len(ps))], fEnclMid})
			hasEncl = true
		case 2: // alias chain to another task's output
			j := r.Intn(n)
			if j == i {
				continue
			}
			dup := false
			for _, e := range t.edges {
				if e.form == fAux2 && e.to == j {
					dup = true
				}
			}
			if !dup {
				t.edges = append(t.edges, edge{j, fAux2})
			}
		case 3: // reference into a late task from a task that exists from the start
			if t.trig >= 0 {
				continue
			}
			var ls []int
			for _, u := range w.tasks {
				if u.trig >= 0 {
					ls = append(ls, u.id)
				}
			}
			if len(ls) == 0 {
				continue
			}
			l := ls[r.Intn(len(ls))]
			dup := false
			for _, e := range t.edges {
				if e.form == fLateRef && e.to == l {
					dup = true
				}
			}
			if !dup {
				t.edges = append(t.edges, edge{l, fLateRef})
			}
		}
	}
	if hasEncl {
		// a task whose value embeds a whole group must not be referenced as a whole from
		// inside that group (CUE structural cycle): refer to output fields only
		for i := range w.tasks {
			for k := range w.tasks[i].edges {
				if w.tasks[i].edges[k].form == fRoot {
					w.tasks[i].edges[k].form = fOut
				}
			}
		}
	}
	return w
}

func xCaseLine(w *wfSpec, o jobOut) string {
	if !strings.HasPrefix(o.caseLine, "FLOW ") {
		return o.caseLine // SKIP
	}
	labels := o.caseLine[strings.LastIndex(o.caseLine, "|")+1:]
	return fmt.Sprintf("FLOWX %d | %s |%s", len(w.tasks), w.config(), labels)
}
